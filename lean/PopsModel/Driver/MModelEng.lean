/-
  Driver engine for `Model::run_step` with SEVERAL hosts (prefix `mm.`; harness/h_mmodel.cpp).
  Every host's rasters, the pool-level sums and the pest rasters are observed after every action
  block (trace hook) and after every single landing of a spread step. Per line the engine
  (1) evaluates the property predicates on the implementation's observed values (PROPFAIL <id>):
      C16 pool sums (`poolSumsOK`), per landing `atMostOneSpec` / `multiEstablishSpec` / rejection of
          a combined suitability above one, over the whole spread block `landSpreadOK`, deterministic
          generation = sum over hosts of the competency-scaled products (`generatedSpec`);
      C01 across hosts (`modelLedgerOK`) and per host and cell (`ledgerOK`), C02 / C03 per host
          (`nonNeg`, `totalsOK`, `mortOK`; F20 taints a host as in the single-host engine);
      C05 per host (`offSeasonFrame` over every step that is not a spread step, `stepForwardSpec`,
          `arrivalsStayExposed`), C09 (`plan`), C10 / C11 / C12 per host through the single-host
          engine's handlers (host h with its OWN mortality rate and lag), C17 on the merged pool;
  (2) recomputes with the L1 model (`landAt` / `multiDisperserTo`, `modelGenerated`, the single-host
      functions per host, `overpopulationStep` on the merged pool) and compares exactly (MISMATCH).
  Line syntax: see harness/h_mmodel.cpp.
-/
import PopsModel.Driver.Util
import PopsModel.Driver.HostEng
import PopsModel.Driver.MultiEng
import PopsModel.Model.MModelPred
namespace Pops.Driver.MModelEng
open Pops Pops.Driver Pops.MM

structure State where
  nHosts : Nat := 0
  mt : ModelType := .si
  latency : Nat := 0
  rows : Nat := 0
  cols : Nat := 0
  mcfg : MultiCfg := { arrival := .infect, sto := true, pEst := 0 }
  ps : List HostParams := []
  tbl : MultiEng.State := {}            -- pest-host and competency table (parsed by the C16 engine)
  cfg : StepCfg := default
  treats : List (TreatSpec × TreatApp × List Rat) := []
  hosts : MLand := []                   -- per host: its cells (observed)
  suits : List (List (Int × Int)) := [] -- per host: its suitable-cell list
  tainted : List Bool := []             -- per host: a treatment broke i = sum(mort) (F20)
  stepStart : MLand := []
  npop : List Int := []
  w : Option (List Rat) := none
  disp : List Int := []
  est : List Int := []
  spreadStart : CLand := []
  spreadLand : CLand := []              -- cell-major state through the landings of the step
  origins : List Nat := []              -- origin cell of every landing so far (reverse order)
  estBy : List Nat := []                -- origin cells of the established landings
  outTargets : List (Int × Int) := []   -- landings outside the study area (reverse order)
  rejected : Bool := false              -- the last landing was rejected (combined suitability above one)
  inSpread : Bool := false
deriving Inhabited

structure Obs where
  ret : List String
  hosts : MLand
  suits : List (List (Int × Int))
  inf : List Int
  tot : List Int
  extra : List (List String)

def obs? (h : Nat) (toks : List String) : Option Obs :=
  match HostEng.segments toks with
  | ret :: segs =>
    if segs.length < 2 * h + 2 then none else do
    let hosts ← (segs.take h).mapM fun seg => seg.mapM HostEng.cell?
    let suits ← ((segs.drop h).take h).mapM fun seg => seg.mapM HostEng.pair?
    let inf ← parseInts? (segs.getD (2 * h) [])
    let tot ← parseInts? (segs.getD (2 * h + 1) [])
    some { ret, hosts, suits, inf, tot, extra := segs.drop (2 * h + 2) }
  | [] => none

def nCells (st : State) : Nat := st.rows * st.cols
def grid (st : State) : Grid := { rows := st.rows, cols := st.cols }

def envAt (st : State) (k : Nat) : MEnv :=
  { n := st.npop.getD k 1, w := st.w.map fun l => l.getD k 1, pht := st.tbl.pht, comp := st.tbl.comp }

def joinV (parts : List String) : String :=
  match parts.filter (· != "ok") with
  | [] => "ok"
  | l => " ;; ".intercalate l

/-- Verdict parts of a single-host handler run for host `h` (its C18 list-sum check relates a host's
    own cell list to its own raster and does not apply to the pool's list: dropped). -/
def hostParts (v : String) (h : Nat) : List String :=
  ((v.splitOn " ;; ").filter fun p => p != "ok" && !(p.startsWith "PROPFAIL C18")).map fun p => p ++ s!" host={h}"

def hostState (st : State) (h : Nat) (suit : List (Int × Int)) : HostEng.State :=
  { mt := st.mt, latency := st.latency, rows := st.rows, cols := st.cols, cells := st.hosts.getD h [], suit := suit,
    cfg := st.cfg, tainted := st.tainted.getD h false, treats := st.treats }

def suitToks (s : List (Int × Int)) : List String := s.map fun (r, c) => s!"{r},{c}"

/-- Run the single-host engine's handler `cmd` on host `h`: pre state from `st`, post state observed. -/
def delegate (st : State) (h : Nat) (cmd : String) (inp ret : List String) (suitPre suitPost : List (Int × Int))
    (post : List Cell) : HostEng.State × List String :=
  let (s', v) := HostEng.handle (hostState st h suitPre) cmd inp
    (ret ++ ["|"] ++ post.map HostEng.showCell ++ ["|"] ++ suitToks suitPost)
  (s', hostParts v h)

/-- Checks common to every snapshot: pool-level sums (C16) and the ledger over all hosts (C01). -/
def common (st : State) (o : Obs) (cls : Ledger) : List String :=
  let sums : List String :=
    if o.inf.length != nCells st || !(poolSumsOK o.hosts o.inf o.tot) then
      let k := ((List.range o.inf.length).find? fun k => !(sumsSpec (cellsAtM o.hosts k) o.inf[k]! o.tot[k]!)).getD 0
      [s!"PROPFAIL C16 sums cell={k} infected_at={o.inf.getD k 0} total_hosts_at={o.tot.getD k 0} hosts={MultiEng.showCells (cellsAtM o.hosts k)}"]
    else []
  let ledger : List String :=
    if !(modelLedgerOK cls st.hosts o.hosts) then
      [s!"PROPFAIL C01 model_ledger hosts_before={MLand.hosts st.hosts} after={MLand.hosts o.hosts} died_before={MLand.died st.hosts} after={MLand.died o.hosts}"]
    else []
  sums ++ ledger

def finish (st : State) (o : Obs) (parts : List String) : State × String :=
  ({ st with hosts := o.hosts, suits := o.suits }, joinV parts)

def suitIdx0 (st : State) : List Nat :=
  ((st.suits.headD []).filter fun (r, c) => !((grid st).isOutside r c)).map fun (r, c) => (grid st).idx r c

def shapeOK (st : State) (o : Obs) : Bool :=
  o.hosts.length == st.nHosts && o.suits.length == st.nHosts && o.hosts.all (fun l => l.length == nCells st) &&
  o.inf.length == nCells st && o.tot.length == nCells st

def firstDiffC (a b : CLand) : Option Nat :=
  (List.range (max a.length b.length)).find? fun k => a[k]? != b[k]?

def count (l : List Nat) (k : Nat) : Nat := (l.filter (· == k)).length

def handle (st : State) (cmd : String) (inp obsToks : List String) : State × String :=
  match cmd, inp with
  | "mm.begin", [h, mt, lat, rows, cols, arr, sto, pEst] =>
    match parseNat? h, modelTypeFromString mt, parseNat? lat, parseNat? rows, parseNat? cols, arrivalFromString arr, parseRat? pEst with
    | some h, .ok mt, some l, some r, some c, .ok arr, some pEst =>
      let z := List.replicate (r * c) (0 : Int)
      ({ nHosts := h, mt := mt, latency := l, rows := r, cols := c, mcfg := { arrival := arr, sto := sto = "1", pEst := pEst },
         disp := z, est := z, tbl := { nHosts := h } }, "ok")
    | _, _, _, _, _, _, _ => (st, "BADLINE")
  | "mm.host", [k, sto, pEst, rr, _nm] =>
    match parseNat? k, parseRat? pEst, parseRat? rr with
    | some k, some pEst, some rr =>
      if k ≠ st.ps.length then (st, "BADLINE host order")
      else ({ st with ps := st.ps ++ [{ mt := st.mt, sto := sto = "1", pEst := pEst, rr := rr }] }, "ok")
    | _, _, _ => (st, "BADLINE")
  | "mm.nopht", _ => let (t, v) := MultiEng.handle st.tbl "mh.nopht" inp obsToks; ({ st with tbl := t }, v)
  | "mm.nocomp", _ => let (t, v) := MultiEng.handle st.tbl "mh.nocomp" inp obsToks; ({ st with tbl := t }, v)
  | "mm.readpht", _ => let (t, v) := MultiEng.handle st.tbl "mh.readpht" inp obsToks; ({ st with tbl := t }, v)
  | "mm.readcomp", _ => let (t, v) := MultiEng.handle st.tbl "mh.readcomp" inp obsToks; ({ st with tbl := t }, v)
  | "mm.cfg", _ =>
    let (s', v) := HostEng.handle {} "hp.cfg" inp obsToks
    ({ st with cfg := s'.cfg }, v)
  | "mm.treatlist", _ =>
    let (s', v) := HostEng.handle {} "hp.treatlist" inp obsToks
    ({ st with treats := s'.treats }, v)
  | "mm.env", [_step, npopTok, wTok] =>
    match (HostEng.kv? npopTok "npop").bind HostEng.intList?, HostEng.kv? wTok "w" with
    | some npop, some wt =>
      let w := if wt == "none" then none else HostEng.ratList? wt
      if npop.length ≠ nCells st then (st, "BADLINE npop")
      else ({ st with npop := npop, w := w, rejected := false, inSpread := false }, "ok")
    | _, _ => (st, "BADLINE")
  | "mm.state", [] =>
    match obs? st.nHosts obsToks with
    | some o =>
      if !(shapeOK st o) || st.ps.length ≠ st.nHosts then (st, "BADLINE shape") else
      let st' := { st with hosts := o.hosts, suits := o.suits, stepStart := o.hosts, tainted := List.replicate st.nHosts false }
      (st', joinV (common st' o .reclassify))
    | none => (st, "BADLINE")
  -- deterministic / stochastic generation: the disperser raster right after SpreadAction::generate
  | "mm.gen", [detTok] =>
    match HostEng.segments obsToks with
    | [_, dispT] =>
      match parseInts? dispT with
      | none => (st, "BADLINE")
      | some dispO =>
        if dispO.length ≠ nCells st then (st, "BADLINE disp") else
        let n := nCells st
        let land := toCellMajor st.hosts n
        let sidx := suitIdx0 st
        let det := detTok == "det=1"
        let env := envAt st
        let neg := (List.range n).find? fun k => dispO[k]! < 0
        let noInf := sidx.find? fun k => multiInfectedAt (land[k]!) ≤ 0 && ((land[k]!).all fun c => decide (c.i ≤ 0)) && dispO[k]! != 0
        let specBad : Option String :=
          if !det then none else
          (List.zip sidx (generatedSpec env st.ps land sidx)).findSome? fun (k, sp) =>
            match sp with
            | some v => if dispO[k]! == v then none else
                some (s!"PROPFAIL C16 disperser_sum cell={k} dispersers={dispO[k]!} expected={v} (sum over hosts of lround(rate x weather x competency x infected)) hosts={MultiEng.showCells (land[k]!)}" ++
                  -- C04 states the same count (infected x reproductive rate x weather x host competency, rounded; one or several hosts)
                  s!" ;; PROPFAIL C04 deterministic_count cell={k} dispersers={dispO[k]!} expected={v} hosts={MultiEng.showCells (land[k]!)}")
            | none => some s!"MISMATCH mm.gen competency lookup rejected by the specification at cell={k}"
        let modelBad : Option String :=
          if !det then none else
          match modelGenerated env st.ps land sidx with
          | .ok l => if l == sidx.map (fun k => dispO[k]!) then none else some s!"MISMATCH mm.gen model={l}"
          | .error e => some s!"MISMATCH mm.gen model={errTok e}"
        let frame := (List.range n).find? fun k => !(sidx.contains k) && dispO[k]! != st.disp.getD k 0
        let verdict :=
          match neg, noInf, specBad, modelBad, frame with
          | some k, _, _, _, _ => s!"PROPFAIL C02 nonneg dispersers cell={k} disp={dispO[k]!}"
          | _, some k, _, _, _ => s!"PROPFAIL C04 dispersers_without_infection cell={k} disp={dispO[k]!}"
          | _, _, some v, _, _ => v
          | _, _, _, some v, _ => v
          | _, _, _, _, some k => s!"MISMATCH mm.gen cell={k} outside the pool's cell list changed"
          | _, _, _, _, _ => "ok"
        let est' := sidx.foldl (fun l k => l.set k 0) st.est
        ({ st with disp := dispO, est := est', spreadStart := land, spreadLand := land, origins := [], estBy := [], outTargets := [],
                   rejected := false, inSpread := true }, verdict)
    | _ => (st, "BADLINE")
  -- one landing: mm.land j or,oc tr,tc v u pick => ret calls | cells of the target (one per host)
  | "mm.land", [_j, orig, targ, vTok, uTok, pickTok] =>
    match HostEng.pair? orig, HostEng.pair? targ, parseRat? vTok, parseRat? uTok, HostEng.segments obsToks with
    | some (orow, ocol), some (tr, tc), some v, some u, [[ret, calls], cellT] =>
      let g := grid st
      let ko := g.idx orow ocol
      let st1 := { st with origins := ko :: st.origins }
      if g.isOutside tr tc then
        let st2 := { st1 with outTargets := (tr, tc) :: st1.outTargets }
        (st2, if ret == "out" && calls == "0" then "ok" else s!"PROPFAIL C04 outside_recorded target={tr},{tc} ret={ret} calls={calls}")
      else
      match cellT.mapM HostEng.cell? with
      | none => (st, "BADLINE cells")
      | some post =>
        let k := g.idx tr tc
        let pre := st.spreadLand.getD k []
        if post.length ≠ pre.length then (st, "BADLINE hostcount") else
        let env := envAt st k
        let pick := (parseNat? pickTok).getD 0
        let tester := if st.nHosts == 1 then v else u
        let ws := MultiEng.weightsInDomain env pre
        let model := multiDisperserTo st.mcfg st.ps env pre pick tester
        let upd (s : State) : State := { s with spreadLand := s.spreadLand.set k post }
        if (MultiEng.errOf? ret).isSome then
          match ws with
          | some l =>
            if sumR l > 1 then
              ({ upd st1 with rejected := ret == "err:invalid_argument" },
               if ret == "err:invalid_argument" then (if post == pre then "ok" else "MISMATCH mm.land state changed by a rejected landing")
               else s!"PROPFAIL C16 suitability_over_one wrong_error {ret}")
            else (upd st1, s!"PROPFAIL C16 landing_rejected_in_domain {ret} total={sumR l} cell={k}")
          | none =>
            let m := MultiEng.exceptTok (fun _ => "ok") model
            ({ upd st1 with rejected := ret == m }, if ret == m then "ok" else s!"MISMATCH mm.land model={m}")
        else if ret == "out" then (upd st1, s!"PROPFAIL C04 outside_recorded target={tr},{tc} is inside the study area")
        else
          match parseInt? ret with
          | none => (st, "BADLINE ret")
          | some res =>
            let st2 := upd (if res == 1 then { st1 with estBy := ko :: st1.estBy } else st1)
            if !(atMostOneSpec st.ps pre post res) then
              (st2, s!"PROPFAIL C16 at_most_one_host cell={k} ret={res} pre={MultiEng.showCells pre} post={MultiEng.showCells post}")
            else
              let inv := HostEng.invariants pre post (fun _ => .reclassify) false (fun _ => false)
              let sei : Option String :=
                if st.mt == .sei then (List.range pre.length).findSome? fun h =>
                  let a := pre[h]!; let b := post[h]!
                  if a.e.isEmpty || arrivalsStayExposed a b then none
                  else some (s!"PROPFAIL C05 arrival_not_exposed cell={k} host={h} pre={HostEng.showCell a} post={HostEng.showCell b}" ++
                    s!" ;; PROPFAIL C04 established_host_not_exposed cell={k} host={h} pre={HostEng.showCell a} post={HostEng.showCell b}")
                else none
              let spec : Option String :=
                match ws with
                | none => none
                | some l =>
                  if sumR l > 1 then some s!"PROPFAIL C16 suitability_over_one not_rejected total={sumR l} ret={res} cell={k}"
                  else if pre.length ≥ 2 && decide (sumR l > 0) && !(validPickB l v pick && pickTok != "-") then
                    some s!"MISMATCH mm.land pick={pickTok} not possible for the weights {l}"
                  else if !(multiEstablishSpec st.mcfg st.ps l pre pick tester res) then
                    -- the establishment rule is C12's (probability = suitability; deterministic: suitability > 1 - p)
                    some (s!"PROPFAIL C16 establish_event cell={k} ret={res} total={sumR l} weights={l} pick={pick} tester={tester}" ++
                      s!" ;; PROPFAIL C12 establish_event cell={k} ret={res} total={sumR l} weights={l} pick={pick} tester={tester}")
                  else none
              match HostEng.joinVs [inv.map (· ++ s!" (hosts of cell {k})"), sei, spec] with
              | some x => (st2, x)
              | none =>
                -- exact replay through the model of the landing (`landAt`) and the generator calls
                match landAt st.mcfg st.ps st.spreadLand { k := k, env := env, pick := pick, u := tester }, model with
                | .ok (land', r), .ok (_, _, used) =>
                  if r ≠ res then (st2, s!"MISMATCH mm.land ret model={r}")
                  else if land' != st.spreadLand.set k post then (st2, s!"MISMATCH mm.land cells model={MultiEng.showCells (land'.getD k [])}")
                  else if toString used ≠ calls then (st2, s!"MISMATCH mm.land generator calls model={used} observed={calls}")
                  else (st2, "ok")
                | .error e, _ => (st2, s!"MISMATCH mm.land model={errTok e}")
                | _, .error e => (st2, s!"MISMATCH mm.land model={errTok e}")
    | _, _, _, _, _ => (st, "BADLINE")
  | "mm.plan", [stepTok] =>
    let anyTaint := st.tainted.any id
    let hst : HostEng.State := { cfg := st.cfg, tainted := anyTaint, treats := st.treats, rasterEntry := false }
    -- a landing rejected because the combined suitability exceeds one ends the step with invalid_argument
    let legitReject : Bool :=
      match parseNat? stepTok, obsToks with
      | some step, [status, tr] =>
        st.rejected && status == "err:invalid_argument" &&
          (match HostEng.trace? tr with
           | some observed => observed.map (·.1) == ((plan st.cfg step).map (·.1)).takeWhile (· != .spread)
           | none => false)
      | _, _ => false
    let vp := if legitReject then "ok" else (HostEng.planVerdict hst stepTok obsToks).2
    -- C05 per host, state-based: over a step that is not a spread step no exposed cohort ages, nothing matures
    let off : List String :=
      match parseNat? stepTok, obsToks with
      | some step, "ok" :: _ =>
        if st.mt == .sei && !(schedAt st.cfg.spreadSched step) then
          (List.range st.nHosts).filterMap fun h =>
            let a := st.stepStart.getD h []; let b := st.hosts.getD h []
            if offSeasonFrame a b then none else
              let k := ((List.range b.length).find? fun k => !(exposedFrozen a[k]! b[k]!)).getD 0
              some s!"PROPFAIL C05 cohorts_aged_outside_spread_step step={step} host={h} cell={k} start={HostEng.showCell a[k]!} end={HostEng.showCell b[k]!}"
        else []
      | _, _ => []
    ({ st with stepStart := st.hosts, inSpread := false }, joinV (vp :: off))
  | _, _ =>
    match obs? st.nHosts obsToks with
    | none => (st, "BADLINE obs")
    | some o =>
      if !(shapeOK st o) then (st, "BADLINE shape") else
      let H := st.nHosts
      let pool := st.suits.headD []
      let sameSuits : List String := if o.suits == st.suits then [] else [s!"MISMATCH {cmd} suitable-cell lists changed"]
      match cmd, inp with
      | "mm.lethal", _ =>
        let parts := (List.range H).flatMap fun h => (delegate st h "hp.lethal" inp o.ret pool (o.suits.headD []) (o.hosts.getD h [])).2
        finish st o (common st o .reclassify ++ parts ++ sameSuits)
      | "mm.survival", _ =>
        let parts := (List.range H).flatMap fun h => (delegate st h "hp.survival" inp o.ret pool (o.suits.headD []) (o.hosts.getD h [])).2
        finish st o (common st o .reclassify ++ parts ++ sameSuits)
      | "mm.stepfwd", [_] =>
        let parts := (List.range H).flatMap fun h => (delegate st h "hp.stepfwd" inp o.ret (st.suits.getD h []) (o.suits.getD h []) (o.hosts.getD h [])).2
        finish st o (common st o .reclassify ++ parts ++ sameSuits)
      -- Treatments::manage on every host, each over its own cell list
      | "mm.manage", [_stepTok] =>
        let rs := (List.range H).map fun h => delegate st h "hp.manage" inp o.ret (st.suits.getD h []) (o.suits.getD h []) (o.hosts.getD h [])
        let tainted := rs.map fun r => r.1.tainted
        -- C10 on every host (share per class, expiry, untouched cells): evaluated by the single-host handler
        -- `hp.manage` on the host's own cells and cell list
        let (st', v) := finish st o (common st o .removal ++ rs.flatMap (·.2) ++ sameSuits)
        ({ st' with tainted := tainted }, v)
      -- Mortality: host h with the rate and lag of ITS row of the pest-host table, over the pool's cell list
      | "mm.mortality", [] =>
        match st.tbl.pht with
        | none => finish st o ["MISMATCH mm.mortality without a pest-host table"]
        | some t =>
          let parts := (List.range H).flatMap fun h =>
            match t.rate[h]?, t.lag[h]? with
            | some rate, some lag =>
              let p := (delegate st h "hp.mortality" [toString rate, toString lag] o.ret pool (o.suits.headD []) (o.hosts.getD h [])).2
              p ++ (if p.any (fun x => x.startsWith "PROPFAIL C11 mortality") then
                      [s!"PROPFAIL C16 per_host_mortality host={h} does not follow its own table row rate={rate} lag={lag}"] else [])
            | _, _ => [s!"MISMATCH mm.mortality host={h} has no table row"]
          -- the model of the whole action (`modelMortality`, theorem C16_model_mortality_per_host)
          let whole : List String :=
            if !parts.isEmpty then [] else
            match modelMortality t (suitIdx0 st) 0 st.hosts with
            | .ok m' => if m' == o.hosts then [] else ["MISMATCH mm.mortality model of the action over all hosts differs"]
            | .error e => [s!"MISMATCH mm.mortality model={errTok e}"]
          finish st o (common st o .death ++ parts ++ whole ++ sameSuits)
      -- HostMovement: forwarded to the first host only
      | "mm.movement", _ =>
        let p0 := (delegate st 0 "hp.movement" inp o.ret (st.suits.getD 0 []) (o.suits.getD 0 []) (o.hosts.getD 0 [])).2
        let others := (List.range H).filterMap fun h =>
          if h == 0 then none
          else if o.hosts.getD h [] == st.hosts.getD h [] && o.suits.getD h [] == st.suits.getD h [] then none
          else some s!"MISMATCH mm.movement host={h} changed (the pool forwards host moves to the first host only)"
        finish st o (common st o .reclassify ++ p0 ++ others)
      | "mm.after", [action, _, _] =>
        finish st o (common st o .reclassify ++
          (if o.hosts == st.hosts && o.suits == st.suits then [] else [s!"PROPFAIL C09 {action}_changed_hosts"]))
      -- end of SpreadAction: the state must be the one the landings produced
      | "mm.spread", [] =>
        match o.extra with
        | [dispT, estT, outT] =>
          match parseInts? dispT, parseInts? estT, outT.mapM HostEng.pair? with
          | some dispO, some estO, some outO =>
            let n := nCells st
            let obsC := toCellMajor o.hosts n
            let sidx := suitIdx0 st
            let origins := st.origins.reverse
            let expOrigins := sidx.flatMap fun k => List.replicate (st.disp.getD k 0).toNat k
            let moved : List String :=
              match firstDiffC st.spreadLand obsC with
              | some k => [s!"PROPFAIL C16 at_most_one_host cell={k} changed outside the landings: after_last_landing={MultiEng.showCells (st.spreadLand.getD k [])} end_of_spread={MultiEng.showCells (obsC.getD k [])}"]
              | none => []
            let agg : List String :=
              if landSpreadOK st.spreadStart obsC then [] else
                let k := ((List.range n).find? fun k => !(cellSpreadOK (st.spreadStart.getD k []) (obsC.getD k []))).getD 0
                [s!"PROPFAIL C16 landing_aggregate cell={k} before={MultiEng.showCells (st.spreadStart.getD k [])} after={MultiEng.showCells (obsC.getD k [])}"]
            let c04 : List String :=
              if dispO != st.disp then ["MISMATCH mm.spread disperser raster changed during dispersal"]
              else if !st.rejected && origins != expOrigins then [s!"PROPFAIL C04 one_target_per_disperser landings={origins.length} dispersers={expOrigins.length}"]
              else if outO != st.outTargets.reverse then [s!"PROPFAIL C04 outside_recorded observed={outO.length} expected={st.outTargets.length}"]
              else
                match (List.range n).find? fun k => estO[k]! != (if sidx.contains k then (count st.estBy k : Int) else st.est.getD k 0) with
                | some k => [s!"PROPFAIL C04 established_count cell={k} established={estO[k]!} landings_established={count st.estBy k}"]
                | none =>
                  if (List.range n).any fun k => estO[k]! > dispO[k]! && sidx.contains k then ["PROPFAIL C04 established_le_generated"]
                  else if sLostTotal st.spreadStart obsC != sumL (sidx.map fun k => estO[k]!) then
                    [s!"PROPFAIL C04 ledger susceptible_consumed={sLostTotal st.spreadStart obsC} established={sumL (sidx.map fun k => estO[k]!)}"]
                  else []
            let (st', v) := finish st o (common st o .reclassify ++ moved ++ agg ++ c04 ++ sameSuits)
            ({ st' with est := estO, inSpread := false }, v)
          | _, _, _ => (st, "BADLINE spread-obs")
        | _ => (st, "BADLINE spread")
      -- MoveOverpopulatedPests through the pool: the pool acts as ONE merged host (sums of S and I)
      | "mm.overpop", [thr, leave, drT, dcT] =>
        match parseRat? thr, parseRat? leave, o.extra with
        | some thr, some leave, [outT] =>
          match outT.mapM HostEng.pair? with
          | none => (st, "BADLINE")
          | some outO =>
            let n := nCells st
            let g := grid st
            let perHost : List String := (List.range H).flatMap fun h =>
              let a := st.hosts.getD h []; let b := o.hosts.getD h []
              let inv := match HostEng.invariants a b (fun _ => .reclassify) true (fun _ => false) with
                | some x => [x ++ s!" host={h}"] | none => []
              let frame := ((List.range n).find? fun k => { b[k]! with s := a[k]!.s, i := a[k]!.i } != a[k]!).map
                fun k => s!"PROPFAIL C17 overpopulation_changed_other_classes host={h} cell={k} pre={HostEng.showCell a[k]!} post={HostEng.showCell b[k]!}"
              inv ++ frame.toList
            let pre := mergedLand st.hosts n
            let post := mergedLand o.hosts n
            let departing := pool.filter fun (r, c) => !(g.isOutside r c) && departs thr (pre[g.idx r c]!)
            let stay : List String := ((List.range n).findSome? fun k =>
              let isDep := departing.any fun (r, c) => g.idx r c == k
              if !isDep && (post[k]!).i < (pre[k]!).i then
                some s!"PROPFAIL C17 departure_rule cell={k} pool_infected_before={(pre[k]!).i} after={(post[k]!).i} pool_susceptible_before={(pre[k]!).s}"
              else none).toList
            let rule : List String :=
              if !stay.isEmpty then stay else
              match parseInt? drT, parseInt? dcT with
              | some dr, some dc =>
                let targets := departing.map fun (r, c) => (r + dr, c + dc)
                let expOut := (departing.zip targets).flatMap fun ((r, c), (tr, tc)) =>
                  if g.isOutside tr tc then List.replicate (leavingCount leave (pre[g.idx r c]!)).toNat (tr, tc) else []
                if outO != expOut then [s!"PROPFAIL C17 outside_recorded observed={outO.length} expected={expOut.length}"]
                else
                  let (cells', _, _) := overpopulationStep g pool pre { disp := [], est := [], outside := [] } thr leave targets
                  if !(mergedSame cells' post) then
                    let k := ((List.range n).find? fun k => (cells'[k]!).s != (post[k]!).s || (cells'[k]!).i != (post[k]!).i).getD 0
                    let isT := targets.any fun (r, c) => !(g.isOutside r c) && g.idx r c == k
                    let isD := departing.any fun (r, c) => g.idx r c == k
                    let inDom := pre.all (fun c => decide (0 ≤ c.s) && decide (0 ≤ c.i)) && decide (0 ≤ thr) && decide (0 ≤ leave) && decide (leave ≤ 1)
                    -- deterministic neighbour kernel: every destination is known, so C17's sentence fixes what the pool
                    -- (as one merged host) holds afterwards: round(infected x share) leave each qualifying cell, all
                    -- departures before any arrival, min(arriving, susceptible) establish
                    if inDom && isT then
                      [s!"PROPFAIL C17 arrival cell={k} pool expected s={(cells'[k]!).s} i={(cells'[k]!).i} observed s={(post[k]!).s} i={(post[k]!).i} before s={(pre[k]!).s} i={(pre[k]!).i}"]
                    else if inDom && isD then
                      [s!"PROPFAIL C17 leaving_count cell={k} pool leaves={(pre[k]!).i - (post[k]!).i} expected={leavingCount leave (pre[k]!)} before s={(pre[k]!).s} i={(pre[k]!).i} after s={(post[k]!).s} i={(post[k]!).i}"]
                    else
                    [s!"MISMATCH mm.overpop pool cell={k} model s={(cells'[k]!).s} i={(cells'[k]!).i} observed s={(post[k]!).s} i={(post[k]!).i}"]
                  else
                    -- C16 split: a cell that only sends keeps every host's loss within its infected,
                    -- a cell that only receives keeps every host's gain within its susceptible
                    let tIdx := (targets.filter fun (r, c) => !(g.isOutside r c)).map fun (r, c) => g.idx r c
                    let sIdx := departing.map fun (r, c) => g.idx r c
                    ((List.range n).findSome? fun k =>
                      (List.range H).findSome? fun h =>
                        let a := (st.hosts.getD h [])[k]!; let b := (o.hosts.getD h [])[k]!
                        if sIdx.contains k && !(tIdx.contains k) && (b.i > a.i || b.i < 0) then
                          some s!"PROPFAIL C16 split_bounded pests_from cell={k} host={h} infected_before={a.i} after={b.i}"
                        else if tIdx.contains k && !(sIdx.contains k) && (b.s > a.s || b.s < 0) then
                          some s!"PROPFAIL C16 split_bounded pests_to cell={k} host={h} susceptible_before={a.s} after={b.s}"
                        else none).toList
              | _, _ =>
                let left := sumL (departing.map fun (r, c) => leavingCount leave (pre[g.idx r c]!))
                let before := sumL (pre.map (·.i)); let after := sumL (post.map (·.i))
                if !outO.isEmpty then [s!"PROPFAIL C17 uniform_destination_outside recorded={outO.length}"]
                else if after > before || after < before - left then [s!"PROPFAIL C17 leaving_count infected_before={before} after={after} left={left}"]
                else []
            finish st o (common st o .reclassify ++ perHost ++ rule ++ sameSuits)
        | _, _, _ => (st, "BADLINE")
      | _, _ => (st, "BADLINE cmd")

end Pops.Driver.MModelEng
