/-
  Driver engine for C16 (several hosts). Per operation line the engine
  (1) evaluates the C16 predicates of Model/MultiPred.lean on the implementation's observed
      values (PROPFAIL C16 ..., or KNOWN C16 F19 ... inside the region of the open finding),
  (2) recomputes the outcome with the L1 model of Model/Multi.lean, random draws taken from the
      observation and checked for validity, and compares exactly (MISMATCH).
  Sentences that C16 shares with other properties carry one verdict per property (" ;; "): per-host
  availability of a split C02, pool-level departure / arrival C17, the establishment rule C12, the landing
  class C04 / C05, the deterministic disperser count C04, per-host mortality parameters C11, mortality on a
  consistent state C03; a host move (forwarded to the first host) is judged by the single-host predicates.
  Protocol (landscape 1 x 2; every host lists both cells on every line):
    mh.arrival <name> => <ok|err:..> <current value>
    mh.begin <hosts> <land|infect> <cfg stochastic> <cfg pEst> <weather 0|1>
    mh.host <k> <SI|SEI> <stochastic> <pEst> <reproductive rate>
    mh.readpht <row>.. => <ok|err:..> | <row>..         row = sus,rate,lag
    mh.mkpht <n> <rate> <lag> => ok | <row>..
    mh.nopht
    mh.readcomp <row>.. => <ok|err:..> <complete 0|1> | <row>..      input row = p,..,p,c  stored row = bits;c
    mh.nocomp
    mh.state => | <cellA> <cellB> | <cellA> <cellB> ...             (one segment per host)
    mh.single <cell> <u> <N> <w|none> => <multi ret> <multi calls> <bare ret> <bare calls> | cA cB | cA cB
    mh.dispto <cell> <v> <u> <N> <w|none> => <ret> <calls> <pick|-> | state
    mh.pestsfrom|mh.peststo <cell> <count> => <ret> | state
    mh.dispfrom <cell> <w|none> => <ret> | state
    mh.sums <cell> => <infected> <total> | state
    mh.competency <cell> => <value|err>.. | state
    mh.mortality <cell> => ok|err | state
    mh.move <from> <to> <count> => <ret> | state
-/
import PopsModel.Driver.Util
import PopsModel.Driver.HostEng
import PopsModel.Model.MultiPred
namespace Pops.Driver.MultiEng
open Pops Pops.Driver

structure State where
  nHosts : Nat := 0
  cfg : MultiCfg := { arrival := .infect, sto := true, pEst := 0 }
  useWeather : Bool := false
  ps : List HostParams := []
  pht : Option PestHostTable := none
  comp : Option CompetencyTable := none
  hosts : List (List Cell) := []      -- per host: its cells
deriving Inhabited

def cellsAt (hosts : List (List Cell)) (a : Nat) : List Cell := hosts.map fun cs => cs[a]!

/-- `-` or a comma-separated list of rationals. -/
def ratRow? (tok : String) : Option (List Rat) :=
  if tok = "-" then some [] else (tok.splitOn ",").mapM parseRat?

def phtRow? (tok : String) : Option PestHostRow :=
  match ratRow? tok with
  | some [a, b, c] => some { sus := a, rate := b, lag := c }
  | _ => none

def compRow? (tok : String) : Option CompRow :=
  match tok.splitOn ";" with
  | [bits, c] => do
    let v ← parseRat? c
    some { presence := if bits = "-" then [] else parseBits bits, competency := v }
  | _ => none

structure Obs where
  ret : List String
  hosts : List (List Cell)

def obs? (toks : List String) : Option Obs :=
  match HostEng.segments toks with
  | ret :: segs => do
    let hosts ← segs.mapM fun seg => seg.mapM HostEng.cell?
    some { ret, hosts }
  | [] => none

def showCells (cs : List Cell) : String := " ".intercalate (cs.map HostEng.showCell)

def errOf? (s : String) : Option String := if s.startsWith "err:" then some s else none

def exceptTok {α : Type} (f : α → String) : Except ErrKind α → String
  | .ok v => f v
  | .error e => errTok e

def envOf (st : State) (n : Int) (w : String) : MEnv :=
  { n := n, w := if st.useWeather then parseRat? w else none, pht := st.pht, comp := st.comp }

/-- All hosts agree with `pre` at every cell other than `a`. -/
def othersSame (pre post : List (List Cell)) (a : Nat) : Bool :=
  pre.length == post.length &&
  (List.zip pre post).all fun (x, y) => x.length == y.length &&
    (List.range x.length).all fun k => k == a || x[k]! == y[k]!

def finish (st : State) (o : Obs) (verdict : String) : State × String := ({ st with hosts := o.hosts }, verdict)

/-- Weights of all hosts when every one of them is computable and inside [0, 1]. -/
def weightsInDomain (env : MEnv) (cells : List Cell) : Option (List Rat) :=
  let okEnv := (List.range cells.length).all fun h => match env.cellEnv h with | .ok _ => true | .error _ => false
  let ws := hostWeights env cells
  if okEnv && decide (env.n > 0) && ws.all (fun x => decide (0 ≤ x) && decide (x ≤ 1)) then some ws else none

def handle (st : State) (cmd : String) (inp obsToks : List String) : State × String :=
  match cmd, inp with
  | "mh.arrival", [name] =>
    match obsToks with
    | [res, cur] =>
      match arrivalFromString name with
      | .ok _ => (st, if res = "ok" && cur = name then "ok" else
                        if res ≠ "ok" then s!"PROPFAIL C16 arrival_behaviour_rejected {name}" else "MISMATCH mh.arrival value")
      | .error e => (st, if res = errTok e && cur = "infect" then "ok" else
                           if res = "ok" then s!"PROPFAIL C16 unknown_arrival_behaviour_accepted {name}" else s!"MISMATCH mh.arrival model={errTok e}")
    | _ => (st, "BADLINE")
  | "mh.begin", [h, arr, sto, pEst, w] =>
    match parseNat? h, arrivalFromString arr, parseRat? pEst with
    | some h, .ok arr, some pEst =>
      ({ nHosts := h, cfg := { arrival := arr, sto := sto = "1", pEst := pEst }, useWeather := w = "1" }, "ok")
    | _, _, _ => (st, "BADLINE")
  | "mh.host", [k, mt, sto, pEst, rr] =>
    match parseNat? k, modelTypeFromString mt, parseRat? pEst, parseRat? rr with
    | some k, .ok mt, some pEst, some rr =>
      if k ≠ st.ps.length then (st, "BADLINE host order")
      else ({ st with ps := st.ps ++ [{ mt := mt, sto := sto = "1", pEst := pEst, rr := rr }] }, "ok")
    | _, _, _, _ => (st, "BADLINE")
  | "mh.nopht", [] => ({ st with pht := none }, "ok")
  | "mh.nocomp", [] => ({ st with comp := none }, "ok")
  | "mh.readpht", rowToks =>
    match rowToks.mapM ratRow?, HostEng.segments obsToks with
    | some values, [[res], stored] =>
      match stored.mapM phtRow? with
      | none => (st, "BADLINE rows")
      | some stored =>
        let (rows, e) := readPestHostTable values
        -- the rule itself: a row with fewer than 3 values or a susceptibility outside [0,1] is rejected
        let mustReject := values.any fun r => r.length < 3 || decide (r.getD 0 0 < 0) || decide (r.getD 0 0 > 1)
        if mustReject && res = "ok" then (st, "PROPFAIL C16 pest_host_table_accepted_bad_row")
        else if !mustReject && res ≠ "ok" then (st, s!"PROPFAIL C16 pest_host_table_rejected_good_rows {res}")
        else if res ≠ (match e with | none => "ok" | some k => errTok k) then (st, "MISMATCH mh.readpht result")
        else if !mustReject && rows != stored then
          -- C11 / C16: the rate, lag and susceptibility GIVEN for host h are the ones that apply to host h: an
          -- accepted table must hold, row by row, the three values handed in (later lines are judged against
          -- the table as given)
          let given := values.map fun r => (r.getD 0 0, r.getD 1 0, r.getD 2 0)
          let got := stored.map fun r => (r.sus, r.rate, r.lag)
          let h := ((List.range (max given.length got.length)).find? fun k => given[k]? != got[k]?).getD 0
          let rateLag := (given.map fun x => (x.2.1, x.2.2)) != (got.map fun x => (x.2.1, x.2.2))
          let sus := (given.map (·.1)) != (got.map (·.1))
          ({ st with pht := some (PestHostTable.ofConfig rows) },
           " ;; ".intercalate (
             (if rateLag then [s!"PROPFAIL C11 per_host_parameters table row {h} stored={got[h]?} given={given[h]?} (sus, rate, lag)"] else []) ++
             (if sus || !rateLag then [s!"PROPFAIL C16 per_host_table_row row {h} stored={got[h]?} given={given[h]?} (sus, rate, lag)"] else [])))
        else if rows != stored then (st, "MISMATCH mh.readpht rows")
        else ({ st with pht := some (PestHostTable.ofConfig rows) }, "ok")
    | _, _ => (st, "BADLINE")
  | "mh.mkpht", [n, rate, lag] =>
    match parseInt? n, parseRat? rate, parseInt? lag, HostEng.segments obsToks with
    | some n, some rate, some lag, [[_], stored] =>
      match stored.mapM phtRow? with
      | none => (st, "BADLINE rows")
      | some stored =>
        let rows := createPestHostTableFromParameters n rate lag
        if rows != stored then (st, "MISMATCH mh.mkpht rows")
        else ({ st with pht := some (PestHostTable.ofConfig rows) }, "ok")
    | _, _, _, _ => (st, "BADLINE")
  | "mh.readcomp", rowToks =>
    match rowToks.mapM ratRow?, HostEng.segments obsToks with
    | some values, [[res, complete], stored] =>
      match stored.mapM compRow? with
      | none => (st, "BADLINE rows")
      | some stored =>
        let (rows, e) := readCompetencyTable values
        let mustReject := values.any (fun r => r.length < 2) || values.any (fun r => r.length != (values.headD []).length)
        if mustReject && res = "ok" then (st, "PROPFAIL C16 competency_table_accepted_bad_rows")
        else if !mustReject && res ≠ "ok" then (st, s!"PROPFAIL C16 competency_table_rejected_good_rows {res}")
        else if res ≠ (match e with | none => "ok" | some k => errTok k) then (st, "MISMATCH mh.readcomp result")
        else if rows != stored then (st, "MISMATCH mh.readcomp rows")
        else if (complete = "1") != competencyTableIsComplete stored then (st, "MISMATCH mh.readcomp complete")
        else ({ st with comp := some (CompetencyTable.ofConfig rows) }, "ok")
    | _, _ => (st, "BADLINE")
  | "mh.state", [] =>
    match obs? obsToks with
    | some o => if o.hosts.length = st.nHosts && st.ps.length = st.nHosts then finish st o "ok" else (st, "BADLINE hosts")
    | none => (st, "BADLINE")
  -- single-host differential on the implementation itself
  | "mh.single", [a, u, n, w] =>
    match parseNat? a, parseRat? u, parseInt? n, HostEng.segments obsToks with
    | some a, some u, some n, [[mret, mcalls, bret, bcalls], mcells, bcells] =>
      match mcells.mapM HostEng.cell?, bcells.mapM HostEng.cell?, st.hosts, st.ps with
      | some mcells, some bcells, [pre], [p] =>
        let env := envOf st n w
        let c := pre[a]!
        match env.cellEnv 0 with
        | .error k =>
          -- outside the theorem's domain (the table has no entry for the host): the wrapper asks for
          -- the suitability first and throws, the bare host only when it has a susceptible individual
          let bareExp := if c.s ≤ 0 then "0" else errTok k
          (st, if mret = errTok k && bret = bareExp && mcells == pre && bcells == pre then "ok"
               else s!"MISMATCH mh.single no-table-entry model multi={errTok k} bare={bareExp}")
        | .ok e =>
          let inDomain := decide (0 ≤ c.s)
          if inDomain && (mret ≠ bret || mcells != bcells) then
            (st, s!"PROPFAIL C16 single_host_result multi={mret} bare={bret} multi_cells={showCells mcells} bare_cells={showCells bcells}")
          else if inDomain && mcalls ≠ bcalls then
            if f19Region c e then (st, s!"KNOWN C16 F19 s={c.s} suitability=0 multi_calls={mcalls} bare_calls={bcalls}")
            else (st, s!"PROPFAIL C16 single_host_stream multi_calls={mcalls} bare_calls={bcalls} s={c.s}")
          else
            -- the bare host against the rule itself (C12: establishes iff a susceptible host is present and the
            -- tester is below susceptible / population x weather x ITS susceptibility - the scaling C16 states;
            -- C04 / C05: one susceptible host becomes infected (SI) / exposed (SEI)), on the observed result
            let suit := (c.s : Rat) / (e.n : Rat) * e.sus.getD 1 * e.w.getD 1
            let inRule := inDomain && decide (e.n > 0) && decide (0 ≤ suit) && decide (suit ≤ 1)
            let rule : Option String :=
              match parseInt? bret, bcells[a]? with
              | some k, some c' =>
                if !inRule then none
                else if !(establishSpec c e p.sto p.pEst u k) then
                  some (s!"PROPFAIL C12 establish_event single host s={c.s} N={e.n} suitability={suit} u={u} ret={k}" ++
                        s!" ;; PROPFAIL C16 establish_event single host s={c.s} N={e.n} suitability={suit} u={u} ret={k}")
                else if !(landingSpec p.mt c c' k) then
                  some (s!"PROPFAIL C04 landing ret={k} pre={HostEng.showCell c} post={HostEng.showCell c'}" ++
                    (if p.mt == .sei && k == 1 && !c.e.isEmpty && !(arrivalsStayExposed c c') then
                      s!" ;; PROPFAIL C05 arrival_not_exposed pre={HostEng.showCell c} post={HostEng.showCell c'}" else ""))
                else none
              | _, _ => none
            if rule.isSome then (st, rule.getD "ok") else
            -- the bare host against its own model
            let model := c.disperserTo p.mt e p.sto p.pEst u
            let exp := match model with
              | .ok (c', k, used) => (toString k, toString used, pre.set a c')
              | .error k => (errTok k, "0", pre)
            (st, if exp.1 = bret && (exp.2.1 = bcalls || (errOf? bret).isSome) && exp.2.2 == bcells then "ok"
                 else s!"MISMATCH mh.single bare model={exp.1} calls={exp.2.1}")
      | _, _, _, _ => (st, "BADLINE")
    | _, _, _, _ => (st, "BADLINE")
  | _, _ =>
    match obs? obsToks with
    | none => (st, "BADLINE obs")
    | some o =>
      if o.hosts.length ≠ st.hosts.length then (st, "BADLINE hostcount") else
      match cmd, inp with
      | "mh.dispto", [a, v, u, n, w] =>
        match parseNat? a, parseRat? v, parseRat? u, parseInt? n, o.ret with
        | some a, some v, some u, some n, [ret, calls, pickTok] =>
          let env := envOf st n w
          let pre := cellsAt st.hosts a
          let post := cellsAt o.hosts a
          let pick := (parseNat? pickTok).getD 0
          let model := multiDisperserTo st.cfg st.ps env pre pick u
          let ws := weightsInDomain env pre
          if !(othersSame st.hosts o.hosts a) then finish st o "PROPFAIL C16 at_most_one_host another_cell_changed"
          else if (errOf? ret).isSome then
            match ws with
            | some l =>
              if sumR l > 1 then
                finish st o (if ret = "err:invalid_argument" then (if post == pre then "ok" else "MISMATCH mh.dispto state changed by a rejected call")
                             else s!"PROPFAIL C16 suitability_over_one wrong_error {ret}")
              else finish st o s!"PROPFAIL C16 landing_rejected_in_domain {ret} total={sumR l}"
            | none => finish st o (if ret = exceptTok (fun _ => "ok") model then "ok" else s!"MISMATCH mh.dispto model={exceptTok (fun _ => "ok") model}")
          else
            match parseInt? ret with
            | none => (st, "BADLINE")
            | some res =>
              if !(atMostOneSpec st.ps pre post res) then
                -- C05 / C04: in an SEI host the individual that establishes becomes EXPOSED, never infected at once
                let sei : Option String := (List.range pre.length).findSome? fun h =>
                  let x := pre[h]!; let y := post[h]!
                  if (st.ps[h]!).mt == .sei && !x.e.isEmpty && x != y && !(arrivalsStayExposed x y) then
                    some (s!" ;; PROPFAIL C05 arrival_not_exposed host={h} pre={HostEng.showCell x} post={HostEng.showCell y}" ++
                          s!" ;; PROPFAIL C04 established_host_not_exposed host={h} pre={HostEng.showCell x} post={HostEng.showCell y}")
                  else none
                finish st o (s!"PROPFAIL C16 at_most_one_host ret={res} pre={showCells pre} post={showCells post}" ++ sei.getD "")
              else
                let specFail : Option String :=
                  match ws with
                  | none => none
                  | some l =>
                    if sumR l > 1 then some s!"PROPFAIL C16 suitability_over_one not_rejected total={sumR l} ret={res}"
                    else if pre.length ≥ 2 && decide (sumR l > 0) && !(validPickB l v pick) then some s!"MISMATCH mh.dispto pick={pickTok} not possible for the weights"
                    else if !(multiEstablishSpec st.cfg st.ps l pre pick u res) then
                      -- the establishment rule is C12's (probability = suitability; deterministic: suitability > 1 - p)
                      some (s!"PROPFAIL C16 establish_event ret={res} total={sumR l} pick={pick} u={u}" ++
                            s!" ;; PROPFAIL C12 establish_event ret={res} total={sumR l} weights={l} pick={pick} u={u}")
                    else none
                match specFail with
                | some f => finish st o f
                | none =>
                  match model with
                  | .error e => finish st o s!"MISMATCH mh.dispto model={errTok e}"
                  | .ok (cells', k, used) =>
                    if k ≠ res then finish st o s!"MISMATCH mh.dispto ret model={k}"
                    else if cells' != post then finish st o s!"MISMATCH mh.dispto cells model={showCells cells'}"
                    else if toString used ≠ calls then finish st o s!"MISMATCH mh.dispto generator calls model={used} observed={calls}"
                    else finish st o "ok"
        | _, _, _, _, _ => (st, "BADLINE")
      | "mh.pestsfrom", [a, count] =>
        match parseNat? a, parseInt? count, o.ret with
        | some a, some count, [ret] =>
          let pre := cellsAt st.hosts a
          let post := cellsAt o.hosts a
          let avail := pre.map (·.i)
          let d := List.zipWith (fun (x y : Cell) => x.i - y.i) pre post
          if !(othersSame st.hosts o.hosts a) then finish st o "PROPFAIL C16 split_bounded another_cell_changed"
          else match parseInt? ret with
            | none => finish st o (if avail.all (fun x => decide (0 ≤ x)) then s!"PROPFAIL C16 split_rejected {ret}" else "ok")
            | some res =>
              let dom := avail.all (fun x => decide (0 ≤ x))
              let total := sumL avail
              let vs := HostEng.joinVs [
                if dom && !(splitSpec avail count d res && pestsFromStateSpec pre post d) then
                  some s!"PROPFAIL C16 split_bounded pests_from count={count} ret={res} available={avail} taken={d}" else none,
                -- C02: pests taken out of a host never exceed what it contained
                if dom then ((List.range avail.length).find? fun h => decide (d.getD h 0 > avail[h]!)).map fun h =>
                  s!"PROPFAIL C02 taken_le_present pests_from host={h} taken={d.getD h 0} infected={avail[h]!}" else none,
                -- C17: the pests that leave are the count asked for (at most those present); the infected turn susceptible
                if dom && decide (0 ≤ count) && decide (count ≤ total) &&
                    (res != count || sumL d != count || sumL (post.map (·.s)) - sumL (pre.map (·.s)) != count) then
                  some s!"PROPFAIL C17 source_infected_turn_susceptible count={count} ret={res} infected_lost={sumL d} susceptible_gained={sumL (post.map (·.s)) - sumL (pre.map (·.s))}" else none,
                -- C01 / C02 / C03 per host (the list index is the host)
                (HostEng.invariants pre post (fun _ => .reclassify) true (fun _ => false)).map (· ++ " (cell index = host)")]
              if vs.isSome then finish st o (vs.getD "ok")
              -- a negative request is outside the domain (the count is converted to unsigned): model comparison only
              else if !(validSplitB avail count d) then finish st o s!"MISMATCH mh.pestsfrom draw not valid taken={d}"
              else
                let (cells', k) := multiPestsFrom pre d
                finish st o (if k ≠ res then s!"MISMATCH mh.pestsfrom ret model={k}" else if cells' != post then "MISMATCH mh.pestsfrom cells" else "ok")
        | _, _, _ => (st, "BADLINE")
      | "mh.peststo", [a, count] =>
        match parseNat? a, parseInt? count, o.ret with
        | some a, some count, [ret] =>
          let pre := cellsAt st.hosts a
          let post := cellsAt o.hosts a
          let avail := pre.map (·.s)
          let d := List.zipWith (fun (x y : Cell) => x.s - y.s) pre post
          if !(othersSame st.hosts o.hosts a) then finish st o "PROPFAIL C16 split_bounded another_cell_changed"
          else match parseInt? ret with
            | none => finish st o (if avail.all (fun x => decide (0 ≤ x)) then s!"PROPFAIL C16 split_rejected {ret}" else "ok")
            | some res =>
              let dom := avail.all (fun x => decide (0 ≤ x))
              let total := sumL avail
              let vs := HostEng.joinVs [
                if dom && !(splitSpec avail count d res && pestsToStateSpec pre post d) then
                  some s!"PROPFAIL C16 split_bounded pests_to count={count} ret={res} available={avail} taken={d}" else none,
                -- C02: no host accepts more pests than it has susceptible individuals
                if dom then ((List.range avail.length).find? fun h => decide (d.getD h 0 > avail[h]!)).map fun h =>
                  s!"PROPFAIL C02 taken_le_present pests_to host={h} accepted={d.getD h 0} susceptible={avail[h]!}" else none,
                -- C17: at the destination as many establish as there are susceptible hosts, the rest die
                if dom && decide (0 ≤ count) &&
                    (res != min count total || sumL (post.map (·.i)) - sumL (pre.map (·.i)) != min count total) then
                  some s!"PROPFAIL C17 arrival count={count} ret={res} established={sumL (post.map (·.i)) - sumL (pre.map (·.i))} expected={min count total}" else none,
                (HostEng.invariants pre post (fun _ => .reclassify) true (fun _ => false)).map (· ++ " (cell index = host)")]
              if vs.isSome then finish st o (vs.getD "ok")
              else if !(validSplitB avail count d) then finish st o s!"MISMATCH mh.peststo draw not valid taken={d}"
              else
                let (cells', k) := multiPestsTo pre d
                finish st o (if k ≠ res then s!"MISMATCH mh.peststo ret model={k}" else if cells' != post then "MISMATCH mh.peststo cells" else "ok")
        | _, _, _ => (st, "BADLINE")
      | "mh.dispfrom", [a, w] =>
        match parseNat? a, o.ret with
        | some a, [ret] =>
          let env := envOf st 1 w
          let pre := cellsAt st.hosts a
          let model := multiDispersersFrom env st.ps pre
          let spec := dispersersSpec env st.ps pre
          if o.hosts != st.hosts then finish st o "PROPFAIL C04 generation_changed_hosts (producing dispersers changes no host count)"
          else
            match spec with
            | some v =>
              if ret ≠ toString v then
                -- C04 states the same product for one or several hosts (x host competency), and no dispersers without infection
                finish st o (s!"PROPFAIL C16 competency_scaling ret={ret} expected={v}" ++
                  (if (parseInt? ret).isSome then
                     (if pre.all (fun c => decide (c.i ≤ 0)) then s!" ;; PROPFAIL C04 dispersers_without_infection ret={ret}"
                      else s!" ;; PROPFAIL C04 deterministic_count ret={ret} expected={v} (sum over hosts of round(infected x rate x weather x competency))")
                   else ""))
              else finish st o (if exceptTok toString model = ret then "ok" else s!"MISMATCH mh.dispfrom model={exceptTok toString model}")
            | none =>
              if (errOf? ret).isNone then finish st o s!"PROPFAIL C16 competency_lookup_not_rejected ret={ret}"
              else finish st o (if exceptTok toString model = ret then "ok" else s!"MISMATCH mh.dispfrom model={exceptTok toString model}")
        | _, _ => (st, "BADLINE")
      | "mh.sums", [a] =>
        match parseNat? a, o.ret with
        | some a, [inf, tot] =>
          match parseInt? inf, parseInt? tot with
          | some inf, some tot =>
            let pre := cellsAt st.hosts a
            if o.hosts != st.hosts then finish st o "MISMATCH mh.sums changed the hosts"
            else if !(sumsSpec pre inf tot) then finish st o s!"PROPFAIL C16 sums infected={inf} total={tot} cells={showCells pre}"
            else finish st o (if multiInfectedAt pre = inf && multiTotalHostsAt pre = tot then "ok" else "MISMATCH mh.sums")
          | _, _ => (st, "BADLINE")
        | _, _ => (st, "BADLINE")
      | "mh.competency", [a] =>
        match parseNat? a with
        | some a =>
          let pre := cellsAt st.hosts a
          let presence := hostPresence pre
          match st.comp with
          | none => finish st o (if o.ret = ["none"] then "ok" else "BADLINE")
          | some t =>
            if o.ret.length ≠ pre.length then (st, "BADLINE") else
            let bad : Option String := (List.range pre.length).findSome? fun h =>
              let obs := o.ret[h]!
              let spec := competencySpec t presence h
              let model := exceptTok (fun (q : Rat) => toString q) (t.competencyAt presence h)
              let obsN := match parseRat? obs with | some q => toString q | none => obs
              match spec with
              | some v =>
                if obsN ≠ toString v then some s!"PROPFAIL C16 competency_lookup host={h} observed={obs} expected={v}"
                else if model ≠ obsN then some s!"MISMATCH mh.competency host={h} model={model}" else none
              | none =>
                if (errOf? obs).isNone then some s!"PROPFAIL C16 competency_lookup_not_rejected host={h} observed={obs}"
                else if model ≠ obs then some s!"MISMATCH mh.competency host={h} model={model}" else none
            finish st o (bad.getD "ok")
        | none => (st, "BADLINE")
      | "mh.mortality", [a] =>
        match parseNat? a, o.ret with
        | some a, [ret] =>
          let env := envOf st 1 "none"
          let pre := cellsAt st.hosts a
          let post := cellsAt o.hosts a
          let model := multiApplyMortality env pre
          if (errOf? ret).isSome then
            finish st o (match model with
              | .error e => if errTok e = ret then "ok" else s!"MISMATCH mh.mortality model={errTok e}"
              | .ok _ =>
                -- C03: mortality never fails on a consistent state
                if pre.all Cell.consistent then s!"PROPFAIL C03 mortality_failed_on_consistent_state {ret} cells={showCells pre}"
                else s!"MISMATCH mh.mortality model=ok observed={ret}")
          else if !(othersSame st.hosts o.hosts a) then finish st o "PROPFAIL C16 per_host_mortality another_cell_changed"
          else
            -- each host with its own rate and lag, independent of the others
            let bad : Option String := (List.range pre.length).findSome? fun h =>
              match st.pht with
              | none => some "MISMATCH mh.mortality no table"
              | some t =>
                match t.rate[h]?, t.lag[h]? with
                | some rate, some lag =>
                  match (pre[h]!).applyMortality rate lag with
                  | .ok c' => if c' == post[h]! then none else
                      some (s!"PROPFAIL C16 per_host_mortality host={h} rate={rate} lag={lag} pre={HostEng.showCell (pre[h]!)} post={HostEng.showCell (post[h]!)}" ++
                        s!" ;; PROPFAIL C11 per_host_parameters host={h} own row: rate={rate} lag={lag} pre={HostEng.showCell (pre[h]!)} post={HostEng.showCell (post[h]!)}")
                  | .error _ => some s!"MISMATCH mh.mortality host={h} model throws"
                | _, _ => some s!"MISMATCH mh.mortality host={h} has no table entry"
            match bad with
            | some b => finish st o b
            | none => finish st o (match model with
                | .ok cells' => if cells' == post then "ok" else "MISMATCH mh.mortality cells"
                | .error e => s!"MISMATCH mh.mortality model={errTok e}")
        | _, _ => (st, "BADLINE")
      | "mh.move", [a, b, cnt] =>
        match parseNat? a, parseNat? b, parseInt? cnt, o.ret with
        | some a, some b, some cnt, [ret] =>
          if a == b then (st, "BADLINE same cell") else
          let srcs := cellsAt st.hosts a
          let dsts := cellsAt st.hosts b
          let srcs' := cellsAt o.hosts a
          let dsts' := cellsAt o.hosts b
          match srcs, dsts, srcs', dsts' with
          | src :: _, dst :: _, src' :: _, _ :: _ =>
            -- the move is forwarded to the first host: judged there by the single-host predicates (C01 ledger, C02,
            -- C03, C05, C17 amount / draw without replacement / class and cohort membership), landscape 1 x 2
            let hst : HostEng.State := { rows := 1, cols := 2 }
            let pvs := HostEng.moveCellVerdicts hst (st.hosts.headD []) (o.hosts.headD []) 0 (a : Int) 0 (b : Int) cnt (some ret)
            if !pvs.isEmpty then finish st o (" ;; ".intercalate pvs) else
            let d : ClassDraw := { i := src.i - src'.i, s := src.s - src'.s, e := src.te - src'.te, r := src.r - src'.r }
            let drawE := subL src.e src'.e
            let drawM := subL src.mort src'.mort
            if !(validClassDrawB src cnt d) then finish st o s!"MISMATCH mh.move class-draw-invalid i={d.i} s={d.s} e={d.e} r={d.r}"
            else if d.e > 0 && !(validDrawB src.e d.e drawE) then finish st o "MISMATCH mh.move exposed-draw-invalid"
            else if d.i > 0 && !(validDrawB src.mort d.i drawM) then finish st o "MISMATCH mh.move mortality-draw-invalid"
            else
              let (ms, md, moved) := multiMoveHosts srcs dsts cnt d drawE drawM
              let _ := dst
              if toString moved ≠ ret then finish st o s!"MISMATCH mh.move ret model={moved}"
              else if ms != srcs' then finish st o s!"MISMATCH mh.move source model={showCells ms}"
              else if md != dsts' then finish st o s!"MISMATCH mh.move target model={showCells md}"
              else finish st o "ok"
          | _, _, _, _ => (st, "BADLINE")
        | _, _, _, _ => (st, "BADLINE")
      | _, _ => (st, "BADLINE cmd")

end Pops.Driver.MultiEng
