/-
  Driver engine stub (Multi): replaced by the real engine; see notes/AGENT_BRIEF.md.
-/
import PopsModel.Driver.Util
namespace Pops.Driver.MultiEng
open Pops Pops.Driver

structure State where
  dummy : Unit := ()
deriving Inhabited

def handle (st : State) (_cmd : String) (_inp _obs : List String) : State × String :=
  (st, "BADLINE")

end Pops.Driver.MultiEng
