/-
  Driver engine for C06 (commands `rng.*`): run-twice digests, streams used per action, varied
  seeds, provider construction / seed order / aliasing / isolation, rejections, read_seeds.
  Expected values come from the definitions the theorems of Props/C06.lean are about
  (`seedMulti`, `seedNamed`, `Provider.*`, `uses`, `usesRun`, `specUses`, `knownRegion`, `readSeedsVec`,
  `readSeedsText`).
-/
import PopsModel.Driver.Util
import PopsModel.Model.StreamText
import PopsModel.Model.StreamUses
import PopsModel.Model.StreamSpec
namespace Pops.Driver.StreamEng
open Pops Pops.Driver

structure State where
  cfg : Option UseCfg := none
deriving Inhabited

/-! ### parsing helpers -/

/-- `a=b` tokens as an association list. -/
def kvOf (toks : List String) : List (String × String) :=
  toks.filterMap fun t =>
    match t.splitOn "=" with
    | [a, b] => some (a, b)
    | _ => none

def look (kv : List (String × String)) (k : String) : Option String := (kv.find? (·.1 == k)).map (·.2)
def lookBool (kv : List (String × String)) (k : String) : Option Bool := (look kv k).map (· == "1")

def kind? : String → Option KernelKind
  | "radial" => some .radial | "uniform" => some .uniform | "neighbor" => some .detNeighbor
  | "network" => some .network | _ => none

def cfg? (toks : List String) : Option UseCfg := do
  let kv := kvOf toks
  let gen ← lookBool kv "gen"; let est ← lookBool kv "est"
  let hosts ← (look kv "hosts").bind parseNat?
  let soils ← lookBool kv "soils"; let anthro ← lookBool kv "anthro"; let dsto ← lookBool kv "dsto"
  let nat ← (look kv "nat").bind kind?; let ant ← (look kv "ant").bind kind?
  let inj ← lookBool kv "inj"
  let lethal ← lookBool kv "lethal"; let survival ← lookBool kv "survival"
  let overpop ← lookBool kv "overpop"; let movements ← lookBool kv "movements"
  let wdist ← lookBool kv "wdist"
  -- `Config::movement_stochasticity`; lines written before the flag was reported have the default
  let msto := (lookBool kv "msto").getD true
  some { generateStochastic := gen, establishmentStochastic := est, hosts := hosts, soils := soils,
         useAnthro := anthro, dispersalStochastic := dsto, naturalKernel := nat, anthroKernel := ant,
         injectedKernel := if inj then some [.naturalDispersal] else none,
         useLethal := lethal, useSurvival := survival, useOverpopulation := overpop,
         useMovements := movements, weatherFromDistribution := wdist, movementStochastic := msto }

def names? (s : String) : Option (List StreamName) :=
  if s = "-" then some [] else (s.splitOn ",").mapM StreamName.ofKey?

def showNames (l : List StreamName) : String :=
  if l.isEmpty then "-" else ",".intercalate (l.map (·.key))

/-- `k=v,k=v` (or `-`) as a seed map; later pairs shadow earlier ones. -/
def pairs? (s : String) : Option SeedMap :=
  if s = "-" then some [] else
    (s.splitOn ",").foldlM (fun (m : SeedMap) t =>
      match t.splitOn "=" with
      | [k, v] => (parseNat? v).map fun x => m.insert k x
      | _ => none) []

def nats? (s : String) : Option (List Nat) :=
  if s = "-" then some [] else (s.splitOn ",").mapM parseNat?

/-- `seed:draw,draw,...;seed:...` -/
def table? (s : String) : Option (List (Nat × Array Nat)) :=
  if s = "-" then some [] else
    (s.splitOn ";").mapM fun e =>
      match e.splitOn ":" with
      | [a, b] => do
        let k ← parseNat? a
        let vs ← nats? b
        some (k, vs.toArray)
      | _ => none

/-- The engine "fresh engine seeded v, i draws taken", its draws read from the table the harness
    produced with real engines; a seed or position outside the table gives a value no engine
    returns. -/
def tableEngine (t : List (Nat × Array Nat)) : Engine (Nat × Nat) where
  seed v := (v, 0)
  next g :=
    let v := match t.find? (·.1 == g.1) with
      | some e => e.2.getD g.2 (2 ^ 70 + g.2)
      | none => 2 ^ 71 + g.1
    (v, (g.1, g.2 + 1))

inductive Ctor where
  | seed (s : Nat) (multi : Bool)
  | map (m : SeedMap)
  | config (c : SeedCfg)

def ctor? (s : String) : Option Ctor :=
  match s.splitOn ":" with
  | ["seed", a, b] => (parseNat? a).map fun x => .seed x (b == "1")
  | ["map", m] => (pairs? m).map .map
  | ["config", mu, rs, m] => do
    let r ← parseInt? rs
    let mm ← pairs? m
    some (.config { randomSeed := r, multipleRandomSeeds := mu == "1", randomSeeds := mm })
  | _ => none

def Ctor.build {σ : Type} (E : Engine σ) : Ctor → Except ErrKind (Provider σ)
  | .seed s m => .ok (Provider.ofSeed E s m)
  | .map m => Provider.ofMap E m
  | .config c => Provider.ofConfig E c

def opt (pre : String) (toks : List String) : Option String :=
  (toks.find? (·.startsWith pre)).map fun t => (t.drop pre.length).toString

/-- Draw from the streams listed in `ops` (positions in the documented order), in sequence. -/
def runOps {σ : Type} (E : Engine σ) (p : Provider σ) (ops : List Nat) : List Nat :=
  (ops.foldl (fun (acc : List Nat × Provider σ) k =>
    let r := acc.2.drawFrom E (StreamName.all.getD k .disperserGeneration)
    (r.1 :: acc.1, r.2)) ([], p)).1.reverse

def firstDiff (a b : List Nat) : Nat :=
  ((a.zip b).takeWhile fun (x, y) => x == y).length

/-- The clause of C06 that fixes the draws of a provider made from a `Config`, if any:
    multiple seeds without a map = "a single seed s seeds the streams with s, s+1, ... in the documented order"
    (`C06_seed_order`, last clause); multiple seeds with a map = named seeds (`C06_missing_seed_rejected`, second
    part: every stream gets the value of its key); one generator without a map = every accessor is that generator
    (`C06_single_aliases`, last clause). That a seed map is ignored when multiple seeds are switched off is not
    stated by the property: model comparison only. -/
def configLabel : Ctor → Option String
  | .config c =>
    if c.multipleRandomSeeds then
      (if c.randomSeeds.isEmpty then some "seed_order (Config: multiple seeds, single seed s: stream k is seeded s+k)"
       else some "named_seed (Config: every stream is seeded with the value of its key)")
    else if c.randomSeeds.isEmpty then some "single_alias (Config: one generator behind every accessor)"
    else none
  | _ => none

/-- Provider construction followed by draws through the accessors. `label` is the property
    predicate the command stands for (`none`: taken from the way the provider is made, `configLabel`). -/
def providerLine (label : Option String) (inp obs : List String) : String :=
  match inp with
  | _engine :: c :: rest =>
    match ctor? c, (opt "ops=" rest).bind nats?, (opt "table=" rest).bind table? with
    | some ct, some ops, some t =>
      let E := tableEngine t
      match ct.build E, obs with
      | .error e, [o] =>
        if o = errTok e then "ok"
        else if o = "ok" ∧ e = .invalid_argument then "PROPFAIL C06 missing_seed_accepted"
        -- rejected, but with another exception class: C06 says "is rejected", not how
        else s!"MISMATCH provider model={errTok e}"
      | .error e, "ok" :: _ =>
        if e = .invalid_argument then "PROPFAIL C06 missing_seed_accepted" else s!"MISMATCH provider model={errTok e}"
      | .ok p, "ok" :: vals =>
        match vals.mapM parseNat? with
        | none => "BADLINE"
        | some vs =>
          let model := runOps E p ops
          if vs = model then "ok"
          else
            let k := firstDiff vs model
            let what := s!"draw={k} stream={(StreamName.all.getD (ops.getD k 0) .disperserGeneration).key} model={model.getD k 0}"
            match label.orElse (fun _ => configLabel ct) with
            | some l => s!"PROPFAIL C06 {l} {what}"
            | none => s!"MISMATCH provider {what}"
      -- a complete construction rejected: the property states which constructions are rejected, not that the
      -- others are accepted
      | .ok _, [o] => s!"MISMATCH provider model=ok observed={o}"
      | _, _ => "BADLINE"
    | _, _, _ => "BADLINE"
  | _ => "BADLINE"

def mapOfBits (bits : String) : SeedMap :=
  ((StreamName.all.zip bits.toList).filter (·.2 == '1')).foldl (fun (m : SeedMap) (p : StreamName × Char) => m.insert p.1.key 1) []

def sameMap (model : SeedMap) (obs : SeedMap) : Bool :=
  obs.all (fun (k, v) => model.find? k == some v) && model.all (fun (k, _) => (obs.find? k).isSome)

def hexVal (c : Char) : Nat :=
  if c.isDigit then c.toNat - 48 else c.toNat - 87

def unhex : List Char → List Char
  | a :: b :: rest => Char.ofNat (hexVal a * 16 + hexVal b) :: unhex rest
  | _ => []

def exceptTok {α : Type} : Except ErrKind α → String
  | .ok _ => "ok"
  | .error e => errTok e

/-! ### the engine -/

def handle (st : State) (cmd : String) (inp obs : List String) : State × String :=
  match cmd with
  | "rng.setup" => (st, "ok")
  | "rng.cfg" =>
    match cfg? inp with
    | some c => ({ st with cfg := some c }, "ok")
    | none => (st, "BADLINE")
  | "rng.twice" =>
    -- determinism: every other run of the same configuration, seeds and inputs gives the digest
    -- of the reference run (alone / after other runs / interleaved / simultaneous instances)
    match inp with
    | [_which, step, ref] =>
      if obs.isEmpty then (st, "BADLINE")
      else
        match (obs.zipIdx).find? (fun (o, _) => o ≠ ref) with
        | none => (st, "ok")
        | some (o, i) => (st, s!"PROPFAIL C06 determinism step={step} run={i} digest={o} reference={ref}")
    | _ => (st, "BADLINE")
  | "rng.uses" =>
    match inp, obs, st.cfg with
    | [action, step, w], [moved], some c =>
      match Proc.ofName? action, names? moved with
      | some P, some ms =>
        let allowed := uses P c
        match ms.find? (fun n => !allowed.contains n) with
        | some n => (st, s!"PROPFAIL C06 stream_isolation action={action} step={step} drew_from={n.key} allowed={showNames allowed}")
        | none =>
          if w = "w=1" then
            -- "draws ONLY from its own stream": that an enabled process does draw is not stated - model only
            match (mustUse P c).find? (fun n => !ms.contains n) with
            | some n => (st, s!"MISMATCH uses action={action} step={step} expected_draw_from={n.key} moved={moved}")
            | none => (st, "ok")
          else (st, "ok")
      | _, _ => (st, "BADLINE")
    | _, _, _ => (st, "BADLINE")
  | "rng.step" =>
    match obs with
    | ["ok"] => (st, "ok")
    | [_, "single_generator"] => (st, "PROPFAIL C06 stream_isolation a process used the multi-stream provider as one generator")
    | [_] => (st, "ok")     -- an exception unrelated to the provider ends the run (compared in `rng.twice`)
    | _ => (st, "BADLINE")
  | "rng.vary" =>
    match inp, obs, st.cfg with
    | [name, ref], [d], some c =>
      match StreamName.ofKey? name with
      | some n =>
        -- "results do not depend on the seed of a process that is disabled or made deterministic":
        -- `specUses c` are the streams the sentence allows this configuration to depend on, `usesRun c`
        -- the streams the code draws from (the model of the code).
        if d = ref then (st, "ok")
        else if (specUses c).contains n then
          -- allowed to matter; that it does although the model says the code never draws from it would be
          -- an error of the table `uses` (impossible by `C06_spec_within_code`)
          if (usesRun c).contains n then (st, "ok")
          else (st, s!"MISMATCH vary stream={name} model=not_used used={showNames (usesRun c).eraseDups}")
        else if !(usesRun c).contains n then
          (st, s!"PROPFAIL C06 disabled_seed_matters stream={name} used={showNames (usesRun c).eraseDups}")
        else
          -- the code uses a stream the property does not allow: by `C06_code_outside_spec` one of the
          -- regions of the open findings F28 / F29 / F32 (negated hypotheses of `C06_deterministic_mode_partial`)
          match knownRegion c n with
          | some f => (st, s!"KNOWN C06 {f} deterministic_seed_matters stream={name} allowed={showNames (specUses c)} used={showNames (usesRun c).eraseDups}")
          | none => (st, s!"PROPFAIL C06 deterministic_seed_matters stream={name} allowed={showNames (specUses c)} used={showNames (usesRun c).eraseDups}")
      | none => (st, "BADLINE")
    | _, _, _ => (st, "BADLINE")
  | "rng.order" => (st, providerLine (some "seed_order") inp obs)
  | "rng.alias" => (st, providerLine (some "single_alias") inp obs)
  | "rng.iso" => (st, providerLine (some "multi_stream_draws") inp obs)
  | "rng.named" => (st, providerLine (some "named_seed") inp obs)
  | "rng.config" => (st, providerLine none inp obs)
  | "rng.missing" =>
    match inp, obs with
    | [what, bits, extra], [o, key] =>
      let m := if extra = "1" then (mapOfBits bits).insert "soils" 3 else mapOfBits bits
      let E := tableEngine []
      let model : Except ErrKind Unit :=
        match what with
        | "provider" => (Provider.ofMap E m).map fun _ => ()
        | "validate_seeds" => validateSeeds m
        | "validate_config" => validateConfig { randomSeed := 5, multipleRandomSeeds := true, randomSeeds := m }
        | _ => (Provider.ofConfig E { randomSeed := 5, multipleRandomSeeds := true, randomSeeds := m }).map fun _ => ()
      -- the property: a map that has some but not all of the ten keys is rejected
      let partialMap := bits.toList.contains '0' && (!m.isEmpty || what == "provider" || what == "validate_seeds")
      if partialMap && o ≠ "err:invalid_argument" then (st, s!"PROPFAIL C06 missing_seed_accepted keys={bits} observed={o}")
      -- left to the model: acceptance of a complete (or, for a Config, empty) map, the exception class, and the
      -- key named in the message
      else if o ≠ exceptTok model then (st, s!"MISMATCH missing model={exceptTok model}")
      else if key ≠ "-" ∧ (firstMissing m).map (·.key) ≠ some key then
        (st, s!"MISMATCH missing_key model={((firstMissing m).map (·.key)).getD "-"}")
      else (st, "ok")
    | _, _ => (st, "BADLINE")
  | "rng.call" =>
    match inp with
    | [c, op, tab] =>
      match ctor? c, table? ((tab.drop 6).toString) with
      | some ct, some t =>
        let E := tableEngine t
        match ct.build E with
        | .error _ => (st, "BADLINE")
        | .ok p =>
          let model : Except ErrKind Nat :=
            match op.splitOn ":" with
            | ["discard", n] =>
              match p.discard E (n.toNat?.getD 0) with
              | .error e => .error e
              | .ok p' => (p'.call E).map (·.1)
            | _ => (p.call E).map (·.1)
          if p.isMulti && obs ≠ ["err:runtime_error"] then
            (st, s!"PROPFAIL C06 single_use_accepted observed={" ".intercalate obs}")
          else
            -- single mode: what operator() / discard return on the one generator is not part of the statement
            match model, obs with
            | .error e, [o] => (st, if o = errTok e then "ok" else s!"MISMATCH call model={errTok e}")
            | .ok v, ["ok", o] => (st, if o = toString v then "ok" else s!"MISMATCH call model={v}")
            | _, _ => (st, "MISMATCH call")
      | _, _ => (st, "BADLINE")
    | _ => (st, "BADLINE")
  | "rng.single" =>
    -- SingleGeneratorProvider given several seeds: not mentioned by C06 (it speaks about the multi-stream
    -- provider used as one generator) - model comparison only
    match inp with
    | ["map", _n] =>
      let model := singleSeedMap (tableEngine []) []
      (st, if obs = [exceptTok model] then "ok" else s!"MISMATCH single model={exceptTok model}")
    | [c, tab] =>
      match c.splitOn ":", table? ((tab.drop 6).toString) with
      | ["config", mu, rs, n], some t =>
        let E := tableEngine t
        let cfg : SeedCfg := { randomSeed := rs.toInt?.getD 0, multipleRandomSeeds := mu == "1",
                               randomSeeds := List.replicate (n.toNat?.getD 0) ("k", 1) }
        match singleSeedConfig E cfg, obs with
        | .error e, [o] => (st, if o = errTok e then "ok" else s!"MISMATCH single model={errTok e}")
        | .ok g, ["ok", o] => (st, if o = toString (E.next g).1 then "ok" else s!"MISMATCH single model={(E.next g).1}")
        | m, _ => (st, s!"MISMATCH single model={exceptTok m}")
      | _, _ => (st, "BADLINE")
    | _ => (st, "BADLINE")
  | "rng.vec" =>
    match inp, obs with
    | [vs, pre], [o, mu, m] =>
      match nats? vs, pairs? pre, pairs? m with
      | some seeds, some pre, some om =>
        let c0 : SeedCfg := { randomSeeds := pre }
        -- Config::read_seeds is not named by C06; only "a missing named seed is rejected" applies (fewer than ten
        -- seeds). Which name the k-th seed gets, too many seeds and the text format are left to the model
        -- (`C06_read_seeds*` are theorems about the model's reader).
        if seeds.length < 10 ∧ o = "ok" then (st, s!"PROPFAIL C06 missing_seed_accepted read_seeds accepted {seeds.length} seeds")
        else
          match readSeedsVec c0 seeds with
          | .error e =>
            (st, if o = errTok e ∧ mu = "0" ∧ sameMap pre om then "ok" else s!"MISMATCH vec model={errTok e}")
          | .ok c1 =>
            -- C06: with named seeds every process draws from its own stream - a configuration that accepted ten
            -- seeds but is not switched to separate streams runs every process on one generator seeded elsewhere
            (st, if o = "ok" ∧ mu = "0" then "PROPFAIL C06 named_seeds_not_used read_seeds(vector) accepted ten seeds, multiple_random_seeds stays false"
                 else if o = "ok" ∧ mu = "1" ∧ sameMap c1.randomSeeds om then "ok" else "MISMATCH vec model=ok")
      | _, _, _ => (st, "BADLINE")
    | _, _ => (st, "BADLINE")
  | "rng.text" =>
    match inp, obs with
    | [sep, kv, hex, pre], [o, mu, m] =>
      match sep.toNat?, kv.toNat?, pairs? pre, pairs? m with
      | some sp, some k, some pre, some om =>
        let text := if hex = "-" then [] else unhex hex.toList
        let c0 : SeedCfg := { randomSeeds := pre }
        match readSeedsText c0 (Char.ofNat sp) (Char.ofNat k) text with
        | .error e =>
          (st, if o = errTok e ∧ mu = "0" ∧ sameMap pre om then "ok" else s!"MISMATCH text model={errTok e}")
        | .ok c1 =>
          (st, if o = "ok" ∧ mu = "0" then "PROPFAIL C06 named_seeds_not_used read_seeds(text) accepted the seeds, multiple_random_seeds stays false"
               else if o = "ok" ∧ mu = "1" ∧ sameMap c1.randomSeeds om then "ok"
               else s!"MISMATCH text model=ok {c1.randomSeeds.length} entries")
      | _, _, _, _ => (st, "BADLINE")
    | _, _ => (st, "BADLINE")
  | _ => (st, "BADLINE")

end Pops.Driver.StreamEng
