/-
  Driver engine for C19: compares the implementation's Raster results with the value model and
  the heap model, and evaluates the property predicates (`ElemMapOK`, `ElemZipOK`, `SameRaster`,
  shape rejection, copy / move / wrap expectations) on the implementation's own output.
  Commands: `raster.rs|sr|rr|as|ar|pow|sqrt|eq` (values) and `raster.h.*` (storage sequences).
-/
import PopsModel.Driver.Util
import PopsModel.Model.RasterPred
import PopsModel.Model.RasterF31
namespace Pops.Driver.RasterEng
open Pops Pops.Driver

abbrev VarObs := Option (Nat × Nat × Option (List Int))

structure State where
  heap : Heap Int := {}
  n : Nat := 0                    -- number of variables of the pool
  pre : Obs Int := ⟨[], []⟩       -- last observation of the implementation
  sync : Bool := false            -- model state follows the implementation
  /-- F31: variables that were the target of an assignment while they did not own their storage, with
      the caller array they wrapped at that moment; kept until the variable is destroyed or moved from. -/
  hit : List (Nat × Nat) := []

instance : Inhabited State := ⟨{}⟩

/-! ### parsing -/

def op? : String → Option BinOp
  | "add" => some .add | "sub" => some .sub | "mul" => some .mul | "div" => some .div | _ => none

def rasterI? : List String → Option (Raster Int × List String)
  | r :: c :: rest => do
    let r ← parseNat? r; let c ← parseNat? c
    let (cells, rest') ← takeN? (r * c) rest
    let cells ← parseInts? cells
    some (⟨r, c, cells⟩, rest')
  | _ => none

def rasterD? : List String → Option (Raster Rat × List String)
  | r :: c :: rest => do
    let r ← parseNat? r; let c ← parseNat? c
    let (cells, rest') ← takeN? (r * c) rest
    let cells ← parseRats? cells
    some (⟨r, c, cells⟩, rest')
  | _ => none

def showRat (q : Rat) : String := if q.den = 1 then toString q.num else s!"{q.num}/{q.den}"
def showRI (a : Raster Int) : String := s!"{a.rows} {a.cols} " ++ " ".intercalate (a.cells.map toString)
def showRD (a : Raster Rat) : String := s!"{a.rows} {a.cols} " ++ " ".intercalate (a.cells.map showRat)

/-- One element type of the protocol: parser, printer, decidable equality. -/
structure Ty (α : Type) where
  parse : List String → Option (Raster α × List String)
  scalar : String → Option α
  shw : Raster α → String
  deq : DecidableEq α

def tyI : Ty Int := ⟨rasterI?, parseInt?, showRI, inferInstance⟩
def tyD : Ty Rat := ⟨rasterD?, parseRat?, showRD, inferInstance⟩

/-! ### value commands

  Audit note on the MISMATCH verdicts of this engine: every quantity C19 defines (each cell of the result by the
  cell function of the operator, the shape of the result, untouched operands, rejection of different shapes,
  `==` as "same shape and same cells", copy / move / wrap expectations) is judged by `ElemMapOK`, `ElemZipOK`,
  `SameRaster`, `sameShape`, `expectAfter` on the observed values BEFORE the model is consulted; these predicates
  determine the observed value completely, so the MISMATCH branches below are reachable only (a) for the exception
  CLASS of a rejected operation (the property says "rejected"), (b) where the property leaves the outcome open
  (`expectAfter = none`: copy assignment to a wrapper beyond `relaxedCopyAssign`, writes through an object without
  data), (c) outside the caller contract of the heap model, or (d) if the model itself were wrong.

  Finding F31 (open): an assignment INTO a raster that does not own its storage (`Heap.f31Region`, evaluated on the
  state before the operation) detaches it from the caller's array; a copy assignment also leaves it with a buffer
  nobody releases. The sentence of the property - "a raster wrapping caller-owned memory writes through to it and
  never frees it", over every sequence of copy, move and assignment - is evaluated on the OBSERVED values: after
  such an assignment, and after every later store through that variable or by the caller, what the variable shows
  must be what the caller's array holds (`showsArray`), and the storage a variable gives up must be released
  exactly once unless it is the caller's (`st:` token of the harness, from the allocator's own books). Failures
  are `KNOWN C19 F31` when the operation is in the region or the variable judged has been the target of such an
  assignment (`State.hit`) / holds a buffer only such an assignment produces (`Heap.orphan`); anywhere else they
  are `PROPFAIL C19 wrap-never-frees | storage-released`. A KNOWN line is printed only when the model agrees with
  the observation (otherwise the MISMATCH is printed). -/

/-- `raster.rs`, `raster.sr`, `raster.pow`, `raster.sqrt`: result `r`, operand re-read as `a'`. -/
def checkMap {α : Type} (ta : Ty α) (what : String) (spec : α → α) (model : Raster α)
    (a : Raster α) (obs : List String) : String :=
  letI := ta.deq
  match ta.parse obs with
  | some (r, rest) =>
    match ta.parse rest with
    | some (a', []) =>
      if !(SameRaster a a') then s!"PROPFAIL C19 operands-unchanged {what} operand-after={ta.shw a'}"
      else if !(ElemMapOK spec a r) then s!"PROPFAIL C19 elementwise {what} expected={ta.shw (a.map spec)}"
      else if r ≠ model then s!"MISMATCH {what} model={ta.shw model}"
      else "ok"
    | _ => "BADLINE"
  | none => "BADLINE"

/-- `raster.as`: new left operand `a'`, and a copy `k` taken before the call. -/
def checkAssignScalar {α : Type} (ta : Ty α) (what : String) (spec : α → α) (model : Raster α)
    (a : Raster α) (obs : List String) : String :=
  letI := ta.deq
  match ta.parse obs with
  | some (a', rest) =>
    match ta.parse rest with
    | some (k, []) =>
      if !(SameRaster a k) then s!"PROPFAIL C19 copy-independent {what} copy-after={ta.shw k}"
      else if !(ElemMapOK spec a a') then s!"PROPFAIL C19 elementwise {what} expected={ta.shw (a.map spec)}"
      else if a' ≠ model then s!"MISMATCH {what} model={ta.shw model}"
      else "ok"
    | _ => "BADLINE"
  | none => "BADLINE"

def showExcept {γ : Type} (sh : Raster γ → String) : Except ErrKind (Raster γ) → String
  | .ok r => "ok " ++ sh r
  | .error e => errTok e

def isOkWith {γ : Type} [DecidableEq γ] (m : Except ErrKind (Raster γ)) (r : Raster γ) : Bool :=
  match m with
  | .ok x => decide (x = r)
  | .error _ => false

/-- `raster.rr`: `ok r a' b'` or `err:kind a' b'`. -/
def checkZip {α β γ : Type} (ta : Ty α) (tb : Ty β) (tc : Ty γ) (what : String) (spec : α → β → γ)
    (model : Except ErrKind (Raster γ)) (a : Raster α) (b : Raster β) (obs : List String) : String :=
  letI := ta.deq; letI := tb.deq; letI := tc.deq
  match obs with
  | [] => "BADLINE"
  | status :: rest0 =>
    let res : Option (Option (Raster γ) × List String) :=
      if status = "ok" then (tc.parse rest0).map fun (r, rest) => (some r, rest)
      else if status.startsWith "err:" then some (none, rest0) else none
    match res with
    | none => "BADLINE"
    | some (r?, rest) =>
      match ta.parse rest with
      | some (a', rest2) =>
        match tb.parse rest2 with
        | some (b', []) =>
          if !(SameRaster a a') || !(SameRaster b b') then
            s!"PROPFAIL C19 operands-unchanged {what} after={ta.shw a'} | {tb.shw b'}"
          else if !(sameShape a b) && r?.isSome then s!"PROPFAIL C19 shape-mismatch-not-rejected {what}"
          else if sameShape a b && r?.isNone then s!"PROPFAIL C19 equal-shapes-rejected {what} {status}"
          else
            match r? with
            | some r =>
              if !(ElemZipOK spec a b r) then s!"PROPFAIL C19 elementwise {what}"
              else if !(isOkWith model r) then s!"MISMATCH {what} model={showExcept tc.shw model}"
              else "ok"
            | none =>
              -- exception class of the rejection: not stated by C19
              if showExcept tc.shw model ≠ status then s!"MISMATCH {what} model={showExcept tc.shw model}" else "ok"
        | _ => "BADLINE"
      | none => "BADLINE"

/-- `raster.ar`: `ok|err:kind a' b' k` (`k` = copy of the left operand taken before). -/
def checkZipAssign {α β : Type} (ta : Ty α) (tb : Ty β) (what : String) (spec : α → β → α)
    (model : Except ErrKind (Raster α)) (a : Raster α) (b : Raster β) (obs : List String) : String :=
  letI := ta.deq; letI := tb.deq
  match obs with
  | [] => "BADLINE"
  | status :: rest =>
    if !(status = "ok" || status.startsWith "err:") then "BADLINE" else
    match ta.parse rest with
    | some (a', rest2) =>
      match tb.parse rest2 with
      | some (b', rest3) =>
        match ta.parse rest3 with
        | some (k, []) =>
          let threw := status != "ok"
          if !(SameRaster b b') then s!"PROPFAIL C19 operands-unchanged {what} right-after={tb.shw b'}"
          else if !(SameRaster a k) then s!"PROPFAIL C19 copy-independent {what} copy-after={ta.shw k}"
          else if !(sameShape a b) && !threw then s!"PROPFAIL C19 shape-mismatch-not-rejected {what}"
          else if sameShape a b && threw then s!"PROPFAIL C19 equal-shapes-rejected {what} {status}"
          else if threw then
            if !(SameRaster a a') then s!"PROPFAIL C19 operands-unchanged {what} left-after-rejection={ta.shw a'}"
            -- exception class of the rejection: not stated by C19
            else if showExcept ta.shw model ≠ status then s!"MISMATCH {what} model={showExcept ta.shw model}" else "ok"
          else if !(ElemZipOK spec a b a') then s!"PROPFAIL C19 elementwise {what}"
          else if !(isOkWith model a') then s!"MISMATCH {what} model={showExcept ta.shw model}"
          else "ok"
        | _ => "BADLINE"
      | none => "BADLINE"
    | none => "BADLINE"

def handleValue (cmd : String) (inp obs : List String) : String :=
  match cmd, inp with
  | "raster.rs", o :: kind :: rest =>
    match op? o, kind with
    | some o, "II" => match rasterI? rest with
      | some (a, [v]) => match parseInt? v with
        | some v => checkMap tyI cmd (specRS_II o v) (a.rsII o v) a obs | none => "BADLINE"
      | _ => "BADLINE"
    | some o, "ID" => match rasterI? rest with
      | some (a, [v]) => match parseRat? v with
        | some v => checkMap tyI cmd (specRS_ID o v) (a.rsID o v) a obs | none => "BADLINE"
      | _ => "BADLINE"
    | some o, "DI" => match rasterD? rest with
      | some (a, [v]) => match parseInt? v with
        | some v => checkMap tyD cmd (specRS_DI o v) (a.rsDI o v) a obs | none => "BADLINE"
      | _ => "BADLINE"
    | some o, "DD" => match rasterD? rest with
      | some (a, [v]) => match parseRat? v with
        | some v => checkMap tyD cmd (specRS_DD o v) (a.rsDD o v) a obs | none => "BADLINE"
      | _ => "BADLINE"
    | _, _ => "BADLINE"
  | "raster.as", o :: kind :: rest =>
    match op? o, kind with
    | some o, "II" => match rasterI? rest with
      | some (a, [v]) => match parseInt? v with
        | some v => checkAssignScalar tyI cmd (specRS_II o v) (a.asII o v) a obs | none => "BADLINE"
      | _ => "BADLINE"
    | some o, "ID" => match rasterI? rest with
      | some (a, [v]) => match parseRat? v with
        | some v => checkAssignScalar tyI cmd (specRS_ID o v) (a.asID o v) a obs | none => "BADLINE"
      | _ => "BADLINE"
    | some o, "DI" => match rasterD? rest with
      | some (a, [v]) => match parseInt? v with
        | some v => checkAssignScalar tyD cmd (specRS_DI o v) (a.asDI o v) a obs | none => "BADLINE"
      | _ => "BADLINE"
    | some o, "DD" => match rasterD? rest with
      | some (a, [v]) => match parseRat? v with
        | some v => checkAssignScalar tyD cmd (specRS_DD o v) (a.asDD o v) a obs | none => "BADLINE"
      | _ => "BADLINE"
    | _, _ => "BADLINE"
  | "raster.sr", o :: kind :: v :: rest =>
    match op? o, kind with
    | some o, "II" => match parseInt? v, rasterI? rest with
      | some v, some (a, []) => checkMap tyI cmd (specSR_II o v) (Raster.srII o v a) a obs | _, _ => "BADLINE"
    | some o, "ID" => match parseRat? v, rasterI? rest with
      | some v, some (a, []) => checkMap tyI cmd (specSR_ID o v) (Raster.srID o v a) a obs | _, _ => "BADLINE"
    | some o, "DI" => match parseInt? v, rasterD? rest with
      | some v, some (a, []) => checkMap tyD cmd (specSR_DI o v) (Raster.srDI o v a) a obs | _, _ => "BADLINE"
    | some o, "DD" => match parseRat? v, rasterD? rest with
      | some v, some (a, []) => checkMap tyD cmd (specSR_DD o v) (Raster.srDD o v a) a obs | _, _ => "BADLINE"
    | _, _ => "BADLINE"
  | "raster.rr", o :: kind :: rest =>
    match op? o, kind with
    | some o, "II" => match rasterI? rest with
      | some (a, r2) => match rasterI? r2 with
        | some (b, []) => checkZip tyI tyI tyI cmd (specRR_II o) (a.rrII o b) a b obs | _ => "BADLINE"
      | none => "BADLINE"
    | some o, "ID" => match rasterI? rest with
      | some (a, r2) => match rasterD? r2 with
        | some (b, []) => checkZip tyI tyD tyD cmd (specRR_ID o) (a.rrID o b) a b obs | _ => "BADLINE"
      | none => "BADLINE"
    | some o, "DI" => match rasterD? rest with
      | some (a, r2) => match rasterI? r2 with
        | some (b, []) => checkZip tyD tyI tyD cmd (specRR_DI o) (a.rrDI o b) a b obs | _ => "BADLINE"
      | none => "BADLINE"
    | some o, "DD" => match rasterD? rest with
      | some (a, r2) => match rasterD? r2 with
        | some (b, []) => checkZip tyD tyD tyD cmd (specRR_DD o) (a.rrDD o b) a b obs | _ => "BADLINE"
      | none => "BADLINE"
    | _, _ => "BADLINE"
  | "raster.ar", o :: kind :: rest =>
    match op? o, kind with
    | some o, "II" => match rasterI? rest with
      | some (a, r2) => match rasterI? r2 with
        | some (b, []) => checkZipAssign tyI tyI cmd (specRR_II o) (a.arII o b) a b obs | _ => "BADLINE"
      | none => "BADLINE"
    | some o, "DI" => match rasterD? rest with
      | some (a, r2) => match rasterI? r2 with
        | some (b, []) => checkZipAssign tyD tyI cmd (specRR_DI o) (a.arDI o b) a b obs | _ => "BADLINE"
      | none => "BADLINE"
    | some o, "DD" => match rasterD? rest with
      | some (a, r2) => match rasterD? r2 with
        | some (b, []) => checkZipAssign tyD tyD cmd (specRR_DD o) (a.arDD o b) a b obs | _ => "BADLINE"
      | none => "BADLINE"
    | _, _ => "BADLINE"
  | "raster.pow", "I" :: rest =>
    match rasterI? rest with
    | some (a, [k]) => match parseNat? k with
      | some k => checkMap tyI cmd (cPowI k) (a.powI k) a obs | none => "BADLINE"
    | _ => "BADLINE"
  | "raster.pow", "D" :: rest =>
    match rasterD? rest with
    | some (a, [k]) => match parseNat? k with
      | some k => checkMap tyD cmd (cPowD k) (a.powD k) a obs | none => "BADLINE"
    | _ => "BADLINE"
  | "raster.sqrt", "I" :: rest =>
    match rasterI? rest with
    | some (a, []) => checkMap tyI cmd cSqrtI a.sqrtI a obs
    | _ => "BADLINE"
  | "raster.sqrt", "D" :: rest =>
    match rasterD? rest with
    | some (a, []) =>
      if a.cells.all fun q => (cSqrtD? q).isSome then checkMap tyD cmd cSqrtD a.sqrtD a obs
      else "BADLINE"     -- the harness feeds squares only
    | _ => "BADLINE"
  | _, _ => "BADLINE"

/-- `raster.eq kind a b => <eq><ne> a' b'` -/
def checkEq {α : Type} (ta : Ty α) (rest obs : List String) : String :=
  letI := ta.deq
  match ta.parse rest with
  | some (a, r2) =>
    match ta.parse r2 with
    | some (b, []) =>
      match obs with
      | bits :: r3 =>
        match ta.parse r3 with
        | some (a', r4) =>
          match ta.parse r4 with
          | some (b', []) =>
            let spec := SameRaster a b
            if !(SameRaster a a') || !(SameRaster b b') then "PROPFAIL C19 operands-unchanged raster.eq"
            else if bits ≠ showBits [spec, !spec] then
              s!"PROPFAIL C19 eq-iff observed={bits} same-shape-and-cells={spec}"
            else if bits ≠ showBits [a.eqOp b, a.neOp b] then s!"MISMATCH raster.eq model={showBits [a.eqOp b, a.neOp b]}"
            else "ok"
          | _ => "BADLINE"
        | none => "BADLINE"
      | [] => "BADLINE"
    | _ => "BADLINE"
  | none => "BADLINE"

/-! ### storage commands -/

def varToks? : List String → Option (VarObs × List String)
  | "-" :: rest => some (none, rest)
  | "n" :: r :: c :: rest => do
    let r ← parseNat? r; let c ← parseNat? c
    some (some (r, c, none), rest)
  | "d" :: rest => do
    let (a, rest') ← rasterI? rest
    some (some (a.rows, a.cols, some a.cells), rest')
  | _ => none

def extToks? : List String → Option (List Int × List String)
  | "x" :: len :: rest => do
    let len ← parseNat? len
    let (cells, rest') ← takeN? len rest
    let cells ← parseInts? cells
    some (cells, rest')
  | _ => none

def varsToks? : Nat → List String → Option (List VarObs × List String)
  | 0, toks => some ([], toks)
  | k+1, toks => do
    let (v, rest) ← varToks? toks
    let (vs, rest') ← varsToks? k rest
    some (v :: vs, rest')

def extsToks? : Nat → List String → Option (List (List Int))
  | 0, [] => some []
  | 0, _ => none
  | fuel+1, toks =>
    if toks.isEmpty then some [] else do
    let (e, rest) ← extToks? toks
    let es ← extsToks? fuel rest
    some (e :: es)

def obs? (n : Nat) (toks : List String) : Option (Obs Int) := do
  let (vs, rest) ← varsToks? n toks
  let es ← extsToks? 8 rest
  some ⟨vs, es⟩

def showVar : VarObs → String
  | none => "-"
  | some (r, c, none) => s!"n {r} {c}"
  | some (r, c, some cells) => s!"d {r} {c} " ++ showInts cells

def showObs (o : Obs Int) : String :=
  " ".intercalate (o.vars.map showVar) ++ " | " ++ " | ".intercalate (o.exts.map showInts)

def Obs.var (o : Obs Int) (s : Nat) : VarObs := (o.vars[s]?).join
def Obs.raster (o : Obs Int) (s : Nat) : Option (Raster Int) :=
  match Obs.var o s with
  | some (r, c, some cells) => some ⟨r, c, cells⟩
  | _ => none
def Obs.setVar (o : Obs Int) (s : Nat) (v : VarObs) : Obs Int := { o with vars := o.vars.set s v }

/-- Caller array the variable points into, according to the model's pointers. -/
def extOf (h : Heap Int) (s : Nat) : Option Nat :=
  match h.slots s with
  | some o => match o.data with
    | some p => if p < h.nExt then some p else none
    | none => none
  | none => none

/-- After the caller array `e` has got contents `cells`, every raster wrapping it shows them. -/
def refreshWrappers (h : Heap Int) (o : Obs Int) (e : Nat) (cells : List Int) : Obs Int :=
  { vars := (List.range o.vars.length).map fun u =>
      match Obs.var o u with
      | some (r, c, some old) => if extOf h u = some e then some (r, c, some (cells.take (r * c))) else some (r, c, some old)
      | v => v,
    exts := o.exts.set e cells }

/-- Expectation after storing `new` into the first cells seen through variable `s`: a wrapper
    writes through to the caller's array (and to every other wrapper of it); anything else changes
    only itself. -/
def expectStore (h : Heap Int) (pre : Obs Int) (s : Nat) (new : List Int) : Obs Int :=
  match extOf h s with
  | some e =>
    let old := (pre.exts[e]?).getD []
    refreshWrappers h pre e (new ++ old.drop new.length)
  | none =>
    match Obs.var pre s with
    | some (r, c, some old) => Obs.setVar pre s (some (r, c, some (new ++ old.drop new.length)))
    | _ => pre

/-- Variables and caller arrays in which two observations differ. -/
def diffObs (a b : Obs Int) : List Nat × List Nat :=
  ((List.range (max a.vars.length b.vars.length)).filter fun u => Obs.var a u != Obs.var b u,
   (List.range (max a.exts.length b.exts.length)).filter fun e => a.exts[e]? != b.exts[e]?)

def hop? (cmd : String) (args : List String) : Option (HOp Int) :=
  match cmd, args.mapM parseInt? with
  | "raster.h.construct", some [s, r, c, v, _] => some (.construct s.toNat r.toNat c.toNat v)
  | "raster.h.wrap", some [s, e, r, c] => some (.wrap s.toNat e.toNat r.toNat c.toNat)
  | "raster.h.copyctor", some [s, t] => some (.copyCtor s.toNat t.toNat)
  | "raster.h.movector", some [s, t] => some (.moveCtor s.toNat t.toNat)
  | "raster.h.copyassign", some [s, t] => some (.copyAssign s.toNat t.toNat)
  | "raster.h.moveassign", some [s, t] => some (.moveAssign s.toNat t.toNat)
  | "raster.h.write", some [s, r, c, v] => some (.write s.toNat r.toNat c.toNat v)
  | "raster.h.destroy", some [s] => some (.destroy s.toNat)
  | "raster.h.extwrite", some [e, i, v] => some (.extWrite e.toNat i.toNat v)
  | "raster.h.pownew", some [d, a, k] => some (.powNew d.toNat a.toNat (cPowI k.toNat))
  | "raster.h.sqrtnew", some [d, a] => some (.powNew d.toNat a.toNat cSqrtI)
  | _, _ =>
    match cmd, args with
    | "raster.h.map", [s, fn, v] => do
      let s ← parseNat? s; let v ← parseInt? v
      if fn = "fill" then some (.mapInPlace s fun _ => v)
      else (op? fn).map fun o => .mapInPlace s (cAS_II o v)
    | "raster.h.zip", [s, t, o] => do
      let s ← parseNat? s; let t ← parseNat? t; let o ← op? o
      some (.zipInPlace s t (cAR_II o))
    | "raster.h.mapnew", [d, a, o, v, side] => do
      let d ← parseNat? d; let a ← parseNat? a; let o ← op? o; let v ← parseInt? v
      if side = "rs" then some (.mapNew d a (cRS_II o v))
      else if side = "sr" then some (.mapNew d a (cSR_II o v)) else none
    | "raster.h.zipnew", [d, a, b, o] => do
      let d ← parseNat? d; let a ← parseNat? a; let b ← parseNat? b; let o ← op? o
      some (.zipNew d a b (cRR_II o))
    | _, _ => none

/-- The property-level cell function of an arithmetic storage command (operand order as written). -/
def specOfCmd (cmd : String) (args : List String) : Option (Sum (Int → Int) (Int → Int → Int)) :=
  match cmd, args with
  | "raster.h.map", [_, fn, v] => do
    let v ← parseInt? v
    if fn = "fill" then some (.inl fun _ => v) else (op? fn).map fun o => .inl (specRS_II o v)
  | "raster.h.zip", [_, _, o] => (op? o).map fun o => .inr (specRR_II o)
  | "raster.h.mapnew", [_, _, o, v, side] => do
    let o ← op? o; let v ← parseInt? v
    some (.inl (if side = "rs" then specRS_II o v else specSR_II o v))
  | "raster.h.zipnew", [_, _, _, o] => (op? o).map fun o => .inr (specRR_II o)
  | "raster.h.pownew", [_, _, k] => (parseNat? k).map fun k => .inl (cPowI k)
  | "raster.h.sqrtnew", [_, _] => some (.inl cSqrtI)
  | _, _ => none

/-- Property-level expectation for the observation after `op`, from the observation before it
    (`none` where the property leaves the outcome open), with the clause it belongs to. -/
def expectAfter (h : Heap Int) (pre : Obs Int) (op : HOp Int) (spec : Option (Sum (Int → Int) (Int → Int → Int))) :
    String × Option (Obs Int) × Bool :=      -- (clause, expected observation, expected to throw)
  match op with
  | .construct s r c v => ("value-semantics", some (Obs.setVar pre s (some (r, c, some (List.replicate (r * c) v)))), false)
  | .wrap s e r c => ("wrap-writes-through", some (Obs.setVar pre s (some (r, c, some (((pre.exts[e]?).getD []).take (r * c))))), false)
  | .copyCtor s t => ("copy-independent", some (Obs.setVar pre s (Obs.var pre t)), false)
  | .copyAssign s t =>
    if s = t then ("copy-independent", some pre, false)
    else if (extOf h s).isSome then ("copy-independent", none, false)   -- assigning to a wrapper: see `relaxed`
    else ("copy-independent", some (Obs.setVar pre s (Obs.var pre t)), false)
  | .moveCtor s t | .moveAssign s t =>
    if s = t then ("move-transfers", some pre, false)
    else
      let moved : VarObs := match Obs.var pre t with
        | some (r, c, _) => some (r, c, none)
        | none => none
      ("move-transfers", some (Obs.setVar (Obs.setVar pre s (Obs.var pre t)) t moved), false)
  | .write s r c v =>
    match Obs.var pre s with
    | some (_, cols, some cells) => ("wrap-writes-through", some (expectStore h pre s ((cells.set (r * cols + c) v))), false)
    | _ => ("wrap-writes-through", none, false)
  | .destroy s => ("wrap-never-frees", some (Obs.setVar pre s none), false)
  | .extWrite e i v => ("wrap-writes-through", some (refreshWrappers h pre e (((pre.exts[e]?).getD []).set i v)), false)
  | .mapInPlace s _ =>
    match Obs.raster pre s, spec with
    | some a, some (.inl f) => ("elementwise", some (expectStore h pre s (a.cells.map f)), false)
    | _, _ => ("elementwise", none, false)
  | .zipInPlace s t _ =>
    match Obs.raster pre s, Obs.raster pre t, spec with
    | some a, some b, some (.inr f) =>
      if sameShape a b then ("elementwise", some (expectStore h pre s (List.zipWith f a.cells b.cells)), false)
      else ("shape-mismatch-not-rejected", some pre, true)
    | _, _, _ => ("elementwise", none, false)
  | .mapNew d a _ | .powNew d a _ =>
    match Obs.raster pre a, spec with
    | some va, some (.inl f) => ("elementwise", some (Obs.setVar pre d (some (va.rows, va.cols, some (va.cells.map f)))), false)
    | _, _ => ("elementwise", none, false)
  | .zipNew d a b _ =>
    match Obs.raster pre a, Obs.raster pre b, spec with
    | some va, some vb, some (.inr f) =>
      if sameShape va vb then
        ("elementwise", some (Obs.setVar pre d (some (va.rows, va.cols, some (List.zipWith f va.cells vb.cells)))), false)
      else ("shape-mismatch-not-rejected", some pre, true)
    | _, _, _ => ("elementwise", none, false)

/-- Copy assignment to a raster that wraps caller memory: the property fixes only that the target
    shows the source's value and that nothing unrelated changes (the header detaches the target
    from the caller's array; writing through would satisfy the property as well). -/
def relaxedCopyAssign (h : Heap Int) (pre post : Obs Int) (s t : Nat) : Option String :=
  let e := extOf h s
  if Obs.raster post s != Obs.raster pre t then some "copy-differs-from-source"
  else
    let bad := (List.range pre.vars.length).filter fun u =>
      u != s && extOf h u != e && Obs.var post u != Obs.var pre u
    let badE := (List.range pre.exts.length).filter fun x => some x != e && post.exts[x]? != pre.exts[x]?
    if bad.isEmpty && badE.isEmpty then none else some s!"unrelated-changed vars={bad} arrays={badE}"

/-! ### F31: storage given up, write-through of assigned-to wrappers -/

/-- Where a data pointer points, as printed by the harness. -/
inductive PCls where
  | null | ext (e : Nat) | heap
deriving DecidableEq, Repr

def PCls.show : PCls → String
  | .null => "null" | .ext e => s!"ext{e}" | .heap => "heap"

/-- `st:<null|ext<e>|heap>:<kept|freed|na>` -> pointer class, `some true` = released. -/
def storTok? (tok : String) : Option (PCls × Option Bool) :=
  match tok.splitOn ":" with
  | ["st", c, r] => do
    let c ← if c = "null" then some PCls.null else if c = "heap" then some PCls.heap
            else if c.startsWith "ext" then (parseNat? (c.drop 3).toString).map PCls.ext else none
    let r ← if r = "kept" then some (some false) else if r = "freed" then some (some true)
            else if r = "na" then some none else none
    some (c, r)
  | _ => none

def showStor : PCls × Option Bool → String
  | (c, r) => s!"st:{c.show}:" ++ (match r with | some true => "freed" | some false => "kept" | none => "na")

/-- The variable whose storage an operation gives up (`delete[]`s or drops), if any. -/
def givesUp : HOp Int → Option Nat
  | .destroy s => some s
  | .copyAssign s t | .moveAssign s t => if s = t then none else some s
  | _ => none

/-- The variable named first by an assignment / destruction (the one the `st:` token is about). -/
def storVar : HOp Int → Option Nat
  | .destroy s | .copyAssign s _ | .moveAssign s _ => some s
  | _ => none

/-- The model's `st:` token for `op` in state `h`. -/
def modelStor (h : Heap Int) (op : HOp Int) : Option (PCls × Option Bool) :=
  match storVar op with
  | none => none
  | some s =>
    match h.slots s with
    | none => none
    | some o =>
      match o.data with
      | none => some (.null, none)
      | some p => some (if p < h.nExt then .ext p else .heap, some ((givesUp op).isSome && o.owns))

/-- "Writes through": what variable `s` shows is what the caller's array `e` holds. A variable with a
    null data pointer shows nothing. -/
def showsArray (post : Obs Int) (s e : Nat) : Bool :=
  match Obs.raster post s, post.exts[e]? with
  | some a, some cells => a.cells == cells.take a.cells.length
  | some _, none => false
  | none, _ => true

def hitOf (hit : List (Nat × Nat)) (s : Nat) : Option Nat := (hit.find? fun p => p.1 == s).map (·.2)

/-- Property verdict about the storage given up: `(inside F31, detail)`. -/
def storageVerdict (h : Heap Int) (cmd : String) (op : HOp Int) (stor : Option (PCls × Option Bool)) :
    Option (Bool × String) :=
  match stor, storVar op with
  | some (.ext e, some true), some s =>
    some (false, s!"wrap-never-frees {cmd} caller array {e} released through variable {s}")
  | some (.heap, some false), some s =>
    if (givesUp op).isNone then none           -- self-assignment: nothing is given up
    else if h.orphan s then
      some (true, s!"{cmd} the buffer held by variable {s}, allocated by a copy assignment into a raster that did not own its storage, is never released")
    else some (false, s!"storage-released {cmd} the storage variable {s} gives up is still allocated")
  | some (.heap, some true), some s =>
    if (givesUp op).isNone then some (false, s!"storage-released {cmd} self-assignment released the storage of variable {s}")
    else none
  | _, _ => none

/-- `hit` after the operation, and the `(variable, caller array)` pairs to judge with `showsArray`. -/
def f31Track (h : Heap Int) (hit : List (Nat × Nat)) (op : HOp Int) (stor : Option (PCls × Option Bool)) (threw : Bool) :
    List (Nat × Nat) × List (Nat × Nat) :=
  let without (u : Nat) (l : List (Nat × Nat)) := l.filter fun p => p.1 != u
  match op with
  | .copyAssign s t | .moveAssign s t =>
    if s = t then (hit, [])
    else
      let hit0 := match op with | .moveAssign .. => without t hit | _ => hit
      match hitOf hit0 s with
      | some e => (hit0, [(s, e)])
      | none =>
        match h.f31Region op, stor with
        | true, some (.ext e, _) => ((s, e) :: hit0, [(s, e)])
        | _, _ => (hit0, [])
  | .moveCtor _ t => (without t hit, [])
  | .destroy s => (without s hit, [])
  | .write s _ _ _ | .mapInPlace s _ => (hit, (hitOf hit s).toList.map fun e => (s, e))
  | .zipInPlace s _ _ => (hit, if threw then [] else (hitOf hit s).toList.map fun e => (s, e))
  | .extWrite e _ _ => (hit, hit.filter fun p => p.2 == e)
  | _ => (hit, [])

/-- `len cell... len cell...` -/
def initArrays? : Nat → List String → Option (List (List Int))
  | _, [] => some []
  | 0, _ => none
  | fuel+1, len :: rest => do
    let len ← parseNat? len
    let (cells, rest') ← takeN? len rest
    let cells ← parseInts? cells
    let tl ← initArrays? fuel rest'
    some (cells :: tl)

def handleHeap (st : State) (cmd : String) (inp obs : List String) : State × String :=
  if cmd = "raster.h.init" then
    match inp with
    | n :: rest =>
      match parseNat? n, initArrays? 8 rest with
      | some n, some exts =>
        match obs? n obs with
        | some o =>
          let h := Heap.init exts
          let st' : State := { heap := h, n := n, pre := o, sync := true, hit := [] }
          -- the harness's own initial state (no library operation yet)
          (st', if h.observe n = o then "ok" else s!"MISMATCH raster.h.init model={showObs (h.observe n)}")
        | none => ({ st with sync := false }, "BADLINE")
      | _, _ => ({ st with sync := false }, "BADLINE")
    | [] => ({ st with sync := false }, "BADLINE")
  else if !st.sync then (st, "skip")
  else
    match hop? cmd inp with
    | none => ({ st with sync := false }, "BADLINE")
    | some op =>
      -- `st:` token of the assignments and destructions (absent in older recordings)
      let (stor?, obs) : Option (Option (PCls × Option Bool)) × List String :=
        match obs with
        | tok :: rest => if tok.startsWith "st:" then ((storTok? tok).map some, rest) else (some none, obs)
        | [] => (some none, obs)
      -- status token of the throwing commands
      let (threw?, obsToks) : Option Bool × List String :=
        match op, obs with
        | .zipInPlace .., "ok" :: rest | .zipNew .., "ok" :: rest => (some false, rest)
        | .zipInPlace .., tok :: rest | .zipNew .., tok :: rest =>
          if tok.startsWith "err:" then (some true, rest) else (none, obs)
        | _, _ => (some false, obs)
      match threw?, stor?, obs? st.n obsToks with
      | some threw, some stor, some post =>
        let h := st.heap
        if !(h.inScope op) then ({ st with sync := false }, s!"MISMATCH {cmd} outside-the-model's-caller-contract")
        else
          match h.step op with
          | .error f => ({ st with sync := false }, s!"MISMATCH {cmd} model-fault={repr f}")
          | .ok h' =>
            let (clause, expected, expThrow) := expectAfter h st.pre op (specOfCmd cmd inp)
            let modelObs := h'.observe st.n
            let (hit', judge) := f31Track h st.hit op stor threw
            let st' : State := { st with heap := h', pre := post, sync := post = modelObs, hit := hit' }
            -- 1. property predicates on the implementation's own observations
            let prop : Option String :=
              if expThrow && !threw then some s!"shape-mismatch-not-rejected {cmd}"
              else if !expThrow && threw then some s!"equal-shapes-rejected {cmd}"
              else
                match expected with
                | some e =>
                  if post = e then none
                  else
                    let (dv, de) := diffObs e post
                    let target : List Nat := match op with
                      | .mapInPlace s _ | .zipInPlace s _ _ | .mapNew s _ _ | .zipNew s _ _ _ | .powNew s _ _ => [s]
                      | _ => []
                    let cl :=
                      if clause = "elementwise" && !(dv.all fun u => target.contains u) || (clause = "elementwise" && !de.isEmpty && (target.all fun s => (extOf h s).isNone)) then "operands-unchanged"
                      else if clause = "shape-mismatch-not-rejected" then "operands-unchanged-on-rejection"
                      else clause
                    some s!"{cl} {cmd} differs-in vars={dv} arrays={de} expected={showObs e}"
                | none =>
                  match op with
                  | .copyAssign s t => (relaxedCopyAssign h st.pre post s t).map fun d => s!"copy-independent {cmd} {d}"
                  | _ => none
            -- 1b. storage given up and write-through of assigned-to wrappers (F31 inside its region)
            let sv := storageVerdict h cmd op stor
            let detached := judge.filter fun p => !(showsArray post p.1 p.2)
            let known : List String :=
              (match sv with | some (true, d) => [d] | _ => []) ++
              detached.map fun p =>
                match op with
                | .copyAssign .. | .moveAssign .. =>
                  s!"{cmd} variable {p.1} wraps caller array {p.2}; after the assignment the array does not hold what the variable shows"
                | .extWrite .. => s!"{cmd} the caller's write to array {p.2} is not seen through variable {p.1} (assigned to earlier)"
                | _ => s!"{cmd} the store through variable {p.1} (assigned to earlier) is not visible in caller array {p.2}"
            let prop : Option String := match prop, sv with
              | some d, _ => some d
              | none, some (false, d) => some d
              | none, _ => none
            match prop with
            | some d => ({ st' with sync := false }, "PROPFAIL C19 " ++ d)
            | none =>
              -- 2. model against implementation (cases (b) - (d) of the audit note at the top)
              let modelThrew := (h.throws op).isSome
              let mstor := modelStor h op
              let storAgrees : Bool := match stor, mstor with
                | some (c, some r), some (mc, some mr) => c == mc && r == mr
                | some (c, none), some (mc, _) => c == mc          -- no allocator books: pointer class only
                | some (_, some _), some (_, none) => false
                | some _, none => false
                | none, _ => true
              if modelThrew != threw then ({ st' with sync := false }, s!"MISMATCH {cmd} model-throws={modelThrew}")
              else if post ≠ modelObs then ({ st' with sync := false }, s!"MISMATCH {cmd} model={showObs modelObs}")
              else if !storAgrees then
                ({ st' with sync := false }, s!"MISMATCH {cmd} storage model={(mstor.map showStor).getD "-"}")
              else if !known.isEmpty then
                (st', "KNOWN C19 F31 assignment into a raster that wraps caller memory: " ++ "; ".intercalate known)
              else (st', "ok")
      | _, _, _ => ({ st with sync := false }, "BADLINE")

def handle (st : State) (cmd : String) (inp obs : List String) : State × String :=
  if cmd.startsWith "raster.h." then handleHeap st cmd inp obs
  else if cmd = "raster.eq" then
    match inp with
    | "I" :: rest => (st, checkEq tyI rest obs)
    | "D" :: rest => (st, checkEq tyD rest obs)
    | _ => (st, "BADLINE")
  else (st, handleValue cmd inp obs)

end Pops.Driver.RasterEng
