/-
  Driver engine for C14 (commands `det.*`, harness `harness/h_det.cpp`).

  Per line, in this order:
   1. the property predicates of Model/DetPred.lean (the definitions the theorems of Props/C14.lean
      conclude with) are evaluated on the implementation's OBSERVED output: window dimensions,
      normalised probability matrix (exact bit patterns -> exact rationals), pick sequence
      -> `PROPFAIL C14 <predicate> ...`, or `KNOWN C14 <Fxx> ...` inside the region of an open finding
      (regions are decidable predicates on the INPUTS: `f21Region`, `f23Region`, `f25Region`, and for F33 the model's raw window weights);
   2. the model (Model/Det.lean at `TF.float`) is run and compared -> `MISMATCH ...`:
      * window dimensions: the model's `windowDims` on the observed `max_distance` (the same IEEE
        division and ceil as the C++), exact;
      * `max_distance`, matrix, pdf, icdf: Float twin, relative tolerance 1e-9;
      * pick sequence: the model's `call` replayed on the observed matrix; IEEE subtraction and
        comparison are deterministic, so the comparison is exact.
  Numeric inverse check `|cdf (icdf p) - p| <= tol`: tol = 1e-9 for the closed-form laws,
  `looseTol` = 2e-3 for the approximate quantiles (normal, log-normal, gamma) - model validation.
-/
import PopsModel.Driver.Util
import PopsModel.Model.Det
import PopsModel.Model.DetPred
import PopsModel.Model.DetNum
import PopsModel.Model.DetCtor
namespace Pops.Driver.DetEng
open Pops Pops.Driver Pops.Det

def tightTol : Float := 1e-9
/-- Stated in tools/props/C14.py: tolerance of the approximate quantiles (Winitzki, Newton to 1e-3). -/
def looseTol : Float := 2e-3
/-- Slack of the quota predicates for the floating-point subtraction of 1/N. -/
def quotaEps : Rat := mkRat 1 1000000
def sumEps : Rat := mkRat 1 1000000000
/-- Relative slack on `max_distance` for the rounding of the double division. -/
def coverSlack : Rat := mkRat 1 1000000000000

def emptyKernel : Kernel Float :=
  { law := none, rows := 0, cols := 0, midRow := 0, midCol := 0, dmax := 0.0, prob := [] }

structure State where
  built : Bool := false
  law : Option Law := none
  pct : Rat := 0
  ew : Rat := 0
  ns : Rat := 0
  scale : Rat := 0
  shape : Rat := 0
  K : Kernel Float := emptyKernel
  ks : KState Float := { prevRow := -1, prevCol := -1, delta := 0.0, copy := [] }
  pRat : Option (List Rat) := none     -- observed matrix as exact rationals, when it is a probability vector
  pBits : List Nat := []               -- observed matrix, bit patterns
  counts : List Nat := []              -- dispersers received per window cell in the current run
  t : Nat := 0                         -- calls in the current run
  nRun : Nat := 0                      -- dispersers of the current run's source cell
  preds : Bool := false                -- the current run is a fresh allotment (predicates apply)

instance : Inhabited State := ⟨{}⟩

def ratToFloat (q : Rat) : Float := Float.ofInt q.num / Float.ofNat q.den
def bitsToFloat? (s : String) : Option Float := s.toNat?.map fun n => Float.ofBits (UInt64.ofNat n)

def relClose (a b tol : Float) : Bool :=
  a == b || (a.isNaN && b.isNaN) ||
    Float.abs (a - b) ≤ tol * (if Float.abs a < Float.abs b then Float.abs b else Float.abs a) + 1e-300

/-- Region of the open finding F21: the quantile is not the inverse of the cdf of the coded density
    (power law; exponential power via the gamma helper; gamma with a non-integer shape, whose
    Newton iteration inverts the Erlang-only `GammaKernel::cdf`). -/
def f21Region (law : Law) (scale : Rat) : Bool :=
  law == .powerlaw || law == .exppower || (law == .gamma && scale.den != 1)
/-- Region of F23: two-sided law and percentage below one half (negative quantile). -/
def f23Region (law : Law) (pct : Rat) : Bool := law.twoSided && decide (pct < mkRat 1 2)
/-- Region of F25: density unbounded at distance 0. -/
def f25Region (law : Law) (scale shape : Rat) : Bool :=
  (law == .weibull && decide (shape < 1)) || (law == .gamma && decide (scale < 1))

def quantTol (law : Law) : Float :=
  match law with
  | .normal | .lognormal | .gamma => looseTol
  | _ => tightTol

/-- `|cdf (x) - p| ≤ tol` with the reference cdf of the law's density. -/
def quantileInverse (law : Law) (scale shape p : Rat) (x : Float) : Bool :=
  let c := Num.lawCdf law (ratToFloat scale) (ratToFloat shape) x
  Float.abs (c - ratToFloat p) ≤ quantTol law

def showF (x : Float) : String := toString x

def errOf : BuildErr → String
  | .std e => errTok e
  | .badAlloc => "err:other"

/-- The constructor's outcome up to the allocation, from the model's own definitions
    (`memberCtorThrows`, `lawIcdf`, `windowDims`; cf. `build_ok` in Lemmas/Det.lean) without filling
    the window, whose size is unbounded when model and code disagree on `max_distance`. -/
def modelHead (law : Option Law) (pct ew ns scale shape : Float) : Except BuildErr (Float × Int × Int) :=
  let T := TF.float
  if memberCtorThrows T scale shape then .error (.std .invalid_argument)
  else match law with
  | none => .ok (0.0, 0, 0)
  | some lw =>
    match lawIcdf T lw scale shape pct with
    | .error e => .error (.std e)
    | .ok dmax =>
      let (rows, cols) := windowDims T dmax ns ew
      if rows * cols < 0 then .error .badAlloc else .ok (dmax, rows, cols)

def inDomain (pct ew ns scale shape : Rat) : Bool :=
  decide (0 < scale) && decide (0 < shape) && decide (0 < pct) && decide (pct < 1) && decide (0 < ew) && decide (0 < ns)

def handleNew (lawTok : String) (args obs : List String) : State × String :=
  let st0 : State := {}
  let lawOpt := Law.ofName? lawTok
  if lawOpt.isNone && lawTok != "none" then (st0, "BADLINE") else
  match parseRats? args with
  | some [pct, ew, ns, scale, shape] =>
    let T := TF.float
    let (pctF, ewF, nsF, scaleF, shapeF) := (ratToFloat pct, ratToFloat ew, ratToFloat ns, ratToFloat scale, ratToFloat shape)
    let model := modelHead lawOpt pctF ewF nsF scaleF shapeF
    let dom := inDomain pct ew ns scale shape
    let base : State := { law := lawOpt, pct := pct, ew := ew, ns := ns, scale := scale, shape := shape }
    match obs with
    | ["ok", rs, cs, db] =>
      match parseInt? rs, parseInt? cs, bitsToFloat? db with
      | some rows, some cols, some dmax =>
        let K : Kernel Float := { law := lawOpt, rows := rows, cols := cols, midRow := Int.tdiv rows 2,
                                  midCol := Int.tdiv cols 2, dmax := dmax, prob := [] }
        let st : State := { base with built := true, K := K, ks := initState T K }
        match lawOpt, model with
        | none, .ok (_, mr, mc) => (st, if mr == rows && mc == cols then "ok" else s!"MISMATCH det.new model=ok {mr} {mc}")
        | _, .error e => (st, s!"MISMATCH det.new model={errOf e}")
        | some law, .ok (mdmax, _, _) =>
          if !dom then (st, "MISMATCH det.new model=ok outside-domain") else
          if !WindowExists rows cols then
            (st, if f23Region law pct then s!"KNOWN C14 F23 no-window rows={rows} cols={cols} max_distance={showF dmax}"
                 else s!"PROPFAIL C14 window-exists rows={rows} cols={cols}")
          else match FloatFn.toRat? dmax with
          | none => (st, "PROPFAIL C14 window-covers max_distance-not-finite")
          | some d =>
            let s := (if d < 0 then -d else d) * coverSlack
            if !(WindowCovers (d - s) (d + s) ns rows && WindowCovers (d - s) (d + s) ew cols) then
              (st, s!"PROPFAIL C14 window-covers rows={rows} cols={cols} max_distance={showF dmax}")
            else if !quantileInverse law scale shape pct dmax then
              let det := s!"quantile-inverse {law.name} icdf={showF dmax} cdf={showF (Num.lawCdf law scaleF shapeF dmax)} p={showF pctF}"
              (st, if f21Region law scale then s!"KNOWN C14 F21 {det}" else s!"PROPFAIL C14 {det}")
            else if windowDims T dmax nsF ewF != (rows, cols) then
              (st, s!"MISMATCH det.new dims model={(windowDims T dmax nsF ewF).1} {(windowDims T dmax nsF ewF).2}")
            else if !relClose mdmax dmax tightTol then (st, s!"MISMATCH det.new max_distance model={showF mdmax}")
            else (st, "ok")
      | _, _, _ => (st0, "BADLINE")
    | [err] =>
      if !err.startsWith "err:" then (st0, "BADLINE") else
      match lawOpt with
      | some law =>
        if dom then
          (base, if f23Region law pct then s!"KNOWN C14 F23 constructor-throws {err}"
                 else s!"PROPFAIL C14 window-exists constructor-throws {err}")
        else match model with
          | .error e => (base, if errOf e == err then "ok" else s!"MISMATCH det.new model={errOf e}")
          | .ok _ => (base, "MISMATCH det.new model=ok")
      | none => match model with
          | .error e => (base, if errOf e == err then "ok" else s!"MISMATCH det.new model={errOf e}")
          | .ok _ => (base, "MISMATCH det.new model=ok")
    | _ => (st0, "BADLINE")
  | _ => (st0, "BADLINE")

/-- First index where the two lists are not close. -/
def firstFar (a b : List Float) (tol : Float) : Option Nat :=
  let rec go : List Float → List Float → Nat → Option Nat
    | x :: xs, y :: ys, i => if relClose x y tol then go xs ys (i + 1) else some i
    | [], [], _ => none
    | _, _, i => some i
  go a b 0

def handleProb (st : State) (args obs : List String) : State × String :=
  match args with
  | [rs, cs] =>
    match parseInt? rs, parseInt? cs, obs.mapM String.toNat? with
    | some rows, some cols, some bitsL =>
      if !st.built || rows != st.K.rows || cols != st.K.cols || rows < 1 || cols < 1
          || bitsL.length != (rows * cols).toNat then (st, "BADLINE") else
      let T := TF.float
      let fl := bitsL.map fun n => Float.ofBits (UInt64.ofNat n)
      let rats := fl.mapM FloatFn.toRat?
      let normal := match rats with | some ps => Normalised ps sumEps | none => false
      let K := { st.K with prob := fl }
      let st' : State := { st with K := K, ks := initState T K, pBits := bitsL,
                                   pRat := if normal then rats else none, counts := [], t := 0, preds := false }
      match st.law with
      | none => (st', "BADLINE")
      | some law =>
        if !normal then
          -- region of F33: every raw weight abs(pdf(distance)) of this window is 0 in double precision (0 / 0)
          let f33 : Bool :=
            match rawWeights T law (ratToFloat st.scale) (ratToFloat st.shape) (ratToFloat st.ns) (ratToFloat st.ew)
                    rows.toNat cols.toNat (Int.tdiv rows 2) (Int.tdiv cols 2) with
            | .ok raw => !raw.isEmpty && raw.all (· == 0.0)
            | .error _ => false
          (st', if f25Region law st.scale st.shape then "KNOWN C14 F25 weights-not-a-probability-vector (density unbounded at the centre)"
                else if f33 && fl.all Float.isNaN then "KNOWN C14 F33 weights-not-a-probability-vector (every density of the window is 0 in double precision)"
                else "PROPFAIL C14 normalised weights-not-a-probability-vector")
        else
          let nr := rows.toNat; let nc := cols.toNat
          let badMirror := (List.range (nr * nc)).find? fun c =>
            !(mirrorCells nr nc c).all fun d => bitsL.getD c 0 == bitsL.getD d 1
          match badMirror with
          | some c => (st', s!"PROPFAIL C14 mirror-weights cell {c / nc} {c % nc}")
          | none =>
            let (pF, eF, nF, sF, hF) := (ratToFloat st.pct, ratToFloat st.ew, ratToFloat st.ns, ratToFloat st.scale, ratToFloat st.shape)
            match modelHead (some law) pF eF nF sF hF with
            | .ok (_, mr, mc) =>
              if mr != rows || mc != cols then (st', "ok")   -- different window: reported on the det.new line
              else match build T (some law) pF eF nF sF hF with
                | .ok m =>
                  match firstFar fl m.prob tightTol with
                  | some k => (st', s!"PROPFAIL C14 weight-proportional cell {k / nc} {k % nc} observed={showF (fl.getD k 0.0)} density/sum={showF (m.prob.getD k 0.0)}")
                  | none => (st', "ok")
                | .error _ => (st', "ok")
            | .error _ => (st', "ok")
    | _, _, _ => (st, "BADLINE")
  | _ => (st, "BADLINE")

def handleCall (st : State) (args obs : List String) : State × String :=
  match parseInts? args with
  | some [row, col, n] =>
    if !st.built then (st, "BADLINE") else
    let T := TF.float
    let model := call T st.K st.ks row col n
    match obs, model with
    | [err], .error e =>
      (st, if err == errTok e then "ok" else s!"MISMATCH det.call model={errTok e}")
    | [_], .ok (_, (mr, mc)) => (st, s!"MISMATCH det.call model={mr} {mc}")
    | [rs, cs], _ =>
      match parseInt? rs, parseInt? cs with
      | some r, some c =>
        let K := st.K
        -- follow the implementation: if it picked another cell than the model, the subtraction is
        -- applied where the implementation put the disperser, so that one divergence is one MISMATCH
        let ks' := match model with
          | .ok (k, (mr, mc)) =>
            if mr == r && mc == c then k
            else
              let changed := sourceChanged st.ks row col
              let base := if changed then K.prob else st.ks.copy
              let oi := (r - row + K.midRow) * K.cols + (c - col + K.midCol)
              if 0 ≤ oi then { k with copy := base.modify oi.toNat (· - k.delta) } else k
          | .error _ => st.ks
        let nr := K.rows.toNat; let nc := K.cols.toNat
        let changed := sourceChanged st.ks row col
        -- the allocation starts afresh for every new source cell: counts restart with it
        let (counts, t, nRun, preds) :=
          if changed then (List.replicate (nr * nc) 0, 0, n.toNat, true)
          else if st.t ≥ st.nRun || n.toNat != st.nRun then (st.counts, st.t, st.nRun, false)
          else (st.counts, st.t, st.nRun, st.preds)
        let di := r - row + K.midRow
        let dj := c - col + K.midCol
        let inside := decide (0 ≤ di) && decide (di < K.rows) && decide (0 ≤ dj) && decide (dj < K.cols)
        if !inside then
          let stn := { st with ks := ks', counts := counts, t := t + 1, nRun := nRun, preds := false }
          match st.law with
          | some law =>
            if !WindowExists K.rows K.cols && f23Region law st.pct then (stn, s!"KNOWN C14 F23 no-window disperser-stays-in-source-cell {r} {c}")
            else (stn, s!"PROPFAIL C14 outside-window {r} {c}")
          | none => (stn, "BADLINE")
        else
          let idx := (di * K.cols + dj).toNat
          let counts := counts.modify idx (· + 1)
          let t := t + 1
          let stn := { st with ks := ks', counts := counts, t := t, nRun := nRun, preds := preds }
          let pv : Option String :=
            match preds, st.pRat with
            | true, some p =>
              if !QuotaUpperAt nRun p counts quotaEps idx then some s!"quota-upper cell {idx / nc} {idx % nc} k={counts.getD idx 0} N={nRun} t={t}"
              else if !MirrorBoundAt nr nc counts idx then some s!"mirror cell {idx / nc} {idx % nc} t={t}"
              else if !((List.range (nr * nc)).all fun d => st.pBits.getD d 0 != st.pBits.getD idx 1 || near1 (counts.getD idx 0) (counts.getD d 0)) then
                some s!"equal-share cell {idx / nc} {idx % nc} t={t}"
              else if t == nRun && !QuotaBound nRun p counts quotaEps then
                let bad := (List.range p.length).find? fun cc => !(decide (excess nRun p counts cc ≤ 1 + quotaEps) && decide (-(1 + quotaEps) ≤ excess nRun p counts cc))
                let cc := bad.getD 0
                some s!"quota cell {cc / nc} {cc % nc} k={counts.getD cc 0} N*p={showF (ratToFloat ((nRun : Rat) * p.getD cc 0))} N={nRun}"
              else if t == nRun && !MirrorBound nr nc counts then some s!"mirror end-of-run N={nRun}"
              else none
            | _, _ => none
          match pv with
          | some d => (stn, s!"PROPFAIL C14 {d}")
          | none =>
            match model with
            | .ok (_, (mr, mc)) => (stn, if mr == r && mc == c then "ok" else s!"MISMATCH det.call model={mr} {mc}")
            | .error e => (stn, s!"MISMATCH det.call model={errTok e}")
      | _, _ => (st, "BADLINE")
    | _, _ => (st, "BADLINE")
  | _ => (st, "BADLINE")

def cmpExceptFloat (what : String) (model : Except ErrKind Float) (obs : List String) (absTol : Float := 0.0) : String :=
  match obs with
  | [o] =>
    if o.startsWith "err:" then
      match model with
      | .error e => if o == errTok e then "ok" else s!"MISMATCH {what} model={errTok e}"
      | .ok v => s!"MISMATCH {what} model={showF v}"
    else match bitsToFloat? o, model with
      | some x, .ok v => if relClose x v tightTol || Float.abs (x - v) ≤ absTol then "ok" else s!"MISMATCH {what} model={showF v} observed={showF x}"
      | some _, .error e => s!"MISMATCH {what} model={errTok e}"
      | none, _ => "BADLINE"
  | _ => "BADLINE"

def handleQ (args obs : List String) : String :=
  match args with
  | [lawTok, sc, sh, ps] =>
    match Law.ofName? lawTok, parseRat? sc, parseRat? sh, parseRat? ps with
    | some law, some scale, some shape, some p =>
      let T := TF.float
      let model := lawIcdf T law (ratToFloat scale) (ratToFloat shape) (ratToFloat p)
      let dom := decide (0 < scale) && decide (0 < shape) && decide (0 < p) && decide (p < 1)
      match obs with
      | [o] =>
        if o.startsWith "err:" then
          if dom then
            (if f21Region law scale then s!"KNOWN C14 F21 quantile-inverse {law.name} icdf-throws {o}"
             else s!"PROPFAIL C14 quantile-inverse {law.name} icdf-throws {o}")
          else cmpExceptFloat "det.q" model obs
        else match bitsToFloat? o with
          | some x =>
            if !dom then cmpExceptFloat "det.q" model obs
            else if !quantileInverse law scale shape p x then
              let det := s!"quantile-inverse {law.name} icdf={showF x} cdf={showF (Num.lawCdf law (ratToFloat scale) (ratToFloat shape) x)} p={showF (ratToFloat p)}"
              if f21Region law scale then s!"KNOWN C14 F21 {det}" else s!"PROPFAIL C14 {det}"
            else cmpExceptFloat "det.q" model obs
          | none => "BADLINE"
      | _ => "BADLINE"
    | _, _, _, _ => "BADLINE"
  | _ => "BADLINE"

def handlePdf (args obs : List String) : String :=
  match args with
  | [lawTok, sc, sh, xb] =>
    match Law.ofName? lawTok, parseRat? sc, parseRat? sh, bitsToFloat? xb with
    | some law, some scale, some shape, some x =>
      cmpExceptFloat "det.pdf" (lawPdf TF.float law (ratToFloat scale) (ratToFloat shape) x) obs
    | _, _, _, _ => "BADLINE"
  | _ => "BADLINE"

def handleGcdf (args obs : List String) : String :=
  match args with
  | [sc, sh, xb] =>
    match parseRat? sc, parseRat? sh, bitsToFloat? xb with
    | some alpha, some theta, some x =>
      -- `1 - sum` cancels for small x: a value in [0, 1] is compared with an absolute tolerance as well
      cmpExceptFloat "det.gcdf" (.ok (gammaCdfOwn TF.float (ratToFloat alpha) (ratToFloat theta) x)) obs 1e-12
    | _, _, _ => "BADLINE"
  | _ => "BADLINE"

/-- `det.ctor <law> <scale> <shape> => ok | err:*`: direct construction of the law's class.
    Property predicate (C14 "scale and shape in its domain", C20 "documented errors throw"), on the
    observed outcome: a parameter the class validates (`Law.scaleCheck` / `Law.shapeCheck`,
    `C14_parameters_rejected`) and that is outside its domain must be rejected with
    `invalid_argument`; parameters inside the domain must be accepted. Then the model comparison
    (`lawCtorCheck`): parameters the class does not validate (negative sigma of the normal law, ...). -/
def handleCtor (args obs : List String) : String :=
  match args, obs with
  | [lawTok, sc, sh], [o] =>
    match Law.ofName? lawTok, parseRat? sc, parseRat? sh with
    | some law, some scale, some shape =>
      if o != "ok" && !o.startsWith "err:" then "BADLINE" else
      let invalid := decide (law.scaleCheck.rejects scale ∨ law.shapeCheck.rejects shape)
      let inDom := decide (ParamsInDomain law scale shape)
      let model := lawCtorCheck law scale shape
      let what := s!"{law.name} scale={scale} shape={shape}"
      if invalid && o == "ok" then
        s!"PROPFAIL C14 parameters_rejected {what}: constructor accepted a parameter outside its domain ;; " ++
        s!"PROPFAIL C20 documented_error det.ctor {what}: no exception, documented std::invalid_argument"
      else if invalid && o != errTok .invalid_argument then
        s!"MISMATCH det.ctor model={errTok .invalid_argument} ;; " ++
        s!"PROPFAIL C20 documented_error det.ctor {what}: threw {o}, documented std::invalid_argument"
      else if inDom && o != "ok" then
        s!"PROPFAIL C14 parameters_rejected {what}: constructor rejected parameters inside the domain with {o}"
      else match model with
        | .ok _ => if o == "ok" then "ok" else "MISMATCH det.ctor model=ok"
        | .error e => if o == errTok e then "ok" else s!"MISMATCH det.ctor model={errTok e}"
    | _, _, _ => "BADLINE"
  | _, _ => "BADLINE"

def handle (st : State) (cmd : String) (inp obs : List String) : State × String :=
  match cmd, inp with
  | "det.ctor", args => (st, handleCtor args obs)
  | "det.new", lawTok :: args => handleNew lawTok args obs
  | "det.prob", args => handleProb st args obs
  | "det.call", args => handleCall st args obs
  | "det.q", args => (st, handleQ args obs)
  | "det.pdf", args => (st, handlePdf args obs)
  | "det.gcdf", args => (st, handleGcdf args obs)
  | _, _ => (st, "BADLINE")

end Pops.Driver.DetEng
