/-
  Driver engine for C13 (stochastic kernels): compares the implementation's kernels with the model
  and evaluates the property predicates of Props/C13.lean on the implementation's own output.
  Protocol: see harness/h_kern.cpp. Doubles that are inputs arrive as dyadic `num/den`, observed
  doubles as C hex floats (parsed exactly).
-/
import PopsModel.Driver.Util
import PopsModel.Model.KernRadial
import PopsModel.Model.KernElig
import PopsModel.Model.DetNum
namespace Pops.Driver.KernEng
open Pops Pops.Driver

structure State where
  lines : Nat := 0
deriving Inhabited

/-! ### parsing -/

def hexDigit? (c : Char) : Option Nat :=
  if '0' ≤ c ∧ c ≤ '9' then some (c.toNat - '0'.toNat)
  else if 'a' ≤ c ∧ c ≤ 'f' then some (c.toNat - 'a'.toNat + 10)
  else if 'A' ≤ c ∧ c ≤ 'F' then some (c.toNat - 'A'.toNat + 10)
  else none

def hexNat? (cs : List Char) : Option Nat :=
  cs.foldlM (fun acc c => (hexDigit? c).map fun d => acc * 16 + d) 0

def splitAtChar (c : Char) (cs : List Char) : List Char × Option (List Char) :=
  match cs.span (· != c) with
  | (a, []) => (a, none)
  | (a, _ :: b) => (a, some b)

/-- C `%a` output, exactly: `[-]0x<hex>[.<hex>]p<+|-><dec>`, `inf`, `nan`. -/
def parseHexFloat? (s : String) : Option Float :=
  let cs := s.toList
  let (neg, cs) := match cs with | '-' :: r => (true, r) | r => (false, r)
  let sgn (x : Float) : Float := if neg then -x else x
  if cs = "inf".toList then some (sgn (1.0 / 0.0))
  else if cs = "nan".toList then some (0.0 / 0.0)
  else match cs with
    | '0' :: 'x' :: rest =>
      let (mant, ex) := splitAtChar 'p' rest
      match ex with
      | none => none
      | some ex =>
        let (ip, fp) := splitAtChar '.' mant
        let fp := fp.getD []
        match hexNat? (ip ++ fp), (String.ofList (match ex with | '+' :: r => r | r => r)).toInt? with
        | some m, some e => some (sgn ((Float.ofNat m).scaleB (e - 4 * (fp.length : Int))))
        | _, _ => none
    | _ => none

def ratToFloat (q : Rat) : Float := Float.ofInt q.num / Float.ofNat q.den

/-- `key=value` token. -/
def kv? (key : String) (tok : String) : Option String :=
  let k := (key ++ "=").toList
  let t := tok.toList
  if k.isPrefixOf t then some (String.ofList (t.drop k.length)) else none

def decodeName (s : String) : String :=
  if s = "<empty>" then "" else String.ofList (s.toList.map fun c => if c = '~' then ' ' else c)

def typeOfTok? : String → Option DispersalKernelType
  | "Cauchy" => some .cauchy | "Exponential" => some .exponential | "Uniform" => some .uniform
  | "DeterministicNeighbor" => some .deterministicNeighbor | "PowerLaw" => some .powerLaw
  | "HyperbolicSecant" => some .hyperbolicSecant | "Gamma" => some .gamma
  | "ExponentialPower" => some .exponentialPower | "Weibull" => some .weibull | "Normal" => some .normal
  | "LogNormal" => some .logNormal | "Logistic" => some .logistic | "Network" => some .network
  | "None" => some .none | _ => none

def tokOfType : DispersalKernelType → String
  | .cauchy => "Cauchy" | .exponential => "Exponential" | .uniform => "Uniform"
  | .deterministicNeighbor => "DeterministicNeighbor" | .powerLaw => "PowerLaw"
  | .hyperbolicSecant => "HyperbolicSecant" | .gamma => "Gamma" | .exponentialPower => "ExponentialPower"
  | .weibull => "Weibull" | .normal => "Normal" | .logNormal => "LogNormal" | .logistic => "Logistic"
  | .network => "Network" | .none => "None"

def dirOfTok? (s : String) : Option Direction := Direction.all.find? fun d => d.name = s

/-! ### floating-point comparison -/

def fabs (x : Float) : Float := Float.abs x

/-- Agreement of two doubles computed by the same formula: identical, both NaN, or within `tol`
    relative (plus a tiny absolute slack for values that cancel to about zero). -/
def close (a b : Float) (tol : Float := 1e-9) : Bool :=
  a == b || (a.isNaN && b.isNaN) || fabs (a - b) ≤ tol * (fabs a + fabs b) || fabs (a - b) ≤ 1e-300

def closeAbs (a b : Float) (tol : Float) : Bool := close a b 1e-9 || fabs (a - b) ≤ tol

def showF (x : Float) : String := toString x

/-- An observed double or an error token. -/
def floatOrErr? (s : String) : Option (Except String Float) :=
  if s.startsWith "err:" then some (.error s) else (parseHexFloat? s).map .ok

def exceptTok (e : Except ErrKind Float) : String :=
  match e with | .ok v => showF v | .error k => errTok k

def cmpFE (what : String) (model : Except ErrKind Float) (obs : Except String Float) (tol : Float := 1e-9) : String :=
  match model, obs with
  | .ok m, .ok o => if close m o tol then "ok" else s!"MISMATCH {what} model={showF m} observed={showF o}"
  | .error k, .error o => if errTok k = o then "ok" else s!"MISMATCH {what} model={errTok k}"
  | m, _ => s!"MISMATCH {what} model={exceptTok m}"

/-! ### predicates on observed output -/

def TFf : TF Float := TF.float

def lawOfType? (t : DispersalKernelType) : Option Law := t.law?

/-- Sampler described by the harness: kind token and two parameters. -/
def samplerOfObs? (kind : String) (p1 p2 : Float) : Option (Sampler Float) :=
  match kind with
  | "cauchy" => some (.stdCauchy p1 p2)
  | "exponential" => some (.stdExponential p1)
  | "weibull" => some (.stdWeibull p1 p2)
  | "normal" => some (.stdNormal p1 p2)
  | "lognormal" => some (.stdLognormal p1 p2)
  | "gamma" => some (.stdGamma p1 p2)
  | "uniform" => some (.icdfOfUniform p1 p2)
  | _ => none

def samplerClose (a b : Sampler Float) : Bool :=
  match a, b with
  | .stdCauchy a1 a2, .stdCauchy b1 b2 => close a1 b1 1e-12 && close a2 b2 1e-12
  | .stdExponential a1, .stdExponential b1 => close a1 b1 1e-12
  | .stdWeibull a1 a2, .stdWeibull b1 b2 => close a1 b1 1e-12 && close a2 b2 1e-12
  | .stdNormal a1 a2, .stdNormal b1 b2 => close a1 b1 1e-12 && close a2 b2 1e-12
  | .stdLognormal a1 a2, .stdLognormal b1 b2 => close a1 b1 1e-12 && close a2 b2 1e-12
  | .stdGamma a1 a2, .stdGamma b1 b2 => close a1 b1 1e-12 && close a2 b2 1e-12
  | .icdfOfUniform a1 a2, .icdfOfUniform b1 b2 => a1 == b1 && a2 == b2
  | _, _ => false

def showSampler : Sampler Float → String
  | .stdCauchy a b => s!"cauchy({a},{b})" | .stdExponential l => s!"exponential({l})"
  | .stdWeibull a b => s!"weibull({a},{b})" | .stdNormal a b => s!"normal({a},{b})"
  | .stdLognormal a b => s!"lognormal({a},{b})" | .stdGamma a b => s!"gamma({a},{b})"
  | .icdfOfUniform a b => s!"icdf(uniform({a},{b}))"

/-- `C13_parameter_wiring` / `C13_inverse_transform` on an observed sampler: the standard density
    with the OBSERVED constructor parameters equals the OBSERVED `pdf(x)` (x > 0), respectively the
    uniform is on (0, 1); `same` = `random()` is |that distribution's draw| / `icdf` of that uniform. -/
def samplerPropFail (law : Law) (obsS : Sampler Float) (x : Float) (pdfObs : Except String Float) (same : String) : Option String :=
  match obsS with
  | .icdfOfUniform lo hi =>
    if !(lo == 0.0 && hi == 1.0) then some s!"inverse_transform uniform-range lo={lo} hi={hi}"
    else if same != "1" then some "inverse_transform random()-is-not-icdf(uniform)"
    else none
  | s =>
    if same != "1" then some s!"parameter_wiring random()-is-not-abs(draw of {showSampler s})"
    else match pdfObs, Sampler.density TFf s x with
      | .ok p, some dens =>
        if x > 0.0 && !dens.isNaN && !p.isNaN && !(close dens p 1e-9) then
          some s!"parameter_wiring law={repr law} sampler={showSampler s} x={x} std-density={dens} kernel-pdf={p}"
        else none
      | _, _ => none

def twoPi : Float := 2.0 * FloatFn.piF

/-- Angle difference wrapped by cosine / sine (no branch cuts). -/
def cosDiff (a b : Float) : Float := Float.cos (a - b)

/-- Exact rounding of the Float quotients with the theorems' `lround`, with a fallback for quotients
    within 1e-9 (relative) of a half-way point, where one ulp of `cos`/`sin` decides. -/
def geometryOK (row col : Int) (qr qc : Float) (r c : Int) : Bool :=
  match FloatFn.toRat? qr, FloatFn.toRat? qc with
  | some a, some b =>
    let ea : Rat := (if a < 0 then -a else a) / 1000000000 + 1 / 1000000000000
    let eb : Rat := (if b < 0 then -b else b) / 1000000000 + 1 / 1000000000000
    roundsTo a (row - r) ea && roundsTo b (c - col) eb
  | _, _ => false

def sgnI (x : Int) : Int := if x > 0 then 1 else if x < 0 then -1 else 0

/-! ### handlers -/

def q? (s : String) : Option Rat := parseRat? s
def qf? (s : String) : Option (Rat × Float) := (parseRat? s).map fun q => (q, ratToFloat q)

/-- `kern.name`: the property's documented list (`kernelSpellings`, theorem `C13_names`) judged on
    the OBSERVED outcome: a documented spelling must be accepted as the kernel the list gives, an
    undocumented spelling must be rejected, an accepted spelling must name the kernel it is mapped to.
    Every disagreement about acceptance or about the kernel is a PROPFAIL; only the kind of the
    exception for an undocumented spelling is left to the model comparison. -/
def handleName (inp obs : List String) : String :=
  match inp with
  | [s] =>
    let s := decodeName s
    let model := kernelTypeFromString s
    let doc := documentedKernel? s
    match obs with
    | ["ok", t] =>
      match typeOfTok? t with
      | some k =>
        if !decide (NamesKernel s k) then s!"PROPFAIL C13 names spelling '{s}' accepted as {t}, which it does not name"
        else match doc with
          | none => s!"PROPFAIL C13 names undocumented spelling '{s}' accepted (as {t})"
          | some kd =>
            if kd ≠ k then s!"PROPFAIL C13 names documented spelling '{s}' of {tokOfType kd} accepted as {t}"
            else if model = .ok k then "ok" else s!"MISMATCH kern.name model={repr model}"
      | none => "BADLINE"
    | [e] =>
      if !e.startsWith "err:" then "BADLINE"
      else if DispersalKernelType.all.any (fun k => k.name = s) then s!"PROPFAIL C13 names canonical name '{s}' rejected"
      else match doc with
        | some kd => s!"PROPFAIL C13 names documented spelling '{s}' of {tokOfType kd} rejected with {e}"
        | none => match model with
          | .error k => if errTok k = e then "ok" else s!"MISMATCH kern.name model={errTok k}"
          | .ok k => s!"MISMATCH kern.name model=ok {tokOfType k}"
    | _ => "BADLINE"
  | _ => "BADLINE"

def handleDir (inp obs : List String) : String :=
  match inp with
  | [s] =>
    let s := decodeName s
    let model := directionFromString s
    let doc := documentedDirection? s
    match obs with
    | ["ok", t] =>
      match dirOfTok? t with
      | some d =>
        if !decide (NamesDirection s d) then s!"PROPFAIL C13 names direction spelling '{s}' accepted as {t}, which it does not name"
        else match doc with
          | none => s!"PROPFAIL C13 names undocumented direction spelling '{s}' accepted (as {t})"
          | some dd =>
            if dd ≠ d then s!"PROPFAIL C13 names documented direction spelling '{s}' of {dd.name} accepted as {t}"
            else if model = .ok d then "ok" else s!"MISMATCH kern.dir model={repr model}"
      | none => "BADLINE"
    | [e] =>
      if !e.startsWith "err:" then "BADLINE"
      else if Direction.all.any (fun d => d.name = s) then s!"PROPFAIL C13 names canonical direction '{s}' rejected"
      else match doc with
        | some dd => s!"PROPFAIL C13 names documented direction spelling '{s}' of {dd.name} rejected with {e}"
        | none => match model with
          | .error k => if errTok k = e then "ok" else s!"MISMATCH kern.dir model={errTok k}"
          | .ok d => s!"MISMATCH kern.dir model=ok {d.name}"
    | _ => "BADLINE"
  | _ => "BADLINE"

def handleDirDeg (inp obs : List String) : String :=
  match inp, obs with
  | [d], [n] =>
    match dirOfTok? d, parseInt? n with
    | some d, some n =>
      if d ≠ .none && n ≠ d.degrees then s!"PROPFAIL C13 direction_degrees {d.name} is coded as {n}, clockwise-from-north is {d.degrees}"
      else if n = d.degrees then "ok" else s!"MISMATCH kern.dirdeg model={d.degrees}"
    | _, _ => "BADLINE"
  | _, _ => "BADLINE"

def handleNeighbor (inp obs : List String) : String :=
  match inp with
  | [d, row, col] =>
    match dirOfTok? d, parseInt? row, parseInt? col with
    | some d, some row, some col =>
      let model := neighborKernel d row col
      match obs with
      | [r, c, g] =>
        match parseInt? r, parseInt? c with
        | some r, some c =>
          if d ≠ .none && !decide (NeighborInDirection d row col (r, c)) then
            s!"PROPFAIL C13 neighbor direction={d.name} from=({row},{col}) to=({r},{c})"
          else if model = .ok (r, c) && g = "gen=0" then "ok" else s!"MISMATCH kern.neighbor model={repr model} gen=0"
        | _, _ => "BADLINE"
      | [e] =>
        if d ≠ .none then s!"PROPFAIL C13 neighbor direction={d.name} rejected with {e}"
        else match model with
          | .error k => if errTok k = e then "ok" else s!"MISMATCH kern.neighbor model={errTok k}"
          | .ok _ => "MISMATCH kern.neighbor model=ok"
      | _ => "BADLINE"
    | _, _, _ => "BADLINE"
  | _ => "BADLINE"

def intRange (lo hi : Int) : List Int := (List.range (hi - lo + 1).toNat).map fun (k : Nat) => lo + (k : Int)

/-- `C13_uniform_in_landscape` on observed ranges: every draw lands inside, every cell is reachable. -/
def uniformRangesOK (rows cols : Int) (k : UniformKernel) : Bool :=
  ((intRange k.rowLo k.rowHi).all fun dr => (intRange k.colLo k.colHi).all fun dc =>
      decide (InLandscape rows cols (k.call 0 0 dr dc))) &&
  ((intRange 0 (rows - 1)).all fun r => (intRange 0 (cols - 1)).all fun c => decide (k.InRange r c))

def handleUniformRanges (inp obs : List String) : String :=
  -- the class no longer has the two member distributions the probe reads: the model of the internals no longer
  -- applies (reported as a broken correspondence); the landing law itself is judged by the draw / sweep lines
  if obs == ["na", "na", "na", "na"] then "MISMATCH kern.uniform.ranges member distributions not found" else
  match parseInts? inp, parseInts? obs with
  | some [rows, cols], some [rlo, rhi, clo, chi] =>
    let k : UniformKernel := { rowMax := rows, colMax := cols, rowLo := rlo, rowHi := rhi, colLo := clo, colHi := chi }
    if !uniformRangesOK rows cols k then
      s!"PROPFAIL C13 uniform_in_landscape landscape {rows}x{cols} draws rows {rlo}..{rhi} cols {clo}..{chi}"
    else if k = UniformKernel.make rows cols then "ok" else "MISMATCH kern.uniform.ranges"
  | _, _ => "BADLINE"

def handleUniformDraw (inp obs : List String) : String :=
  match inp, obs with
  | [rows, cols, _srow, _scol, v1, v2], [r, c, calls] =>
    match parseInt? rows, parseInt? cols, parseNat? v1, parseNat? v2, parseInt? r, parseInt? c with
    | some rows, some cols, some v1, some v2, some r, some c =>
      if !decide (InLandscape rows cols (r, c)) then
        s!"PROPFAIL C13 uniform_in_landscape landscape {rows}x{cols} target=({r},{c})"
      else if lemireNoReject rows.toNat v1 && lemireNoReject cols.toNat v2 then
        if lemireDraw rows.toNat v1 = r && lemireDraw cols.toNat v2 = c && calls = "calls=2" then "ok"
        else s!"MISMATCH kern.uniform.draw model={lemireDraw rows.toNat v1} {lemireDraw cols.toNat v2} calls=2"
      else "ok"
    | _, _, _, _, _, _ => "BADLINE"
  | _, _ => "BADLINE"

def handleUniformCover (inp obs : List String) : String :=
  match parseInts? inp, obs with
  | some [rows, cols], [a, b] =>
    match (kv? "distinct_inside" a).bind parseInt?, (kv? "outside" b).bind parseInt? with
    | some k, some m =>
      if m ≠ 0 then s!"PROPFAIL C13 uniform_in_landscape {m} scripted draws left the {rows}x{cols} landscape"
      else if k ≠ rows * cols then s!"PROPFAIL C13 uniform_in_landscape only {k} of {rows * cols} cells reached by one draw per bucket"
      else "ok"
    | _, _ => "BADLINE"
  | _, _ => "BADLINE"

def handleUniformSample (inp obs : List String) : String :=
  match parseInts? inp, parseInts? obs with
  | some [rows, cols, n], some [rmin, rmax, cmin, cmax] =>
    if rmin < 0 || rmax ≥ rows || cmin < 0 || cmax ≥ cols then
      s!"PROPFAIL C13 uniform_in_landscape {n} draws on {rows}x{cols} span rows {rmin}..{rmax} cols {cmin}..{cmax}"
    else if rmin ≠ 0 || rmax ≠ rows - 1 || cmin ≠ 0 || cmax ≠ cols - 1 then
      s!"PROPFAIL C13 uniform_in_landscape {n} draws on {rows}x{cols} never reach an edge: rows {rmin}..{rmax} cols {cmin}..{cmax}"
    else "ok"
  | _, _ => "BADLINE"

/-- `kern.mix <src> ...`: src = `stub` (stub kernels, eligibility by parity), `factory` (neighbour kernels
    through the factory), `network` (anthropogenic = teleporting network kernel: eligible iff the source
    cell has a node; the `eligible` input is the harness's node table) or `uniform` (anthropogenic = uniform
    kernel, eligible everywhere). Property predicate `mixUsesAnthropogenic` (`C13_mix`, `C13_eligibility`)
    on the observed decision first. -/
def handleMix (inp obs : List String) : String :=
  match inp, obs with
  | [src, en, el, u, p, row, col], [which, asked, ca, cn, gen, _r, _c] =>
    match q? u, q? p, parseInt? row, parseInt? col with
    | some u, some p, some row, some col =>
      let enabled : Bool := en = "1"
      let eligible : Bool := el = "1"
      let anthro := mixUsesAnthropogenic enabled eligible u p
      let obsAnthro := which = "anthro"
      if which.startsWith "err:" then
        s!"PROPFAIL C13 mix enabled={enabled} eligible={eligible} u={u} percent_natural={p}: the call from ({row},{col}) was rejected with {which}"
      else if which ≠ "anthro" && which ≠ "natural" then
        (if src = "stub" || src = "factory" then "BADLINE"
         else s!"PROPFAIL C13 mix enabled={enabled} eligible={eligible} u={u} percent_natural={p}: target ({_r},{_c}) is neither kernel's")
      else if obsAnthro ≠ anthro then
        s!"PROPFAIL C13 mix enabled={enabled} eligible={eligible} u={u} percent_natural={p}: used {which}"
      else if src = "stub" && asked ≠ "asked=none" && asked ≠ s!"asked={row},{col}" then
        s!"PROPFAIL C13 mix eligibility asked at {asked}, source cell is ({row},{col})"
      else
        let draws := mixBernoulliDraws enabled eligible
        let expAsked := if src = "stub" then (if mixAsksEligibility enabled then s!"asked={row},{col}" else "asked=none") else "asked=na"
        let expGen := if src = "stub" then (if anthro then "gen=ant" else "gen=nat") else "gen=na"
        -- a real anthropogenic kernel (network, uniform) draws from the anthropogenic stream too
        let callsOK : Bool :=
          if (src = "network" || src = "uniform") && anthro then
            (match (kv? "calls_ant" ca).bind parseNat? with | some n => decide (draws ≤ n) | none => false)
          else ca == s!"calls_ant={draws}"
        if callsOK && cn = "calls_nat=0" && asked = expAsked && gen = expGen then "ok"
        else s!"MISMATCH kern.mix model={expAsked} calls_ant={draws} calls_nat=0 {expGen}"
    | _, _, _, _ => "BADLINE"
  | _, _ => "BADLINE"

/-- The class a `who` token of `kern.elig` / `kern.supports` stands for (`wrap-<class>`: the same
    class behind the virtual interface; `network-walk`: the walking constructor of the network kernel). -/
def classOfWho? (who : String) : Option KernelClass :=
  let w := if who.startsWith "wrap-" then (who.drop 5).toString else who
  if w = "network-walk" then some .network else KernelClass.ofName? w

/-- `kern.elig <who> <row> <col> <hasnode> => <0|1>`: `is_cell_eligible` of a kernel object.
    Property: only the network kernel restricts source cells, to the cells holding a node; the
    switch kernel answers for the kernel it selects, at the SAME (row, col) (`C13_eligibility`). -/
def handleElig (inp obs : List String) : String :=
  match inp, obs with
  | [who, row, col, hn], [o] =>
    if o.startsWith "err:" then s!"PROPFAIL C13 eligibility {who} at ({row},{col}): is_cell_eligible threw {o}" else
    if (hn ≠ "0" && hn ≠ "1") || (o ≠ "0" && o ≠ "1") then "BADLINE" else
    let hasNode : Bool := hn == "1"
    let want? : Option Bool :=
      match who.splitOn ":" with
      | ["switch", t, _stoch] => (typeOfTok? t).map fun t => switchEligible t hasNode
      | [_] => (classOfWho? who).map fun c => classEligible c hasNode
      | _ => none
    match want? with
    | none => "BADLINE"
    | some want =>
      if (o = "1") = want then "ok"
      else s!"PROPFAIL C13 eligibility {who} at ({row},{col}), node in the cell: {hasNode}: is_cell_eligible = {o}, must be {if want then 1 else 0}"
  | _, _ => "BADLINE"

/-- `kern.supports <who> <Type> => <0|1>`: `supports_kernel(type)`. Property (`C13_supports_kernel`):
    a class supports exactly the kernel types its call operator serves. -/
def handleSupports (inp obs : List String) : String :=
  match inp, obs with
  | [who, t], [o] =>
    match classOfWho? who, typeOfTok? t with
    | some c, some t =>
      if o ≠ "0" && o ≠ "1" then "BADLINE"
      else if (o = "1") = classSupports c t then "ok"
      else s!"PROPFAIL C13 supports_kernel {who}::supports_kernel({tokOfType t}) = {o}, must be {if classSupports c t then 1 else 0}"
    | _, _ => "BADLINE"
  | _, _ => "BADLINE"

/-- Node table of the harness's test network for the cells of `ELIG_CELLS`. -/
def eligCellsHasNode : List Bool := [true, true, false, false, false, false, false, false]

/-- `kern.built <natural|anthro> <name> => <class> sup=<b> elig=<bits>`: the kernel a factory built
    for a configuration name: it supports the type its name maps to (unless no class serves that
    type there, `builtMustSupport`), and it is eligible exactly where its class is. -/
def handleBuilt (inp obs : List String) : String :=
  match inp, obs with
  | [which, name], [cls, sup, elig] =>
    let name := decodeName name
    match KernelClass.ofName? cls, kv? "sup" sup, kv? "elig" elig with
    | some c, some sup, some bits =>
      if which ≠ "natural" && which ≠ "anthro" then "BADLINE" else
      match kernelTypeFromString name with
      | .error _ => "MISMATCH kern.built model=name rejected"
      | .ok t =>
        let wantElig := String.ofList (eligCellsHasNode.map fun hn => if classEligible c hn then '1' else '0')
        if bits ≠ wantElig then
          s!"PROPFAIL C13 eligibility built {cls} kernel for '{name}': is_cell_eligible over the test cells = {bits}, must be {wantElig}"
        else if builtMustSupport (which = "anthro") t && sup ≠ "1" then
          s!"PROPFAIL C13 supports_kernel {which} kernel built for '{name}' ({cls}) answers supports_kernel({tokOfType t}) = {sup}"
        else if sup = (if classSupports c t then "1" else "0") then "ok"
        else s!"MISMATCH kern.built model=sup={if classSupports c t then 1 else 0}"
    | _, _, _ => "BADLINE"
  | _, _ => "BADLINE"

def handleCtor (inp obs : List String) : String :=
  match inp, obs with
  | [sc, sh], [o] =>
    match qf? sc, qf? sh with
    | some (scq, scf), some (shq, shf) =>
      let m := radialCtorOk scq shq
      let mf := (RadialKernel.make TFf 1.0 1.0 .cauchy scf .none 0.0 shf).toBool
      if m ≠ mf then "MISMATCH kern.ctor rational and float guards differ"
      else if (o = "ok") = m && (m || o = errTok .invalid_argument) then "ok"
      else s!"MISMATCH kern.ctor model={if m then "ok" else errTok .invalid_argument}"
    | _, _ => "BADLINE"
  | _, _ => "BADLINE"

/-- `<kind> <p1> <p2> pdf=<..> same=<b>` against the model for `law`, evaluated at `x`. -/
def checkSampler (what : String) (law : Law) (scf shf x : Float) (kind p1 p2 pdf same : String)
    (configured : Bool := false) : String :=
  match parseHexFloat? p1, parseHexFloat? p2, (kv? "pdf" pdf).bind floatOrErr?, kv? "same" same with
  | some p1, some p2, some pdfObs, some same =>
    match samplerOfObs? kind p1 p2 with
    | none => "BADLINE"
    | some obsS =>
      match samplerPropFail law obsS x pdfObs same with
      | some msg => "PROPFAIL C13 " ++ msg
      | none =>
        let modelS := lawSampler TFf law scf shf
        if !samplerClose modelS obsS then
          -- through the factory the scale and shape are the configured ones: the property itself
          if configured then s!"PROPFAIL C13 factory_parameters built sampler {showSampler obsS}, configured scale={scf} shape={shf} give {showSampler modelS}"
          else s!"MISMATCH {what} sampler model={showSampler modelS}"
        else cmpFE (what ++ " pdf") (lawPdfE TFf law scf shf x) pdfObs 1e-9
  | _, _, _, _ => "BADLINE"

def handleSampler (inp obs : List String) : String :=
  match inp, obs with
  | [t, sc, sh, x], [kind, p1, p2, pdf, same] =>
    match (typeOfTok? t).bind lawOfType?, qf? sc, qf? sh, qf? x with
    | some law, some (_, scf), some (_, shf), some (_, xf) => checkSampler "kern.sampler" law scf shf xf kind p1 p2 pdf same
    | _, _, _, _ => "BADLINE"
  | _, _ => "BADLINE"

def handleRandom (inp obs : List String) : String :=
  match inp, obs with
  | [t, sc, sh, u], [r, ic, calls] =>
    match (typeOfTok? t).bind lawOfType?, qf? sc, qf? sh, qf? u, kv? "r" r, kv? "icdf" ic with
    | some law, some (_, scf), some (_, shf), some (_, uf), some r, some ic =>
      if r ≠ ic then s!"PROPFAIL C13 inverse_transform random()={r} but icdf(u)={ic} for u={uf}"
      else if calls ≠ "calls=1" then s!"PROPFAIL C13 inverse_transform random() consumed {calls} engine values"
      else match floatOrErr? r with
        | some o =>
          -- C13: the distance follows the density of the CONFIGURED law: the value drawn for the uniform u is the
          -- u-quantile of that law with the configured scale and shape, i.e. cdf(r) = u (judged with the cdf of the
          -- density, not with the quantile formula of the code; power law and exponential power are the region of F21,
          -- where the coded quantile is not the inverse of the coded density's cdf)
          let cdfFail : Option String :=
            match o with
            | .ok rv =>
              let dlaw : Option Pops.Det.Law := match law with
                | .hyperbolicSecant => some .hypsec | .logistic => some .logistic
                | _ => none   -- power law / exponential power: F21; the other laws draw through std samplers, not random()
              if dlaw.isNone || rv.isNaN || rv.isInf then none
              else
                let cv := Pops.Det.Num.lawCdf dlaw.get! scf shf rv
                if Float.abs (cv - uf) ≤ 1e-7 then none
                else some s!"PROPFAIL C13 distance_law random() = {rv} for u = {uf}, but the cdf of the configured law (scale {scf}, shape {shf}) there is {cv}"
            | .error _ => none
          match cdfFail with
          | some msg => msg
          | none => cmpFE "kern.random" (lawRandom TFf law scf shf uf) o 1e-6
        | none => "BADLINE"
    | _, _, _, _, _, _ => "BADLINE"
  | _, _ => "BADLINE"

def vmModel (d : Direction) (kappa : Float) (us : List Float) : Option (Float × Nat) :=
  (vonMises TFf (directionMu TFf d) (directionKappa TFf d kappa) us).map fun (th, rest) => (th, us.length - rest.length)

def handleVonMises (inp obs : List String) : String :=
  match inp, obs with
  | d :: kappa :: _n :: us, [th, calls] =>
    match dirOfTok? d, qf? kappa, us.mapM qf?, (kv? "theta" th).bind parseHexFloat?, (kv? "calls" calls).bind parseNat? with
    | some d, some (kq, kf), some us, some th, some calls =>
      let usf := us.map (·.2)
      let uniform := d = .none || kq ≤ 1 / 1000000
      match usf with
      | [] => "BADLINE"
      | u1 :: _ =>
        if uniform && !(calls = 1 && close th (twoPi * u1) 1e-12) then
          s!"PROPFAIL C13 vonmises_uniform direction={d.name} kappa={kf}: angle {th} from {calls} values, expected 2*pi*{u1}"
        else match vmModel d kf usf with
          | some (m, n) =>
            if n = calls && closeAbs m th 1e-9 then "ok" else s!"MISMATCH kern.vonmises model=theta {m} calls {n}"
          | none => "MISMATCH kern.vonmises model=needs-more-values"
    | _, _, _, _, _ => "BADLINE"
  | _, _ => "BADLINE"

def handleVonMisesPair (inp obs : List String) : String :=
  match inp, obs with
  | [d, kappa, u1], [pl, mi, calls] =>
    match dirOfTok? d, qf? kappa, qf? u1, (kv? "plus" pl).bind parseHexFloat?, (kv? "minus" mi).bind parseHexFloat?,
          (kv? "calls" calls).bind parseNat? with
    | some d, some (kq, kf), some (u1q, u1f), some pl, some mi, some calls =>
      let uniform := d = .none || kq ≤ 1 / 1000000
      let mu := directionMu TFf d
      let a := pl - mu
      let b := mi - mu
      if !uniform && !(fabs (Float.sin (a + b)) ≤ 1e-9 && fabs (Float.cos a - Float.cos b) ≤ 1e-9) then
        s!"PROPFAIL C13 vonmises_direction the two angles {pl}, {mi} are not mirror images about {d.name} = {mu} rad"
      else if !uniform && u1q ≤ 1 / 1048576 && !(Float.cos a > 0.999) then
        s!"PROPFAIL C13 vonmises_direction angle {pl} for u1={u1f} is not next to {d.name} = {mu} rad"
      else
        let mp := vmModel d kf [u1f, 0.0, 0.75]
        let mm := vmModel d kf [u1f, 0.0, 0.25]
        match mp, mm with
        | some (tp, n), some (tm, _) =>
          if n = calls && closeAbs tp pl 1e-9 && closeAbs tm mi 1e-9 then "ok"
          else s!"MISMATCH kern.vonmises.pair model=plus {tp} minus {tm} calls {n}"
        | _, _ => "MISMATCH kern.vonmises.pair model=needs-more-values"
    | _, _, _, _, _, _ => "BADLINE"
  | _, _ => "BADLINE"

def handleRadial (inp obs : List String) : String :=
  match inp with
  | [t, _sc, _sh, d, kappa, ns, ew, probe, row, col, dist, theta, sync] =>
    match typeOfTok? t, dirOfTok? d, qf? kappa, qf? ns, qf? ew, parseInt? row, parseInt? col, kv? "d" dist, kv? "theta" theta with
    | some t, some dir, some (_, _kf), some (_, nsf), some (_, ewf), some row, some col, some dist, some theta =>
      if sync ≠ "sync=1" then "MISMATCH kern.radial probe copy and kernel consumed different engine values"
      else match obs with
      | ["skip"] => "ok"
      | [e] =>
        -- rejected call: unsupported type (model: law? = none) or an icdf guard hit by the uniform draw
        if e.startsWith "err:" then
          if t.law?.isNone then (if e = errTok .invalid_argument then "ok" else s!"MISMATCH kern.radial model={errTok .invalid_argument}")
          else if dist.startsWith "err:" then "ok"
          else s!"PROPFAIL C13 geometry kernel rejected a call ({e}) for which distance {dist} and angle {theta} were drawn"
        else "BADLINE"
      | [r, c] =>
        match parseInt? r, parseInt? c, parseHexFloat? dist, parseHexFloat? theta with
        | some r, some c, some df, some th =>
          let (qr, qc) := radialQuotients TFf df th nsf ewf
          if !geometryOK row col qr qc r c then
            s!"PROPFAIL C13 geometry from=({row},{col}) d={df} theta={th} ns={nsf} ew={ewf}: row offset must be -lround({qr}), column offset +lround({qc}); observed target ({r},{c})"
          else
            -- C13_axes on the observed move: angle on an axis
            let s := Float.sin th
            let co := Float.cos th
            let small := fabs df / (if nsf < ewf then nsf else ewf) < 1e4
            let axisFail :=
              if small && fabs s < 1e-5 && co > 0.0 then !(c = col && r ≤ row)
              else if small && fabs s < 1e-5 && co < 0.0 then !(c = col && r ≥ row)
              else if small && fabs co < 1e-5 && s > 0.0 then !(r = row && c ≥ col)
              else if small && fabs co < 1e-5 && s < 0.0 then !(r = row && c ≤ col)
              else false
            if axisFail then s!"PROPFAIL C13 axes theta={th} d={df} from=({row},{col}) to=({r},{c})"
            else if probe = "probe=1" && dir ≠ .none && !(Float.cos (th - directionMu TFf dir) > 0.999) then
              s!"PROPFAIL C13 direction angle {th} drawn with u1=2^-20 is not next to {dir.name}"
            else if probe = "probe=1" && dir ≠ .none &&
                !(sgnI (row - r) * dir.northSign ≥ 0 && sgnI (c - col) * dir.eastSign ≥ 0 &&
                  (dir.northSign ≠ 0 || r = row || !small) && (dir.eastSign ≠ 0 || c = col || !small)) then
              s!"PROPFAIL C13 compass direction={dir.name} from=({row},{col}) to=({r},{c}) d={df}"
            else match floatRadialStep row col qr qc with
              | some (mr, mc) =>
                if (mr, mc) = (r, c) then "ok"
                else "ok"  -- half-way case decided by one ulp: accepted by geometryOK above
              | none => "MISMATCH kern.radial model=non-finite quotient"
        | _, _, _, _ => "BADLINE"
      | _ => "BADLINE"
    | _, _, _, _, _, _, _, _, _ => "BADLINE"
  | _ => "BADLINE"

def handleSwitch (inp obs : List String) : String :=
  match inp, obs with
  | [t, stoch], member :: rest =>
    match typeOfTok? t with
    | some t =>
      let sel := switchSelect t (stoch = "1")
      let name := match sel with
        | .uniform => "uniform" | .neighbor => "neighbor" | .network => "network"
        | .deterministic => "deterministic" | .radial => "radial"
      if member.startsWith "ctor-" then "ok"
      else if member.startsWith "call-err:" then
        if (sel = .radial || sel = .deterministic) && t.law?.isNone then "ok"
        else s!"MISMATCH kern.switch model={name}"
      else
        let expElig := s!"elig={if switchEligible t true then 1 else 0}{if switchEligible t false then 1 else 0}"
        let expSup := s!"supports={if switchSupports t then 1 else 0}"
        match rest with
        | [oe, os] =>
          if oe ≠ expElig then s!"PROPFAIL C13 eligibility switch kernel of type {tokOfType t}: {oe} at a cell with / without a node, must be {expElig}"
          else if os ≠ expSup then s!"PROPFAIL C13 supports_kernel switch::supports_kernel({tokOfType t}): {os}, must be {expSup}"
          else if member = name then "ok" else s!"MISMATCH kern.switch model={name} {expElig} {expSup}"
        | _ => "BADLINE"
    | none => "BADLINE"
  | _, _ => "BADLINE"

/-- The 20 configuration tokens of a `kern.factory` line. -/
def config? (toks : List String) : Option (KernelConfig × Float) :=
  match toks with
  | [rows, cols, ew, ns, stoch, pct, shape, nt, nscale, nd, nk, use, pnat, atype, ascale, ad, ak, mv, nmin, nmax, x] => do
    let rows ← parseInt? rows; let cols ← parseInt? cols
    let ew ← q? ew; let ns ← q? ns; let pct ← q? pct; let shape ← q? shape
    let nscale ← q? nscale; let nk ← q? nk; let pnat ← q? pnat; let ascale ← q? ascale; let ak ← q? ak
    let nmin ← q? nmin; let nmax ← q? nmax
    let x ← (kv? "x" x).bind q?
    some ({ rows := rows, cols := cols, ewRes := ew, nsRes := ns, dispersalStochasticity := stoch = "1",
            dispersalPercentage := pct, shape := shape, naturalKernelType := decodeName nt, naturalScale := nscale,
            naturalDirection := decodeName nd, naturalKappa := nk, useAnthropogenicKernel := use = "1",
            percentNaturalDispersal := pnat, anthroKernelType := decodeName atype, anthroScale := ascale,
            anthroDirection := decodeName ad, anthroKappa := ak, networkMovement := decodeName mv,
            networkMinDistance := nmin, networkMaxDistance := nmax }, ratToFloat x)
  | _ => none

def hexIsRat (tok : String) (key : String) (q : Rat) : Bool :=
  match (kv? key tok).bind parseHexFloat? with
  | some f => FloatFn.toRat? f == some q
  | none => false

def hexRat? (key tok : String) : Option Rat := ((kv? key tok).bind parseHexFloat?).bind FloatFn.toRat?

def vmTok? (key tok : String) : Option (Float × Nat) := do
  let v ← kv? key tok
  match v.splitOn ":" with
  | [a, b] => do let f ← parseHexFloat? a; let n ← parseNat? b; some (f, n)
  | _ => none

/-- C15 ("teleporting / walking / snapping as requested, cost between the configured bounds"): the
    flags and the distance bounds of a built network kernel against the configuration
    (`ConfigWiring`, theorem `C15_network_movement_wiring`), on the OBSERVED object. -/
def networkWiringVerdict (c : KernelConfig) (tp jp omn omx : String) : Option String :=
  match kv? "teleport" tp, kv? "jump" jp, hexRat? "min" omn, hexRat? "max" omx with
  | some t, some j, some mn, some mx =>
    let w : NetworkWiring := { teleport := t = "1", jump := j = "1", min := mn, max := mx }
    if decide (ConfigWiring c w) then none
    else some s!"PROPFAIL C15 network_movement_wiring network_movement='{c.networkMovement}' min={c.networkMinDistance} max={c.networkMaxDistance}: built kernel has {tp} {jp} min={mn} max={mx}"
  | _, _, _, _ => some "PROPFAIL C15 network_movement_wiring unreadable network kernel description"

/-- One built kernel description against the model's `KernelDesc`; `named` is the kernel type the
    configuration string names (for the property predicate "names map to the kernels they name"). -/
def checkBuilt (c : KernelConfig) (x : Float) (m : KernelDesc) (obs : List String) : String :=
  match m, obs with
  | .uniform rows cols, ["uniform", rlo, rhi, clo, chi] =>
    match parseInts? [rlo, rhi, clo, chi] with
    | some [rlo, rhi, clo, chi] =>
      let k : UniformKernel := { rowMax := rows, colMax := cols, rowLo := rlo, rowHi := rhi, colLo := clo, colHi := chi }
      if !uniformRangesOK c.rows c.cols k then
        s!"PROPFAIL C13 uniform_in_landscape factory: landscape {c.rows}x{c.cols} draws rows {rlo}..{rhi} cols {clo}..{chi}"
      else if k = UniformKernel.make rows cols then "ok" else "MISMATCH kern.factory uniform ranges"
    | _ => "BADLINE"
  | .neighbor d, ["neighbor", od] =>
    if od = d.name then "ok" else s!"PROPFAIL C13 factory neighbour kernel built for {od}, configuration names {d.name}"
  | .deterministic t _pct ew ns _scale _shape, ["deterministic", ot, oew, ons] =>
    if ot ≠ tokOfType t then s!"PROPFAIL C13 factory deterministic kernel of type {ot}, configuration names {tokOfType t}"
    else if hexIsRat oew "ew" ew && hexIsRat ons "ns" ns then "ok"
    else s!"MISMATCH kern.factory deterministic model=ew {ew} ns {ns}"
  | .networkTeleport, ["network", tp, jp, omn, omx] =>
    match networkWiringVerdict c tp jp omn omx with
    | some v => "MISMATCH kern.factory network model=teleport ;; " ++ v
    | none => if tp = "teleport=1" then "ok" else "MISMATCH kern.factory network model=teleport"
  | .networkWalk mn mx jump, ["network", tp, jp, omn, omx] =>
    match networkWiringVerdict c tp jp omn omx with
    | some v => s!"MISMATCH kern.factory network model=walk jump={jump} min={mn} max={mx} ;; " ++ v
    | none =>
      if tp = "teleport=0" && jp = s!"jump={if jump then 1 else 0}" && hexIsRat omn "min" mn && hexIsRat omx "max" mx then "ok"
      else s!"MISMATCH kern.factory network model=walk jump={jump} min={mn} max={mx}"
  | .radial ew ns t scale dir kappa shape, ["radial", oew, ons, ot, samp, pdf, same, vmA, vmB] =>
    if !(hexIsRat oew "ew" ew && hexIsRat ons "ns" ns) then
      s!"PROPFAIL C13 factory_resolution radial kernel built with {oew} {ons}, configuration has ew={ew} ns={ns}"
    else if ot ≠ "type=" ++ tokOfType t then
      s!"PROPFAIL C13 factory radial kernel of {ot}, configuration names {tokOfType t}"
    else
      let scf := ratToFloat scale
      let shf := ratToFloat shape
      let kf := ratToFloat kappa
      let lawRes := match t.law? with
        | none => if samp.startsWith "sampler=none" then "ok" else "MISMATCH kern.factory radial model=no law"
        | some law =>
          match (kv? "sampler" samp).map (·.splitOn ":") with
          | some [kind, p1, p2] => checkSampler "kern.factory" law scf shf x kind p1 p2 pdf same true
          | _ => "BADLINE"
      if lawRes ≠ "ok" then lawRes
      else match vmTok? "vmA" vmA, vmTok? "vmB" vmB with
        | some (ta, na), some (tb, nb) =>
          let ma := vmModel dir kf [ratToFloat (1 / 1048576), 0.0, 0.75]
          let mb := vmModel dir kf [0.5, 0.0, 0.25]
          match ma, mb with
          | some (xa, ka), some (xb, kb) =>
            if dir ≠ .none && kappa > 1 / 1000000 && !(Float.cos (ta - directionMu TFf dir) > 0.999) then
              s!"PROPFAIL C13 factory_direction von Mises angle {ta} is not next to the configured direction {dir.name}"
            else if (dir = .none || kappa ≤ 1 / 1000000) && na ≠ 1 then
              s!"PROPFAIL C13 vonmises_uniform factory: direction={dir.name} kappa={kappa} but the angle used {na} values"
            else if ka = na && kb = nb && closeAbs xa ta 1e-9 && closeAbs xb tb 1e-9 then "ok"
            else s!"PROPFAIL C13 factory_vonmises angles {ta}:{na} {tb}:{nb} for scripted uniforms; configured direction={dir.name} kappa={kappa} give {xa}:{ka} {xb}:{kb}"
          | _, _ => "MISMATCH kern.factory von Mises model=none"
        | _, _ => "BADLINE"
  | m, o => s!"MISMATCH kern.factory model={repr m} observed={o.head?.getD ""}"

def splitOnTok (sep : String) (l : List String) : List (List String) :=
  let rec go (cur : List String) (acc : List (List String)) : List String → List (List String)
    | [] => (cur.reverse :: acc).reverse
    | t :: rest => if t = sep then go [] (cur.reverse :: acc) rest else go (t :: cur) acc rest
  go [] [] l

def handleFactory (inp obs : List String) : String :=
  match inp with
  | which :: cfg =>
    match config? cfg with
    | none => "BADLINE"
    | some (c, x) =>
      let one (m : Except ErrKind KernelDesc) (obs : List String) : String :=
        match m, obs with
        | .error k, [e] => if e = errTok k then "ok" else s!"MISMATCH kern.factory model={errTok k}"
        | .error k, _ => s!"MISMATCH kern.factory model={errTok k}"
        | .ok d, [e] =>
          if e.startsWith "err:" then
            -- the deterministic kernel's constructor computes its window (C14's domain) and may throw
            match d with
            | .deterministic .. => "ok"
            | _ => s!"MISMATCH kern.factory model={repr d}"
          else checkBuilt c x d [e]
        | .ok d, o => checkBuilt c x d o
      if which = "natural" then one (createNaturalKernel c) obs
      else if which = "anthro" then one (createAnthroKernel c) obs
      else if which = "dynamic" then
        match createDynamicKernel c, obs with
        | .error k, [e] => if e = errTok k then "ok" else s!"MISMATCH kern.factory model={errTok k}"
        | .error k, _ => s!"MISMATCH kern.factory model={errTok k}"
        | .ok d, [e] =>
          match d.natural, d.anthro with
          | .deterministic .., _ => "ok"
          | _, .deterministic .. => "ok"
          | _, _ => s!"MISMATCH kern.factory model=built observed={e}"
        | .ok d, o =>
          match splitOnTok ";" o with
          | [[use, p], nat, ant] =>
            if use ≠ s!"use={if d.useAnthropogenic then 1 else 0}" then
              s!"PROPFAIL C13 factory_mix anthropogenic kernel {use}, configuration says {d.useAnthropogenic}"
            else if !hexIsRat p "p" d.percentNatural then
              s!"PROPFAIL C13 factory_mix Bernoulli parameter {p}, configured natural share {d.percentNatural}"
            else
              let a := checkBuilt c x d.natural nat
              if a ≠ "ok" then a else checkBuilt c x d.anthro ant
          | _ => "BADLINE"
      else "BADLINE"
  | _ => "BADLINE"

/-! ### C17: the kernel of the pest overpopulation move -/

/-- The 16 configuration tokens of a `kern.overpop` line: `KernelConfig` and the leaving scale coefficient. -/
def overpopConfig? (toks : List String) : Option (KernelConfig × Rat) :=
  match toks with
  | [rows, cols, ew, ns, stoch, pct, shape, nt, nscale, nd, nk, coef, atype, ad, nmin, nmax] => do
    let rows ← parseInt? rows; let cols ← parseInt? cols
    let ew ← q? ew; let ns ← q? ns; let pct ← q? pct; let shape ← q? shape
    let nscale ← q? nscale; let nk ← q? nk; let coef ← q? coef
    let nmin ← q? nmin; let nmax ← q? nmax
    some ({ rows := rows, cols := cols, ewRes := ew, nsRes := ns, dispersalStochasticity := stoch = "1",
            dispersalPercentage := pct, shape := shape, naturalKernelType := decodeName nt, naturalScale := nscale,
            naturalDirection := decodeName nd, naturalKappa := nk, useAnthropogenicKernel := false,
            percentNaturalDispersal := 1, anthroKernelType := decodeName atype, anthroScale := 1,
            anthroDirection := decodeName ad, anthroKappa := 0, networkMovement := "",
            networkMinDistance := nmin, networkMaxDistance := nmax }, coef)
  | _ => none

/-- Property predicates of C17 (overpopulation kernel wiring) on the observed probe, then the
    member-by-member comparison with `createOverpopulationKernel`. -/
def checkOverpop (c : KernelConfig) (coef : Rat) (m : OverpopKernelDesc) (obs : List String) : String :=
  match splitOnTok ";" obs with
  | [[ot, ostoch], ["radial", rew, rns, rtype, rscale, rshape, vmA, vmB], ["deterministic", dtype, dew, dns, dscale, dshape],
     ["uniform", rlo, rhi, clo, chi], ["neighbor", nd], ["network", tp, jp, omn, omx], [sample]] =>
    match m.radial, m.deterministic, m.neighbor, m.network with
    | .radial ew ns t scale dir kappa shape, .deterministic _ _ _ _ _ _, .neighbor ndir, .networkWalk mn mx jump =>
      let ttok := tokOfType t
      -- scale: natural_scale * leaving_scale_coefficient, for the radial and for the deterministic kernel
      if hexRat? "scale" rscale ≠ some scale then
        s!"PROPFAIL C17 overpopulation_kernel_scale radial kernel built with {rscale}; natural_scale {c.naturalScale} * leaving_scale_coefficient {coef} = {scale}"
      else if hexRat? "scale" dscale ≠ some scale then
        s!"PROPFAIL C17 overpopulation_kernel_scale deterministic kernel built with {dscale}; natural_scale {c.naturalScale} * leaving_scale_coefficient {coef} = {scale}"
      else if hexRat? "shape" rshape ≠ some shape || hexRat? "shape" dshape ≠ some shape then
        s!"PROPFAIL C17 overpopulation_kernel_shape radial {rshape} deterministic {dshape}; configured shape {shape}"
      else if !(hexIsRat rew "ew" ew && hexIsRat rns "ns" ns) then
        s!"PROPFAIL C17 overpopulation_kernel_resolution radial kernel built with {rew} {rns}; configuration has ew={ew} ns={ns}"
      else if !(hexIsRat dew "ew" ew && hexIsRat dns "ns" ns) then
        s!"PROPFAIL C17 overpopulation_kernel_resolution deterministic kernel built with {dew} {dns}; configuration has ew={ew} ns={ns}"
      else if ot ≠ "type=" ++ ttok || rtype ≠ "type=" ++ ttok || dtype ≠ ttok then
        s!"PROPFAIL C17 overpopulation_kernel_type selector {ot} radial {rtype} deterministic {dtype}; the natural kernel is {ttok}"
      else if nd ≠ ndir.name then
        s!"PROPFAIL C17 overpopulation_kernel_direction neighbour kernel built for {nd}; natural direction is {ndir.name}"
      else
        -- uniform member: destinations inside rows x cols, every cell reachable
        match parseInts? [rlo, rhi, clo, chi] with
        | some [rlo, rhi, clo, chi] =>
          let k : UniformKernel := { rowMax := c.rows, colMax := c.cols, rowLo := rlo, rowHi := rhi, colLo := clo, colHi := chi }
          if !uniformRangesOK c.rows c.cols k then
            s!"PROPFAIL C17 overpopulation_kernel_uniform_range landscape {c.rows}x{c.cols}; uniform member draws rows {rlo}..{rhi} cols {clo}..{chi}"
          else
            let sampleRes : String :=
              match (kv? "sample" sample).map (·.splitOn ":") with
              | some ["na"] => if t = .uniform then "MISMATCH kern.overpop model=sample expected for the uniform kernel" else "ok"
              | some [a, b, cc, d] =>
                match parseInts? [a, b, cc, d] with
                | some [rmin, rmax, cmin, cmax] =>
                  if rmin < 0 || rmax ≥ c.rows || cmin < 0 || cmax ≥ c.cols then
                    s!"PROPFAIL C17 overpopulation_kernel_uniform_range destinations span rows {rmin}..{rmax} cols {cmin}..{cmax} on a {c.rows}x{c.cols} landscape"
                  else if rmin ≠ 0 || rmax ≠ c.rows - 1 || cmin ≠ 0 || cmax ≠ c.cols - 1 then
                    s!"PROPFAIL C17 overpopulation_kernel_uniform_range destinations never reach an edge: rows {rmin}..{rmax} cols {cmin}..{cmax} on {c.rows}x{c.cols}"
                  else "ok"
                | _ => "BADLINE"
              | _ => "BADLINE"
            if sampleRes != "ok" then sampleRes
            else
              -- direction and concentration of the radial member, through scripted von Mises draws
              let kf := ratToFloat kappa
              match vmTok? "vmA" vmA, vmTok? "vmB" vmB, vmModel dir kf [ratToFloat (1 / 1048576), 0.0, 0.75], vmModel dir kf [0.5, 0.0, 0.25] with
              | some (ta, na), some (tb, nb), some (xa, ka), some (xb, kb) =>
                if !(ka = na && kb = nb && closeAbs xa ta 1e-9 && closeAbs xb tb 1e-9) then
                  s!"PROPFAIL C17 overpopulation_kernel_direction angles {ta}:{na} {tb}:{nb} for scripted uniforms; natural direction={dir.name} kappa={kappa} give {xa}:{ka} {xb}:{kb}"
                else if ostoch ≠ s!"stoch={if m.stochastic then 1 else 0}" then
                  s!"PROPFAIL C17 overpopulation_kernel_type dispersal stochasticity {ostoch}; configured {m.stochastic}"
                else if tp = "teleport=0" && jp = s!"jump={if jump then 1 else 0}" && hexIsRat omn "min" mn && hexIsRat omx "max" mx then "ok"
                else s!"MISMATCH kern.overpop network model=walk jump={jump} min={mn} max={mx}"
              | _, _, _, _ => "BADLINE"
        | _ => "BADLINE"
    | _, _, _, _ => "MISMATCH kern.overpop model has unexpected member kinds"
  | _ => "BADLINE"

def handleOverpop (inp obs : List String) : String :=
  match overpopConfig? inp with
  | none => "BADLINE"
  | some (c, coef) =>
    match createOverpopulationKernel c coef, obs with
    | .error k, [e] => if e = errTok k then "ok" else s!"MISMATCH kern.overpop model={errTok k}"
    | .error k, _ => s!"MISMATCH kern.overpop model={errTok k}"
    | .ok m, [e] =>
      -- the deterministic member's constructor computes its window (C14): gamma-based quantiles may fail
      if e = errTok .invalid_argument && (m.type = .gamma || m.type = .exponentialPower) then "ok"
      else s!"MISMATCH kern.overpop model=built observed={e}"
    | .ok m, o => checkOverpop c coef m o

def handle (st : State) (cmd : String) (inp obs : List String) : State × String :=
  let st := { st with lines := st.lines + 1 }
  let r :=
    match cmd with
    | "kern.selftest" => if obs = ["canonical=1", "bernoulli=1"] then "ok" else "MISMATCH kern.selftest libstdc++ draws are not one 64-bit value per uniform"
    | "kern.name" => handleName inp obs
    | "kern.dir" => handleDir inp obs
    | "kern.dirdeg" => handleDirDeg inp obs
    | "kern.neighbor" => handleNeighbor inp obs
    | "kern.uniform.ranges" => handleUniformRanges inp obs
    | "kern.uniform.draw" => handleUniformDraw inp obs
    | "kern.uniform.cover" => handleUniformCover inp obs
    | "kern.uniform.sample" => handleUniformSample inp obs
    | "kern.mix" => handleMix inp obs
    | "kern.elig" => handleElig inp obs
    | "kern.supports" => handleSupports inp obs
    | "kern.built" => handleBuilt inp obs
    | "kern.ctor" => handleCtor inp obs
    | "kern.sampler" => handleSampler inp obs
    | "kern.random" => handleRandom inp obs
    | "kern.vonmises" => handleVonMises inp obs
    | "kern.vonmises.pair" => handleVonMisesPair inp obs
    | "kern.radial" => handleRadial inp obs
    | "kern.switch" => handleSwitch inp obs
    | "kern.factory" => handleFactory inp obs
    | "kern.overpop" => handleOverpop inp obs
    | _ => "BADLINE"
  (st, r)

end Pops.Driver.KernEng
