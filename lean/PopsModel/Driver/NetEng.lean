/-
  Driver engine for C15 (Network): compares `Network::load`, the point queries and every trip
  (walk / jump / teleport, directly and through `NetworkDispersalKernel`) with the model, and
  evaluates the property predicates of Model/NetPred.lean on the structure and results OBSERVED
  from the implementation. Random choices are not replayed: a trip result must be a member of the
  model's set of reachable results.
-/
import PopsModel.Driver.Util
import PopsModel.Model.NetPred
namespace Pops.Driver.NetEng
open Pops Pops.Driver Pops.Net

structure State where
  ready : Bool := false
  model : Net := default          -- the model's loaded network
  obs : Net := default            -- network rebuilt from the implementation's printed structure
  obsAdj : List (NodeId × List NodeId) := []
deriving Inhabited

/-! ### token parsing -/

abbrev P := StateT (List String) Option

def tok : P String := do
  match (← get) with
  | [] => failure
  | t :: r => set r; pure t
def int : P Int := do let t ← tok; match parseInt? t with | some v => pure v | none => failure
def nat : P Nat := do let t ← tok; match parseNat? t with | some v => pure v | none => failure
def rat : P Rat := do let t ← tok; match parseRat? t with | some v => pure v | none => failure
def lit (s : String) : P Unit := do let t ← tok; if t = s then pure () else failure
def rep {α : Type} (n : Nat) (p : P α) : P (List α) :=
  match n with
  | 0 => pure []
  | k + 1 => do let a ← p; let r ← rep k p; pure (a :: r)
def cell : P Cell := do let r ← int; let c ← int; pure (r, c)

structure ObsLoad where
  nodes : List (NodeId × Cell)
  segs : List (Key × Rat × Rat × List Cell)        -- key, cost, probability, cells
  adj : List (NodeId × List NodeId × List Rat)
  stats : Option (List Int)

def obsLoad : P ObsLoad := do
  lit "nodes"; let k ← nat
  let nodes ← rep k (do let i ← int; let c ← cell; pure (i, c))
  lit "segs"; let m ← nat
  let segs ← rep m (do
    let a ← int; let b ← int; let cost ← rat; let pr ← rat; let len ← nat
    let cells ← rep len cell
    pure ((a, b), cost, pr, cells))
  lit "adj"; let p ← nat
  let adj ← rep p (do
    let a ← int; let d ← nat; let nb ← rep d int; let np ← nat; let ps ← rep np rat
    pure (a, nb, ps))
  lit "stats"
  let rest ← get
  let stats ← match rest with
    | ["none"] => do set ([] : List String); pure none
    | _ => do let l ← rep 6 int; pure (some l)
  pure ⟨nodes, segs, adj, stats⟩

def decodeText (s : String) : List Char :=
  if s = "<empty>" then [] else s.toList.map fun ch => if ch = '|' then '\n' else if ch = '~' then ' ' else ch

/-! ### canonical forms of the model's network -/

def pairLt (a b : Int × Int) : Bool := decide (a.1 < b.1) || (decide (a.1 = b.1) && decide (a.2 < b.2))
def nodeLe (a b : NodeId × Cell) : Bool :=
  decide (a.1 < b.1) || (decide (a.1 = b.1) && (pairLt a.2 b.2 || a.2 == b.2))

def canonNodes (l : List (NodeId × Cell)) : List (NodeId × Cell) := (l.mergeSort nodeLe).eraseDups

def sortedIds (l : List NodeId) : List NodeId := (l.mergeSort (fun a b => decide (a ≤ b))).eraseDups

def modelNodeIds (n : Net) : List NodeId := sortedIds (n.nodePlaces.map (·.1))

/-- `collect_statistics` as coded (`num_segments` is `node_matrix_.size() / 2`). -/
def modelStats (n : Net) : List Int :=
  let ids := modelNodeIds n
  let withSeg := ids.filter fun i => !(n.neighbours i).isEmpty
  [(ids.length : Int), ((withSeg.length / 2 : Nat) : Int), (withSeg.length : Int),
   ((ids.length - withSeg.length : Nat) : Int), ids.headD 0, ids.getLastD 0]

def showCell (c : Cell) : String := s!"{c.1},{c.2}"
def showRat (q : Rat) : String := if q.den = 1 then toString q.num else s!"{q.num}/{q.den}"

def showOutcome : Outcome → String
  | .at c => showCell c
  | .err e => errTok e
  | .oob => "out-of-bounds"
  | .diverge => "diverge"

def showOutcomes (l : List Outcome) : String := "{" ++ " ".intercalate (l.eraseDups.map showOutcome) ++ "}"

/-- The network the implementation reports, as a `Net` (stated cost = observed cost). -/
def obsNet (g : Grid) (hasProb : Bool) (o : ObsLoad) : Net :=
  { grid := g, hasProb := hasProb,
    segs := o.segs.map fun (k, cost, pr, cells) => (k, ⟨cells, 0, cost, pr⟩) }

/-! ### the load line -/

/-- Property predicates on the observed structure; `none` = all hold. -/
def loadPredicates (g : Grid) (recs : List Rec) (o : ObsLoad) (on : Net) : Option String :=
  let adjOf (a : NodeId) : List NodeId := ((o.adj.find? (fun e => e.1 = a)).map (·.2.1)).getD []
  -- merge
  match o.segs.find? (fun s => !mergedOK s.2.2.2) with
  | some s => some s!"PROPFAIL C15 load_merge key={s.1.1},{s.1.2} cells={s.2.2.2.map showCell}"
  | none =>
  -- both directions
  match o.segs.find? (fun s => !((adjOf s.1.1).contains s.1.2 && (adjOf s.1.2).contains s.1.1)) with
  | some s => some s!"PROPFAIL C15 load_symmetric edge-not-in-adjacency key={s.1.1},{s.1.2}"
  | none =>
  match o.adj.find? (fun e => !(e.2.1.all fun b => (adjOf b).contains e.1)) with
  | some e => some s!"PROPFAIL C15 load_symmetric one-way node={e.1}"
  | none =>
  match o.adj.find? (fun e => !(e.2.1.all fun b =>
      o.segs.any fun s => s.1 == (e.1, b) || s.1 == (b, e.1))) with
  | some e => some s!"PROPFAIL C15 load_symmetric adjacency-without-edge node={e.1}"
  | none =>
  -- nodes are exactly the end cells of the stored segments
  if canonNodes o.nodes != canonNodes on.nodePlaces then
    some s!"PROPFAIL C15 load_nodes nodes-differ-from-segment-ends"
  else
  -- cost: stated or length-derived
  match o.segs.find? (fun s => !(recs.any fun r => r.key == s.1 &&
      (if r.seg.total ≠ 0 then r.seg.total else ((s.2.2.2.length - 1 : Nat) : Rat) * r.seg.cpc) == s.2.1)) with
  | some s => some s!"PROPFAIL C15 load_cost key={s.1.1},{s.1.2} cost={showRat s.2.1}"
  | none =>
  -- merge: the stored cells of an edge are the cells of its points, consecutive points falling in one cell
  -- merged (`C15_load_merge`: that list is `r.seg.cells` of its record; `C15_load_clip`: a stored edge is the
  -- segment of one of its records). Which of several records with one node pair is stored stays with the model.
  match o.segs.find? (fun s => (recs.any fun r => r.key == s.1) && !(recs.any fun r => r.key == s.1 && r.seg.cells == s.2.2.2)) with
  | some s =>
    let want := (recs.filter fun r => r.key == s.1).map fun r => r.seg.cells.map showCell
    some s!"PROPFAIL C15 load_merge key={s.1.1},{s.1.2} stored cells={s.2.2.2.map showCell} are not the merged cells of the edge's points={want}"
  | none =>
  -- teleporting chooses "by the edge probabilities": the stored probability of an edge is the stated one
  -- (`C15_load_clip`, last clause: stored edge = (key, segment) of a record, probability included)
  match o.segs.find? (fun s => (recs.any fun r => r.key == s.1) && !(recs.any fun r => r.key == s.1 && r.seg.prob == s.2.2.1)) with
  | some s =>
    some s!"PROPFAIL C15 teleport_probability key={s.1.1},{s.1.2} stored probability={showRat s.2.2.1} stated={(recs.filter fun r => r.key == s.1).map fun r => showRat r.seg.prob}"
  | none =>
  -- clipping: an edge inside the study area must be kept
  match recs.find? (fun r => r.inside g && !(o.segs.any fun s => s.1 == r.key)) with
  | some r => some s!"PROPFAIL C15 load_clip dropped-edge-inside key={r.key.1},{r.key.2}"
  | none =>
  -- clipping: a kept edge must have both end nodes inside; within one cell beyond the south /
  -- east edge it is the open finding F17, further out a violation
  let outside := o.segs.filter (fun s => !(recs.any fun r => r.key == s.1 && r.inside g))
  match outside.find? (fun s => !(recs.any fun r => r.key == s.1 && r.f17 g)) with
  | some s => some s!"PROPFAIL C15 load_clip kept-edge-outside key={s.1.1},{s.1.2}"
  | none =>
  match outside with
  | s :: _ =>
    match recs.find? (fun r => r.key == s.1 && r.f17 g) with
    | some r =>
      let (p, c) := if g.xyOut r.first.1 r.first.2 then (r.first, r.seg.front) else (r.last, r.seg.back)
      some s!"KNOWN C15 F17 key={s.1.1},{s.1.2} end={showRat p.1},{showRat p.2} cell={showCell c} max={g.maxRow},{g.maxCol}"
    | none => none
  | [] => none

/-- Model comparison of the structure, after the predicates: what is left here is not fixed by the property -
    the order in which edges and neighbours are enumerated (map order), which of several records with the same
    node pair is stored, the per-node probability table (an internal table; no theorem relates it to the edge
    probabilities) and `collect_statistics`. -/
def compareLoad (m : Net) (o : ObsLoad) : String :=
  if canonNodes o.nodes != canonNodes m.nodePlaces then
    s!"MISMATCH net.load nodes model={(canonNodes m.nodePlaces).map fun p => (p.1, p.2.1, p.2.2)}"
  else if o.segs.map (·.1) != m.segs.map (·.1) then
    s!"MISMATCH net.load keys model={m.segs.map (·.1)}"
  else if o.segs.map (·.2.2.2) != m.segs.map (·.2.cells) then
    s!"MISMATCH net.load cells model={m.segs.map fun e => e.2.cells.map showCell}"
  else if o.segs.map (·.2.1) != m.segs.map (·.2.cost) then
    s!"MISMATCH net.load cost model={m.segs.map fun e => showRat e.2.cost}"
  else if o.segs.map (·.2.2.1) != m.segs.map (·.2.prob) then
    s!"MISMATCH net.load probability model={m.segs.map fun e => showRat e.2.prob}"
  else
    let ids := modelNodeIds m
    let adjM := (ids.filter fun i => !(m.neighbours i).isEmpty).map fun i => (i, m.neighbours i, m.neighbourProbs i)
    if o.adj != adjM then s!"MISMATCH net.load adjacency model={adjM.map fun e => (e.1, e.2.1)}"
    else match o.stats with
      | none => if m.segs.isEmpty then "ok" else "MISMATCH net.load stats model-not-empty"
      | some l => if l == modelStats m then "ok" else s!"MISMATCH net.load stats model={modelStats m}"

def handleLoad (_st : State) (inp obs : List String) : State × String :=
  match inp with
  | [n, s, e, w, ew, ns, allow, text] =>
    match parseRats? [n, s, e, w, ew, ns] with
    | some [n, s, e, w, ew, ns] =>
      let g : Grid := ⟨n, s, e, w, ew, ns⟩
      let chars := decodeText text
      let allowB := allow = "1"
      let model := load g chars allowB
      let st0 : State := {}
      match obs with
      | [o] =>
        match model with
        | .error k => (st0, if o = errTok k then "ok" else s!"PROPFAIL C15 load_rejects observed={o} documented={errTok k}")
        | .ok m =>
          -- a well-formed text rejected. If one of its edges has both end nodes inside the study area, "keeps
          -- exactly the edges whose two end nodes lie inside" fails for it (`C15_load_clip_inside_kept` with
          -- `C15_load_clip`: the pair is stored); otherwise (only F17-region edges) the model comparison remains
          let recs : List Rec := match (do
              let (h, data) ← splitHeader (getlines '\n' chars)
              parseRecords g h.hasCost h.hasProb data : Except ErrKind (List Rec)) with
            | .ok rs => rs | .error _ => []
          match recs.find? (fun r => r.inside g) with
          | some r => (st0, s!"PROPFAIL C15 load_clip dropped-edge-inside key={r.key.1},{r.key.2} well-formed network rejected observed={o}")
          | none => (st0, s!"MISMATCH net.load model=ok segs={m.segs.length}")
      | "ok" :: rest =>
        match obsLoad.run rest with
        | some (o, []) =>
          -- what the records of the text are, by the model's parser (input side)
          let parsed : Except ErrKind (Header × List Rec) := do
            let (h, data) ← splitHeader (getlines '\n' chars)
            let rs ← parseRecords g h.hasCost h.hasProb data
            pure (h, rs)
          match parsed with
          | .error k => (st0, s!"PROPFAIL C15 load_rejects observed=ok documented={errTok k}")
          | .ok (h, recs) =>
            let on := obsNet g h.hasProb o
            match model with
            | .error k =>
              -- only `No nodes within the extent` is left
              (st0, s!"PROPFAIL C15 load_rejects observed=ok documented={errTok k}")
            | .ok m =>
              let st' : State := { ready := true, model := m, obs := on, obsAdj := o.adj.map fun e => (e.1, e.2.1) }
              match loadPredicates g recs o on with
              | some msg =>
                -- a KNOWN line must not hide a disagreement with the model
                if msg.startsWith "KNOWN" then
                  let c := compareLoad m o
                  (st', if c = "ok" then msg else c)
                else (st', msg)
              | none => (st', compareLoad m o)
        | _ => (st0, "BADLINE")
      | _ => (st0, "BADLINE")
    | _ => ({}, "BADLINE")
  | _ => ({}, "BADLINE")

/-! ### trips -/

def parseOutcome (obs : List String) : Option Outcome :=
  match obs with
  | [r, c] => do let r ← parseInt? r; let c ← parseInt? c; some (.at (r, c))
  | ["err:invalid_argument"] => some (.err .invalid_argument)
  | ["err:out_of_range"] => some (.err .out_of_range)
  | ["err:runtime_error"] => some (.err .runtime_error)
  | ["err:logic_error"] => some (.err .logic_error)
  | _ => none

/-- A walk (direct or through the kernel): predicates on the observed result, then membership in
    the model's outcome set. -/
def checkWalk (st : State) (cmd : String) (start : Cell) (d : Rat) (jump : Bool) (o : Outcome) : String :=
  let hasNode := st.obs.hasNodeAt start
  let pred : Option String :=
    match o with
    | .at x =>
      if !hasNode then some "PROPFAIL C15 start_needs_node trip-from-cell-without-node"
      else if !onNetwork st.obs start x then some s!"PROPFAIL C15 stays_on_network result={showCell x}"
      else if jump && !isNodeCell st.obs x then some s!"PROPFAIL C15 jump result-not-an-end-node result={showCell x}"
      else if d ≥ 0 && !st.obs.walkGHas false start d jump o then
        some s!"PROPFAIL C15 {if jump then "jump" else "cost"} result={showCell x} allowed={showOutcomes (st.obs.walkRelaxed start d jump)}"
      -- reachable when visited nodes may be re-entered at will, but by no trip that prefers unvisited neighbours
      else if d ≥ 0 && !st.obs.walkGHas true start d jump o then
        some s!"PROPFAIL C15 prefers_unvisited result={showCell x} allowed={showOutcomes (st.obs.walk start d jump)}"
      else none
    | .err e =>
      if !hasNode && e != .invalid_argument then some s!"PROPFAIL C15 start_needs_node wrong-error={errTok e}"
      -- a trip from a cell with a node "ends on a cell of the loaded network": on the observed network no choice
      -- of neighbours leads to an exception (`C15_cost`: never an exception for d >= 0)
      else if hasNode && d ≥ 0 && !st.obs.walkGHas false start d jump o then
        some s!"PROPFAIL C15 stays_on_network trip from a node cell with distance >= 0 threw {errTok e} allowed={showOutcomes (st.obs.walkRelaxed start d jump)}"
      else none
    | _ => none
  match pred with
  | some m => m
  | none =>
    -- left to the model: the observed structure differing from the model's (reported on the load line), d < 0
    if st.model.walkGHas true start d jump o then "ok"
    else s!"MISMATCH {cmd} model={showOutcomes (st.model.walk start d jump)}"

def checkTeleport (st : State) (cmd : String) (start : Cell) (steps : Nat) (o : Outcome) : String :=
  let hasNode := st.obs.hasNodeAt start
  let pred : Option String :=
    match o with
    | .at x =>
      if !hasNode then some "PROPFAIL C15 start_needs_node teleport-from-cell-without-node"
      else if !isNodeCell st.obs x then some s!"PROPFAIL C15 teleport_adjacent result-not-a-node result={showCell x}"
      else if steps = 1 && !teleportAdjacent st.obs start x then
        some s!"PROPFAIL C15 teleport_adjacent result={showCell x}"
      -- "chosen by the edge probabilities": an edge of probability 0 is not chosen while the node has an edge of
      -- positive probability (`teleportTargets`; the law of the draw itself is trusted). Which cell of a node id
      -- that sits in two places is returned stays with the model.
      else if steps = 1 && !((st.obs.nodesAt start).any fun a => (st.obs.nodesAt x).any fun m => (st.obs.teleportTargets a).contains m) then
        some s!"PROPFAIL C15 teleport_probability result={showCell x} is adjacent only over an edge of probability 0"
      else none
    | .err e =>
      if !hasNode && e != .invalid_argument then some s!"PROPFAIL C15 start_needs_node wrong-error={errTok e}"
      -- a start cell with a node: teleporting "ends at a node adjacent to the start node"
      else if hasNode && !(st.obs.teleport start steps).contains o then
        some s!"PROPFAIL C15 teleport_adjacent teleport from a node cell threw {errTok e}"
      else none
    | _ => none
  match pred with
  | some m => m
  | none =>
    -- left to the model: several steps (the property describes one), the cell of a node id in two places
    let outs := st.model.teleport start steps
    if outs.contains o then "ok" else s!"MISMATCH {cmd} model={showOutcomes outs}"

def handle (st : State) (cmd : String) (inp obs : List String) : State × String :=
  if cmd = "net.load" then handleLoad st inp obs
  else if !st.ready then (st, s!"MISMATCH {cmd} no-network-agreed-by-model-and-implementation")
  else
  let g := st.model.grid
  match cmd, inp with
  | "net.xy", [x, y] =>
    match parseRat? x, parseRat? y with
    | some x, some y =>
      let c := g.xyToRowCol x y
      let b (v : Bool) : String := if v then "1" else "0"
      let m := [toString c.1, toString c.2, b (g.xyOut x y), b (g.cellOut c) ++ b (g.cellOut c)]
      -- helper queries: the property speaks about the loaded edges; the cell of a coordinate and the box tests enter
      -- it through the load line only (clipping, cells of the points), where they are judged
      (st, if obs = m then "ok" else s!"MISMATCH net.xy model={m}")
    | _, _ => (st, "BADLINE")
  | "net.has", [r, c] =>
    match parseInt? r, parseInt? c with
    | some r, some c =>
      let h := st.model.hasNodeAt (r, c)
      let b (v : Bool) : String := if v then "1" else "0"
      let m := [b h, toString (st.model.nodesAt (r, c)).eraseDups.length, b (st.model.isCellEligible (r, c))]
      -- property: eligibility of a cell is the presence of a node (observed structure)
      match obs with
      | [oh, _, oe] =>
        if oh != b (st.obs.hasNodeAt (r, c)) || oe != oh then (st, s!"PROPFAIL C15 start_needs_node has_node/eligible={oh}/{oe}")
        -- left to the model: the NUMBER of nodes in the cell
        else (st, if obs = m then "ok" else s!"MISMATCH net.has model={m}")
      | _ => (st, "BADLINE")
    | _, _ => (st, "BADLINE")
  | "net.nodecell", [i] =>
    match parseInt? i, parseOutcome obs with
    | some i, some o =>
      let m : Outcome := match st.model.nodeCell i with | some c => .at c | none => .err .invalid_argument
      -- helper query (which of two places of one node id, exception for an unknown id): not stated by the property
      (st, if o = m then "ok" else s!"MISMATCH net.nodecell model={showOutcome m}")
    | _, _ => (st, "BADLINE")
  | "net.segview", [a, b] =>
    match parseInt? a, parseInt? b with
    | some a, some b =>
      let m := st.model.getSegment a b
      match obs with
      | ["err:invalid_argument"] =>
        -- "every edge traversable in both directions": a stored edge (a,b) or (b,a) must be found from a to b
        -- (`C15_load_symmetric`: e.1 = (a,b) -> neighbours both ways, neighbour <-> get_segment succeeds)
        if (st.obs.findSeg (a, b)).isSome || (st.obs.findSeg (b, a)).isSome then
          (st, s!"PROPFAIL C15 load_symmetric edge between {a} and {b} is stored but get_segment({a},{b}) is rejected")
        else (st, if m.isNone then "ok" else "MISMATCH net.segview model=ok")
      | "ok" :: rest =>
        let p : P (Rat × List Cell × Cell × Cell) := do
          let cost ← rat; let k ← nat; let cells ← rep k cell
          lit "front"; let f ← cell; lit "back"; let bk ← cell
          pure (cost, cells, f, bk)
        match p.run rest with
        | some ((cost, cells, f, bk), []) =>
          -- property (observed structure): the view is the stored segment of (a,b), or the one
          -- of (b,a) reversed, with the cost of that segment
          let fwd := st.obs.findSeg (a, b)
          let bwd := st.obs.findSeg (b, a)
          let okView := (fwd.any fun s => s.cells == cells && s.cost == cost) ||
                        (bwd.any fun s => s.cells.reverse == cells && s.cost == cost)
          if !okView || cells.head? != some f || cells.getLast? != some bk then
            (st, s!"PROPFAIL C15 load_symmetric view {a},{b} is not the stored segment or its reverse")
          -- left to the model: which of the two is seen when (a,b) and (b,a) are both stored
          else match m with
            | some v =>
              (st, if v.cells == cells && v.cost == cost && v.front == f && v.back == bk then "ok"
                   else s!"MISMATCH net.segview model={v.cells.map showCell} cost={showRat v.cost}")
            | none => (st, "MISMATCH net.segview model=err:invalid_argument")
        | _ => (st, "BADLINE")
      | _ => (st, "BADLINE")
    | _, _ => (st, "BADLINE")
  | "net.next", node :: _seed :: k :: rest =>
    match parseInt? node, parseNat? k, parseInts? rest, obs with
    | some node, some k, some ign, [o] =>
      match parseInt? o with
      | some o =>
        if ign.length ≠ k then (st, "BADLINE") else
        let nb := ((st.obsAdj.find? (fun e => e.1 = node)).map (·.2)).getD []
        if nb.isEmpty && o != node then (st, s!"PROPFAIL C15 prefers_unvisited isolated-node-moved result={o}")
        else if !nb.isEmpty && !nb.contains o then (st, s!"PROPFAIL C15 prefers_unvisited result-not-a-neighbour result={o}")
        else if (nb.any fun m => !ign.contains m) && ign.contains o then
          (st, s!"PROPFAIL C15 prefers_unvisited visited-chosen result={o} unvisited={nb.filter fun m => !ign.contains m}")
        else
          let m := st.model.nextNodes true node ign
          -- unreachable on an agreed structure: the predicates above are the definition of the allowed set
          (st, if m.contains o then "ok" else s!"MISMATCH net.next model={m}")
      | none => (st, "BADLINE")
    | _, _, _, _ => (st, "BADLINE")
  | c, [r, cc, d, jump, _seed] =>
    if c = "net.walk" || c = "net.kwalk" then
      match parseInt? r, parseInt? cc, parseRat? d, parseOutcome obs with
      | some r, some cc, some d, some o => (st, checkWalk st c (r, cc) d (jump = "1") o)
      | _, _, _, _ => (st, "BADLINE")
    else (st, "BADLINE")
  | "net.teleport", [r, cc, steps, _seed] =>
    match parseInt? r, parseInt? cc, parseInt? steps, parseOutcome obs with
    | some r, some cc, some steps, some o => (st, checkTeleport st cmd (r, cc) steps.toNat o)
    | _, _, _, _ => (st, "BADLINE")
  | "net.kteleport", [r, cc, _seed] =>
    match parseInt? r, parseInt? cc, parseOutcome obs with
    | some r, some cc, some o => (st, checkTeleport st cmd (r, cc) 1 o)
    | _, _, _ => (st, "BADLINE")
  | _, _ => (st, "BADLINE")

end Pops.Driver.NetEng
