/-
  Driver engine for the host-pool family (C01-C05, C10-C12, C17): per operation line the engine
  (1) evaluates the ledger / non-negativity / totals predicates and the mechanism specification
      on the implementation's pre and post states (PROPFAIL),
  (2) recomputes the post state with the L1 model, random draws inferred from the observed
      difference and checked for validity, and compares exactly (MISMATCH).
  Protocol (all cells of the landscape are listed on every line, row-major):
    hp.begin <SI|SEI> <latency> <rows> <cols>
    hp.state | <cells> | <suitable>
    hp.<op> <args> => <ret> | <cells> | <suitable>
  cell = s,i,r,te,th,died;e0,e1,..;m0,m1,..      suitable = r,c
-/
import PopsModel.Driver.Util
import PopsModel.Model.HostPred
import PopsModel.Model.SuitList
import PopsModel.Model.Treat
import PopsModel.Model.Actions
import PopsModel.Model.RunStep
namespace Pops.Driver.HostEng
open Pops Pops.Driver

structure State where
  mt : ModelType := .si
  latency : Nat := 0
  rows : Nat := 0
  cols : Nat := 0
  cells : List Cell := []
  suit : List (Int × Int) := []
  pest : PestState := { disp := [], est := [], outside := [] }
  cfg : StepCfg := default
  rasterEntry : Bool := false
  uniforms : List Rat := []
  tainted : Bool := false        -- a treatment broke i = sum(mort) earlier in this run (F20)
  soil : List Int := []          -- soil cohorts at the observed cell
  treats : List (TreatSpec × TreatApp × List Rat) := []   -- Treatments container (after clear_after_step)
  soilCells : List (List Int) := []   -- soil cohorts per cell after the previous model step
  stepStart : List Cell := []         -- host cells when the current model step began
deriving Inhabited

def intList? (s : String) : Option (List Int) :=
  if s = "-" ∨ s = "" then some [] else (s.splitOn ",").mapM parseInt?

def cell? (tok : String) : Option Cell :=
  match tok.splitOn ";" with
  | [a, e, m] => do
    let h ← intList? a
    let e ← intList? e
    let m ← intList? m
    match h with
    | [s, i, r, te, th, died] => some { s, e, i, r, te, mort := m, died, th }
    | _ => none
  | _ => none

def pair? (tok : String) : Option (Int × Int) :=
  match tok.splitOn "," with
  | [a, b] => do let x ← parseInt? a; let y ← parseInt? b; some (x, y)
  | _ => none

/-- Split observed tokens at `|` into segments. -/
def segments (toks : List String) : List (List String) :=
  let rec go (cur : List String) (acc : List (List String)) : List String → List (List String)
    | [] => (cur.reverse :: acc).reverse
    | "|" :: rest => go [] (cur.reverse :: acc) rest
    | t :: rest => go (t :: cur) acc rest
  go [] [] toks

structure Obs where
  ret : List String
  cells : List Cell
  suit : List (Int × Int)

def obs? (toks : List String) : Option Obs :=
  match segments toks with
  | ret :: cs :: su :: _ => do
    let cells ← cs.mapM cell?
    let suit ← su.mapM pair?
    some { ret, cells, suit }
  | _ => none

def showCell (c : Cell) : String :=
  let l (x : List Int) := if x.isEmpty then "-" else ",".intercalate (x.map toString)
  s!"{c.s},{c.i},{c.r},{c.te},{c.th},{c.died};{l c.e};{l c.mort}"

def idx (st : State) (r c : Int) : Nat := (r * st.cols + c).toNat
def inside (st : State) (r c : Int) : Bool := decide (0 ≤ r) && decide (r < st.rows) && decide (0 ≤ c) && decide (c < st.cols)

/-- Generic invariants (C01 ledger by class, C02, C03) for every cell; `exemptMort` for the
    overpopulation moves, which are documented not to maintain the mortality cohorts. -/
def invariants (pre post : List Cell) (cls : Nat → Ledger) (exemptMort : Bool) (skipLedger : Nat → Bool) : Option String :=
  if pre.length ≠ post.length then some "BADLINE cells" else
  let cells := List.zip (List.range pre.length) (List.zip pre post)
  -- one verdict per predicate (its first failing cell), so that a line can be reported under every
  -- property it violates and not only under the first one tested
  let first (f : Nat → Cell → Cell → Option String) : Option String :=
    cells.findSome? fun (k, a, b) => f k a b
  let verdicts : List String := [
    first (fun k a b => if !(skipLedger k) && !(ledgerOK (cls k) a b) then
      some s!"PROPFAIL C01 ledger cell={k} pre={showCell a} post={showCell b}" else none),
    first (fun k a b => if a.nonNeg && !b.nonNeg then some s!"PROPFAIL C02 nonneg cell={k} pre={showCell a} post={showCell b}"
      else if a.nonNeg && a.totalsOK && a.infectedLeTotal && !b.infectedLeTotal then
        some s!"PROPFAIL C02 infected_le_total cell={k} post={showCell b}" else none),
    first (fun k a b => if a.totalsOK && !b.totalsOK then some s!"PROPFAIL C03 totals cell={k} pre={showCell a} post={showCell b}"
      else if !exemptMort && a.mortOK && !b.mortOK then some s!"PROPFAIL C03 mortality_cohorts cell={k} pre={showCell a} post={showCell b}" else none),
    -- C05: every exposed host sits in a cohort (a host counted as exposed but held by no cohort can never mature)
    first (fun k a b => if !a.e.isEmpty && decide (a.te = sumL a.e) && !decide (b.te = sumL b.e) then
      some s!"PROPFAIL C05 exposed_host_without_cohort cell={k} pre={showCell a} post={showCell b}" else none)
  ].filterMap id
  if verdicts.isEmpty then none else some (" ;; ".intercalate verdicts)

def firstDiff (exp obs : List Cell) : Option String :=
  let rec go (k : Nat) : List Cell → List Cell → Option String
    | a :: as, b :: bs => if a == b then go (k + 1) as bs else some s!"cell={k} model={showCell a} observed={showCell b}"
    | [], [] => none
    | _, _ => some "length"
  go 0 exp obs

def cmpCells (what : String) (exp obs : List Cell) : String :=
  match firstDiff exp obs with
  | none => "ok"
  | some d => s!"MISMATCH {what} {d}"

def isSuit (st : State) (k : Nat) : Bool :=
  st.suit.any fun (r, c) => inside st r c && idx st r c == k

/-- Apply `f` to every suitable cell (in list order), other cells unchanged. -/
def mapSuit (st : State) (f : Nat → Cell → Cell) : List Cell :=
  st.suit.foldl (fun cells (r, c) =>
    if inside st r c then
      let k := idx st r c
      match cells[k]? with
      | some cell => cells.set k (f k cell)
      | none => cells
    else cells) st.cells

/-- C18 through the host pool: the infected sum over the maintained suitable-cell list still equals
    the sum of the infected raster (theorem `C18_sum_over_suitable_list`); judged only when it held
    before the operation. -/
def listSumVerdict (st : State) (o : Obs) : Option String :=
  let infOf (cells : List Cell) : Nat → Int := fun k => (cells[k]!).i
  let toIdx (suit : List (Int × Int)) : List Nat := suit.map fun (r, c) => idx st r c
  let before := infectedOverList (infOf st.cells) (toIdx st.suit) == infectedOverRaster (infOf st.cells) st.cells.length
  let l := infectedOverList (infOf o.cells) (toIdx o.suit)
  let r := infectedOverRaster (infOf o.cells) o.cells.length
  if before && l != r then some s!"PROPFAIL C18 infected_sum_over_suitable_cells list_sum={l} raster_sum={r} suitable={o.suit}" else none

def finish (st : State) (o : Obs) (verdict : String) : State × String :=
  let v := match listSumVerdict st o with
    | none => verdict
    | some c18 => if verdict == "ok" then c18 else verdict ++ " ;; " ++ c18
  ({ st with cells := o.cells, suit := o.suit }, v)

def ratsFor (st : State) (toks : List String) : Option (List Rat) := do
  let l ← parseRats? toks
  if l.length = st.rows * st.cols then some l else none


/-- Checks of one host move (C01 ledger, C02, C03, C17 amount and suitability, exact replay with
    inferred draws). `ret` is the returned count when the caller observes it. -/
def checkMove (st : State) (pre post : List Cell) (obsSuit : List (Int × Int))
    (r1 c1 r2 c2 cnt : Int) (ret : Option String) : String :=
  let a := idx st r1 c1
  let b := idx st r2 c2
  let src := pre[a]!
  let dst := pre[b]!
  let src' := post[a]!
  let dst' := post[b]!
  -- target joins the suitable cells when it had no host before
  let expSuit := if dst.th == 0 && !(st.suit.contains (r2, c2)) then st.suit ++ [(r2, c2)] else st.suit
  if a == b then
    (if post == pre then (if obsSuit == expSuit then "ok" else "MISMATCH hp.move suitable") else "MISMATCH hp.move same-cell changed")
  else
    let others := (List.range pre.length).all fun k => k == a || k == b || pre[k]! == post[k]!
    if !others then "PROPFAIL C17 move_touched_other_cells"
    else if !(moveLedgerOK src dst src' dst') then
      s!"PROPFAIL C01 move_ledger src={showCell src} dst={showCell dst} src'={showCell src'} dst'={showCell dst'}"
    else if src.nonNeg && dst.nonNeg && !(src'.nonNeg && dst'.nonNeg) then
      s!"PROPFAIL C02 nonneg move src'={showCell src'} dst'={showCell dst'}"
    else if src.totalsOK && dst.totalsOK && !(src'.totalsOK && dst'.totalsOK) then
      s!"PROPFAIL C03 totals move src'={showCell src'} dst'={showCell dst'}"
    else if src.mortOK && dst.mortOK && src.totalsOK && !(src'.mortOK && dst'.mortOK) then
      s!"PROPFAIL C03 mortality_cohorts move src'={showCell src'} dst'={showCell dst'}"
    else if src.consistent && ret.isSome && ret != some (toString (min cnt src.hosts)) then
      s!"PROPFAIL C17 move_amount ret={ret} expected={min cnt src.hosts}"
    else if src.consistent && decide (src.hosts - src'.hosts ≠ min cnt src.hosts) then
      s!"PROPFAIL C17 move_amount hosts_left={src.hosts - src'.hosts}"
    else if src.consistent && !(obsSuit.contains (r2, c2)) && decide (min cnt src.hosts > 0) then
      "PROPFAIL C17 target_not_suitable"
    else
      let d : ClassDraw := { i := src.i - src'.i, s := src.s - src'.s, e := src.te - src'.te, r := src.r - src'.r }
      let drawE := subL src.e src'.e
      let drawM := subL src.mort src'.mort
      if !(validClassDrawB src cnt d) then s!"MISMATCH hp.move class-draw-invalid i={d.i} s={d.s} e={d.e} r={d.r}"
      else if d.e > 0 && !(validDrawB src.e d.e drawE) then "MISMATCH hp.move exposed-draw-invalid"
      else if d.i > 0 && !(validDrawB src.mort d.i drawM) then "MISMATCH hp.move mortality-draw-invalid"
      else
        let (ms, md, moved) := moveHosts src dst cnt d drawE drawM
        if ret.isSome && ret != some (toString moved) then s!"MISMATCH hp.move ret model={moved}"
        else if obsSuit != expSuit then "MISMATCH hp.move suitable"
        else cmpCells "hp.move" ((pre.set a ms).set b md) post

/-- Step inputs with neutral defaults; the handlers fill in the fields of the action they replay. -/
def baseInputs (st : State) : StepInputs :=
  { g := { rows := st.rows, cols := st.cols }, mt := st.mt, latency := st.latency, suit := st.suit,
    lethalThreshold := 0, temperatures := [], lethalDraws := [], survivalRates := [], survivalDrawsI := [],
    survivalDrawsE := [], landings := [], stochasticEst := false, pEst := 0, overThreshold := 0, overLeaving := 0,
    overTargets := [], moves := [], treatEvents := [], mortalityRate := 0, mortalityLag := 0 }

/-- Replay one action through the generator `run_step` is composed of (Model/RunStep.lean) and
    compare with the observed cells: this ties `actionGen`, on which C01_model_step and C09_compose
    are stated, to the code action by action. -/
def genReplay (what : String) (inp : StepInputs) (step : Nat) (a : ActionKind) (pre post : List Cell) : String :=
  match runOps (actionGen inp step a pre) pre with
  | .error e => s!"MISMATCH {what} generator model={errTok e}"
  | .ok exp =>
    match firstDiff exp post with
    | none => "ok"
    | some d => s!"MISMATCH {what} generator {d}"

/-- `name=value` token. -/
def kv? (tok : String) (key : String) : Option String :=
  if tok.startsWith (key ++ "=") then some (tok.drop (key.length + 1)).toString else none

def flagSched? (v : String) : Option (Bool × List Bool) :=
  match v.splitOn ":" with
  | [f, b] => some (f == "1", if b == "-" then [] else parseBits b)
  | _ => none

def pairs? (s : String) (sep : String) : Option (List (Int × Int)) :=
  if s = "-" ∨ s = "" then some [] else (s.splitOn sep).mapM pair?

def ratList? (s : String) : Option (List Rat) := (s.splitOn ",").mapM parseRat?

def kindOfName (n : String) : Option ActionKind :=
  documentedOrder.find? fun k => k.name == n

/-- `name:idx,name:idx` -/
def trace? (s : String) : Option (List (ActionKind × Int)) :=
  if s = "-" then some [] else (s.splitOn ",").mapM fun t =>
    match t.splitOn ":" with
    | [n, i] => do let k ← kindOfName n; let i ← parseInt? i; some (k, i)
    | _ => none

/-- `hp.plan <step> => <status> <trace>`: the observed action trace against the plan (C09). -/
def planVerdict (st : State) (stepTok : String) (obsToks : List String) : State × String :=
    match parseNat? stepTok, obsToks with
    | some step, [status, tr] =>
      match trace? tr with
      | none => (st, "BADLINE trace")
      | some observed =>
        let expected := plan st.cfg step
        let expKinds := expected.map (·.1)
        let obsKinds := observed.map (·.1)
        if status ≠ "ok" then
          -- the step threw: mortality through the raster entry point is the open finding F18;
          -- mortality failing after a rounding-inconsistent treatment is the downstream face of F20
          let mortNext := expKinds.contains .mortality && !(obsKinds.contains .mortality) &&
            obsKinds == expKinds.takeWhile (· != .mortality)
          let rateNext := expKinds.contains .spreadRate && !(obsKinds.contains .spreadRate) &&
            obsKinds == expKinds.takeWhile (· != .spreadRate)
          if rateNext && st.rasterEntry && status == "err:out_of_range" then
            (st, s!"KNOWN C09 F26 step={step} raster entry point with use_spreadrates threw {status} at the spread-rate measurement")
          else if mortNext && st.rasterEntry && status == "err:invalid_argument" then
            (st, s!"KNOWN C09 F18 step={step} raster entry point with use_mortality threw {status}")
          else if mortNext && st.tainted && status == "err:runtime_error" then
            (st, s!"KNOWN C03 F20 step={step} mortality failed after a treatment whose per-cohort rounding broke i = sum(mort)")
          else (st, s!"PROPFAIL C09 step_threw step={step} {status} trace={tr}")
        else
          -- C09: exactly the enabled and scheduled actions, in the documented order, with the index of the firing
          let orderOK := obsKinds == documentedOrder.filter (obsKinds.contains ·) && obsKinds.eraseDups == obsKinds
          let iffOK := documentedOrder.all fun k => obsKinds.contains k == st.cfg.runs step k
          let idxOK := observed.all fun (k, i) => match st.cfg.inputIndex step k with | some j => i == (j : Int) | none => true
          let treatDue := st.cfg.useTreatments && st.treats.any fun t => t.1.eventAt step != .nothing
          if treatDue && !(obsKinds.contains .treatments) then (st, s!"PROPFAIL C10 treatment_not_applied_at_its_step step={step} trace={tr}")
          else if !orderOK then (st, s!"PROPFAIL C09 order step={step} trace={tr}")
          else if !iffOK then (st, s!"PROPFAIL C09 enabled_and_scheduled step={step} trace={tr} expected={expKinds.map ActionKind.name}")
          else if !idxOK then (st, s!"PROPFAIL C09 input_index step={step} trace={tr}")
          else if obsKinds != expKinds then (st, s!"MISMATCH hp.plan model={expKinds.map ActionKind.name}")
          else (st, "ok")
    | _, _ => (st, "BADLINE")

def handle (st : State) (cmd : String) (inp obsToks : List String) : State × String :=
  match cmd, inp with
  | "hp.begin", [mt, lat, rows, cols] =>
    match modelTypeFromString mt, parseNat? lat, parseNat? rows, parseNat? cols with
    | .ok mt, some l, some r, some c =>
      let z := List.replicate (r * c) (0 : Int)
      ({ st with mt := mt, latency := l, rows := r, cols := c, cells := [], suit := [], tainted := false, uniforms := [], soilCells := [], treats := [],
                 pest := { disp := z, est := z, outside := [] } }, "ok")
    | _, _, _, _ => (st, "BADLINE")
  | "hp.state", [] =>
    match obs? obsToks with
    | some o => let (st', v) := finish st o "ok"; ({ st' with stepStart := o.cells }, v)
    | none => (st, "BADLINE")
  -- Treatments container: hp.treatlist clear_at kind:app:start:end,coef,coef.. ...
  | "hp.treatlist", clearTok :: items =>
    let parsed : Option (List (TreatSpec × TreatApp × List Rat)) := items.mapM fun it =>
      match it.splitOn ":" with
      | [kind, app, s0, rest] =>
        match rest.splitOn "," with
        | s1 :: coefs => do
          let a ← (treatAppFromString app).toOption
          let s0 ← parseNat? s0; let s1 ← parseNat? s1
          let cs ← coefs.mapM parseRat?
          some ({ pesticide := kind == "pesticide", start := s0, end_ := s1 }, a, cs)
        | _ => none
      | _ => none
    match parseInt? clearTok, parsed with
    | some cl, some l =>
      -- clear_after_step removes the treatments whose start lies after the step
      let kept := if cl < 0 then l else
        let keptSpecs := clearAfterStep (l.map (·.1)) cl.toNat
        l.filter fun t => keptSpecs.contains t.1 && decide (t.1.start ≤ cl.toNat)
      ({ st with treats := kept }, "ok")
    | _, _ => (st, "BADLINE")
  -- SoilPool at one cell: hp.soil.init => c0,c1,..
  | "hp.soil.init", [] =>
    match obsToks with
    | [c] => match intList? c with | some l => ({ st with soil := l }, "ok") | none => (st, "BADLINE")
    | _ => (st, "BADLINE")
  -- hp.soil.to sto pEst w u1,u2,.. => cohorts
  | "hp.soil.to", [sto, pEst, w, us] =>
    match parseRat? pEst, parseRat? w, (if us = "-" then some [] else ratList? us), obsToks with
    | some pEst, some w, some us, [c] =>
      match intList? c with
      | some post =>
        let exp := us.foldl (fun l u => soilDisperserTo l w (sto == "1") pEst u) st.soil
        let st' := { st with soil := post }
        if post.any (· < 0) then (st', "PROPFAIL C02 nonneg soil_cohorts")
        else if sumL post - sumL st.soil > us.length || sumL post < sumL st.soil then (st', s!"PROPFAIL C04 soil_share stored={sumL post - sumL st.soil} sent={us.length}")
        else (st', if exp == post then "ok" else s!"MISMATCH hp.soil.to model={exp}")
      | none => (st, "BADLINE")
    | _, _, _, _ => (st, "BADLINE")
  -- hp.soil.from det w => ret | cohorts
  | "hp.soil.from", [det, w] =>
    match parseRat? w, segments obsToks with
    | some w, [[ret], [c]] =>
      match parseInt? ret, intList? c with
      | some ret, some post =>
        let pre := st.soil
        let st' := { st with soil := post }
        let total := sumL pre
        let draw := subL pre post
        if post.any (· < 0) then (st', "PROPFAIL C02 nonneg soil_cohorts")
        else if ret < 0 then (st', "PROPFAIL C02 nonneg soil_release")
        else if ret > total then
          (st', if det == "0" then s!"KNOWN C02 F22 released={ret} stored={total}" else s!"PROPFAIL C02 taken_le_present soil released={ret} stored={total}")
        else if det == "1" && ret != soilReleaseDet pre w then (st', s!"PROPFAIL C04 soil_release_det ret={ret} expected={soilReleaseDet pre w}")
        else if !(validDrawB pre ret draw) then (st', s!"MISMATCH hp.soil.from draw-invalid draw={draw} n={ret}")
        else (st', if soilRelease pre draw == post then "ok" else "MISMATCH hp.soil.from")
      | _, _ => (st, "BADLINE")
    | _, _ => (st, "BADLINE")
  | "hp.soil.next", [] =>
    match obsToks with
    | [c] =>
      match intList? c with
      | some post =>
        let exp := soilNext st.soil
        ({ st with soil := post }, if exp == post then "ok" else s!"PROPFAIL C04 soil_ageing expected={exp} observed={post}")
      | none => (st, "BADLINE")
    | _ => (st, "BADLINE")
  -- soil cohorts of every cell after a model step: hp.soilstate step spread? => c0,c1 c0,c1 ...
  | "hp.soilstate", [_stepTok, spreadTok] =>
    match obsToks.mapM intList? with
    | none => (st, "BADLINE")
    | some cur =>
      let st' := { st with soilCells := cur }
      if st.soilCells.isEmpty then (st', "ok")
      else
        -- C04: soil cohorts age by one position per model step and the youngest is cleared; in a
        -- step without spread nothing is stored or released, in a spread step older cohorts can only shrink
        let bad := (List.zip st.soilCells cur).findSome? fun (prev, now) =>
          let aged := soilNext prev
          if now.any (· < 0) then some "PROPFAIL C02 nonneg soil_cohorts"
          else if spreadTok == "0" && now != aged then
            some (s!"PROPFAIL C04 soil_ageing previous={prev} now={now} expected={aged}" ++
              -- C09: soil ageing is the first action of every step when soils are active
              (if now == prev then s!" ;; PROPFAIL C09 soil_ageing_not_performed previous={prev} now={now}" else ""))
          else if spreadTok == "1" && (List.zip now.dropLast aged.dropLast).any (fun (a, b) => a > b) then
            some s!"PROPFAIL C04 soil_ageing previous={prev} now={now} aged={aged}"
          else none
        (st', bad.getD "ok")
  -- differential run SI vs SEI with latency 0 (whole Model runs compared by the harness)
  | "hp.l0", [_n] =>
    (st, if obsToks.head? == some "equal" then "ok" else s!"PROPFAIL C05 L0_differs_from_SI {" ".intercalate (obsToks.take 40)}")
  | "hp.uniforms", [us] =>
    match (us.splitOn ",").mapM parseInt? with
    | some l => ({ st with uniforms := l.map fun k => mkRat k 1048576 }, "ok")
    | none => (st, "BADLINE")
  | "hp.cfg", toks =>
    let get (key : String) : Option String := toks.findSome? (kv? · key)
    match get "entry", get "soils", (get "lethal").bind flagSched?, (get "survival").bind flagSched?, get "spread", get "overpop",
          get "movements", get "treatments", (get "mortality").bind flagSched?, (get "rates").bind flagSched?, (get "quarantine").bind flagSched? with
    | some entry, some soils, some (useL, schL), some (useS, schS), some sp, some ov, some mv, some tr, some (useM, schM), some (useR, schR), some (useQ, schQ) =>
      let cfg : StepCfg := {
        soils := soils == "1", useLethal := useL, lethalSched := schL, useSurvival := useS, survivalSched := schS,
        spreadSched := parseBits sp, useOverpop := ov == "1", useMovements := mv == "1", useTreatments := tr == "1",
        useMortality := useM, mortalitySched := schM, useSpreadRates := useR, rateSched := schR, useQuarantine := useQ, quarantineSched := schQ }
      ({ st with cfg := cfg, rasterEntry := entry == "rasters" }, "ok")
    | _, _, _, _, _, _, _, _, _, _, _ => (st, "BADLINE cfg")
  -- utils.hpp find_suitable_cells (one raster / several rasters): cells with a positive value, row-major
  | "hp.findsuit", rowsTok :: colsTok :: rest =>
    match parseNat? rowsTok, parseNat? colsTok, segments rest, segments obsToks with
    | some rows, some cols, [_, aT, bT], [_, oneT, bothT] =>
      match parseInts? aT, parseInts? bT, oneT.mapM pair?, bothT.mapM pair? with
      | some a, some b, some one, some both =>
        let cellsOf (f : Nat → Bool) : List (Int × Int) :=
          (List.range (rows * cols)).filterMap fun k => if f k then some (((k / cols : Nat) : Int), ((k % cols : Nat) : Int)) else none
        let e1 := cellsOf fun k => decide (a[k]! > 0)
        let e2 := cellsOf fun k => decide (a[k]! > 0) || decide (b[k]! > 0)
        (st, if one != e1 then s!"MISMATCH hp.findsuit one-raster model={e1}"
             else if both != e2 then s!"MISMATCH hp.findsuit several-rasters model={e2}" else "ok")
      | _, _, _, _ => (st, "BADLINE")
    | _, _, _, _ => (st, "BADLINE")
  | "hp.plan", [stepTok] =>
    -- C05, state-based and independent of the trace: in a step that is not a spread step no exposed
    -- cohort ages and nothing matures (the step began with `stepStart`, it ends with `cells`)
    let offSeason : Option String :=
      match parseNat? stepTok, obsToks with
      | some step, "ok" :: _ =>
        if st.mt == .sei && !(schedAt st.cfg.spreadSched step) && !st.stepStart.isEmpty && !(offSeasonFrame st.stepStart st.cells) then
          let k := ((List.range st.cells.length).find? fun k => !(exposedFrozen st.stepStart[k]! st.cells[k]!)).getD 0
          some s!"PROPFAIL C05 cohorts_aged_outside_spread_step step={step} cell={k} start={showCell st.stepStart[k]!} end={showCell st.cells[k]!}"
        else none
      | _, _ => none
    let (stp, vp) := planVerdict st stepTok obsToks
    ({ stp with stepStart := stp.cells },
     match offSeason with
     | none => vp
     | some v => if vp == "ok" then v else vp ++ " ;; " ++ v)
  | _, _ =>
    match obs? obsToks with
    | none => (st, "BADLINE obs")
    | some o =>
      let pre := st.cells
      let post := o.cells
      if post.length ≠ pre.length then (st, "BADLINE cellcount") else
      let reclass : Nat → Ledger := fun _ => .reclassify
      let noSkip : Nat → Bool := fun _ => false
      match cmd, inp with
      -- add_disperser_at r c
      | "hp.add", [r, c] =>
        match parseInt? r, parseInt? c, o.ret with
        | some r, some c, [ret] =>
          let k := idx st r c
          match invariants pre post reclass false noSkip with
          | some v => finish st o v
          | none =>
            let (c', res) := (pre[k]!).addDisperserAt st.mt
            if toString res ≠ ret then finish st o s!"MISMATCH hp.add ret model={res}"
            else finish st o (cmpCells cmd (pre.set k c') post)
        | _, _, _ => (st, "BADLINE")
      -- disperser_to r c stochastic pEst u N w sus
      | "hp.dispto", [r, c, sto, pEst, u, n, w, sus] =>
        match parseInt? r, parseInt? c, parseRat? pEst, parseRat? u, parseInt? n with
        | some r, some c, some pEst, some u, some n =>
          let k := idx st r c
          let env : EnvCell := { n := n, w := if w = "none" then none else parseRat? w, sus := if sus = "none" then none else parseRat? sus }
          let sto := sto = "1"
          let cell := pre[k]!
          let model := cell.disperserTo st.mt env sto pEst u
          match o.ret with
          | [ret] =>
            if ret.startsWith "err:" then
              match model with
              | .error e => (st, if ret = errTok e then "ok" else s!"MISMATCH hp.dispto model={errTok e}")
              | .ok _ =>
                -- C16/C12: suitability outside [0,1] must be rejected, anything else must not throw
                (st, s!"MISMATCH hp.dispto model=ok observed={ret}")
            else
              match invariants pre post reclass false noSkip with
              | some v => finish st o v
              | none =>
                match parseInt? ret with
                | none => (st, "BADLINE")
                | some res =>
                  -- property predicates on the observed result (domain: N > 0, factors in [0,1])
                  let inDomain := decide (n > 0) && decide (cell.s ≤ n)
                  if inDomain && !(establishSpec cell env sto pEst u res) then
                    finish st o s!"PROPFAIL C12 establish_event s={cell.s} N={n} ret={res}"
                  else if !(landingSpec st.mt cell (post[k]!) res) then
                    finish st o s!"PROPFAIL C04 landing cell={k} ret={res} pre={showCell cell} post={showCell (post[k]!)}"
                  else
                    match model with
                    | .error e => finish st o s!"MISMATCH hp.dispto model={errTok e}"
                    | .ok (c', mres, _) =>
                      if mres ≠ res then finish st o s!"MISMATCH hp.dispto ret model={mres}"
                      else finish st o (cmpCells cmd (pre.set k c') post)
          | _ => (st, "BADLINE")
        | _, _, _, _, _ => (st, "BADLINE")
      -- deterministic dispersers_from r c lambda
      | "hp.dispfrom", [r, c, lam] =>
        match parseInt? r, parseInt? c, parseRat? lam, o.ret with
        | some r, some c, some lam, [ret] =>
          let cell := pre[idx st r c]!
          let m := cell.dispersersFromDet lam
          if cell.i ≤ 0 && ret ≠ "0" then finish st o "PROPFAIL C04 dispersers_without_infection"
          else if post != pre then finish st o "PROPFAIL C04 generation_changed_hosts"
          else finish st o (if toString m = ret then "ok" else s!"MISMATCH hp.dispfrom model={m}")
        | _, _, _, _ => (st, "BADLINE")
      -- pests_from / pests_to r c k  (overpopulation primitives; mortality cohorts exempt)
      | "hp.pestsfrom", [r, c, kk] =>
        match parseInt? r, parseInt? c, parseInt? kk, o.ret with
        | some r, some c, some kk, [ret] =>
          let k := idx st r c
          match invariants pre post reclass true noSkip with
          | some v => finish st o v
          | none =>
            let (c', res) := (pre[k]!).pestsFrom kk
            if toString res ≠ ret then finish st o s!"MISMATCH hp.pestsfrom ret model={res}"
            else finish st o (cmpCells cmd (pre.set k c') post)
        | _, _, _, _ => (st, "BADLINE")
      | "hp.peststo", [r, c, kk] =>
        match parseInt? r, parseInt? c, parseInt? kk, o.ret with
        | some r, some c, some kk, [ret] =>
          let k := idx st r c
          let cell := pre[k]!
          let cell' := post[k]!
          -- C17 arrival: min(count, susceptible) establish, the rest die (evaluated on the observed state)
          let arrival : Option String :=
            if cell.s ≥ 0 && kk ≥ 0 && (ret ≠ toString (min kk cell.s) || cell'.i != cell.i + min kk cell.s || cell'.s != cell.s - min kk cell.s) then
              some s!"PROPFAIL C17 arrival ret={ret} established={cell'.i - cell.i} expected={min kk cell.s}"
            else none
          match invariants pre post reclass true noSkip, arrival with
          | some v, some a => finish st o (v ++ " ;; " ++ a)
          | some v, none => finish st o v
          | none, some a => finish st o a
          | none, none =>
            let (c', res) := cell.pestsTo kk
            if toString res ≠ ret then finish st o s!"MISMATCH hp.peststo ret model={res}"
            else finish st o (cmpCells cmd (pre.set k c') post)
        | _, _, _, _ => (st, "BADLINE")
      -- move_hosts_from_to r1 c1 r2 c2 count
      | "hp.move", [r1, c1, r2, c2, cnt] =>
        match parseInt? r1, parseInt? c1, parseInt? r2, parseInt? c2, parseInt? cnt, o.ret with
        | some r1, some c1, some r2, some c2, some cnt, [ret] =>
          finish st o (checkMove st pre post o.suit r1 c1 r2 c2 cnt (some ret))
        | _, _, _, _, _, _ => (st, "BADLINE")
      -- SimpleTreatment / PesticideTreatment apply over suitable cells: kind app coefs...
      | "hp.treat", kind :: app :: coefToks =>
        match ratsFor st coefToks, treatAppFromString app with
        | some coefs, .ok app =>
          let pest := kind = "pesticide"
          let all := app == .allInfected
          let cls : Nat → Ledger := fun _ => if pest then .reclassify else .removal
          -- F20: per-cohort rounding can break i = sum(mort); region predicate decides known / violation
          let f20 : Option String := (List.range pre.length).findSome? fun k =>
            let a := pre[k]!; let b := post[k]!
            if isSuit st k && a.mortOK && !b.mortOK then
              let agrees := roundingAgrees (if pest then rfloor else rceil) coefs[k]! a
              if !all && !agrees then some s!"KNOWN C03 F20 cell={k} coef={coefs[k]!} pre={showCell a} post={showCell b}"
              else some s!"PROPFAIL C03 mortality_cohorts cell={k} pre={showCell a} post={showCell b}"
            else none
          if o.ret.any (·.startsWith "err:") then
            -- a treatment inside the domain never throws
            let ok := (List.range pre.length).all fun k => !(isSuit st k) || (pre[k]!).consistent
            (st, if ok then s!"PROPFAIL C10 treatment_threw {o.ret}" else "ok")
          else
          match invariants pre post cls true noSkip with
          | some v => finish st o v
          | none =>
            let spec : Option String := (List.range pre.length).findSome? fun k =>
              let a := pre[k]!; let b := post[k]!
              if !(isSuit st k) then (if a == b then none else some s!"PROPFAIL C10 untreated_cell_changed cell={k}")
              else if coefs[k]! == 0 && a != b && a.totalsOK then some s!"PROPFAIL C10 coef_zero_changed cell={k}"
              else if a.consistent && decide (0 ≤ coefs[k]!) && decide (coefs[k]! ≤ 1) then
                if pest then (if pesticideTreatSpec coefs[k]! all a b then none else some s!"PROPFAIL C10 pesticide_share cell={k} coef={coefs[k]!} pre={showCell a} post={showCell b}")
                else (if simpleTreatSpec coefs[k]! all a b then none else some s!"PROPFAIL C10 removal_share cell={k} coef={coefs[k]!} pre={showCell a} post={showCell b}")
              else none
            match spec with
            | some v => finish st o v
            | none =>
              let exp := mapSuit st fun k cell =>
                let r := if pest then cell.pesticideTreat coefs[k]! app else cell.simpleTreat coefs[k]! app
                match r with | .ok c' => c' | .error _ => cell
              match firstDiff exp post with
              | some d => finish st o s!"MISMATCH hp.treat {d}"
              | none => finish st o (f20.getD "ok")
        | _, _ => (st, "BADLINE")
      | "hp.treatend", coefToks =>
        match ratsFor st coefToks with
        | some coefs =>
          match invariants pre post reclass false noSkip with
          | some v => finish st o v
          | none =>
            let spec : Option String := (List.range pre.length).findSome? fun k =>
              let a := pre[k]!; let b := post[k]!
              if !(isSuit st k) then (if a == b then none else some s!"PROPFAIL C10 untreated_cell_changed cell={k}")
              else if pesticideEndSpec coefs[k]! a b then none else some s!"PROPFAIL C10 pesticide_end cell={k}"
            match spec with
            | some v => finish st o v
            | none => finish st o (cmpCells cmd (mapSuit st fun k cell => cell.pesticideEnd coefs[k]!) post)
        | none => (st, "BADLINE")
      -- SurvivalRateAction: rates per cell
      | "hp.survival", rateToks =>
        match ratsFor st rateToks with
        | some rates =>
          match invariants pre post reclass false noSkip with
          | some v => finish st o v
          | none =>
            let spec : Option String := (List.range pre.length).findSome? fun k =>
              let a := pre[k]!; let b := post[k]!
              if !(isSuit st k) then (if a == b then none else some s!"PROPFAIL C12 survival_touched_unsuitable cell={k}")
              else if a.consistent && decide (0 ≤ rates[k]!) then
                (if survivalSpec rates[k]! a b then none else some s!"PROPFAIL C12 survival cell={k} rate={rates[k]!} pre={showCell a} post={showCell b}")
              else none
            match spec with
            | some v => finish st o v
            | none =>
              let bad : Option String := (List.range pre.length).findSome? fun k =>
                let a := pre[k]!; let b := post[k]!
                if isSuit st k && decide (rates[k]! < 1) then
                  let dI := subL a.mort b.mort
                  let nI := a.ratioRemovedInfected rates[k]!
                  let a1 := a.removeInfected nI dI
                  let dE := subL a.e b.e
                  let nE := a1.ratioRemovedExposed rates[k]!
                  if nI > 0 && !(validDrawB a.mort nI dI) then some s!"mortality-draw-invalid cell={k}"
                  else if nE > 0 && !(validDrawB a.e nE dE) then some s!"exposed-draw-invalid cell={k}"
                  else if a.removeByRatio rates[k]! dI dE != b then some s!"cell={k} model={showCell (a.removeByRatio rates[k]! dI dE)} observed={showCell b}"
                  else none
                else if a != b then some s!"cell={k} unchanged-expected"
                else none
              let dIs := st.suit.map fun (r, c) => subL (pre[idx st r c]!).mort (post[idx st r c]!).mort
              let dEs := st.suit.map fun (r, c) => subL (pre[idx st r c]!).e (post[idx st r c]!).e
              finish st o (match bad with
                | some d => s!"MISMATCH hp.survival {d}"
                | none => genReplay cmd { baseInputs st with survivalRates := rates, survivalDrawsI := dIs, survivalDrawsE := dEs } 0 .survival pre post)
        | none => (st, "BADLINE")
      -- RemoveByTemperature: threshold, temperatures per cell
      | "hp.lethal", thr :: tempToks =>
        match parseRat? thr, ratsFor st tempToks with
        | some thr, some temps =>
          match invariants pre post reclass false noSkip with
          | some v => finish st o v
          | none =>
            let spec : Option String := (List.range pre.length).findSome? fun k =>
              let a := pre[k]!; let b := post[k]!
              if !(isSuit st k) then (if a == b then none else some s!"PROPFAIL C12 lethal_touched_unsuitable cell={k}")
              else if a.consistent then
                (if lethalSpec (decide (temps[k]! < thr)) a b then none else some s!"PROPFAIL C12 lethal cell={k} temp={temps[k]!} pre={showCell a} post={showCell b}")
              else none
            match spec with
            | some v => finish st o v
            | none =>
              let bad : Option String := (List.range pre.length).findSome? fun k =>
                let a := pre[k]!; let b := post[k]!
                if isSuit st k && decide (temps[k]! < thr) then
                  let d := subL a.mort b.mort
                  if a.i > 0 && !(validDrawB a.mort a.i d) then some s!"mortality-draw-invalid cell={k}"
                  else if a.removeAllInfected d != b then some s!"cell={k} model={showCell (a.removeAllInfected d)} observed={showCell b}"
                  else none
                else if a != b then some s!"cell={k} unchanged-expected"
                else none
              let draws := st.suit.map fun (r, c) => subL (pre[idx st r c]!).mort (post[idx st r c]!).mort
              finish st o (match bad with
                | some d => s!"MISMATCH hp.lethal {d}"
                | none => genReplay cmd { baseInputs st with lethalThreshold := thr, temperatures := temps, lethalDraws := draws } 0 .lethal pre post)
        | _, _ => (st, "BADLINE")
      -- Mortality action (apply at suitable cells, then age all cohorts): rate lag
      | "hp.mortality", [rate, lag] =>
        match parseRat? rate, parseInt? lag with
        | some rate, some lag =>
          let cls : Nat → Ledger := fun _ => .death
          if o.ret.any (·.startsWith "err:") then
            -- C03: mortality never fails on a consistent state
            let okPre := (List.range pre.length).all fun k => !(isSuit st k) || (pre[k]!).consistent
            let modelErr := st.suit.any fun (r, c) => match (pre[idx st r c]!).applyMortality rate lag with | .error _ => true | .ok _ => false
            (st, if okPre then s!"PROPFAIL C03 mortality_failed_on_consistent_state {o.ret}"
                 else if modelErr then "ok" else s!"MISMATCH hp.mortality model=ok observed={o.ret}")
          else
          match invariants pre post cls false (fun k => !(isSuit st k)) with
          | some v => finish st o v
          | none =>
            let spec : Option String := (List.range pre.length).findSome? fun k =>
              let a := pre[k]!; let b := post[k]!
              if isSuit st k && a.consistent && decide (0 ≤ rate) && decide (rate ≤ 1) && decide (0 ≤ lag) then
                (if mortalitySpec rate lag a b then
                    (if decide (b.died - a.died ≤ a.i) then none else some s!"PROPFAIL C02 died_exceeds_infected cell={k}")
                 else some s!"PROPFAIL C11 mortality cell={k} rate={rate} lag={lag} pre={showCell a} post={showCell b}")
              else none
            match spec with
            | some v => finish st o v
            | none =>
              let exp := (List.range pre.length).map fun k =>
                let a := pre[k]!
                let a1 := if isSuit st k then (match a.applyMortality rate lag with | .ok c' => c' | .error _ => a) else a
                a1.stepForwardMortality
              let v := cmpCells cmd exp post
              finish st o (if v == "ok" then genReplay cmd { baseInputs st with mortalityRate := rate, mortalityLag := lag } 0 .mortality pre post else v)
        | _, _ => (st, "BADLINE")
      -- step_forward(step) on all cells
      | "hp.stepfwd", [step] =>
        match parseNat? step with
        | some step =>
          match invariants pre post reclass false noSkip with
          | some v => finish st o v
          | none =>
            let spec : Option String := (List.range pre.length).findSome? fun k =>
              let a := pre[k]!; let b := post[k]!
              if st.mt == .si then (if a == b then none else some s!"PROPFAIL C05 si_changed cell={k}")
              else if step < st.latency && a.i != b.i then some s!"PROPFAIL C05 early_transition cell={k}"
              else if decide (a.e.length = st.latency + 1) && !(stepForwardSpec st.latency step a b) then
                -- C11_eventual_death counts on new infection entering the youngest mortality cohort
                some (s!"PROPFAIL C05 shift cell={k} step={step} pre={showCell a} post={showCell b}" ++
                  (if a.mort.dropLast != b.mort.dropLast then s!" ;; PROPFAIL C11 new_infection_not_in_youngest_cohort cell={k} step={step} pre={showCell a} post={showCell b}" else ""))
              else none
            match spec with
            | some v => finish st o v
            | none =>
              let v := cmpCells cmd (pre.map (Cell.stepForward st.mt st.latency step)) post
              finish st o (if v == "ok" then genReplay cmd (baseInputs st) step .stepForward pre post else v)
        | none => (st, "BADLINE")
      -- Treatments::manage(step): every treatment applied exactly at its start step, pesticides
      -- ended exactly at their end step, nothing else
      | "hp.manage", [stepTok] =>
        match parseNat? stepTok with
        | none => (st, "BADLINE")
        | some step =>
          if o.ret.any (·.startsWith "err:") then (st, s!"PROPFAIL C10 treatment_threw {o.ret}") else
          let events := st.treats.map fun t => (t, t.1.eventAt step)
          let anyEvent := events.any fun e => e.2 != .nothing
          let cls : Nat → Ledger := fun _ => .removal
          match invariants pre post cls true noSkip with
          | some v => finish st o v
          | none =>
            if !anyEvent && post != pre then finish st o s!"PROPFAIL C10 changed_without_scheduled_treatment step={step}"
            else if o.ret != ["-"] && o.ret != [if anyEvent then "1" else "0"] then finish st o s!"PROPFAIL C10 manage_reports_change step={step} ret={o.ret}"
            else
              -- replay in list order; remember whether a ratio treatment met the F20 region
              let (exp, f20) := events.foldl (fun (acc : List Cell × Bool) e =>
                let ((spec, app, coefs), ev) := e
                let cells := acc.1
                match ev with
                | .nothing => acc
                | .apply =>
                  let region := (List.range cells.length).any fun k =>
                    isSuit st k && app == .ratio && (cells[k]!).mortOK &&
                      !(roundingAgrees (if spec.pesticide then rfloor else rceil) coefs[k]! (cells[k]!))
                  ((mapSuit { st with cells := cells } fun k cell =>
                    let r := if spec.pesticide then cell.pesticideTreat coefs[k]! app else cell.simpleTreat coefs[k]! app
                    match r with | .ok c' => c' | .error _ => cell), acc.2 || region)
                | .finish => ((mapSuit { st with cells := cells } fun k cell => cell.pesticideEnd coefs[k]!), acc.2)) (pre, false)
              match firstDiff exp post with
              | some d => finish st o s!"MISMATCH hp.manage step={step} {d}"
              | none =>
                let broke := (List.range pre.length).findSome? fun k =>
                  if (pre[k]!).mortOK && !(post[k]!).mortOK then some k else none
                match broke with
                | some k => finish { st with tainted := true } o (if f20 then s!"KNOWN C03 F20 cell={k} step={step} through Treatments::manage" else s!"PROPFAIL C03 mortality_cohorts cell={k} step={step}")
                | none => finish st o "ok"
      -- generic per-action snapshot from the model hook: action step idx
      | "hp.after", [action, _step, _idx] =>
        if action == "treatments" then
          let cls : Nat → Ledger := fun _ => .removal
          match invariants pre post cls true noSkip with
          | some v => finish st o v
          | none =>
            let broke := (List.range pre.length).any fun k => (pre[k]!).mortOK && !(post[k]!).mortOK
            let st' := if broke then { st with tainted := true } else st
            finish st' o "ok"
        else
          -- soil ageing and the two measurements never change host rasters
          finish st o (if post == pre && o.suit == st.suit then "ok" else s!"PROPFAIL C09 {action}_changed_hosts")
      -- spread (generate + disperse) through the model with the injected kernel
      | "hp.spread", toks =>
        let get (key : String) : Option String := toks.findSome? (kv? · key)
        match get "det", (get "rr").bind parseRat?, get "soil", get "sto", (get "pest").bind parseRat?,
              (get "npop").bind intList?, get "w", (get "targets").bind (pairs? · ";"), segments obsToks with
        | some det, some rr, some soil, some sto, some pEst, some npop, some wTok, some targets, [_, _, _, dispT, estT, outT] =>
          match parseInts? dispT, parseInts? estT, outT.mapM pair? with
          | some dispO, some estO, some outO =>
            let g : Grid := { rows := st.rows, cols := st.cols }
            let w : Option (List Rat) := if wTok == "none" then none else ratList? wTok
            let soilPct : Option Rat := if soil == "none" then none else parseRat? soil
            let det := det == "1"
            let suitIdx := st.suit.map fun (r, c) => g.idx r c
            match invariants pre post reclass false noSkip with
            | some v => finish st o v
            | none =>
              let genModel := detGenerated g st.suit pre rr w
              -- C04 predicates on the observed rasters
              let p1 : Option String := (List.zip suitIdx genModel).findSome? fun (k, gm) =>
                let cell := pre[k]!
                if dispO[k]! < 0 || estO[k]! < 0 then some s!"PROPFAIL C02 nonneg dispersers cell={k} disp={dispO[k]!} established={estO[k]!}"
                else if cell.i ≤ 0 && dispO[k]! != 0 then some s!"PROPFAIL C04 dispersers_without_infection cell={k} disp={dispO[k]!}"
                else if det && soilPct.isNone && dispO[k]! != gm then some s!"PROPFAIL C04 deterministic_count cell={k} disp={dispO[k]!} expected={gm}"
                else if det && soilPct.isSome && gm > 0 && dispO[k]! != gm - lround (soilPct.get! * gm) then
                  some s!"PROPFAIL C04 soil_split cell={k} disp={dispO[k]!} generated={gm}"
                else if estO[k]! < 0 || estO[k]! > dispO[k]! then some s!"PROPFAIL C04 established_le_generated cell={k} est={estO[k]!} disp={dispO[k]!}"
                else none
              let totalDisp := sumL (suitIdx.map fun k => dispO[k]!)
              let sDrop := sumL ((List.range pre.length).map fun k => (pre[k]!).s - (post[k]!).s)
              let totalEst := sumL (suitIdx.map fun k => estO[k]!)
              let expOutside := targets.filter fun (r, c) => g.isOutside r c
              -- C05: in the SEI model arrivals become exposed (youngest cohort), never infected
              let pSei : Option String :=
                if st.mt == .sei then (List.range pre.length).findSome? fun k =>
                  let a := pre[k]!; let b := post[k]!
                  if a.e.isEmpty || arrivalsStayExposed a b then none
                  else some (s!"PROPFAIL C05 arrival_not_exposed cell={k} pre={showCell a} post={showCell b}" ++
                    -- C04: an established disperser turns one susceptible host into an EXPOSED host in the SEI model
                    s!" ;; PROPFAIL C04 established_host_not_exposed cell={k} pre={showCell a} post={showCell b}")
                else none
              let p2 : Option String :=
                if p1.isSome then p1
                else if pSei.isSome then pSei
                else if (targets.length : Int) != totalDisp then some s!"PROPFAIL C04 one_target_per_disperser targets={targets.length} dispersers={totalDisp}"
                else if outO != expOutside then some s!"PROPFAIL C04 outside_recorded observed={outO.length} expected={expOutside.length}"
                else if soilPct.isNone && sDrop != totalEst then some s!"PROPFAIL C04 ledger susceptible_consumed={sDrop} established={totalEst}"
                else if soilPct.isSome && sDrop < totalEst then some s!"PROPFAIL C04 ledger susceptible_consumed={sDrop} established={totalEst}"
                else none
              match p2 with
              | some v => finish st o v
              | none =>
                let st1 := { st with pest := { disp := dispO, est := estO, outside := st.pest.outside ++ outO } }
                if soilPct.isSome then finish st1 o "ok"
                else
                  -- exact replay: generated counts (observed when generation is stochastic), targets, uniforms
                  let gen := if det then genModel else suitIdx.map fun k => dispO[k]!
                  let (p0, _) := generateStep g st.suit gen none { st.pest with outside := [] }
                  let env : DisperseEnv := { mt := st.mt, stochastic := sto == "1", pEst := pEst, npop := npop, w := w }
                  match disperseStep g env st.suit pre p0 targets st.uniforms with
                  | .error e => finish st1 o s!"MISMATCH hp.spread model={errTok e}"
                  | .ok (cells', p', _, _) =>
                    if p'.disp != dispO then finish st1 o "MISMATCH hp.spread dispersers"
                    else if p'.est != estO then
                      -- with stochastic establishment off the decision is the deterministic rule of C12 itself
                      -- (suitability > 1 - establishment probability), on fully observed inputs
                      finish st1 o ((if sto != "1" then s!"PROPFAIL C12 deterministic_establishment established model={p'.est} observed={estO} pEst={pEst} ;; " else "") ++
                        s!"MISMATCH hp.spread established model={p'.est} observed={estO}")
                    else if p'.outside != outO then finish st1 o "MISMATCH hp.spread outside"
                    else finish st1 o (cmpCells cmd cells' post)
          | _, _, _ => (st, "BADLINE spread-obs")
        | _, _, _, _, _, _, _, _, _ => (st, "BADLINE spread")
      -- overpopulation through the model: threshold leaving drow dcol (deterministic neighbour kernel)
      | "hp.overpop", [thr, leave, drT, dcT] =>
        match parseRat? thr, parseRat? leave, segments obsToks with
        | some thr, some leave, [_, _, _, outT] =>
          match outT.mapM pair? with
          | none => (st, "BADLINE")
          | some outO =>
            let g : Grid := { rows := st.rows, cols := st.cols }
            match invariants pre post reclass true noSkip with
            | some v => finish st o v
            | none =>
              let departing := st.suit.filter fun (r, c) => departs thr (pre[g.idx r c]!)
              -- C17: cells that do not qualify keep their pests; a source loses round(i x share)
              let stay : Option String := (List.range pre.length).findSome? fun k =>
                let a := pre[k]!; let b := post[k]!
                let isDep := departing.any fun (r, c) => g.idx r c == k
                if !isDep && b.i < a.i then some s!"PROPFAIL C17 departure_rule cell={k} pre={showCell a} post={showCell b}" else none
              match stay with
              | some v => finish st o v
              | none =>
                match parseInt? drT, parseInt? dcT with
                | some dr, some dc =>
                  -- deterministic neighbour kernel: targets are known, exact replay
                  let targets := departing.map fun (r, c) => (r + dr, c + dc)
                  let expOut := (departing.zip targets).flatMap fun ((r, c), (tr, tc)) =>
                    if g.isOutside tr tc then List.replicate (leavingCount leave (pre[g.idx r c]!)).toNat (tr, tc) else []
                  if outO != expOut then finish st o s!"PROPFAIL C17 outside_recorded observed={outO.length} expected={expOut.length}"
                  else
                    let (cells', _, _) := overpopulationStep g st.suit pre { st.pest with outside := [] } thr leave targets
                    let v := cmpCells cmd cells' post
                    finish st o (if v == "ok" then genReplay cmd { baseInputs st with overThreshold := thr, overLeaving := leave, overTargets := targets } 0 .overpopulation pre post else v)
                | _, _ =>
                  -- uniform natural kernel: destinations are unknown but always inside the study area;
                  -- pests that leave either establish somewhere or vanish, none is recorded outside
                  let left := sumL (departing.map fun (r, c) => leavingCount leave (pre[g.idx r c]!))
                  let infectedBefore := sumL (pre.map (·.i))
                  let infectedAfter := sumL (post.map (·.i))
                  -- "D D": deterministic radial kernel (3x3 window): destinations are neighbours of the source or the
                  -- source itself; those beyond the edge are recorded with their real coordinates
                  if drT == "D" || drT == "R" then
                    -- "R R": stochastic radial kernel - any distance; only the bookkeeping is checked
                    let near (t : Int × Int) : Bool := drT == "R" || departing.any fun (r, c) => (t.1 - r).natAbs ≤ 1 && (t.2 - c).natAbs ≤ 1
                    if outO.any (fun t => !(g.isOutside t.1 t.2)) then finish st o s!"PROPFAIL C17 outside_recorded inside_cell_recorded_as_outside first={outO.head!}"
                    else if outO.any (fun t => !(near t)) then finish st o s!"PROPFAIL C17 overpopulation_kernel_scale destination_beyond_window {outO}"
                    else if (outO.length : Int) > left then finish st o s!"PROPFAIL C17 leaving_count recorded_outside={outO.length} left={left}"
                    else if infectedAfter > infectedBefore || infectedAfter < infectedBefore - left then
                      finish st o s!"PROPFAIL C17 leaving_count infected_before={infectedBefore} after={infectedAfter} left={left}"
                    else finish st o "ok"
                  else
                  if !outO.isEmpty then finish st o s!"PROPFAIL C17 uniform_destination_outside recorded={outO.length} first={outO.head!}"
                  else if infectedAfter > infectedBefore || infectedAfter < infectedBefore - left then
                    finish st o s!"PROPFAIL C17 leaving_count infected_before={infectedBefore} after={infectedAfter} left={left}"
                  else finish st o "ok"
        | _, _, _ => (st, "BADLINE")
      -- host movement through the model: step last sched:r1,c1,r2,c2,n ...  => newlast
      | "hp.movement", stepTok :: lastTok :: rowToks =>
        let rows? : Option (List (Nat × List Int)) := rowToks.mapM fun t =>
          match t.splitOn ":" with
          | [s, r] => do let s ← parseNat? s; let r ← intList? r; some (s, r)
          | _ => none
        match parseNat? stepTok, parseNat? lastTok, rows?, o.ret with
        | some step, some last, some rows, [newLast] =>
          let (apply, cursor) := movementRows (rows.map (·.1)) last step
          let total (l : List Cell) : Int := sumL (l.map Cell.hosts)
          if toString cursor ≠ newLast then finish st o s!"PROPFAIL C17 movement_once cursor={newLast} expected={cursor}"
          else if total post != total pre then finish st o s!"PROPFAIL C01 movement_relocates_only before={total pre} after={total post}"
          else if pre.all Cell.nonNeg && !(post.all Cell.nonNeg) then finish st o "PROPFAIL C02 nonneg movement"
          else if pre.all Cell.totalsOK && !(post.all Cell.totalsOK) then
            finish st o ("PROPFAIL C03 totals movement" ++
              (if pre.all (fun c => decide (c.te = sumL c.e)) && !(post.all fun c => decide (c.te = sumL c.e)) then
                 " ;; PROPFAIL C05 exposed_host_without_cohort movement (hosts move together with their cohort membership)" else ""))
          else if pre.all (fun c => c.mortOK && c.totalsOK) && !(post.all Cell.mortOK) then finish st o "PROPFAIL C03 mortality_cohorts movement"
          else
            match apply with
            | [] => finish st o (if post == pre && o.suit == st.suit then "ok" else "PROPFAIL C17 movement_without_scheduled_row")
            | [k] =>
              match (rows[k]!).2 with
              | [r1, c1, r2, c2, n] => finish st o (checkMove st pre post o.suit r1 c1 r2 c2 n none)
              | _ => (st, "BADLINE")
            | _ => finish st o "ok"
        | _, _, _, _ => (st, "BADLINE")
      | _, _ => (st, "BADLINE cmd")

end Pops.Driver.HostEng
