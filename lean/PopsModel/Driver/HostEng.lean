/-
  Driver engine for the host-pool family (C01-C05, C10-C12, C17): per operation line the engine
  (1) evaluates the ledger / non-negativity / totals predicates and the mechanism specification
      on the implementation's pre and post states (PROPFAIL),
  (2) recomputes the post state with the L1 model, random draws inferred from the observed
      difference and checked for validity, and compares exactly (MISMATCH).
  Verdict policy: every quantity that a property STATEMENT defines for the inputs of the line is
  judged by its definitional predicate on the observed pre / post states, one PROPFAIL per property
  whose statement contains the sentence, joined by " ;; " (all failing predicates, not only the
  first). MISMATCH is kept for what no property states: which cohort / individual a random draw
  takes, generator call counts, the moment the suitable-cell list is extended, cells outside the
  list, states outside the properties' domain (inconsistent cells, negative requests).
  Protocol (all cells of the landscape are listed on every line, row-major):
    hp.begin <SI|SEI> <latency> <rows> <cols>
    hp.state | <cells> | <suitable>
    hp.<op> <args> => <ret> | <cells> | <suitable>
  cell = s,i,r,te,th,died;e0,e1,..;m0,m1,..      suitable = r,c
-/
import PopsModel.Driver.Util
import PopsModel.Model.HostPred
import PopsModel.Model.SuitList
import PopsModel.Model.Treat
import PopsModel.Model.Actions
import PopsModel.Model.RunStep
import PopsModel.Model.Soil
namespace Pops.Driver.HostEng
open Pops Pops.Driver

structure State where
  mt : ModelType := .si
  latency : Nat := 0
  rows : Nat := 0
  cols : Nat := 0
  cells : List Cell := []
  suit : List (Int × Int) := []
  pest : PestState := { disp := [], est := [], outside := [] }
  cfg : StepCfg := default
  rasterEntry : Bool := false
  uniforms : List Rat := []
  tainted : Bool := false        -- a treatment broke i = sum(mort) earlier in this run (F20)
  soil : List Int := []          -- soil cohorts at the observed cell
  treats : List (TreatSpec × TreatApp × List Rat) := []   -- Treatments container (after clear_after_step)
  soilCells : List (List Int) := []   -- soil cohorts per cell after the previous model step
  stepStart : List Cell := []         -- host cells when the current model step began
  soilSent : List Int := []           -- per cell: dispersers handed to the soil by the spread of this model step (-1 = not determined)
  soilNoStore : Bool := false         -- deterministic establishment through Model: the soil tester is 1, nothing is stored
deriving Inhabited

def intList? (s : String) : Option (List Int) :=
  if s = "-" ∨ s = "" then some [] else (s.splitOn ",").mapM parseInt?

def cell? (tok : String) : Option Cell :=
  match tok.splitOn ";" with
  | [a, e, m] => do
    let h ← intList? a
    let e ← intList? e
    let m ← intList? m
    match h with
    | [s, i, r, te, th, died] => some { s, e, i, r, te, mort := m, died, th }
    | _ => none
  | _ => none

def pair? (tok : String) : Option (Int × Int) :=
  match tok.splitOn "," with
  | [a, b] => do let x ← parseInt? a; let y ← parseInt? b; some (x, y)
  | _ => none

/-- Split observed tokens at `|` into segments. -/
def segments (toks : List String) : List (List String) :=
  let rec go (cur : List String) (acc : List (List String)) : List String → List (List String)
    | [] => (cur.reverse :: acc).reverse
    | "|" :: rest => go [] (cur.reverse :: acc) rest
    | t :: rest => go (t :: cur) acc rest
  go [] [] toks

structure Obs where
  ret : List String
  cells : List Cell
  suit : List (Int × Int)

def obs? (toks : List String) : Option Obs :=
  match segments toks with
  | ret :: cs :: su :: _ => do
    let cells ← cs.mapM cell?
    let suit ← su.mapM pair?
    some { ret, cells, suit }
  | _ => none

def showCell (c : Cell) : String :=
  let l (x : List Int) := if x.isEmpty then "-" else ",".intercalate (x.map toString)
  s!"{c.s},{c.i},{c.r},{c.te},{c.th},{c.died};{l c.e};{l c.mort}"

def idx (st : State) (r c : Int) : Nat := (r * st.cols + c).toNat
def inside (st : State) (r c : Int) : Bool := decide (0 ≤ r) && decide (r < st.rows) && decide (0 ≤ c) && decide (c < st.cols)

/-- Generic invariants (C01 ledger by class, C02, C03) for every cell; `exemptMort` for the
    overpopulation moves, which are documented not to maintain the mortality cohorts. -/
def invariants (pre post : List Cell) (cls : Nat → Ledger) (exemptMort : Bool) (skipLedger : Nat → Bool) : Option String :=
  if pre.length ≠ post.length then some "BADLINE cells" else
  let cells := List.zip (List.range pre.length) (List.zip pre post)
  -- one verdict per predicate (its first failing cell), so that a line can be reported under every
  -- property it violates and not only under the first one tested
  let first (f : Nat → Cell → Cell → Option String) : Option String :=
    cells.findSome? fun (k, a, b) => f k a b
  let verdicts : List String := [
    first (fun k a b => if !(skipLedger k) && !(ledgerOK (cls k) a b) then
      some s!"PROPFAIL C01 ledger cell={k} pre={showCell a} post={showCell b}" else none),
    first (fun k a b => if a.nonNeg && !b.nonNeg then some s!"PROPFAIL C02 nonneg cell={k} pre={showCell a} post={showCell b}"
      else if a.nonNeg && a.totalsOK && a.infectedLeTotal && !b.infectedLeTotal then
        some s!"PROPFAIL C02 infected_le_total cell={k} post={showCell b}" else none),
    first (fun k a b => if a.totalsOK && !b.totalsOK then some s!"PROPFAIL C03 totals cell={k} pre={showCell a} post={showCell b}"
      else if !exemptMort && a.mortOK && !b.mortOK then some s!"PROPFAIL C03 mortality_cohorts cell={k} pre={showCell a} post={showCell b}" else none),
    -- C05: every exposed host sits in a cohort (a host counted as exposed but held by no cohort can never mature)
    first (fun k a b => if !a.e.isEmpty && decide (a.te = sumL a.e) && !decide (b.te = sumL b.e) then
      some s!"PROPFAIL C05 exposed_host_without_cohort cell={k} pre={showCell a} post={showCell b}" else none)
  ].filterMap id
  if verdicts.isEmpty then none else some (" ;; ".intercalate verdicts)

/-- All verdicts that are present, joined (one per property predicate that fails). -/
def joinVs (l : List (Option String)) : Option String :=
  match l.filterMap id with
  | [] => none
  | vs => some (" ;; ".intercalate vs)

def firstDiff (exp obs : List Cell) : Option String :=
  let rec go (k : Nat) : List Cell → List Cell → Option String
    | a :: as, b :: bs => if a == b then go (k + 1) as bs else some s!"cell={k} model={showCell a} observed={showCell b}"
    | [], [] => none
    | _, _ => some "length"
  go 0 exp obs

def cmpCells (what : String) (exp obs : List Cell) : String :=
  match firstDiff exp obs with
  | none => "ok"
  | some d => s!"MISMATCH {what} {d}"

def isSuit (st : State) (k : Nat) : Bool :=
  st.suit.any fun (r, c) => inside st r c && idx st r c == k

/-- Apply `f` to every suitable cell (in list order), other cells unchanged. -/
def mapSuit (st : State) (f : Nat → Cell → Cell) : List Cell :=
  st.suit.foldl (fun cells (r, c) =>
    if inside st r c then
      let k := idx st r c
      match cells[k]? with
      | some cell => cells.set k (f k cell)
      | none => cells
    else cells) st.cells

/-- C18 through the host pool: the infected sum over the maintained suitable-cell list still equals
    the sum of the infected raster (theorem `C18_sum_over_suitable_list`); judged only when it held
    before the operation. -/
def listSumVerdict (st : State) (o : Obs) : Option String :=
  let infOf (cells : List Cell) : Nat → Int := fun k => (cells[k]!).i
  let toIdx (suit : List (Int × Int)) : List Nat := suit.map fun (r, c) => idx st r c
  let before := infectedOverList (infOf st.cells) (toIdx st.suit) == infectedOverRaster (infOf st.cells) st.cells.length
  let l := infectedOverList (infOf o.cells) (toIdx o.suit)
  let r := infectedOverRaster (infOf o.cells) o.cells.length
  if before && l != r then some s!"PROPFAIL C18 infected_sum_over_suitable_cells list_sum={l} raster_sum={r} suitable={o.suit}" else none

def finish (st : State) (o : Obs) (verdict : String) : State × String :=
  let v := match listSumVerdict st o with
    | none => verdict
    | some c18 => if verdict == "ok" then c18 else verdict ++ " ;; " ++ c18
  ({ st with cells := o.cells, suit := o.suit }, v)

def ratsFor (st : State) (toks : List String) : Option (List Rat) := do
  let l ← parseRats? toks
  if l.length = st.rows * st.cols then some l else none


/-- Property verdicts of one host move that only need the cells (C01 ledger, C02, C03, C05, C17 amount,
    C17 / C02 draw without replacement, C17 class and cohort membership) - every failing predicate is
    reported, not only the first. `ret` is the returned count when the caller observes it. -/
def moveCellVerdicts (st : State) (pre post : List Cell) (r1 c1 r2 c2 cnt : Int) (ret : Option String) : List String :=
  let a := idx st r1 c1
  let b := idx st r2 c2
  let src := pre[a]!
  let dst := pre[b]!
  let src' := post[a]!
  let dst' := post[b]!
  let amount := min cnt src.hosts
  let retV : List (Option String) := [
    if src.consistent && ret.isSome && ret != some (toString amount) then
      some s!"PROPFAIL C17 move_amount ret={ret} expected={amount}" else none,
    -- C02: hosts taken out of a cell never exceed what the cell contained
    match ret.bind parseInt? with
    | some k => if src.consistent && decide (k > src.hosts) then some s!"PROPFAIL C02 taken_le_present move ret={k} present={src.hosts}" else none
    | none => none]
  let others := (List.range pre.length).all fun k => k == a || k == b || pre[k]! == post[k]!
  let othersV := if !others then some "PROPFAIL C17 move_touched_other_cells" else none
  if a == b then
    -- a move from a cell to itself relocates nothing: every class and cohort count stays
    ([othersV,
      if !(decide (src'.hosts = src.hosts) && decide (src'.died = src.died)) then
        some s!"PROPFAIL C01 move_ledger same cell pre={showCell src} post={showCell src'}" else none,
      if src.nonNeg && !src'.nonNeg then some s!"PROPFAIL C02 nonneg move same cell post={showCell src'}" else none,
      if src.totalsOK && !src'.totalsOK then some s!"PROPFAIL C03 totals move same cell pre={showCell src} post={showCell src'}" else none,
      if src.mortOK && src.totalsOK && src'.totalsOK && !src'.mortOK then some s!"PROPFAIL C03 mortality_cohorts move same cell post={showCell src'}" else none,
      if src' != src then some s!"PROPFAIL C17 move_same_cell_changed pre={showCell src} post={showCell src'}" else none] ++ retV).filterMap id
  else
    let totalsBroke := src.totalsOK && dst.totalsOK && !(src'.totalsOK && dst'.totalsOK)
    let inDom := src.nonNeg && dst.nonNeg && src.totalsOK && src.e.length == dst.e.length && src.mort.length == dst.mort.length
    ([othersV,
      if !(moveLedgerOK src dst src' dst') then
        some s!"PROPFAIL C01 move_ledger src={showCell src} dst={showCell dst} src'={showCell src'} dst'={showCell dst'}" else none,
      if src.nonNeg && dst.nonNeg && !(src'.nonNeg && dst'.nonNeg) then
        some s!"PROPFAIL C02 nonneg move src'={showCell src'} dst'={showCell dst'}" else none,
      if totalsBroke then some s!"PROPFAIL C03 totals move src'={showCell src'} dst'={showCell dst'}" else none,
      -- C05: hosts move together with their cohort membership; an exposed host without a cohort never matures
      if totalsBroke && !(decide (src'.te = sumL src'.e) && decide (dst'.te = sumL dst'.e)) then
        some s!"PROPFAIL C05 exposed_host_without_cohort move src'={showCell src'} dst'={showCell dst'}" else none,
      if !totalsBroke && src.mortOK && dst.mortOK && src.totalsOK && !(src'.mortOK && dst'.mortOK) then
        some s!"PROPFAIL C03 mortality_cohorts move src'={showCell src'} dst'={showCell dst'}" else none] ++ retV ++ [
      if src.consistent && decide (src.hosts - src'.hosts ≠ amount) then
        some (s!"PROPFAIL C17 move_amount hosts_left={src.hosts - src'.hosts} expected={amount}" ++
          (if decide (src.hosts - src'.hosts > src.hosts) then s!" ;; PROPFAIL C02 taken_le_present move hosts_left={src.hosts - src'.hosts} present={src.hosts}" else ""))
      else none,
      -- C17: drawn without replacement from the source's classes (C02: never more than the class held)
      if inDom && !(moveDrawnFromSource src src') then
        some s!"PROPFAIL C17 move_drawn_from_source src={showCell src} src'={showCell src'}" else none,
      -- C17: with their class and cohort membership, to the destination (conclusion of C17_movement_amount)
      if inDom && !(moveMembershipOK src dst src' dst') then
        some s!"PROPFAIL C17 move_membership src={showCell src} dst={showCell dst} src'={showCell src'} dst'={showCell dst'}" else none]).filterMap id

/-- C17 on the suitable-cell list after one host move: the destination joins the list (once). -/
def moveSuitVerdicts (st : State) (pre : List Cell) (obsSuit : List (Int × Int)) (r1 c1 r2 c2 cnt : Int) : List String :=
  let a := idx st r1 c1
  let b := idx st r2 c2
  let src := pre[a]!
  ([if a != b && src.consistent && !(obsSuit.contains (r2, c2)) && decide (min cnt src.hosts > 0) then
      some "PROPFAIL C17 target_not_suitable" else none,
    -- nothing but the destination joins, and it is not listed twice
    if !(obsSuit == st.suit || (obsSuit == st.suit ++ [(r2, c2)] && !(st.suit.contains (r2, c2)))) then
      some s!"PROPFAIL C17 suitable_list before={st.suit} after={obsSuit} destination={r2},{c2}" else none]).filterMap id

/-- Exact replay of one host move with the draws inferred from the observed difference; what is left
    to it after the property verdicts is which individuals a random draw takes (implementation detail)
    and WHEN the list is extended (the code appends only when the target held no host). -/
def moveReplay (st : State) (pre post : List Cell) (obsSuit : List (Int × Int))
    (r1 c1 r2 c2 cnt : Int) (ret : Option String) : String :=
  let a := idx st r1 c1
  let b := idx st r2 c2
  let src := pre[a]!
  let dst := pre[b]!
  let src' := post[a]!
  let expSuit := if dst.th == 0 && !(st.suit.contains (r2, c2)) then st.suit ++ [(r2, c2)] else st.suit
  if a == b then (if obsSuit == expSuit then "ok" else "MISMATCH hp.move suitable")
  else
    let d : ClassDraw := { i := src.i - src'.i, s := src.s - src'.s, e := src.te - src'.te, r := src.r - src'.r }
    let drawE := subL src.e src'.e
    let drawM := subL src.mort src'.mort
    if !(validClassDrawB src cnt d) then s!"MISMATCH hp.move class-draw-invalid i={d.i} s={d.s} e={d.e} r={d.r}"
    else if d.e > 0 && !(validDrawB src.e d.e drawE) then "MISMATCH hp.move exposed-draw-invalid"
    else if d.i > 0 && !(validDrawB src.mort d.i drawM) then "MISMATCH hp.move mortality-draw-invalid"
    else
      let (ms, md, moved) := moveHosts src dst cnt d drawE drawM
      if ret.isSome && ret != some (toString moved) then s!"MISMATCH hp.move ret model={moved}"
      else if obsSuit != expSuit then "MISMATCH hp.move suitable"
      else cmpCells "hp.move" ((pre.set a ms).set b md) post

/-- Checks of one host move: property verdicts first (all that fail), exact replay when none fails. -/
def checkMove (st : State) (pre post : List Cell) (obsSuit : List (Int × Int))
    (r1 c1 r2 c2 cnt : Int) (ret : Option String) : String :=
  match moveCellVerdicts st pre post r1 c1 r2 c2 cnt ret ++ moveSuitVerdicts st pre obsSuit r1 c1 r2 c2 cnt with
  | [] => moveReplay st pre post obsSuit r1 c1 r2 c2 cnt ret
  | vs => " ;; ".intercalate vs

/-- Step inputs with neutral defaults; the handlers fill in the fields of the action they replay. -/
def baseInputs (st : State) : StepInputs :=
  { g := { rows := st.rows, cols := st.cols }, mt := st.mt, latency := st.latency, suit := st.suit,
    lethalThreshold := 0, temperatures := [], lethalDraws := [], survivalRates := [], survivalDrawsI := [],
    survivalDrawsE := [], landings := [], stochasticEst := false, pEst := 0, overThreshold := 0, overLeaving := 0,
    overTargets := [], moves := [], treatEvents := [], mortalityRate := 0, mortalityLag := 0 }

/-- Replay one action through the generator `run_step` is composed of (Model/RunStep.lean) and
    compare with the observed cells: this ties `actionGen`, on which C01_model_step and C09_compose
    are stated, to the code action by action. -/
def genReplay (what : String) (inp : StepInputs) (step : Nat) (a : ActionKind) (pre post : List Cell) : String :=
  match runOps (actionGen inp step a pre) pre with
  | .error e => s!"MISMATCH {what} generator model={errTok e}"
  | .ok exp =>
    match firstDiff exp post with
    | none => "ok"
    | some d => s!"MISMATCH {what} generator {d}"

/-- `name=value` token. -/
def kv? (tok : String) (key : String) : Option String :=
  if tok.startsWith (key ++ "=") then some (tok.drop (key.length + 1)).toString else none

def flagSched? (v : String) : Option (Bool × List Bool) :=
  match v.splitOn ":" with
  | [f, b] => some (f == "1", if b == "-" then [] else parseBits b)
  | _ => none

def pairs? (s : String) (sep : String) : Option (List (Int × Int)) :=
  if s = "-" ∨ s = "" then some [] else (s.splitOn sep).mapM pair?

def ratList? (s : String) : Option (List Rat) := (s.splitOn ",").mapM parseRat?

def kindOfName (n : String) : Option ActionKind :=
  documentedOrder.find? fun k => k.name == n

/-- `name:idx,name:idx` -/
def trace? (s : String) : Option (List (ActionKind × Int)) :=
  if s = "-" then some [] else (s.splitOn ",").mapM fun t =>
    match t.splitOn ":" with
    | [n, i] => do let k ← kindOfName n; let i ← parseInt? i; some (k, i)
    | _ => none

/-- `hp.plan <step> => <status> <trace>`: the observed action trace against the plan (C09). -/
def planVerdict (st : State) (stepTok : String) (obsToks : List String) : State × String :=
    match parseNat? stepTok, obsToks with
    | some step, [status, tr] =>
      match trace? tr with
      | none => (st, "BADLINE trace")
      | some observed =>
        let expected := plan st.cfg step
        let expKinds := expected.map (·.1)
        let obsKinds := observed.map (·.1)
        if status ≠ "ok" then
          -- the step threw: mortality through the raster entry point is the open finding F18;
          -- mortality failing after a rounding-inconsistent treatment is the downstream face of F20
          let mortNext := expKinds.contains .mortality && !(obsKinds.contains .mortality) &&
            obsKinds == expKinds.takeWhile (· != .mortality)
          let rateNext := expKinds.contains .spreadRate && !(obsKinds.contains .spreadRate) &&
            obsKinds == expKinds.takeWhile (· != .spreadRate)
          if rateNext && st.rasterEntry && status == "err:out_of_range" then
            (st, s!"KNOWN C09 F26 step={step} raster entry point with use_spreadrates threw {status} at the spread-rate measurement")
          else if mortNext && st.rasterEntry && status == "err:invalid_argument" then
            (st, s!"KNOWN C09 F18 step={step} raster entry point with use_mortality threw {status}")
          else if mortNext && st.tainted && status == "err:runtime_error" then
            (st, s!"KNOWN C03 F20 step={step} mortality failed after a treatment whose per-cohort rounding broke i = sum(mort)")
          else (st, s!"PROPFAIL C09 step_threw step={step} {status} trace={tr}")
        else
          -- C09: exactly the enabled and scheduled actions, in the documented order, with the index of the firing
          let orderOK := obsKinds == documentedOrder.filter (obsKinds.contains ·) && obsKinds.eraseDups == obsKinds
          let iffOK := documentedOrder.all fun k => obsKinds.contains k == st.cfg.runs step k
          let idxOK := observed.all fun (k, i) => match st.cfg.inputIndex step k with | some j => i == (j : Int) | none => true
          let treatDue := st.cfg.useTreatments && st.treats.any fun t => t.1.eventAt step != .nothing
          -- one verdict per property: a due treatment that did not run is C10's sentence, the trace is C09's
          let c10 : Option String :=
            if treatDue && !(obsKinds.contains .treatments) then some s!"PROPFAIL C10 treatment_not_applied_at_its_step step={step} trace={tr}" else none
          let c09 : Option String :=
            if !orderOK then some s!"PROPFAIL C09 order step={step} trace={tr}"
            else if !iffOK then some s!"PROPFAIL C09 enabled_and_scheduled step={step} trace={tr} expected={expKinds.map ActionKind.name}"
            else if !idxOK then some s!"PROPFAIL C09 input_index step={step} trace={tr}"
            else none
          match joinVs [c10, c09] with
          | some v => (st, v)
          | none =>
            -- unreachable once the three C09 predicates hold (they determine the kinds); kept as a guard of `plan`
            if obsKinds != expKinds then (st, s!"MISMATCH hp.plan model={expKinds.map ActionKind.name}")
            else (st, "ok")
    | _, _ => (st, "BADLINE")

/-- All orders of a short list (fuel = its length). -/
def permsFuel {α : Type} : Nat → List α → List (List α)
  | 0, _ => [[]]
  | _, [] => [[]]
  | n + 1, l => (List.range l.length).flatMap fun i =>
      match l[i]? with
      | some x => (permsFuel n (l.eraseIdx i)).map (x :: ·)
      | none => []

/-- The effect of one due treatment event on the landscape (the model of `Treatments::manage` for one entry). -/
def applyTreatEvent (st : State) (cells : List Cell) (t : TreatSpec × TreatApp × List Rat) (ev : TreatEvent) : List Cell :=
  let (spec, app, coefs) := t
  match ev with
  | .nothing => cells
  | .apply =>
    mapSuit { st with cells := cells } fun k cell =>
      let r := if spec.pesticide then cell.pesticideTreat coefs[k]! app else cell.simpleTreat coefs[k]! app
      match r with | .ok c' => c' | .error _ => cell
  | .finish => mapSuit { st with cells := cells } fun k cell => cell.pesticideEnd coefs[k]!

def handle (st : State) (cmd : String) (inp obsToks : List String) : State × String :=
  match cmd, inp with
  | "hp.begin", [mt, lat, rows, cols] =>
    match modelTypeFromString mt, parseNat? lat, parseNat? rows, parseNat? cols with
    | .ok mt, some l, some r, some c =>
      let z := List.replicate (r * c) (0 : Int)
      ({ st with mt := mt, latency := l, rows := r, cols := c, cells := [], suit := [], tainted := false, uniforms := [], soilCells := [], treats := [],
                 pest := { disp := z, est := z, outside := [] } }, "ok")
    | _, _, _, _ => (st, "BADLINE")
  | "hp.state", [] =>
    match obs? obsToks with
    | some o => let (st', v) := finish st o "ok"; ({ st' with stepStart := o.cells }, v)
    | none => (st, "BADLINE")
  -- Treatments container: hp.treatlist clear_at kind:app:start:end,coef,coef.. ...
  | "hp.treatlist", clearTok :: items =>
    let parsed : Option (List (TreatSpec × TreatApp × List Rat)) := items.mapM fun it =>
      match it.splitOn ":" with
      | [kind, app, s0, rest] =>
        match rest.splitOn "," with
        | s1 :: coefs => do
          let a ← (treatAppFromString app).toOption
          let s0 ← parseNat? s0; let s1 ← parseNat? s1
          let cs ← coefs.mapM parseRat?
          some ({ pesticide := kind == "pesticide", start := s0, end_ := s1 }, a, cs)
        | _ => none
      | _ => none
    match parseInt? clearTok, parsed with
    | some cl, some l =>
      -- clear_after_step removes the treatments whose start lies after the step
      let kept := if cl < 0 then l else
        let keptSpecs := clearAfterStep (l.map (·.1)) cl.toNat
        l.filter fun t => keptSpecs.contains t.1 && decide (t.1.start ≤ cl.toNat)
      ({ st with treats := kept }, "ok")
    | _, _ => (st, "BADLINE")
  -- SoilPool at one cell: hp.soil.init => c0,c1,..
  | "hp.soil.init", [] =>
    match obsToks with
    | [c] => match intList? c with | some l => ({ st with soil := l }, "ok") | none => (st, "BADLINE")
    | _ => (st, "BADLINE")
  -- hp.soil.to sto pEst w u1,u2,.. => cohorts
  | "hp.soil.to", [sto, pEst, w, us] =>
    match parseRat? pEst, parseRat? w, (if us = "-" then some [] else ratList? us), obsToks with
    | some pEst, some w, some us, [c] =>
      match intList? c with
      | some post =>
        let exp := us.foldl (fun l u => soilDisperserTo l w (sto == "1") pEst u) st.soil
        let st' := { st with soil := post }
        if post.any (· < 0) then (st', "PROPFAIL C02 nonneg soil_cohorts")
        else if sumL post - sumL st.soil > us.length || sumL post < sumL st.soil then (st', s!"PROPFAIL C04 soil_share stored={sumL post - sumL st.soil} sent={us.length}")
        -- C04 (ageing out after the configured number of steps): what is stored enters the YOUNGEST cohort,
        -- an older cohort would age out early
        else if post.dropLast != st.soil.dropLast then (st', s!"PROPFAIL C04 soil_stored_in_youngest_cohort before={st.soil} after={post}")
        -- how many of the dispersers sent establish in the soil (tester below the weather coefficient) is
        -- stated by no property (C12's rule is about host cells): model comparison only
        else (st', if exp == post then "ok" else s!"MISMATCH hp.soil.to model={exp}")
      | none => (st, "BADLINE")
    | _, _, _, _ => (st, "BADLINE")
  -- hp.soil.from det w => ret | cohorts
  | "hp.soil.from", [det, w] =>
    match parseRat? w, segments obsToks with
    | some w, [[ret], [c]] =>
      match parseInt? ret, intList? c with
      | some ret, some post =>
        let pre := st.soil
        let st' := { st with soil := post }
        let total := sumL pre
        let draw := subL pre post
        if post.any (· < 0) then (st', "PROPFAIL C02 nonneg soil_cohorts")
        else if ret < 0 then (st', "PROPFAIL C02 nonneg soil_release")
        else if ret > total then
          (st', if det == "0" then s!"KNOWN C02 F22 released={ret} stored={total}" else s!"PROPFAIL C02 taken_le_present soil released={ret} stored={total}")
        else if det == "1" && ret != soilReleaseDet pre w then (st', s!"PROPFAIL C04 soil_release_det ret={ret} expected={soilReleaseDet pre w}")
        -- C04 (accounted for exactly once): the dispersers released are exactly what the cohorts lose, and no
        -- cohort grows (here 0 <= ret <= stored and no cohort is negative, so an invalid draw is an accounting error)
        else if !(validDrawB pre ret draw) then (st', s!"PROPFAIL C04 soil_release_accounted released={ret} cohorts_before={pre} after={post}")
        else (st', if soilRelease pre draw == post then "ok" else "MISMATCH hp.soil.from")
      | _, _ => (st, "BADLINE")
    | _, _ => (st, "BADLINE")
  | "hp.soil.next", [] =>
    match obsToks with
    | [c] =>
      match intList? c with
      | some post =>
        let exp := soilNext st.soil
        ({ st with soil := post }, if exp == post then "ok" else s!"PROPFAIL C04 soil_ageing expected={exp} observed={post}")
      | none => (st, "BADLINE")
    | _ => (st, "BADLINE")
  -- soil cohorts of every cell after a model step: hp.soilstate step spread? => c0,c1 c0,c1 ...
  | "hp.soilstate", [_stepTok, spreadTok] =>
    match obsToks.mapM intList? with
    | none => (st, "BADLINE")
    | some cur =>
      let st' := { st with soilCells := cur }
      if st.soilCells.isEmpty then (st', "ok")
      else
        -- C04: soil cohorts age by one position per model step and the youngest is cleared; in a
        -- step without spread nothing is stored or released, in a spread step older cohorts can only shrink
        let bad := (List.zip st.soilCells cur).findSome? fun (prev, now) =>
          let aged := soilNext prev
          if now.any (· < 0) then some "PROPFAIL C02 nonneg soil_cohorts"
          else if spreadTok == "0" && now != aged then
            some (s!"PROPFAIL C04 soil_ageing previous={prev} now={now} expected={aged}" ++
              -- C09: soil ageing is the first action of every step when soils are active
              (if now == prev then s!" ;; PROPFAIL C09 soil_ageing_not_performed previous={prev} now={now}" else ""))
          else if spreadTok == "1" && (List.zip now.dropLast aged.dropLast).any (fun (a, b) => a > b) then
            some s!"PROPFAIL C04 soil_ageing previous={prev} now={now} aged={aged}"
          else none
        -- C04 (C04_soil_arrivals, C04_soil_disperser_once): after a spread step the youngest cohort of a cell holds
        -- at most what that cell's soil was handed in this step - the soil share of ITS generated dispersers
        let bad2 : Option String :=
          if spreadTok != "1" || st.soilSent.length != cur.length then none else
          (List.zip (List.range cur.length) (List.zip st.soilSent cur)).findSome? fun (k, sent, now) =>
            let youngest := now.getLast?.getD 0
            if sent ≥ 0 && youngest > sent then
              some s!"PROPFAIL C04 soil_stored_more_than_sent cell={k} youngest_cohort={youngest} handed_to_soil={sent}"
            else if st.soilNoStore && youngest != 0 then
              some s!"MISMATCH hp.soilstate cell={k} stored={youngest} with deterministic establishment (model: tester 1, nothing stored)"
            else none
        ({ st' with soilSent := [] }, (joinVs [bad, bad2]).getD "ok")
  -- differential run SI vs SEI with latency 0 (whole Model runs compared by the harness)
  | "hp.l0", [_n] =>
    (st, if obsToks.head? == some "equal" then "ok" else s!"PROPFAIL C05 L0_differs_from_SI {" ".intercalate (obsToks.take 40)}")
  | "hp.uniforms", [us] =>
    match (us.splitOn ",").mapM parseInt? with
    | some l => ({ st with uniforms := l.map fun k => mkRat k 1048576 }, "ok")
    | none => (st, "BADLINE")
  | "hp.cfg", toks =>
    let get (key : String) : Option String := toks.findSome? (kv? · key)
    match get "entry", get "soils", (get "lethal").bind flagSched?, (get "survival").bind flagSched?, get "spread", get "overpop",
          get "movements", get "treatments", (get "mortality").bind flagSched?, (get "rates").bind flagSched?, (get "quarantine").bind flagSched? with
    | some entry, some soils, some (useL, schL), some (useS, schS), some sp, some ov, some mv, some tr, some (useM, schM), some (useR, schR), some (useQ, schQ) =>
      let cfg : StepCfg := {
        soils := soils == "1", useLethal := useL, lethalSched := schL, useSurvival := useS, survivalSched := schS,
        spreadSched := parseBits sp, useOverpop := ov == "1", useMovements := mv == "1", useTreatments := tr == "1",
        useMortality := useM, mortalitySched := schM, useSpreadRates := useR, rateSched := schR, useQuarantine := useQ, quarantineSched := schQ }
      ({ st with cfg := cfg, rasterEntry := entry == "rasters" }, "ok")
    | _, _, _, _, _, _, _, _, _, _, _ => (st, "BADLINE cfg")
  -- utils.hpp find_suitable_cells (one raster / several rasters): cells with a positive value, row-major
  | "hp.findsuit", rowsTok :: colsTok :: rest =>
    match parseNat? rowsTok, parseNat? colsTok, segments rest, segments obsToks with
    | some rows, some cols, [_, aT, bT], [_, oneT, bothT] =>
      match parseInts? aT, parseInts? bT, oneT.mapM pair?, bothT.mapM pair? with
      | some a, some b, some one, some both =>
        let cellsOf (f : Nat → Bool) : List (Int × Int) :=
          (List.range (rows * cols)).filterMap fun k => if f k then some (((k / cols : Nat) : Int), ((k % cols : Nat) : Int)) else none
        let e1 := cellsOf fun k => decide (a[k]! > 0)
        let e2 := cellsOf fun k => decide (a[k]! > 0) || decide (b[k]! > 0)
        (st, if one != e1 then s!"MISMATCH hp.findsuit one-raster model={e1}"
             else if both != e2 then s!"MISMATCH hp.findsuit several-rasters model={e2}" else "ok")
      | _, _, _, _ => (st, "BADLINE")
    | _, _, _, _ => (st, "BADLINE")
  | "hp.plan", [stepTok] =>
    -- C05, state-based and independent of the trace: in a step that is not a spread step no exposed
    -- cohort ages and nothing matures (the step began with `stepStart`, it ends with `cells`)
    let offSeason : Option String :=
      match parseNat? stepTok, obsToks with
      | some step, "ok" :: _ =>
        if st.mt == .sei && !(schedAt st.cfg.spreadSched step) && !st.stepStart.isEmpty && !(offSeasonFrame st.stepStart st.cells) then
          let k := ((List.range st.cells.length).find? fun k => !(exposedFrozen st.stepStart[k]! st.cells[k]!)).getD 0
          some s!"PROPFAIL C05 cohorts_aged_outside_spread_step step={step} cell={k} start={showCell st.stepStart[k]!} end={showCell st.cells[k]!}"
        else none
      | _, _ => none
    let (stp, vp) := planVerdict st stepTok obsToks
    ({ stp with stepStart := stp.cells },
     match offSeason with
     | none => vp
     | some v => if vp == "ok" then v else vp ++ " ;; " ++ v)
  | _, _ =>
    match obs? obsToks with
    | none => (st, "BADLINE obs")
    | some o =>
      let pre := st.cells
      let post := o.cells
      if post.length ≠ pre.length then (st, "BADLINE cellcount") else
      let reclass : Nat → Ledger := fun _ => .reclassify
      let noSkip : Nat → Bool := fun _ => false
      match cmd, inp with
      -- add_disperser_at r c
      | "hp.add", [r, c] =>
        match parseInt? r, parseInt? c, o.ret with
        | some r, some c, [ret] =>
          let k := idx st r c
          let a := pre[k]!; let b := post[k]!
          -- C04 / C12 on the observed result: an accepted disperser turns exactly one susceptible host of the
          -- cell into an infected (SI) / exposed (SEI) host, a refused one changes nothing; never without a
          -- susceptible host
          let spec : Option String :=
            match parseInt? ret with
            | none => none
            | some res => joinVs [
                if decide (a.s ≤ 0) && res != 0 then some s!"PROPFAIL C12 established_without_susceptible cell={k} ret={res} pre={showCell a}" else none,
                if (res == 0 || res == 1) && !(landingSpec st.mt a b res) then
                  some s!"PROPFAIL C04 landing cell={k} ret={res} pre={showCell a} post={showCell b}" else none,
                if st.mt == .sei && res == 1 && !a.e.isEmpty && !(arrivalsStayExposed a b) then
                  some s!"PROPFAIL C05 arrival_not_exposed cell={k} pre={showCell a} post={showCell b}" else none]
          match joinVs [invariants pre post reclass false noSkip, spec] with
          | some v => finish st o v
          | none =>
            let (c', res) := a.addDisperserAt st.mt
            -- whether the primitive accepts when a susceptible host is present is its contract, not a property
            if toString res ≠ ret then finish st o s!"MISMATCH hp.add ret model={res}"
            else finish st o (cmpCells cmd (pre.set k c') post)
        | _, _, _ => (st, "BADLINE")
      -- disperser_to r c stochastic pEst u N w sus
      | "hp.dispto", [r, c, sto, pEst, u, n, w, sus] =>
        match parseInt? r, parseInt? c, parseRat? pEst, parseRat? u, parseInt? n with
        | some r, some c, some pEst, some u, some n =>
          let k := idx st r c
          let env : EnvCell := { n := n, w := if w = "none" then none else parseRat? w, sus := if sus = "none" then none else parseRat? sus }
          let sto := sto = "1"
          let cell := pre[k]!
          let model := cell.disperserTo st.mt env sto pEst u
          match o.ret with
          | [ret] =>
            if ret.startsWith "err:" then
              match model with
              | .error e => (st, if ret = errTok e then "ok" else s!"MISMATCH hp.dispto model={errTok e}")
              | .ok _ =>
                -- C16/C12: suitability outside [0,1] must be rejected, anything else must not throw
                (st, s!"MISMATCH hp.dispto model=ok observed={ret}")
            else
                match parseInt? ret with
                | none => (st, "BADLINE")
                | some res =>
                  -- property predicates on the observed result (domain: N > 0, factors in [0,1])
                  let inDomain := decide (n > 0) && decide (cell.s ≤ n)
                  let spec := joinVs [
                    invariants pre post reclass false noSkip,
                    if inDomain && !(establishSpec cell env sto pEst u res) then
                      some s!"PROPFAIL C12 establish_event s={cell.s} N={n} ret={res}" else none,
                    if !(landingSpec st.mt cell (post[k]!) res) then
                      some s!"PROPFAIL C04 landing cell={k} ret={res} pre={showCell cell} post={showCell (post[k]!)}" else none,
                    if st.mt == .sei && res == 1 && !cell.e.isEmpty && !(arrivalsStayExposed cell (post[k]!)) then
                      some s!"PROPFAIL C05 arrival_not_exposed cell={k} pre={showCell cell} post={showCell (post[k]!)}" else none]
                  match spec with
                  | some v => finish st o v
                  | none =>
                    match model with
                    | .error e => finish st o s!"MISMATCH hp.dispto model={errTok e}"
                    | .ok (c', mres, _) =>
                      if mres ≠ res then finish st o s!"MISMATCH hp.dispto ret model={mres}"
                      else finish st o (cmpCells cmd (pre.set k c') post)
          | _ => (st, "BADLINE")
        | _, _, _, _, _ => (st, "BADLINE")
      -- deterministic dispersers_from r c lambda
      | "hp.dispfrom", [r, c, lam] =>
        match parseInt? r, parseInt? c, parseRat? lam, o.ret with
        | some r, some c, some lam, [ret] =>
          let cell := pre[idx st r c]!
          let m := cell.dispersersFromDet lam
          if cell.i ≤ 0 && ret ≠ "0" then finish st o "PROPFAIL C04 dispersers_without_infection"
          else if post != pre then finish st o "PROPFAIL C04 generation_changed_hosts"
          -- C04: with stochastic generation off the cell produces round(infected x rate x weather) (C04_generation)
          else if toString m ≠ ret && (parseInt? ret).isSome then
            finish st o s!"PROPFAIL C04 deterministic_count cell={idx st r c} dispersers={ret} expected={m} infected={cell.i} lambda={lam}"
          else finish st o (if toString m = ret then "ok" else s!"MISMATCH hp.dispfrom model={m}")
        | _, _, _, _ => (st, "BADLINE")
      -- pests_from / pests_to r c k  (overpopulation primitives; mortality cohorts exempt)
      | "hp.pestsfrom", [r, c, kk] =>
        match parseInt? r, parseInt? c, parseInt? kk, o.ret with
        | some r, some c, some kk, [ret] =>
          let k := idx st r c
          let a := pre[k]!; let b := post[k]!
          -- C17 (C17_leaving): the pests that leave are the count asked for (never more than the infected
          -- present, C02) and the source's infected turn susceptible
          let leaving : Option String :=
            if decide (0 ≤ kk) && decide (kk ≤ a.i) then joinVs [
              if ret ≠ toString kk || b.i != a.i - kk || b.s != a.s + kk then
                some s!"PROPFAIL C17 source_infected_turn_susceptible cell={k} count={kk} ret={ret} pre={showCell a} post={showCell b}" else none,
              match parseInt? ret with
              | some r => if decide (r > a.i) then some s!"PROPFAIL C02 taken_le_present pests_from ret={r} infected={a.i}" else none
              | none => none]
            else none
          match joinVs [invariants pre post reclass true noSkip, leaving] with
          | some v => finish st o v
          | none =>
            let (c', res) := (pre[k]!).pestsFrom kk
            if toString res ≠ ret then finish st o s!"MISMATCH hp.pestsfrom ret model={res}"
            else finish st o (cmpCells cmd (pre.set k c') post)
        | _, _, _, _ => (st, "BADLINE")
      | "hp.peststo", [r, c, kk] =>
        match parseInt? r, parseInt? c, parseInt? kk, o.ret with
        | some r, some c, some kk, [ret] =>
          let k := idx st r c
          let cell := pre[k]!
          let cell' := post[k]!
          -- C17 arrival: min(count, susceptible) establish, the rest die (evaluated on the observed state)
          let arrival : Option String :=
            if cell.s ≥ 0 && kk ≥ 0 && (ret ≠ toString (min kk cell.s) || cell'.i != cell.i + min kk cell.s || cell'.s != cell.s - min kk cell.s) then
              some s!"PROPFAIL C17 arrival ret={ret} established={cell'.i - cell.i} expected={min kk cell.s}"
            else none
          match invariants pre post reclass true noSkip, arrival with
          | some v, some a => finish st o (v ++ " ;; " ++ a)
          | some v, none => finish st o v
          | none, some a => finish st o a
          | none, none =>
            let (c', res) := cell.pestsTo kk
            if toString res ≠ ret then finish st o s!"MISMATCH hp.peststo ret model={res}"
            else finish st o (cmpCells cmd (pre.set k c') post)
        | _, _, _, _ => (st, "BADLINE")
      -- move_hosts_from_to r1 c1 r2 c2 count
      | "hp.move", [r1, c1, r2, c2, cnt] =>
        match parseInt? r1, parseInt? c1, parseInt? r2, parseInt? c2, parseInt? cnt, o.ret with
        | some r1, some c1, some r2, some c2, some cnt, [ret] =>
          finish st o (checkMove st pre post o.suit r1 c1 r2 c2 cnt (some ret))
        | _, _, _, _, _, _ => (st, "BADLINE")
      -- SimpleTreatment / PesticideTreatment apply over suitable cells: kind app coefs...
      | "hp.treat", kind :: app :: coefToks =>
        match ratsFor st coefToks, treatAppFromString app with
        | some coefs, .ok app =>
          let pest := kind = "pesticide"
          let all := app == .allInfected
          let cls : Nat → Ledger := fun _ => if pest then .reclassify else .removal
          -- F20: per-cohort rounding can break i = sum(mort); region predicate decides known / violation
          let f20 : Option String := (List.range pre.length).findSome? fun k =>
            let a := pre[k]!; let b := post[k]!
            if isSuit st k && a.mortOK && !b.mortOK then
              let agrees := roundingAgrees (if pest then rfloor else rceil) coefs[k]! a
              if !all && !agrees then some s!"KNOWN C03 F20 cell={k} coef={coefs[k]!} pre={showCell a} post={showCell b}"
              else some s!"PROPFAIL C03 mortality_cohorts cell={k} pre={showCell a} post={showCell b}"
            else none
          if o.ret.any (·.startsWith "err:") then
            -- a treatment inside the domain never throws
            let ok := (List.range pre.length).all fun k => !(isSuit st k) || (pre[k]!).consistent
            (st, if ok then s!"PROPFAIL C10 treatment_threw {o.ret}" else "ok")
          else
          let spec : Option String := (List.range pre.length).findSome? fun k =>
              let a := pre[k]!; let b := post[k]!
              if !(isSuit st k) then (if a == b then none else some s!"PROPFAIL C10 untreated_cell_changed cell={k}")
              else if coefs[k]! == 0 && a != b && a.totalsOK then some s!"PROPFAIL C10 coef_zero_changed cell={k}"
              else if a.consistent && decide (0 ≤ coefs[k]!) && decide (coefs[k]! ≤ 1) then
                if pest then (if pesticideTreatSpec coefs[k]! all a b then none else some s!"PROPFAIL C10 pesticide_share cell={k} coef={coefs[k]!} pre={showCell a} post={showCell b}")
                else (if simpleTreatSpec coefs[k]! all a b then none else some s!"PROPFAIL C10 removal_share cell={k} coef={coefs[k]!} pre={showCell a} post={showCell b}")
              else none
          match joinVs [invariants pre post cls true noSkip, spec] with
          | some v => finish st o v
          | none =>
              let exp := mapSuit st fun k cell =>
                let r := if pest then cell.pesticideTreat coefs[k]! app else cell.simpleTreat coefs[k]! app
                match r with | .ok c' => c' | .error _ => cell
              match firstDiff exp post with
              | some d => finish st o s!"MISMATCH hp.treat {d}"
              | none => finish st o (f20.getD "ok")
        | _, _ => (st, "BADLINE")
      | "hp.treatend", coefToks =>
        match ratsFor st coefToks with
        | some coefs =>
          let spec : Option String := (List.range pre.length).findSome? fun k =>
              let a := pre[k]!; let b := post[k]!
              if !(isSuit st k) then (if a == b then none else some s!"PROPFAIL C10 untreated_cell_changed cell={k}")
              else if pesticideEndSpec coefs[k]! a b then none else some s!"PROPFAIL C10 pesticide_end cell={k}"
          match joinVs [invariants pre post reclass false noSkip, spec] with
          | some v => finish st o v
          | none => finish st o (cmpCells cmd (mapSuit st fun k cell => cell.pesticideEnd coefs[k]!) post)
        | none => (st, "BADLINE")
      -- SurvivalRateAction: rates per cell
      | "hp.survival", rateToks =>
        match ratsFor st rateToks with
        | some rates =>
          let spec : Option String := (List.range pre.length).findSome? fun k =>
              let a := pre[k]!; let b := post[k]!
              if !(isSuit st k) then (if a == b then none else some s!"PROPFAIL C12 survival_touched_unsuitable cell={k}")
              else if a.consistent && decide (0 ≤ rates[k]!) then
                (if survivalSpec rates[k]! a b then none else some s!"PROPFAIL C12 survival cell={k} rate={rates[k]!} pre={showCell a} post={showCell b}")
              else none
          match joinVs [invariants pre post reclass false noSkip, spec] with
          | some v => finish st o v
          | none =>
              -- which cohort a removed host is drawn from is a random choice (implementation detail): replay only
              let bad : Option String := (List.range pre.length).findSome? fun k =>
                let a := pre[k]!; let b := post[k]!
                if isSuit st k && decide (rates[k]! < 1) then
                  let dI := subL a.mort b.mort
                  let nI := a.ratioRemovedInfected rates[k]!
                  let a1 := a.removeInfected nI dI
                  let dE := subL a.e b.e
                  let nE := a1.ratioRemovedExposed rates[k]!
                  if nI > 0 && !(validDrawB a.mort nI dI) then some s!"mortality-draw-invalid cell={k}"
                  else if nE > 0 && !(validDrawB a.e nE dE) then some s!"exposed-draw-invalid cell={k}"
                  else if a.removeByRatio rates[k]! dI dE != b then some s!"cell={k} model={showCell (a.removeByRatio rates[k]! dI dE)} observed={showCell b}"
                  else none
                else if a != b then some s!"cell={k} unchanged-expected"
                else none
              let dIs := st.suit.map fun (r, c) => subL (pre[idx st r c]!).mort (post[idx st r c]!).mort
              let dEs := st.suit.map fun (r, c) => subL (pre[idx st r c]!).e (post[idx st r c]!).e
              finish st o (match bad with
                | some d => s!"MISMATCH hp.survival {d}"
                | none => genReplay cmd { baseInputs st with survivalRates := rates, survivalDrawsI := dIs, survivalDrawsE := dEs } 0 .survival pre post)
        | none => (st, "BADLINE")
      -- RemoveByTemperature: threshold, temperatures per cell
      | "hp.lethal", thr :: tempToks =>
        match parseRat? thr, ratsFor st tempToks with
        | some thr, some temps =>
          let spec : Option String := (List.range pre.length).findSome? fun k =>
              let a := pre[k]!; let b := post[k]!
              if !(isSuit st k) then (if a == b then none else some s!"PROPFAIL C12 lethal_touched_unsuitable cell={k}")
              else if a.consistent then
                (if lethalSpec (decide (temps[k]! < thr)) a b then none else some s!"PROPFAIL C12 lethal cell={k} temp={temps[k]!} pre={showCell a} post={showCell b}")
              else none
          match joinVs [invariants pre post reclass false noSkip, spec] with
          | some v => finish st o v
          | none =>
              let bad : Option String := (List.range pre.length).findSome? fun k =>
                let a := pre[k]!; let b := post[k]!
                if isSuit st k && decide (temps[k]! < thr) then
                  let d := subL a.mort b.mort
                  if a.i > 0 && !(validDrawB a.mort a.i d) then some s!"mortality-draw-invalid cell={k}"
                  else if a.removeAllInfected d != b then some s!"cell={k} model={showCell (a.removeAllInfected d)} observed={showCell b}"
                  else none
                else if a != b then some s!"cell={k} unchanged-expected"
                else none
              let draws := st.suit.map fun (r, c) => subL (pre[idx st r c]!).mort (post[idx st r c]!).mort
              finish st o (match bad with
                | some d => s!"MISMATCH hp.lethal {d}"
                | none => genReplay cmd { baseInputs st with lethalThreshold := thr, temperatures := temps, lethalDraws := draws } 0 .lethal pre post)
        | _, _ => (st, "BADLINE")
      -- Mortality action (apply at suitable cells, then age all cohorts): rate lag
      | "hp.mortality", [rate, lag] =>
        match parseRat? rate, parseInt? lag with
        | some rate, some lag =>
          let cls : Nat → Ledger := fun _ => .death
          if o.ret.any (·.startsWith "err:") then
            -- C03: mortality never fails on a consistent state
            let okPre := (List.range pre.length).all fun k => !(isSuit st k) || (pre[k]!).consistent
            let modelErr := st.suit.any fun (r, c) => match (pre[idx st r c]!).applyMortality rate lag with | .error _ => true | .ok _ => false
            (st, if okPre then s!"PROPFAIL C03 mortality_failed_on_consistent_state {o.ret}"
                 else if modelErr then "ok" else s!"MISMATCH hp.mortality model=ok observed={o.ret}")
          else
          let spec : Option String := (List.range pre.length).findSome? fun k =>
              let a := pre[k]!; let b := post[k]!
              if isSuit st k && a.consistent && decide (0 ≤ rate) && decide (rate ≤ 1) && decide (0 ≤ lag) then
                joinVs [
                  if mortalitySpec rate lag a b then none
                  else some s!"PROPFAIL C11 mortality cell={k} rate={rate} lag={lag} pre={showCell a} post={showCell b}",
                  -- C02: hosts dying in a step never exceed the infected that were present
                  if decide (b.died - a.died ≤ a.i) then none else some s!"PROPFAIL C02 died_exceeds_infected cell={k} died={b.died - a.died} infected={a.i}"]
              else none
          match joinVs [invariants pre post cls false (fun k => !(isSuit st k)), spec] with
          | some v => finish st o v
          | none =>
              -- cells outside the list hold no host in any generated state: their ageing is compared with the model only
              let exp := (List.range pre.length).map fun k =>
                let a := pre[k]!
                let a1 := if isSuit st k then (match a.applyMortality rate lag with | .ok c' => c' | .error _ => a) else a
                a1.stepForwardMortality
              let v := cmpCells cmd exp post
              finish st o (if v == "ok" then genReplay cmd { baseInputs st with mortalityRate := rate, mortalityLag := lag } 0 .mortality pre post else v)
        | _, _ => (st, "BADLINE")
      -- step_forward(step) on all cells
      | "hp.stepfwd", [step] =>
        match parseNat? step with
        | some step =>
          let spec : Option String := (List.range pre.length).findSome? fun k =>
              let a := pre[k]!; let b := post[k]!
              if st.mt == .si then (if a == b then none else some s!"PROPFAIL C05 si_changed cell={k}")
              else if step < st.latency && a.i != b.i then some s!"PROPFAIL C05 early_transition cell={k}"
              else if decide (a.e.length = st.latency + 1) && !(stepForwardSpec st.latency step a b) then
                -- C11_eventual_death counts on new infection entering the youngest mortality cohort
                some (s!"PROPFAIL C05 shift cell={k} step={step} pre={showCell a} post={showCell b}" ++
                  (if a.mort.dropLast != b.mort.dropLast then s!" ;; PROPFAIL C11 new_infection_not_in_youngest_cohort cell={k} step={step} pre={showCell a} post={showCell b}" else ""))
              else none
          match joinVs [invariants pre post reclass false noSkip, spec] with
          | some v => finish st o v
          | none =>
              let v := cmpCells cmd (pre.map (Cell.stepForward st.mt st.latency step)) post
              finish st o (if v == "ok" then genReplay cmd (baseInputs st) step .stepForward pre post else v)
        | none => (st, "BADLINE")
      -- Treatments::manage(step): every treatment applied exactly at its start step, pesticides
      -- ended exactly at their end step, nothing else
      | "hp.manage", [stepTok] =>
        match parseNat? stepTok with
        | none => (st, "BADLINE")
        | some step =>
          if o.ret.any (·.startsWith "err:") then (st, s!"PROPFAIL C10 treatment_threw {o.ret}") else
          let events := st.treats.map fun t => (t, t.1.eventAt step)
          let anyEvent := events.any fun e => e.2 != .nothing
          let cls : Nat → Ledger := fun _ => .removal
          -- C10 by its definition on the observed cells. One event due: every listed cell shows that treatment's
          -- share (removal: rounded up; pesticide: rounded down into resistant; end: resistant back to susceptible),
          -- cells outside the list are untouched. Several events due: the observed state is the effect of the due
          -- treatments applied one after the other in SOME order (the order itself is not stated: model comparison).
          let due := events.filter fun e => e.2 != .nothing
          let c10 : Option String :=
            match due with
            | [] => none
            | [((spec, app, coefs), ev)] =>
              (List.range pre.length).findSome? fun k =>
                let a := pre[k]!; let b := post[k]!
                let coef := coefs.getD k 0
                let all := app == .allInfected
                if !(isSuit st k) then (if a == b then none else some s!"PROPFAIL C10 untreated_cell_changed cell={k} step={step}")
                else if !(a.consistent && decide (0 ≤ coef) && decide (coef ≤ 1)) then none
                else if ev == .apply then
                  (if coef == 0 && a != b then some s!"PROPFAIL C10 coef_zero_changed cell={k} step={step}"
                   else if spec.pesticide then
                     (if pesticideTreatSpec coef all a b then none else some s!"PROPFAIL C10 pesticide_share cell={k} step={step} coef={coef} pre={showCell a} post={showCell b}")
                   else (if simpleTreatSpec coef all a b then none else some s!"PROPFAIL C10 removal_share cell={k} step={step} coef={coef} pre={showCell a} post={showCell b}"))
                else (if pesticideEndSpec coef a b then none else some s!"PROPFAIL C10 pesticide_end cell={k} step={step} pre={showCell a} post={showCell b}")
            | _ =>
              if due.length > 4 || !(pre.all Cell.consistent) then none
              else if (permsFuel due.length due).any fun order => order.foldl (fun cells e => applyTreatEvent st cells e.1 e.2) pre == post then none
              else some s!"PROPFAIL C10 treatments_composed step={step} the state is not the effect of the {due.length} due treatments applied one after the other in any order"
          match joinVs [invariants pre post cls true noSkip, c10] with
          | some v => finish st o v
          | none =>
            if !anyEvent && post != pre then finish st o s!"PROPFAIL C10 changed_without_scheduled_treatment step={step}"
            else if o.ret != ["-"] && o.ret != [if anyEvent then "1" else "0"] then finish st o s!"PROPFAIL C10 manage_reports_change step={step} ret={o.ret}"
            else
              -- replay in list order; remember whether a ratio treatment met the F20 region
              let (exp, f20) := events.foldl (fun (acc : List Cell × Bool) e =>
                let ((spec, app, coefs), ev) := e
                let cells := acc.1
                match ev with
                | .nothing => acc
                | .apply =>
                  let region := (List.range cells.length).any fun k =>
                    isSuit st k && app == .ratio && (cells[k]!).mortOK &&
                      !(roundingAgrees (if spec.pesticide then rfloor else rceil) coefs[k]! (cells[k]!))
                  ((mapSuit { st with cells := cells } fun k cell =>
                    let r := if spec.pesticide then cell.pesticideTreat coefs[k]! app else cell.simpleTreat coefs[k]! app
                    match r with | .ok c' => c' | .error _ => cell), acc.2 || region)
                | .finish => ((mapSuit { st with cells := cells } fun k cell => cell.pesticideEnd coefs[k]!), acc.2)) (pre, false)
              match firstDiff exp post with
              | some d => finish st o s!"MISMATCH hp.manage step={step} {d}"
              | none =>
                let broke := (List.range pre.length).findSome? fun k =>
                  if (pre[k]!).mortOK && !(post[k]!).mortOK then some k else none
                match broke with
                | some k => finish { st with tainted := true } o (if f20 then s!"KNOWN C03 F20 cell={k} step={step} through Treatments::manage" else s!"PROPFAIL C03 mortality_cohorts cell={k} step={step}")
                | none => finish st o "ok"
      -- generic per-action snapshot from the model hook: action step idx
      | "hp.after", [action, _step, _idx] =>
        if action == "treatments" then
          let cls : Nat → Ledger := fun _ => .removal
          match invariants pre post cls true noSkip with
          | some v => finish st o v
          | none =>
            let broke := (List.range pre.length).any fun k => (pre[k]!).mortOK && !(post[k]!).mortOK
            let st' := if broke then { st with tainted := true } else st
            finish st' o "ok"
        else
          -- soil ageing and the two measurements never change host rasters
          finish st o (if post == pre && o.suit == st.suit then "ok" else s!"PROPFAIL C09 {action}_changed_hosts")
      -- spread (generate + disperse) through the model with the injected kernel
      | "hp.spread", toks =>
        let get (key : String) : Option String := toks.findSome? (kv? · key)
        match get "det", (get "rr").bind parseRat?, get "soil", get "sto", (get "pest").bind parseRat?,
              (get "npop").bind intList?, get "w", (get "targets").bind (pairs? · ";"), segments obsToks with
        | some det, some rr, some soil, some sto, some pEst, some npop, some wTok, some targets, [_, _, _, dispT, estT, outT] =>
          match parseInts? dispT, parseInts? estT, outT.mapM pair? with
          | some dispO, some estO, some outO =>
            let g : Grid := { rows := st.rows, cols := st.cols }
            let w : Option (List Rat) := if wTok == "none" then none else ratList? wTok
            let soilPct : Option Rat := if soil == "none" then none else parseRat? soil
            let det := det == "1"
            let suitIdx := st.suit.map fun (r, c) => g.idx r c
            let inv := invariants pre post reclass false noSkip
            let genModel := detGenerated g st.suit pre rr w
            -- C04 predicates on the observed rasters
            let p1 : Option String := (List.zip suitIdx genModel).findSome? fun (k, gm) =>
              let cell := pre[k]!
              if dispO[k]! < 0 || estO[k]! < 0 then some s!"PROPFAIL C02 nonneg dispersers cell={k} disp={dispO[k]!} established={estO[k]!}"
              else if cell.i ≤ 0 && dispO[k]! != 0 then some s!"PROPFAIL C04 dispersers_without_infection cell={k} disp={dispO[k]!}"
              else if det && soilPct.isNone && dispO[k]! != gm then some s!"PROPFAIL C04 deterministic_count cell={k} disp={dispO[k]!} expected={gm}"
              else if det && soilPct.isSome && gm > 0 && dispO[k]! != gm - lround (soilPct.get! * gm) then
                some s!"PROPFAIL C04 soil_split cell={k} disp={dispO[k]!} generated={gm}"
              else if estO[k]! < 0 || estO[k]! > dispO[k]! then some s!"PROPFAIL C04 established_le_generated cell={k} est={estO[k]!} disp={dispO[k]!}"
              else none
            let totalDisp := sumL (suitIdx.map fun k => dispO[k]!)
            let sDrop := sumL ((List.range pre.length).map fun k => (pre[k]!).s - (post[k]!).s)
            let totalEst := sumL (suitIdx.map fun k => estO[k]!)
            let expOutside := targets.filter fun (r, c) => g.isOutside r c
            -- C05: in the SEI model arrivals become exposed (youngest cohort), never infected
            let pSei : Option String :=
              if st.mt == .sei then (List.range pre.length).findSome? fun k =>
                let a := pre[k]!; let b := post[k]!
                if a.e.isEmpty || arrivalsStayExposed a b then none
                else some (s!"PROPFAIL C05 arrival_not_exposed cell={k} pre={showCell a} post={showCell b}" ++
                  -- C04: an established disperser turns one susceptible host into an EXPOSED host in the SEI model
                  s!" ;; PROPFAIL C04 established_host_not_exposed cell={k} pre={showCell a} post={showCell b}")
              else none
            let targetsOK := (targets.length : Int) == totalDisp
            let pTargets : Option String :=
              if !targetsOK then some s!"PROPFAIL C04 one_target_per_disperser targets={targets.length} dispersers={totalDisp}" else none
            let pOutside : Option String :=
              if outO != expOutside then some s!"PROPFAIL C04 outside_recorded observed={outO.length} expected={expOutside.length}" else none
            let pLedger : Option String :=
              if soilPct.isNone && sDrop != totalEst then some s!"PROPFAIL C04 ledger susceptible_consumed={sDrop} established={totalEst}"
              else if soilPct.isSome && sDrop < totalEst then some s!"PROPFAIL C04 ledger susceptible_consumed={sDrop} established={totalEst}"
              else none
            -- C04, independent of any draw (without soils): an individual establishes in ITS TARGET cell - a cell
            -- never loses more susceptible hosts than dispersers were aimed at it - and is counted for ITS ORIGIN
            -- cell - the established count of a cell never exceeds its dispersers that landed inside the study area
            let inside := targets.filter fun (r, c) => !(g.isOutside r c)
            let pTargetCell : Option String :=
              if soilPct.isSome || !targetsOK then none else
              (List.range pre.length).findSome? fun k =>
                let lost := (pre[k]!).s - (post[k]!).s
                let aimed := (inside.filter fun (r, c) => g.idx r c == k).length
                if lost < 0 || lost > (aimed : Int) then
                  some s!"PROPFAIL C04 establishes_in_target_cell cell={k} susceptible_consumed={lost} dispersers_aimed_at_it={aimed}"
                else none
            let pOrigin : Option String :=
              -- (also with soils: dispersers released from the soil land in their own cell and are never counted as established)
              if !targetsOK || p1.isSome then none else
              (suitIdx.foldl (fun (acc : List (Int × Int) × Option String) k =>
                let n := (dispO[k]!).toNat
                let mine := acc.1.take n
                let landedInside := (mine.filter fun (r, c) => !(g.isOutside r c)).length
                (acc.1.drop n,
                 if acc.2.isSome then acc.2
                 else if estO[k]! > (landedInside : Int) then
                   some s!"PROPFAIL C04 established_counted_for_origin cell={k} established={estO[k]!} its_dispersers_inside={landedInside}"
                 else none)) (targets, none)).2
            match joinVs [inv, p1, pSei, pTargets, pOutside, pLedger, pTargetCell, pOrigin] with
            | some v => finish st o v
            | none =>
                let st1 := { st with pest := { disp := dispO, est := estO, outside := st.pest.outside ++ outO } }
                if soilPct.isSome then
                  -- what each cell's soil was handed in this spread (C04_soil_arrivals): the soil share of the
                  -- generated count at a listed cell (known when generation is deterministic), nothing elsewhere
                  let sent : List Int := (List.range pre.length).map fun k =>
                    match (List.zip suitIdx genModel).find? (fun (k', _) => k' == k) with
                    | some (_, gm) => if det then soilHanded soilPct gm else -1
                    | none => 0
                  finish { st1 with soilSent := sent, soilNoStore := sto != "1" } o "ok"
                else
                  -- exact replay: generated counts (observed when generation is stochastic), targets, uniforms
                  let gen := if det then genModel else suitIdx.map fun k => dispO[k]!
                  let (p0, _) := generateStep g st.suit gen none { st.pest with outside := [] }
                  let env : DisperseEnv := { mt := st.mt, stochastic := sto == "1", pEst := pEst, npop := npop, w := w }
                  match disperseStep g env st.suit pre p0 targets st.uniforms with
                  | .error e => finish st1 o s!"MISMATCH hp.spread model={errTok e}"
                  | .ok (cells', p', _, _) =>
                    -- cells outside the list keep their disperser count: implementation detail, model comparison
                    if p'.disp != dispO then finish st1 o "MISMATCH hp.spread dispersers"
                    else if p'.est != estO then
                      -- the establishment decision is C12's rule on fully observed inputs: with stochastic
                      -- establishment off it is "suitability > 1 - establishment probability", with it on the
                      -- uniforms are dictated by the harness, so it is "establishes iff u < suitability"
                      finish st1 o ((if sto != "1" then s!"PROPFAIL C12 deterministic_establishment established model={p'.est} observed={estO} pEst={pEst} ;; "
                                     else s!"PROPFAIL C12 establish_event established with the dictated uniforms (establishes iff u < susceptible / population x weather) expected={p'.est} observed={estO} ;; ") ++
                        s!"MISMATCH hp.spread established model={p'.est} observed={estO}")
                    else if p'.outside != outO then finish st1 o "MISMATCH hp.spread outside"
                    else
                      -- same established counts but another cell paid for them: C04 (its target cell)
                      let k? := (List.range pre.length).find? fun k => (cells'[k]!).s != (post[k]!).s
                      match k? with
                      | some k => finish st1 o (s!"PROPFAIL C04 establishes_in_target_cell cell={k} susceptible_after={(post[k]!).s} expected={(cells'[k]!).s} (establishment decided by C12's rule on the observed inputs) ;; " ++
                          cmpCells cmd cells' post)
                      | none => finish st1 o (cmpCells cmd cells' post)
          | _, _, _ => (st, "BADLINE spread-obs")
        | _, _, _, _, _, _, _, _, _ => (st, "BADLINE spread")
      -- overpopulation through the model: threshold leaving drow dcol (deterministic neighbour kernel)
      | "hp.overpop", [thr, leave, drT, dcT] =>
        match parseRat? thr, parseRat? leave, segments obsToks with
        | some thr, some leave, [_, _, _, outT] =>
          match outT.mapM pair? with
          | none => (st, "BADLINE")
          | some outO =>
            let g : Grid := { rows := st.rows, cols := st.cols }
            let inv := invariants pre post reclass true noSkip
            let departing := st.suit.filter fun (r, c) => departs thr (pre[g.idx r c]!)
            let isDep (k : Nat) : Bool := departing.any fun (r, c) => g.idx r c == k
            -- C17: cells that do not qualify keep their pests
            let stay : Option String := (List.range pre.length).findSome? fun k =>
              let a := pre[k]!; let b := post[k]!
              if !(isDep k) && b.i < a.i then some s!"PROPFAIL C17 departure_rule cell={k} pre={showCell a} post={showCell b}" else none
            -- C17: the source's infected turn susceptible, arrivals turn susceptible hosts infected - nothing else moves
            let frame : Option String := (List.range pre.length).findSome? fun k =>
              let a := pre[k]!; let b := post[k]!
              if { b with s := a.s, i := a.i } != a then
                some s!"PROPFAIL C17 overpopulation_changed_other_classes cell={k} pre={showCell a} post={showCell b}" else none
            -- destinations known: the deterministic neighbour kernel (one shift for every source), or an injected
            -- table kernel whose calls the harness logged (`T r,c;r,c;..`, one destination per qualifying cell in
            -- the order of the suitable-cell list - several sources may share a destination)
            let known : Option (List (Int × Int)) :=
              if drT == "T" then pairs? dcT ";" else
              match parseInt? drT, parseInt? dcT with
              | some dr, some dc => some (departing.map fun (r, c) => (r + dr, c + dc))
              | _, _ => none
            match known with
            | some targets =>
              if targets.length != departing.length then
                -- C17: exactly the qualifying cells send pests away, one kernel call each
                finish st o s!"PROPFAIL C17 departure_rule destinations_asked_for={targets.length} qualifying_cells={departing.length}"
              else
              -- every destination is known, so C17's sentence fixes the outcome:
              -- each qualifying cell sends round(infected x share) (its infected turn susceptible), all departures
              -- are decided on the state before any arrival, at a destination min(arriving, susceptible) establish
              let expOut := (departing.zip targets).flatMap fun ((r, c), (tr, tc)) =>
                if g.isOutside tr tc then List.replicate (leavingCount leave (pre[g.idx r c]!)).toNat (tr, tc) else []
              let pOut : Option String :=
                if outO != expOut then some s!"PROPFAIL C17 outside_recorded observed={outO.length} expected={expOut.length}" else none
              let (cells', _, _) := overpopulationStep g st.suit pre { st.pest with outside := [] } thr leave targets
              let isTarget (k : Nat) : Bool := targets.any fun (r, c) => !(g.isOutside r c) && g.idx r c == k
              let inDom := pre.all Cell.nonNeg && decide (0 ≤ thr) && decide (0 ≤ leave) && decide (leave ≤ 1)
              let rule : Option String :=
                if !inDom || stay.isSome then none else
                (List.range pre.length).findSome? fun k =>
                  let a := pre[k]!; let b := post[k]!; let m := cells'[k]!
                  if b.s == m.s && b.i == m.i then none
                  else if isTarget k then
                    some s!"PROPFAIL C17 arrival cell={k} (min(arriving, susceptible) establish, the rest die; departures decided before arrivals) expected s={m.s} i={m.i} pre={showCell a} post={showCell b}"
                  else if isDep k then
                    some s!"PROPFAIL C17 leaving_count cell={k} leaves={a.i - b.i} expected={leavingCount leave a} (round(infected x share), the infected turn susceptible) pre={showCell a} post={showCell b}"
                  else some s!"PROPFAIL C17 departure_rule cell={k} neither source nor destination changed pre={showCell a} post={showCell b}"
              match joinVs [inv, stay, frame, pOut, rule] with
              | some v => finish st o v
              | none =>
                let v := cmpCells cmd cells' post
                finish st o (if v == "ok" then genReplay cmd { baseInputs st with overThreshold := thr, overLeaving := leave, overTargets := targets } 0 .overpopulation pre post else v)
            | none =>
              -- uniform natural kernel: destinations are unknown but always inside the study area;
              -- pests that leave either establish somewhere or vanish, none is recorded outside
              let left := sumL (departing.map fun (r, c) => leavingCount leave (pre[g.idx r c]!))
              let infectedBefore := sumL (pre.map (·.i))
              let infectedAfter := sumL (post.map (·.i))
              -- "D D": deterministic radial kernel (3x3 window): destinations are neighbours of the source or the
              -- source itself; those beyond the edge are recorded with their real coordinates
              -- C17 per cell, whatever the destinations: arrivals only add, so a qualifying cell ends with at
              -- least infected - round(infected x share)
              let perCell : Option String := (List.range pre.length).findSome? fun k =>
                let a := pre[k]!; let b := post[k]!
                if isDep k && pre.all Cell.nonNeg && decide (0 ≤ leave) && decide (leave ≤ 1) && b.i < a.i - leavingCount leave a then
                  some s!"PROPFAIL C17 leaving_count cell={k} leaves_at_least={a.i - b.i} expected={leavingCount leave a} pre={showCell a} post={showCell b}"
                else none
              let rel : Option String :=
                if drT == "D" || drT == "R" then
                  -- "R R": stochastic radial kernel - any distance; only the bookkeeping is checked
                  let near (t : Int × Int) : Bool := drT == "R" || departing.any fun (r, c) => (t.1 - r).natAbs ≤ 1 && (t.2 - c).natAbs ≤ 1
                  if outO.any (fun t => !(g.isOutside t.1 t.2)) then some s!"PROPFAIL C17 outside_recorded inside_cell_recorded_as_outside first={outO.head!}"
                  else if outO.any (fun t => !(near t)) then some s!"PROPFAIL C17 overpopulation_kernel_scale destination_beyond_window {outO}"
                  else if (outO.length : Int) > left then some s!"PROPFAIL C17 leaving_count recorded_outside={outO.length} left={left}"
                  else if infectedAfter > infectedBefore || infectedAfter < infectedBefore - left then
                    some s!"PROPFAIL C17 leaving_count infected_before={infectedBefore} after={infectedAfter} left={left}"
                  else none
                else
                  if !outO.isEmpty then some s!"PROPFAIL C17 uniform_destination_outside recorded={outO.length} first={outO.head!}"
                  else if infectedAfter > infectedBefore || infectedAfter < infectedBefore - left then
                    some s!"PROPFAIL C17 leaving_count infected_before={infectedBefore} after={infectedAfter} left={left}"
                  else none
              finish st o ((joinVs [inv, stay, frame, perCell, rel]).getD "ok")
        | _, _, _ => (st, "BADLINE")
      -- host movement through the model: step last sched:r1,c1,r2,c2,n ...  => newlast
      | "hp.movement", stepTok :: lastTok :: rowToks =>
        let rows? : Option (List (Nat × List Int)) := rowToks.mapM fun t =>
          match t.splitOn ":" with
          | [s, r] => do let s ← parseNat? s; let r ← intList? r; some (s, r)
          | _ => none
        match parseNat? stepTok, parseNat? lastTok, rows?, o.ret with
        | some step, some last, some rows, [newLast] =>
          let (apply, cursor) := movementRows (rows.map (·.1)) last step
          let total (l : List Cell) : Int := sumL (l.map Cell.hosts)
          let teOK (c : Cell) : Bool := decide (c.te = sumL c.e)
          let totalsBroke := pre.all Cell.totalsOK && !(post.all Cell.totalsOK)
          -- landscape-level verdicts, one per property
          let general : List (Option String) := [
            if toString cursor ≠ newLast then some s!"PROPFAIL C17 movement_once cursor={newLast} expected={cursor}" else none,
            if total post != total pre then some s!"PROPFAIL C01 movement_relocates_only before={total pre} after={total post}" else none,
            if pre.all Cell.nonNeg && !(post.all Cell.nonNeg) then some "PROPFAIL C02 nonneg movement" else none,
            if totalsBroke then some "PROPFAIL C03 totals movement" else none,
            if totalsBroke && pre.all teOK && !(post.all teOK) then
              some "PROPFAIL C05 exposed_host_without_cohort movement (hosts move together with their cohort membership)" else none,
            if !totalsBroke && pre.all (fun c => c.mortOK && c.totalsOK) && !(post.all Cell.mortOK) then some "PROPFAIL C03 mortality_cohorts movement" else none]
          let fin (rowVs : List String) (replay : Unit → String) : State × String :=
            match general.filterMap id ++ rowVs with
            | [] => finish st o (replay ())
            | vs => finish st o (" ;; ".intercalate vs)
          match apply with
          | [] => fin (if post == pre && o.suit == st.suit then [] else ["PROPFAIL C17 movement_without_scheduled_row"]) (fun _ => "ok")
          | [k] =>
            match (rows[k]!).2 with
            | [r1, c1, r2, c2, n] =>
              fin (moveCellVerdicts st pre post r1 c1 r2 c2 n none ++ moveSuitVerdicts st pre o.suit r1 c1 r2 c2 n)
                  (fun _ => moveReplay st pre post o.suit r1 c1 r2 c2 n none)
            | _ => (st, "BADLINE")
          | _ =>
            -- several rows due in this step: the intermediate states are not observed, so the random class and
            -- cohort draws cannot be replayed; what C17 fixes without them is judged on the observed end state:
            -- rows once each in table order, each moving min(requested, hosts present) -> the host total of every
            -- cell; only cells named by a due row change; class and cohort totals over the landscape are kept;
            -- every destination that received a host is listed, nothing else joins the list and nothing twice
            let due : Option (List (Nat × Nat × Int × (Int × Int))) := apply.mapM fun k =>
              match (rows[k]!).2 with
              | [r1, c1, r2, c2, n] => some (idx st r1 c1, idx st r2 c2, n, (r2, c2))
              | _ => none
            match due with
            | none => (st, "BADLINE")
            | some due =>
              let trows := due.map fun d => (d.1, d.2.1, d.2.2.1)
              let named (k : Nat) : Bool := due.any fun d => d.1 == k || d.2.1 == k
              let inDom := pre.all (fun c => c.nonNeg && c.totalsOK) && due.all (fun d => decide (0 ≤ d.2.2.1) && d.1 < pre.length && d.2.1 < pre.length)
              let pre0 := pre.map Cell.hosts
              let expTot := movementTotals pre0 trows
              let arrivals := movementArrivals pre0 trows
              let dests := due.map (·.2.2.2)
              let added := o.suit.drop st.suit.length
              let rowVs : List (Option String) := [
                match (List.range pre.length).find? fun k => !(named k) && pre[k]! != post[k]! with
                | some k => some s!"PROPFAIL C17 move_touched_other_cells cell={k} rows_due={apply.length}"
                | none => none,
                if inDom && post.map Cell.hosts != expTot then
                  some s!"PROPFAIL C17 move_amount rows_due={apply.length} hosts_per_cell={post.map Cell.hosts} expected={expTot} (each row once, in table order, min(requested, hosts present))"
                else none,
                if inDom && !(landClassesConserved pre post) then
                  some s!"PROPFAIL C17 move_membership rows_due={apply.length} class or cohort totals over the landscape changed"
                else none,
                if inDom then
                  match arrivals.find? fun k => !(o.suit.any fun (r, c) => idx st r c == k) with
                  | some k => some s!"PROPFAIL C17 target_not_suitable cell={k} rows_due={apply.length}"
                  | none => none
                else none,
                if !(o.suit.take st.suit.length == st.suit && added.all (fun x => dests.contains x && !(st.suit.contains x)) && added.eraseDups == added) then
                  some s!"PROPFAIL C17 suitable_list before={st.suit} after={o.suit} rows_due={apply.length}"
                else none]
              fin (rowVs.filterMap id) (fun _ => "ok")
        | _, _, _, _ => (st, "BADLINE")
      | _, _ => (st, "BADLINE cmd")

end Pops.Driver.HostEng
