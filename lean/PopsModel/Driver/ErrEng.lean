/-
  Driver engine for C20 (documented errors) and the weather part of C12: each line carries one
  documented invalid (or valid) input and the exception class the implementation raised.
-/
import PopsModel.Driver.Util
import PopsModel.Model.Errors
namespace Pops.Driver.ErrEng
open Pops Pops.Driver

structure State where
  dummy : Unit := ()
deriving Inhabited

def unq (s : String) : String := if s = "<empty>" then "" else s.replace "_SP_" " "

def date3? : List String → Option (Date × List String)
  | a :: b :: c :: rest => do
    let y ← parseInt? a; let m ← parseInt? b; let d ← parseInt? c
    some (⟨y, m, d⟩, rest)
  | _ => none

partial def steps? (k : Nat) (toks : List String) : Option (List Step × List String) :=
  if k = 0 then some ([], toks) else do
    let (s, r1) ← date3? toks
    let (e, r2) ← date3? r1
    let (rest, r3) ← steps? (k - 1) r2
    some (⟨s, e⟩ :: rest, r3)

/-- `m@e` = m * 2^e, the exact value of a double. -/
def dyadic? (tok : String) : Option Rat :=
  match tok.splitOn "@" with
  | [m, e] => do
    let m ← parseInt? m; let e ← parseInt? e
    some (if e ≥ 0 then (m * (2 : Int) ^ e.toNat : Int) else mkRat m (2 ^ (-e).toNat))
  | _ => none

/-- Compare the observed outcome with the model's; `documented` marks inputs of a documented
    invalid-input class, for which a disagreement is a violation of C20 itself. -/
def judge (what : String) (model : String) (obs : List String) (documented : Bool) : String :=
  let o := " ".intercalate obs
  if o = model then "ok"
  else if documented || o.startsWith "err:other" then s!"PROPFAIL C20 documented_error {what} expected={model} observed={o}"
  -- a valid neighbour of the invalid input: C20 states that documented invalid inputs throw, not that (or with
  -- which result) the valid ones are accepted - model comparison only
  else s!"MISMATCH {what} model={model}"

def exc {α : Type} (r : Except ErrKind α) (okText : α → String) : String :=
  match r with | .ok a => okText a | .error e => errTok e

def handle (st : State) (cmd : String) (inp obs : List String) : State × String :=
  match cmd, inp with
  | "err.modeltype", [s] =>
    let m := modelTypeFromString (unq s)
    (st, judge cmd (exc m fun t => if t == .si then "ok SI" else "ok SEI") obs (m.toOption.isNone))
  | "err.weathertype", [s] =>
    let m := weatherTypeFromString (unq s)
    (st, judge cmd (exc m fun t => match t with | .deterministic => "ok deterministic" | .probabilistic => "ok probabilistic" | .none => "ok none") obs (m.toOption.isNone))
  | "err.treatapp", [s] =>
    let m := treatAppFromString (unq s)
    (st, judge cmd (exc m fun t => if t == .ratio then "ok ratio" else "ok all") obs (m.toOption.isNone))
  | "err.arrival", [s] =>
    let m := setArrivalBehavior (unq s)
    (st, judge cmd (exc m fun _ => "ok") obs (m.toOption.isNone))
  | "err.envweather", [] => (st, judge cmd (errTok .logic_error) obs true)
  | "err.envtemp", [] => (st, judge cmd (errTok .logic_error) obs true)
  | "err.mortalitynotable", [] => (st, judge cmd (errTok .invalid_argument) obs true)
  | "err.soilempty", [n] =>
    match parseNat? n with
    | some n => (st, judge cmd (exc (soilPoolNew n) fun _ => "ok") obs (n == 0))
    | none => (st, "BADLINE")
  | "err.accessor", [_which, created, enabled] =>
    let m := configAccessor (created == "1") (enabled == "1")
    (st, judge cmd (exc m fun _ => "ok") obs (m.toOption.isNone))
  | "err.suitability", [s, n, w] =>
    match parseInt? s, parseInt? n with
    | some s, some n =>
      let c : Cell := { s := s, e := [], i := 0, r := 0, te := 0, mort := [0], died := 0, th := s }
      let env : EnvCell := { n := n, w := if w = "none" then none else parseRat? w, sus := none }
      let m := c.suitability env
      (st, judge cmd (exc m fun _ => "ok") obs (m.toOption.isNone))
    | _, _ => (st, "BADLINE")
  | "err.remove", [ne, nm, elen, mlen, irem] =>
    match parseNat? ne, parseNat? nm, parseNat? elen, parseNat? mlen, parseInt? irem with
    | some ne, some nm, some elen, some mlen, some irem =>
      let c : Cell := { s := 5, e := List.replicate ne 1, i := nm, r := 0, te := ne, mort := List.replicate nm 1, died := 0, th := 5 + ne + nm }
      let m := c.completelyRemove 1 (List.replicate elen 0) irem (List.replicate mlen 0)
      (st, judge cmd (exc m fun _ => "ok") obs (m.toOption.isNone))
    | _, _, _, _, _ => (st, "BADLINE")
  | "err.resistant", [ne, nm, elen, mlen, sR] =>
    match parseNat? ne, parseNat? nm, parseNat? elen, parseNat? mlen, parseInt? sR with
    | some ne, some nm, some elen, some mlen, some sR =>
      let c : Cell := { s := 5, e := List.replicate ne 1, i := nm, r := 0, te := ne, mort := List.replicate nm 1, died := 0, th := 5 + ne + nm }
      let m := c.makeResistant sR (List.replicate elen 0) 0 (List.replicate mlen 0)
      (st, judge cmd (exc m fun _ => "ok") obs (m.toOption.isNone))
    | _, _, _, _, _ => (st, "BADLINE")
  | "err.addtreat", k :: rest =>
    match parseNat? k with
    | some k =>
      match steps? k rest with
      | some (steps, r2) =>
        match date3? r2 with
        | some (d, [days]) =>
          match parseNat? days with
          | some days =>
            let m := addTreatment steps d days
            (st, judge cmd (exc m fun t => s!"ok {t.start} {t.end_}") obs (m.toOption.isNone))
          | none => (st, "BADLINE")
        | _ => (st, "BADLINE")
      | none => (st, "BADLINE")
    | none => (st, "BADLINE")
  -- C12 weather: update_weather_from_distribution mr mc sr sc means.. => ok v.. | err
  | "err.weatherdist", mr :: mc :: sr :: sc :: rest =>
    let meanToks := rest.takeWhile (· ≠ "|")
    let sdToks := (rest.dropWhile (· ≠ "|")).drop 1
    match parseNat? mr, parseNat? mc, parseNat? sr, parseNat? sc, parseRats? meanToks, sdToks.mapM dyadic? with
    | some mr, some mc, some sr, some sc, some means, some sds =>
      let zeros := means.map fun _ => (0 : Rat)
      -- the standard normal draws are unknown; where the deviation is 0 they do not matter
      let sds := if sds.length = means.length then sds else zeros   -- shapes differ: rejected before any draw
      let modelErr := updateWeatherFromDistribution mr mc sr sc means (weatherZs means sds zeros) zeros
      match obs with
      | "ok" :: vals =>
        match vals.mapM dyadic? with
        | some vs =>
          let range := if vs.any (fun v => decide (v < 0) || decide (v > 1)) then [s!"PROPFAIL C12 weather_range values={vals}"]
            else if vs.length ≠ means.length then ["PROPFAIL C12 weather_range wrong number of cells"] else []
          match modelErr with
          | .error e =>
            (st, " ;; ".intercalate (range ++ [s!"PROPFAIL C12 mean_rejected expected={errTok e} observed=ok",
                  s!"PROPFAIL C20 documented_error err.weatherdist expected={errTok e} observed=ok"]))
          | .ok out =>
            -- C12: the coefficient is DRAWN FROM THE DISTRIBUTION of its cell; with standard deviation 0 that
            -- distribution is the point mass at the mean, so the cell gets exactly its mean (`C12_weather_degenerate`,
            -- right-hand side `means[k]`, computed from the line's inputs)
            let bad := (List.range means.length).filter fun k => sds[k]! == 0 && vs[k]! != means[k]!
            -- what is left to the model: nothing for deviation 0; cells with a positive deviation depend on the
            -- unknown normal draw and are judged by the range predicate only
            let badM := (List.range means.length).filter fun k => sds[k]! == 0 && vs[k]! != out[k]!
            if !range.isEmpty then (st, " ;; ".intercalate range)
            else if !bad.isEmpty then
              (st, s!"PROPFAIL C12 weather_degenerate cells={bad}: standard deviation 0, so the draw from the distribution is the mean; means={bad.map fun k => means[k]!} observed={bad.map fun k => vs[k]!}")
            else if badM.isEmpty then (st, "ok") else (st, s!"MISMATCH err.weatherdist degenerate cells={badM} model={out}")
        | none => (st, "BADLINE")
      | [e] =>
        (st, match modelErr with
          | .error k => if e = errTok k then "ok" else s!"PROPFAIL C20 documented_error err.weatherdist expected={errTok k} observed={e}"
          -- means inside [0,1] and equal shapes rejected: C12 / C20 state the rejection of out-of-range means only
          -- (no theorem says the others are accepted); an exception outside the standard classes is C20's in any case
          | .ok _ => if e.startsWith "err:other" then s!"PROPFAIL C20 documented_error err.weatherdist expected=ok observed={e}"
                     else s!"MISMATCH err.weatherdist model=ok observed={e}")
      | _ => (st, "BADLINE")
    | _, _, _, _, _, _ => (st, "BADLINE")
  | _, _ => (st, "BADLINE")

end Pops.Driver.ErrEng
