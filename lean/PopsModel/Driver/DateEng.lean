/-
  Driver engine for C07/C08: compares the implementation's Date / Scheduler results with the
  model and evaluates the property predicates on the implementation's output.
-/
import PopsModel.Driver.Util
import PopsModel.Model.DatePred
namespace Pops.Driver.DateEng
open Pops Pops.Driver

structure State where
  start : Date := default
  end_ : Date := default
  unit : StepUnit := .day
  n : Nat := 1
  steps : List Step := []      -- the steps the implementation produced
  modelOK : Bool := false      -- model produced the same steps
deriving Inhabited

def date3? : List String → Option (Date × List String)
  | a :: b :: c :: rest => do
    let y ← parseInt? a; let m ← parseInt? b; let d ← parseInt? c
    some (⟨y, m, d⟩, rest)
  | _ => none

def showDate (t : Date) : String := s!"{t.y} {t.m} {t.d}"

partial def steps? (k : Nat) (toks : List String) : Option (List Step) :=
  if k = 0 then (if toks.isEmpty then some [] else none) else do
    let (s, r1) ← date3? toks
    let (e, r2) ← date3? r1
    let rest ← steps? (k - 1) r2
    some (⟨s, e⟩ :: rest)

def unit? (s : String) : Option StepUnit :=
  match stepUnitFromString s with | .ok u => some u | .error _ => none

/-- Model comparison of a successor date. After the C07 predicates of `date.days` / `date.week` (valid, later,
    year rule) the date is determined, so the MISMATCH is a fallback for inputs outside the domain. -/
def cmpDate (op : String) (model : Date) (obs : List String) : String :=
  match date3? obs with
  | some (o, []) => if o = model then "ok" else s!"MISMATCH {op} model={showDate model}"
  | _ => "BADLINE"

def cmpBits (what : String) (model : List Bool) (obs : List String) : String :=
  match obs with
  | [b] => if parseBits b = model then "ok" else s!"MISMATCH {what} model={showBits model}"
  | [] => if model = [] then "ok" else s!"MISMATCH {what} model={showBits model}"
  | _ => "BADLINE"

def cmpExceptBits (what : String) (model : Except ErrKind (List Bool)) (obs : List String) : String :=
  match model, obs with
  | .error e, [o] => if o = errTok e then "ok" else s!"MISMATCH {what} model={errTok e}"
  | .ok bits, ["ok", b] => if parseBits b = bits then "ok" else s!"MISMATCH {what} model={showBits bits}"
  | .ok bits, ["ok"] => if bits = [] then "ok" else s!"MISMATCH {what} model={showBits bits}"
  | .ok bits, _ => s!"MISMATCH {what} model=ok {showBits bits}"
  | .error e, _ => s!"MISMATCH {what} model={errTok e}"

/-- Dates of a step, as a list (steps are shorter than ~ 400 days in generated cases). -/
partial def datesOf (st : Step) : List Date :=
  let rec go (t : Date) (fuel : Nat) (acc : List Date) : List Date :=
    if fuel = 0 then acc.reverse
    else if t.gt st.e then acc.reverse else go t.addDay (fuel - 1) (t :: acc)
  go st.s 800 []

/-- C08 predicates evaluated by enumeration of the dates of each step (independent oracle). -/
def firesSpecYearly (mo da : Int) (st : Step) : Bool := (datesOf st).any fun t => t.m == mo && t.d == da
def firesSpecEndOfYear (st : Step) : Bool := (datesOf st).any fun t => t.m == 12 && t.d == 31
def firesSpecMonthly (st : Step) : Bool := (datesOf st).any fun t => t.isLastDayOfMonth
/-- C08: spread is scheduled for a step iff the month of its first or of its last day lies in the season
    (the right-hand side of theorem `C08_spread`). -/
def firesSpecSpread (s e : Int) (st : Step) : Bool :=
  decide ((s ≤ st.s.m ∧ st.s.m ≤ e) ∨ (s ≤ st.e.m ∧ st.e.m ≤ e))
def shortStep (st : Step) : Bool := (datesOf st).length < 365

-- (`nextMonthStart` is defined in Model/DatePred.lean; theorems C07_month_step / C07_month_steps)

/-- C07: a step of `n` months that starts on the first of a month consists of `n` whole calendar months, i.e. the
    day after its end is the first of the month `n` months later. Steps not starting on a first are skipped
    (outside the property's domain). -/
def monthStepsOK (n : Nat) (steps : List Step) : Bool :=
  steps.all fun st => !(st.s.d == 1 && decide st.s.Valid) || st.e.addDay == iter nextMonthStart n st.s

/-- What C08 (and C20 for unknown names) says about `schedule_from_string`. -/
inductive FreqSpec where
  | bits (l : List Bool)   -- the schedule is defined by the property text
  | reject                 -- "a frequency incompatible with the step length is rejected"
  | unknown                -- not a frequency name: C20, documented error
  | open_                  -- the property does not fix the outcome
deriving DecidableEq

def unitName : StepUnit → String | .day => "day" | .week => "week" | .month => "month"

def weekCompatible (u : StepUnit) (un : Nat) : Bool :=
  (u == .day && un == 1) || (u == .day && un == 7) || (u == .week && un == 1)
def dayCompatible (u : StepUnit) (un : Nat) : Bool := u == .day && un == 1

/-- Right-hand sides of `C08_frequency` composed with `C08_end_of_year` / `C08_monthly` / `C08_nsteps`
    (date enumeration resp. index arithmetic on the observed steps) and of `C20_err_frequency`. -/
def freqSpec (u : StepUnit) (un : Nat) (steps : List Step) (freq : String) (n : Nat) : FreqSpec :=
  if freq = "year" ∨ freq = "yearly" then
    (if steps.all shortStep then .bits (steps.map firesSpecEndOfYear) else .open_)
  else if freq = "month" ∨ freq = "monthly" then
    (if steps.all shortStep then .bits (steps.map firesSpecMonthly) else .open_)
  else if freq = "final_step" then .bits ((List.range steps.length).map fun i => i + 1 == steps.length)
  -- n = 0 is outside the quantifier of C08 ("n >= 1")
  else if freq = "every_n_steps" then
    (if n > 0 then .bits ((List.range steps.length).map fun i => (i + 1) % n == 0) else .open_)
  else if freq = "every_step" ∨ freq = "time_step" then .bits (List.replicate steps.length true)
  -- weekly / daily: only the rejection of incompatible step lengths is stated; which steps a compatible weekly
  -- or daily schedule fires in is not part of the property text
  else if freq = "week" ∨ freq = "weekly" then (if weekCompatible u un then .open_ else .reject)
  else if freq = "day" ∨ freq = "daily" then (if dayCompatible u un then .open_ else .reject)
  -- the empty name (no schedule) is not a frequency name of the property
  else if freq = "" then .open_
  else .unknown

def handle (st : State) (cmd : String) (inp obs : List String) : State × String :=
  match cmd, inp with
  | "date.days", n :: rest =>
    match parseInt? n, date3? rest with
    | some n, some (t, []) =>
      match date3? obs with
      | some (o, []) =>
        if decide t.Valid && decide (1 ≤ n) && decide (n ≤ 28) then
          if !decide o.Valid then (st, "PROPFAIL C07 successor-not-a-valid-date")
          else if !(t.lt o) then (st, "PROPFAIL C07 successor-not-after")
          else if !(dayStepOK n t o) then (st, "PROPFAIL C07 year-rule")
          else (st, cmpDate cmd (t.increasedByDays n) obs)
        else (st, cmpDate cmd (t.increasedByDays n) obs)
      | _ => (st, "BADLINE")
    | _, _ => (st, "BADLINE")
  | "date.week", rest =>
    match date3? rest, date3? obs with
    | some (t, []), some (o, []) =>
      if decide t.Valid then
        if !decide o.Valid then (st, "PROPFAIL C07 successor-not-a-valid-date")
        else if !(t.lt o) then (st, "PROPFAIL C07 successor-not-after")
        else if !(dayStepOK 7 t o) then (st, "PROPFAIL C07 year-rule")
        else (st, cmpDate cmd t.increasedByWeek obs)
      else (st, cmpDate cmd t.increasedByWeek obs)
    | _, _ => (st, "BADLINE")
  | "date.month", rest =>
    match date3? rest, date3? obs with
    | some (t, []), some (o, []) =>
      if decide t.Valid then
        if !decide o.Valid then (st, "PROPFAIL C07 successor-not-a-valid-date")
        else if !(t.lt o) then (st, "PROPFAIL C07 successor-not-after")
        -- a month step from the first of a month ends with that calendar month
        else if t.d == 1 && o != nextMonthStart t then
          (st, s!"PROPFAIL C07 month_step start={showDate t} next start observed={showDate o}, first of the following month={showDate (nextMonthStart t)}")
        -- from another day of the month: outside the property's domain (month steps start on the first)
        else (st, cmpDate cmd t.increasedByMonth obs)
      else (st, cmpDate cmd t.increasedByMonth obs)
    | _, _ => (st, "BADLINE")
  | "date.addday", rest =>
    match date3? rest with
    | some (t, []) =>
      -- Date::add_day is not used by the Scheduler (step ends come from subtract_day), so C07 does not speak
      -- about it: MISMATCH for C07. It is the one-day case of the treatment end date of C10 (`date.adddays`).
      let c := cmpDate cmd t.addDay obs
      (st, if c.startsWith "MISMATCH" && decide t.Valid then
             s!"PROPFAIL C10 end_date_is_start_plus_days start={t.y}-{t.m}-{t.d} days=1 expected={t.addDay.y}-{t.addDay.m}-{t.addDay.d} observed={" ".intercalate obs} ;; {c}"
           else c)
    | _ => (st, "BADLINE")
  -- Date::add_days / subtract_days: n successive days (the end date of a pesticide treatment, C10)
  | "date.adddays", n :: rest =>
    match parseNat? n, date3? rest, date3? obs with
    | some n, some (t, []), some (o, []) =>
      let m := iter Date.addDay n t
      (st, if o = m then "ok" else s!"PROPFAIL C10 end_date_is_start_plus_days start={t.y}-{t.m}-{t.d} days={n} expected={m.y}-{m.m}-{m.d} observed={o.y}-{o.m}-{o.d}")
    | _, _, _ => (st, "BADLINE")
  | "date.subdays", n :: rest =>
    match parseNat? n, date3? rest, date3? obs with
    | some n, some (t, []), some (o, []) =>
      let m := iter Date.subtractDay n t
      -- Date::subtract_days is called by no library code a property speaks about (only subtract_day is: step ends)
      (st, if o = m then "ok" else s!"MISMATCH date.subdays model={m.y}-{m.m}-{m.d}")
    | _, _, _ => (st, "BADLINE")
  | "date.subday", rest =>
    match date3? rest, date3? obs with
    | some (t, []), some (o, []) =>
      -- C07: a step ends the day before the next one starts ("each further step starts the day after the
      -- previous one ends"): the link `chainOK` tests on every `sched` line, here for one pair
      -- (`C07_tiles`; Lemmas `subDay_valid`, `addDay_subDay`)
      if decide t.Valid && !(decide o.Valid && o.addDay == t) then
        (st, s!"PROPFAIL C07 chain next start={showDate t} step end observed={showDate o}, but the day after it is {showDate o.addDay}")
      else (st, cmpDate cmd t.subtractDay obs)
    | some (t, []), _ => (st, cmpDate cmd t.subtractDay obs)
    | _, _ => (st, "BADLINE")
  | "date.cmp", rest =>
    match date3? rest with
    | some (a, r2) =>
      match date3? r2 with
      | some (b, []) =>
        let m := showBits [a.lt b, a.le b, a.gt b, a.ge b, decide (a = b), decide (a ≠ b)]
        -- the six operators are the lexicographic order on (year, month, day) (theorem C07_order): the
        -- scheduler's loop, the date lookup and the step containment tests all rest on them
        let lt : Bool := decide (a.y < b.y) || (decide (a.y = b.y) && (decide (a.m < b.m) || (decide (a.m = b.m) && decide (a.d < b.d))))
        let eq : Bool := decide (a.y = b.y) && decide (a.m = b.m) && decide (a.d = b.d)
        let spec := showBits [lt, lt || eq, !(lt || eq), !lt, eq, !eq]
        (st, if obs ≠ [spec] then s!"PROPFAIL C07 order_operators observed={obs} lexicographic={spec}"
             else if obs = [m] then "ok" else s!"MISMATCH date.cmp model={m}")
      | _ => (st, "BADLINE")
    | none => (st, "BADLINE")
  | "date.parse", rest =>
    match parseInts? rest with
    | some [y, m, d] =>
      let r := match Date.ofYMD y m d with | .ok t => "ok " ++ showDate t | .error e => errTok e
      -- which date texts the string constructor accepts is stated by no property (C07 starts from dates)
      (st, if " ".intercalate obs = r then "ok" else s!"MISMATCH date.parse model={r}")
    | _ => (st, "BADLINE")
  | "sched", u :: n :: rest =>
    match unit? u, parseNat? n, date3? rest with
    | some u, some n, some (s, r2) =>
      match date3? r2 with
      | some (e, []) =>
        let model := Scheduler.make s e u n
        match obs with
        | [o] =>
          let st' := { st with steps := [], modelOK := false }
          -- which malformed (start, end, unit, n) the constructor rejects, and with what exception, is outside the
          -- statement of C07 (it speaks about the steps of accepted schedulers): model comparison only
          match model with
          | .error k => (st', if o = errTok k then "ok" else s!"MISMATCH sched model={errTok k}")
          | .ok sc => (st', s!"MISMATCH sched model=ok {sc.steps.length}")
        | "ok" :: k :: more =>
          match parseNat? k with
          | some k =>
            match steps? k more with
            | some steps =>
              let st' := { st with start := s, end_ := e, unit := u, n := n, steps := steps }
              let agree := match model with | .ok sc => sc.steps == steps | .error _ => false
              let st' := { st' with modelOK := agree }
              if !(TilesCalendar s e steps) then
                (st', s!"PROPFAIL C07 TilesCalendar first={firstStartOK s steps} wf={steps.all stepWF} chain={chainOK steps} starts={steps.all (fun x => x.s.le e)} last={lastEndOK e steps}")
              else if (u == .day || (u == .week && n == 1)) && decide (n ≤ 28) &&
                  !(dayStepsOK (if u == .day then (n : Int) else 7) steps) then
                (st', "PROPFAIL C07 dayStepsOK")
              -- month steps: n whole calendar months each
              else if u == .month && !(monthStepsOK n steps) then
                (st', s!"PROPFAIL C07 month_steps a step of {n} month(s) starting on the first of a month does not end with the last day of its {n}-th month")
              -- left to the model: multi-week steps (the property states their tiling only, not their length:
              -- n successive one-week successors, each with the year-end merge) and inputs the model rejects
              else if !agree then
                (st', match model with
                  | .ok sc => s!"MISMATCH sched model-steps={sc.steps.length}"
                  | .error k => s!"MISMATCH sched model={errTok k}")
              else (st', "ok")
            | none => (st, "BADLINE")
          | none => (st, "BADLINE")
        | _ => (st, "BADLINE")
      | _ => (st, "BADLINE")
    | _, _, _ => (st, "BADLINE")
  | "lookup", rest =>
    match date3? rest with
    | some (x, []) =>
      let model := scheduleActionDate st.steps x
      let containing := (List.range st.steps.length).filter fun k => (st.steps[k]!).contains x
      let r := match model with | .ok k => s!"ok {k}" | .error e => errTok e
      -- property: the result is the unique containing step, or rejection when none
      let propOK : Bool := match obs with
        | ["ok", k] => (parseNat? k).any fun k => containing == [k]
        | [o] => o == errTok .invalid_argument && containing.isEmpty
        | _ => false
      -- C20: a date outside the schedule is a documented error (`C20_err_date_outside`: invalid_argument)
      let c20 := if containing.isEmpty && obs != [errTok .invalid_argument] then
          s!" ;; PROPFAIL C20 documented_error lookup date outside the schedule expected={errTok .invalid_argument} observed={" ".intercalate obs}"
        else ""
      if !propOK then (st, s!"PROPFAIL C07 lookup containing={containing}" ++ c20)
      -- unreachable once the predicate holds (the result is the unique containing step / the rejection)
      else (st, if " ".intercalate obs = r then "ok" else s!"MISMATCH lookup model={r}")
    | _ => (st, "BADLINE")
  | "yearly", [mo, da] =>
    match parseInt? mo, parseInt? da with
    | some mo, some da =>
      let model := scheduleYearly st.steps mo da
      let spec := st.steps.map (firesSpecYearly mo da)
      match obs with
      | [b] =>
        if st.steps.all shortStep && parseBits b != spec then (st, s!"PROPFAIL C08 yearly spec={showBits spec}")
        else (st, cmpBits cmd model obs)
      | _ => (st, "BADLINE")
    | _, _ => (st, "BADLINE")
  | "eoy", [] =>
    let model := scheduleEndOfYear st.steps
    let spec := st.steps.map firesSpecEndOfYear
    match obs with
    | [b] =>
      if st.steps.all shortStep && parseBits b != spec then (st, s!"PROPFAIL C08 end_of_year spec={showBits spec}")
      else (st, cmpBits cmd model obs)
    | _ => (st, "BADLINE")
  | "monthly", [] =>
    let model := scheduleMonthly st.steps
    let spec := st.steps.map firesSpecMonthly
    match obs with
    | [b] =>
      if st.steps.all shortStep && parseBits b != spec then (st, s!"PROPFAIL C08 monthly spec={showBits spec}")
      else (st, cmpBits cmd model obs)
    | _ => (st, "BADLINE")
  | "nsteps", [n] =>
    match parseNat? n with
    | some n =>
      -- definitional (theorem C08_nsteps): the n-th, 2n-th, ... step
      let spec := (List.range st.steps.length).map fun i => n > 0 && (i + 1) % n == 0
      match obs with
      | [b] => if n > 0 && parseBits b != spec then (st, s!"PROPFAIL C08 every_n_steps n={n} spec={showBits spec}")
               else (st, cmpBits cmd (scheduleNSteps st.steps n) obs)
      | _ => (st, cmpBits cmd (scheduleNSteps st.steps n) obs)
    | none => (st, "BADLINE")
  | "final", [] =>
    let spec := (List.range st.steps.length).map fun i => i + 1 == st.steps.length
    match obs with
    | [b] => if parseBits b != spec then (st, s!"PROPFAIL C08 final_step spec={showBits spec}")
             else (st, cmpBits cmd (scheduleEndOfSimulation st.steps) obs)
    | _ => (st, cmpBits cmd (scheduleEndOfSimulation st.steps) obs)
  | "spread", [s, e] =>
    match parseInt? s, parseInt? e with
    | some s, some e =>
      let spec := st.steps.map (firesSpecSpread s e)
      match obs with
      | [b] =>
        if parseBits b != spec then (st, s!"PROPFAIL C08 spread season={s}-{e} spec={showBits spec}")
        else (st, cmpBits cmd (scheduleSpread st.steps s e) obs)
      | _ => (st, cmpBits cmd (scheduleSpread st.steps s e) obs)
    | _, _ => (st, "BADLINE")
  | "fromstring", [freq, n] =>
    match parseNat? n with
    | some n =>
      let freq := if freq = "<empty>" then "" else freq
      let sc : Scheduler := ⟨st.start, st.end_, st.unit, st.n, st.steps⟩
      let cmp := cmpExceptBits cmd (scheduleFromString sc freq n) obs
      let obsBits : Option (List Bool) := match obs with
        | ["ok", b] => some (parseBits b) | ["ok"] => some [] | _ => none
      let o := " ".intercalate obs
      -- C08 on the observed result: the named schedule is judged by its definition (`C08_frequency` names the
      -- builder, `C08_end_of_year` / `C08_monthly` / `C08_nsteps` say where it fires), an incompatible frequency
      -- must be rejected; C20: an unknown name is a documented error (`C20_err_frequency`). The exception KIND
      -- of an incompatible frequency, the empty name, n = 0 and the firing steps of compatible weekly / daily
      -- schedules are not stated by C08: model comparison only.
      match freqSpec st.unit st.n st.steps freq n with
      | .bits sp =>
        (st, if obsBits != some sp then
               s!"PROPFAIL C08 frequency {freq} n={n} observed={o} definition={showBits sp}"
             else cmp)
      | .reject =>
        (st, if obsBits.isSome then
               s!"PROPFAIL C08 incompatible_frequency_accepted frequency {freq} with steps of {st.n} {unitName st.unit} observed={o}"
             else cmp)
      | .unknown =>
        (st, if obs != [errTok .invalid_argument] then
               s!"PROPFAIL C20 documented_error fromstring unknown frequency name {freq} expected={errTok .invalid_argument} observed={o} ;; {cmp}"
             else cmp)
      | .open_ => (st, cmp)
    | none => (st, "BADLINE")
  | "weather", [size] =>
    match parseNat? size with
    | some size =>
      let r := match scheduleWeather st.steps.length size with
        | .ok l => "ok " ++ " ".intercalate (l.map toString)
        | .error e => errTok e
      -- C08: the weather index of step i is i modulo the length of the series (`C08_weather`), for the steps the
      -- implementation produced; the rejection of an empty series is outside the quantifier (length >= 1)
      let spec := "ok" :: (List.range st.steps.length).map fun i => toString (i % size)
      (st, if size > 0 && obs != spec then
             s!"PROPFAIL C08 weather_index series length={size} steps={st.steps.length} observed={" ".intercalate obs} definition: index of step i = i mod {size}"
           else if (" ".intercalate obs).trimAscii.toString = r.trimAscii.toString then "ok" else s!"MISMATCH weather model={r}")
    | none => (st, "BADLINE")
  | "actionstep", [bits, step] =>
    match parseNat? step with
    | some step =>
      let sched := if bits = "-" then [] else parseBits bits
      let r := match simulationStepToActionStep sched step with
        | .ok k => s!"ok {k}" | .error e => errTok e
      -- C08: the k-th firing step maps to action index k-1 (number of earlier firings), theorem C08_index_bijection
      let firing := sched[step]? == some true
      let spec := (sched.take step).filter id |>.length
      -- left to the model: the value returned for a step that does not fire and the exception past the end
      -- (the property maps firing steps only)
      (st, if firing && obs != ["ok", toString spec] then
             s!"PROPFAIL C08 index_bijection step={step} is firing number {spec + 1}, expected index {spec}, observed {obs}"
           else if " ".intercalate obs = r then "ok" else s!"MISMATCH actionstep model={r}")
    | none => (st, "BADLINE")
  | "count", [bits] =>
    let sched := if bits = "-" then [] else parseBits bits
    let r := toString (numberOfScheduledActions sched)
    -- C08: "the number of firings equals the number of input rasters the caller must supply"
    -- (`C08_index_bijection`: the indices of the firing steps are exactly 0 .. count-1)
    let firings := (sched.filter id).length
    (st, if obs != [toString firings] then
           s!"PROPFAIL C08 firing_count schedule={bits} has {firings} firing steps, get_number_of_scheduled_actions observed={" ".intercalate obs}"
         else if obs = [r] then "ok" else s!"MISMATCH count model={r}")
  -- Config::create_schedules: all calendar settings => the schedules the accessors return
  | "cfgsched", [u, n, s1, s2, s3, e1, e2, e3, ss, se, outF, outN, um, mF, mN, ul, lM, us, sM, sD, ur, rF, rN, uq, qF, qN, wS] =>
    let un (x : String) := if x = "<empty>" then "" else x
    match unit? u, parseNat? n, parseInts? [s1, s2, s3, e1, e2, e3, ss, se, lM, sM, sD], (parseNat? outN, parseNat? mN, parseNat? rN, parseNat? qN, parseNat? wS) with
    | some u, some n, some [s1, s2, s3, e1, e2, e3, ss, se, lM, sM, sD], (some outN, some mN, some rN, some qN, some wS) =>
      let c : CalCfg := {
        start := ⟨s1, s2, s3⟩, end_ := ⟨e1, e2, e3⟩, unit := u, n := n, seasonStart := ss, seasonEnd := se,
        outFreq := un outF, outN := outN, useMortality := um == "1", mortFreq := un mF, mortN := mN,
        useLethal := ul == "1", lethalMonth := lM, useSurvival := us == "1", survMonth := sM, survDay := sD,
        useRates := ur == "1", ratesFreq := un rF, ratesN := rN, useQuarantine := uq == "1", quarFreq := un qF, quarN := qN,
        weatherSize := wS }
      let showOpt (o : Option (List Bool)) : String := match o with | none => "off" | some l => (if l.isEmpty then "-" else showBits l)
      let r := match createSchedules c with
        | .error e => errTok e
        | .ok sch =>
          let w := match sch.weather with | none => "off" | some l => ",".intercalate (l.map toString)
          s!"ok {sch.steps.length} spread={showBits sch.spread} output={if sch.output.isEmpty then "-" else showBits sch.output} mortality={showOpt sch.mortality} lethal={showOpt sch.lethal} survival={showOpt sch.survival} rates={showOpt sch.rates} quarantine={showOpt sch.quarantine} weather={w}"
      let o := " ".intercalate obs
      -- C08 on the implementation's own output: the schedule each accessor returns must be the
      -- definitional schedule of the configured frequency / date, evaluated by date enumeration on
      -- the steps (short steps only) resp. by index arithmetic
      let getO (key : String) : Option String := obs.findSome? fun t =>
        if t.startsWith (key ++ "=") then some (t.drop (key.length + 1)).toString else none
      let specOf (steps : List Step) (freq : String) (fn : Nat) : Option (List Bool) :=
        if freq = "year" ∨ freq = "yearly" then some (steps.map firesSpecEndOfYear)
        else if freq = "month" ∨ freq = "monthly" then some (steps.map firesSpecMonthly)
        else if freq = "final_step" then some (scheduleEndOfSimulation steps)
        else if freq = "every_n_steps" ∧ fn > 0 then some (scheduleNSteps steps fn)
        else if freq = "every_step" ∨ freq = "time_step" then some (scheduleNSteps steps 1)
        else if freq = "" then some (List.replicate steps.length false)
        else none
      let propFail : Option String :=
        match Scheduler.make c.start c.end_ c.unit c.n, obs.head? with
        | .ok sc, some "ok" =>
          -- "a frequency incompatible with the step length is rejected" (`C08_frequency`, `C08_config_wiring`):
          -- create_schedules must not succeed when a feature in use (or the output) names one
          let incompat (key : String) (use : Bool) (freq : String) : Option String :=
            if use && freqSpec c.unit c.n sc.steps freq 1 == .reject then
              some s!"PROPFAIL C08 config_wiring {key} incompatible_frequency_accepted frequency {freq} with steps of {c.n} {unitName c.unit}"
            else none
          -- the weather table: index of step i = i mod the length of the series (`C08_weather`)
          let wchk : Option String :=
            if c.weatherSize = 0 then none else
            let sp := ",".intercalate ((List.range sc.steps.length).map fun i => toString (i % c.weatherSize))
            match getO "weather" with
            | some v => if v == sp then none else some s!"PROPFAIL C08 config_wiring weather observed={v} definition: index of step i = i mod {c.weatherSize}: {sp}"
            | none => none
          (incompat "output" true c.outFreq).orElse fun _ =>
          (incompat "mortality" c.useMortality c.mortFreq).orElse fun _ =>
          (incompat "rates" c.useRates c.ratesFreq).orElse fun _ =>
          (incompat "quarantine" c.useQuarantine c.quarFreq).orElse fun _ =>
          if !(sc.steps.all shortStep) then wchk else
          wchk.orElse fun _ =>
          let chk (key : String) (use : Bool) (spec : Option (List Bool)) : Option String :=
            match getO key, spec with
            | some v, some sp =>
              if !use then (if v == "off" then none else some s!"PROPFAIL C08 config_wiring {key} expected=off")
              else if v == "off" then some s!"PROPFAIL C08 config_wiring {key} missing"
              else if parseBits (if v == "-" then "" else v) != sp then some s!"PROPFAIL C08 config_wiring {key} observed={v} expected={showBits sp}"
              else none
            | _, _ => none
          (chk "spread" true (some (sc.steps.map (firesSpecSpread c.seasonStart c.seasonEnd)))).orElse fun _ =>
          (chk "output" true (specOf sc.steps c.outFreq c.outN)).orElse fun _ =>
          (chk "mortality" c.useMortality (specOf sc.steps c.mortFreq c.mortN)).orElse fun _ =>
          (chk "lethal" c.useLethal (some (sc.steps.map (firesSpecYearly c.lethalMonth 1)))).orElse fun _ =>
          (chk "survival" c.useSurvival (some (sc.steps.map (firesSpecYearly c.survMonth c.survDay)))).orElse fun _ =>
          (chk "rates" c.useRates (specOf sc.steps c.ratesFreq c.ratesN)).orElse fun _ =>
          (chk "quarantine" c.useQuarantine (specOf sc.steps c.quarFreq c.quarN))
        | _, _ => none
      match propFail with
      | some v => (st, v)
      -- left to the model: the number of steps (C07), steps of a year or longer, a disabled weather table, which
      -- exception rejects a configuration and configurations the model rejects for other reasons
      | none => (st, if o = r then "ok" else s!"MISMATCH cfgsched model={r}")
    | _, _, _, _ => (st, "BADLINE")
  | "unit", [s] =>
    let s := if s = "<empty>" then "" else s
    let r := match stepUnitFromString s with
      | .ok .day => "ok day" | .ok .week => "ok week" | .ok .month => "ok month" | .error e => errTok e
    -- step-unit names are in neither C07's statement nor C20's list of documented errors
    (st, if " ".intercalate obs = r then "ok" else s!"MISMATCH unit model={r}")
  | _, _ => (st, "BADLINE")

end Pops.Driver.DateEng
