/-
  C20  No undefined behaviour inside the documented domain; documented errors throw.
  What Lean decides here: the documented error kind of every invalid-input class on the model,
  and index safety of the modelled landscape algorithms. Memory safety, lifetimes and signed
  overflow of the C++ are runtime facts, explored by the sanitizer runs of all harnesses.
-/
import PopsModel.Model.Errors
import PopsModel.Model.Actions
import PopsModel.Props.C08
import PopsModel.Props.C12
namespace Pops

/-- Unknown model-type, weather-type, treatment-application, step-unit names and arrival
    behaviours are rejected with invalid_argument; every documented spelling is accepted. -/
theorem C20_err_names :
    (∀ s, s ∉ ["SI", "SusceptibleInfected", "susceptible-infected", "susceptible_infected", "SEI",
        "SusceptibleExposedInfected", "susceptible-exposed-infected", "susceptible_exposed_infected"] →
        modelTypeFromString s = .error .invalid_argument) ∧
    (∀ s, s ∉ ["deterministic", "Deterministic", "probabilistic", "Probabilistic", "", "none", "None", "NONE"] →
        weatherTypeFromString s = .error .invalid_argument) ∧
    (∀ s, s ∉ ["ratio_to_all", "ratio", "all_infected_in_cell", "all infected"] →
        treatAppFromString s = .error .invalid_argument) ∧
    (∀ s, s ∉ ["day", "week", "month"] → stepUnitFromString s = .error .invalid_argument) ∧
    (∀ s, s ∉ ["infect", "land"] → setArrivalBehavior s = .error .invalid_argument) ∧
    modelTypeFromString "SI" = .ok .si ∧ modelTypeFromString "SEI" = .ok .sei ∧
    weatherTypeFromString "probabilistic" = .ok .probabilistic ∧ treatAppFromString "ratio" = .ok .ratio := by
  refine ⟨?_, ?_, ?_, ?_, ?_, by simp [modelTypeFromString], by simp [modelTypeFromString], by simp [weatherTypeFromString], by simp [treatAppFromString]⟩
  · intro s h; simp only [List.mem_cons, List.not_mem_nil, or_false, not_or] at h
    simp [modelTypeFromString, h]
  · intro s h; simp only [List.mem_cons, List.not_mem_nil, or_false, not_or] at h
    simp [weatherTypeFromString, h]
  · intro s h; simp only [List.mem_cons, List.not_mem_nil, or_false, not_or] at h
    simp [treatAppFromString, h]
  · intro s h; simp only [List.mem_cons, List.not_mem_nil, or_false, not_or] at h
    simp [stepUnitFromString, h]
  · intro s h; simp only [List.mem_cons, List.not_mem_nil, or_false, not_or] at h
    simp [setArrivalBehavior, h]

/-- An unknown frequency name is rejected (every accepted name is characterised in C08_frequency). -/
theorem C20_err_frequency (sc : Scheduler) (n : Nat) (f : String)
    (h : f ∉ ["", "final_step", "year", "yearly", "month", "monthly", "week", "weekly", "day", "daily",
              "every_n_steps", "every_step", "time_step"]) :
    scheduleFromString sc f n = .error .invalid_argument := by
  simp only [List.mem_cons, List.not_mem_nil, or_false, not_or] at h
  simp [scheduleFromString, h]

/-- Dates outside the schedule are rejected: by the lookup itself and by `add_treatment` for the
    start date and for the end date of a pesticide. -/
theorem C20_err_date_outside (steps : List Step) (d : Date) (n : Nat)
    (h : ∀ st ∈ steps, st.contains d = false) :
    scheduleActionDate steps d = .error .invalid_argument ∧
    addTreatment steps d n = .error .invalid_argument := by
  have h1 : scheduleActionDate steps d = .error .invalid_argument := by
    obtain ⟨_, l2, _⟩ := lookup_first d steps 0
    unfold scheduleActionDate
    cases hr : scheduleActionDateAux d steps 0 with
    | ok k =>
      obtain ⟨l1, _, _⟩ := lookup_first d steps 0
      obtain ⟨j, st, _, e2, e3⟩ := l1 k hr
      rw [h st (List.mem_of_getElem? e2)] at e3; cases e3
    | error e => rw [(l2 e hr).1]
  refine ⟨h1, ?_⟩
  simp [addTreatment, h1, bind, Except.bind]

/-- Cohort lists of the wrong length are rejected by the removal and the resistance primitives. -/
theorem C20_err_cohort_length (c : Cell) (sR : Int) (eR : List Int) (iR : Int) (mR : List Int) :
    (eR.length ≠ c.e.length → c.completelyRemove sR eR iR mR = .error .invalid_argument) ∧
    (0 < iR → eR.length = c.e.length → mR.length ≠ c.mort.length →
        c.completelyRemove sR eR iR mR = .error .invalid_argument) ∧
    (sR ≤ c.s → eR.length ≠ c.e.length → c.makeResistant sR eR iR mR = .error .invalid_argument) ∧
    (sR ≤ c.s → eR.length = c.e.length → mR.length ≠ c.mort.length →
        c.makeResistant sR eR iR mR = .error .invalid_argument) ∧
    (c.s < sR → c.makeResistant sR eR iR mR = .error .invalid_argument) := by
  refine ⟨?_, ?_, ?_, ?_, ?_⟩
  · intro h
    unfold Cell.completelyRemove
    by_cases hs : sR > 0 <;> simp [hs, h]
  · intro hi he hm
    unfold Cell.completelyRemove
    have hi' : ¬ iR ≤ 0 := by omega
    have hm' : c.mort.length ≠ mR.length := fun x => hm x.symm
    by_cases hs : sR > 0 <;> simp [hs, he, hi', hm']
  · intro hs h
    have : ¬ c.s < sR := by omega
    simp [Cell.makeResistant, this, h]
  · intro hs he hm
    have : ¬ c.s < sR := by omega
    have hm' : c.mort.length ≠ mR.length := fun x => hm x.symm
    simp [Cell.makeResistant, this, he, hm']
  · intro hs; simp [Cell.makeResistant, hs]

/-- Missing weather or temperature data is a logic_error; a mortality request without a pest-host
    table, an empty soil pool and schedule accessors used too early or for disabled features are
    rejected as documented. -/
theorem C20_err_missing (k : Nat) (t : Option (List Rat)) (w : Option (List Rat)) (c : Cell) :
    (EnvState.weatherAt ⟨none, t⟩ k = .error .logic_error) ∧
    (EnvState.temperatureAt ⟨w, none⟩ k = .error .logic_error) ∧
    applyMortalityViaTable none c = .error .invalid_argument ∧
    soilPoolNew 0 = .error .logic_error ∧
    (∀ b, configAccessor false b = .error .logic_error) ∧
    (∀ b, configAccessor b false = .error .logic_error) ∧
    configAccessor true true = .ok () := by
  refine ⟨rfl, rfl, rfl, rfl, ?_, ?_, rfl⟩
  · intro b; cases b <;> rfl
  · intro b; cases b <;> rfl

/-- Suitabilities outside [0,1] are rejected (C12_suitability_range_rejected) and weather means
    outside [0,1] or mismatching shapes are rejected. -/
theorem C20_err_probabilities (mr mc sr sc : Nat) (means zs us : List Rat) :
    (mr ≠ sr → updateWeatherFromDistribution mr mc sr sc means zs us = .error .invalid_argument) ∧
    (mc ≠ sc → updateWeatherFromDistribution mr mc sr sc means zs us = .error .invalid_argument) ∧
    ((∃ m ∈ means, m < 0 ∨ m > 1) → updateWeatherFromDistribution mr mc sr sc means zs us = .error .invalid_argument) := by
  refine ⟨?_, ?_, ?_⟩
  · intro h; simp [updateWeatherFromDistribution, h]
  · intro h
    unfold updateWeatherFromDistribution
    by_cases h1 : mr ≠ sr <;> simp [h1, h]
  · rintro ⟨m, hm, hr⟩
    unfold updateWeatherFromDistribution
    by_cases h1 : mr ≠ sr
    · simp [h1]
    · by_cases h2 : mc ≠ sc
      · simp [h1, h2]
      · have : means.any (fun m => decide (m < 0) || decide (m > 1)) = true := by
          rw [List.any_eq_true]; exact ⟨m, hm, by rcases hr with h | h <;> simp [h]⟩
        simp [h1, h2, this]

/-- C12 (weather part): coefficients drawn from a distribution always lie in [0,1]: the normal
    draw is kept only inside the range, otherwise the uniform draw from [0,1) is used. -/
theorem C12_weather_range (mr mc sr sc : Nat) (means zs us out : List Rat)
    (hu : ∀ k : Nat, k < means.length → 0 ≤ us[k]! ∧ us[k]! ≤ 1)
    (h : updateWeatherFromDistribution mr mc sr sc means zs us = .ok out) :
    out.length = means.length ∧ ∀ x ∈ out, 0 ≤ x ∧ x ≤ 1 := by
  unfold updateWeatherFromDistribution at h
  split at h; · cases h
  split at h; · cases h
  split at h; · cases h
  simp only [Except.ok.injEq] at h
  subst h
  refine ⟨by simp, ?_⟩
  intro x hx
  simp only [List.mem_map, List.mem_range] at hx
  obtain ⟨k, hk, rfl⟩ := hx
  unfold normalWithFallback
  split
  · exact hu k hk
  · rename_i hz
    have : ¬ zs[k]! < 0 ∧ ¬ zs[k]! > 1 := by
      constructor
      · intro h; exact hz (Or.inl h)
      · intro h; exact hz (Or.inr h)
    exact ⟨Rat.not_lt.mp this.1, Rat.not_lt.mp this.2⟩

/-- C12 (weather part), degenerate deviation: a cell whose standard deviation is 0 gets its mean
    (which has passed the range test) - the range test is never by-passed for such cells. -/
theorem C12_weather_degenerate (mr mc sr sc : Nat) (means sds ns us out : List Rat)
    (h : updateWeatherFromDistribution mr mc sr sc means (weatherZs means sds ns) us = .ok out)
    (k : Nat) (hk : k < means.length) (hs : sds[k]! = 0) :
    out[k]! = means[k]! ∧ 0 ≤ means[k]! ∧ means[k]! ≤ 1 := by
  unfold updateWeatherFromDistribution at h
  split at h; · cases h
  split at h; · cases h
  split at h; · cases h
  rename_i hany
  simp only [Except.ok.injEq] at h
  subst h
  have hmem : means[k]! ∈ means := by
    rw [getElem!_pos means k hk]; exact List.getElem_mem hk
  have hm1 : ¬ (means[k]! < 0) := fun hlt =>
    hany (List.any_eq_true.mpr ⟨_, hmem, by rw [Bool.or_eq_true]; exact Or.inl (decide_eq_true hlt)⟩)
  have hm2 : ¬ (means[k]! > 1) := fun hgt =>
    hany (List.any_eq_true.mpr ⟨_, hmem, by rw [Bool.or_eq_true]; exact Or.inr (decide_eq_true hgt)⟩)
  have hz : (weatherZs means sds ns)[k]! = means[k]! := by
    unfold weatherZs
    rw [getElem!_pos _ k (by simpa using hk), List.getElem_map, List.getElem_range]
    unfold normalDraw
    rw [hs, Rat.mul_zero, Rat.zero_add]
  refine ⟨?_, Rat.not_lt.mp hm1, Rat.not_lt.mp hm2⟩
  rw [getElem!_pos _ k (by simpa using hk), List.getElem_map, List.getElem_range]
  unfold normalWithFallback
  rw [hz, if_neg (fun h => h.elim hm1 hm2)]

example : updateWeatherFromDistribution 1 2 1 2 [1, 0] (weatherZs [1, 0] [0, 3] [7, 1]) [0, 0]
    = .ok [1, 0] := by
  simp +decide [updateWeatherFromDistribution, weatherZs, normalDraw, normalWithFallback, List.range, List.range.loop]
  have e1 : (0 : Rat) + 1 = 1 := by grind
  have e2 : (3 : Rat) + 0 = 3 := by grind
  rw [e1, e2]
  decide

/-- Index safety of the landscape algorithms: a cell that passes the outside test has an index
    inside the raster buffers, for every raster shape (single cell, single row, single column,
    rows ≠ cols) and however far outside the kernel throws a disperser. -/
theorem C20_index_in_range (g : Grid) (r c : Int)
    (h : g.isOutside r c = false) : (g.idx r c : Int) < g.rows * g.cols ∧ 0 ≤ r * g.cols + c := by
  simp only [Grid.isOutside, Bool.or_eq_false_iff, decide_eq_false_iff_not, Int.not_lt, ge_iff_le, Int.not_le] at h
  obtain ⟨⟨⟨h1, h2⟩, h3⟩, h4⟩ := h
  have hc : 0 ≤ g.cols := by omega
  have hnn : 0 ≤ r * g.cols := Int.mul_nonneg h1 hc
  have hle : r * g.cols + g.cols ≤ g.rows * g.cols := by
    have : (r + 1) * g.cols ≤ g.rows * g.cols := Int.mul_le_mul_of_nonneg_right (by omega) hc
    rw [Int.add_mul, Int.one_mul] at this
    exact this
  refine ⟨?_, by omega⟩
  simp only [Grid.idx]
  have : ((r * g.cols + c).toNat : Int) = r * g.cols + c := Int.toNat_of_nonneg (by omega)
  rw [this]; omega

/-- A disperser thrown outside never touches a host raster (SI with an empty exposed list, cells
    without hosts and zero dispersers included: the landing step only ever indexes the target). -/
theorem C20_outside_untouched (g : Grid) (env : DisperseEnv) (cells : List Cell) (p : PestState)
    (t : Int × Int) (us : List Rat) (h : g.isOutside t.1 t.2 = true) :
    landOne g env cells p t us = .ok (cells, { p with outside := p.outside ++ [t] }, false, us) := by
  obtain ⟨tr, tc⟩ := t
  simp only at h
  simp [landOne, h]

example : (⟨1, 1⟩ : Grid).isOutside 0 0 = false ∧ (⟨1, 1⟩ : Grid).isOutside (-1000) 4000 = true := by decide

end Pops
