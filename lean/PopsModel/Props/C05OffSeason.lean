/-
  C05 "off-season frame": exposed cohorts age by exactly one position per spread step, and a host
  exposed during spread step t stays exposed until spread step t+L. Hence in a model step that is
  NOT a spread step nothing ages and nothing matures: every exposed cohort of every cell can only
  shrink (removals by lethal temperature / survival rate / treatments), the cohort vector keeps its
  length, and infected does not grow - whatever else is enabled and scheduled in that step.
-/
import PopsModel.Props.C01Step
import PopsModel.Lemmas.OffSeason
namespace Pops

/-- Off-season frame over one `run_step`: when the spread schedule is off at `step`, then for every
    combination of the other enabled and scheduled actions, every input raster and every random
    draw in the documented domain along the run (`GensDomainAlong`: each action's operations are in
    their domain at the landscape that action finds), the resulting landscape has the same cells,
    in each of them no exposed cohort grew, the cohort vector kept its length and infected did not
    grow. (Uniform cohort lengths across cells are not needed.) -/
theorem C05_offseason_frame (cfg : StepCfg) (inp : StepInputs) (step : Nat) (l l' : Land)
    (hns : schedAt cfg.spreadSched step = false)
    (hinv : l.inv)
    (hd : GensDomainAlong (stepGens cfg inp step) l)
    (h : runStepHosts cfg inp step l = .ok l') :
    offSeasonFrame l l' = true :=
  (offSeasonFrame_iff l l').mpr
    (gens_frozen (stepGens cfg inp step) l l' (stepGens_offSeason cfg inp step hns) hinv hd h).1

/-- The same with the state-independent domain hypothesis of `C01_model_step` (every action in
    its domain at every consistent landscape). That hypothesis implies the one above; note that it
    is unsatisfiable for SEI inputs (`uniform_domain_unsat_sei`), which is why the main statement
    takes the domain along the run. -/
theorem C05_offseason_frame_of_uniform_domain (cfg : StepCfg) (inp : StepInputs) (step : Nat)
    (l l' : Land)
    (hns : schedAt cfg.spreadSched step = false)
    (hinv : l.inv) (hu : l.uniform)
    (hd : ∀ a : ActionKind, ∀ x : Land, x.inv → x.uniform → DomainAlong (actionGen inp step a x) x)
    (h : runStepHosts cfg inp step l = .ok l') :
    offSeasonFrame l l' = true :=
  C05_offseason_frame cfg inp step l l' hns hinv
    (gensDomainAlong_of_forall (stepGens cfg inp step) l hinv hu (by
      intro gen hg x hx hxu
      simp only [stepGens, List.mem_map] at hg
      obtain ⟨a, _, rfl⟩ := hg
      exact hd a.1 x hx hxu)) h

/-- Per operation: lethal temperature, survival rate, treatments and mortality, in their domain on
    a non-negative cell, leave the exposed cohorts frozen. -/
theorem C05_offseason_op (op : CellOp) (c c' : Cell) (hop : op.offSeason = true)
    (hd : op.inDomain c) (hn : c.nonNeg = true) (h : op.apply c = .ok c') :
    exposedFrozen c c' = true :=
  cellOp_frozen op c c' hop hd hn h

/-- Trace level: the latency step is not part of the plan of a step that is not a spread step. -/
theorem C05_no_ageing_outside_spread_steps (cfg : StepCfg) (step : Nat)
    (hns : schedAt cfg.spreadSched step = false) :
    ActionKind.stepForward ∉ (plan cfg step).map (·.1) := by
  intro hm
  have hr := (act_plan_iff cfg step .stepForward).mp hm
  simp only [StepCfg.runs, hns] at hr
  cases hr

/-! ### a non-trivial instance: SEI, one cell with exposed cohorts [2, 3], step 0 outside the
    spread season, survival rate 1/2, a host-removal treatment with coefficient 1/2 and mortality
    with rate 1/2 all active (overpopulation and movements enabled but tied to the spread season) -/

def c05OffCfg : StepCfg :=
  { soils := false, useLethal := false, lethalSched := [], useSurvival := true, survivalSched := [true],
    spreadSched := [false], useOverpop := true, useMovements := true, useTreatments := true,
    useMortality := true, mortalitySched := [true], useSpreadRates := false, rateSched := [],
    useQuarantine := false, quarantineSched := [] }

def c05OffInp : StepInputs :=
  { g := ⟨1, 1⟩, mt := .sei, latency := 1, suit := [(0, 0)], lethalThreshold := 0, temperatures := [],
    lethalDraws := [], survivalRates := [1/2], survivalDrawsI := [[1, 1]], survivalDrawsE := [[1, 1]],
    landings := [], stochasticEst := false, pEst := 0, overThreshold := 0, overLeaving := 0,
    overTargets := [], moves := [], treatEvents := [(false, false, .ratio, [1/2])],
    mortalityRate := 1/2, mortalityLag := 0 }

def c05OffLand : Land := [⟨10, [2, 3], 4, 0, 5, [1, 3], 0, 19⟩]

/-- The step runs: survival rate, then the treatment, then mortality; the exposed cohorts go from
    [2, 3] to [0, 1] and infected from 4 to 1. -/
theorem c05Off_run :
    runStepHosts c05OffCfg c05OffInp 0 c05OffLand = .ok [⟨7, [0, 1], 1, 0, 1, [1, 0], 0, 9⟩] :=
  eq_ok_of_runYields (by decide +kernel)

theorem c05Off_plan :
    plan c05OffCfg 0 = [(.survival, some 0), (.treatments, none), (.mortality, none)] := by
  decide +kernel

theorem c05Off_domain : GensDomainAlong (stepGens c05OffCfg c05OffInp 0) c05OffLand := by
  have hp : stepGens c05OffCfg c05OffInp 0 =
      [actionGen c05OffInp 0 .survival, actionGen c05OffInp 0 .treatments,
       actionGen c05OffInp 0 .mortality] := by
    simp only [stepGens, c05Off_plan, List.map]
  rw [hp]
  refine ⟨?_, fun l1 _ => ⟨?_, fun l2 _ => ⟨?_, fun _ _ => trivial⟩⟩⟩
  · -- survival rate 1/2 at the only cell, with draws [1,1] of the 2 infected and 2 exposed removed
    have hops : actionGen c05OffInp 0 .survival c05OffLand =
        [.at 0 (.survival (1/2) [1, 1] [1, 1])] := rfl
    rw [hops]
    refine ⟨?_, fun _ _ => trivial⟩
    intro c hc
    have hc' : c = ⟨10, [2, 3], 4, 0, 5, [1, 3], 0, 19⟩ := by
      simp only [c05OffLand, List.getElem?_cons_zero, Option.some.injEq] at hc
      exact hc.symm
    subst hc'
    refine ⟨half_in_unit.1, half_in_unit.2, fun _ => ⟨?_, ?_⟩⟩
    · unfold ValidDraw; decide +kernel
    · unfold ValidDraw; decide +kernel
  · -- the treatment coefficient 1/2 is in [0,1] whatever the landscape
    have hops : actionGen c05OffInp 0 .treatments l1 = [.at 0 (.simpleTreat (1/2) .ratio)] := rfl
    rw [hops]
    exact domainAlong_of_static _ (by
      intro op hop x
      simp only [List.mem_singleton] at hop; subst hop
      intro c _
      exact half_in_unit) l1
  · -- mortality rate 1/2 (0 outside the suitable cells) and lag 0 are in their domain
    refine domainAlong_of_static _ ?_ l2
    intro op hop x
    simp only [actionGen, List.mem_map] at hop
    obtain ⟨k, _, rfl⟩ := hop
    intro c _
    show (0 : Rat) ≤ _ ∧ _ ≤ (1 : Rat) ∧ (0 : Int) ≤ _
    split
    · exact ⟨half_in_unit.1, half_in_unit.2, by decide⟩
    · exact ⟨by grind, by grind, by decide⟩

/-- The hypotheses of `C05_offseason_frame` hold for this instance, and so does its conclusion. -/
example :
    schedAt c05OffCfg.spreadSched 0 = false ∧ c05OffLand.inv ∧
    GensDomainAlong (stepGens c05OffCfg c05OffInp 0) c05OffLand ∧
    runStepHosts c05OffCfg c05OffInp 0 c05OffLand = .ok [⟨7, [0, 1], 1, 0, 1, [1, 0], 0, 9⟩] ∧
    offSeasonFrame c05OffLand [⟨7, [0, 1], 1, 0, 1, [1, 0], 0, 9⟩] = true ∧
    ActionKind.stepForward ∉ (plan c05OffCfg 0).map (·.1) := by
  have hns : schedAt c05OffCfg.spreadSched 0 = false := rfl
  have hinv : c05OffLand.inv := by
    intro c hc
    simp only [c05OffLand, List.mem_singleton] at hc
    subst hc
    exact ⟨by decide, by decide⟩
  exact ⟨hns, hinv, c05Off_domain, c05Off_run,
    C05_offseason_frame c05OffCfg c05OffInp 0 c05OffLand _ hns hinv c05Off_domain c05Off_run,
    C05_no_ageing_outside_spread_steps c05OffCfg 0 hns⟩

/-- The same instance satisfies the hypotheses of `C01_model_step` (SEI, survival rate, removal
    treatment and mortality in one step): 19 hosts before, 9 after, none reported dead in this step,
    10 removed by the treatment. -/
example :
    let l' : Land := [⟨7, [0, 1], 1, 0, 1, [1, 0], 0, 9⟩]
    l'.hosts = c05OffLand.hosts - (l'.died - c05OffLand.died) -
        removedByGens (stepGens c05OffCfg c05OffInp 0) c05OffLand ∧
    l'.hosts ≤ c05OffLand.hosts := by
  intro l'
  have hinv : c05OffLand.inv := by
    intro c hc
    simp only [c05OffLand, List.mem_singleton] at hc
    subst hc
    exact ⟨by decide, by decide⟩
  have hu : c05OffLand.uniform := by
    intro a ha b hb
    simp only [c05OffLand, List.mem_singleton] at ha hb
    subst ha; subst hb
    exact ⟨rfl, rfl⟩
  have := C01_model_step c05OffCfg c05OffInp 0 c05OffLand l' hinv hu c05Off_domain c05Off_run
  exact ⟨this.1, this.2.2.1⟩

/-- The per-operation statement on the same cell: survival rate 1/2 with valid draws. -/
example : ∃ c' : Cell,
    (CellOp.survival (1/2) [1, 1] [1, 1]).apply ⟨10, [2, 3], 4, 0, 5, [1, 3], 0, 19⟩ = .ok c' ∧
    exposedFrozen ⟨10, [2, 3], 4, 0, 5, [1, 3], 0, 19⟩ c' = true :=
  ⟨_, rfl, C05_offseason_op (.survival (1/2) [1, 1] [1, 1]) _ _ rfl
    ⟨half_in_unit.1, half_in_unit.2, fun _ =>
      ⟨by unfold ValidDraw; decide +kernel, by unfold ValidDraw; decide +kernel⟩⟩
    (by decide) rfl⟩

end Pops
