/-
  C17, several groups of pests arriving at the same destination (complements Props/C17.lean and
  Props/C17General.lean).

  The property sentence "at a destination min(arriving, susceptible) establish, the rest die" is
  about the TOTAL of all groups heading for the cell in this step: several overpopulated cells may
  send their pests to the same destination, and `MoveOverpopulatedPests::action` (actions.hpp, second
  loop) hands them to `HostPool::pests_to` one group after the other.

  * `C17_arrivals_same_cell`: two groups one after the other = one group of the total size.
  * `C17_arrivals_aggregate` (+ `_rc`): after all pending moves every cell holds its old infected
    count + min(total aimed at it, its susceptible count); nothing else changes.
  * `C17_arrivals_order_irrelevant`: the order of the groups does not matter.
  * `C17_overpopulation_aggregate`: the same for the whole action, on the landscape after ALL
    departures.
  * `C17_dropping_second_group_differs`: keeping only the first group per destination (what a
    `std::map::emplace` keyed by the destination would do) gives a different landscape.

  `arrivingAt`, `arrivingAtRC`, `arriveFirstOnly` are defined in Lemmas/C17Aggregate.lean.
-/
import PopsModel.Lemmas.C17Aggregate
import PopsModel.Props.C17General
namespace Pops

/-- Two groups arriving one after the other at the same cell leave the cell exactly as one group of
    the total size does, and the accepted numbers add up. Exact domain: the first group fits, or the
    second count is not negative - in particular for all counts `0 ≤ k2` (no condition on `c.s`, `k1`);
    `pests_to` touches the susceptible and infected counts only, so the cell equation covers every
    field. The hypothesis cannot be dropped (`C17_arrivals_same_cell_negative_counterexample`). -/
theorem C17_arrivals_same_cell (c : Cell) (k1 k2 : Int) (h : k1 ≤ c.s ∨ 0 ≤ k2) :
    ((c.pestsTo k1).1.pestsTo k2).1 = (c.pestsTo (k1 + k2)).1 ∧
    (c.pestsTo k1).2 + ((c.pestsTo k1).1.pestsTo k2).2 = (c.pestsTo (k1 + k2)).2 ∧
    (c.pestsTo (k1 + k2)).2 = min (k1 + k2) c.s :=
  ⟨(agg_pestsTo_pestsTo c k1 k2 h).1, (agg_pestsTo_pestsTo c k1 k2 h).2, (agg_pestsTo_eq c (k1 + k2)).2⟩

/-- 5 susceptible hosts, groups of 3 and 4: the first establishes entirely, of the second only 2;
    together min(7, 5) = 5 establish, 2 die. -/
example :
    let c : Cell := ⟨5, [], 2, 0, 0, [2], 0, 7⟩
    (c.pestsTo 3).2 = 3 ∧ ((c.pestsTo 3).1.pestsTo 4).2 = 2 ∧ (c.pestsTo (3 + 4)).2 = 5 ∧
    ((c.pestsTo 3).1.pestsTo 4).1 = ⟨0, [], 7, 0, 0, [2], 0, 7⟩ ∧
    ((c.pestsTo 3).1.pestsTo 4).1 = (c.pestsTo (3 + 4)).1 := by
  intro c
  have h := C17_arrivals_same_cell c 3 4 (Or.inr (by decide))
  exact ⟨by decide, by decide, by decide, by decide, h.1⟩

/-- With a first group that does not fit and a negative second count the statement fails:
    10 then -3 at 5 susceptible hosts accepts 5 - 3 = 2, one group of 7 accepts 5. -/
theorem C17_arrivals_same_cell_negative_counterexample :
    let c : Cell := ⟨5, [], 2, 0, 0, [2], 0, 7⟩
    (c.pestsTo 10).2 + ((c.pestsTo 10).1.pestsTo (-3)).2 = 2 ∧ (c.pestsTo (10 + -3)).2 = 5 ∧
    ((c.pestsTo 10).1.pestsTo (-3)).1 ≠ (c.pestsTo (10 + -3)).1 := by
  decide

/-- All arrivals of a step, cell by cell: for ANY raster, landscape and list of pending moves with
    non-negative counts, with `arrivingAt g ms k` = the total of the counts of the moves aimed at flat
    index `k`: no cell is added or removed, and every cell `k` of the landscape with a non-negative
    susceptible count ends as after ONE arrival of that total: its infected count grows by
    min(total arriving, susceptible), its susceptible count shrinks by the same number (the other
    `total - min` pests die), and no other field changes. (No condition on the targets: a move whose
    flat index is beyond the landscape changes nothing and is counted for no cell `k`; for targets
    inside the raster see `C17_arrivals_aggregate_rc`. `0 ≤ s` is needed only at the cell looked at,
    and there only when nothing arrives: `pests_to(0)` at a negative susceptible count is not the
    identity.) -/
theorem C17_arrivals_aggregate (g : Grid) (ms : List (Int × Int × Int)) (cells : List Cell)
    (hc : ∀ m ∈ ms, 0 ≤ m.2.2) :
    (arriveAll g ms cells).length = cells.length ∧
    ∀ k : Nat, k < cells.length → 0 ≤ (cells[k]!).s →
      0 ≤ arrivingAt g ms k ∧
      (arriveAll g ms cells)[k]! = ((cells[k]!).pestsTo (arrivingAt g ms k)).1 ∧
      ((arriveAll g ms cells)[k]!).i = (cells[k]!).i + min (arrivingAt g ms k) (cells[k]!).s ∧
      ((arriveAll g ms cells)[k]!).s = (cells[k]!).s - min (arrivingAt g ms k) (cells[k]!).s ∧
      ((arriveAll g ms cells)[k]!).e = (cells[k]!).e ∧ ((arriveAll g ms cells)[k]!).r = (cells[k]!).r ∧
      ((arriveAll g ms cells)[k]!).te = (cells[k]!).te ∧ ((arriveAll g ms cells)[k]!).mort = (cells[k]!).mort ∧
      ((arriveAll g ms cells)[k]!).died = (cells[k]!).died ∧ ((arriveAll g ms cells)[k]!).th = (cells[k]!).th := by
  refine ⟨agg_arriveAll_length g ms cells, fun k hk hs => ?_⟩
  have h := agg_arriveAll_get g ms cells k hc hk hs
  exact ⟨agg_arrivingAt_nonneg g ms k hc, h, agg_fields_of_eq_pestsTo _ _ _ h⟩

/-! #### a non-trivial instance: 2x3 raster; groups of 3 and 4 aimed at cell (0,1) (5 susceptible:
    5 establish, 2 die), groups of 2 and 1 aimed at cell (1,2) (10 susceptible: all 3 establish), one
    group of 2 aimed at cell (1,0); the groups for one cell are not adjacent in the list -/

def c17aGrid : Grid := ⟨2, 3⟩
def c17aCells : List Cell :=
  [⟨4, [], 0, 0, 0, [0], 0, 4⟩, ⟨5, [], 2, 0, 0, [2], 0, 7⟩, ⟨1, [], 1, 0, 0, [1], 0, 2⟩,
   ⟨6, [], 0, 0, 0, [0], 0, 6⟩, ⟨0, [], 3, 0, 0, [3], 0, 3⟩, ⟨10, [], 1, 0, 0, [1], 0, 11⟩]
def c17aMoves : List (Int × Int × Int) := [(0, 1, 3), (1, 2, 2), (0, 1, 4), (1, 0, 2), (1, 2, 1)]

example :
    (∀ m ∈ c17aMoves, 0 ≤ m.2.2) ∧
    arrivingAt c17aGrid c17aMoves 1 = 7 ∧ arrivingAt c17aGrid c17aMoves 5 = 3 ∧
    arrivingAt c17aGrid c17aMoves 3 = 2 ∧ arrivingAt c17aGrid c17aMoves 0 = 0 ∧
    ((arriveAll c17aGrid c17aMoves c17aCells)[1]!).i = 2 + 5 ∧ ((arriveAll c17aGrid c17aMoves c17aCells)[1]!).s = 0 ∧
    ((arriveAll c17aGrid c17aMoves c17aCells)[5]!).i = 1 + 3 ∧ ((arriveAll c17aGrid c17aMoves c17aCells)[5]!).s = 7 ∧
    (arriveAll c17aGrid c17aMoves c17aCells)[0]! = c17aCells[0]! ∧
    arriveAll c17aGrid c17aMoves c17aCells =
      [⟨4, [], 0, 0, 0, [0], 0, 4⟩, ⟨0, [], 7, 0, 0, [2], 0, 7⟩, ⟨1, [], 1, 0, 0, [1], 0, 2⟩,
       ⟨4, [], 2, 0, 0, [0], 0, 6⟩, ⟨0, [], 3, 0, 0, [3], 0, 3⟩, ⟨7, [], 4, 0, 0, [1], 0, 11⟩] := by
  have hc : ∀ m ∈ c17aMoves, 0 ≤ m.2.2 := by decide
  obtain ⟨_, h⟩ := C17_arrivals_aggregate c17aGrid c17aMoves c17aCells hc
  have e1 : arrivingAt c17aGrid c17aMoves 1 = 7 := by decide
  have e5 : arrivingAt c17aGrid c17aMoves 5 = 3 := by decide
  have e0 : arrivingAt c17aGrid c17aMoves 0 = 0 := by decide
  have h1 := h 1 (by decide) (by decide)
  have h5 := h 5 (by decide) (by decide)
  have h0 := h 0 (by decide) (by decide)
  rw [e1] at h1
  rw [e5] at h5
  rw [e0] at h0
  exact ⟨hc, e1, e5, by decide, e0, h1.2.2.1.trans (by decide), h1.2.2.2.1.trans (by decide),
    h5.2.2.1.trans (by decide), h5.2.2.2.1.trans (by decide), h0.2.1.trans (by decide), by decide +kernel⟩

/-- The same with the destination named by row and column: when all pending moves (as those
    collected by the first phase, `C17_two_phase`) and the cell (r, c) are inside the raster, the
    moves counted for the flat index of (r, c) are exactly the moves aimed at (r, c), so the cell
    (r, c) gains min(total of the groups aimed at (r, c), its susceptible count). -/
theorem C17_arrivals_aggregate_rc (g : Grid) (ms : List (Int × Int × Int)) (cells : List Cell)
    (hc : ∀ m ∈ ms, 0 ≤ m.2.2) (hin : ∀ m ∈ ms, g.isOutside m.1 m.2.1 = false)
    (r c : Int) (hrc : g.isOutside r c = false) (hk : g.idx r c < cells.length)
    (hs : 0 ≤ (cells[g.idx r c]!).s) :
    arrivingAt g ms (g.idx r c) = arrivingAtRC ms r c ∧
    (arriveAll g ms cells)[g.idx r c]! = ((cells[g.idx r c]!).pestsTo (arrivingAtRC ms r c)).1 ∧
    ((arriveAll g ms cells)[g.idx r c]!).i =
      (cells[g.idx r c]!).i + min (arrivingAtRC ms r c) (cells[g.idx r c]!).s ∧
    ((arriveAll g ms cells)[g.idx r c]!).s =
      (cells[g.idx r c]!).s - min (arrivingAtRC ms r c) (cells[g.idx r c]!).s := by
  have e := agg_arrivingAt_rc g ms r c hin hrc
  have h := ((C17_arrivals_aggregate g ms cells hc).2 (g.idx r c) hk hs).2
  rw [e] at h
  exact ⟨e, h.1, h.2.1, h.2.2.1⟩

example :
    (∀ m ∈ c17aMoves, c17aGrid.isOutside m.1 m.2.1 = false) ∧ arrivingAtRC c17aMoves 0 1 = 3 + 4 ∧
    ((arriveAll c17aGrid c17aMoves c17aCells)[c17aGrid.idx 0 1]!).i = 2 + 5 ∧
    arrivingAtRC c17aMoves 1 2 = 2 + 1 ∧
    ((arriveAll c17aGrid c17aMoves c17aCells)[c17aGrid.idx 1 2]!).i = 1 + 3 := by
  have hc : ∀ m ∈ c17aMoves, 0 ≤ m.2.2 := by decide
  have hin : ∀ m ∈ c17aMoves, c17aGrid.isOutside m.1 m.2.1 = false := by decide
  have h1 := C17_arrivals_aggregate_rc c17aGrid c17aMoves c17aCells hc hin 0 1 (by decide) (by decide) (by decide)
  have h5 := C17_arrivals_aggregate_rc c17aGrid c17aMoves c17aCells hc hin 1 2 (by decide) (by decide) (by decide)
  have e1 : arrivingAtRC c17aMoves 0 1 = 3 + 4 := by decide
  have e5 : arrivingAtRC c17aMoves 1 2 = 2 + 1 := by decide
  rw [e1] at h1
  rw [e5] at h5
  exact ⟨hin, e1, h1.2.2.1.trans (by decide), e5, h5.2.2.1.trans (by decide)⟩

/-- The order of the groups does not matter: applying the pending moves (non-negative counts) in any
    other order gives the same landscape. (No condition on the cells or the targets. With a
    negative count the order matters, see `C17_arrivals_same_cell_negative_counterexample`.) -/
theorem C17_arrivals_order_irrelevant (g : Grid) (ms ms' : List (Int × Int × Int)) (cells : List Cell)
    (hp : ms'.Perm ms) (hc : ∀ m ∈ ms, 0 ≤ m.2.2) :
    arriveAll g ms' cells = arriveAll g ms cells := agg_arriveAll_perm g ms ms' cells hp hc

/-- The five moves of the instance reversed: the group of 4 now reaches cell (0,1) before the group
    of 3 (4 establish, then 1 of 3), with the same result. -/
example :
    c17aMoves.reverse = [(1, 2, 1), (1, 0, 2), (0, 1, 4), (1, 2, 2), (0, 1, 3)] ∧
    arriveAll c17aGrid c17aMoves.reverse c17aCells = arriveAll c17aGrid c17aMoves c17aCells :=
  ⟨by decide, C17_arrivals_order_irrelevant c17aGrid c17aMoves c17aMoves.reverse c17aCells
    (List.reverse_perm _) (by decide)⟩

/-- The whole overpopulation action, cell by cell (with `C17_overpopulation_general`): for any
    suitable-cell list with duplicate-free flat indices, any kernel results and a non-negative leaving
    share, with `pend` the pending arrivals and `dep` the landscape after ALL departures (both closed
    functions of the pre-state, Model/OverpopSpec.lean; `dep` cell by cell: `C17_departed_cells`):
    every pending count is non-negative, and every cell `k` whose susceptible count was non-negative
    before the action ends with `dep[k].i + min (total pending count aimed at k) (dep[k].s)` infected
    and `dep[k].s - min ...` susceptible - it is `dep[k]` after ONE arrival of the total - where
    `dep[k].s` is at least the former susceptible count (departures only add to it); its other fields
    are those before the action. (`leaving ≤ 1` and non-negative infected counts are not needed: a
    departing cell has at least two infected hosts.) -/
theorem C17_overpopulation_aggregate (g : Grid) (thr leaving : Rat) (suit : List (Int × Int)) (cells : List Cell)
    (p : PestState) (ts : List (Int × Int))
    (hnd : (suit.map fun rc => g.idx rc.1 rc.2).Nodup) (h0 : 0 ≤ leaving) :
    let pend := overPending g leaving cells (overPairs g thr suit cells ts)
    let dep := overDeparted g leaving cells (overPairs g thr suit cells ts)
    let res := (overpopulationStep g suit cells p thr leaving ts).1
    (∀ m ∈ pend, 0 ≤ m.2.2) ∧
    res.length = cells.length ∧
    ∀ k : Nat, k < cells.length → 0 ≤ (cells[k]!).s →
      (cells[k]!).s ≤ (dep[k]!).s ∧ 0 ≤ arrivingAt g pend k ∧
      res[k]! = ((dep[k]!).pestsTo (arrivingAt g pend k)).1 ∧
      (res[k]!).i = (dep[k]!).i + min (arrivingAt g pend k) (dep[k]!).s ∧
      (res[k]!).s = (dep[k]!).s - min (arrivingAt g pend k) (dep[k]!).s ∧
      (res[k]!).e = (cells[k]!).e ∧ (res[k]!).r = (cells[k]!).r ∧ (res[k]!).te = (cells[k]!).te ∧
      (res[k]!).mort = (cells[k]!).mort ∧ (res[k]!).died = (cells[k]!).died ∧ (res[k]!).th = (cells[k]!).th := by
  intro pend dep res
  have hres : res = arriveAll g pend dep := by
    show (overpopulationStep g suit cells p thr leaving ts).1 = _
    rw [C17_overpopulation_general g thr leaving suit cells p ts hnd]
  have hpend : ∀ m ∈ pend, 0 ≤ m.2.2 := agg_pending_nonneg g thr leaving suit cells ts h0
  have hlen : dep.length = cells.length := (C17_departed_cells g thr leaving suit cells ts hnd).1
  obtain ⟨a1, a2⟩ := C17_arrivals_aggregate g pend dep hpend
  rw [hres]
  refine ⟨hpend, a1.trans hlen, fun k hk hs => ?_⟩
  have hds : (cells[k]!).s ≤ (dep[k]!).s := agg_departed_s g thr leaving suit cells ts hnd h0 k
  obtain ⟨b0, b1, b2, b3, b4, b5, b6, b7, b8, b9⟩ := a2 k (by rw [hlen]; exact hk) (by omega)
  obtain ⟨f1, f2, f3, f4, f5, f6⟩ := agg_departed_frame g thr leaving suit cells ts hnd k
  exact ⟨hds, b0, b1, b2, b3, b4.trans f1, b5.trans f2, b6.trans f3, b7.trans f4, b8.trans f5, b9.trans f6⟩

/-! #### a non-trivial instance: 2x3 raster, all six cells suitable, threshold and leaving share 1/2;
    cells 0, 2, 4, 5 depart (4, 3, 3, 2 pests); cells 0 and 2 both send to cell (0,1) (3 susceptible:
    of the 7 arriving 3 establish, 4 die), cell 4 sends to cell (0,0) - itself a source, which has
    1 + 4 = 5 susceptible hosts after its own departure: all 3 establish -, cell 5 sends outside;
    one kernel result is left over -/

def c17aSuit : List (Int × Int) := [(0, 0), (0, 1), (0, 2), (1, 0), (1, 1), (1, 2)]
def c17aLand : List Cell :=
  [⟨1, [], 7, 0, 0, [7], 0, 8⟩, ⟨3, [], 1, 0, 0, [1], 0, 4⟩, ⟨0, [], 6, 0, 0, [6], 0, 6⟩,
   ⟨9, [], 2, 0, 0, [2], 0, 11⟩, ⟨1, [], 5, 0, 0, [5], 0, 6⟩, ⟨2, [], 4, 0, 0, [4], 0, 6⟩]
def c17aPest : PestState := ⟨[0, 0, 0, 0, 0, 0], [0, 0, 0, 0, 0, 0], []⟩
def c17aTargets : List (Int × Int) := [(0, 1), (0, 1), (0, 0), (2, 0), (1, 1)]

example :
    (c17aSuit.map fun rc => c17aGrid.idx rc.1 rc.2).Nodup ∧
    overPending c17aGrid (1/2) c17aLand (overPairs c17aGrid (1/2) c17aSuit c17aLand c17aTargets) =
      [(0, 1, 4), (0, 1, 3), (0, 0, 3)] ∧
    overDeparted c17aGrid (1/2) c17aLand (overPairs c17aGrid (1/2) c17aSuit c17aLand c17aTargets) =
      [⟨5, [], 3, 0, 0, [7], 0, 8⟩, ⟨3, [], 1, 0, 0, [1], 0, 4⟩, ⟨3, [], 3, 0, 0, [6], 0, 6⟩,
       ⟨9, [], 2, 0, 0, [2], 0, 11⟩, ⟨4, [], 2, 0, 0, [5], 0, 6⟩, ⟨4, [], 2, 0, 0, [4], 0, 6⟩] ∧
    (((overpopulationStep c17aGrid c17aSuit c17aLand c17aPest (1/2) (1/2) c17aTargets).1)[1]!).i = 1 + min (4 + 3) 3 ∧
    (((overpopulationStep c17aGrid c17aSuit c17aLand c17aPest (1/2) (1/2) c17aTargets).1)[0]!).i = 3 + min 3 5 ∧
    (((overpopulationStep c17aGrid c17aSuit c17aLand c17aPest (1/2) (1/2) c17aTargets).1)[3]!).i = 2 + min 0 9 ∧
    overpopulationStep c17aGrid c17aSuit c17aLand c17aPest (1/2) (1/2) c17aTargets =
      ([⟨2, [], 6, 0, 0, [7], 0, 8⟩, ⟨0, [], 4, 0, 0, [1], 0, 4⟩, ⟨3, [], 3, 0, 0, [6], 0, 6⟩,
        ⟨9, [], 2, 0, 0, [2], 0, 11⟩, ⟨4, [], 2, 0, 0, [5], 0, 6⟩, ⟨4, [], 2, 0, 0, [4], 0, 6⟩],
       ⟨[0, 0, 0, 0, 0, 0], [0, 0, 0, 0, 0, 0], [(2, 0), (2, 0)]⟩, [(1, 1)]) := by
  have hnd : (c17aSuit.map fun rc => c17aGrid.idx rc.1 rc.2).Nodup := by decide
  have hp : overPending c17aGrid (1/2) c17aLand (overPairs c17aGrid (1/2) c17aSuit c17aLand c17aTargets) =
      [(0, 1, 4), (0, 1, 3), (0, 0, 3)] := by decide +kernel
  have hd : overDeparted c17aGrid (1/2) c17aLand (overPairs c17aGrid (1/2) c17aSuit c17aLand c17aTargets) =
      [⟨5, [], 3, 0, 0, [7], 0, 8⟩, ⟨3, [], 1, 0, 0, [1], 0, 4⟩, ⟨3, [], 3, 0, 0, [6], 0, 6⟩,
       ⟨9, [], 2, 0, 0, [2], 0, 11⟩, ⟨4, [], 2, 0, 0, [5], 0, 6⟩, ⟨4, [], 2, 0, 0, [4], 0, 6⟩] := by decide +kernel
  have h := (C17_overpopulation_aggregate c17aGrid (1/2) (1/2) c17aSuit c17aLand c17aPest c17aTargets hnd
    (by decide +kernel)).2.2
  simp only [hp, hd] at h
  have h1 := (h 1 (by decide) (by decide)).2.2.2.1
  have h0 := (h 0 (by decide) (by decide)).2.2.2.1
  have h3 := (h 3 (by decide) (by decide)).2.2.2.1
  refine ⟨hnd, hp, hd, h1.trans (by decide), h0.trans (by decide), h3.trans (by decide), ?_⟩
  rw [C17_overpopulation_general c17aGrid (1/2) (1/2) c17aSuit c17aLand c17aPest c17aTargets hnd]
  decide +kernel

/-- Why the total matters: a second phase that keeps only the FIRST move per destination
    (`arriveFirstOnly`, what collecting the moves with `std::map::emplace` keyed by the destination
    would do) is not `arriveAll`. Two groups of 3 and 4 aimed at the cell (0,1) with 10 susceptible
    hosts, one group of 2 aimed at (0,2): `arriveAll` establishes 3 + 4 = 7 at (0,1), the other
    variant only 3 - the second group silently disappears although there is room for it. -/
theorem C17_dropping_second_group_differs :
    let g : Grid := ⟨1, 3⟩
    let cells : List Cell := [⟨0, [], 8, 0, 0, [8], 0, 8⟩, ⟨10, [], 1, 0, 0, [1], 0, 11⟩, ⟨5, [], 0, 0, 0, [0], 0, 5⟩]
    let ms : List (Int × Int × Int) := [(0, 1, 3), (0, 2, 2), (0, 1, 4)]
    (∀ m ∈ ms, g.isOutside m.1 m.2.1 = false ∧ 0 ≤ m.2.2) ∧
    firstPerDestination ms [] = [(0, 1, 3), (0, 2, 2)] ∧
    arriveAll g ms cells = [⟨0, [], 8, 0, 0, [8], 0, 8⟩, ⟨3, [], 8, 0, 0, [1], 0, 11⟩, ⟨3, [], 2, 0, 0, [0], 0, 5⟩] ∧
    arriveFirstOnly g ms cells = [⟨0, [], 8, 0, 0, [8], 0, 8⟩, ⟨7, [], 4, 0, 0, [1], 0, 11⟩, ⟨3, [], 2, 0, 0, [0], 0, 5⟩] ∧
    arriveFirstOnly g ms cells ≠ arriveAll g ms cells := by
  decide +kernel

/-- The instance of `C17_dropping_second_group_differs` against `C17_arrivals_aggregate`: the
    aggregate theorem gives 1 + min (3 + 4) 10 = 8 infected at (0,1); the first-only variant has 4. -/
example :
    let g : Grid := ⟨1, 3⟩
    let cells : List Cell := [⟨0, [], 8, 0, 0, [8], 0, 8⟩, ⟨10, [], 1, 0, 0, [1], 0, 11⟩, ⟨5, [], 0, 0, 0, [0], 0, 5⟩]
    let ms : List (Int × Int × Int) := [(0, 1, 3), (0, 2, 2), (0, 1, 4)]
    ((arriveAll g ms cells)[1]!).i = 1 + min (3 + 4) 10 ∧ ((arriveFirstOnly g ms cells)[1]!).i = 1 + 3 := by
  intro g cells ms
  have h := ((C17_arrivals_aggregate g ms cells (by decide)).2 1 (by decide) (by decide)).2.2.1
  have e : arrivingAt g ms 1 = 3 + 4 := by decide
  rw [e] at h
  exact ⟨h, by decide +kernel⟩

end Pops

#print axioms Pops.C17_arrivals_same_cell
#print axioms Pops.C17_arrivals_same_cell_negative_counterexample
#print axioms Pops.C17_arrivals_aggregate
#print axioms Pops.C17_arrivals_aggregate_rc
#print axioms Pops.C17_arrivals_order_irrelevant
#print axioms Pops.C17_overpopulation_aggregate
#print axioms Pops.C17_dropping_second_group_differs
