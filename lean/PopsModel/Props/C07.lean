/-
  C07  Steps tile the calendar without gaps or overlaps; day/week steps respect years.
  Property theorems only; helper lemmas are in PopsModel/Lemmas/{Date,Scheduler,Calendar,DaySteps}.lean.
-/
import PopsModel.Lemmas.DaySteps
namespace Pops
open Date

/-- The three successors produce valid calendar dates (n days, 1 ≤ n ≤ 28; week; month). -/
theorem C07_valid (t : Date) (hv : t.Valid) :
    (∀ n : Int, 1 ≤ n → n ≤ 28 → (t.increasedByDays n).Valid) ∧
    t.increasedByWeek.Valid ∧ t.increasedByMonth.Valid ∧ (t.d = 1 → t.increasedByMonth.d = 1) :=
  ⟨fun n h1 h2 => (incDays_spec t n hv h1 h2).1, (incWeek_spec t hv).1,
   (incMonth_spec t hv).1, (incMonth_spec t hv).2.2⟩

/-- Every step moves strictly forward (this is also why the constructor's loop terminates). -/
theorem C07_increasing (u : StepUnit) (n : Nat) (h : StepOK u n) (t : Date) (hv : t.Valid) :
    t.lt (increaseDate u n t) = true := by
  obtain ⟨v, o⟩ := increaseDate_good u n h t hv
  exact (lt_iff_ord hv.bounded v.bounded).mpr o

/-- The comparison operators are the lexicographic total order on valid dates. -/
theorem C07_order (a b : Date) (ha : a.Valid) (hb : b.Valid) :
    (a.lt b = true ↔ a.ord < b.ord) ∧ (a.gt b = true ↔ b.ord < a.ord) ∧
    (a.le b = true ↔ a.ord ≤ b.ord) ∧ (a.ge b = true ↔ b.ord ≤ a.ord) ∧ (a.ord = b.ord → a = b) :=
  ⟨lt_iff_ord ha.bounded hb.bounded, gt_iff_ord ha.bounded hb.bounded,
   le_iff_ord ha.bounded hb.bounded, ge_iff_ord ha.bounded hb.bounded, ord_inj ha.bounded hb.bounded⟩

/-- Whenever the constructor accepts, the generated steps tile the calendar:
    first step starts at `start`, all dates valid, each step starts the day after the previous
    ends, starts are `<= end`, and the day after the last end is `> end`. Any start, any end,
    any unit, any length in the domain. -/
theorem C07_tiles (start end_ : Date) (u : StepUnit) (n : Nat) (sc : Scheduler)
    (hs : start.Valid) (he : end_.Valid) (hn : StepOK u n)
    (hmk : Scheduler.make start end_ u n = .ok sc) :
    TilesCalendar start end_ sc.steps = true := by
  unfold Scheduler.make at hmk
  split at hmk; · cases hmk
  rename_i hge
  split at hmk; · cases hmk
  split at hmk; · cases hmk
  split at hmk; · cases hmk
  simp only [Except.ok.injEq] at hmk
  subst hmk
  simp only
  have ht := stepsLoop_tiles u n hn end_ he (stepsFuel start end_) start hs (Nat.le_refl _)
  have hg := increaseDate_good u n hn
  obtain ⟨c1, c2, c3, c4, c5, _⟩ := Tiles.calendar hg ht hs
  have hle : start.le end_ = true := by
    have h1 : start.ge end_ = false := by simpa using hge
    have h2 : start.lt end_ = true := by simpa [Date.ge] using h1
    have := (lt_iff_ord hs.bounded he.bounded).mp h2
    exact (le_iff_ord hs.bounded he.bounded).mpr (by omega)
  cases hL : stepsLoop u n end_ (stepsFuel start end_) start with
  | nil =>
    rw [hL] at ht
    cases ht with
    | nil h => rw [hle] at h; cases h
  | cons a rest =>
    rw [hL] at c1 c2 c3 c4 c5
    have hfirst : a.s = start := c4 a rfl
    simp only [TilesCalendar, firstStartOK, hfirst, beq_self_eq_true, c1, c2, c3, c5 (by simp),
      Bool.and_self]

/-- Consequently each valid date from the first start to the last end belongs to exactly one
    step, the one the date lookup returns; every other date is rejected with `invalid_argument`.
    Stated for *any* step list satisfying the tiling predicate, so it applies verbatim to the
    list the implementation produced once the driver has evaluated `TilesCalendar` on it. -/
theorem C07_partition (start end_ : Date) (steps : List Step)
    (h : TilesCalendar start end_ steps = true) (x : Date) (hx : x.Valid) :
    (∀ (j k : Nat) (s1 s2 : Step), steps[j]? = some s1 → steps[k]? = some s2 →
        s1.contains x = true → s2.contains x = true → j = k) ∧
    (∀ (k : Nat) (st : Step), steps[k]? = some st → st.contains x = true →
        scheduleActionDate steps x = .ok k) ∧
    (∀ a b : Step, steps.head? = some a → steps.getLast? = some b →
        a.s.ord ≤ x.ord → x.ord ≤ b.e.ord →
        ∃ (k : Nat) (st : Step), steps[k]? = some st ∧ st.contains x = true) ∧
    ((∀ st ∈ steps, st.contains x = false) → scheduleActionDate steps x = .error .invalid_argument) := by
  simp only [TilesCalendar, Bool.and_eq_true] at h
  obtain ⟨⟨⟨⟨_, hwf⟩, hc⟩, _⟩, _⟩ := h
  have hdisj : ∀ (j k : Nat) (s1 s2 : Step), steps[j]? = some s1 → steps[k]? = some s2 →
      s1.contains x = true → s2.contains x = true → j = k := by
    intro j k s1 s2 h1 h2 c1 c2
    have w1 := (stepWF_iff s1).mp ((List.all_eq_true.mp hwf) s1 (List.mem_of_getElem? h1))
    have w2 := (stepWF_iff s2).mp ((List.all_eq_true.mp hwf) s2 (List.mem_of_getElem? h2))
    have o1 := (contains_iff_ord s1 x hx w1.1 w1.2.1).mp c1
    have o2 := (contains_iff_ord s2 x hx w2.1 w2.2.1).mp c2
    rcases Nat.lt_trichotomy j k with hlt | heq | hgt
    · have := chain_pairwise steps hwf hc j k hlt s1 s2 h1 h2; omega
    · exact heq
    · have := chain_pairwise steps hwf hc k j hgt s2 s1 h2 h1; omega
  obtain ⟨l1, l2, l3⟩ := lookup_first x steps 0
  refine ⟨hdisj, ?_, ?_, ?_⟩
  · intro k st hk hcon
    obtain ⟨j', _, heq⟩ := l3 k st hk hcon
    obtain ⟨j2, st2, e1, e2, e3⟩ := l1 _ heq
    have : j2 = k := hdisj j2 k st2 st e2 hk e3 hcon
    unfold scheduleActionDate; rw [heq]; congr 1; omega
  · intro a b ha hb h1 h2
    exact chain_cover steps hwf hc x hx a b ha hb h1 h2
  · intro hnone
    unfold scheduleActionDate
    cases hr : scheduleActionDateAux x steps 0 with
    | ok k =>
      obtain ⟨j, st, _, e2, e3⟩ := l1 k hr
      have := hnone st (List.mem_of_getElem? e2)
      rw [this] at e3; cases e3
    | error e => rw [(l2 e hr).1]

/-- Year rule. With day steps (1 ≤ n ≤ 28) and with one-week steps (n = 7) every generated step
    is n days long inside one calendar year, unless the following step would begin within the
    last n (n+1 in leap years) days of the year; then it is merged and the next step starts on
    1 January. Holds for every year (no 400-year bound). -/
theorem C07_day_steps (start end_ : Date) (u : StepUnit) (n : Nat) (sc : Scheduler)
    (hs : start.Valid) (he : end_.Valid) (hn : StepOK u n)
    (hu : u = .day ∨ (u = .week ∧ n = 1))
    (hmk : Scheduler.make start end_ u n = .ok sc) :
    dayStepsOK (if u = .day then (n : Int) else 7) sc.steps = true := by
  unfold Scheduler.make at hmk
  split at hmk; · cases hmk
  split at hmk; · cases hmk
  split at hmk; · cases hmk
  split at hmk; · cases hmk
  simp only [Except.ok.injEq] at hmk
  subst hmk
  simp only
  have ht := stepsLoop_tiles u n hn end_ he (stepsFuel start end_) start hs (Nat.le_refl _)
  have hg := increaseDate_good u n hn
  obtain ⟨c1, _, _, _, _, c6⟩ := Tiles.calendar hg ht hs
  unfold dayStepsOK
  rw [List.all_eq_true]
  intro st hst
  rw [c6 st hst]
  have hv : st.s.Valid := ((stepWF_iff st).mp ((List.all_eq_true.mp c1) st hst)).1
  rcases hu with hd | ⟨hw, h1⟩
  · subst hd
    simp only [if_true, increaseDate]
    exact incDays_dayStepOK st.s n hv (by have := hn.1; omega) (by have := hn.2 rfl; omega)
  · subst hw; subst h1
    have : (StepUnit.week = StepUnit.day) = False := by simp
    simp only [this, if_false, increaseDate, iter]
    rw [incWeek_eq_incDays st.s hv]
    exact incDays_dayStepOK st.s 7 hv (by omega) (by omega)

/-- The hypotheses are satisfiable by non-trivial schedulers; includes the November start that
    the unrepaired code got wrong (F9). -/
example : (match Scheduler.make ⟨2019, 11, 25⟩ ⟨2020, 3, 1⟩ .day 20 with
    | .ok sc => sc.steps.map (fun st => (st.s.m, st.s.d, st.e.m, st.e.d)) | .error _ => []) =
    [(11, 25, 12, 31), (1, 1, 1, 20), (1, 21, 2, 9), (2, 10, 2, 29), (3, 1, 3, 20)] := by decide
example : (⟨2019, 11, 25⟩ : Date).Valid ∧ StepOK .day 20 := by
  refine ⟨by decide, by decide, ?_⟩; intro _; decide

/-- Month steps: from the first of a month the successor is the first of the following month (valid,
    again a first), so a step of n months consists of n whole calendar months, for every year. -/
theorem C07_month_step (t : Date) (hv : t.Valid) (h1 : t.d = 1) :
    t.increasedByMonth = nextMonthStart t ∧ (nextMonthStart t).Valid ∧ (nextMonthStart t).d = 1 := by
  obtain ⟨m1, m12, d1, dd⟩ := hv
  by_cases hm : t.m = 12
  · refine ⟨?_, ?_, ?_⟩
    · simp [Date.increasedByMonth, nextMonthStart, hm, h1, dim]
    · simp only [nextMonthStart, hm, if_true]; exact valid_jan1 _
    · simp [nextMonthStart, hm]
  · have hn := dim_ge (isLeap t.y) (t.m + 1) (by omega) (by omega)
    have h2 : ¬ (t.m + 1 > 12) := by omega
    refine ⟨?_, ?_, ?_⟩
    · simp only [Date.increasedByMonth, nextMonthStart, hm, if_false, h2, h1]
      have : ¬ (1 > dim (isLeap t.y) (t.m + 1)) := by omega
      simp [this]
    · simp only [nextMonthStart, hm, if_false]
      exact ⟨by show 1 ≤ t.m + 1; omega, by show t.m + 1 ≤ 12; omega, by show (1:Int) ≤ 1; omega, by show 1 ≤ dim (isLeap t.y) (t.m + 1); omega⟩
    · simp [nextMonthStart, hm]

theorem C07_month_steps (n : Nat) (t : Date) (hv : t.Valid) (h1 : t.d = 1) :
    iter Date.increasedByMonth n t = iter nextMonthStart n t ∧ (iter nextMonthStart n t).Valid ∧ (iter nextMonthStart n t).d = 1 := by
  induction n generalizing t with
  | zero => exact ⟨rfl, hv, h1⟩
  | succ k ih =>
    obtain ⟨e, v, d⟩ := C07_month_step t hv h1
    have := ih (nextMonthStart t) v d
    simp only [iter] at *
    rw [e]; exact this

example : iter Date.increasedByMonth 3 ⟨2019, 11, 1⟩ = ⟨2020, 2, 1⟩ := by decide

end Pops