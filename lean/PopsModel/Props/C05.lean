/-
  C05  Exposed hosts become infectious exactly after the latency period.
-/
import PopsModel.Model.HostOps
import PopsModel.Lemmas.HostMech
import PopsModel.Lemmas.HostMech2
namespace Pops

/-- One latency step on a cell: the front cohort joins the infected and the youngest mortality
    cohort iff step >= L, and every cohort ages by exactly one position. In the C++ the exposed
    list has the configured length L + 1; the statement holds for every non-empty list.
    `he : c.e ≠ []` (which replaces the former `c.e.length = latency + 1`) is not used by the proof
    but is kept on purpose: on an empty exposed vector `step_forward` calls `exposed_.front()` and
    rotates an empty range (undefined behaviour), while the model leaves the cell unchanged. -/
theorem C05_shift (latency step : Nat) (c : Cell) (he : c.e ≠ []) :
    stepForwardSpec latency step c (c.stepForward .sei latency step) = true := by
  have _ := he  -- domain of the C++ (see the doc comment), not needed by the model
  exact mech_C05_shift latency step c

/-- No latency transition happens before step L of the run; SI cells are never touched. -/
theorem C05_no_early_transition (latency step : Nat) (c : Cell) (h : step < latency) :
    (c.stepForward .sei latency step).i = c.i ∧ (c.stepForward .sei latency step).mort = c.mort ∧
    c.stepForward .si latency step = c := by
  exact mech_C05_no_early latency step c h

/-- Exposure of `x` hosts during a spread step (what `x` establishing dispersers do in SEI). -/
def Cell.exposeN (c : Cell) (x : Int) : Cell :=
  { c with s := c.s - x, e := addLast c.e x, te := c.te + x }

/-- A run of spread steps: in each, `x` hosts are exposed, then the latency step is made.
    `step0` is the number of the first step. -/
def latencyRun (latency : Nat) : Nat → List Int → Cell → Cell
  | _, [], c => c
  | step, x :: rest, c => latencyRun latency (step + 1) rest ((c.exposeN x).stepForward .sei latency step)

/-- Exact latency. On a cell with |e| = L + 1 and steps numbered >= L: after n spread steps the
    infected count is the initial one plus the first min(n, L+1) initial cohorts plus exactly the
    exposures of the first n - L spread steps - a host exposed in spread step t is counted as
    infected from the latency step of spread step t + L on, and not earlier. -/
theorem C05_exact_latency (latency step0 : Nat) (xs : List Int) (c : Cell)
    (hlen : c.e.length = latency + 1) (hstep : latency ≤ step0) :
    (latencyRun latency step0 xs c).i =
      c.i + sumL (c.e.take xs.length) + sumL (xs.take (xs.length - latency)) ∧
    (latencyRun latency step0 xs c).e.length = latency + 1 ∧
    sumL (latencyRun latency step0 xs c).e =
      sumL (c.e.drop xs.length) + sumL (xs.drop (xs.length - latency)) := by
  exact mech_C05_exact_latency latency (latencyRun latency) (fun _ _ => rfl) (fun _ _ _ _ => rfl)
    xs step0 c hlen hstep

/-- n landings on a cell (each turns one susceptible host into an exposed / infected one). -/
def Cell.addN (mt : ModelType) : Nat → Cell → Cell
  | 0, c => c
  | n + 1, c => Cell.addN mt n (c.addDisperserAt mt).1

/-- With L = 0 the SEI spread step (landings, then the latency step) leaves exactly the SI state:
    same susceptible, infected, mortality cohorts, totals.
    `hm : c.mort ≠ []` is not used by the proof but is kept on purpose: with an empty mortality
    tracker both `add_disperser_at` (SI) and `step_forward` (SEI) call
    `mortality_tracker_vector_.back()` on an empty vector (undefined behaviour), while the model's
    `addLast [] _ = []` is total. -/
theorem C05_L0_equals_SI (n step : Nat) (c : Cell) (he : c.e = [0]) (hte : c.te = 0) (hm : c.mort ≠ []) :
    (Cell.addN .sei n c).stepForward .sei 0 step = { Cell.addN .si n c with e := [0], te := 0 } := by
  have _ := hm  -- domain of the C++ (see the doc comment), not needed by the model
  exact mech_C05_L0_equals_SI Cell.addN (fun _ _ => rfl) (fun _ _ _ => rfl) n step c he hte

example : ∃ c : Cell, c.e.length = 2 + 1 ∧ c.e = [1, 0, 2] := ⟨⟨5, [1, 0, 2], 0, 0, 3, [0], 0, 8⟩, by decide⟩

end Pops
