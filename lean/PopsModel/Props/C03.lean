/-
  C03  Derived totals always equal the sum of their parts.
-/
import PopsModel.Model.HostOps
import PopsModel.Lemmas.HostInv
import PopsModel.Lemmas.HostInv3
namespace Pops

/-- total_hosts = s + sum e + i + r and total_exposed = sum e are kept by every action. -/
theorem C03_totals_step (op : CellOp) (c c' : Cell) (hd : op.inDomain c)
    (hn : c.nonNeg = true) (ht : c.totalsOK = true) (h : op.apply c = .ok c') :
    c'.totalsOK = true :=
  (cellOp_facts op c c' hd (good_of_bool hn ht) h).good.totalsOK

/-- A host move keeps the derived totals of both cells. (`0 ≤ count` is not a hypothesis: a valid
    class draw `hd` exists only for a non-negative count; the length of the target's
    mortality-cohort list plays no role - in the C++ all cells share it.) -/
theorem C03_totals_move (src dst : Cell) (count : Int) (d : ClassDraw) (dE dM : List Int)
    (hs : src.nonNeg = true) (hts : src.totalsOK = true) (htd : dst.totalsOK = true)
    (hd : validClassDrawB src count d = true)
    (hE : d.e > 0 → ValidDraw src.e d.e dE) (hM : d.i > 0 → ValidDraw src.mort d.i dM)
    (hlenE : dst.e.length = src.e.length) :
    let r := moveHosts src dst count d dE dM
    r.1.totalsOK = true ∧ r.2.1.totalsOK = true :=
  have hg := good_of_bool hs hts
  have htd' := (totalsOK_iff dst).mp htd
  ⟨(move_src_facts hg hd hE hM).1.totalsOK,
    (totalsOK_iff _).mpr ((move_dst_facts hg hd hE hM).2.1 hlenE htd'.1 htd'.2)⟩

/-- The extra hypothesis under which ratio treatments keep `i = sum mort` (finding F20). -/
def CellOp.roundingOK : CellOp → Cell → Prop
  | .simpleTreat coef .ratio, c => roundingAgrees rceil coef c = true
  | .pesticideTreat coef .ratio, c => roundingAgrees rfloor coef c = true
  | _, _ => True

/-- Full statement of the cohort part of C03 (false of the code and of the model: F20). -/
def C03_cohorts_full : Prop :=
  ∀ (op : CellOp) (c c' : Cell), op.inDomain c → c.nonNeg = true → c.totalsOK = true →
    c.mortOK = true → op.keepsCohorts = true → op.apply c = .ok c' → c'.mortOK = true

/-- Infected equals the sum of the mortality cohorts after every action except the
    overpopulation moves, provided ratio treatments round consistently (`roundingOK`). -/
theorem C03_cohorts_step_partial (op : CellOp) (c c' : Cell) (hd : op.inDomain c)
    (hn : c.nonNeg = true) (ht : c.totalsOK = true) (hm : c.mortOK = true)
    (hk : op.keepsCohorts = true) (hr : op.roundingOK c) (h : op.apply c = .ok c') :
    c'.mortOK = true :=
  (mortOK_iff c').mpr (cellOp_mort op c c' hd (good_of_bool hn ht) ((mortOK_iff c).mp hm) hk
    (fun _ he => by subst he; exact hr) (fun _ he => by subst he; exact hr) h)

/-- F20: the full statement fails; witness mort = [1,1], i = 2, coefficient 1/2, ratio removal. -/
theorem C03_cohorts_full_fails : ¬ C03_cohorts_full := fun hfull =>
  absurd (hfull (.simpleTreat (1/2) .ratio) ⟨0, [], 2, 0, 0, [1, 1], 0, 2⟩ ⟨0, [], 1, 0, 0, [0, 0], 0, 1⟩
    half_in_unit (by decide) (by decide) (by decide) rfl f20_witness) (by decide)

/-- Mortality can account for every infected host: from a consistent cell it never fails.
    `hl : 0 ≤ lag` is not used by the proof (the model reads a cohort index beyond the list as 0)
    but is kept on purpose: with a negative lag `apply_mortality_at` indexes
    `mortality_tracker_vector_` beyond its size (undefined behaviour), so "never fails" would be
    a false claim about the code there. -/
theorem C03_mortality_never_fails (c : Cell) (rate : Rat) (lag : Int)
    (hr : 0 ≤ rate ∧ rate ≤ 1) (hl : 0 ≤ lag)
    (hn : c.nonNeg = true) (ht : c.totalsOK = true) (hm : c.mortOK = true) :
    ∃ c', (CellOp.mortality rate lag).apply c = .ok c' :=
  have _ := hl  -- domain of the C++ (see the doc comment), not needed by the model
  mortality_never_fails c rate lag hr (good_of_bool hn ht) ((mortOK_iff c).mp hm)

theorem C03_cohorts_move (src dst : Cell) (count : Int) (d : ClassDraw) (dE dM : List Int)
    (hs : src.nonNeg = true) (hts : src.totalsOK = true) (hms : src.mortOK = true) (hmd : dst.mortOK = true)
    (hd : validClassDrawB src count d = true)
    (hM : d.i > 0 → ValidDraw src.mort d.i dM)
    (hlenM : dst.mort.length = src.mort.length) :
    let r := moveHosts src dst count d dE dM
    r.1.mortOK = true ∧ r.2.1.mortOK = true :=
  have hf := move_mort_facts (count := count) (dE := dE) (good_of_bool hs hts) hd hM hlenM
    ((mortOK_iff src).mp hms) ((mortOK_iff dst).mp hmd)
  ⟨(mortOK_iff _).mpr hf.1, (mortOK_iff _).mpr hf.2⟩

end Pops
