/-
  C05 with removals acting on exposed cohorts in between: the number of hosts that become
  infectious is never more, and never earlier, than without removals.
-/
import PopsModel.Props.C05
import PopsModel.Lemmas.HostMech4
namespace Pops

/-- What can happen to a cell between latency steps, as far as exposure is concerned: a spread
    step (exposure of `x` hosts, then the latency step), or a removal that takes `d_k` hosts out of
    exposed cohort `k` (survival rate, treatments, host movement out of the cell). -/
inductive LatOp where
  | spread (x : Int)
  | remove (d : List Int)
deriving Repr

/-- Removal from the exposed cohorts; the removed hosts leave the exposed class (where they go
    does not matter here). -/
def Cell.removeFromExposed (c : Cell) (d : List Int) : Cell :=
  { c with e := subL c.e d, te := c.te - sumL d }

/-- Run a history; the step number advances with every spread step. -/
def latencyHistory (latency : Nat) : Nat → List LatOp → Cell → Cell
  | _, [], c => c
  | step, .spread x :: rest, c =>
      latencyHistory latency (step + 1) rest ((c.exposeN x).stepForward .sei latency step)
  | step, .remove d :: rest, c => latencyHistory latency step rest (c.removeFromExposed d)

/-- The exposures of the spread steps of a history, in order. -/
def exposures : List LatOp → List Int
  | [] => []
  | .spread x :: rest => x :: exposures rest
  | .remove _ :: rest => exposures rest

/-- Every removal takes from each cohort at most what it holds at that moment (and nothing
    negative), and exposures are non-negative. -/
def ValidHistory (latency : Nat) : Nat → List LatOp → Cell → Prop
  | _, [], _ => True
  | step, .spread x :: rest, c =>
      0 ≤ x ∧ ValidHistory latency (step + 1) rest ((c.exposeN x).stepForward .sei latency step)
  | step, .remove d :: rest, c =>
      d.length = c.e.length ∧ (∀ k : Nat, k < d.length → 0 ≤ d[k]! ∧ d[k]! ≤ c.e[k]!) ∧
      ValidHistory latency step rest (c.removeFromExposed d)

/-- Never more, never earlier: with any valid removals interleaved, after a history containing n
    spread steps the infected count is at most what the exact-latency formula gives for the same
    exposures without removals: initial infected + the first min(n, L+1) initial cohorts + the
    exposures of the first n - L spread steps. -/
theorem C05_latency_with_removals (latency step0 : Nat) (ops : List LatOp) (c : Cell)
    (hlen : c.e.length = latency + 1) (hstep : latency ≤ step0)
    (hn : ∀ x ∈ c.e, 0 ≤ x) (hv : ValidHistory latency step0 ops c) :
    (latencyHistory latency step0 ops c).i ≤
      c.i + sumL (c.e.take (exposures ops).length) +
        sumL ((exposures ops).take ((exposures ops).length - latency)) ∧
    c.i ≤ (latencyHistory latency step0 ops c).i := by
  exact mech_C05_removals latency
    (fun op => match op with | .spread x => .inl x | .remove d => .inr d)
    (latencyHistory latency) exposures (ValidHistory latency)
    (fun _ _ => rfl) (fun _ op _ _ => by cases op <;> rfl) rfl
    (fun op _ => by cases op <;> rfl) (fun _ op _ _ h => by cases op <;> exact h)
    ops step0 c hlen hstep hn hv

end Pops
