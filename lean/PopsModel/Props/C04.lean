/-
  C04  Every disperser comes from infection and is accounted for exactly once.
-/
import PopsModel.Model.Actions
import PopsModel.Lemmas.Actions
namespace Pops

/-- A cell without infected hosts produces no dispersers; with stochastic generation off a cell
    produces round(infected x lambda), lambda = reproductive rate x weather x competency. -/
theorem C04_generation (c : Cell) (lam : Rat) :
    (c.i ≤ 0 → c.dispersersFromDet lam = 0) ∧
    (0 < c.i → c.dispersersFromDet lam = lround (lam * c.i)) ∧
    (0 ≤ lam → 0 ≤ c.dispersersFromDet lam) := act_dispersersFromDet_facts c lam

/-- With soils the produced dispersers split exactly into a soil share and a dispersing share,
    both non-negative. -/
theorem C04_soil_split (pct : Rat) (x : Int) (h0 : 0 ≤ pct) (h1 : pct ≤ 1) (hx : 0 ≤ x) :
    0 ≤ soilShare (some pct) x ∧ soilShare (some pct) x ≤ x ∧
    soilShare (some pct) x + (x - soilShare (some pct) x) = x ∧ soilShare none x = 0 := act_soilShare_facts pct x h0 h1 hx

/-- Soil-held dispersers age out: after as many soil steps as there are cohorts nothing that was
    stored before is left, whatever is released in between (releases only decrease cohorts). -/
theorem C04_soil_ages_out (cohorts : List Int) (release : List Int → List Int)
    (hrel : ∀ l : List Int, (release l).length = l.length ∧
        ∀ k : Nat, k < l.length → 0 ≤ l[k]! → (0 ≤ (release l)[k]! ∧ (release l)[k]! ≤ l[k]!))
    (hn : ∀ x ∈ cohorts, 0 ≤ x) :
    ∀ x ∈ iter (fun l => soilNext (release l)) cohorts.length cohorts, x = 0 := act_soil_ages_out cohorts release hrel hn

/-- Each dispersing individual either is recorded with its real coordinates as having left the
    study area (hosts unchanged), or establishes, turning exactly one susceptible host of its
    target cell into an exposed / infected host, or is lost (hosts unchanged). -/
theorem C04_each_disperser_once (g : Grid) (env : DisperseEnv) (cells cells' : List Cell)
    (p p' : PestState) (t : Int × Int) (us us' : List Rat) (ok : Bool)
    (hdom : env.mt = .sei → ∀ c ∈ cells, c.e ≠ [])
    (h : landOne g env cells p t us = .ok (cells', p', ok, us')) :
    (g.isOutside t.1 t.2 = true → cells' = cells ∧ p'.outside = p.outside ++ [t] ∧ ok = false) ∧
    (g.isOutside t.1 t.2 = false → p' = p ∧ cells'.length = cells.length ∧
      (∀ k : Nat, k ≠ g.idx t.1 t.2 → cells'[k]? = cells[k]?) ∧
      (ok = true → (cells'[g.idx t.1 t.2]!).s = (cells[g.idx t.1 t.2]!).s - 1 ∧
          (cells'[g.idx t.1 t.2]!).hosts = (cells[g.idx t.1 t.2]!).hosts) ∧
      (ok = false → cells' = cells)) ∧
    p'.disp = p.disp ∧ p'.est = p.est := act_each_disperser_once g env cells cells' p p' t us us' ok hdom h

/-- Total susceptible hosts of a landscape, and total established dispersers. -/
def totalS (cells : List Cell) : Int := sumL (cells.map (·.s))

/-- The susceptible hosts consumed by the dispersers of one origin cell equal the increase of its
    established counter, which never exceeds the number of its dispersers; no other counter
    changes. Holds also when the cell list is shorter than the grid (in the C++ the rasters always
    cover the grid): a landing only succeeds at a cell of the landscape. -/
theorem C04_ledger_cell (g : Grid) (env : DisperseEnv) (origin n : Nat) (cells cells' : List Cell)
    (p p' : PestState) (ts ts' : List (Int × Int)) (us us' : List Rat)
    (ho : origin < p.est.length)
    (h : disperseCell g env origin n cells p ts us = .ok (cells', p', ts', us')) :
    totalS cells - totalS cells' = p'.est[origin]! - p.est[origin]! ∧
    0 ≤ p'.est[origin]! - p.est[origin]! ∧ p'.est[origin]! - p.est[origin]! ≤ n ∧
    p'.est.length = p.est.length ∧ (∀ k : Nat, k ≠ origin → p'.est[k]? = p.est[k]?) ∧
    p'.disp = p.disp ∧ ts.length - ts'.length ≤ n ∧ cells'.length = cells.length := by
  obtain ⟨m, m1, m2, m3, m4, m5, pre, m6, m7⟩ :=
    act_disperseCell_facts g env origin n cells cells' p p' ts ts' us us' ho h
  have e : p'.est[origin]! = p.est[origin]! + (m : Int) := by rw [m2, act_getElem!_set_self _ _ ho]
  have hl : ts.length = pre.length + ts'.length := by rw [m6, List.length_append]
  refine ⟨by unfold totalS; omega, by omega, by omega, by rw [m2, List.length_set], ?_, m4, by omega, m5⟩
  intro k hk
  rw [m2, List.getElem?_set_ne (Ne.symm hk)]

/-- Over a whole dispersal: the susceptible hosts consumed by spread equal the sum of the
    established dispersers. (No hypothesis that the targets index into the cell list is needed.) -/
theorem C04_ledger (g : Grid) (env : DisperseEnv) (suit : List (Int × Int)) (cells cells' : List Cell)
    (p p' : PestState) (ts ts' : List (Int × Int)) (us us' : List Rat)
    (hs : ∀ rc ∈ suit, g.idx rc.1 rc.2 < p.est.length)
    (h : disperseStep g env suit cells p ts us = .ok (cells', p', ts', us')) :
    totalS cells - totalS cells' = sumL p'.est - sumL p.est ∧ p'.disp = p.disp := by
  obtain ⟨a1, a2, _⟩ := act_disperseGo_facts g env suit cells cells' p p' ts ts' us us' hs h
  exact ⟨a1, a2⟩

example : totalS [⟨3, [], 0, 0, 0, [0], 0, 3⟩, ⟨2, [], 1, 0, 0, [1], 0, 3⟩] = 5 := by decide

end Pops
