/-
  C01, the removed amount accounted for independently.

  In Model/HostOps.lean `LandOp.removed op pre post` is DEFINED as `pre.hosts - post.hosts` for a
  host-removal treatment, so for removal steps the ledger equation of `C01_history`,
  `C01_generators`, `C01_model_step` and `C01_run` holds by definition. Here the removed amount is
  computed from the treatment coefficient, the application mode and the PRE-state only
  (`removedBySpec`: the shares C10 states), and the ledger equations are re-proved with it.
-/
import PopsModel.Props.RunModel
import PopsModel.Props.C10
import PopsModel.Props.NonVacuous.Host
namespace Pops

/-- The share of `x` hosts a removal treatment takes (C10): by ratio rounded up, or - application
    "all infected" - everything when the coefficient is non-zero. -/
def removalShare (coef : Rat) (app : TreatApp) (x : Int) : Int :=
  match app with
  | .ratio => rceil ((x : Rat) * coef)
  | .allInfected => if coef ≠ 0 then x else 0

/-- Hosts a removal treatment with coefficient `coef` takes out of cell `c`: the share rounded up of the
    susceptible (always by ratio), the share of every exposed cohort, the share of the infected. -/
def removedBySpec (coef : Rat) (app : TreatApp) (c : Cell) : Int :=
  rceil ((c.s : Rat) * coef) + sumL (c.e.map (removalShare coef app)) + removalShare coef app c.i

/-- What a removal treatment takes out of the landscape, read off the PRE-state only. -/
def LandOp.removedSpec (op : LandOp) (pre : Land) : Int :=
  match op with
  | .at k (.simpleTreat coef app) =>
    match pre[k]? with
    | some c => removedBySpec coef app c
    | none => 0
  | _ => 0

/-- Same recursion as `removedAlong`, each action's amount computed from the state it finds. -/
def removedSpecAlong : List LandOp → Land → Int
  | [], _ => 0
  | op :: rest, l =>
    match op.apply l with
    | .ok l' => op.removedSpec l + removedSpecAlong rest l'
    | .error _ => 0

/-- Same recursion as `removedByGens`. -/
def removedSpecByGens : List OpGen → Land → Int
  | [], _ => 0
  | gen :: rest, l =>
    match runOps (gen l) l with
    | .ok l' => removedSpecAlong (gen l) l + removedSpecByGens rest l'
    | .error _ => 0

/-- Same recursion as `removedByRun`. -/
def removedSpecByRun (cfg : StepCfg) : List StepInputs → Nat → Land → Int
  | [], _, _ => 0
  | inp :: rest, step, l =>
    match runStepHosts cfg inp step l with
    | .ok l' => removedSpecByGens (stepGens cfg inp step) l + removedSpecByRun cfg rest (step + 1) l'
    | .error _ => 0

/-! ### helper lemmas -/

theorem c01led_share_eq (coef : Rat) (app : TreatApp) (x : Int) :
    removalShare coef app x = mech_sh rceil coef app x := by
  cases app with
  | ratio => rfl
  | allInfected => rw [mech_sh_all_ceil]; rfl

theorem c01led_share_fun (coef : Rat) (app : TreatApp) :
    (fun x : Int => rceil (getTreated coef app x)) = removalShare coef app := by
  funext x; exact (c01led_share_eq coef app x).symm

/-- What `completelyRemove` does to the host count, whenever it succeeds: the susceptible amount
    counts only when positive, the exposed amounts always, the infected amount only when positive. -/
theorem c01led_completelyRemove_hosts (c c' : Cell) (sR : Int) (eR : List Int) (iR : Int)
    (mR : List Int) (h : c.completelyRemove sR eR iR mR = .ok c') :
    c.hosts - c'.hosts = (if sR > 0 then sR else 0) + sumL eR + (if iR ≤ 0 then 0 else iR) := by
  unfold Cell.completelyRemove at h
  by_cases hs : sR > 0
  · simp only [hs, if_true] at h
    split at h
    · cases h
    · rename_i hl
      have hl' : c.e.length = eR.length := by omega
      by_cases hi : iR ≤ 0
      · simp only [hi, if_true, Except.ok.injEq] at h
        subst h
        simp only [Cell.hosts, Cell.resetTotal, mech_sumL_subL _ _ hl', hs, if_true]
        omega
      · simp only [hi, if_false] at h
        split at h
        · cases h
        · split at h
          · cases h
          · simp only [Except.ok.injEq] at h
            subst h
            simp only [Cell.hosts, Cell.resetTotal, mech_sumL_subL _ _ hl', hs, if_true, hi, if_false]
            omega
  · simp only [hs, if_false] at h
    split at h
    · cases h
    · rename_i hl
      have hl' : c.e.length = eR.length := by omega
      by_cases hi : iR ≤ 0
      · simp only [hi, if_true, Except.ok.injEq] at h
        subst h
        simp only [Cell.hosts, Cell.resetTotal, mech_sumL_subL _ _ hl', hs, if_false]
        omega
      · simp only [hi, if_false] at h
        split at h
        · cases h
        · split at h
          · cases h
          · simp only [Except.ok.injEq] at h
            subst h
            simp only [Cell.hosts, Cell.resetTotal, mech_sumL_subL _ _ hl', hs, if_false, hi]
            omega

/-- The host count after a successful removal treatment, with the two guards of
    `completely_remove_hosts_at` explicit. -/
theorem c01led_simpleTreat_hosts (coef : Rat) (app : TreatApp) (c c' : Cell)
    (h : c.simpleTreat coef app = .ok c') :
    c.hosts - c'.hosts =
      (if rceil ((c.s : Rat) * coef) > 0 then rceil ((c.s : Rat) * coef) else 0) +
      sumL (c.e.map (removalShare coef app)) +
      (if removalShare coef app c.i ≤ 0 then 0 else removalShare coef app c.i) := by
  unfold Cell.simpleTreat at h
  have := c01led_completelyRemove_hosts c c' _ _ _ _ h
  rw [c01led_share_fun] at this
  have e1 : rceil (getTreated coef app c.i) = removalShare coef app c.i :=
    (c01led_share_eq coef app c.i).symm
  have e2 : getTreated coef .ratio c.s = (c.s : Rat) * coef := rfl
  rw [e1, e2] at this
  exact this


theorem c01led_sumL_map_bounds (l : List Int) (f : Int → Int)
    (h : ∀ x ∈ l, 0 ≤ f x ∧ f x ≤ x) : 0 ≤ sumL (l.map f) ∧ sumL (l.map f) ≤ sumL l := by
  induction l with
  | nil => simp
  | cons x xs ih =>
    have h1 := h x (by simp)
    have h2 := ih (fun y hy => h y (by simp [hy]))
    simp only [List.map_cons, sumL_cons]
    omega

theorem c01led_share_nonneg (coef : Rat) (app : TreatApp) (x : Int) (h0 : 0 ≤ coef) (hx : 0 ≤ x) :
    0 ≤ removalShare coef app x := by
  cases app with
  | ratio => exact rceil_nonneg (Rat.mul_nonneg (intCast_nonneg hx) h0)
  | allInfected => simp only [removalShare]; split <;> omega

/-! ### the removed amount of one treatment at one cell -/

/-- The exact condition: after a successful removal treatment the cell has lost `removedBySpec` hosts
    IF AND ONLY IF neither of the two amounts that `completely_remove_hosts_at` guards (`> 0` for the
    susceptible, `<= 0` for the infected) is negative. No hypothesis on the cell or the coefficient. -/
theorem C01_removed_cell_iff (coef : Rat) (app : TreatApp) (c c' : Cell)
    (h : c.simpleTreat coef app = .ok c') :
    c.hosts - c'.hosts = removedBySpec coef app c ↔
      (0 ≤ rceil ((c.s : Rat) * coef) ∧ 0 ≤ removalShare coef app c.i) := by
  rw [c01led_simpleTreat_hosts coef app c c' h]
  unfold removedBySpec
  generalize rceil ((c.s : Rat) * coef) = a
  generalize removalShare coef app c.i = b
  by_cases h1 : a > 0 <;> by_cases h2 : b ≤ 0 <;> simp only [h1, h2, if_true, if_false] <;>
    constructor <;> intro h3 <;> first | trivial | omega | exact ⟨by omega, by omega⟩

/-- A removal treatment that succeeds takes exactly `removedBySpec coef app c` hosts out of the cell -
    an amount computed from the coefficient, the application mode and the cell BEFORE the treatment.
    Needed: `0 ≤ coef`, `0 ≤ c.s`, `0 ≤ c.i` (each is necessary: `C01_removed_cell_s_counterexample`,
    `C01_removed_cell_i_counterexample`, `C01_removed_cell_coef_counterexample`).
    NOT needed: `coef ≤ 1`; of `nonNeg` the parts on the exposed cohorts, `r`, `te`, the mortality
    cohorts, `died`, `th`; `totalsOK`; `mortOK` (the mortality cohorts only decide whether the
    treatment succeeds, not how many hosts it takes). -/
theorem C01_removed_cell (coef : Rat) (app : TreatApp) (c c' : Cell)
    (h0 : 0 ≤ coef) (hs : 0 ≤ c.s) (hi : 0 ≤ c.i) (h : c.simpleTreat coef app = .ok c') :
    c.hosts - c'.hosts = removedBySpec coef app c :=
  (C01_removed_cell_iff coef app c c' h).mpr
    ⟨rceil_nonneg (Rat.mul_nonneg (intCast_nonneg hs) h0), c01led_share_nonneg coef app c.i h0 hi⟩

/-- `0 ≤ c.s` is necessary: one susceptible host "owed", coefficient 1 - the treatment succeeds, takes
    nothing (the guard `sRem > 0` skips the subtraction), the account says -1. -/
theorem C01_removed_cell_s_counterexample :
    ∃ (coef : Rat) (app : TreatApp) (c c' : Cell), 0 ≤ coef ∧ coef ≤ 1 ∧ 0 ≤ c.i ∧
      c.simpleTreat coef app = .ok c' ∧ c.hosts - c'.hosts = 0 ∧ removedBySpec coef app c = -1 :=
  ⟨1, .ratio, ⟨-1, [], 0, 0, 0, [], 0, -1⟩, ⟨-1, [], 0, 0, 0, [], 0, -1⟩, by decide +kernel,
    by decide +kernel, by decide, eq_ok_of_yields (by decide +kernel), by decide, by decide +kernel⟩

/-- `0 ≤ c.i` is necessary (guard `iRem <= 0`). -/
theorem C01_removed_cell_i_counterexample :
    ∃ (coef : Rat) (app : TreatApp) (c c' : Cell), 0 ≤ coef ∧ coef ≤ 1 ∧ 0 ≤ c.s ∧
      c.simpleTreat coef app = .ok c' ∧ c.hosts - c'.hosts = 0 ∧ removedBySpec coef app c = -1 :=
  ⟨1, .allInfected, ⟨0, [], -1, 0, 0, [-1], 0, -1⟩, ⟨0, [], -1, 0, 0, [-1], 0, -1⟩, by decide +kernel,
    by decide +kernel, by decide, eq_ok_of_yields (by decide +kernel), by decide, by decide +kernel⟩

/-- `0 ≤ coef` is necessary, on a fully consistent cell. -/
theorem C01_removed_cell_coef_counterexample :
    ∃ (coef : Rat) (app : TreatApp) (c c' : Cell), coef ≤ 1 ∧ c.consistent = true ∧
      c.simpleTreat coef app = .ok c' ∧ c.hosts - c'.hosts = 0 ∧ removedBySpec coef app c = -3 :=
  ⟨-1, .ratio, ⟨2, [], 1, 0, 0, [1], 0, 3⟩, ⟨2, [], 1, 0, 0, [1], 0, 3⟩, by decide +kernel,
    by decide, eq_ok_of_yields (by decide +kernel), by decide, by decide +kernel⟩

/-- The account is the one C10 states: whenever the pre/post pair satisfies `simpleTreatSpec` (the
    conclusion of `C10_removal`), the hosts lost are `removedBySpec` - no hypothesis at all. -/
theorem C01_removed_of_C10_spec (coef : Rat) (app : TreatApp) (c c' : Cell)
    (h : simpleTreatSpec coef (app == .allInfected) c c' = true) :
    c.hosts - c'.hosts = removedBySpec coef app c := by
  have hsh : (fun x : Int => if (app == TreatApp.allInfected) = true then (if coef ≠ 0 then x else 0)
      else rceil ((x : Rat) * coef)) = removalShare coef app := by
    funext x; cases app <;> rfl
  simp only [simpleTreatSpec, Bool.and_eq_true, decide_eq_true_eq] at h
  obtain ⟨⟨⟨⟨⟨a1, a2⟩, a3⟩, _⟩, a5⟩, _⟩ := h
  have a2' : c'.e = c.e.map (fun x => x - removalShare coef app x) := by rw [a2, ← hsh]
  have a3' : c'.i = c.i - removalShare coef app c.i := by rw [a3, ← hsh]
  simp only [Cell.hosts, removedBySpec, a1, a2', a3', a5, mech_sumL_map_sub]
  omega

/-- On a non-negative cell and for a coefficient in [0,1] the account is between 0 and the hosts
    of the treatable classes (susceptible, exposed, infected); in particular at most the hosts. -/
theorem C01_removed_bounds (coef : Rat) (app : TreatApp) (c : Cell) (hn : c.nonNeg = true)
    (h0 : 0 ≤ coef) (h1 : coef ≤ 1) :
    0 ≤ removedBySpec coef app c ∧ removedBySpec coef app c ≤ c.hosts - c.r ∧
    removedBySpec coef app c ≤ c.hosts := by
  obtain ⟨hs, he, hi, hr, _, _, _, _⟩ := (mech_nonNeg_iff c).mp hn
  have b1 := rceil_share hs h0 h1
  have hsh : removalShare coef app = mech_sh rceil coef app := funext (c01led_share_eq coef app)
  have b2 := c01led_sumL_map_bounds c.e (removalShare coef app)
    (fun x hx => by rw [hsh]; exact mech_sh_ceil_bounds coef app h0 h1 x (he x hx))
  have b3 : 0 ≤ removalShare coef app c.i ∧ removalShare coef app c.i ≤ c.i := by
    rw [hsh]; exact mech_sh_ceil_bounds coef app h0 h1 c.i hi
  simp only [removedBySpec, Cell.hosts]
  omega

/-! ### one action on the landscape -/

/-- For EVERY action in its domain on a landscape of non-negative cells (`l.inv` implies that), the
    amount `LandOp.removed` reads off the pre/post difference is the amount `LandOp.removedSpec`
    computes from the pre-state: both are 0 unless the action is a removal treatment, and for a
    removal treatment at cell `k` both are `removedBySpec coef app l[k]`. -/
theorem C01_removed_op (op : LandOp) (l l' : Land) (hn : ∀ c ∈ l, c.nonNeg = true)
    (hd : op.inDomain l) (h : op.apply l = .ok l') :
    op.removed l l' = op.removedSpec l := by
  cases op with
  | move a b count d dE dM => rfl
  | «at» k cop =>
    cases cop with
    | simpleTreat coef app =>
      simp only [LandOp.apply] at h
      simp only [LandOp.removed, LandOp.removedSpec]
      cases hk : l[k]? with
      | none =>
        rw [hk] at h; simp only at h; injection h with h; subst h
        simp only; omega
      | some c =>
        rw [hk] at h; simp only [CellOp.apply] at h
        cases hc : c.simpleTreat coef app with
        | error e => rw [hc] at h; cases h
        | ok c' =>
          rw [hc] at h; simp only [Except.map] at h; injection h with h; subst h
          have hcl : c ∈ l := List.mem_of_getElem? hk
          obtain ⟨hs, _, hi, _⟩ := (mech_nonNeg_iff c).mp (hn c hcl)
          have h0 : 0 ≤ coef := (hd c hk).1
          have := C01_removed_cell coef app c c' h0 hs hi hc
          have hh := Land.hosts_set c' hk
          simp only
          omega
    | _ => rfl

/-- The removal case spelled out, and the other case: a removal treatment at an existing cell removes
    `removedBySpec` of that cell; every action that is not a removal treatment removes nothing, on
    both accounts. -/
theorem C01_removed_op_cases (l : Land) :
    (∀ k coef app c, l[k]? = some c →
      (LandOp.at k (.simpleTreat coef app)).removedSpec l = removedBySpec coef app c) ∧
    (∀ op : LandOp, (∀ k coef app, op ≠ .at k (.simpleTreat coef app)) →
      op.removedSpec l = 0 ∧ ∀ l', op.removed l l' = 0) := by
  refine ⟨fun k coef app c hk => by simp only [LandOp.removedSpec, hk], fun op hne => ?_⟩
  cases op with
  | move a b count d dE dM => exact ⟨rfl, fun _ => rfl⟩
  | «at» k cop =>
    cases cop with
    | simpleTreat coef app => exact absurd rfl (hne k coef app)
    | _ => exact ⟨rfl, fun _ => rfl⟩

/-! ### histories, generators, model steps, runs -/

theorem c01led_inv_nonNeg {l : Land} (hinv : l.inv) : ∀ c ∈ l, c.nonNeg = true :=
  fun c hc => (hinv c hc).1

/-- Along any history in its domain from a consistent landscape the two accounts agree (whether or
    not the history runs to the end: both stop at the first error). -/
theorem C01_removedAlong_spec (ops : List LandOp) (l : Land) (hinv : l.inv) (hu : l.uniform)
    (hd : DomainAlong ops l) : removedAlong ops l = removedSpecAlong ops l := by
  induction ops generalizing l with
  | nil => rfl
  | cons op rest ih =>
    simp only [removedAlong, removedSpecAlong]
    cases h1 : op.apply l with
    | error e => rfl
    | ok l1 =>
      have st := landOp_step op l l1 hinv hu hd.1 h1
      simp only [C01_removed_op op l l1 (c01led_inv_nonNeg hinv) hd.1 h1,
        ih l1 st.inv st.uniform (hd.2 l1 h1)]

/-- `C01_history` with the independent account: hosts after = hosts before - hosts reported dead -
    the shares (coefficient x pre-state, rounded up) the removal treatments took. -/
theorem C01_history_spec (ops : List LandOp) (l l' : Land) (hinv : l.inv) (hu : l.uniform)
    (hd : DomainAlong ops l) (h : runOps ops l = .ok l') :
    l'.hosts = l.hosts - (l'.died - l.died) - removedSpecAlong ops l ∧
    0 ≤ removedSpecAlong ops l ∧ l.died ≤ l'.died ∧ l'.hosts ≤ l.hosts := by
  rw [← C01_removedAlong_spec ops l hinv hu hd]
  exact C01_history ops l l' hinv hu hd h

theorem C01_removedByGens_spec (gens : List OpGen) (l : Land) (hinv : l.inv) (hu : l.uniform)
    (hd : GensDomainAlong gens l) : removedByGens gens l = removedSpecByGens gens l := by
  induction gens generalizing l with
  | nil => rfl
  | cons gen rest ih =>
    simp only [removedByGens, removedSpecByGens]
    cases h1 : runOps (gen l) l with
    | error e => rfl
    | ok m =>
      obtain ⟨b1, b2⟩ := history_inv (gen l) l m hinv hu hd.1 h1
      simp only [C01_removedAlong_spec (gen l) l hinv hu hd.1, ih m b1 b2 (hd.2 m h1)]

/-- `C01_generators` with the independent account. -/
theorem C01_generators_spec (gens : List OpGen) (l l' : Land) (hinv : l.inv) (hu : l.uniform)
    (hd : GensDomainAlong gens l) (h : runGens gens l = .ok l') :
    l'.hosts = l.hosts - (l'.died - l.died) - removedSpecByGens gens l ∧
    0 ≤ removedSpecByGens gens l ∧ l.died ≤ l'.died ∧ l'.hosts ≤ l.hosts ∧ l'.inv ∧ l'.uniform := by
  rw [← C01_removedByGens_spec gens l hinv hu hd]
  exact C01_generators gens l l' hinv hu hd h

/-- `C01_model_step` with the independent account: over one `run_step`, hosts after = hosts before -
    the step's reported deaths - the shares the step's removal treatments took. -/
theorem C01_model_step_spec (cfg : StepCfg) (inp : StepInputs) (step : Nat) (l l' : Land)
    (hinv : l.inv) (hu : l.uniform)
    (hd : GensDomainAlong (stepGens cfg inp step) l)
    (h : runStepHosts cfg inp step l = .ok l') :
    l'.hosts = l.hosts - (l'.died - l.died) - removedSpecByGens (stepGens cfg inp step) l ∧
    0 ≤ removedSpecByGens (stepGens cfg inp step) l ∧ l'.hosts ≤ l.hosts ∧ l'.inv := by
  rw [← C01_removedByGens_spec _ l hinv hu hd]
  exact C01_model_step cfg inp step l l' hinv hu hd h

theorem C01_removedByRun_spec (cfg : StepCfg) (inps : List StepInputs) (first : Nat) (l : Land)
    (hinv : l.inv) (hu : l.uniform) (hd : RunDomainAlong cfg inps first l) :
    removedByRun cfg inps first l = removedSpecByRun cfg inps first l := by
  induction inps generalizing first l with
  | nil => rfl
  | cons inp rest ih =>
    simp only [removedByRun, removedSpecByRun]
    cases h1 : runStepHosts cfg inp first l with
    | error e => rfl
    | ok m =>
      have hg := C01_generators (stepGens cfg inp first) l m hinv hu hd.1 h1
      simp only [C01_removedByGens_spec _ l hinv hu hd.1,
        ih (first + 1) m hg.2.2.2.2.1 hg.2.2.2.2.2 (hd.2 m h1)]

/-- `C01_run` with the independent account: over whole runs, hosts after = hosts before - deaths
    reported during the run - the shares the removal treatments of the run took, each computed from
    its coefficient and the cell it found. -/
theorem C01_run_spec (cfg : StepCfg) (inps : List StepInputs) (first : Nat) (l l' : Land)
    (hinv : l.inv) (hu : l.uniform) (hd : RunDomainAlong cfg inps first l)
    (h : runModel cfg inps first l = .ok l') :
    l'.hosts = l.hosts - (l'.died - l.died) - removedSpecByRun cfg inps first l ∧
    0 ≤ removedSpecByRun cfg inps first l ∧ l.died ≤ l'.died ∧ l'.hosts ≤ l.hosts := by
  rw [← C01_removedByRun_spec cfg inps first l hinv hu hd]
  exact C01_run cfg inps first l l' hinv hu hd h

/-! ### instances -/

/-- An SEI cell with every class occupied (12 hosts, one of them resistant). -/
def c01ledCell : Cell := ⟨5, [1, 2], 3, 1, 3, [1, 2], 0, 12⟩

/-- Ratio 1/2: the account is 3 (of 5 susceptible) + (1 + 1) (of the exposed cohorts 1 and 2) + 2 (of 3
    infected) = 7, from the pre-state alone; the treatment takes the hosts from 12 to 5. -/
example :
    removedBySpec (1/2) .ratio c01ledCell = 3 + (1 + 1) + 2 ∧
    c01ledCell.simpleTreat (1/2) .ratio = .ok ⟨2, [0, 1], 1, 1, 1, [0, 1], 0, 5⟩ ∧
    c01ledCell.hosts = 12 ∧ (⟨2, [0, 1], 1, 1, 1, [0, 1], 0, 5⟩ : Cell).hosts = 5 ∧
    c01ledCell.hosts - (⟨2, [0, 1], 1, 1, 1, [0, 1], 0, 5⟩ : Cell).hosts =
      removedBySpec (1/2) .ratio c01ledCell := by
  have hr : c01ledCell.simpleTreat (1/2) .ratio = .ok ⟨2, [0, 1], 1, 1, 1, [0, 1], 0, 5⟩ :=
    eq_ok_of_yields (by decide +kernel)
  exact ⟨by decide +kernel, hr, by decide, by decide,
    C01_removed_cell (1/2) .ratio c01ledCell _ (by decide +kernel) (by decide) (by decide) hr⟩

/-- The same cell, application "all infected": the susceptible still lose their share by ratio (3),
    the exposed cohorts and the infected are taken entirely (3 and 3): 9 hosts, 12 -> 3. -/
example :
    removedBySpec (1/2) .allInfected c01ledCell = 3 + (1 + 2) + 3 ∧
    c01ledCell.simpleTreat (1/2) .allInfected = .ok ⟨2, [0, 0], 0, 1, 0, [0, 0], 0, 3⟩ ∧
    (⟨2, [0, 0], 0, 1, 0, [0, 0], 0, 3⟩ : Cell).hosts = 3 ∧
    c01ledCell.hosts - (⟨2, [0, 0], 0, 1, 0, [0, 0], 0, 3⟩ : Cell).hosts =
      removedBySpec (1/2) .allInfected c01ledCell := by
  have hr : c01ledCell.simpleTreat (1/2) .allInfected = .ok ⟨2, [0, 0], 0, 1, 0, [0, 0], 0, 3⟩ :=
    eq_ok_of_yields (by decide +kernel)
  exact ⟨by decide +kernel, hr, by decide,
    C01_removed_cell (1/2) .allInfected c01ledCell _ (by decide +kernel) (by decide) (by decide) hr⟩

/-- `C01_removed_of_C10_spec` and `C01_removed_bounds` at the instance, through `C10_removal`:
    0 ≤ 7 ≤ 11 = hosts - resistant. -/
example : ∃ c', c01ledCell.simpleTreat (1/2) .ratio = .ok c' ∧
    c01ledCell.hosts - c'.hosts = removedBySpec (1/2) .ratio c01ledCell ∧
    0 ≤ removedBySpec (1/2) .ratio c01ledCell ∧
    removedBySpec (1/2) .ratio c01ledCell ≤ c01ledCell.hosts - c01ledCell.r := by
  obtain ⟨c', h1, h2, _⟩ := C10_removal (1/2) .ratio c01ledCell (by decide +kernel) (by decide +kernel)
    (by decide) (by decide) (by decide)
  have hb := C01_removed_bounds (1/2) .ratio c01ledCell (by decide) (by decide +kernel)
    (by decide +kernel)
  exact ⟨c', h1, C01_removed_of_C10_spec _ _ _ _ h2, hb.1, hb.2.1⟩

/-- A cell that is not consistent in any sense: a negative exposed cohort, a negative resistant count,
    wrong totals (`te`, `th`), infected ≠ sum of the mortality cohorts. -/
def c01ledOdd : Cell := ⟨5, [-1, 2], 3, -2, 77, [], 0, 99⟩

/-- What `C01_removed_cell` does NOT need, at an instance: coefficient 3/2 > 1 on `c01ledOdd`. The
    treatment succeeds and takes 8 + (-1 + 3) + 5 = 15 hosts (7 -> -8), as the account says. -/
example :
    c01ledOdd.nonNeg = false ∧ c01ledOdd.totalsOK = false ∧ c01ledOdd.mortOK = false ∧
    c01ledOdd.simpleTreat (3/2) .ratio = .ok ⟨-3, [0, -1], -2, -2, 75, [], 0, -8⟩ ∧
    c01ledOdd.hosts - (⟨-3, [0, -1], -2, -2, 75, [], 0, -8⟩ : Cell).hosts =
      removedBySpec (3/2) .ratio c01ledOdd ∧
    removedBySpec (3/2) .ratio c01ledOdd = 8 + (-1 + 3) + 5 := by
  have hr : c01ledOdd.simpleTreat (3/2) .ratio = .ok ⟨-3, [0, -1], -2, -2, 75, [], 0, -8⟩ :=
    eq_ok_of_yields (by decide +kernel)
  exact ⟨by decide, by decide, by decide, hr,
    C01_removed_cell (3/2) .ratio c01ledOdd _ (by decide +kernel) (by decide) (by decide) hr,
    by decide +kernel⟩

/-- `C01_removed_op`, `C01_removedAlong_spec`, `C01_history_spec` at the history `nvHist` of
    Props/NonVacuous/Host.lean (mortality, a removal treatment with coefficient 1/2 at cell 0, a host
    move, a latency step, a survival-rate removal; two SEI cells): the treatment finds the cell
    `⟨10, [2, 3], 2, ..⟩` and takes 5 + (1 + 2) + 1 = 9; 24 hosts before, 13 after, 2 died. -/
example :
    removedSpecAlong nvHist nvLand2 = 9 ∧ removedAlong nvHist nvLand2 = removedSpecAlong nvHist nvLand2 ∧
    nvLand2.hosts = 24 ∧ nvLand2'.hosts = 13 ∧ nvLand2'.died - nvLand2.died = 2 ∧
    nvLand2'.hosts = nvLand2.hosts - (nvLand2'.died - nvLand2.died) - removedSpecAlong nvHist nvLand2 := by
  have h := C01_history_spec nvHist nvLand2 nvLand2' nvLand2_inv nvLand2_uniform nvHist_dom nvHist_run
  exact ⟨by decide +kernel, C01_removedAlong_spec nvHist nvLand2 nvLand2_inv nvLand2_uniform nvHist_dom,
    by decide, by decide, by decide, h.1⟩

example :
    (LandOp.at 0 (.simpleTreat (1/2) .ratio)).removedSpec nvLand2 = 5 + (1 + 2) + 2 ∧
    ∀ l', (LandOp.at 0 (.simpleTreat (1/2) .ratio)).apply nvLand2 = .ok l' →
      (LandOp.at 0 (.simpleTreat (1/2) .ratio)).removed nvLand2 l' = 10 := by
  refine ⟨by decide +kernel, fun l' hl' => ?_⟩
  rw [C01_removed_op (.at 0 (.simpleTreat (1/2) .ratio)) nvLand2 l' (c01led_inv_nonNeg nvLand2_inv)
    (fun c _ => ⟨by decide +kernel, by decide +kernel⟩) hl']
  decide +kernel

/-- `C01_generators_spec` / `C01_model_step_spec` at step 0 of the run instance of Props/RunModel.lean
    (survival rate, a removal treatment with coefficient 1/2 at cell 0, mortality). -/
example :
    removedSpecByGens (stepGens runSeiCfg runSeiInp0 0) runSeiLand0 = 10 ∧
    runSeiLand1.hosts = runSeiLand0.hosts - (runSeiLand1.died - runSeiLand0.died) -
      removedSpecByGens (stepGens runSeiCfg runSeiInp0 0) runSeiLand0 ∧
    runSeiLand1.inv ∧ runSeiLand1.uniform := by
  have hd : GensDomainAlong (stepGens runSeiCfg runSeiInp0 0) runSeiLand0 := runSei_domain.1
  have h1 := C01_model_step_spec runSeiCfg runSeiInp0 0 runSeiLand0 runSeiLand1 runSei_inv
    runSei_uniform hd runSei_step0
  have h2 := C01_generators_spec (stepGens runSeiCfg runSeiInp0 0) runSeiLand0 runSeiLand1 runSei_inv
    runSei_uniform hd runSei_step0
  exact ⟨by decide +kernel, h1.1, h2.2.2.2.2.1, h2.2.2.2.2.2⟩

/-- The independent account over the 3-step SEI run: the two removal treatments (step 0 at cell 0,
    step 2 at cell 1) take 14 hosts, computed from coefficients and the cells they find. -/
theorem runSei_removedSpec :
    removedSpecByRun runSeiCfg [runSeiInp0, runSeiInp1, runSeiInp2] 0 runSeiLand0 = 14 := by
  decide +kernel

/-- `C01_run_spec` at the instance: 12 = 28 - 2 - 14. -/
example :
    runSeiLand0.hosts = 28 ∧ runSeiLand3.hosts = 12 ∧ runSeiLand3.died - runSeiLand0.died = 2 ∧
    removedSpecByRun runSeiCfg [runSeiInp0, runSeiInp1, runSeiInp2] 0 runSeiLand0 = 14 ∧
    runSeiLand3.hosts = runSeiLand0.hosts - (runSeiLand3.died - runSeiLand0.died) -
      removedSpecByRun runSeiCfg [runSeiInp0, runSeiInp1, runSeiInp2] 0 runSeiLand0 ∧
    removedByRun runSeiCfg [runSeiInp0, runSeiInp1, runSeiInp2] 0 runSeiLand0 =
      removedSpecByRun runSeiCfg [runSeiInp0, runSeiInp1, runSeiInp2] 0 runSeiLand0 := by
  have h := C01_run_spec runSeiCfg _ 0 runSeiLand0 runSeiLand3 runSei_inv runSei_uniform runSei_domain
    runSei_run
  exact ⟨by decide, by decide, by decide, runSei_removedSpec, h.1,
    C01_removedByRun_spec runSeiCfg _ 0 runSeiLand0 runSei_inv runSei_uniform runSei_domain⟩

#print axioms C01_removed_cell_iff
#print axioms C01_removed_cell
#print axioms C01_removed_cell_s_counterexample
#print axioms C01_removed_cell_i_counterexample
#print axioms C01_removed_cell_coef_counterexample
#print axioms C01_removed_of_C10_spec
#print axioms C01_removed_bounds
#print axioms C01_removed_op
#print axioms C01_removed_op_cases
#print axioms C01_removedAlong_spec
#print axioms C01_history_spec
#print axioms C01_removedByGens_spec
#print axioms C01_generators_spec
#print axioms C01_model_step_spec
#print axioms C01_removedByRun_spec
#print axioms C01_run_spec
#print axioms runSei_removedSpec

end Pops
