/-
  C05 on the documented domain of `step_forward`: besides `exposed_.front()` the C++ calls
  `mortality_tracker_vector_.back()` when `step >= latency`; an empty tracker is undefined
  behaviour there, while the model's `addLast [] _ = []` is total. With the domain hypothesis the
  matured hosts are shown to sit in the LAST (youngest) mortality cohort exactly, and `i = sum mort`
  is preserved.
-/
import PopsModel.Props.C05
import PopsModel.Lemmas.C05Guard
namespace Pops

/-- One latency step on a cell in the domain of the C++ (`e ≠ []` and `mort ≠ []`):
    `stepForwardSpec` holds (as `C05_shift`); the mortality cohorts change in the last position
    only, by exactly the front exposed cohort, when `step ≥ latency`, and not at all otherwise;
    and `i = sum mort` is preserved.
    The second and third conclusions need `c.mort ≠ []`: with `mort = []` the model returns
    `mort = []` and `i + front` (see `C05_guard_needed`). -/
theorem C05_shift_guarded (latency step : Nat) (c : Cell)
    (hd : (CellOp.stepForward .sei latency step).inDomain c) :
    stepForwardSpec latency step c (c.stepForward .sei latency step) = true ∧
    (c.stepForward .sei latency step).mort =
      (if step ≥ latency then c.mort.dropLast ++ [c.mort.getLast! + c.e.headD 0] else c.mort) ∧
    (c.mortOK = true → (c.stepForward .sei latency step).mortOK = true) := by
  obtain ⟨he, hm⟩ := hd rfl
  exact ⟨C05_shift latency step c he, guard_stepForward_mort latency step c hm,
    guard_stepForward_mortOK latency step c hm⟩

/-- Instance: 3 exposed cohorts (latency 2), 2 mortality cohorts, step 5 ≥ 2: the 4 matured hosts
    join the last mortality cohort (`[1, 2] ↦ [1, 6]`), `i` goes from 3 to 7 and stays `sum mort`. -/
example :
    let c : Cell := ⟨10, [4, 0, 5], 3, 0, 9, [1, 2], 0, 22⟩
    (CellOp.stepForward .sei 2 5).inDomain c ∧ c.mortOK = true ∧
    (c.stepForward .sei 2 5).mort = [1, 6] ∧ (c.stepForward .sei 2 5).i = 7 ∧
    (c.stepForward .sei 2 5).e = [0, 5, 0] ∧ (c.stepForward .sei 2 5).mortOK = true := by
  intro c
  have hd : (CellOp.stepForward .sei 2 5).inDomain c := fun _ => ⟨by decide, by decide⟩
  obtain ⟨_, h2, h3⟩ := C05_shift_guarded 2 5 c hd
  refine ⟨hd, by decide, ?_, by decide, by decide, h3 (by decide)⟩
  rw [h2]; decide

/-- The same cell before the latency has elapsed (step 1 < 2): the mortality cohorts are unchanged. -/
example :
    let c : Cell := ⟨10, [4, 0, 5], 3, 0, 9, [1, 2], 0, 22⟩
    (c.stepForward .sei 2 1).mort = [1, 2] ∧ (c.stepForward .sei 2 1).e = [0, 5, 4] := by
  intro c
  have hd : (CellOp.stepForward .sei 2 1).inDomain c := fun _ => ⟨by decide, by decide⟩
  refine ⟨?_, by decide⟩
  rw [(C05_shift_guarded 2 1 c hd).2.1]; decide

/-- The guard is needed: on an empty tracker the model (total where the C++ is undefined) adds the
    matured hosts to `i` while no cohort receives them, so `i = sum mort` is lost. -/
theorem C05_guard_needed :
    let c : Cell := ⟨10, [4, 0, 5], 0, 0, 9, [], 0, 19⟩
    c.mortOK = true ∧ (c.stepForward .sei 2 5).mortOK = false := by
  decide

end Pops
