/-
  C11 with the other actions of a run acting on the mortality cohorts between mortality steps:
  every host that was in the mortality cohorts is dead or removed after tracker-length mortality
  steps, whatever is removed from the cohorts (lethal temperature, survival rate, treatments, host
  movement out of the cell) and whatever joins them (landings, the latency step, host movement into
  the cell) in between.

  Definitions (Lemmas/C11Removals.lean): the history datatype `MortOp`
  (`mortality | add x | arrive d | remove d`), `mortSteps`, `addedBy`, `removedBy`, `lastMortWindow`,
  the step relation `MortOp.rel` on the cohorts and `died` (all other fields of the cell left open,
  so that each concrete action of the model is an instance), `MortOp.keepsI` (the infected count
  follows the cohorts) and `MortTrace` (a history leads from one cell to another).

  Differences from the sketch in the task, found while modelling:
   * host movement INTO a cell (`move_hosts_from_to`, target side) adds the drawn hosts to the cohort
     of the same index, not to the youngest cohort; hence the fourth constructor `arrive d`
     (`C11_move_target_is_arrival`). The bound is the same: hosts that arrive in cohort `k` are gone
     after `k + 1 ≤ n` mortality steps.
   * ratio treatments (finding F20): the cohorts always lose exactly their per-cohort shares
     (`MortOp.rel` holds), but `i` follows (`MortOp.keepsI`) iff the rounding of the total agrees with
     the per-cohort rounding (`roundingAgrees`); see `C11_simpleTreat_is_removal`,
     `C11_pesticideTreat_is_removal`, `C11_ratio_treatment_breaks_i`. For this reason the main theorem
     is stated on the cohorts (`MortOp.rel` only); `C11_eventual_death_infected` adds the conclusion on
     `i` for histories that keep `i` in step.
-/
import PopsModel.Props.C11
import PopsModel.Lemmas.C11Removals
namespace Pops

/-- **Eventual death with removals.** Rate in (0, 1], lag ≥ 0, tracker length `n = |mort| > lag`,
    non-negative cohorts with `i = sum mort`. After ANY history (mortality steps; additions to the
    youngest cohort; arrivals cohort by cohort; removals of `0 ≤ d_k ≤ cohort_k`) that contains at
    least `n` mortality steps and does not throw:
     * what is left in the cohorts is at most what was added from the first of the last `n`
       mortality steps on - every host present before that step is dead or removed;
     * `died` grew by at least the initial infected minus the hosts removed along the way;
     * exactly: `died' + sum mort' = died + i + added - removed`. -/
theorem C11_eventual_death_with_removals (c c' : Cell) (rate : Rat) (lag : Int) (ops : List MortOp)
    (hr0 : 0 < rate) (hr1 : rate ≤ 1) (hl0 : 0 ≤ lag) (hl : lag < c.mort.length)
    (hn : ∀ x ∈ c.mort, 0 ≤ x) (hm : c.mortOK = true)
    (hsteps : c.mort.length ≤ mortSteps ops)
    (h : MortTrace (MortOp.rel rate lag) ops c c') :
    sumL c'.mort ≤ addedBy (lastMortWindow c.mort.length ops) ∧
    c.i - removedBy ops ≤ c'.died - c.died ∧
    c'.died + sumL c'.mort = c.died + c.i + addedBy ops - removedBy ops := by
  have hm' := (mech_mortOK_iff c).mp hm
  obtain ⟨a, b, d⟩ := mortc_eventual_death rate lag c c' ops hr0 hr1 hl0 hl hn hsteps h
  exact ⟨a, by omega, by omega⟩

/-- If moreover every entry keeps the infected count in step with the cohorts (`MortOp.keepsI`: true
    of every action of the model except ratio treatments with disagreeing rounding, F20), then
    `i = sum mort` still holds at the end and the remaining INFECTED are bounded by the late
    additions. -/
theorem C11_eventual_death_infected (c c' : Cell) (rate : Rat) (lag : Int) (ops : List MortOp)
    (hr0 : 0 < rate) (hr1 : rate ≤ 1) (hl0 : 0 ≤ lag) (hl : lag < c.mort.length)
    (hn : ∀ x ∈ c.mort, 0 ≤ x) (hm : c.mortOK = true)
    (hsteps : c.mort.length ≤ mortSteps ops)
    (h : MortTrace (fun op a b => op.rel rate lag a b ∧ op.keepsI a b) ops c c') :
    c'.mortOK = true ∧ c'.i ≤ addedBy (lastMortWindow c.mort.length ops) ∧
    c.i - removedBy ops ≤ c'.died - c.died := by
  have hm' := (mech_mortOK_iff c).mp hm
  have hi := mortc_trace_i rate lag hr0 hr1 hl0 c' ops c hn hl h
  have h' := MortTrace.mono (R' := MortOp.rel rate lag) (fun _ _ _ hR => hR.1) ops c c' h
  obtain ⟨a, b, _⟩ := C11_eventual_death_with_removals c c' rate lag ops hr0 hr1 hl0 hl hn hm hsteps h'
  have hi' : c'.i = sumL c'.mort := by omega
  exact ⟨(mech_mortOK_iff c').mpr hi', by omega, b⟩

/-! ### Histories run by the model (in the style of `latencyHistory` / `ValidHistory`) -/

/-- Hosts arriving by host movement, cohort by cohort. -/
def Cell.arriveInMort (c : Cell) (d : List Int) : Cell :=
  { c with i := c.i + sumL d, mort := addL c.mort d, th := c.th + sumL d }

/-- Removal from the mortality cohorts; the removed hosts leave the infected class (where they go
    does not matter here; `th` follows as for a host-removal treatment). -/
def Cell.removeFromMort (c : Cell) (d : List Int) : Cell :=
  { c with i := c.i - sumL d, mort := subL c.mort d, th := c.th - sumL d }

/-- Run a history: the mortality action of the model, `Cell.infectN` for an addition. -/
def mortHistory (rate : Rat) (lag : Int) : List MortOp → Cell → Except ErrKind Cell
  | [], c => .ok c
  | .mortality :: rest, c => do
      let c1 ← (CellOp.mortality rate lag).apply c
      mortHistory rate lag rest c1
  | .add x :: rest, c => mortHistory rate lag rest (c.infectN x)
  | .arrive d :: rest, c => mortHistory rate lag rest (c.arriveInMort d)
  | .remove d :: rest, c => mortHistory rate lag rest (c.removeFromMort d)

/-- Additions are non-negative and of the tracker's length; every removal takes from each cohort at
    most what it holds at that moment (and nothing negative). -/
def ValidMortHistory (rate : Rat) (lag : Int) : List MortOp → Cell → Prop
  | [], _ => True
  | .mortality :: rest, c =>
      match (CellOp.mortality rate lag).apply c with
      | .ok c1 => ValidMortHistory rate lag rest c1
      | .error _ => True
  | .add x :: rest, c => 0 ≤ x ∧ ValidMortHistory rate lag rest (c.infectN x)
  | .arrive d :: rest, c =>
      d.length = c.mort.length ∧ (∀ x ∈ d, 0 ≤ x) ∧ ValidMortHistory rate lag rest (c.arriveInMort d)
  | .remove d :: rest, c =>
      d.length = c.mort.length ∧ (∀ k : Nat, k < d.length → 0 ≤ d[k]! ∧ d[k]! ≤ c.mort[k]!) ∧
      ValidMortHistory rate lag rest (c.removeFromMort d)

/-- A valid history that runs through is a trace (with the infected count in step). -/
theorem mortHistory_trace (rate : Rat) (lag : Int) (c' : Cell) :
    ∀ (ops : List MortOp) (c : Cell), ValidMortHistory rate lag ops c →
      mortHistory rate lag ops c = .ok c' →
      MortTrace (fun op a b => op.rel rate lag a b ∧ op.keepsI a b) ops c c' := by
  intro ops
  induction ops with
  | nil =>
    intro c _ h
    simp only [mortHistory, Except.ok.injEq] at h
    exact h.symm
  | cons op rest ih =>
    intro c hv h
    cases op with
    | mortality =>
      simp only [mortHistory] at h
      simp only [ValidMortHistory] at hv
      cases happ : (CellOp.mortality rate lag).apply c with
      | error e => rw [happ] at h; cases h
      | ok c1 =>
        rw [happ] at h hv
        exact ⟨c1, ⟨happ, trivial⟩, ih c1 hv h⟩
    | add x =>
      simp only [mortHistory] at h
      obtain ⟨hx, hv'⟩ := hv
      exact ⟨c.infectN x, ⟨⟨hx, rfl, rfl⟩, rfl⟩, ih _ hv' h⟩
    | arrive d =>
      simp only [mortHistory] at h
      obtain ⟨hl, hd, hv'⟩ := hv
      exact ⟨c.arriveInMort d, ⟨⟨hl, hd, rfl, rfl⟩, rfl⟩, ih _ hv' h⟩
    | remove d =>
      simp only [mortHistory] at h
      obtain ⟨hl, hd, hv'⟩ := hv
      exact ⟨c.removeFromMort d, ⟨⟨hl, hd, rfl, rfl⟩, rfl⟩, ih _ hv' h⟩

/-- **Eventual death with removals, for a history run by the model.** -/
theorem C11_eventual_death_history (c c' : Cell) (rate : Rat) (lag : Int) (ops : List MortOp)
    (hr0 : 0 < rate) (hr1 : rate ≤ 1) (hl0 : 0 ≤ lag) (hl : lag < c.mort.length)
    (hn : ∀ x ∈ c.mort, 0 ≤ x) (hm : c.mortOK = true)
    (hsteps : c.mort.length ≤ mortSteps ops)
    (hv : ValidMortHistory rate lag ops c) (h : mortHistory rate lag ops c = .ok c') :
    c'.mortOK = true ∧ c'.i ≤ addedBy (lastMortWindow c.mort.length ops) ∧
    c.i - removedBy ops ≤ c'.died - c.died :=
  C11_eventual_death_infected c c' rate lag ops hr0 hr1 hl0 hl hn hm hsteps
    (mortHistory_trace rate lag c' ops c hv h)

/-! ### Each action of the model is such an entry -/

/-- Lethal temperature (`remove_all_infected_at` with a valid draw) is the removal of the draw. -/
theorem C11_lethal_is_removal (rate : Rat) (lag : Int) (c : Cell) (draw : List Int)
    (hn : ∀ x ∈ c.mort, 0 ≤ x) (hm : c.mortOK = true) (hd : ValidDraw c.mort c.i draw) :
    (MortOp.remove draw).rel rate lag c (c.removeAllInfected draw) ∧
    (MortOp.remove draw).keepsI c (c.removeAllInfected draw) :=
  mortc_lethal rate lag c draw hn ((mech_mortOK_iff c).mp hm) hd

/-- Survival rate (`remove_infection_by_ratio_at`, ratio in [0,1], valid draw of the infected) is
    the removal of the draw from the mortality cohorts. -/
theorem C11_survival_is_removal (rate : Rat) (lag : Int) (c : Cell) (ratio : Rat) (dI dE : List Int)
    (hn : ∀ x ∈ c.mort, 0 ≤ x) (hm : c.mortOK = true) (hr0 : 0 ≤ ratio) (hr1 : ratio ≤ 1)
    (hd : ValidDraw c.mort (c.ratioRemovedInfected ratio) dI) :
    (MortOp.remove dI).rel rate lag c (c.removeByRatio ratio dI dE) ∧
    (MortOp.remove dI).keepsI c (c.removeByRatio ratio dI dE) :=
  mortc_removeByRatio rate lag c ratio dI dE hn ((mech_mortOK_iff c).mp hm) hr0 hr1 hd

/-- Removal treatment, coefficient in [0,1]: the cohorts lose their shares rounded up - a `remove`
    on the cohorts in every case. The infected count follows IFF the application is "all infected"
    or the rounding of the total agrees with the per-cohort rounding (`roundingAgrees`, F20). -/
theorem C11_simpleTreat_is_removal (rate : Rat) (lag : Int) (coef : Rat) (app : TreatApp) (c : Cell)
    (h0 : 0 ≤ coef) (h1 : coef ≤ 1) (hn : c.nonNeg = true) (hm : c.mortOK = true) :
    ∃ c', c.simpleTreat coef app = .ok c' ∧
      (MortOp.remove (c.mort.map fun x => rceil (getTreated coef app x))).rel rate lag c c' ∧
      ((MortOp.remove (c.mort.map fun x => rceil (getTreated coef app x))).keepsI c c' ↔
        (app = .allInfected ∨ roundingAgrees rceil coef c = true)) :=
  mortc_simpleTreat rate lag coef app c h0 h1 hn hm

/-- Pesticide treatment, coefficient in [0,1]: the same with shares rounded down. -/
theorem C11_pesticideTreat_is_removal (rate : Rat) (lag : Int) (coef : Rat) (app : TreatApp) (c : Cell)
    (h0 : 0 ≤ coef) (h1 : coef ≤ 1) (hn : c.nonNeg = true) (hm : c.mortOK = true) :
    ∃ c', c.pesticideTreat coef app = .ok c' ∧
      (MortOp.remove (c.mort.map fun x => rfloor (getTreated coef app x))).rel rate lag c c' ∧
      ((MortOp.remove (c.mort.map fun x => rfloor (getTreated coef app x))).keepsI c c' ↔
        (app = .allInfected ∨ roundingAgrees rfloor coef c = true)) :=
  mortc_pesticideTreat rate lag coef app c h0 h1 hn hm

/-- F20 on a concrete cell: cohorts `[1, 1]`, `i = 2`, ratio treatment with coefficient 1/2.
    Removal: `ceil (1/2) + ceil (1/2) = 2` leave the cohorts, `ceil 1 = 1` leaves `i`.
    Pesticide: `floor (1/2) + floor (1/2) = 0` leave the cohorts, `floor 1 = 1` leaves `i`.
    Both are removals on the cohorts, neither keeps `i = sum mort`. -/
theorem C11_ratio_treatment_breaks_i :
    let c : Cell := ⟨4, [], 2, 0, 0, [1, 1], 0, 6⟩
    c.nonNeg = true ∧ c.mortOK = true ∧
    roundingAgrees rceil (1 / 2) c = false ∧ roundingAgrees rfloor (1 / 2) c = false ∧
    (∃ c', c.simpleTreat (1 / 2) .ratio = .ok c' ∧ c'.mort = [0, 0] ∧ c'.i = 1 ∧ c'.mortOK = false) ∧
    (∃ c', c.pesticideTreat (1 / 2) .ratio = .ok c' ∧ c'.mort = [1, 1] ∧ c'.i = 1 ∧
      c'.mortOK = false) := by
  intro c
  refine ⟨by decide, by decide, by decide +kernel, by decide +kernel, ?_, ?_⟩
  · exact ⟨_, mech_simpleTreat_eq (1 / 2) .ratio c (by decide +kernel) (by decide +kernel)
      (by decide) (by decide), by decide +kernel, by decide +kernel, by decide +kernel⟩
  · exact ⟨_, mech_pesticideTreat_eq (1 / 2) .ratio c (by decide +kernel) (by decide +kernel)
      (by decide), by decide +kernel, by decide +kernel, by decide +kernel⟩

/-- Host movement, source side (class draw with `0 ≤ d.i ≤ i`, valid cohort draw when `d.i > 0`):
    the removal of the cohort draw (of zeros when no infected host moves). -/
theorem C11_move_source_is_removal (rate : Rat) (lag : Int) (src dst : Cell) (count : Int)
    (d : ClassDraw) (dE dM : List Int) (hn : ∀ x ∈ src.mort, 0 ≤ x) (hm : src.mortOK = true)
    (hd0 : 0 ≤ d.i) (hd1 : d.i ≤ src.i) (hd : d.i > 0 → ValidDraw src.mort d.i dM) :
    (MortOp.remove (moveMortDelta src d dM)).rel rate lag src (moveHosts src dst count d dE dM).1 ∧
    (MortOp.remove (moveMortDelta src d dM)).keepsI src (moveHosts src dst count d dE dM).1 :=
  mortc_move_source rate lag src dst count d dE dM hn ((mech_mortOK_iff src).mp hm) hd0 hd1 hd

/-- Host movement, target side: the same counts arrive cohort by cohort (`arrive`, not `add`). -/
theorem C11_move_target_is_arrival (rate : Rat) (lag : Int) (src dst : Cell) (count : Int)
    (d : ClassDraw) (dE dM : List Int) (hlen : src.mort.length = dst.mort.length)
    (hm : src.mortOK = true)
    (hd0 : 0 ≤ d.i) (hd1 : d.i ≤ src.i) (hd : d.i > 0 → ValidDraw src.mort d.i dM) :
    (MortOp.arrive (moveMortDelta src d dM)).rel rate lag dst (moveHosts src dst count d dE dM).2.1 ∧
    (MortOp.arrive (moveMortDelta src d dM)).keepsI dst (moveHosts src dst count d dE dM).2.1 :=
  mortc_move_target rate lag src dst count d dE dM hlen ((mech_mortOK_iff src).mp hm) hd0 hd1 hd

/-- The SEI latency step adds the matured hosts (the front exposed cohort, when `step ≥ latency`) to
    the youngest cohort. -/
theorem C11_latency_step_is_addition (rate : Rat) (lag : Int) (latency step : Nat) (c : Cell)
    (he : ∀ x ∈ c.e, 0 ≤ x) :
    (MortOp.add (if step ≥ latency then c.e.headD 0 else 0)).rel rate lag c
        (c.stepForward .sei latency step) ∧
    (MortOp.add (if step ≥ latency then c.e.headD 0 else 0)).keepsI c
        (c.stepForward .sei latency step) :=
  mortc_stepForward rate lag latency step c he

/-- A landing adds one host to the youngest cohort in SI when a susceptible host is present. -/
theorem C11_landing_is_addition (rate : Rat) (lag : Int) (mt : ModelType) (c : Cell) :
    (MortOp.add (if c.s ≤ 0 ∨ mt = .sei then 0 else 1)).rel rate lag c (c.addDisperserAt mt).1 ∧
    (MortOp.add (if c.s ≤ 0 ∨ mt = .sei then 0 else 1)).keepsI c (c.addDisperserAt mt).1 :=
  mortc_addDisperserAt rate lag mt c

/-! ### `C11_eventual_death` is the special case "mortality step, addition, mortality step, ..." -/

/-- The history `mortalityRun` makes: each mortality step followed by an addition. -/
def interleavedAdds : List Int → List MortOp
  | [] => []
  | a :: rest => .mortality :: .add a :: interleavedAdds rest

theorem mortalityRun_eq_history (rate : Rat) (lag : Int) : ∀ (adds : List Int) (c : Cell),
    mortalityRun rate lag adds c = mortHistory rate lag (interleavedAdds adds) c
  | [], _ => rfl
  | a :: rest, c => by
    simp only [mortalityRun, interleavedAdds, mortHistory]
    cases (CellOp.mortality rate lag).apply c with
    | error e => rfl
    | ok c1 => exact mortalityRun_eq_history rate lag rest (c1.infectN a)

theorem interleavedAdds_facts : ∀ (adds : List Int),
    mortSteps (interleavedAdds adds) = adds.length ∧ addedBy (interleavedAdds adds) = sumL adds ∧
    removedBy (interleavedAdds adds) = 0
  | [] => ⟨rfl, rfl, rfl⟩
  | a :: rest => by
    obtain ⟨h1, h2, h3⟩ := interleavedAdds_facts rest
    simp only [interleavedAdds, mortSteps, addedBy, removedBy, MortOp.added, MortOp.removed,
      List.length_cons, sumL_cons, h1, h2, h3]
    exact ⟨trivial, by omega, by omega⟩

theorem interleavedAdds_window (n : Nat) (adds : List Int) (h : adds.length ≤ n) :
    lastMortWindow n (interleavedAdds adds) = interleavedAdds adds := by
  cases adds with
  | nil => rfl
  | cons a rest =>
    have h1 := (interleavedAdds_facts rest).1
    have : mortSteps (MortOp.add a :: interleavedAdds rest) < n := by
      simp only [mortSteps, h1]; simp only [List.length_cons] at h; omega
    simp only [interleavedAdds, lastMortWindow, this, if_true]

theorem interleavedAdds_valid (rate : Rat) (lag : Int) : ∀ (adds : List Int) (c : Cell),
    (∀ a ∈ adds, 0 ≤ a) → ValidMortHistory rate lag (interleavedAdds adds) c
  | [], _, _ => trivial
  | a :: rest, c, h => by
    simp only [interleavedAdds, ValidMortHistory]
    cases (CellOp.mortality rate lag).apply c with
    | error e => trivial
    | ok c1 =>
      exact ⟨h a (by simp), interleavedAdds_valid rate lag rest _ (fun z hz => h z (by simp [hz]))⟩

/-- The statement of `C11_eventual_death`, derived from `C11_eventual_death_history`. -/
example (c c' : Cell) (rate : Rat) (lag : Int) (adds : List Int)
    (hr0 : 0 < rate) (hr1 : rate ≤ 1) (hl0 : 0 ≤ lag) (hl : lag < c.mort.length)
    (hn : c.nonNeg = true) (hm : c.mortOK = true)
    (hadds : ∀ a ∈ adds, 0 ≤ a) (hlen : adds.length = c.mort.length)
    (h : mortalityRun rate lag adds c = .ok c') :
    sumL c'.mort ≤ sumL adds ∧ c.i ≤ c'.died - c.died := by
  obtain ⟨_, _, _, _, _, hmn, _, _⟩ := (mech_nonNeg_iff c).mp hn
  obtain ⟨f1, f2, f3⟩ := interleavedAdds_facts adds
  rw [mortalityRun_eq_history] at h
  obtain ⟨r1, r2, r3⟩ := C11_eventual_death_history c c' rate lag (interleavedAdds adds) hr0 hr1 hl0 hl
    hmn hm (by rw [f1, hlen]; exact Nat.le_refl _) (interleavedAdds_valid rate lag adds c hadds) h
  rw [interleavedAdds_window _ adds (by omega), f2] at r2
  rw [f3] at r3
  have := (mech_mortOK_iff c').mp r1
  exact ⟨by omega, by omega⟩

/-! ### Instances -/

/-- Three cohorts `[3, 2, 1]`, rate 1/2, lag 1, four mortality steps with an early addition, two
    removals and an arrival in between. The run ends with cohorts `[1, 0, 1]`, `i = 2`, `died = 9`.
    The last three mortality steps start at the fourth entry; from there on `2 + 1 + 1 = 4` hosts
    were added (9 in total - the early 5 are all dead or removed - and 4 removed): `2 ≤ 4`, `6 - 4 ≤ 9`. -/
example :
    let c : Cell := ⟨20, [], 6, 0, 0, [3, 2, 1], 0, 26⟩
    let ops : List MortOp := [.add 5, .mortality, .remove [1, 2, 0], .mortality, .add 2, .mortality,
      .remove [0, 1, 0], .arrive [1, 0, 0], .mortality, .add 1]
    ∃ c', mortHistory (1 / 2) 1 ops c = .ok c' ∧ c'.mort = [1, 0, 1] ∧ c'.died = 9 ∧
      addedBy (lastMortWindow 3 ops) = 4 ∧ addedBy ops = 9 ∧ removedBy ops = 4 ∧
      c'.mortOK = true ∧ c'.i ≤ 4 ∧ c.i - 4 ≤ c'.died - c.died := by
  intro c ops
  have hrun : mortHistory (1 / 2) 1 ops c = .ok ⟨12, [], 2, 0, 0, [1, 0, 1], 9, 14⟩ :=
    mortc_ok_of_check (by decide +kernel)
  have hdom : ∀ (d m : List Int), mech_Dom d m →
      d.length = m.length ∧ ∀ k : Nat, k < d.length → 0 ≤ d[k]! ∧ d[k]! ≤ m[k]! :=
    fun d m h => ⟨mech_Dom_length d m h, mortc_index_of_Dom d m h⟩
  have hv : ValidMortHistory (1 / 2) 1 ops c := by
    refine ⟨by decide, ?_⟩
    have e1 : (CellOp.mortality (1 / 2) 1).apply (c.infectN 5) = .ok ⟨15, [], 7, 0, 0, [1, 6, 0], 4, 22⟩ :=
      mortc_ok_of_check (by decide +kernel)
    simp only [ValidMortHistory, e1]
    obtain ⟨l1, p1⟩ := hdom [1, 2, 0] [1, 6, 0] (by simp [mech_Dom])
    refine ⟨l1, p1, ?_⟩
    have e2 : (CellOp.mortality (1 / 2) 1).apply
        (Cell.removeFromMort ⟨15, [], 7, 0, 0, [1, 6, 0], 4, 22⟩ [1, 2, 0]) =
        .ok ⟨15, [], 2, 0, 0, [2, 0, 0], 6, 17⟩ := mortc_ok_of_check (by decide +kernel)
    rw [e2]
    refine ⟨by decide, ?_⟩
    have e3 : (CellOp.mortality (1 / 2) 1).apply (Cell.infectN ⟨15, [], 2, 0, 0, [2, 0, 0], 6, 17⟩ 2) =
        .ok ⟨13, [], 2, 0, 0, [0, 2, 0], 8, 15⟩ := mortc_ok_of_check (by decide +kernel)
    rw [e3]
    obtain ⟨l2, p2⟩ := hdom [0, 1, 0] [0, 2, 0] (by simp [mech_Dom])
    refine ⟨l2, p2, rfl, by decide, ?_⟩
    have e4 : (CellOp.mortality (1 / 2) 1).apply
        (Cell.arriveInMort (Cell.removeFromMort ⟨13, [], 2, 0, 0, [0, 2, 0], 8, 15⟩ [0, 1, 0]) [1, 0, 0]) =
        .ok ⟨13, [], 1, 0, 0, [1, 0, 0], 9, 14⟩ := mortc_ok_of_check (by decide +kernel)
    rw [e4]
    exact ⟨by decide, trivial⟩
  have hw : addedBy (lastMortWindow 3 ops) = 4 := by decide
  obtain ⟨r1, r2, r3⟩ := C11_eventual_death_history c _ (1 / 2) 1 ops (by decide +kernel)
    (by decide +kernel) (by decide) (by decide) (by decide) (by decide) (by decide) hv hrun
  refine ⟨_, hrun, rfl, rfl, hw, by decide, by decide, r1, ?_, ?_⟩
  · have : c.mort.length = 3 := rfl
    rw [this, hw] at r2; exact r2
  · have : removedBy ops = 4 := by decide
    rw [this] at r3; exact r3

/-- Lethal temperature on cohorts `[3, 2, 1]`: the draw `[3, 2, 1]` is removed, `i` goes to 0. -/
example :
    let c : Cell := ⟨5, [], 6, 0, 0, [3, 2, 1], 0, 11⟩
    (MortOp.remove [3, 2, 1]).rel (1 / 2) 1 c (c.removeAllInfected [3, 2, 1]) ∧
    (c.removeAllInfected [3, 2, 1]).mort = [0, 0, 0] ∧ (c.removeAllInfected [3, 2, 1]).i = 0 := by
  intro c
  have hd : ValidDraw c.mort c.i [3, 2, 1] :=
    ⟨rfl, mortc_index_of_Dom [3, 2, 1] [3, 2, 1] (by simp [mech_Dom]), by decide⟩
  exact ⟨(C11_lethal_is_removal (1 / 2) 1 c [3, 2, 1] (by decide) (by decide) hd).1, by decide, by decide⟩

/-- Survival rate 1/2 on the same cell: `6 - round 3 = 3` infected are removed, here one per cohort. -/
example :
    let c : Cell := ⟨5, [0, 2], 6, 0, 2, [3, 2, 1], 0, 13⟩
    (MortOp.remove [1, 1, 1]).rel (1 / 2) 1 c (c.removeByRatio (1 / 2) [1, 1, 1] [0, 1]) ∧
    (MortOp.remove [1, 1, 1]).keepsI c (c.removeByRatio (1 / 2) [1, 1, 1] [0, 1]) := by
  intro c
  have hd : ValidDraw c.mort (c.ratioRemovedInfected (1 / 2)) [1, 1, 1] :=
    ⟨rfl, mortc_index_of_Dom [1, 1, 1] [3, 2, 1] (by simp [mech_Dom]), by decide +kernel⟩
  exact C11_survival_is_removal (1 / 2) 1 c (1 / 2) [1, 1, 1] [0, 1] (by decide) (by decide)
    (by decide +kernel) (by decide +kernel) hd

/-- Ratio treatments where the rounding agrees (cohorts `[2, 4]`, coefficient 1/2: `1 + 2 = 3`):
    removal and pesticide are removals that keep `i` in step. -/
example :
    let c : Cell := ⟨4, [], 6, 0, 0, [2, 4], 0, 10⟩
    (∃ c', c.simpleTreat (1 / 2) .ratio = .ok c' ∧
      (MortOp.remove (c.mort.map fun x => rceil (getTreated (1 / 2) .ratio x))).keepsI c c') ∧
    (∃ c', c.pesticideTreat (1 / 2) .ratio = .ok c' ∧
      (MortOp.remove (c.mort.map fun x => rfloor (getTreated (1 / 2) .ratio x))).keepsI c c') := by
  intro c
  obtain ⟨c1, a1, _, a3⟩ := C11_simpleTreat_is_removal (1 / 2) 1 (1 / 2) .ratio c (by decide +kernel)
    (by decide +kernel) (by decide) (by decide)
  obtain ⟨c2, b1, _, b3⟩ := C11_pesticideTreat_is_removal (1 / 2) 1 (1 / 2) .ratio c (by decide +kernel)
    (by decide +kernel) (by decide) (by decide)
  exact ⟨⟨c1, a1, a3.mpr (Or.inr (by decide +kernel))⟩, ⟨c2, b1, b3.mpr (Or.inr (by decide +kernel))⟩⟩

/-- Host movement of 3 hosts (2 infected, 1 susceptible) between two cells with three cohorts:
    `[1, 0, 1]` leaves the source cohorts and arrives in the SAME cohorts of the target. -/
example :
    let src : Cell := ⟨5, [], 6, 0, 0, [3, 2, 1], 0, 11⟩
    let dst : Cell := ⟨7, [], 1, 0, 0, [0, 0, 1], 0, 8⟩
    let d : ClassDraw := ⟨2, 1, 0, 0⟩
    (MortOp.remove [1, 0, 1]).rel (1 / 2) 1 src (moveHosts src dst 3 d [] [1, 0, 1]).1 ∧
    (MortOp.arrive [1, 0, 1]).rel (1 / 2) 1 dst (moveHosts src dst 3 d [] [1, 0, 1]).2.1 ∧
    (moveHosts src dst 3 d [] [1, 0, 1]).1.mort = [2, 2, 0] ∧
    (moveHosts src dst 3 d [] [1, 0, 1]).2.1.mort = [1, 0, 2] := by
  intro src dst d
  have hd : d.i > 0 → ValidDraw src.mort d.i [1, 0, 1] := fun _ =>
    ⟨rfl, mortc_index_of_Dom [1, 0, 1] [3, 2, 1] (by simp [mech_Dom]), by decide⟩
  exact ⟨(C11_move_source_is_removal (1 / 2) 1 src dst 3 d [] [1, 0, 1] (by decide) (by decide)
      (by decide) (by decide) hd).1,
    (C11_move_target_is_arrival (1 / 2) 1 src dst 3 d [] [1, 0, 1] rfl (by decide)
      (by decide) (by decide) hd).1, by decide, by decide⟩

/-- The latency step of a cell with exposed cohorts `[4, 0, 5]` (step 5 ≥ latency 2) is `add 4`; a
    landing on a cell with susceptible hosts in SI is `add 1`. -/
example :
    let c : Cell := ⟨10, [4, 0, 5], 3, 0, 9, [1, 2], 0, 22⟩
    (MortOp.add 4).rel (1 / 2) 1 c (c.stepForward .sei 2 5) ∧
    (MortOp.add 1).rel (1 / 2) 1 c (c.addDisperserAt .si).1 := by
  intro c
  exact ⟨(C11_latency_step_is_addition (1 / 2) 1 2 5 c (by decide)).1,
    (C11_landing_is_addition (1 / 2) 1 .si c).1⟩

end Pops
