/-
  C12  Establishment, weather and pest-removal rules follow their stated formulas.
  (The weather-coefficient part of C12 lives in Props/C12W.lean with the environment model.)
-/
import PopsModel.Model.HostOps
import PopsModel.Lemmas.HostMech
namespace Pops

/-- A landing disperser establishes exactly when a susceptible host is present and the tester
    (the uniform draw u, or 1 - establishment probability when stochasticity is off) is strictly
    below susceptible / total population x weather x susceptibility; the accepting draws are
    therefore exactly the interval [0, p). The cell changes by exactly one S -> E/I host iff it
    establishes.
    `hdom` (the cohort list of the model type is present) is not used by the proof but is kept on
    purpose: on an empty `mortality_tracker_vector_` (SI) / `exposed_` (SEI) `add_disperser_at`
    calls `.back()` on an empty vector (undefined behaviour), while the model's `addLast [] _ = []`
    is total. -/
theorem C12_establish_event (mt : ModelType) (c : Cell) (env : EnvCell) (sto : Bool) (pEst u p : Rat)
    (hdom : (mt = .si → c.mort ≠ []) ∧ (mt = .sei → c.e ≠ []))
    (hp : c.suitability env = .ok p) :
    ∃ c' k n, c.disperserTo mt env sto pEst u = .ok (c', k, n) ∧
      establishSpec c env sto pEst u k = true ∧ landingSpec mt c c' k = true ∧
      (k = 1 ↔ (c.s > 0 ∧ (if sto then u else 1 - pEst) < p)) := by
  have _ := hdom  -- domain of the C++ (see the doc comment), not needed by the model
  exact mech_C12_establish mt c env sto pEst u p hp

/-- Never when no susceptible host is present (and then no draw is consumed). -/
theorem C12_no_susceptible (mt : ModelType) (c : Cell) (env : EnvCell) (sto : Bool) (pEst u : Rat)
    (hs : c.s ≤ 0) : c.disperserTo mt env sto pEst u = .ok (c, 0, 0) := by
  exact mech_disperserTo_nonpos mt c env sto pEst u hs

/-- A suitability outside [0,1] is rejected with invalid_argument. -/
theorem C12_suitability_range_rejected (c : Cell) (env : EnvCell)
    (h : (c.s : Rat) / (env.n : Rat) * env.sus.getD 1 * env.w.getD 1 < 0 ∨
         (c.s : Rat) / (env.n : Rat) * env.sus.getD 1 * env.w.getD 1 > 1) :
    c.suitability env = .error .invalid_argument := by
  exact mech_C12_suit_rejected c env h

/-- Lethal temperature at a cold cell: every infected host returns to susceptible, the mortality
    cohorts are emptied consistently, exposed hosts are untouched. (The derived totals need not be
    consistent: `totalsOK` is not a hypothesis.) -/
theorem C12_lethal (c : Cell) (d : List Int) (hn : c.nonNeg = true)
    (hm : c.mortOK = true) (hd : ValidDraw c.mort c.i d) :
    lethalSpec true c (c.removeAllInfected d) = true ∧ (c.removeAllInfected d).mortOK = true ∧
    (∀ x ∈ (c.removeAllInfected d).mort, x = 0) := by
  exact mech_C12_lethal c d hn hm hd

/-- Survival rate r < 1 keeps round(r x count) of the infected and of the exposed hosts and
    returns the rest to susceptible; r >= 1 changes nothing. No consistency of the cell
    (`nonNeg`, `totalsOK`, `mortOK`) is needed.
    `hd` (ratio in [0,1], valid cohort draws) is not used by the proof but is kept on purpose: it
    is what makes the cohorts the code draws from non-negative (`ValidDraw` bounds each draw by
    its cohort); on a negative cohort `draw_n_from_cohorts` calls `vector::insert` with a negative
    count (throws `std::length_error`), while the model is total. -/
theorem C12_survival (c : Cell) (ratio : Rat) (dI dE : List Int)
    (hd : (CellOp.survival ratio dI dE).inDomain c) (c' : Cell)
    (h : (CellOp.survival ratio dI dE).apply c = .ok c') :
    survivalSpec ratio c c' = true := by
  have _ := hd  -- domain of the C++ (see the doc comment), not needed by the model
  exact mech_C12_survival c ratio dI dE c' h

example : ∃ (c : Cell) (env : EnvCell) (p : Rat), c.s > 0 ∧ c.suitability env = .ok p :=
  ⟨⟨1, [], 0, 0, 0, [0], 0, 1⟩, ⟨1, none, none⟩, 1, by decide, by
    exact mech_C12_example⟩

end Pops
