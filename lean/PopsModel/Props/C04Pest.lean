/-
  C04 / C02 (pest rasters and soils): what the review of the C04 / C02 statements found missing.

  * `C04_pest_nonneg_and_bounded(_soil)`: after generate + disperse every cell of the disperser and
    established-disperser rasters is non-negative and `established <= dispersers`.
  * `C04_generate_split`: what `generate` writes where, and that the soil receives exactly the soil
    shares as arrivals (`soilDisperserTo`).
  * `C04_ledger_soil`: susceptible hosts consumed by spread = established dispersers + those
    established from the soil (the loop of `disperse` with an active soil pool).
  * `C04_soil_stays_until_aged_out`: a stored disperser is still in the soil after fewer steps
    than there are cohorts, unless released.
-/
import PopsModel.Model.Soil
import PopsModel.Lemmas.C04Pest
import PopsModel.Props.C04
namespace Pops

/-! ### (1) the pest rasters after generate + disperse -/

/-- After `generate` followed by `disperse` (soil pool active: the soil of each suitable cell
    releases `soilLandings[j]` dispersers), for EVERY cell index `k`: the disperser count is
    non-negative, the established count is non-negative and does not exceed the disperser count;
    the disperser raster is the one `generate` wrote.

    Hypotheses: a soil percentage, when there is one, lies in [0,1]; one generated count per
    suitable cell (any sign: `generate` writes 0 for a non-positive count); no cell is listed twice
    as suitable; the cells that are NOT suitable satisfy the bounds beforehand (`generate` resets only
    the suitable cells, see `C04_generate_split`). Each of the last three is needed, see the
    counter-examples below. -/
theorem C04_pest_nonneg_and_bounded_soil (g : Grid) (env : DisperseEnv) (suit : List (Int × Int)) (gen : List Int)
    (soilPct : Option Rat) (soilLandings : List Nat) (cells cells' : List Cell) (p p' : PestState)
    (ts ts' : List (Int × Int)) (us us' : List Rat) (fromSoil : Nat)
    (hpct : ∀ pct, soilPct = some pct → 0 ≤ pct ∧ pct ≤ 1)
    (hlen : gen.length = suit.length)
    (hnd : (suit.map fun rc => g.idx rc.1 rc.2).Nodup)
    (hp : ∀ k : Nat, k ∉ suit.map (fun rc => g.idx rc.1 rc.2) → 0 ≤ p.est[k]! ∧ p.est[k]! ≤ p.disp[k]!)
    (h : disperseStepSoil g env suit soilLandings cells (generateStep g suit gen soilPct p).1 ts us
          = .ok (cells', p', ts', us', fromSoil)) :
    (∀ k : Nat, 0 ≤ p'.disp[k]! ∧ 0 ≤ p'.est[k]! ∧ p'.est[k]! ≤ p'.disp[k]!) ∧
    p'.disp = (generateStep g suit gen soilPct p).1.disp ∧
    p'.disp.length = p.disp.length ∧ p'.est.length = p.est.length := by
  unfold disperseStepSoil at h
  unfold generateStep at h ⊢
  obtain ⟨_, _, g3, g4, g5, g6, g7, _⟩ := c04p_generateGo_facts g soilPct suit gen p [] hlen
  obtain ⟨d1, d2, _, d4, d5, d6, _⟩ := c04p_disperseGoSoil_est g env suit soilLandings cells cells' _ p' ts ts' us us' fromSoil h
  refine ⟨?_, d1, by rw [d1, g3], by rw [d2, g4]⟩
  intro k
  rw [d1]
  by_cases hk : k ∈ suit.map (fun rc => g.idx rc.1 rc.2)
  · have e0 := g6 k hk
    have dn := g7 (c04p_dispersingShare_nonneg soilPct hpct) k hk
    have lo := d4 k
    have hi := d6 hnd k hk
    rw [e0] at lo hi
    exact ⟨dn, lo, by omega⟩
  · obtain ⟨a, b⟩ := g5 k hk
    rw [c04p_get!_of_get? (d5 k hk), c04p_get!_of_get? a, c04p_get!_of_get? b]
    obtain ⟨x, y⟩ := hp k hk
    exact ⟨by omega, x, y⟩

/-- The same for `disperse` without a soil pool (`disperseStep`). -/
theorem C04_pest_nonneg_and_bounded (g : Grid) (env : DisperseEnv) (suit : List (Int × Int)) (gen : List Int)
    (soilPct : Option Rat) (cells cells' : List Cell) (p p' : PestState)
    (ts ts' : List (Int × Int)) (us us' : List Rat)
    (hpct : ∀ pct, soilPct = some pct → 0 ≤ pct ∧ pct ≤ 1)
    (hlen : gen.length = suit.length)
    (hnd : (suit.map fun rc => g.idx rc.1 rc.2).Nodup)
    (hp : ∀ k : Nat, k ∉ suit.map (fun rc => g.idx rc.1 rc.2) → 0 ≤ p.est[k]! ∧ p.est[k]! ≤ p.disp[k]!)
    (h : disperseStep g env suit cells (generateStep g suit gen soilPct p).1 ts us = .ok (cells', p', ts', us')) :
    (∀ k : Nat, 0 ≤ p'.disp[k]! ∧ 0 ≤ p'.est[k]! ∧ p'.est[k]! ≤ p'.disp[k]!) ∧
    p'.disp = (generateStep g suit gen soilPct p).1.disp ∧
    p'.disp.length = p.disp.length ∧ p'.est.length = p.est.length := by
  apply C04_pest_nonneg_and_bounded_soil g env suit gen soilPct [] cells cells' p p' ts ts' us us' 0 hpct hlen hnd hp
  unfold disperseStepSoil
  unfold disperseStep at h
  rw [c04p_disperseGoSoil_no_release, h]

/-- `disperse` with a soil pool whose soils release nothing is `disperse` without a soil pool. -/
theorem C04_disperseStepSoil_no_release (g : Grid) (env : DisperseEnv) (suit : List (Int × Int)) (cells : List Cell)
    (p : PestState) (ts : List (Int × Int)) (us : List Rat) :
    disperseStepSoil g env suit [] cells p ts us =
      match disperseStep g env suit cells p ts us with
      | .error e => .error e
      | .ok (cells', p', ts', us') => .ok (cells', p', ts', us', 0) :=
  c04p_disperseGoSoil_no_release g env suit cells p ts us

/-! ### (2) what `generate` writes -/

/-- `SpreadAction::generate` (actions.hpp 81-103), one generated count per suitable cell:

    * the returned soil shares: `lround (pct * x)` for a positive count `x` with soils, 0 otherwise;
    * every suitable cell's established count is reset to 0;
    * suitable cells pairwise different: the disperser count of the cell becomes `x - lround (pct * x)`
      for a positive count (the whole of `x` without soils) and 0 for a non-positive count - share
      and remainder add up to `x`;
    * cells that are NOT suitable are not written at all (they are not reset to 0): they keep
      whatever the rasters held; the outside list and the raster sizes are unchanged;
    * with an active soil pool (`generateStepSoil`: pest and soil rasters together) the pest rasters
      are those of `generateStep` and the soil rasters are obtained by handing cell `k_j` exactly its
      soil share as arrivals: `shares[j]` calls of `SoilPool::disperser_to` (`soilDisperserTo`), in
      suitable-cell order, threading the uniforms of the soil stream (`soilArriveAll`). -/
theorem C04_generate_split (g : Grid) (suit : List (Int × Int)) (gen : List Int) (soilPct : Option Rat)
    (p : PestState) (hlen : gen.length = suit.length) :
    (generateStep g suit gen soilPct p).2 = gen.map (soilHanded soilPct) ∧
    (∀ k : Nat, k ∈ suit.map (fun rc => g.idx rc.1 rc.2) → (generateStep g suit gen soilPct p).1.est[k]! = 0) ∧
    ((suit.map fun rc => g.idx rc.1 rc.2).Nodup → ∀ (rc : Int × Int) (x : Int), (rc, x) ∈ suit.zip gen →
      g.idx rc.1 rc.2 < p.disp.length →
      (generateStep g suit gen soilPct p).1.disp[g.idx rc.1 rc.2]! = dispersingShare soilPct x ∧
      dispersingShare soilPct x + soilHanded soilPct x = (if x > 0 then x else 0) ∧
      (∀ pct, soilPct = some pct → 0 < x →
        soilHanded soilPct x = lround (pct * x) ∧ dispersingShare soilPct x = x - lround (pct * x)) ∧
      (soilPct = none → 0 < x → soilHanded soilPct x = 0 ∧ dispersingShare soilPct x = x) ∧
      (x ≤ 0 → soilHanded soilPct x = 0 ∧ dispersingShare soilPct x = 0)) ∧
    (∀ k : Nat, k ∉ suit.map (fun rc => g.idx rc.1 rc.2) →
      (generateStep g suit gen soilPct p).1.disp[k]? = p.disp[k]? ∧
      (generateStep g suit gen soilPct p).1.est[k]? = p.est[k]?) ∧
    (generateStep g suit gen soilPct p).1.outside = p.outside ∧
    (generateStep g suit gen soilPct p).1.disp.length = p.disp.length ∧
    (generateStep g suit gen soilPct p).1.est.length = p.est.length ∧
    (∀ (pct : Rat) (sc : SoilCfg) (soil : List (List Int)) (us : List Rat),
      generateStepSoil g suit gen pct sc p soil us =
        match soilArriveAll sc (List.zip (suit.map fun rc => g.idx rc.1 rc.2) (generateStep g suit gen (some pct) p).2) soil us with
        | .error e => .error e
        | .ok (soil', us') => .ok ((generateStep g suit gen (some pct) p).1, soil', us')) := by
  unfold generateStep
  obtain ⟨g1, g2, g3, g4, g5, g6, _, g8⟩ := c04p_generateGo_facts g soilPct suit gen p [] hlen
  rw [List.nil_append] at g1
  refine ⟨g1, g6, ?_, g5, g2, g3, g4, ?_⟩
  · intro hnd rc x hx hk
    refine ⟨by rw [g8 hnd rc x hx, if_pos hk], ?_, ?_, ?_, ?_⟩
    · unfold dispersingShare soilHanded; split <;> omega
    · intro pct hp hx0; subst hp
      simp only [soilHanded, dispersingShare, soilShare, gt_iff_lt, hx0, if_true, and_self]
    · intro hp hx0; subst hp
      simp only [soilHanded, dispersingShare, soilShare, gt_iff_lt, hx0, if_true, Int.sub_zero, and_self]
    · intro hx0
      have : ¬ x > 0 := by omega
      simp only [soilHanded, dispersingShare, this, if_false, and_self]
  · intro pct sc soil us
    unfold generateStepSoil
    have := (c04p_generateGo_facts g (some pct) suit gen p [] hlen).1
    rw [List.nil_append] at this
    rw [this]
    exact c04p_generateSoilGo_eq g pct sc suit gen p soil us []

/-- What the arrivals do to the soil of a cell: `n` arrivals add between 0 and `n` dispersers, all to
    the youngest cohort, and consume `n` uniforms when establishment in the soil is stochastic (none
    otherwise); with stochastic establishment off all `n` share one fate (`1 - pEst < weather`). -/
theorem C04_soil_arrivals (w : Rat) (sto : Bool) (pEst : Rat) (n : Nat) (cohorts : List Int) (us : List Rat) :
    (∃ m : Nat, m ≤ n ∧ (soilDispersersTo w sto pEst n cohorts us).1 = addLast cohorts (m : Int)) ∧
    (soilDispersersTo w sto pEst n cohorts us).2 = (if sto then us.drop n else us) ∧
    (soilDispersersTo w false pEst n cohorts us).1 = (if 1 - pEst < w then addLast cohorts (n : Int) else cohorts) :=
  ⟨(c04p_soilDispersersTo_facts w sto pEst n cohorts us).1, (c04p_soilDispersersTo_facts w sto pEst n cohorts us).2,
   c04p_soilDispersersTo_det w pEst n cohorts us⟩

/-! ### (3) dispersal with soil landings -/

/-- A disperser released from the soil of a cell lands in that cell exactly like a kernel-driven
    disperser whose target is that cell (`landOne`, inside the study area), except that the pest
    rasters are not involved: it either establishes - exactly one susceptible host of ITS OWN cell is
    converted, the cell's host total is kept - or is lost (landscape unchanged). -/
theorem C04_soil_disperser_once (g : Grid) (env : DisperseEnv) (cells cells' : List Cell) (p : PestState)
    (r c : Int) (us us' : List Rat) (ok : Bool)
    (hdom : env.mt = .sei → ∀ x ∈ cells, x.e ≠ [])
    (h : landInCell env cells (g.idx r c) us = .ok (cells', ok, us')) :
    (g.isOutside r c = false → landOne g env cells p (r, c) us = .ok (cells', p, ok, us')) ∧
    cells'.length = cells.length ∧
    (∀ k : Nat, k ≠ g.idx r c → cells'[k]? = cells[k]?) ∧
    (ok = true → (cells'[g.idx r c]!).s = (cells[g.idx r c]!).s - 1 ∧
        (cells'[g.idx r c]!).hosts = (cells[g.idx r c]!).hosts) ∧
    (ok = false → cells' = cells) := by
  refine ⟨fun ho => by rw [c04p_landOne_inside g env cells p r c us ho, h], ?_⟩
  rcases c04p_landInCell_facts env cells cells' _ us us' ok h with ⟨b1, b2⟩ | ⟨b1, b2, b3, b4⟩
  · subst b1 b2
    exact ⟨rfl, fun _ _ => rfl, fun hc => (by cases hc), fun _ => rfl⟩
  · subst b1 b4
    have hp := act_addDisperserAt_pos env.mt (cells[g.idx r c]!) b3
    refine ⟨List.length_set, fun k hk => List.getElem?_set_ne (Ne.symm hk), fun _ => ?_, fun hc => (by cases hc)⟩
    rw [act_getElem!_set_self _ _ b2]
    exact ⟨hp.2.1, hp.2.2 (fun hm => hdom hm _ (act_getElem!_mem b2))⟩

/-- `SpreadAction::disperse` with an active soil pool (actions.hpp 118-144): the susceptible hosts
    consumed by spread equal the established dispersers (increase of the established raster) PLUS
    the dispersers established from the soil, which are not counted in any raster; these are at
    most the dispersers the soils of the suitable cells released; the disperser raster is unchanged.
    (`hsz`: the established raster covers the suitable cells, as for `C04_ledger`.) -/
theorem C04_ledger_soil (g : Grid) (env : DisperseEnv) (suit : List (Int × Int)) (soilLandings : List Nat)
    (cells cells' : List Cell) (p p' : PestState) (ts ts' : List (Int × Int)) (us us' : List Rat)
    (establishedFromSoil : Nat)
    (hsz : ∀ rc ∈ suit, g.idx rc.1 rc.2 < p.est.length)
    (h : disperseStepSoil g env suit soilLandings cells p ts us = .ok (cells', p', ts', us', establishedFromSoil)) :
    totalS cells - totalS cells' = sumL p'.est - sumL p.est + (establishedFromSoil : Int) ∧
    establishedFromSoil ≤ (soilLandings.take suit.length).sum ∧
    p'.disp = p.disp ∧ cells'.length = cells.length := by
  unfold disperseStepSoil at h
  obtain ⟨d1, _, d3, _, _, _, d7⟩ := c04p_disperseGoSoil_est g env suit soilLandings cells cells' p p' ts ts' us us' _ h
  exact ⟨c04p_disperseGoSoil_ledger g env suit soilLandings cells cells' p p' ts ts' us us' _ hsz h, d7, d1, d3⟩

/-! ### (4) ageing: not before the configured number of steps -/

/-- A disperser cohort at position `pos` of the soil of a cell (0 = oldest), after `j <= pos`
    soil steps - each a release (`soilRelease` by that step's draw, `dispersers_from`) followed by
    ageing (`soilNext`, `next_step`) - is at position `pos - j` and holds exactly what it held minus
    what the draws took from it: it is still in the soil unless released. In particular the youngest
    cohort (`pos = length - 1`) is still there, as the oldest, after `length - 1` steps; without
    releases it is intact. (`C04_soil_ages_out`: after `length` steps it is gone.) -/
theorem C04_soil_stays_until_aged_out (cohorts : List Int) :
    (∀ (draws : List (List Int)) (pos : Nat), (∀ d ∈ draws, d.length = cohorts.length) →
      draws.length ≤ pos → pos < cohorts.length →
      (soilRun draws cohorts)[pos - draws.length]! = cohorts[pos]! - releasedFrom draws pos ∧
      (soilRun draws cohorts).length = cohorts.length) ∧
    (∀ (draws : List (List Int)), (∀ d ∈ draws, d.length = cohorts.length) → draws.length + 1 = cohorts.length →
      (soilRun draws cohorts)[0]! = cohorts[cohorts.length - 1]! - releasedFrom draws (cohorts.length - 1)) ∧
    (∀ j k : Nat, k + j < cohorts.length → (iter soilNext j cohorts)[k]! = cohorts[k + j]!) := by
  refine ⟨fun draws pos hd h1 h2 => ⟨c04p_soilRun_exact draws cohorts hd pos h1 h2, c04p_soilRun_length draws cohorts hd⟩,
    ?_, fun j k h => c04p_iter_soilNext_get! j cohorts k h⟩
  intro draws hd hl
  have := c04p_soilRun_exact draws cohorts hd (cohorts.length - 1) (by omega) (by omega)
  have e : cohorts.length - 1 - draws.length = 0 := by omega
  rw [e] at this
  exact this

/-! ### a concrete spread step with soils: 1 x 2 raster, SEI, both cells suitable -/

namespace C04PestEx

def grid : Grid := ⟨1, 2⟩
def suit : List (Int × Int) := [(0, 0), (0, 1)]
/-- cell 0: 3 susceptible, 4 infected; cell 1: 5 susceptible. -/
def land : List Cell := [⟨3, [0, 0], 4, 0, 0, [0], 0, 7⟩, ⟨5, [0, 0], 0, 0, 0, [0], 0, 5⟩]
/-- stale pest rasters (both cells are suitable, so `generate` resets them). -/
def pest0 : PestState := ⟨[9, 9], [7, 7], []⟩
/-- cell 0 generates 4 dispersers, cell 1 none; half of them go to the soil. -/
def gen : List Int := [4, 0]
def soilCfg : SoilCfg := ⟨some [1, 1/2], true, 0⟩
def soil0 : List (List Int) := [[1, 0], [0, 0]]
def env : DisperseEnv := ⟨.sei, true, 0, [7, 5], some [1, 1/2]⟩
def pest1 : PestState := ⟨[2, 0], [0, 0], []⟩

/-- (instance search gives up on the 5-tuple; compose it from the 4-tuple) -/
instance : DecidableEq (List Cell × PestState × List (Int × Int) × List Rat × Nat) :=
  @instDecidableEqProd _ _ _ (inferInstanceAs (DecidableEq (PestState × List (Int × Int) × List Rat × Nat)))

/-- generate: 4 = 2 dispersing + 2 handed to the soil of cell 0. -/
theorem gen_run : generateStep grid suit gen (some (1/2)) pest0 = (pest1, [2, 0]) := by decide +kernel

/-- the soil of cell 0 receives 2 arrivals (uniforms 1/2 and 1 against weather 1: the first is stored). -/
theorem gen_soil_run : generateStepSoil grid suit gen (1/2) soilCfg pest0 soil0 [1/2, 1] = .ok (pest1, [[1, 1], [0, 0]], []) :=
  c04p_eq_ok (by decide +kernel)

/-- disperse: cell 0 sends one disperser to cell 1 (establishes: 1/4 < 5/5 x 1/2) and one outside; its
    soil releases 1 (establishes: 1/8 < 3/7); the soil of cell 1 releases 2 (9/10 fails, 1/10 < 4/5 x 1/2). -/
theorem disp_run :
    disperseStepSoil grid env suit [1, 2] land pest1 [(0, 1), (0, 5)] [1/4, 1/8, 9/10, 1/10] =
      .ok ([⟨2, [0, 1], 4, 0, 1, [0], 0, 7⟩, ⟨3, [0, 2], 0, 0, 2, [0], 0, 5⟩], ⟨[2, 0], [1, 0], [(0, 5)]⟩, [], [], 2) :=
  c04p_eq_ok (by decide +kernel)

example : ∀ k : Nat, 0 ≤ ([2, 0] : List Int)[k]! ∧ 0 ≤ ([1, 0] : List Int)[k]! ∧ ([1, 0] : List Int)[k]! ≤ ([2, 0] : List Int)[k]! :=
  (C04_pest_nonneg_and_bounded_soil grid env suit gen (some (1/2)) [1, 2] land _ pest0 _ _ _ _ _ 2
    (fun pct h => by injection h with h; subst h; exact ⟨by decide +kernel, by decide +kernel⟩) rfl (by decide)
    (fun k hk => by
      have : k ≠ 0 ∧ k ≠ 1 := by simpa [suit, grid, Grid.idx] using hk
      match k, this with
      | k + 2, _ => exact ⟨Int.le_refl _, Int.le_refl _⟩)
    (by rw [gen_run]; exact disp_run)).1

/-- 8 susceptible before, 5 after: 1 established disperser + 2 established from the soil. -/
example : totalS land - totalS [⟨2, [0, 1], 4, 0, 1, [0], 0, 7⟩, ⟨3, [0, 2], 0, 0, 2, [0], 0, 5⟩] =
    sumL ([1, 0] : List Int) - sumL pest1.est + ((2 : Nat) : Int) ∧ 2 ≤ (([1, 2] : List Nat).take suit.length).sum :=
  let h := C04_ledger_soil grid env suit [1, 2] land _ pest1 _ _ _ _ _ 2 (by decide) disp_run
  ⟨h.1, h.2.1⟩

example : (generateStep grid suit gen (some (1/2)) pest0).1.disp[grid.idx 0 0]! = dispersingShare (some (1/2)) 4 ∧
    dispersingShare (some (1/2)) 4 + soilHanded (some (1/2)) 4 = 4 :=
  let h := (C04_generate_split grid suit gen (some (1/2)) pest0 rfl).2.2.1 (by decide) (0, 0) 4 (by decide) (by decide)
  ⟨h.1, h.2.1⟩

/-- Soil cohorts `[3, 0, 4]` with draws `[1,0,1]` then `[0,2,0]` (it has moved to the middle): the youngest cohort (4) is the
    oldest after two steps and holds 4 - 1 - 2 = 1. -/
example : (soilRun [[1, 0, 1], [0, 2, 0]] [3, 0, 4])[0]! = 1 ∧ releasedFrom [[1, 0, 1], [0, 2, 0]] 2 = 3 := by decide

example : (soilRun [[1, 0, 1], [0, 2, 0]] [3, 0, 4])[0]! = ([3, 0, 4] : List Int)[2]! - releasedFrom [[1, 0, 1], [0, 2, 0]] 2 :=
  (C04_soil_stays_until_aged_out [3, 0, 4]).2.1 [[1, 0, 1], [0, 2, 0]] (by decide) rfl

/-! Each hypothesis of `C04_pest_nonneg_and_bounded` is needed (no soils, every landing establishes). -/

def envDet : DisperseEnv := ⟨.si, false, 1, [7, 5], none⟩

/-- A cell listed twice as suitable disperses twice: 2 established > 1 disperser. -/
example : disperseStep grid envDet [(0, 0), (0, 0)] land (generateStep grid [(0, 0), (0, 0)] [1, 1] none ⟨[0, 0], [0, 0], []⟩).1
      [(0, 1), (0, 1)] [] = .ok ([⟨3, [0, 0], 4, 0, 0, [0], 0, 7⟩, ⟨3, [0, 0], 2, 0, 0, [2], 0, 5⟩], ⟨[1, 0], [2, 0], []⟩, [], []) :=
  c04p_eq_ok (by decide +kernel)

/-- A generated-count list shorter than the suitable-cell list leaves a suitable cell unreset. -/
example : disperseStep grid envDet [(0, 0)] land (generateStep grid [(0, 0)] [] none ⟨[1, 0], [1, 0], []⟩).1
      [(0, 1)] [] = .ok ([⟨3, [0, 0], 4, 0, 0, [0], 0, 7⟩, ⟨4, [0, 0], 1, 0, 0, [1], 0, 5⟩], ⟨[1, 0], [2, 0], []⟩, [], []) :=
  c04p_eq_ok (by decide +kernel)

/-- A cell that is not suitable is never written: whatever the caller's rasters hold there stays. -/
example : disperseStep grid envDet [(0, 0)] land (generateStep grid [(0, 0)] [0] none ⟨[0, 1], [0, 5], []⟩).1
      [] [] = .ok (land, ⟨[0, 1], [0, 5], []⟩, [], []) :=
  c04p_eq_ok (by decide +kernel)

/-- A soil percentage above 1 makes the disperser count negative. -/
example : (generateStep grid [(0, 0)] [1] (some 2) ⟨[0, 0], [0, 0], []⟩).1.disp = [-1, 0] := by decide +kernel

end C04PestEx

end Pops
