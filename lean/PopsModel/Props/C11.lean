/-
  C11  Mortality kills only aged cohorts, at the stated rate, eventually all infected.
-/
import PopsModel.Model.HostOps
import PopsModel.Lemmas.HostMech
import PopsModel.Lemmas.HostMech3
namespace Pops

/-- The mortality action (apply, then age) from a consistent cell: cohort 0 dies completely,
    cohorts 1..|mort|-lag-1 lose floor(rate x size), cohorts within the lag lose nothing; the dead
    are added to `died` and subtracted from infected and total hosts; then all cohorts age.
    The documented domain of the rate is [0,1]; the statement also covers a negative rate, for
    which the code (`if (mortality_rate <= 0) return;`) and the model let nobody die. -/
theorem C11_who_dies (c : Cell) (rate : Rat) (lag : Int) (hr1 : rate ≤ 1) (hl : 0 ≤ lag)
    (hn : c.nonNeg = true) (ht : c.totalsOK = true) (hm : c.mortOK = true) :
    ∃ c', (CellOp.mortality rate lag).apply c = .ok c' ∧ mortalitySpec rate lag c c' = true := by
  exact mech_C11_who_dies c rate lag hr1 hl hn ht hm

/-- With rate zero nobody dies (the cohorts still age). -/
theorem C11_rate_zero (c : Cell) (lag : Int) :
    (CellOp.mortality 0 lag).apply c = .ok c.stepForwardMortality := by
  exact mech_C11_rate_zero c lag

/-- `a` new infections in the SI model (what `a` successful landings do to the cell). -/
def Cell.infectN (c : Cell) (a : Int) : Cell :=
  { c with s := c.s - a, i := c.i + a, mort := addLast c.mort a }

/-- A run of mortality steps, each followed by new infection. -/
def mortalityRun (rate : Rat) (lag : Int) : List Int → Cell → Except ErrKind Cell
  | [], c => .ok c
  | a :: rest, c => do
    let c1 ← (CellOp.mortality rate lag).apply c
    mortalityRun rate lag rest (c1.infectN a)

/-- With a positive rate every host infected before the run is dead after tracker-length
    mortality steps, whatever new infection arrives in between: what is left in the cohorts is at
    most the newly infected, and at least the originally infected have died. (The derived totals
    need not be consistent: `totalsOK` is not a hypothesis; the run is assumed not to throw.) -/
theorem C11_eventual_death (c c' : Cell) (rate : Rat) (lag : Int) (adds : List Int)
    (hr0 : 0 < rate) (hr1 : rate ≤ 1) (hl0 : 0 ≤ lag) (hl : lag < c.mort.length)
    (hn : c.nonNeg = true) (hm : c.mortOK = true)
    (hadds : ∀ a ∈ adds, 0 ≤ a) (hlen : adds.length = c.mort.length)
    (h : mortalityRun rate lag adds c = .ok c') :
    sumL c'.mort ≤ sumL adds ∧ c.i ≤ c'.died - c.died := by
  exact mech_C11_eventual_death rate lag (mortalityRun rate lag) (fun _ => rfl) (fun _ _ _ => rfl)
    c c' adds hr0 hr1 hl0 hl hn hm hadds hlen h

example : ∃ c : Cell, c.nonNeg = true ∧ c.totalsOK = true ∧ c.mortOK = true ∧ (0 : Int) < c.mort.length ∧ c.i > 0 :=
  ⟨⟨5, [], 6, 0, 0, [1, 2, 3], 0, 11⟩, by decide⟩

end Pops
