/-
  The per-step theorems lifted to WHOLE RUNS of `Model::run_step` (Model/RunModel.lean): any number
  of steps, any calendar (any `StepCfg`: every combination of enabled features and schedules), any
  first step, and for every step its own input rasters, kernel results and random draws.

  * `C01_run`            hosts are conserved over any run (only mortality and removal treatments
                         take hosts out, nothing creates hosts);
  * `C02_C03_run`        after any run, and after every prefix of it, every count is non-negative and
                         every total equals the sum of its parts, in every cell;
  * `C05_offseason_run`  over an entire off-season, however long and whatever else happens in it,
                         no exposed cohort grows, nothing ages and nothing matures;
  * `C09_run_prefix`, `C09_run_frame`  a run is the composition of its steps, and inputs of
                         disabled or unscheduled features never matter.

  Domain hypothesis: `RunDomainAlong` - each step's operations are in their documented domain at
  the landscape that step finds (ratios in [0,1], valid draws, cohort vectors present).
-/
import PopsModel.Lemmas.RunModel
import PopsModel.Props.C05OffSeason
namespace Pops

/-- C01 over whole runs: for every configuration, every list of step inputs of any length and
    every first step, hosts after the run = hosts before - deaths reported during the run - hosts
    removed by treatments during the run; the removed count is non-negative, the death counter only
    grows, and no host is ever created. -/
theorem C01_run (cfg : StepCfg) (inps : List StepInputs) (first : Nat) (l l' : Land)
    (hinv : l.inv) (hu : l.uniform) (hd : RunDomainAlong cfg inps first l)
    (h : runModel cfg inps first l = .ok l') :
    l'.hosts = l.hosts - (l'.died - l.died) - removedByRun cfg inps first l ∧
    0 ≤ removedByRun cfg inps first l ∧ l.died ≤ l'.died ∧ l'.hosts ≤ l.hosts := by
  have := run_facts cfg inps first l l' hinv hu hd h
  exact ⟨this.1, this.2.1, this.2.2.1, this.2.2.2.1⟩

/-- C02/C03 over whole runs: after ANY run every count of every cell is non-negative and every
    total equals the sum of its parts (`inv`), the cohort vectors keep a common length (`uniform`);
    and the same holds after every prefix of the run - each prefix `inps.take k` runs successfully
    to a landscape `m` with `m.inv ∧ m.uniform` (for `k ≥ inps.length` that is `l'` itself). -/
theorem C02_C03_run (cfg : StepCfg) (inps : List StepInputs) (first : Nat) (l l' : Land)
    (hinv : l.inv) (hu : l.uniform) (hd : RunDomainAlong cfg inps first l)
    (h : runModel cfg inps first l = .ok l') :
    (l'.inv ∧ l'.uniform) ∧
    ∀ k, ∃ m, runModel cfg (inps.take k) first l = .ok m ∧ m.inv ∧ m.uniform := by
  have hf := run_facts cfg inps first l l' hinv hu hd h
  refine ⟨⟨hf.2.2.2.2.1, hf.2.2.2.2.2⟩, fun k => ?_⟩
  have hsplit : inps.take k ++ inps.drop k = inps := List.take_append_drop k inps
  rw [← hsplit] at h hd
  obtain ⟨m, hm, _⟩ := runModel_append_inv cfg _ _ first l l' h
  have hdk := runDomainAlong_append_left cfg _ _ first l hd
  have hk := run_facts cfg (inps.take k) first l m hinv hu hdk hm
  exact ⟨m, hm, hk.2.2.2.2.1, hk.2.2.2.2.2⟩

/-- The prefix form as an implication: whatever landscape a prefix of a run in its domain
    reaches, it is consistent (no need for the rest of the run to succeed). -/
theorem C02_C03_run_prefix (cfg : StepCfg) (inps : List StepInputs) (first : Nat) (l : Land)
    (hinv : l.inv) (hu : l.uniform) (hd : RunDomainAlong cfg inps first l) (k : Nat) (m : Land)
    (hm : runModel cfg (inps.take k) first l = .ok m) : m.inv ∧ m.uniform := by
  have hsplit : inps.take k ++ inps.drop k = inps := List.take_append_drop k inps
  rw [← hsplit] at hd
  have hk := run_facts cfg (inps.take k) first l m hinv hu
    (runDomainAlong_append_left cfg _ _ first l hd) hm
  exact ⟨hk.2.2.2.2.1, hk.2.2.2.2.2⟩

/-- C05 over a whole off-season: if NO step of the run is a spread step then, however long the
    run is and whatever else is enabled and scheduled in it (lethal temperature, survival rate,
    treatments, mortality, measurements), the final landscape has the same cells, in each of them
    no exposed cohort grew, the cohort vector kept its length and infected did not grow: nothing
    aged, nothing matured. (Uniform cohort lengths across cells are not needed.) -/
theorem C05_offseason_run (cfg : StepCfg) (inps : List StepInputs) (first : Nat) (l l' : Land)
    (hns : ∀ k, k < inps.length → schedAt cfg.spreadSched (first + k) = false)
    (hinv : l.inv) (hd : RunDomainAlong cfg inps first l)
    (h : runModel cfg inps first l = .ok l') :
    offSeasonFrame l l' = true :=
  (offSeasonFrame_iff l l').mpr (run_frozen cfg inps first l l' hns hinv hd h).1

/-- C09 over runs: a run is the composition of its steps - running the steps of `a` followed by
    those of `b` is running `a` and then, from the landscape it leaves and at the step after its
    last one, running `b` (an error in `a` is the error of the whole run). -/
theorem C09_run_prefix (cfg : StepCfg) (a b : List StepInputs) (first : Nat) (l : Land) :
    runModel cfg (a ++ b) first l =
      (runModel cfg a first l >>= fun m => runModel cfg b (first + a.length) m) :=
  runModel_append cfg a b first l

/-- The same for the removed-host count and for the domain hypothesis. -/
theorem C09_run_prefix_removed (cfg : StepCfg) (a b : List StepInputs) (first : Nat) (l m : Land)
    (h : runModel cfg a first l = .ok m) :
    removedByRun cfg (a ++ b) first l =
      removedByRun cfg a first l + removedByRun cfg b (first + a.length) m :=
  removedByRun_append cfg a b first l m h

theorem C09_run_prefix_domain (cfg : StepCfg) (a b : List StepInputs) (first : Nat) (l : Land) :
    RunDomainAlong cfg (a ++ b) first l ↔
      (RunDomainAlong cfg a first l ∧
        ∀ m, runModel cfg a first l = .ok m → RunDomainAlong cfg b (first + a.length) m) :=
  ⟨fun hd => ⟨runDomainAlong_append_left cfg a b first l hd,
      fun m hm => runDomainAlong_append_right cfg a b first l m hd hm⟩,
   fun ⟨ha, hb⟩ => runDomainAlong_append cfg a b first l ha hb⟩

/-- C09 frame over runs: two lists of step inputs of the same length that agree, step by step,
    on the generators of the actions that run at that step give the same run: temperatures,
    survival rates, movement rows, treatments, mortality parameters, kernel results and draws of
    features that are disabled, or not scheduled at the step they are supplied for, never matter. -/
theorem C09_run_frame (cfg : StepCfg) (inps inps' : List StepInputs) (first : Nat) (l : Land)
    (hlen : inps.length = inps'.length)
    (h : ∀ k inp inp', inps[k]? = some inp → inps'[k]? = some inp' →
      ∀ a, cfg.runs (first + k) a = true →
        actionGen inp (first + k) a = actionGen inp' (first + k) a) :
    runModel cfg inps first l = runModel cfg inps' first l := by
  induction inps generalizing inps' first l with
  | nil =>
    cases inps' with
    | nil => rfl
    | cons x xs => simp at hlen
  | cons inp rest ih =>
    cases inps' with
    | nil => simp at hlen
    | cons inp' rest' =>
      have h0 : runStepHosts cfg inp first l = runStepHosts cfg inp' first l :=
        C09_frame_inputs cfg inp inp' first l (fun a ha => by
          have := h 0 inp inp' rfl rfl a (by rw [Nat.add_zero]; exact ha)
          rwa [Nat.add_zero] at this)
      have hl : rest.length = rest'.length := by
        simp only [List.length_cons] at hlen; omega
      cases h1 : runStepHosts cfg inp first l with
      | error e =>
        rw [runModel_cons_error cfg inp rest first l e h1,
          runModel_cons_error cfg inp' rest' first l e (h0 ▸ h1)]
      | ok m =>
        rw [runModel_cons_ok cfg inp rest first l m h1,
          runModel_cons_ok cfg inp' rest' first l m (h0 ▸ h1)]
        exact ih rest' (first + 1) m hl (runFrame_tail h)

/-- Under the same hypothesis the removed-host count and the domain hypothesis agree as well. -/
theorem C09_run_frame_removed (cfg : StepCfg) (inps inps' : List StepInputs) (first : Nat) (l : Land)
    (hlen : inps.length = inps'.length)
    (h : ∀ k inp inp', inps[k]? = some inp → inps'[k]? = some inp' →
      ∀ a, cfg.runs (first + k) a = true →
        actionGen inp (first + k) a = actionGen inp' (first + k) a) :
    removedByRun cfg inps first l = removedByRun cfg inps' first l ∧
    (RunDomainAlong cfg inps first l ↔ RunDomainAlong cfg inps' first l) := by
  induction inps generalizing inps' first l with
  | nil =>
    cases inps' with
    | nil => exact ⟨rfl, Iff.rfl⟩
    | cons x xs => simp at hlen
  | cons inp rest ih =>
    cases inps' with
    | nil => simp at hlen
    | cons inp' rest' =>
      have hg : stepGens cfg inp first = stepGens cfg inp' first := runFrame_head h
      have hl : rest.length = rest'.length := by
        simp only [List.length_cons] at hlen; omega
      have ih' := fun m => ih rest' (first + 1) m hl (runFrame_tail h)
      constructor
      · simp only [removedByRun, runStepHosts, hg]
        cases runGens (stepGens cfg inp' first) l with
        | error e => rfl
        | ok m => simp only [(ih' m).1]
      · simp only [RunDomainAlong, runStepHosts, hg]
        exact ⟨fun ⟨a, b⟩ => ⟨a, fun m hm => ((ih' m).2).mp (b m hm)⟩,
          fun ⟨a, b⟩ => ⟨a, fun m hm => ((ih' m).2).mpr (b m hm)⟩⟩

/-! ### a non-trivial instance: an SEI run (latency 1) on a 1x2 landscape

  step 0  off-season: survival rate 1/2 at both cells, a host-removal treatment with coefficient
          1/2 at cell 0, mortality with rate 1/2 (one host dies at cell 1);
  step 1  spread step: a disperser lands at cell 1 and establishes (u = 1/2 < 7/8), one lands at
          cell 0 and does not (u = 9/10 ≥ 7/9); the latency step matures the oldest exposed cohort
          of both cells; overpopulation sends one pest from cell 0 to cell 1; a host movement takes
          one susceptible and one exposed host from cell 1 to cell 0;
  step 2  off-season: survival rate 1/2, a removal treatment (1/2) at cell 1 and a pesticide
          treatment (1/2) at cell 0, mortality with rate 1/2 (one host dies at cell 0);
  step 3  off-season (used for the two-step off-season run 2..3): survival rate 0 at cell 0
          removes its last exposed host, the pesticide treatment ends.

  28 hosts before, 12 after; 2 died, 14 removed by the treatments. -/

def runSeiCfg : StepCfg :=
  { soils := false, useLethal := false, lethalSched := [], useSurvival := true,
    survivalSched := [true, false, true, true], spreadSched := [false, true, false, false],
    useOverpop := true, useMovements := true, useTreatments := true, useMortality := true,
    mortalitySched := [true, false, true, false], useSpreadRates := false, rateSched := [],
    useQuarantine := false, quarantineSched := [] }

/-- `c05OffInp` extended to two cells. -/
def runSeiInp0 : StepInputs :=
  { c05OffInp with
    g := ⟨1, 2⟩, suit := [(0, 0), (0, 1)], survivalRates := [1/2, 1/2],
    survivalDrawsI := [[1, 1], [0, 1]], survivalDrawsE := [[0, 2], [0, 0]],
    treatEvents := [(false, false, .ratio, [1/2, 0])] }

def runSeiInp1 : StepInputs :=
  { g := ⟨1, 2⟩, mt := .sei, latency := 1, suit := [(0, 0), (0, 1)], lethalThreshold := 0,
    temperatures := [], lethalDraws := [], survivalRates := [], survivalDrawsI := [],
    survivalDrawsE := [],
    landings := [(1, ⟨8, none, none⟩, 1/2), (0, ⟨9, none, none⟩, 9/10)], stochasticEst := true,
    pEst := 0, overThreshold := 1/5, overLeaving := 1/2, overTargets := [(0, 1)],
    moves := [(1, 0, 2, ⟨0, 1, 1, 0⟩, [1, 0], [0, 0])], treatEvents := [],
    mortalityRate := 0, mortalityLag := 0 }

def runSeiInp2 : StepInputs :=
  { runSeiInp0 with
    survivalDrawsI := [[0, 0], [0, 1]], survivalDrawsE := [[0, 0], [0, 0]],
    treatEvents := [(false, false, .ratio, [0, 1/2]), (false, true, .ratio, [1/2, 0])] }

def runSeiInp3 : StepInputs :=
  { runSeiInp0 with
    survivalRates := [0, 1], survivalDrawsI := [[0, 0], [0, 0]], survivalDrawsE := [[1, 0], [0, 0]],
    treatEvents := [(true, true, .ratio, [1/2, 0])] }

def runSeiLand0 : Land := [⟨10, [2, 3], 4, 0, 5, [1, 3], 0, 19⟩, ⟨6, [1, 0], 2, 0, 1, [1, 1], 0, 9⟩]
def runSeiLand1 : Land := [⟨7, [1, 0], 1, 0, 1, [1, 0], 0, 9⟩, ⟨7, [1, 0], 0, 0, 1, [0, 0], 1, 8⟩]
def runSeiLand2 : Land := [⟨9, [1, 0], 1, 0, 1, [1, 1], 0, 11⟩, ⟨4, [0, 0], 2, 0, 0, [0, 1], 1, 6⟩]
def runSeiLand3 : Land := [⟨5, [1, 0], 0, 4, 1, [1, 0], 1, 10⟩, ⟨2, [0, 0], 0, 0, 0, [0, 0], 1, 2⟩]
def runSeiLand4 : Land := [⟨10, [0, 0], 0, 0, 0, [1, 0], 1, 10⟩, ⟨2, [0, 0], 0, 0, 0, [0, 0], 1, 2⟩]

theorem runSei_inv : runSeiLand0.inv := Land.inv_of_B _ (by decide)
theorem runSei_uniform : runSeiLand0.uniform := Land.uniform_of_B _ (by decide)

/-- What each step executes: the spread step has the landing, the latency step, overpopulation
    and the host movement; the off-season steps have none of them. -/
theorem runSei_plans :
    (plan runSeiCfg 0).map (·.1) = [.survival, .treatments, .mortality] ∧
    (plan runSeiCfg 1).map (·.1) = [.spread, .stepForward, .overpopulation, .movement, .treatments] ∧
    (plan runSeiCfg 2).map (·.1) = [.survival, .treatments, .mortality] ∧
    (plan runSeiCfg 3).map (·.1) = [.survival, .treatments] := by decide +kernel

/-- The three steps, one by one. -/
theorem runSei_step0 : runStepHosts runSeiCfg runSeiInp0 0 runSeiLand0 = .ok runSeiLand1 :=
  eq_ok_of_yields (by decide +kernel)
theorem runSei_step1 : runStepHosts runSeiCfg runSeiInp1 1 runSeiLand1 = .ok runSeiLand2 :=
  eq_ok_of_yields (by decide +kernel)
theorem runSei_step2 : runStepHosts runSeiCfg runSeiInp2 2 runSeiLand2 = .ok runSeiLand3 :=
  eq_ok_of_yields (by decide +kernel)

/-- The 3-step run evaluates to a concrete landscape, in its domain all along. -/
theorem runSei_run :
    runModel runSeiCfg [runSeiInp0, runSeiInp1, runSeiInp2] 0 runSeiLand0 = .ok runSeiLand3 :=
  eq_ok_of_yields (by decide +kernel)

theorem runSei_domain :
    RunDomainAlong runSeiCfg [runSeiInp0, runSeiInp1, runSeiInp2] 0 runSeiLand0 :=
  runDomainAlong_of_B _ _ _ _ (by decide +kernel)

theorem runSei_removed :
    removedByRun runSeiCfg [runSeiInp0, runSeiInp1, runSeiInp2] 0 runSeiLand0 = 14 := by
  decide +kernel

/-- Theorem 1 at the instance: 28 hosts before, 12 after, 2 died, 14 removed. -/
example :
    runSeiLand0.hosts = 28 ∧ runSeiLand3.hosts = 12 ∧ runSeiLand0.died = 0 ∧ runSeiLand3.died = 2 ∧
    runSeiLand3.hosts = runSeiLand0.hosts - (runSeiLand3.died - runSeiLand0.died) -
      removedByRun runSeiCfg [runSeiInp0, runSeiInp1, runSeiInp2] 0 runSeiLand0 ∧
    0 ≤ removedByRun runSeiCfg [runSeiInp0, runSeiInp1, runSeiInp2] 0 runSeiLand0 ∧
    runSeiLand0.died ≤ runSeiLand3.died ∧ runSeiLand3.hosts ≤ runSeiLand0.hosts := by
  have := C01_run runSeiCfg _ 0 runSeiLand0 runSeiLand3 runSei_inv runSei_uniform runSei_domain
    runSei_run
  exact ⟨by decide, by decide, by decide, by decide, this⟩

/-- Theorem 2 at the instance: the final landscape and the landscape after each prefix (0, 1, 2, 3
    steps) are consistent; the prefix of 2 steps ends in `runSeiLand2`. -/
example :
    (runSeiLand3.inv ∧ runSeiLand3.uniform) ∧ (runSeiLand2.inv ∧ runSeiLand2.uniform) ∧
    ∀ k, ∃ m, runModel runSeiCfg ([runSeiInp0, runSeiInp1, runSeiInp2].take k) 0 runSeiLand0 = .ok m ∧
      m.inv ∧ m.uniform := by
  have h := C02_C03_run runSeiCfg _ 0 runSeiLand0 runSeiLand3 runSei_inv runSei_uniform
    runSei_domain runSei_run
  have h2 : runModel runSeiCfg ([runSeiInp0, runSeiInp1, runSeiInp2].take 2) 0 runSeiLand0 =
      .ok runSeiLand2 := eq_ok_of_yields (by decide +kernel)
  exact ⟨h.1, C02_C03_run_prefix runSeiCfg _ 0 runSeiLand0 runSei_inv runSei_uniform runSei_domain
    2 runSeiLand2 h2, h.2⟩

/-- Theorem 4 at the instance: the run is step 0, then the spread step, then step 2; and the
    domain of the whole run gives the domain of each of the three sub-runs. -/
theorem runSei_split :
    runModel runSeiCfg [runSeiInp0] 0 runSeiLand0 = .ok runSeiLand1 ∧
    runModel runSeiCfg [runSeiInp1] 1 runSeiLand1 = .ok runSeiLand2 ∧
    runModel runSeiCfg [runSeiInp2] 2 runSeiLand2 = .ok runSeiLand3 ∧
    RunDomainAlong runSeiCfg [runSeiInp0] 0 runSeiLand0 ∧
    RunDomainAlong runSeiCfg [runSeiInp2] 2 runSeiLand2 := by
  have r0 : runModel runSeiCfg [runSeiInp0] 0 runSeiLand0 = .ok runSeiLand1 := by
    rw [runModel_single]; exact runSei_step0
  have r1 : runModel runSeiCfg [runSeiInp1] 1 runSeiLand1 = .ok runSeiLand2 := by
    rw [runModel_single]; exact runSei_step1
  have r01 : runModel runSeiCfg [runSeiInp0, runSeiInp1] 0 runSeiLand0 = .ok runSeiLand2 := by
    rw [show [runSeiInp0, runSeiInp1] = [runSeiInp0] ++ [runSeiInp1] from rfl, C09_run_prefix, r0]
    exact r1
  have r2 : runModel runSeiCfg [runSeiInp2] 2 runSeiLand2 = .ok runSeiLand3 := by
    rw [runModel_single]; exact runSei_step2
  have hd := runSei_domain
  rw [show [runSeiInp0, runSeiInp1, runSeiInp2] = [runSeiInp0, runSeiInp1] ++ [runSeiInp2] from rfl,
    C09_run_prefix_domain] at hd
  have hd01 := hd.1
  rw [show [runSeiInp0, runSeiInp1] = [runSeiInp0] ++ [runSeiInp1] from rfl,
    C09_run_prefix_domain] at hd01
  exact ⟨r0, r1, r2, hd01.1, hd.2 runSeiLand2 r01⟩

/-- Theorem 3 at the two off-season sub-runs (step 0 alone, step 2 alone): the exposed cohorts
    only shrink there, [2,3] -> [1,0] and [1,0] -> [1,0] at cell 0 - while the whole run, which
    contains a spread step, is NOT frozen (infected grows at cell 1 from 0 to 2 in step 1). -/
example :
    offSeasonFrame runSeiLand0 runSeiLand1 = true ∧ offSeasonFrame runSeiLand2 runSeiLand3 = true ∧
    offSeasonFrame runSeiLand1 runSeiLand2 = false := by
  obtain ⟨r0, _, r2, d0, d2⟩ := runSei_split
  have hinv2 : runSeiLand2.inv := Land.inv_of_B _ (by decide)
  refine ⟨C05_offseason_run runSeiCfg [runSeiInp0] 0 runSeiLand0 runSeiLand1 ?_ runSei_inv d0 r0,
    C05_offseason_run runSeiCfg [runSeiInp2] 2 runSeiLand2 runSeiLand3 ?_ hinv2 d2 r2, by decide⟩
  · intro k hk
    have : k = 0 := by simp only [List.length_singleton] at hk; omega
    subst this; rfl
  · intro k hk
    have : k = 0 := by simp only [List.length_singleton] at hk; omega
    subst this; rfl

/-- Theorem 3 on an off-season run of two steps (steps 2 and 3, after the spread step): survival
    rate, two treatments and mortality in step 2, survival rate and the end of the pesticide
    treatment in step 3; the exposed cohorts of cell 0 go [1,0] -> [1,0] -> [0,0]. -/
example :
    runModel runSeiCfg [runSeiInp2, runSeiInp3] 2 runSeiLand2 = .ok runSeiLand4 ∧
    RunDomainAlong runSeiCfg [runSeiInp2, runSeiInp3] 2 runSeiLand2 ∧
    offSeasonFrame runSeiLand2 runSeiLand4 = true := by
  have hr : runModel runSeiCfg [runSeiInp2, runSeiInp3] 2 runSeiLand2 = .ok runSeiLand4 :=
    eq_ok_of_yields (by decide +kernel)
  have hd : RunDomainAlong runSeiCfg [runSeiInp2, runSeiInp3] 2 runSeiLand2 :=
    runDomainAlong_of_B _ _ _ _ (by decide +kernel)
  have hinv2 : runSeiLand2.inv := Land.inv_of_B _ (by decide)
  refine ⟨hr, hd, C05_offseason_run runSeiCfg _ 2 runSeiLand2 runSeiLand4 ?_ hinv2 hd hr⟩
  intro k hk
  have : k = 0 ∨ k = 1 := by simp only [List.length_cons, List.length_nil] at hk; omega
  rcases this with rfl | rfl <;> rfl

/-- The 4-step run 0..3 (off-season, spread step, two off-season steps) and theorems 1-2 on it. -/
example :
    runModel runSeiCfg [runSeiInp0, runSeiInp1, runSeiInp2, runSeiInp3] 0 runSeiLand0 = .ok runSeiLand4 ∧
    runSeiLand4.hosts = runSeiLand0.hosts - (runSeiLand4.died - runSeiLand0.died) -
      removedByRun runSeiCfg [runSeiInp0, runSeiInp1, runSeiInp2, runSeiInp3] 0 runSeiLand0 ∧
    runSeiLand4.inv ∧ runSeiLand4.uniform := by
  have hr : runModel runSeiCfg [runSeiInp0, runSeiInp1, runSeiInp2, runSeiInp3] 0 runSeiLand0 =
      .ok runSeiLand4 := eq_ok_of_yields (by decide +kernel)
  have hd : RunDomainAlong runSeiCfg [runSeiInp0, runSeiInp1, runSeiInp2, runSeiInp3] 0 runSeiLand0 :=
    runDomainAlong_of_B _ _ _ _ (by decide +kernel)
  have h1 := C01_run runSeiCfg _ 0 runSeiLand0 runSeiLand4 runSei_inv runSei_uniform hd hr
  have h2 := C02_C03_run runSeiCfg _ 0 runSeiLand0 runSeiLand4 runSei_inv runSei_uniform hd hr
  exact ⟨hr, h1.1, h2.1⟩

/-- `C09_run_frame` at the instance: step 1 is not a survival, lethal-temperature or mortality
    step, so the survival rates, temperatures, draws and mortality parameters supplied for it do
    not matter; likewise the landings, overpopulation targets and movement rows supplied for the
    off-season steps 0 and 2. -/
example :
    runModel runSeiCfg
      [{ runSeiInp0 with landings := [(0, ⟨19, none, none⟩, 0)], overTargets := [(0, 1)],
                         moves := [(0, 1, 5, ⟨1, 2, 2, 0⟩, [1, 1], [0, 1])] },
       { runSeiInp1 with survivalRates := [1/3, 1/3], temperatures := [-40, -40],
                         lethalThreshold := -10, mortalityRate := 1 },
       { runSeiInp2 with landings := [(1, ⟨6, none, none⟩, 0)] }] 0 runSeiLand0 = .ok runSeiLand3 := by
  rw [← runSei_run]
  apply C09_run_frame runSeiCfg _ _ 0 runSeiLand0 rfl
  intro k inp inp' h1 h2 a ha
  have hk : k = 0 ∨ k = 1 ∨ k = 2 := by
    have := (List.getElem?_eq_some_iff.mp h1).1
    simp only [List.length_cons, List.length_nil] at this; omega
  rcases hk with rfl | rfl | rfl
  all_goals
    simp only [List.getElem?_cons_zero, List.getElem?_cons_succ, Option.some.injEq] at h1 h2
    subst h1; subst h2
    cases a <;> first | rfl | (exfalso; revert ha; decide)

end Pops
