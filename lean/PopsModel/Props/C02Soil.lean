/-
  C02 (soil part): soil cohorts stay non-negative and the deterministic release never exceeds what
  the soil holds. The stochastic release is the open finding F22 (its Poisson sum is not clamped).
-/
import PopsModel.Model.Actions
import PopsModel.Lemmas.Actions
namespace Pops

theorem sumL_nonneg_of_all (l : List Int) (h : ∀ x ∈ l, 0 ≤ x) : 0 ≤ sumL l := by
  induction l with
  | nil => simp
  | cons a t ih =>
    rw [sumL_cons]
    have := h a (by simp)
    have := ih (fun x hx => h x (by simp [hx]))
    omega

theorem addLast_nonneg (l : List Int) (k : Int) (hk : 0 ≤ k) (h : ∀ x ∈ l, 0 ≤ x) : ∀ x ∈ addLast l k, 0 ≤ x := by
  induction l with
  | nil => intro x hx; simp [addLast] at hx
  | cons a t ih =>
    cases t with
    | nil =>
      intro x hx
      simp only [addLast, List.mem_singleton] at hx
      have := h a (by simp); omega
    | cons b r =>
      intro x hx
      simp only [addLast, List.mem_cons] at hx
      rcases hx with rfl | hx
      · exact h _ (by simp)
      · exact ih (fun y hy => h y (by simp [hy])) x (by simpa [List.mem_cons] using hx)

/-- The deterministic soil release `floor (weather x stored)` lies between 0 and what is stored,
    for every weather coefficient in [0,1]; storing a disperser keeps the cohorts non-negative. -/
theorem C02_soil_release_bounded (cohorts : List Int) (w : Rat) (h0 : 0 ≤ w) (h1 : w ≤ 1)
    (hn : ∀ x ∈ cohorts, 0 ≤ x) :
    0 ≤ soilReleaseDet cohorts w ∧ soilReleaseDet cohorts w ≤ sumL cohorts ∧
    (∀ (sto : Bool) (pEst u : Rat), ∀ x ∈ soilDisperserTo cohorts w sto pEst u, 0 ≤ x) := by
  have hs := sumL_nonneg_of_all cohorts hn
  obtain ⟨a, b⟩ := rfloor_share hs h0 h1
  have hc : w * ((sumL cohorts : Int) : Rat) = ((sumL cohorts : Int) : Rat) * w := Rat.mul_comm _ _
  refine ⟨by unfold soilReleaseDet; rw [hc]; exact a, by unfold soilReleaseDet; rw [hc]; exact b, ?_⟩
  intro sto pEst u x hx
  unfold soilDisperserTo at hx
  by_cases hc : (if sto = true then u else 1 - pEst) < w
  · rw [if_pos hc] at hx; exact addLast_nonneg cohorts 1 (by omega) hn x hx
  · rw [if_neg hc] at hx; exact hn x hx

/-- Full statement for the stochastic release (any released number `n`): the number handed to
    the caller never exceeds what the soil held. False of the code: `n` is an unclamped Poisson
    sum while only the cohorts are clamped (finding F22). -/
def C02_soil_stochastic_full : Prop :=
  ∀ (cohorts : List Int) (n : Int), (∀ x ∈ cohorts, 0 ≤ x) → 0 ≤ n → n ≤ sumL cohorts

theorem C02_soil_stochastic_full_fails : ¬ C02_soil_stochastic_full := by
  intro h
  have := h [1] 5 (by simp) (by omega)
  simp at this

example : soilReleaseDet [3, 4] 1 = 7 := by
  unfold soilReleaseDet
  have : (1 : Rat) * ((sumL [3, 4] : Int) : Rat) = ((7 : Int) : Rat) := by
    simp [sumL]
  rw [this]; exact rfloor_int 7

end Pops
