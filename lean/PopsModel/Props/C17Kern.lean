/-
  C17 (kernel part)  The pest overpopulation move draws its destination with the natural kernel
  rescaled by `leaving_scale_coefficient`.
  `Model::create_overpopulation_movement_kernel` (model.hpp) is modelled by
  `createOverpopulationKernel` (Model/Kern.lean); the host-pool side of C17 is in Props/C17.lean.
-/
import PopsModel.Props.C13
namespace Pops

/-- The switch kernel built for the overpopulation move: the selector is the natural kernel type
    and the configured stochasticity; the radial and the deterministic member have scale
    `natural_scale * leaving_scale_coefficient` and otherwise the natural kernel's type, shape,
    direction, kappa, dispersal percentage and the two resolutions each in its own slot; the
    uniform member is the one of `rows x cols`, the neighbour member points in the natural
    direction, the network member walks between the configured distances. -/
theorem C17_overpopulation_kernel_scale (c : KernelConfig) (coef : Rat) (k : OverpopKernelDesc)
    (h : createOverpopulationKernel c coef = .ok k) :
    ∃ t d, kernelTypeFromString c.naturalKernelType = .ok t ∧
      directionFromString c.naturalDirection = .ok d ∧
      k.type = t ∧ k.stochastic = c.dispersalStochasticity ∧
      k.radial = .radial c.ewRes c.nsRes t (c.naturalScale * coef) d c.naturalKappa c.shape ∧
      k.deterministic = .deterministic t c.dispersalPercentage c.ewRes c.nsRes (c.naturalScale * coef) c.shape ∧
      k.uniform = .uniform c.rows c.cols ∧
      k.neighbor = .neighbor d ∧
      k.network = .networkWalk c.networkMinDistance c.networkMaxDistance false ∧
      (t.law?.isSome = true → k.selected = if c.dispersalStochasticity then k.radial else k.deterministic) := by
  unfold createOverpopulationKernel modelKernelMembers at h
  cases hn : kernelTypeFromString c.naturalKernelType with
  | error e => simp [hn, bind, Except.bind] at h
  | ok t =>
    cases ha : kernelTypeFromString c.anthroKernelType with
    | error e => simp [hn, ha, bind, Except.bind] at h
    | ok a =>
      cases hd : directionFromString c.naturalDirection with
      | error e => simp [hn, ha, hd, bind, Except.bind] at h
      | ok d =>
        cases had : directionFromString c.anthroDirection with
        | error e => simp [hn, ha, hd, had, bind, Except.bind] at h
        | ok ad =>
          by_cases hok : radialCtorOk (c.naturalScale * coef) c.shape = true
          · simp only [hn, ha, hd, had, hok, bind, Except.bind, pure, Except.pure, if_true] at h
            injection h with h; subst h
            refine ⟨t, d, rfl, rfl, rfl, rfl, rfl, rfl, rfl, rfl, rfl, ?_⟩
            intro hl
            obtain ⟨h1, h2, h3, _⟩ := law_not_special t hl
            simp only [OverpopKernelDesc.selected, switchSelect, h1, h2, h3, if_false]
            cases c.dispersalStochasticity <;> simp
          · simp [hn, ha, hd, had, hok, bind, Except.bind, pure, Except.pure] at h

/-- A bad scale (non-positive after rescaling) or shape, or an unknown kernel / direction name of
    either kernel, is rejected: the radial member is constructed for every configuration. -/
theorem C17_overpopulation_kernel_rejects (c : KernelConfig) (coef : Rat)
    (h : radialCtorOk (c.naturalScale * coef) c.shape = false) :
    createOverpopulationKernel c coef = .error .invalid_argument := by
  unfold createOverpopulationKernel
  cases hm : modelKernelMembers c with
  | error e =>
    have : e = .invalid_argument := by
      unfold modelKernelMembers at hm
      cases h1 : kernelTypeFromString c.naturalKernelType with
      | error e1 =>
        have := kernelTypeFromString_err c.naturalKernelType e1 h1
        simp [h1, bind, Except.bind] at hm; rw [← hm, this]
      | ok t =>
        cases h2 : kernelTypeFromString c.anthroKernelType with
        | error e2 =>
          have := kernelTypeFromString_err c.anthroKernelType e2 h2
          simp [h1, h2, bind, Except.bind] at hm; rw [← hm, this]
        | ok a =>
          cases h3 : directionFromString c.naturalDirection with
          | error e3 =>
            have := directionFromString_err c.naturalDirection e3 h3
            simp [h1, h2, h3, bind, Except.bind] at hm; rw [← hm, this]
          | ok d =>
            cases h4 : directionFromString c.anthroDirection with
            | error e4 =>
              have := directionFromString_err c.anthroDirection e4 h4
              simp [h1, h2, h3, h4, bind, Except.bind] at hm; rw [← hm, this]
            | ok ad => simp [h1, h2, h3, h4, bind, Except.bind, pure, Except.pure] at hm
    simp [bind, Except.bind, this]
  | ok m =>
    cases hd : directionFromString c.naturalDirection with
    | error e =>
      have := directionFromString_err c.naturalDirection e hd
      simp [bind, Except.bind, this]
    | ok d => simp [h, bind, Except.bind, throw, throwThe, MonadExceptOf.throw]

/-- With `leaving_scale_coefficient = 1`, a radial law and dispersal stochasticity on, the
    overpopulation kernel is exactly the natural kernel `create_natural_kernel` builds. -/
theorem C17_overpopulation_kernel_is_natural (c : KernelConfig) (k : OverpopKernelDesc)
    (h : createOverpopulationKernel c 1 = .ok k) (hl : k.type.law?.isSome = true)
    (hs : c.dispersalStochasticity = true) :
    createNaturalKernel c = .ok k.selected := by
  obtain ⟨t, d, ht, hd, hkt, _, hr, _, _, _, _, hsel⟩ := C17_overpopulation_kernel_scale c 1 k h
  rw [hkt] at hl
  rw [hsel hl, hs, if_pos rfl, hr, Rat.mul_one]
  have hok : radialCtorOk c.naturalScale c.shape = true := by
    cases hb : radialCtorOk (c.naturalScale * 1) c.shape with
    | true => rwa [Rat.mul_one] at hb
    | false => rw [C17_overpopulation_kernel_rejects c 1 hb] at h; cases h
  exact createNatural_radial c t d ht hl hs hd hok

/-- With the uniform natural kernel the overpopulation move uses the uniform member, and every
    destination it can draw is a cell of the `rows x cols` landscape, every cell being the
    destination of exactly one pair of draws (`C13_uniform_in_landscape`). -/
theorem C17_overpopulation_uniform_range (c : KernelConfig) (coef : Rat) (k : OverpopKernelDesc)
    (h : createOverpopulationKernel c coef = .ok k)
    (hu : kernelTypeFromString c.naturalKernelType = .ok .uniform) (row col : Int) :
    k.selected = .uniform c.rows c.cols ∧
    k.selected.uniformKernel? = some (UniformKernel.make c.rows c.cols) ∧
    (∀ dr dc, (UniformKernel.make c.rows c.cols).InRange dr dc →
        InLandscape c.rows c.cols ((UniformKernel.make c.rows c.cols).call row col dr dc)) ∧
    (∀ cell, InLandscape c.rows c.cols cell →
        ∃ dr dc, (UniformKernel.make c.rows c.cols).InRange dr dc ∧
          (UniformKernel.make c.rows c.cols).call row col dr dc = cell) := by
  obtain ⟨t, d, ht, _, hkt, _, _, _, hun, _, _, _⟩ := C17_overpopulation_kernel_scale c coef k h
  rw [hu] at ht; injection ht with ht
  have hsel : k.selected = .uniform c.rows c.cols := by
    simp only [OverpopKernelDesc.selected, switchSelect, hkt, ← ht, if_true, hun]
  have hC13 := C13_uniform_in_landscape c.rows c.cols row col
  exact ⟨hsel, by rw [hsel]; rfl, hC13.1, hC13.2.1⟩

example :
    let c : KernelConfig :=
      { rows := 3, cols := 7, ewRes := 30, nsRes := 10, dispersalStochasticity := true,
        dispersalPercentage := 99 / 100, shape := 2, naturalKernelType := "weibull", naturalScale := 5,
        naturalDirection := "NE", naturalKappa := 3, useAnthropogenicKernel := false,
        percentNaturalDispersal := 1, anthroKernelType := "none", anthroScale := 1, anthroDirection := "none",
        anthroKappa := 0, networkMovement := "", networkMinDistance := 0, networkMaxDistance := 0 }
    ∃ k, createOverpopulationKernel c 2 = .ok k ∧ k.selected = .radial 30 10 .weibull (5 * 2) .NE 3 2 := by
  intro c
  have hok : radialCtorOk (c.naturalScale * 2) c.shape = true := by
    simp only [radialCtorOk, Bool.and_eq_true, decide_eq_true_eq]; constructor <;> grind
  have hk : kernelTypeFromString c.naturalKernelType = .ok .weibull := rfl
  have ha : kernelTypeFromString c.anthroKernelType = .ok .none := rfl
  have hd : directionFromString c.naturalDirection = .ok .NE := rfl
  have had : directionFromString c.anthroDirection = .ok .none := rfl
  refine ⟨_, by
    simp only [createOverpopulationKernel, modelKernelMembers, hk, ha, hd, had, hok, bind, Except.bind, pure,
      Except.pure, if_true]; rfl, ?_⟩
  simp [OverpopKernelDesc.selected, switchSelect]
  exact ⟨rfl, rfl, rfl, rfl, rfl⟩

end Pops
