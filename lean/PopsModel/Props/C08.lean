/-
  C08  Scheduled actions fire in exactly the intended steps; input indices agree.
  Property theorems only; helper lemmas are in PopsModel/Lemmas/Schedule.lean.
-/
import PopsModel.Lemmas.Schedule
import PopsModel.Props.C07
namespace Pops
open Date

/-- A yearly action fires in step `st` exactly when the step contains its (month, day) of some
    year. `st` is any well-formed step shorter than a year (`e.y ≤ s.y + 1`), in particular
    multi-week / multi-month steps that straddle a year boundary. -/
theorem C08_yearly (st : Step) (hwf : stepWF st = true) (hshort : st.e.y ≤ st.s.y + 1)
    (mo da : Int) (h1 : 1 ≤ mo) (h2 : mo ≤ 12) (h3 : 1 ≤ da) (h4 : da ≤ 28) :
    yearlyFires mo da st = true ↔ ∃ y : Int, st.contains ⟨y, mo, da⟩ = true :=
  yearlyFires_iff st hwf hshort mo da h1 h2 h3 h4

/-- Exactly one step of a tiled calendar fires for each covered occurrence of the date. -/
theorem C08_yearly_once (start end_ : Date) (steps : List Step)
    (ht : TilesCalendar start end_ steps = true) (hshort : ∀ st ∈ steps, st.e.y ≤ st.s.y + 1)
    (mo da : Int) (h1 : 1 ≤ mo) (h2 : mo ≤ 12) (h3 : 1 ≤ da) (h4 : da ≤ 28) (y : Int)
    (a b : Step) (ha : steps.head? = some a) (hb : steps.getLast? = some b)
    (hlo : a.s.ord ≤ (⟨y, mo, da⟩ : Date).ord) (hhi : (⟨y, mo, da⟩ : Date).ord ≤ b.e.ord) :
    ∃ k : Nat, (∃ st : Step, steps[k]? = some st ∧ st.contains ⟨y, mo, da⟩ = true ∧
        (scheduleYearly steps mo da)[k]? = some true) ∧
      ∀ (j : Nat) (st' : Step), steps[j]? = some st' → st'.contains ⟨y, mo, da⟩ = true → j = k := by
  have hv : (⟨y, mo, da⟩ : Date).Valid := by
    refine ⟨h1, h2, h3, ?_⟩
    have := dim_ge (isLeap y) mo h1 h2
    show da ≤ dim (isLeap y) mo; omega
  obtain ⟨hdisj, _, hcov, _⟩ := C07_partition start end_ steps ht _ hv
  obtain ⟨k, st, hk, hc⟩ := hcov a b ha hb hlo hhi
  refine ⟨k, ⟨st, hk, hc, ?_⟩, fun j st' hj hc' => hdisj j k st' st hj hk hc' hc⟩
  have hmem := List.mem_of_getElem? hk
  have hwf : stepWF st = true := by
    simp only [TilesCalendar, Bool.and_eq_true] at ht
    exact (List.all_eq_true.mp ht.1.1.1.2) st hmem
  simp only [scheduleYearly, List.getElem?_map, hk, Option.map_some, Option.some.injEq]
  exact (yearlyFires_iff st hwf (hshort st hmem) mo da h1 h2 h3 h4).mpr ⟨y, hc⟩

/-- End-of-year schedule: fires exactly in the steps that contain a 31 December. -/
theorem C08_end_of_year (st : Step) (hwf : stepWF st = true) :
    endOfYearFires st = true ↔ ∃ y : Int, st.contains ⟨y, 12, 31⟩ = true :=
  endOfYearFires_iff st hwf

/-- Monthly schedule: fires exactly in the steps that contain the last day of a month. -/
theorem C08_monthly (st : Step) (hwf : stepWF st = true) :
    monthlyFires st = true ↔ ∃ t : Date, t.Valid ∧ t.isLastDayOfMonth = true ∧ st.contains t = true :=
  monthlyFires_iff st hwf

/-- Every-n-steps, every-step and final-step schedules. -/
theorem C08_nsteps (steps : List Step) (n : Nat) (i : Nat) (hi : i < steps.length) :
    (scheduleNSteps steps n)[i]? = some (decide ((i + 1) % n = 0)) ∧
    (scheduleNSteps steps 1)[i]? = some true ∧
    (scheduleEndOfSimulation steps)[i]? = some (decide (i + 1 = steps.length)) ∧
    (scheduleNSteps steps n).length = steps.length := by
  simp [scheduleNSteps, scheduleEndOfSimulation, hi, Nat.mod_one]

/-- Spread is scheduled exactly for steps whose first or last day falls in a season month. -/
theorem C08_spread (steps : List Step) (s e : Int) (i : Nat) (st : Step) (hi : steps[i]? = some st) :
    (scheduleSpread steps s e)[i]? =
      some (decide ((s ≤ st.s.m ∧ st.s.m ≤ e) ∨ (s ≤ st.e.m ∧ st.e.m ≤ e))) := by
  simp only [scheduleSpread, List.getElem?_map, hi, Option.map_some, monthInSeason, Option.some.injEq]
  by_cases h1 : s ≤ st.s.m <;> by_cases h2 : st.s.m ≤ e <;> by_cases h3 : s ≤ st.e.m <;>
    by_cases h4 : st.e.m ≤ e <;> simp [h1, h2, h3, h4]

/-- Frequency names: which builder they select and which combinations are rejected. -/
theorem C08_frequency (sc : Scheduler) (n : Nat) :
    (∀ f, f = "week" ∨ f = "weekly" →
        (scheduleFromString sc f n =
          if sc.unit = .day ∧ sc.n = 1 then .ok (scheduleNSteps sc.steps 7)
          else if (sc.unit = .day ∧ sc.n = 7) ∨ (sc.unit = .week ∧ sc.n = 1) then .ok (scheduleNSteps sc.steps 1)
          else .error .invalid_argument)) ∧
    (∀ f, f = "day" ∨ f = "daily" →
        (scheduleFromString sc f n =
          if sc.unit = .day ∧ sc.n = 1 then .ok (scheduleNSteps sc.steps 1) else .error .invalid_argument)) ∧
    (∀ f, f = "year" ∨ f = "yearly" → scheduleFromString sc f n = .ok (scheduleEndOfYear sc.steps)) ∧
    (∀ f, f = "month" ∨ f = "monthly" → scheduleFromString sc f n = .ok (scheduleMonthly sc.steps)) ∧
    scheduleFromString sc "final_step" n = .ok (scheduleEndOfSimulation sc.steps) ∧
    (∀ f, f = "every_step" ∨ f = "time_step" → scheduleFromString sc f n = .ok (scheduleNSteps sc.steps 1)) ∧
    (0 < n → scheduleFromString sc "every_n_steps" n = .ok (scheduleNSteps sc.steps n)) ∧
    scheduleFromString sc "every_n_steps" 0 = .error .invalid_argument ∧
    scheduleFromString sc "" n = .ok (List.replicate sc.steps.length false) := by
  refine ⟨?_, ?_, ?_, ?_, ?_, ?_, ?_, ?_, ?_⟩
  · intro f hf
    rcases hf with rfl | rfl <;> simp [scheduleFromString] <;> cases sc.unit <;> simp <;>
      (by_cases h1 : sc.n = 1 <;> by_cases h7 : sc.n = 7 <;> simp [h1, h7] <;> omega)
  · intro f hf
    rcases hf with rfl | rfl <;> simp [scheduleFromString]
  · intro f hf; rcases hf with rfl | rfl <;> simp [scheduleFromString]
  · intro f hf; rcases hf with rfl | rfl <;> simp [scheduleFromString]
  · simp [scheduleFromString]
  · intro f hf; rcases hf with rfl | rfl <;> simp [scheduleFromString]
  · intro hn; simp [scheduleFromString]; omega
  · simp [scheduleFromString]
  · simp [scheduleFromString]

/-- Action indices: step `i` maps to the number of firings strictly before it, hence the k-th
    firing step maps to k-1; the map from firing steps to `[0, count)` is a bijection, where
    `count = numberOfScheduledActions` is the number of input rasters the caller must supply. -/
theorem C08_index_bijection (sched : List Bool) :
    (∀ i, i < sched.length → simulationStepToActionStep sched i = .ok (countTrue (sched.take i))) ∧
    (∀ i, sched.length ≤ i → simulationStepToActionStep sched i = .error .out_of_range) ∧
    (∀ i (hi : i < sched.length), sched[i] = true →
        countTrue (sched.take i) < numberOfScheduledActions sched ∧
        countTrue (sched.take (i + 1)) = countTrue (sched.take i) + 1) ∧
    (∀ i j (hi : i < sched.length) (_ : j < sched.length), i < j → sched[i] = true →
        countTrue (sched.take i) < countTrue (sched.take j)) ∧
    (∀ k, k < numberOfScheduledActions sched →
        ∃ (i : Nat) (hi : i < sched.length), sched[i] = true ∧ countTrue (sched.take i) = k) := by
  refine ⟨?_, ?_, ?_, ?_, ?_⟩
  · intro i hi; simp [simulationStepToActionStep, hi]
  · intro i hi; simp [simulationStepToActionStep]; omega
  · intro i hi ht
    have h1 := countTrue_take_succ sched i hi
    have h2 := countTrue_take_le sched (i + 1)
    simp only [ht, if_true] at h1
    exact ⟨by unfold numberOfScheduledActions; omega, h1⟩
  · intro i j hi hj hij ht
    have h1 := countTrue_take_succ sched i hi
    simp only [ht, if_true] at h1
    have h2 := countTrue_take_mono sched (j := i + 1) (k := j) (by omega)
    omega
  · intro k hk; exact countTrue_surj sched k hk

/-- Weather index of step i is i modulo the series length; an empty series is rejected. -/
theorem C08_weather (numSteps size : Nat) :
    (size = 0 → scheduleWeather numSteps size = .error .invalid_argument) ∧
    (0 < size → ∃ l, scheduleWeather numSteps size = .ok l ∧ l.length = numSteps ∧
        ∀ i, i < numSteps → l[i]? = some (i % size)) := by
  constructor
  · intro h; simp [scheduleWeather, h]
  · intro h
    have : size ≠ 0 := by omega
    refine ⟨_, by simp [scheduleWeather, this]; rfl, by simp, ?_⟩
    intro i hi; simp [hi]

/-- `Config::create_schedules`: which schedule every feature gets. Lethal temperature fires in the
    steps containing day 1 of its month, the survival rate in the steps containing its month/day
    (of some year; steps shorter than a year), mortality / spread rate / quarantine / output follow
    their frequency names, disabled features get no schedule, and the weather table is `i mod size`. -/
theorem C08_config_wiring (c : CalCfg) (s : Schedules) (h : createSchedules c = .ok s) :
    ∃ sc : Scheduler, Scheduler.make c.start c.end_ c.unit c.n = .ok sc ∧ s.steps = sc.steps ∧
      s.spread = scheduleSpread sc.steps c.seasonStart c.seasonEnd ∧
      scheduleFromString sc c.outFreq c.outN = .ok s.output ∧
      s.lethal = (if c.useLethal then some (scheduleYearly sc.steps c.lethalMonth 1) else none) ∧
      s.survival = (if c.useSurvival then some (scheduleYearly sc.steps c.survMonth c.survDay) else none) ∧
      (c.useMortality = true → ∃ m, scheduleFromString sc c.mortFreq c.mortN = .ok m ∧ s.mortality = some m) ∧
      (c.useMortality = false → s.mortality = none) ∧
      (c.useRates = true → ∃ m, scheduleFromString sc c.ratesFreq c.ratesN = .ok m ∧ s.rates = some m) ∧
      (c.useRates = false → s.rates = none) ∧
      (c.useQuarantine = true → ∃ m, scheduleFromString sc c.quarFreq c.quarN = .ok m ∧ s.quarantine = some m) ∧
      (c.useQuarantine = false → s.quarantine = none) ∧
      (c.weatherSize = 0 → s.weather = none) := by
  unfold createSchedules at h
  simp only [bind, Except.bind] at h
  cases h0 : Scheduler.make c.start c.end_ c.unit c.n with
  | error e => rw [h0] at h; cases h
  | ok sc =>
    rw [h0] at h
    simp only at h
    cases h1 : scheduleFromString sc c.outFreq c.outN with
    | error e => rw [h1] at h; cases h
    | ok out =>
      rw [h1] at h; simp only at h
      cases h2 : optSched c.useMortality (scheduleFromString sc c.mortFreq c.mortN) with
      | error e => rw [h2] at h; cases h
      | ok mo =>
        rw [h2] at h; simp only at h
        cases h3 : optSched c.useRates (scheduleFromString sc c.ratesFreq c.ratesN) with
        | error e => rw [h3] at h; cases h
        | ok ra =>
          rw [h3] at h; simp only at h
          cases h4 : optSched c.useQuarantine (scheduleFromString sc c.quarFreq c.quarN) with
          | error e => rw [h4] at h; cases h
          | ok qu =>
            rw [h4] at h; simp only at h
            have hopt : ∀ (use : Bool) (x : Except ErrKind (List Bool)) (r : Option (List Bool)),
                optSched use x = .ok r →
                (use = true → ∃ m, x = .ok m ∧ r = some m) ∧ (use = false → r = none) := by
              intro use x r hr
              unfold optSched at hr
              cases use with
              | true =>
                simp only [if_true] at hr
                cases x with
                | error e => simp [Except.map] at hr
                | ok m =>
                  simp only [Except.map, Except.ok.injEq] at hr
                  exact ⟨fun _ => ⟨m, rfl, hr.symm⟩, fun hh => Bool.noConfusion hh⟩
              | false =>
                have hr' : none = r := by simpa using hr
                exact ⟨fun hh => Bool.noConfusion hh, fun _ => hr'.symm⟩
            obtain ⟨m1, m2⟩ := hopt _ _ _ h2
            obtain ⟨r1, r2⟩ := hopt _ _ _ h3
            obtain ⟨q1, q2⟩ := hopt _ _ _ h4
            by_cases hw : c.weatherSize ≠ 0
            · rw [if_pos hw] at h
              cases h5 : scheduleWeather sc.steps.length c.weatherSize with
              | error e => rw [h5] at h; simp [Except.map] at h
              | ok w =>
                rw [h5] at h
                simp only [Except.map, pure, Except.pure, Except.ok.injEq] at h
                subst h
                exact ⟨sc, rfl, rfl, rfl, h1, rfl, rfl, m1, m2, r1, r2, q1, q2, fun hz => absurd hz hw⟩
            · rw [if_neg hw] at h
              simp only [pure, Except.pure, Except.ok.injEq] at h
              subst h
              exact ⟨sc, rfl, rfl, rfl, h1, rfl, rfl, m1, m2, r1, r2, q1, q2, fun _ => rfl⟩

/-- Non-vacuity: a two-week step straddling the year boundary is well-formed, shorter than a
    year, and both the yearly (1 January) and the end-of-year schedule fire in it. -/
example : let st : Step := ⟨⟨2019, 12, 24⟩, ⟨2020, 1, 7⟩⟩
    stepWF st = true ∧ st.e.y ≤ st.s.y + 1 ∧ yearlyFires 1 1 st = true ∧ endOfYearFires st = true ∧
    monthlyFires st = true := by decide

/-- Each name-built schedule depends on its *own* frequency string and `n` only: two configurations
    with the same calendar that agree on the quarantine switch, frequency and `n` get the same
    quarantine schedule, whatever frequencies and `n` the output, mortality and spread-rate
    schedules use (seeded change C09k: a cache keyed by the frequency string alone); likewise for
    mortality and the spread rate. -/
theorem C08_config_own_n (c c' : CalCfg) (s s' : Schedules)
    (h : createSchedules c = .ok s) (h' : createSchedules c' = .ok s')
    (hcal : c'.start = c.start ∧ c'.end_ = c.end_ ∧ c'.unit = c.unit ∧ c'.n = c.n) :
    (c'.useQuarantine = c.useQuarantine → c'.quarFreq = c.quarFreq → c'.quarN = c.quarN → s'.quarantine = s.quarantine) ∧
    (c'.useMortality = c.useMortality → c'.mortFreq = c.mortFreq → c'.mortN = c.mortN → s'.mortality = s.mortality) ∧
    (c'.useRates = c.useRates → c'.ratesFreq = c.ratesFreq → c'.ratesN = c.ratesN → s'.rates = s.rates) := by
  obtain ⟨sc, hsc, -, -, -, -, -, hm1, hm0, hr1, hr0, hq1, hq0, -⟩ := C08_config_wiring c s h
  obtain ⟨sc', hsc', -, -, -, -, -, hm1', hm0', hr1', hr0', hq1', hq0', -⟩ := C08_config_wiring c' s' h'
  obtain ⟨e1, e2, e3, e4⟩ := hcal
  rw [e1, e2, e3, e4, hsc] at hsc'
  cases hsc'
  refine ⟨fun hu hf hn => ?_, fun hu hf hn => ?_, fun hu hf hn => ?_⟩
  · cases hq : c.useQuarantine with
    | false => rw [hq0 hq, hq0' (hu.trans hq)]
    | true =>
      obtain ⟨m, hm, hs⟩ := hq1 hq
      obtain ⟨m', hm', hs'⟩ := hq1' (hu.trans hq)
      rw [hf, hn, hm] at hm'; cases hm'; rw [hs, hs']
  · cases hq : c.useMortality with
    | false => rw [hm0 hq, hm0' (hu.trans hq)]
    | true =>
      obtain ⟨m, hm, hs⟩ := hm1 hq
      obtain ⟨m', hm', hs'⟩ := hm1' (hu.trans hq)
      rw [hf, hn, hm] at hm'; cases hm'; rw [hs, hs']
  · cases hq : c.useRates with
    | false => rw [hr0 hq, hr0' (hu.trans hq)]
    | true =>
      obtain ⟨m, hm, hs⟩ := hr1 hq
      obtain ⟨m', hm', hs'⟩ := hr1' (hu.trans hq)
      rw [hf, hn, hm] at hm'; cases hm'; rw [hs, hs']

end Pops
