/-
  C05 in the regime the guard `step >= latency` of `step_forward` is there for: runs that START
  BEFORE step L (in particular at step 0), with seasonal gaps in the spread schedule.

  `C05_exact_latency` / `C05_latency_with_removals` assume `latency ≤ step0` and number the spread
  steps consecutively; that makes the guard constantly true. Here a history is a strictly
  increasing list of spread-step NUMBERS `steps` (starting anywhere, also at 0, any gaps) with the
  exposures `xs` (`xs[k]` hosts exposed at the k-th spread step), starting from a cell whose
  exposed cohorts are all empty (`c.e = replicate (L+1) 0`, the state of a fresh run).

  * `C05_early_exact_latency`   full state after the run: exactly the exposures of the first
                                 n - L spread steps have matured (into `i` and the youngest
                                 mortality cohort), the cohorts hold the last min(n, L) exposures in
                                 order, `te` follows;
  * `C05_early_every_prefix`     the same count after every prefix of the run, and the increment:
                                 spread step number k (0-based) matures exactly `xs[k - L]` if
                                 `L ≤ k` and nothing otherwise - a host exposed at spread step t is
                                 counted as infected from spread step t + L on and not earlier;
  * `C05_early_closed`           the general closed form behind both (any initial cohorts `Q`, any
                                 step numbers), under the condition that at every spread step the
                                 guard holds or the front cohort is empty; `C05_exact_latency`
                                 (`latency ≤ step0`) is its other instance;
  * `C05_preloaded_old_cohort_is_recycled`  the EXCLUDED case: a non-empty front cohort at a step
                                 number < L is not matured but rotated to the youngest position
                                 (hosts exposed "before the run" wait another L + 1 spread steps).

  Key fact: the k-th spread step (0-based) has number ≥ k; so for k ≥ L the guard holds, and for
  k < L the front cohort is one of the initial empty ones, so the guard does not matter.
  The exposures need not be non-negative for any of this.
-/
import PopsModel.Props.C05
import PopsModel.Lemmas.C05Early
namespace Pops

/-- A run of spread steps with their step numbers: at the spread step with number `s`, `x` hosts
    are exposed (`Cell.exposeN`), then `step_forward(s)` is made. Stops at the end of the shorter
    list. -/
def latencyRunAt (L : Nat) : List Nat → List Int → Cell → Cell
  | s :: steps, x :: xs, c => latencyRunAt L steps xs ((c.exposeN x).stepForward .sei L s)
  | _, _, c => c

theorem latencyRunAt_eq (L : Nat) (steps : List Nat) (xs : List Int) (c : Cell) :
    latencyRunAt L steps xs c = early_run L steps xs c := by
  induction steps generalizing xs c with
  | nil => cases xs <;> rfl
  | cons s rest ih =>
    cases xs with
    | nil => rfl
    | cons x xr => exact ih xr _

/-- Exact latency from a fresh start. `steps`: strictly increasing spread-step numbers (any first
    number, any gaps); `xs`: the exposures, one per spread step; `c`: a cell with L + 1 empty
    exposed cohorts and a non-empty mortality tracker. After the n = |xs| spread steps

    * infected = initial + the exposures of the first n - L spread steps, nothing else;
    * the exposed vector is: L - n empty cohorts (only while n < L), then the last min(n, L)
      exposures in order of exposure (oldest first), then the empty youngest cohort;
    * total_exposed = initial + their sum (= the sum of the exposed vector);
    * the matured hosts sit in the youngest (last) mortality cohort, the other cohorts are
      untouched;
    * susceptible = initial - all exposures; resistant, died, total hosts unchanged. -/
theorem C05_early_exact_latency (L : Nat) (steps : List Nat) (xs : List Int) (c : Cell)
    (hinc : steps.Pairwise (· < ·)) (hlen : steps.length = xs.length)
    (he : c.e = List.replicate (L + 1) 0) (hm : c.mort ≠ []) :
    (latencyRunAt L steps xs c).i = c.i + sumL (xs.take (xs.length - L)) ∧
    (latencyRunAt L steps xs c).e =
      List.replicate (L - xs.length) 0 ++ xs.drop (xs.length - L) ++ [0] ∧
    (latencyRunAt L steps xs c).te = c.te + sumL (xs.drop (xs.length - L)) ∧
    sumL (latencyRunAt L steps xs c).e = sumL (xs.drop (xs.length - L)) ∧
    (latencyRunAt L steps xs c).mort =
      c.mort.dropLast ++ [c.mort.getLast! + sumL (xs.take (xs.length - L))] ∧
    (latencyRunAt L steps xs c).s = c.s - sumL xs ∧
    (latencyRunAt L steps xs c).r = c.r ∧ (latencyRunAt L steps xs c).died = c.died ∧
    (latencyRunAt L steps xs c).th = c.th := by
  rw [latencyRunAt_eq, early_run_fresh L steps xs c hinc hlen he]
  refine ⟨rfl, rfl, rfl, ?_, guard_addLast_eq c.mort _ hm, rfl, rfl, rfl, rfl⟩
  simp only [sumL_append, early_sumL_replicate_zero, sumL_cons, sumL_nil]
  omega

/-- After EVERY prefix of the run (the first n spread steps, n ≤ |xs|) the infected count is the
    initial one plus the exposures of the first n - L spread steps; and spread step number n
    (0-based, i.e. the step from the prefix n to the prefix n + 1) matures exactly `xs[n - L]` when
    `L ≤ n` and nothing when `n < L`: a host exposed at spread step t becomes infected at spread
    step t + L, not before, whatever the step numbers (gaps) are, and no latency transition moves
    any host before the L-th spread step of the run. -/
theorem C05_early_every_prefix (L : Nat) (steps : List Nat) (xs : List Int) (c : Cell)
    (hinc : steps.Pairwise (· < ·)) (hlen : steps.length = xs.length)
    (he : c.e = List.replicate (L + 1) 0) (n : Nat) (hn : n ≤ xs.length) :
    (latencyRunAt L (steps.take n) (xs.take n) c).i = c.i + sumL (xs.take (n - L)) ∧
    (n < xs.length →
      (latencyRunAt L (steps.take (n + 1)) (xs.take (n + 1)) c).i =
        (latencyRunAt L (steps.take n) (xs.take n) c).i + (if L ≤ n then xs[n - L]! else 0)) := by
  have key : ∀ k, k ≤ xs.length →
      (latencyRunAt L (steps.take k) (xs.take k) c).i = c.i + sumL (xs.take (k - L)) := by
    intro k hk
    have hl : (steps.take k).length = (xs.take k).length := by
      rw [List.length_take, List.length_take, hlen]
    rw [latencyRunAt_eq, early_run_fresh L _ _ c (hinc.sublist (List.take_sublist k steps)) hl he]
    have hk' : (xs.take k).length = k := by rw [List.length_take]; omega
    simp only [hk', List.take_take]
    have : min (k - L) k = k - L := by omega
    rw [this]
  refine ⟨key n hn, fun hlt => ?_⟩
  rw [key (n + 1) (by omega), key n hn]
  by_cases hLn : L ≤ n
  · have : n + 1 - L = (n - L) + 1 := by omega
    rw [this, early_sumL_take_succ, if_pos hLn]; omega
  · have h1 : n + 1 - L = 0 := by omega
    have h2 : n - L = 0 := by omega
    rw [h1, h2, if_neg hLn]; omega

/-- The general closed form: exposed vector `Q ++ [0]` (any cohorts `Q`, empty youngest cohort), any
    step numbers, provided that at the j-th spread step the guard holds OR the cohort then at the
    front (the j-th element of `Q ++ xs`) is empty. `Q ++ xs` lists the cohorts in the order in
    which they reach the front; the first n = |xs| of them have matured, the others are the exposed
    vector. Instances: `C05_early_exact_latency` (Q all empty, increasing step numbers) and
    `C05_exact_latency` (all step numbers ≥ L). -/
theorem C05_early_closed (L : Nat) (steps : List Nat) (xs Q : List Int) (c : Cell)
    (hlen : steps.length = xs.length) (he : c.e = Q ++ [0])
    (hcond : ∀ j, j < xs.length → L ≤ steps[j]! ∨ (Q ++ xs)[j]! = 0) :
    latencyRunAt L steps xs c =
      { c with s := c.s - sumL xs, e := (Q ++ xs).drop xs.length ++ [0],
               i := c.i + sumL ((Q ++ xs).take xs.length),
               mort := addLast c.mort (sumL ((Q ++ xs).take xs.length)),
               te := c.te + sumL xs - sumL ((Q ++ xs).take xs.length) } := by
  rw [latencyRunAt_eq]
  exact early_run_closed L xs steps Q c hlen he hcond

/-- The EXCLUDED case, stated explicitly (documented behaviour outside the property's domain: hosts
    already sitting in the oldest exposed cohort when the run starts, i.e. exposed before the run).
    At a step number < L the latency step does not mature the front cohort `a`: it is rotated to
    the YOUNGEST position (where the next exposure is added to it), infected and the mortality
    cohorts do not change. With L + 1 cohorts these hosts therefore wait another L + 1 spread
    steps. When `a ≠ 0` this differs from what the guard-free rule would give
    (`i + a`, youngest cohort empty). -/
theorem C05_preloaded_old_cohort_is_recycled (L step : Nat) (c : Cell) (a : Int) (T : List Int)
    (he : c.e = a :: T) (hs : step < L) :
    (c.stepForward .sei L step).e = T ++ [a] ∧ (c.stepForward .sei L step).i = c.i ∧
    (c.stepForward .sei L step).mort = c.mort ∧ (c.stepForward .sei L step).te = c.te ∧
    (a ≠ 0 → (c.stepForward .sei L step).e ≠ T ++ [0] ∧ (c.stepForward .sei L step).i ≠ c.i + a) := by
  have hns : ¬ step ≥ L := by omega
  unfold Cell.stepForward
  simp only [hns, if_false, he, rotateLeft, true_and]
  intro ha
  refine ⟨fun h => ?_, by omega⟩
  have := List.append_cancel_left h
  simp only [List.cons.injEq, and_true] at this
  exact ha this

/-! ### instances -/

/-- L = 2, spread steps numbered 0, 1, 4, 5, 9 (a run from step 0 with two gaps), exposures
    3, 1, 4, 2, 6: the hypotheses hold, and the theorem gives: infected 7 + (3 + 1 + 4) = 15,
    cohorts [2, 6, 0], total exposed 8, the 8 matured hosts in the last mortality cohort. -/
example :
    let c : Cell := ⟨40, [0, 0, 0], 7, 0, 0, [5, 2], 0, 47⟩
    [0, 1, 4, 5, 9].Pairwise (· < ·) ∧ c.e = List.replicate (2 + 1) 0 ∧ c.mort ≠ [] ∧
    (latencyRunAt 2 [0, 1, 4, 5, 9] [3, 1, 4, 2, 6] c).i = 15 ∧
    (latencyRunAt 2 [0, 1, 4, 5, 9] [3, 1, 4, 2, 6] c).e = [2, 6, 0] ∧
    (latencyRunAt 2 [0, 1, 4, 5, 9] [3, 1, 4, 2, 6] c).te = 8 ∧
    (latencyRunAt 2 [0, 1, 4, 5, 9] [3, 1, 4, 2, 6] c).mort = [5, 10] ∧
    (latencyRunAt 2 [0, 1, 4, 5, 9] [3, 1, 4, 2, 6] c).s = 24 := by
  intro c
  have hinc : [0, 1, 4, 5, 9].Pairwise (· < ·) := by decide
  obtain ⟨h1, h2, h3, _, h5, h6, _⟩ :=
    C05_early_exact_latency 2 [0, 1, 4, 5, 9] [3, 1, 4, 2, 6] c hinc rfl rfl (by decide)
  exact ⟨hinc, rfl, by decide, by rw [h1]; decide, by rw [h2]; decide, by rw [h3]; decide,
    by rw [h5]; decide, by rw [h6]; decide⟩

/-- The same run observed after every spread step: infected 7, 7, 10, 11, 15 after 1..5 spread
    steps - nothing matures in the first L = 2 spread steps (numbers 0 and 1 < L), the 3 hosts of
    spread step 0 mature at spread step 2 (number 4), the 1 of step 1 at step 3 (number 5), the 4 of
    step 2 at step 4 (number 9). -/
example :
    let c : Cell := ⟨40, [0, 0, 0], 7, 0, 0, [5, 2], 0, 47⟩
    (List.range 6).map (fun n =>
      (latencyRunAt 2 ([0, 1, 4, 5, 9].take n) ([3, 1, 4, 2, 6].take n) c).i) = [7, 7, 7, 10, 11, 15] ∧
    (List.range 6).map (fun n =>
      (latencyRunAt 2 ([0, 1, 4, 5, 9].take n) ([3, 1, 4, 2, 6].take n) c).e) =
        [[0, 0, 0], [0, 3, 0], [3, 1, 0], [1, 4, 0], [4, 2, 0], [2, 6, 0]] := by
  decide

/-- A run that starts late in a gap-free schedule is covered too (numbers 7, 8, 9; L = 2). -/
example :
    (latencyRunAt 2 [7, 8, 9] [3, 1, 4] ⟨40, [0, 0, 0], 7, 0, 0, [5, 2], 0, 47⟩).i = 7 + 3 ∧
    (latencyRunAt 2 [7, 8, 9] [3, 1, 4] ⟨40, [0, 0, 0], 7, 0, 0, [5, 2], 0, 47⟩).e = [1, 4, 0] := by
  obtain ⟨h1, h2, _⟩ := C05_early_exact_latency 2 [7, 8, 9] [3, 1, 4]
    ⟨40, [0, 0, 0], 7, 0, 0, [5, 2], 0, 47⟩ (by decide) rfl rfl (by decide)
  exact ⟨by rw [h1]; decide, by rw [h2]; decide⟩

/-- The excluded case on numbers: e = [5, 0, 0], L = 2, spread steps 0, 1, 2, 3 without new
    exposures. Step 0 < L rotates the 5 preloaded hosts to the youngest position ([0, 0, 5]); they
    reach the front again after steps 1 and 2 and mature at step 3 - not at step 0 (guard-free
    rule), and not at step 2 = L either. -/
example :
    let c : Cell := ⟨40, [5, 0, 0], 7, 0, 5, [5, 2], 0, 52⟩
    (c.stepForward .sei 2 0).e = [0, 0, 5] ∧ (c.stepForward .sei 2 0).i = 7 ∧
    (List.range 5).map (fun n => (latencyRunAt 2 ([0, 1, 2, 3].take n) ([0, 0, 0, 0].take n) c).i) =
      [7, 7, 7, 7, 12] ∧
    (List.range 5).map (fun n => (latencyRunAt 2 ([0, 1, 2, 3].take n) ([0, 0, 0, 0].take n) c).e) =
      [[5, 0, 0], [0, 0, 5], [0, 5, 0], [5, 0, 0], [0, 0, 0]] := by
  intro c
  obtain ⟨h1, h2, _⟩ := C05_preloaded_old_cohort_is_recycled 2 0 c 5 [0, 0] rfl (by decide)
  exact ⟨h1, h2, by decide, by decide⟩

/-- `C05_early_closed` with preloaded cohorts and late step numbers (the regime of
    `C05_exact_latency`): Q = [5, 1], steps 2, 3, 4 ≥ L = 2, exposures 3, 1, 4: the cohorts reach
    the front in the order 5, 1, 3, 1, 4; the first three have matured. -/
example :
    latencyRunAt 2 [2, 3, 4] [3, 1, 4] ⟨40, [5, 1, 0], 7, 0, 6, [5, 2], 0, 53⟩ =
      ⟨32, [1, 4, 0], 16, 0, 5, [5, 11], 0, 53⟩ := by
  rw [C05_early_closed 2 [2, 3, 4] [3, 1, 4] [5, 1] _ rfl rfl (fun j hj => Or.inl (by
    have : j = 0 ∨ j = 1 ∨ j = 2 := by simp only [List.length_cons, List.length_nil] at hj; omega
    rcases this with rfl | rfl | rfl <;> decide))]
  decide

end Pops
