/-
  C18, the link to the host pool: the infected sum computed over the suitable-cell list equals the
  sum of the infected raster whenever the list names every infected cell exactly once
  (`suitableListOK`).  The driver evaluates the conclusion - `infectedOverList = infectedOverRaster`
  - on the list and the rasters the implementation leaves after every host-pool operation.
-/
import PopsModel.Model.SuitList
namespace Pops

theorem sumL_cons' (x : Int) (xs : List Int) : sumL (x :: xs) = x + sumL xs := by
  unfold sumL; rw [List.foldl_cons, foldl_add_init]; omega

theorem sumL_perm {a b : List Int} (h : a.Perm b) : sumL a = sumL b := by
  induction h with
  | nil => rfl
  | cons x _ ih => rw [sumL_cons', sumL_cons', ih]
  | swap x y l => simp only [sumL_cons']; omega
  | trans _ _ ih1 ih2 => rw [ih1, ih2]

theorem sumL_filter_map (l : List Nat) (p : Nat → Bool) (f : Nat → Int) :
    sumL ((l.filter p).map f) = sumL (l.map fun k => if p k then f k else 0) := by
  induction l with
  | nil => rfl
  | cons x xs ih =>
    by_cases hp : p x = true
    · simp only [List.filter_cons, hp, if_true, List.map_cons, sumL_cons', ih]
    · simp only [List.filter_cons, hp, List.map_cons, sumL_cons']; simpa using ih

theorem C18_sum_over_suitable_list (inf : Nat → Int) (n : Nat) (suit : List Nat)
    (h : suitableListOK inf n suit = true) : infectedOverList inf suit = infectedOverRaster inf n := by
  simp only [suitableListOK, Bool.and_eq_true, decide_eq_true_eq, List.all_eq_true, Bool.or_eq_true,
    beq_iff_eq, List.contains_iff_mem, List.mem_range] at h
  obtain ⟨⟨hnd, hlt⟩, hcov⟩ := h
  have hperm : suit.Perm ((List.range n).filter fun k => suit.contains k) := by
    apply (List.perm_ext_iff_of_nodup hnd (List.nodup_range.filter _)).mpr
    intro a
    simp only [List.mem_filter, List.mem_range, List.contains_iff_mem]
    constructor
    · intro ha; exact ⟨hlt a ha, ha⟩
    · intro ha; exact ha.2
  unfold infectedOverList infectedOverRaster
  rw [sumL_perm (hperm.map inf), sumL_filter_map]
  congr 1
  apply List.map_congr_left
  intro k hk
  rw [List.mem_range] at hk
  by_cases hm : k ∈ suit
  · simp [hm]
  · rcases hcov k hk with h0 | h1
    · simp [h0]
    · exact absurd h1 hm

/-- Non-vacuity: a list with an appended cell (what a host move into an empty cell produces) is
    fine, a list naming a cell twice is rejected and really gives a different sum. -/
example : suitableListOK (fun k => [0, 2, 0, 5][k]!) 4 [1, 3, 0] = true := by decide
example : suitableListOK (fun k => [0, 2, 0, 5][k]!) 4 [1, 3, 3] = false := by decide
example : infectedOverList (fun k => [0, 2, 0, 5][k]!) [1, 3, 3] ≠ infectedOverRaster (fun k => [0, 2, 0, 5][k]!) 4 := by decide

end Pops
