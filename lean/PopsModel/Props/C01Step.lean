/-
  C01 / C09 at the granularity of a whole model step: `Model::run_step` modelled as the composition
  of its actions' operations (Model/RunStep.lean).
-/
import PopsModel.Model.RunStep
import PopsModel.Props.C01
import PopsModel.Props.C02
namespace Pops

/-- Any sequence of state-dependent actions conserves hosts: hosts after = hosts before - died -
    removed by treatments; consistency is kept. The domain hypothesis is taken ALONG THE RUN
    (`GensDomainAlong`: each action's operations are in their domain at the landscape that action
    finds). An earlier version asked for the domain at every consistent landscape; that is
    unsatisfiable for SEI inputs (`uniform_domain_unsat_sei`: the latency step needs non-empty
    cohort vectors, and the empty-cohort landscape is consistent), i.e. the theorem was vacuous
    there. -/
theorem C01_generators (gens : List OpGen) (l l' : Land) (hinv : l.inv) (hu : l.uniform)
    (hd : GensDomainAlong gens l)
    (h : runGens gens l = .ok l') :
    l'.hosts = l.hosts - (l'.died - l.died) - removedByGens gens l ∧
    0 ≤ removedByGens gens l ∧ l.died ≤ l'.died ∧ l'.hosts ≤ l.hosts ∧ l'.inv ∧ l'.uniform := by
  induction gens generalizing l with
  | nil =>
    simp only [runGens, Except.ok.injEq] at h
    subst h
    simp only [removedByGens]
    exact ⟨by omega, by omega, by omega, by omega, hinv, hu⟩
  | cons gen rest ih =>
    simp only [runGens, bind, Except.bind] at h
    cases h1 : runOps (gen l) l with
    | error e => rw [h1] at h; cases h
    | ok m =>
      rw [h1] at h
      have hdg := hd.1
      obtain ⟨a1, a2, a3, a4⟩ := C01_history (gen l) l m hinv hu hdg h1
      obtain ⟨b1, b2⟩ := C02_history (gen l) l m hinv hu hdg h1
      obtain ⟨c1, c2, c3, c4, c5, c6⟩ := ih m b1 b2 (hd.2 m h1) h
      simp only [removedByGens, h1]
      exact ⟨by omega, by omega, by omega, by omega, c5, c6⟩

/-- C01 per model step: over one `run_step`, for every combination of enabled and scheduled
    actions (the plan of C09), every input raster, kernel result and random draw in the documented
    domain along the run, hosts after = hosts before - the step's reported deaths - hosts removed
    by treatments, and no host is created. (A concrete SEI instance of the hypotheses and of the
    conclusion: Props/C05OffSeason.lean, `c05Off_domain`, `c05Off_run` and the example that follows them.) -/
theorem C01_model_step (cfg : StepCfg) (inp : StepInputs) (step : Nat) (l l' : Land)
    (hinv : l.inv) (hu : l.uniform)
    (hd : GensDomainAlong (stepGens cfg inp step) l)
    (h : runStepHosts cfg inp step l = .ok l') :
    l'.hosts = l.hosts - (l'.died - l.died) - removedByGens (stepGens cfg inp step) l ∧
    0 ≤ removedByGens (stepGens cfg inp step) l ∧ l'.hosts ≤ l.hosts ∧ l'.inv := by
  have := C01_generators (stepGens cfg inp step) l l' hinv hu hd h
  exact ⟨this.1, this.2.1, this.2.2.2.1, this.2.2.2.2.1⟩

/-- C09: the state after a model step is the state obtained by applying, one by one and in the
    documented order, exactly the actions that are enabled and scheduled; inputs of an action
    that does not run have no influence (the result is a function of the plan's generators only). -/
theorem C09_compose (cfg : StepCfg) (inp : StepInputs) (step : Nat) (l : Land) :
    runStepHosts cfg inp step l =
      runGens ((documentedOrder.filter (cfg.runs step)).map (actionGen inp step)) l := by
  simp [runStepHosts, stepGens, plan, List.map_map, Function.comp_def]

/-- Frame: two input records that agree on the generators of the actions that run give the same
    step; in particular temperatures, survival rates, movement rows, treatments, mortality
    parameters of disabled or unscheduled features are irrelevant. -/
theorem C09_frame_inputs (cfg : StepCfg) (inp inp' : StepInputs) (step : Nat) (l : Land)
    (h : ∀ a, cfg.runs step a = true → actionGen inp step a = actionGen inp' step a) :
    runStepHosts cfg inp step l = runStepHosts cfg inp' step l := by
  rw [C09_compose, C09_compose]
  congr 1
  apply List.map_congr_left
  intro a ha
  exact h a (List.mem_filter.mp ha).2

/-- The measurement actions and soil ageing never touch host rasters. -/
theorem C09_measurements_pure (inp : StepInputs) (step : Nat) (l : Land) :
    actionGen inp step .spreadRate l = [] ∧ actionGen inp step .quarantine l = [] ∧
    actionGen inp step .soilNext l = [] := ⟨rfl, rfl, rfl⟩

example : runGens [] ([] : Land) = .ok [] := rfl

end Pops
