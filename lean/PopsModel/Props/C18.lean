/-
  C18  Reported metrics equal their definitions computed from the infected raster.
  Property theorems only; helper lemmas are in PopsModel/Lemmas/Metric.lean and MetricQuar.lean,
  the definitions the theorems compare with are in PopsModel/Model/MetricSpec.lean.

  All statements are for arbitrary `rows`, `cols` (no relation between them), arbitrary raster
  contents and an arbitrary list of suitable cells inside the grid.
-/
import PopsModel.Lemmas.MetricQuar
namespace Pops
open Metric

/-! ## Bounding box -/

/-- `infection_boundary` returns exactly the bounding box of the infected listed cells: every side
    is attained by an infected cell and bounds all infected cells; the sentinel `(-1,-1,-1,-1)`
    iff there is no infected cell. `rows` and `cols` are independent. -/
theorem C18_bbox (rows cols : Int) (inf : IRaster) (cells : List Cell)
    (hin : ∀ c ∈ cells, InRange rows cols c) :
    infectionBoundary rows cols inf cells = specBoxOr (infectedCells inf cells) ∧
    (infectedCells inf cells = [] → infectionBoundary rows cols inf cells = noBox) ∧
    (infectedCells inf cells ≠ [] →
      IsBBox (infectedCells inf cells) (infectionBoundary rows cols inf cells) ∧
      (infectionBoundary rows cols inf cells).valid = true) ∧
    (∀ b, IsBBox (infectedCells inf cells) b → infectionBoundary rows cols inf cells = b) := by
  have heq := infectionBoundary_eq_spec rows cols inf cells hin
  have hbb : infectedCells inf cells ≠ [] →
      IsBBox (infectedCells inf cells) (infectionBoundary rows cols inf cells) := by
    intro hne
    obtain ⟨b, hb⟩ := specBox_ne_none hne
    rw [heq, specBoxOr, hb]
    exact specBox_isBBox _ _ hb
  refine ⟨heq, ?_, ?_, ?_⟩
  · intro h; rw [heq, h]; rfl
  · intro hne
    refine ⟨hbb hne, ?_⟩
    obtain ⟨c, hc, hcn⟩ := (hbb hne).n_att
    have := hin c (mem_infectedCells.mp hc).1
    have h0 : 0 ≤ (infectionBoundary rows cols inf cells).n := by rw [← hcn]; exact this.1
    simp only [Box.valid, bne_iff_ne, ne_eq]
    omega
  · intro b hb
    obtain ⟨c, hc, _⟩ := hb.n_att
    exact isBBox_unique (hbb (List.ne_nil_of_mem hc)) hb

/-- The same over the raster itself: when the suitable cells contain every infected cell of the
    `rows x cols` raster, the box is the min / max row and column over all infected raster cells. -/
theorem C18_bbox_raster (rows cols : Int) (inf : IRaster) (cells : List Cell)
    (hin : ∀ c ∈ cells, InRange rows cols c)
    (hcov : ∀ i j, InRange rows cols (i, j) → inf.at i j > 0 → (i, j) ∈ cells) :
    ((¬ ∃ i j, InRange rows cols (i, j) ∧ inf.at i j > 0) → infectionBoundary rows cols inf cells = noBox) ∧
    ((∃ i j, InRange rows cols (i, j) ∧ inf.at i j > 0) →
      (∀ i j, InRange rows cols (i, j) → inf.at i j > 0 →
        (infectionBoundary rows cols inf cells).n ≤ i ∧ i ≤ (infectionBoundary rows cols inf cells).s ∧
        (infectionBoundary rows cols inf cells).w ≤ j ∧ j ≤ (infectionBoundary rows cols inf cells).e) ∧
      (∃ j, InRange rows cols ((infectionBoundary rows cols inf cells).n, j) ∧ inf.at (infectionBoundary rows cols inf cells).n j > 0) ∧
      (∃ j, InRange rows cols ((infectionBoundary rows cols inf cells).s, j) ∧ inf.at (infectionBoundary rows cols inf cells).s j > 0) ∧
      (∃ i, InRange rows cols (i, (infectionBoundary rows cols inf cells).e) ∧ inf.at i (infectionBoundary rows cols inf cells).e > 0) ∧
      (∃ i, InRange rows cols (i, (infectionBoundary rows cols inf cells).w) ∧ inf.at i (infectionBoundary rows cols inf cells).w > 0)) := by
  obtain ⟨_, hnone, hsome, _⟩ := C18_bbox rows cols inf cells hin
  constructor
  · intro hno
    apply hnone
    cases hL : infectedCells inf cells with
    | nil => rfl
    | cons c cs =>
      have hc : c ∈ infectedCells inf cells := by rw [hL]; simp
      have := mem_infectedCells.mp hc
      exact absurd ⟨c.1, c.2, hin c this.1, this.2⟩ hno
  · rintro ⟨i0, j0, hr0, hi0⟩
    have hmem0 : (i0, j0) ∈ infectedCells inf cells := mem_infectedCells.mpr ⟨hcov i0 j0 hr0 hi0, hi0⟩
    obtain ⟨hb, _⟩ := hsome (List.ne_nil_of_mem hmem0)
    have back : ∀ c ∈ infectedCells inf cells, InRange rows cols (c.1, c.2) ∧ inf.at c.1 c.2 > 0 := by
      intro c hc
      have := mem_infectedCells.mp hc
      exact ⟨hin c this.1, this.2⟩
    refine ⟨?_, ?_, ?_, ?_, ?_⟩
    · intro i j hr hi
      have hmem : (i, j) ∈ infectedCells inf cells := mem_infectedCells.mpr ⟨hcov i j hr hi, hi⟩
      exact ⟨hb.n_le _ hmem, hb.s_ge _ hmem, hb.w_le _ hmem, hb.e_ge _ hmem⟩
    · obtain ⟨c, hc, he⟩ := hb.n_att
      have := back c hc
      rw [he] at this; exact ⟨c.2, this⟩
    · obtain ⟨c, hc, he⟩ := hb.s_att
      have := back c hc
      rw [he] at this; exact ⟨c.2, this⟩
    · obtain ⟨c, hc, he⟩ := hb.e_att
      have := back c hc
      rw [he] at this; exact ⟨c.1, this⟩
    · obtain ⟨c, hc, he⟩ := hb.w_att
      have := back c hc
      rw [he] at this; exact ⟨c.1, this⟩

/-- A 6 x 3 raster (rows ≠ cols) with infection in rows 3..4, columns 1..2. -/
def exInf63 : IRaster := ⟨6, 3, [0,0,0, 0,0,0, 0,0,0, 0,2,0, 0,0,5, 0,0,0]⟩

example : ∀ c ∈ allCells 6 3, InRange 6 3 c := fun _ hc => mem_allCells.mp hc
example : infectionBoundary 6 3 exInf63 (allCells 6 3) = ⟨3, 4, 2, 1⟩ := by decide
example : infectedCells exInf63 (allCells 6 3) = [(3, 1), (4, 2)] := by decide
/-- 1 x 4 and 4 x 1 rasters. -/
example : infectionBoundary 1 4 ⟨1, 4, [0, 0, 7, 0]⟩ (allCells 1 4) = ⟨0, 0, 2, 2⟩ := by decide
example : infectionBoundary 4 1 ⟨4, 1, [0, 0, 7, 1]⟩ (allCells 4 1) = ⟨2, 3, 0, 0⟩ := by decide
example : infectionBoundary 4 1 ⟨4, 1, [0, 0, 0, 0]⟩ (allCells 4 1) = noBox := by decide

/-! ## Spread rate -/

/-- Measurements `m0` (constructor), then `ms` with `action(., 0)`, `action(., 1)`, ...: all
    calls succeed, and whenever the previous measurement found infection (box `b1`), the stored
    rate of step `i` is, per direction, the displacement of the definitional bounding box times
    the resolution (north/south rows x `ns`, east/west columns x `ew`; growth is positive), and
    undefined as `specRate` says. -/
theorem C18_rate (rows cols : Int) (ew ns : Rat) (hns : ns ≠ 0) (hew : ew ≠ 0) (N : Nat)
    (cells : List Cell) (hin : ∀ c ∈ cells, InRange rows cols c)
    (m0 : IRaster) (ms : List IRaster) (hlen : ms.length ≤ N) :
    ∃ sr, SpreadRate.run cells (SpreadRate.new m0 cells rows cols ew ns N) ms 0 = .ok sr ∧
      ∀ (i : Nat) (mp mc : IRaster) (b1 : Box),
        (m0 :: ms)[i]? = some mp → ms[i]? = some mc →
        specBox (infectedCells mp cells) = some b1 →
        sr.rates[i]? = some (specRatesOpt rows cols ns ew b1 (specBox (infectedCells mc cells))) := by
  have wf := new_wf m0 cells rows cols ew ns N
  have h0 : (SpreadRate.new m0 cells rows cols ew ns N).boundaries[0]? =
      some (infectionBoundary rows cols m0 cells) := by
    simp [SpreadRate.new]
  obtain ⟨sr, hrun, _, _, hrates⟩ := run_rates rows cols ew ns N cells ms _ 0 _ wf h0 (by omega)
  refine ⟨sr, hrun, ?_⟩
  intro i mp mc b1 hp hc hb1
  have e1 : (infectionBoundary rows cols m0 cells :: ms.map fun m => infectionBoundary rows cols m cells)[i]? =
      some (infectionBoundary rows cols mp cells) := by
    rw [← List.map_cons (f := fun m => infectionBoundary rows cols m cells), List.getElem?_map, hp]; rfl
  have e2 : (ms.map fun m => infectionBoundary rows cols m cells)[i]? =
      some (infectionBoundary rows cols mc cells) := by
    rw [List.getElem?_map, hc]; rfl
  have := hrates i _ _ e1 e2
  rw [Nat.zero_add] at this
  rw [this]
  congr 1
  obtain ⟨hp1, _, _, _⟩ := C18_bbox rows cols mp cells hin
  obtain ⟨hc1, hcnone, hcsome, _⟩ := C18_bbox rows cols mc cells hin
  rw [hp1, specBoxOr, hb1, Option.getD_some]
  cases hcb : specBox (infectedCells mc cells) with
  | none =>
    have : infectedCells mc cells = [] := by
      cases hL : infectedCells mc cells with
      | nil => rfl
      | cons c cs => rw [hL] at hcb; simp [specBox] at hcb
    rw [hcnone this]
    rfl
  | some b2 =>
    have hne : infectedCells mc cells ≠ [] := by
      intro h; rw [h] at hcb; simp [specBox] at hcb
    have hv := (hcsome hne).2
    have hb2 : infectionBoundary rows cols mc cells = b2 := by rw [hc1, specBoxOr, hcb]; rfl
    rw [hb2] at hv ⊢
    simp only [measuredRates, hv, if_true, specRatesOpt]
    exact ratesOf_eq_spec rows cols ns ew hns hew b1 b2

/-- What `action` stores (`measuredRates`, see `action_ok` / `run_rates`) for previous box `b1`
    and current box `b2`: everything is undefined when no infection is found now; otherwise a
    direction is undefined exactly when the box touches that edge of the raster (row 0, row
    `rows-1`, column `cols-1`, column 0) and did not move, and else it is displacement x
    resolution. -/
theorem C18_rate_undefined (rows cols : Int) (ew ns : Rat) (hns : ns ≠ 0) (hew : ew ≠ 0) (b1 b2 : Box) :
    (b2.valid = false → measuredRates rows cols ns ew b1 b2 = nanRates) ∧
    (b2.valid = true →
      ((measuredRates rows cols ns ew b1 b2).n = none ↔ b2.n = 0 ∧ b1.n = b2.n) ∧
      ((measuredRates rows cols ns ew b1 b2).s = none ↔ b2.s = rows - 1 ∧ b2.s = b1.s) ∧
      ((measuredRates rows cols ns ew b1 b2).e = none ↔ b2.e = cols - 1 ∧ b2.e = b1.e) ∧
      ((measuredRates rows cols ns ew b1 b2).w = none ↔ b2.w = 0 ∧ b1.w = b2.w) ∧
      (∀ r, (measuredRates rows cols ns ew b1 b2).n = some r → r = ((b1.n - b2.n : Int) : Rat) * ns) ∧
      (∀ r, (measuredRates rows cols ns ew b1 b2).s = some r → r = ((b2.s - b1.s : Int) : Rat) * ns) ∧
      (∀ r, (measuredRates rows cols ns ew b1 b2).e = some r → r = ((b2.e - b1.e : Int) : Rat) * ew) ∧
      (∀ r, (measuredRates rows cols ns ew b1 b2).w = some r → r = ((b1.w - b2.w : Int) : Rat) * ew)) := by
  constructor
  · intro h; simp [measuredRates, h]
  · intro h
    have hval : ∀ (d : Int) (res : Rat) (t : Bool) (r : Rat), specRate d res t = some r → r = (d : Rat) * res := by
      intro d res t r hr
      unfold specRate at hr
      split at hr
      · cases hr
      · cases hr; rfl
    simp only [measuredRates, h, if_true, ratesOf_eq_spec rows cols ns ew hns hew, specRates,
      specRate_none_iff, beq_iff_eq]
    refine ⟨by omega, by omega, by omega, by omega, hval _ _ _, hval _ _ _, hval _ _ _, hval _ _ _⟩

/-- Non-vacuity: a 2 x 5 raster, the infection moves one column east between two measurements. -/
example : specBox (infectedCells ⟨2, 5, [0,0,0,0,0, 0,1,0,0,0]⟩ (allCells 2 5)) = some ⟨1, 1, 1, 1⟩ := by decide
example : specBox (infectedCells ⟨2, 5, [0,0,0,0,0, 0,1,3,0,0]⟩ (allCells 2 5)) = some ⟨1, 1, 2, 1⟩ := by decide
example : (specRates 2 5 30 10 ⟨1, 1, 1, 1⟩ ⟨1, 1, 2, 1⟩).s = none ∧
    (specRates 2 5 30 10 ⟨1, 1, 1, 1⟩ ⟨1, 1, 2, 1⟩).e = some (((1 : Int) : Rat) * 10) := by
  constructor
  · rw [specRates, specRate_none_iff]; decide
  · simp [specRates, specRate]

/-! ## Quarantine escape -/

/-- States reachable from the constructor for the area raster `areas` with `N` steps. -/
structure QFrom (q : Quarantine) (areas : IRaster) (N : Nat) : Prop where
  table : q.table = quarantineBoundary areas
  len : q.infos.length = N

theorem C18_qfrom_make (areas : IRaster) (ew ns : Rat) (N : Nat) (dirs : Dirs) :
    QFrom (Quarantine.make areas ew ns N dirs) areas N :=
  ⟨rfl, by simp [Quarantine.make]⟩

/-- The table built by the constructor is the definitional bounding box of every positive id. -/
theorem C18_area_bbox (areas : IRaster) (v : Int) (hv : 0 < v) :
    findBox (quarantineBoundary areas) v = specAreaBox areas v ∧
    (∀ b, specAreaBox areas v = some b → IsBBox (areaCells areas v) b) ∧
    (specAreaBox areas v = none ↔ ∀ c ∈ allCells areas.rows areas.cols, areas.at c.1 c.2 ≠ v) := by
  refine ⟨findBox_quarantineBoundary areas v hv, fun b hb => specBox_isBBox _ _ hb, ?_⟩
  unfold specAreaBox
  constructor
  · intro h c hc he
    have hm : c ∈ areaCells areas v := by
      unfold areaCells; exact List.mem_filter.mpr ⟨hc, by simpa using he⟩
    obtain ⟨b, hb⟩ := specBox_ne_none (List.ne_nil_of_mem hm)
    rw [h] at hb; cases hb
  · intro h
    cases hL : areaCells areas v with
    | nil => rfl
    | cons c cs =>
      have hm : c ∈ areaCells areas v := by rw [hL]; simp
      unfold areaCells at hm
      have := List.mem_filter.mp hm
      exact absurd (by simpa using this.2) (h c this.1)

/-- A listed cell with a positive area id: the table lookup yields the definitional box of its
    own area, which contains the cell and lies inside the raster. -/
theorem own_area_box (areas : IRaster) (c : Cell) (hr : InRange areas.rows areas.cols c)
    (hpos : 0 < areas.at c.1 c.2) :
    ∃ b, lookupBox (quarantineBoundary areas) (areas.at c.1 c.2) = some b ∧
      specAreaBox areas (areas.at c.1 c.2) = some b ∧
      0 ≤ b.n ∧ b.n ≤ c.1 ∧ c.1 ≤ b.s ∧ b.s < areas.rows ∧ 0 ≤ b.w ∧ b.w ≤ c.2 ∧ c.2 ≤ b.e ∧ b.e < areas.cols := by
  have hm : c ∈ areaCells areas (areas.at c.1 c.2) := by
    unfold areaCells; exact List.mem_filter.mpr ⟨mem_allCells.mpr hr, by simp⟩
  obtain ⟨b, hb⟩ := specBox_ne_none (List.ne_nil_of_mem hm)
  have hf := findBox_quarantineBoundary areas _ hpos
  have hbb := specBox_isBBox _ _ hb
  have rng : ∀ x ∈ areaCells areas (areas.at c.1 c.2), InRange areas.rows areas.cols x := by
    intro x hx; unfold areaCells at hx; exact mem_allCells.mp (List.mem_filter.mp hx).1
  obtain ⟨x1, hx1, e1⟩ := hbb.n_att; obtain ⟨x2, hx2, e2⟩ := hbb.s_att
  obtain ⟨x3, hx3, e3⟩ := hbb.e_att; obtain ⟨x4, hx4, e4⟩ := hbb.w_att
  have r1 := rng x1 hx1; have r2 := rng x2 hx2; have r3 := rng x3 hx3; have r4 := rng x4 hx4
  have := hbb.n_le c hm; have := hbb.s_ge c hm; have := hbb.e_ge c hm; have := hbb.w_le c hm
  unfold InRange at r1 r2 r3 r4
  refine ⟨b, lookupBox_of_findBox (by rw [hf]; exact hb), hb, ?_⟩
  omega

/-- `action` reports escape exactly when an infected listed cell lies outside every quarantine
    area (area value 0); the other steps' records are untouched and the state stays reachable. -/
theorem C18_escape_iff (areas inf : IRaster) (N : Nat) (q : Quarantine) (hq : QFrom q areas N)
    (cells : List Cell) (hin : ∀ c ∈ cells, InRange areas.rows areas.cols c)
    (hnn : ∀ c ∈ cells, 0 ≤ areas.at c.1 c.2) (step : Nat) (hstep : step < N) :
    ∃ q' info, q.action cells inf areas step = .ok q' ∧ QFrom q' areas N ∧
      (q'.dirs = q.dirs ∧ q'.ns = q.ns ∧ q'.ew = q.ew) ∧
      q'.infos[step]? = some info ∧
      (info.escaped = true ↔ ∃ c ∈ cells, inf.at c.1 c.2 ≠ 0 ∧ areas.at c.1 c.2 = 0) ∧
      info.escaped = specEscaped inf areas cells ∧
      (info.escaped = true → info.dist = .nan ∧ info.dir = .none) ∧
      (∀ j, j ≠ step → q'.infos[j]? = q.infos[j]?) := by
  have hlook : ∀ c ∈ cells, inf.at c.1 c.2 ≠ 0 → areas.at c.1 c.2 ≠ 0 →
      lookupBox q.table (areas.at c.1 c.2) ≠ none := by
    intro c hc _ ha
    have hpos : 0 < areas.at c.1 c.2 := by have := hnn c hc; omega
    obtain ⟨b, hb, _⟩ := own_area_box areas c (hin c hc) hpos
    rw [hq.table, hb]; simp
  have hspec : specEscaped inf areas cells = true ↔ ∃ c ∈ cells, inf.at c.1 c.2 ≠ 0 ∧ areas.at c.1 c.2 = 0 := by
    simp only [specEscaped, presentCells, List.any_eq_true, List.mem_filter, beq_iff_eq, decide_eq_true_eq]
    constructor
    · rintro ⟨c, ⟨hc, h1⟩, h2⟩; exact ⟨c, hc, h1, h2⟩
    · rintro ⟨c, hc, h1, h2⟩; exact ⟨c, ⟨hc, h1⟩, h2⟩
  have hlen : step < q.infos.length := by rw [hq.len]; exact hstep
  by_cases hex : ∃ c ∈ cells, inf.at c.1 c.2 ≠ 0 ∧ areas.at c.1 c.2 = 0
  · have hloop := escapeLoop_escape q inf areas cells none hlook hex
    refine ⟨{ q with infos := q.infos.set step (infoOf none) }, infoOf none, ?_, ⟨hq.table, by simp [hq.len]⟩, ⟨rfl, rfl, rfl⟩, ?_, ?_, ?_, ?_, ?_⟩
    · simp only [Quarantine.action, hloop, hlen, if_true]
    · simp only [List.getElem?_set_self hlen]
    · simp only [infoOf, true_iff]; exact hex
    · simp only [infoOf]; exact (hspec.mpr hex).symm
    · intro _; exact ⟨rfl, rfl⟩
    · intro j hj; simp only [List.getElem?_set_ne (Ne.symm hj)]
  · have hok : ∀ c ∈ cells, inf.at c.1 c.2 ≠ 0 →
        areas.at c.1 c.2 ≠ 0 ∧ lookupBox q.table (areas.at c.1 c.2) ≠ none := by
      intro c hc hi
      have ha : areas.at c.1 c.2 ≠ 0 := fun h => hex ⟨c, hc, hi, h⟩
      exact ⟨ha, hlook c hc hi ha⟩
    obtain ⟨acc', hloop⟩ := escapeLoop_no_escape q inf areas cells none hok
    refine ⟨{ q with infos := q.infos.set step (infoOf (some acc')) }, infoOf (some acc'), ?_, ⟨hq.table, by simp [hq.len]⟩, ⟨rfl, rfl, rfl⟩, ?_, ?_, ?_, ?_, ?_⟩
    · simp only [Quarantine.action, hloop, hlen, if_true]
    · simp only [List.getElem?_set_self hlen]
    · have hf : (infoOf (some acc')).escaped = false := by cases acc' <;> rfl
      simp only [hf, Bool.false_eq_true, false_iff]; exact hex
    · have hf : (infoOf (some acc')).escaped = false := by cases acc' <;> rfl
      rw [hf]
      cases hs : specEscaped inf areas cells with
      | false => rfl
      | true => exact absurd (hspec.mp hs) hex
    · intro h
      have hf : (infoOf (some acc')).escaped = false := by cases acc' <;> rfl
      rw [hf] at h; cases h
    · intro j hj; simp only [List.getElem?_set_ne (Ne.symm hj)]

/-- No escape, some infected listed cell, ANY non-negative rational resolutions: the report is
    `(lround x, dir)` where `x` is the exact distance of an infected cell `c` to the enabled side
    `dir` of the bounding box `b` of its own area, and `x` is minimal over all infected cells and
    all enabled sides of their own areas' boxes. Among several such pairs the reported one is the
    first in scan order (cells in list order, sides in the order N, S, E, W): in the list of all
    candidates everything before it is strictly farther, everything after it at least as far.
    Only the reported distance is rounded; no rounded value takes part in a comparison.
    (`dblMax` is the start value `numeric_limits<double>::max()` of the search.) -/
theorem C18_nearest (areas inf : IRaster) (N : Nat) (q : Quarantine) (hq : QFrom q areas N)
    (hns : 0 ≤ q.ns) (hew : 0 ≤ q.ew)
    (hbn : (areas.rows : Rat) * q.ns < (dblMax : Rat)) (hbe : (areas.cols : Rat) * q.ew < (dblMax : Rat))
    (hen : ∃ d, q.dirs.enabled d = true)
    (cells : List Cell) (hin : ∀ c ∈ cells, InRange areas.rows areas.cols c)
    (hnn : ∀ c ∈ cells, 0 ≤ areas.at c.1 c.2) (step : Nat) (hstep : step < N)
    (hno : ¬ ∃ c ∈ cells, inf.at c.1 c.2 ≠ 0 ∧ areas.at c.1 c.2 = 0)
    (hsome : ∃ c ∈ cells, inf.at c.1 c.2 ≠ 0) :
    ∃ q' c b dir, q.action cells inf areas step = .ok q' ∧
      c ∈ cells ∧ inf.at c.1 c.2 ≠ 0 ∧ specAreaBox areas (areas.at c.1 c.2) = some b ∧
      q.dirs.enabled dir = true ∧
      q'.infos[step]? = some ⟨false, .val (lround (sideDist b q.ns q.ew c dir)), dir⟩ ∧
      (∀ c' ∈ cells, inf.at c'.1 c'.2 ≠ 0 → ∀ b', specAreaBox areas (areas.at c'.1 c'.2) = some b' →
          ∀ d', q.dirs.enabled d' = true → sideDist b q.ns q.ew c dir ≤ sideDist b' q.ns q.ew c' d') ∧
      (∃ pre post, nearestCandidates inf areas cells q.dirs q.ns q.ew =
            pre ++ (sideDist b q.ns q.ew c dir, dir) :: post ∧
          (∀ x ∈ pre, sideDist b q.ns q.ew c dir < x.1) ∧
          (∀ y ∈ post, sideDist b q.ns q.ew c dir ≤ y.1)) ∧
      nearestOK inf areas cells q.dirs q.ns q.ew (lround (sideDist b q.ns q.ew c dir)) dir = true := by
  -- an infected listed cell: positive id, table box = definitional box, every side below DBL_MAX
  have mul_bound : ∀ (k r : Int) (res : Rat), 0 ≤ res → k ≤ r → (r : Rat) * res < (dblMax : Rat) →
      (k : Rat) * res < (dblMax : Rat) := by
    intro k r res h0 hk hr
    have h1 : (k : Rat) ≤ (r : Rat) := by exact_mod_cast hk
    have h2 := Rat.mul_le_mul_of_nonneg_right h1 h0
    grind
  have hcell : ∀ c ∈ cells, inf.at c.1 c.2 ≠ 0 → CellOK q areas c := by
    intro c hc hi
    have ha : areas.at c.1 c.2 ≠ 0 := fun h => hno ⟨c, hc, hi, h⟩
    have hpos : 0 < areas.at c.1 c.2 := by have := hnn c hc; omega
    obtain ⟨b, hb, hsb, g1, g2, g3, g4, g5, g6, g7, g8⟩ := own_area_box areas c (hin c hc) hpos
    refine ⟨ha, b, by rw [hq.table]; exact hb, hsb, ?_⟩
    intro d'
    cases d' with
    | N => exact mul_bound _ areas.rows q.ns hns (by omega) hbn
    | S => exact mul_bound _ areas.rows q.ns hns (by omega) hbn
    | E => exact mul_bound _ areas.cols q.ew hew (by omega) hbe
    | W => exact mul_bound _ areas.cols q.ew hew (by omega) hbe
    | none => exact dblMax_pos
  have hloop := escapeLoop_contained q inf areas hen cells none hcell
  have hlen : step < q.infos.length := by rw [hq.len]; exact hstep
  -- membership in the candidate list, both ways
  have hmem_of : ∀ c' ∈ cells, inf.at c'.1 c'.2 ≠ 0 → ∀ b', specAreaBox areas (areas.at c'.1 c'.2) = some b' →
      ∀ d', q.dirs.enabled d' = true →
      (sideDist b' q.ns q.ew c' d', d') ∈ nearestCandidates inf areas cells q.dirs q.ns q.ew := by
    intro c' hc' hi' b' hb' d' hd'
    unfold nearestCandidates
    refine List.mem_flatMap.mpr ⟨c', ?_, ?_⟩
    · exact List.mem_filter.mpr ⟨hc', by simpa using hi'⟩
    · rw [hb']
      refine List.mem_map.mpr ⟨d', List.mem_filter.mpr ⟨?_, hd'⟩, rfl⟩
      cases d' <;> simp [fourDirs, Dirs.enabled] at hd' ⊢
  have hmem_to : ∀ m ∈ nearestCandidates inf areas cells q.dirs q.ns q.ew,
      ∃ c ∈ cells, inf.at c.1 c.2 ≠ 0 ∧ ∃ b, specAreaBox areas (areas.at c.1 c.2) = some b ∧
        q.dirs.enabled m.2 = true ∧ m = (sideDist b q.ns q.ew c m.2, m.2) := by
    intro m hm
    unfold nearestCandidates at hm
    obtain ⟨c, hc, hmc⟩ := List.mem_flatMap.mp hm
    have hc' := List.mem_filter.mp hc
    have hi : inf.at c.1 c.2 ≠ 0 := by simpa using hc'.2
    obtain ⟨_, b, _, hsb, _⟩ := hcell c hc'.1 hi
    rw [hsb] at hmc
    obtain ⟨d, hd, rfl⟩ := List.mem_map.mp hmc
    exact ⟨c, hc'.1, hi, b, hsb, (List.mem_filter.mp hd).2, rfl⟩
  -- the candidate list is not empty
  obtain ⟨c1, hc1, hi1⟩ := hsome
  obtain ⟨_, b1, _, hsb1, _⟩ := hcell c1 hc1 hi1
  obtain ⟨d1, hd1⟩ := hen
  have hm1 := hmem_of c1 hc1 hi1 b1 hsb1 d1 hd1
  cases hL : nearestCandidates inf areas cells q.dirs q.ns q.ew with
  | nil => rw [hL] at hm1; simp at hm1
  | cons x xs =>
    rw [hL, firstMin_none_cons] at hloop
    obtain ⟨pre, post, hsplit, hpre, hpost⟩ := foldl_better_split xs x
    generalize xs.foldl better x = m at hloop hsplit hpre hpost
    have hmL : m ∈ nearestCandidates inf areas cells q.dirs q.ns q.ew := by
      rw [hL, hsplit]; simp
    obtain ⟨c, hc, hi, b, hsb, hdir, hm⟩ := hmem_to m hmL
    have hm1' : m.1 = sideDist b q.ns q.ew c m.2 := by rw [hm]
    have hmin : ∀ y ∈ nearestCandidates inf areas cells q.dirs q.ns q.ew, m.1 ≤ y.1 := by
      intro y hy
      rw [hL, hsplit] at hy
      rcases List.mem_append.mp hy with h | h
      · exact Rat.le_of_lt (hpre y h)
      · rcases List.mem_cons.mp h with rfl | h
        · exact Rat.le_refl
        · exact hpost y h
    have hle : ∀ c' ∈ cells, inf.at c'.1 c'.2 ≠ 0 → ∀ b', specAreaBox areas (areas.at c'.1 c'.2) = some b' →
        ∀ d', q.dirs.enabled d' = true → sideDist b q.ns q.ew c m.2 ≤ sideDist b' q.ns q.ew c' d' := by
      intro c' hc' hi' b' hb' d' hd'
      rw [← hm1']
      exact hmin _ (hmem_of c' hc' hi' b' hb' d' hd')
    refine ⟨{ q with infos := q.infos.set step (infoOf (some (some m))) }, c, b, m.2, ?_, hc, hi, hsb, hdir, ?_,
      hle, ⟨pre, post, ?_, ?_, ?_⟩, ?_⟩
    · simp only [Quarantine.action, hloop, hlen, if_true]
    · simp only [List.getElem?_set_self hlen, infoOf, hm1']
    · rw [← hm1', ← hsplit]
    · rw [← hm1']; exact hpre
    · rw [← hm1']; exact hpost
    · simp only [nearestOK, Bool.and_eq_true, List.any_eq_true, presentCells,
        List.mem_filter, decide_eq_true_eq]
      refine ⟨hdir, c, ⟨hc, hi⟩, ?_⟩
      rw [hsb]
      simp only [beq_self_eq_true, Bool.true_and, List.all_eq_true, List.mem_filter, decide_eq_true_eq]
      rintro c' ⟨hc', hi'⟩
      obtain ⟨_, b', _, hsb', _⟩ := hcell c' hc' hi'
      rw [hsb']
      simp only [fourDirs, List.all_cons, List.all_nil, Bool.and_true, Bool.and_eq_true,
        Bool.or_eq_true, Bool.not_eq_true', decide_eq_true_eq]
      have key : ∀ d', q.dirs.enabled d' = false ∨
          sideDist b q.ns q.ew c m.2 ≤ sideDist b' q.ns q.ew c' d' := by
        intro d'
        cases hd' : q.dirs.enabled d' with
        | false => exact Or.inl rfl
        | true => exact Or.inr (hle c' hc' hi' b' hsb' d' hd')
      exact ⟨key .N, key .S, key .E, key .W⟩

/-- Non-vacuity with a NON-integer resolution where rounding order matters (the witness of
    finding F27): a 52 x 1 raster, one area; the infected cell in row 26 is 26 cells from the north
    side and 25 cells from the south side; north-south resolution 2/5, sides N and S enabled.
    Exact distances: north 26 x 2/5 = 52/5 = 10.4, south 25 x 2/5 = 10. The report is (10, S). -/
def f27Areas : IRaster := ⟨52, 1, List.replicate 52 1⟩
def f27Inf : IRaster := ⟨52, 1, List.replicate 26 0 ++ [1] ++ List.replicate 25 0⟩
def f27Dirs : Dirs := ⟨true, true, false, false⟩
def f27Q : Quarantine := Quarantine.make f27Areas 1 (2/5) 1 f27Dirs

example : specAreaBox f27Areas 1 = some ⟨0, 51, 0, 0⟩ := by decide +kernel
example : specEscaped f27Inf f27Areas (allCells 52 1) = false := by decide +kernel
example : sideDist ⟨0, 51, 0, 0⟩ (2/5) 1 (26, 0) .N = 52/5 ∧ sideDist ⟨0, 51, 0, 0⟩ (2/5) 1 (26, 0) .S = 10 := by
  decide +kernel
example : nearestCandidates f27Inf f27Areas (allCells 52 1) f27Dirs (2/5) 1 = [(52/5, .N), (10, .S)] := by
  decide +kernel
/-- the current code -/
theorem C18_nearest_witness :
    (f27Q.action (allCells 52 1) f27Inf f27Areas 0).toOption.map (·.infos) = some [⟨false, .val 10, .S⟩] ∧
    nearestOK f27Inf f27Areas (allCells 52 1) f27Dirs (2/5) 1 10 .S = true := by
  decide +kernel

/-- The code BEFORE the fix of finding F27 (`closestDirectionRounded`: running minimum rounded,
    exact candidate compared with it) on the same witness: north is examined first, 10.4 is stored
    as 10, the southern 10.0 is not `< 10`, and (10, N) is reported - a side that is not the
    nearest: the property's predicate is false for the old report. -/
theorem C18_nearest_old_code_fails :
    closestDirectionRounded f27Dirs (2/5) 1 26 0 ⟨0, 51, 0, 0⟩ = (10, .N) ∧
    nearestRounded f27Dirs (2/5) 1 [((26, 0), ⟨0, 51, 0, 0⟩)] none = some (10, .N) ∧
    nearestOK f27Inf f27Areas (allCells 52 1) f27Dirs (2/5) 1 10 .N = false ∧
    closestDirection f27Dirs (2/5) 1 26 0 ⟨0, 51, 0, 0⟩ = (10, .S) := by
  decide +kernel

/-- The second place where the old code compared rounded values: `action` over several infected
    cells. A 1 x 12 raster, one area, east-west resolution 1/4, sides E and W; infected cells in
    columns 5 (west side 5/4, east side 6/4) and 7 (west 7/4, east 4/4 = 1). Each cell's own result
    is right, (1, W) and (1, E) after rounding, but `1 < 1` is false, so the old loop kept (1, W)
    although the cell in column 7 is nearer to the east side (1 < 5/4). -/
theorem C18_nearest_old_code_fails_across_cells :
    nearestRounded ⟨false, false, true, true⟩ 1 (1/4) [((0, 5), ⟨0, 0, 11, 0⟩), ((0, 7), ⟨0, 0, 11, 0⟩)] none
      = some (1, .W) ∧
    nearestOK ⟨1, 12, [0,0,0,0,0,3,0,2,0,0,0,0]⟩ ⟨1, 12, List.replicate 12 1⟩ (allCells 1 12)
      ⟨false, false, true, true⟩ 1 (1/4) 1 .W = false ∧
    nearestOK ⟨1, 12, [0,0,0,0,0,3,0,2,0,0,0,0]⟩ ⟨1, 12, List.replicate 12 1⟩ (allCells 1 12)
      ⟨false, false, true, true⟩ 1 (1/4) 1 .E = true ∧
    (((Quarantine.make ⟨1, 12, List.replicate 12 1⟩ (1/4) 1 1 ⟨false, false, true, true⟩).action (allCells 1 12)
      ⟨1, 12, [0,0,0,0,0,3,0,2,0,0,0,0]⟩ ⟨1, 12, List.replicate 12 1⟩ 0).toOption.map (·.infos))
      = some [⟨false, .val 1, .E⟩] := by
  decide +kernel

/-- Hypotheses of `C18_nearest` on the witness. -/
example : QFrom f27Q f27Areas 1 ∧ 0 ≤ f27Q.ns ∧ 0 ≤ f27Q.ew ∧
    (f27Areas.rows : Rat) * f27Q.ns < (dblMax : Rat) ∧ (f27Areas.cols : Rat) * f27Q.ew < (dblMax : Rat) ∧
    (∃ d, f27Q.dirs.enabled d = true) ∧ (∀ c ∈ allCells 52 1, 0 ≤ f27Areas.at c.1 c.2) :=
  ⟨C18_qfrom_make _ _ _ _ _, by decide +kernel, by decide +kernel, by decide +kernel, by decide +kernel,
   ⟨.S, rfl⟩, by decide +kernel⟩

/-! ## Quarantine escape for ANY area ids (finding F30)

  The property quantifies over every quarantine-area raster; `C18_escape_iff` and `C18_nearest`
  above assume `hnn`: no listed cell has a negative area id. This section
  * weakens `hnn` to the INFECTED listed cells (`C18_escape_iff_infected_nonneg`,
    `C18_nearest_infected_nonneg`: negative ids at cells without infection change nothing, and
    there "area value 0" is "outside every quarantine area" in the general sense), and
  * states the property without any restriction (`C18_escape_full`: a cell whose id is not
    positive, or not the id of any area, lies outside every quarantine area) and REFUTES it for
    the code as it is (`C18_escape_full_fails`): `action` treats only the value 0 as "no area"
    and looks a negative id up with `boundary_id_idx_map[area]`, which inserts the unknown key with
    index 0 - the cell is measured against the first registered area's box, or `boundaries.at(0)`
    throws when no positive id exists.
  `hnn` of the two `_infected_nonneg` theorems is the `_partial` condition; its negation
  (`negativeIdAtInfected`) is the region of the open finding F30 the driver uses. -/

theorem mem_presentCells {inf : IRaster} {cells : List Cell} {c : Cell} :
    c ∈ presentCells inf cells ↔ c ∈ cells ∧ inf.at c.1 c.2 ≠ 0 := by
  simp [presentCells]

theorem presentCells_idem (inf : IRaster) (cells : List Cell) :
    presentCells inf (presentCells inf cells) = presentCells inf cells := by
  simp [presentCells, List.filter_filter]

/-- The loop of `action` skips the cells without infection: it depends on the infected listed
    cells only. -/
theorem escapeLoop_presentCells (q : Quarantine) (inf areas : IRaster) :
    ∀ (cells : List Cell) (acc : Option (Rat × Dir)),
      escapeLoop q inf areas (presentCells inf cells) acc = escapeLoop q inf areas cells acc := by
  intro cells
  induction cells with
  | nil => intro acc; rfl
  | cons c cs ih =>
    intro acc
    by_cases h0 : inf.at c.1 c.2 = 0
    · have hp : presentCells inf (c :: cs) = presentCells inf cs := by simp [presentCells, h0]
      rw [hp, ih]
      simp only [escapeLoop, h0, if_true]
    · have hp : presentCells inf (c :: cs) = c :: presentCells inf cs := by simp [presentCells, h0]
      rw [hp]
      simp only [escapeLoop, h0, if_false]
      split
      · rfl
      · split
        · rfl
        · exact ih _

theorem action_presentCells (q : Quarantine) (cells : List Cell) (inf areas : IRaster) (step : Nat) :
    q.action (presentCells inf cells) inf areas step = q.action cells inf areas step := by
  simp only [Quarantine.action, escapeLoop_presentCells]

/-- `specEscapedFull` spelled out. -/
theorem specEscapedFull_iff (inf areas : IRaster) (cells : List Cell) :
    specEscapedFull inf areas cells = true ↔
      ∃ c ∈ cells, inf.at c.1 c.2 ≠ 0 ∧
        (areas.at c.1 c.2 ≤ 0 ∨ specAreaBox areas (areas.at c.1 c.2) = none) := by
  simp only [specEscapedFull, outsideEveryArea, List.any_eq_true, Bool.or_eq_true, decide_eq_true_eq,
    Option.isNone_iff_eq_none]
  constructor
  · rintro ⟨c, hc, h⟩; exact ⟨c, (mem_presentCells.mp hc).1, (mem_presentCells.mp hc).2, h⟩
  · rintro ⟨c, hc, hi, h⟩; exact ⟨c, mem_presentCells.mpr ⟨hc, hi⟩, h⟩

/-- Where no infected listed cell has a negative id, "outside every quarantine area" is "area
    value 0". -/
theorem specEscapedFull_eq_of_infected_nonneg (areas inf : IRaster) (cells : List Cell)
    (hin : ∀ c ∈ cells, InRange areas.rows areas.cols c)
    (hnn : ∀ c ∈ cells, inf.at c.1 c.2 ≠ 0 → 0 ≤ areas.at c.1 c.2) :
    specEscapedFull inf areas cells = specEscaped inf areas cells := by
  rw [Bool.eq_iff_iff, specEscapedFull_iff]
  simp only [specEscaped, List.any_eq_true, beq_iff_eq]
  constructor
  · rintro ⟨c, hc, hi, h⟩
    refine ⟨c, mem_presentCells.mpr ⟨hc, hi⟩, ?_⟩
    have h0 := hnn c hc hi
    rcases h with h | h
    · omega
    · by_cases hz : areas.at c.1 c.2 = 0
      · exact hz
      · obtain ⟨b, _, hb, _⟩ := own_area_box areas c (hin c hc) (by omega)
        rw [hb] at h; cases h
  · rintro ⟨c, hc, hz⟩
    exact ⟨c, (mem_presentCells.mp hc).1, (mem_presentCells.mp hc).2, Or.inl (by omega)⟩

/-- `C18_escape_iff` with `hnn` required of the INFECTED listed cells only, and with the general
    reading of "outside every quarantine area": escape is reported exactly when an infected listed
    cell has an id that is not positive or is not the id of any area. -/
theorem C18_escape_iff_infected_nonneg (areas inf : IRaster) (N : Nat) (q : Quarantine) (hq : QFrom q areas N)
    (cells : List Cell) (hin : ∀ c ∈ cells, InRange areas.rows areas.cols c)
    (hnn : ∀ c ∈ cells, inf.at c.1 c.2 ≠ 0 → 0 ≤ areas.at c.1 c.2) (step : Nat) (hstep : step < N) :
    ∃ q' info, q.action cells inf areas step = .ok q' ∧ QFrom q' areas N ∧
      (q'.dirs = q.dirs ∧ q'.ns = q.ns ∧ q'.ew = q.ew) ∧
      q'.infos[step]? = some info ∧
      (info.escaped = true ↔ ∃ c ∈ cells, inf.at c.1 c.2 ≠ 0 ∧
          (areas.at c.1 c.2 ≤ 0 ∨ specAreaBox areas (areas.at c.1 c.2) = none)) ∧
      info.escaped = specEscapedFull inf areas cells ∧
      (info.escaped = true ↔ ∃ c ∈ cells, inf.at c.1 c.2 ≠ 0 ∧ areas.at c.1 c.2 = 0) ∧
      info.escaped = specEscaped inf areas cells ∧
      (info.escaped = true → info.dist = .nan ∧ info.dir = .none) ∧
      (∀ j, j ≠ step → q'.infos[j]? = q.infos[j]?) := by
  obtain ⟨q', info, hact, hqf, hpar, hinfo, hiff, hspec, hnan, hrest⟩ :=
    C18_escape_iff areas inf N q hq (presentCells inf cells)
      (fun c hc => hin c (mem_presentCells.mp hc).1)
      (fun c hc => hnn c (mem_presentCells.mp hc).1 (mem_presentCells.mp hc).2) step hstep
  rw [action_presentCells] at hact
  have hspec' : info.escaped = specEscaped inf areas cells := by
    rw [hspec]; unfold specEscaped; rw [presentCells_idem]
  have hfull : info.escaped = specEscapedFull inf areas cells := by
    rw [hspec', specEscapedFull_eq_of_infected_nonneg areas inf cells hin hnn]
  refine ⟨q', info, hact, hqf, hpar, hinfo, ?_, hfull, ?_, hspec', hnan, hrest⟩
  · rw [hfull]; exact specEscapedFull_iff inf areas cells
  · rw [hiff]
    constructor
    · rintro ⟨c, hc, h⟩; exact ⟨c, (mem_presentCells.mp hc).1, h⟩
    · rintro ⟨c, hc, hi, h⟩; exact ⟨c, mem_presentCells.mpr ⟨hc, hi⟩, hi, h⟩

/-- `C18_nearest` with `hnn` required of the INFECTED listed cells only: negative ids at cells
    without infection do not disturb the boxes of the positive ids or the report. -/
theorem C18_nearest_infected_nonneg (areas inf : IRaster) (N : Nat) (q : Quarantine) (hq : QFrom q areas N)
    (hns : 0 ≤ q.ns) (hew : 0 ≤ q.ew)
    (hbn : (areas.rows : Rat) * q.ns < (dblMax : Rat)) (hbe : (areas.cols : Rat) * q.ew < (dblMax : Rat))
    (hen : ∃ d, q.dirs.enabled d = true)
    (cells : List Cell) (hin : ∀ c ∈ cells, InRange areas.rows areas.cols c)
    (hnn : ∀ c ∈ cells, inf.at c.1 c.2 ≠ 0 → 0 ≤ areas.at c.1 c.2) (step : Nat) (hstep : step < N)
    (hno : ¬ ∃ c ∈ cells, inf.at c.1 c.2 ≠ 0 ∧ areas.at c.1 c.2 = 0)
    (hsome : ∃ c ∈ cells, inf.at c.1 c.2 ≠ 0) :
    ∃ q' c b dir, q.action cells inf areas step = .ok q' ∧
      c ∈ cells ∧ inf.at c.1 c.2 ≠ 0 ∧ specAreaBox areas (areas.at c.1 c.2) = some b ∧
      q.dirs.enabled dir = true ∧
      q'.infos[step]? = some ⟨false, .val (lround (sideDist b q.ns q.ew c dir)), dir⟩ ∧
      (∀ c' ∈ cells, inf.at c'.1 c'.2 ≠ 0 → ∀ b', specAreaBox areas (areas.at c'.1 c'.2) = some b' →
          ∀ d', q.dirs.enabled d' = true → sideDist b q.ns q.ew c dir ≤ sideDist b' q.ns q.ew c' d') ∧
      (∃ pre post, nearestCandidates inf areas cells q.dirs q.ns q.ew =
            pre ++ (sideDist b q.ns q.ew c dir, dir) :: post ∧
          (∀ x ∈ pre, sideDist b q.ns q.ew c dir < x.1) ∧
          (∀ y ∈ post, sideDist b q.ns q.ew c dir ≤ y.1)) ∧
      nearestOK inf areas cells q.dirs q.ns q.ew (lround (sideDist b q.ns q.ew c dir)) dir = true := by
  obtain ⟨c0, hc0, hi0⟩ := hsome
  obtain ⟨q', c, b, dir, hact, hc, hi, hsb, hdir, hinfo, hle, ⟨pre, post, hsplit, hpre, hpost⟩, hok⟩ :=
    C18_nearest areas inf N q hq hns hew hbn hbe hen (presentCells inf cells)
      (fun c hc => hin c (mem_presentCells.mp hc).1)
      (fun c hc => hnn c (mem_presentCells.mp hc).1 (mem_presentCells.mp hc).2) step hstep
      (by rintro ⟨c, hc, h⟩; exact hno ⟨c, (mem_presentCells.mp hc).1, h⟩)
      ⟨c0, mem_presentCells.mpr ⟨hc0, hi0⟩, hi0⟩
  rw [action_presentCells] at hact
  refine ⟨q', c, b, dir, hact, (mem_presentCells.mp hc).1, hi, hsb, hdir, hinfo, ?_, ⟨pre, post, ?_, hpre, hpost⟩, ?_⟩
  · intro c' hc' hi'; exact hle c' (mem_presentCells.mpr ⟨hc', hi'⟩) hi'
  · rw [← hsplit]; unfold nearestCandidates; rw [presentCells_idem]
  · rw [← hok]; unfold nearestOK; rw [presentCells_idem]

/-- The property's statement on escape WITHOUT the restriction `hnn`, for any area ids: from any
    reachable state, `action` on the constructor's raster succeeds and reports escape exactly when an
    infected listed cell lies outside every quarantine area - its id is not positive (0, or a
    negative value) or is not the id of any area of the raster. -/
def C18_escape_full : Prop :=
  ∀ (areas inf : IRaster) (N : Nat) (q : Quarantine), QFrom q areas N →
    ∀ (cells : List Cell), (∀ c ∈ cells, InRange areas.rows areas.cols c) →
    ∀ (step : Nat), step < N →
      ∃ q' info, q.action cells inf areas step = .ok q' ∧ q'.infos[step]? = some info ∧
        (info.escaped = true ↔ ∃ c ∈ cells, inf.at c.1 c.2 ≠ 0 ∧
            (areas.at c.1 c.2 ≤ 0 ∨ specAreaBox areas (areas.at c.1 c.2) = none))

/-- Witness (a) of finding F30: a 1 x 5 raster with ids `[-1, -1, 1, 1, 1]` (area 1 = columns
    2..4), the infected cell in column 0 (id -1), sides E and W enabled, resolutions 1. -/
def f30Areas : IRaster := ⟨1, 5, [-1, -1, 1, 1, 1]⟩
def f30Inf : IRaster := ⟨1, 5, [1, 0, 0, 0, 0]⟩
/-- the same area raster, infection inside area 1 (column 3): negative ids at non-infected cells only -/
def f30InfInside : IRaster := ⟨1, 5, [0, 0, 0, 1, 0]⟩
def f30Dirs : Dirs := ⟨false, false, true, true⟩
def f30Q : Quarantine := Quarantine.make f30Areas 1 1 1 f30Dirs
/-- Witness (b): a 2 x 3 raster of -1 only (no positive id), infected cell (1,1), all sides. -/
def f30AreasB : IRaster := ⟨2, 3, [-1, -1, -1, -1, -1, -1]⟩
def f30InfB : IRaster := ⟨2, 3, [0, 0, 0, 0, 1, 0]⟩
def f30QB : Quarantine := Quarantine.make f30AreasB 1 1 1 Dirs.all

/-- What the model (= the code, see the probe notes/probes/f30_negative_area_id.cpp and case 0 of
    h_metric) returns on the witnesses.
    (a) the table holds area 1 only; the lookup of id -1 falls back to entry 0 (the key inserted by
    `boundary_id_idx_map[area]`), so the infected cell in column 0 is measured against the box of
    area 1: east side 4 - 0 = 4, west side 0 - 2 = -2, report (not escaped, -2, W) although the cell
    lies outside every quarantine area;
    (b) the table is empty, `boundaries.at(0)` throws `std::out_of_range`;
    (c) with the infection inside area 1 the negative ids change nothing: (not escaped, 1, E), which
    is the report of a nearest pair. -/
theorem C18_negative_area_id_witness :
    (quarantineBoundary f30Areas = [(1, ⟨0, 0, 4, 2⟩)] ∧
     lookupBox (quarantineBoundary f30Areas) (-1) = some ⟨0, 0, 4, 2⟩ ∧
     (f30Q.action (allCells 1 5) f30Inf f30Areas 0).toOption.map (·.infos) = some [⟨false, .val (-2), .W⟩] ∧
     specEscapedFull f30Inf f30Areas (allCells 1 5) = true ∧
     negativeIdAtInfected f30Inf f30Areas (allCells 1 5) = true) ∧
    (quarantineBoundary f30AreasB = [] ∧
     (match f30QB.action (allCells 2 3) f30InfB f30AreasB 0 with
      | .error e => some e
      | .ok _ => none) = some ErrKind.out_of_range ∧
     specEscapedFull f30InfB f30AreasB (allCells 2 3) = true ∧
     negativeIdAtInfected f30InfB f30AreasB (allCells 2 3) = true) ∧
    ((f30Q.action (allCells 1 5) f30InfInside f30Areas 0).toOption.map (·.infos) = some [⟨false, .val 1, .E⟩] ∧
     specEscapedFull f30InfInside f30Areas (allCells 1 5) = false ∧
     negativeIdAtInfected f30InfInside f30Areas (allCells 1 5) = false ∧
     nearestOK f30InfInside f30Areas (allCells 1 5) f30Dirs 1 1 1 .E = true) := by
  decide +kernel

/-- The unrestricted statement is FALSE for the code as it is (finding F30): on witness (a) the
    infected cell has id -1, so it lies outside every quarantine area, and `action` reports "not
    escaped". -/
theorem C18_escape_full_fails : ¬ C18_escape_full := by
  intro h
  obtain ⟨q', info, hact, hinfo, hiff⟩ := h f30Areas f30Inf 1 f30Q (C18_qfrom_make _ _ _ _ _) (allCells 1 5)
    (fun _ hc => mem_allCells.mp hc) 0 (by decide)
  have hw : (f30Q.action (allCells 1 5) f30Inf f30Areas 0).toOption.map (·.infos) =
      some [⟨false, .val (-2), .W⟩] := by decide +kernel
  rw [hact] at hw
  have hq : q'.infos = [⟨false, .val (-2), .W⟩] := by simpa [Except.toOption] using hw
  rw [hq] at hinfo
  have hi : info = ⟨false, .val (-2), .W⟩ := by simpa using hinfo.symm
  have hex : ∃ c ∈ allCells 1 5, f30Inf.at c.1 c.2 ≠ 0 ∧
      (f30Areas.at c.1 c.2 ≤ 0 ∨ specAreaBox f30Areas (f30Areas.at c.1 c.2) = none) :=
    ⟨(0, 0), by decide, by decide, Or.inl (by decide)⟩
  have := hiff.mpr hex
  rw [hi] at this
  cases this

/-- Hypotheses of the two `_infected_nonneg` theorems on a raster WITH negative ids (witness (c)):
    they are satisfiable beyond the domain of `C18_escape_iff` / `C18_nearest`, whose `hnn` fails
    there. -/
example : QFrom f30Q f30Areas 1 ∧ (∀ c ∈ allCells 1 5, InRange f30Areas.rows f30Areas.cols c) ∧
    (∀ c ∈ allCells 1 5, f30InfInside.at c.1 c.2 ≠ 0 → 0 ≤ f30Areas.at c.1 c.2) ∧
    ¬ (∀ c ∈ allCells 1 5, 0 ≤ f30Areas.at c.1 c.2) ∧
    (¬ ∃ c ∈ allCells 1 5, f30InfInside.at c.1 c.2 ≠ 0 ∧ f30Areas.at c.1 c.2 = 0) ∧
    (∃ c ∈ allCells 1 5, f30InfInside.at c.1 c.2 ≠ 0) :=
  ⟨C18_qfrom_make _ _ _ _ _, fun _ hc => mem_allCells.mp hc, by decide, by decide, by decide, by decide⟩

/-! ## Sum and area -/

/-- `sum_of_infected` adds the listed cells modulo 2^32 and `area_of_infected` is the number of
    listed cells with a positive value times `ew_res * ns_res`. For the suitable-cell list the
    library builds (the raster's cells in row-major order, filtered by a host predicate) that
    misses no non-zero cell, these are the sum over the whole raster (if it is in the `unsigned`
    range) and the count of infected raster cells times the cell area. -/
theorem C18_sum_area (inf : IRaster) (rows cols : Int) (ew ns : Rat) (suit : Cell → Bool)
    (hs : ∀ c ∈ allCells rows cols, suit c = false → inf.at c.1 c.2 = 0) :
    (∀ cells, sumOfInfected inf cells = sumL (cells.map fun c => inf.at c.1 c.2) % 4294967296) ∧
    (∀ cells, areaOfInfected inf ew ns cells = ((cells.countP fun c => inf.at c.1 c.2 > 0 : Nat) : Rat) * ew * ns) ∧
    (0 ≤ rasterSum inf rows cols → rasterSum inf rows cols < 4294967296 →
      sumOfInfected inf ((allCells rows cols).filter suit) = rasterSum inf rows cols) ∧
    areaOfInfected inf ew ns ((allCells rows cols).filter suit) = (rasterCount inf rows cols : Rat) * ew * ns := by
  refine ⟨fun _ => rfl, fun _ => rfl, ?_, ?_⟩
  · intro h0 h1
    unfold sumOfInfected
    rw [sumL_filter_of_zero (fun c => inf.at c.1 c.2) suit _ hs]
    unfold rasterSum at h0 h1 ⊢
    omega
  · unfold areaOfInfected infectedCount rasterCount
    rw [countP_filter_of_false (fun c => decide (inf.at c.1 c.2 > 0)) suit]
    intro c hc hsu
    have := hs c hc hsu
    simp [this]

/-- For a raster whose buffer has `rows * cols` entries, the sum / count over all index pairs is
    the sum / count over the buffer. -/
theorem C18_raster_totals (r : IRaster) (hc : 0 ≤ r.cols)
    (hlen : r.data.length = r.rows.toNat * r.cols.toNat) :
    rasterSum r r.rows r.cols = sumL r.data ∧
    rasterCount r r.rows r.cols = r.data.countP (· > 0) := by
  have h := map_at_allCells r hc hlen
  constructor
  · unfold rasterSum; rw [h]
  · unfold rasterCount
    rw [← h, List.countP_map]; rfl

example : rasterSum exInf63 6 3 = 7 ∧ rasterCount exInf63 6 3 = 2 := by decide
example : sumOfInfected exInf63 ((allCells 6 3).filter fun c => exInf63.at c.1 c.2 > 0) = 7 := by decide

/-! ## Aggregation over runs -/

/-- `quarantine_escape_probability` is the plain fraction of runs whose record says "escaped". -/
theorem C18_escape_probability (runs : List Quarantine) (step : Nat) (hne : runs ≠ [])
    (hall : ∀ q ∈ runs, step < q.infos.length) :
    escapeProbability runs step =
      .ok (fractionTrue (runs.map fun q => (q.infos.getD step default).escaped)) ∧
    escapeProbability runs step =
      .ok (some (((runs.countP fun q => (q.infos.getD step default).escaped : Nat) : Rat) / (runs.length : Rat))) := by
  have hlen : runs.length ≠ 0 := by
    cases runs with
    | nil => exact absurd rfl hne
    | cons _ _ => simp
  have hcount : (runs.map fun q => q.infos.getD step default).countP (·.escaped) =
      runs.countP fun q => (q.infos.getD step default).escaped := by
    rw [List.countP_map]; rfl
  constructor
  · unfold escapeProbability fractionTrue
    rw [collectInfos_ok step runs hall]
    simp only [hlen, if_false, List.length_map]
    rw [countP_map_escaped, List.map_map]
    rfl
  · unfold escapeProbability
    rw [collectInfos_ok step runs hall]
    simp only [hlen, if_false, hcount]

/-- Each component of `average_spread_rate` is the mean over the runs whose rate is defined,
    and undefined exactly when no run has a defined rate. -/
theorem C18_average_rate (runs : List SpreadRate) (step : Nat) :
    (averageSpreadRate runs step).n = meanDefined (runs.map fun r => (r.stepRate step).n) ∧
    (averageSpreadRate runs step).s = meanDefined (runs.map fun r => (r.stepRate step).s) ∧
    (averageSpreadRate runs step).e = meanDefined (runs.map fun r => (r.stepRate step).e) ∧
    (averageSpreadRate runs step).w = meanDefined (runs.map fun r => (r.stepRate step).w) ∧
    (∀ l : List (Option Rat), meanDefined l = none ↔ ∀ x ∈ l, x = none) ∧
    (∀ l : List (Option Rat), averageOf l = meanDefined l) := by
  refine ⟨averageOf_eq_meanDefined _, averageOf_eq_meanDefined _, averageOf_eq_meanDefined _,
    averageOf_eq_meanDefined _, ?_, averageOf_eq_meanDefined⟩
  intro l
  unfold meanDefined
  constructor
  · intro h x hx
    cases x with
    | none => rfl
    | some v =>
      have hm : v ∈ l.filterMap id := List.mem_filterMap.mpr ⟨some v, hx, rfl⟩
      have : (l.filterMap id).length ≠ 0 := by
        intro h0; rw [List.length_eq_zero_iff] at h0; rw [h0] at hm; simp at hm
      simp [this] at h
  · intro h
    have : l.filterMap id = [] := by
      rw [List.filterMap_eq_nil_iff]
      intro x hx; rw [h x hx]; rfl
    simp [this]

example : fractionTrue [true, false, false] = some (((1 : Nat) : Rat) / ((3 : Nat) : Rat)) := rfl
example : meanDefined [some 10, none, some 20] = some (sumR [10, 20] / ((2 : Nat) : Rat)) := rfl

end Pops
