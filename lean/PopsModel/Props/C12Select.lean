/-
  C12, cell selection: the lethal-temperature action changes exactly the cells that are in the
  suitable-cell list AND colder than the threshold (`C12_lethal_selection`); the survival-rate
  action changes exactly the cells of the suitable-cell list whose rate is below one
  (`C12_survival_selection`). Both are statements about the generator the model step runs
  (`actionGen inp step .lethal` / `.survival`), on any landscape.

  Hypothesis of both: the flat indices of the suitable-cell list are duplicate-free. It follows from
  "duplicate-free list of cells inside the raster" (`c12sel_nodup_idx_of_inside`) and it is necessary
  for the survival rate (`c12sel_survival_dup_counterexample`).
-/
import PopsModel.Model.RunStep
import PopsModel.Props.C12
import PopsModel.Lemmas.HostMech
import PopsModel.Lemmas.OffSeason
namespace Pops

/-! ### a history of cell operations at pairwise different cells -/

/-- Running total cell operations at pairwise different flat indices: the run succeeds, keeps the
    length, applies each operation to the cell it names and leaves every other cell alone. -/
theorem c12sel_runOps_at (L : List (Nat × CellOp)) (hnd : (L.map (·.1)).Nodup)
    (htot : ∀ p ∈ L, ∀ c, ∃ c', p.2.apply c = .ok c') (l : Land) :
    ∃ l', runOps (L.map fun p => LandOp.at p.1 p.2) l = .ok l' ∧ l'.length = l.length ∧
      (∀ p ∈ L, ∀ c, l[p.1]? = some c → ∃ c', p.2.apply c = .ok c' ∧ l'[p.1]? = some c') ∧
      (∀ k, k ∉ L.map (·.1) → l'[k]? = l[k]?) := by
  induction L generalizing l with
  | nil => exact ⟨l, rfl, rfl, fun p hp => absurd hp List.not_mem_nil, fun _ _ => rfl⟩
  | cons p rest ih =>
    rw [List.map_cons, List.nodup_cons] at hnd
    obtain ⟨hp, hnd'⟩ := hnd
    have htot' : ∀ q ∈ rest, ∀ c, ∃ c', q.2.apply c = .ok c' :=
      fun q hq => htot q (List.mem_cons_of_mem _ hq)
    cases hl : l[p.1]? with
    | none =>
      obtain ⟨l', hrun, hlen, hin, hout⟩ := ih hnd' htot' l
      refine ⟨l', ?_, hlen, ?_, ?_⟩
      · simp only [List.map_cons, runOps, LandOp.apply, hl]
        exact hrun
      · intro q hq c hc
        rcases List.mem_cons.mp hq with rfl | hq
        · rw [hl] at hc; cases hc
        · exact hin q hq c hc
      · intro k hk
        exact hout k (fun h => hk (List.mem_cons_of_mem _ h))
    | some c0 =>
      obtain ⟨c0', hc0'⟩ := htot p (List.mem_cons_self ..) c0
      obtain ⟨l', hrun, hlen, hin, hout⟩ := ih hnd' htot' (l.set p.1 c0')
      have hlt : p.1 < l.length := by
        rcases Nat.lt_or_ge p.1 l.length with h | h
        · exact h
        · rw [List.getElem?_eq_none h] at hl; cases hl
      refine ⟨l', ?_, ?_, ?_, ?_⟩
      · simp only [List.map_cons, runOps, LandOp.apply, hl, hc0', Except.map]
        exact hrun
      · rw [hlen, List.length_set]
      · intro q hq c hc
        rcases List.mem_cons.mp hq with rfl | hq
        · rw [hl] at hc
          injection hc with hc
          subst hc
          refine ⟨c0', hc0', ?_⟩
          rw [hout _ hp, List.getElem?_set_self hlt]
        · have hne : p.1 ≠ q.1 := fun h => hp (h ▸ List.mem_map.mpr ⟨q, hq, rfl⟩)
          refine hin q hq c ?_
          rw [List.getElem?_set_ne hne]
          exact hc
      · intro k hk
        have hne : p.1 ≠ k := fun h => hk (by rw [List.map_cons, ← h]; exact List.mem_cons_self ..)
        rw [hout k (fun h => hk (List.mem_cons_of_mem _ h)), List.getElem?_set_ne hne]

/-! ### the operations of `cellOpsOver` as (flat index, operation) pairs -/

/-- The (flat index, operation) pairs behind `cellOpsOver`. -/
def c12sel_pairs (inp : StepInputs) (f : Nat → Nat → Option CellOp) : List (Nat × CellOp) :=
  (List.zip (List.range inp.suit.length) inp.suit).filterMap fun x =>
    (f x.1 (inp.g.idx x.2.1 x.2.2)).map fun op => (inp.g.idx x.2.1 x.2.2, op)

theorem c12sel_cellOpsOver_eq (inp : StepInputs) (f : Nat → Nat → Option CellOp) :
    cellOpsOver inp f = (c12sel_pairs inp f).map fun p => LandOp.at p.1 p.2 := by
  unfold cellOpsOver c12sel_pairs
  rw [List.map_filterMap]
  congr 1
  funext x
  obtain ⟨pos, rc⟩ := x
  show Option.map (LandOp.at (inp.g.idx rc.1 rc.2)) (f pos (inp.g.idx rc.1 rc.2)) = _
  rw [Option.map_map]
  rfl

theorem c12sel_mem_zip_range {α : Type} (suit : List α) (pos : Nat) (rc : α) :
    (pos, rc) ∈ List.zip (List.range suit.length) suit ↔ suit[pos]? = some rc := by
  rw [List.mem_iff_getElem?]
  constructor
  · rintro ⟨n, hn⟩
    rw [List.getElem?_zip_eq_some] at hn
    obtain ⟨h1, h2⟩ := hn
    have hlt : n < suit.length := by
      rcases Nat.lt_or_ge n suit.length with h' | h'
      · exact h'
      · rw [List.getElem?_eq_none h'] at h2; cases h2
    rw [List.getElem?_range hlt] at h1
    injection h1 with h1
    simp only at h1 h2
    subst h1
    exact h2
  · intro h
    refine ⟨pos, ?_⟩
    rw [List.getElem?_zip_eq_some]
    have hlt : pos < suit.length := by
      rcases Nat.lt_or_ge pos suit.length with h' | h'
      · exact h'
      · rw [List.getElem?_eq_none h'] at h; cases h
    exact ⟨List.getElem?_range hlt, h⟩

theorem c12sel_mem_pairs {inp : StepInputs} {f : Nat → Nat → Option CellOp} {p : Nat × CellOp} :
    p ∈ c12sel_pairs inp f ↔
      ∃ (pos : Nat) (rc : Int × Int), inp.suit[pos]? = some rc ∧ inp.g.idx rc.1 rc.2 = p.1 ∧ f pos p.1 = some p.2 := by
  unfold c12sel_pairs
  rw [List.mem_filterMap]
  constructor
  · rintro ⟨⟨pos, rc⟩, hz, h⟩
    rw [c12sel_mem_zip_range] at hz
    rw [Option.map_eq_some_iff] at h
    obtain ⟨o, ho, rfl⟩ := h
    exact ⟨pos, rc, hz, rfl, ho⟩
  · rintro ⟨pos, rc, hz, hk, ho⟩
    refine ⟨(pos, rc), (c12sel_mem_zip_range _ _ _).mpr hz, ?_⟩
    obtain ⟨k, o⟩ := p
    simp only at hk ho
    subst hk
    simp only [ho, Option.map_some]

theorem c12sel_filterMap_sublist {α β : Type} (g : α → Option β) (h : α → β)
    (hg : ∀ x y, g x = some y → y = h x) (Z : List α) : (Z.filterMap g).Sublist (Z.map h) := by
  induction Z with
  | nil => exact List.Sublist.slnil
  | cons x xs ih =>
    rw [List.map_cons]
    cases hx : g x with
    | none => rw [List.filterMap_cons_none hx]; exact ih.cons _
    | some y => rw [List.filterMap_cons_some hx, hg x y hx]; exact ih.cons_cons _

theorem c12sel_pairs_idx_sublist (inp : StepInputs) (f : Nat → Nat → Option CellOp) :
    ((c12sel_pairs inp f).map (·.1)).Sublist (inp.suit.map fun rc => inp.g.idx rc.1 rc.2) := by
  have hs : inp.suit.map (fun rc => inp.g.idx rc.1 rc.2) =
      (List.zip (List.range inp.suit.length) inp.suit).map fun x => inp.g.idx x.2.1 x.2.2 := by
    have h2 : ((List.zip (List.range inp.suit.length) inp.suit).map (·.2)) = inp.suit :=
      List.map_snd_zip (by rw [List.length_range]; exact Nat.le_refl _)
    conv => lhs; rw [← h2]
    rw [List.map_map]
    rfl
  rw [hs]
  unfold c12sel_pairs
  rw [List.map_filterMap]
  apply c12sel_filterMap_sublist
  intro x y hxy
  cases hf : f x.1 (inp.g.idx x.2.1 x.2.2) with
  | none => rw [hf] at hxy; cases hxy
  | some o => rw [hf] at hxy; injection hxy with hxy; exact hxy.symm

/-- Membership in the flat-index list of the suitable cells, by position. -/
theorem c12sel_mem_suit_idx (inp : StepInputs) (k : Nat) :
    k ∈ (inp.suit.map fun rc => inp.g.idx rc.1 rc.2) ↔
      ∃ (pos : Nat) (rc : Int × Int), inp.suit[pos]? = some rc ∧ inp.g.idx rc.1 rc.2 = k := by
  rw [List.mem_map]
  constructor
  · rintro ⟨rc, hrc, hk⟩
    obtain ⟨pos, hpos⟩ := List.mem_iff_getElem?.mp hrc
    exact ⟨pos, rc, hpos, hk⟩
  · rintro ⟨pos, rc, hpos, hk⟩
    exact ⟨rc, List.mem_iff_getElem?.mpr ⟨pos, hpos⟩, hk⟩

/-- `cellOpsOver` with total operations over duplicate-free flat indices, on any landscape. -/
theorem c12sel_cellOpsOver_run (inp : StepInputs) (f : Nat → Nat → Option CellOp)
    (hnd : (inp.suit.map fun rc => inp.g.idx rc.1 rc.2).Nodup)
    (htot : ∀ pos k o, f pos k = some o → ∀ c, ∃ c', o.apply c = .ok c') (l : Land) :
    ∃ l', runOps (cellOpsOver inp f) l = .ok l' ∧ l'.length = l.length ∧
      (∀ pos rc o c, inp.suit[pos]? = some rc → f pos (inp.g.idx rc.1 rc.2) = some o →
        l[inp.g.idx rc.1 rc.2]? = some c →
        ∃ c', o.apply c = .ok c' ∧ l'[inp.g.idx rc.1 rc.2]? = some c') ∧
      (∀ k, (∀ pos rc, inp.suit[pos]? = some rc → inp.g.idx rc.1 rc.2 = k → f pos k = none) →
        l'[k]? = l[k]?) := by
  have hnd' : ((c12sel_pairs inp f).map (·.1)).Nodup := (c12sel_pairs_idx_sublist inp f).nodup hnd
  have htot' : ∀ p ∈ c12sel_pairs inp f, ∀ c, ∃ c', p.2.apply c = .ok c' := by
    intro p hp
    obtain ⟨pos, rc, _, _, ho⟩ := c12sel_mem_pairs.mp hp
    exact htot pos p.1 p.2 ho
  obtain ⟨l', hrun, hlen, hin, hout⟩ := c12sel_runOps_at _ hnd' htot' l
  refine ⟨l', ?_, hlen, ?_, ?_⟩
  · rw [c12sel_cellOpsOver_eq]; exact hrun
  · intro pos rc o c hpos ho hc
    exact hin (inp.g.idx rc.1 rc.2, o) (c12sel_mem_pairs.mpr ⟨pos, rc, hpos, rfl, ho⟩) c hc
  · intro k hk
    apply hout
    intro hmem
    obtain ⟨p, hp, rfl⟩ := List.mem_map.mp hmem
    obtain ⟨pos, rc, hpos, hidx, ho⟩ := c12sel_mem_pairs.mp hp
    rw [hk pos rc hpos hidx] at ho
    cases ho

theorem c12sel_runGens_single (gen : OpGen) (l : Land) : runGens [gen] l = runOps (gen l) l := by
  simp only [runGens]
  cases runOps (gen l) l <;> rfl

/-! ### the user-facing form of the hypothesis -/

theorem c12sel_idx_inj (g : Grid) (r c r' c' : Int) (h : g.isOutside r c = false)
    (h' : g.isOutside r' c' = false) (he : g.idx r c = g.idx r' c') : r = r' ∧ c = c' := by
  simp only [Grid.isOutside, Bool.or_eq_false_iff, decide_eq_false_iff_not, Int.not_lt,
    ge_iff_le, Int.not_le] at h h'
  obtain ⟨⟨⟨hr0, _⟩, hc0⟩, hc1⟩ := h
  obtain ⟨⟨⟨hr0', _⟩, hc0'⟩, hc1'⟩ := h'
  have hcols : 0 < g.cols := by omega
  have hm : 0 ≤ r * g.cols := Int.mul_nonneg hr0 (by omega)
  have hm' : 0 ≤ r' * g.cols := Int.mul_nonneg hr0' (by omega)
  have hz : r * g.cols + c = r' * g.cols + c' := by
    unfold Grid.idx at he
    omega
  have hmod : (r * g.cols + c) % g.cols = (r' * g.cols + c') % g.cols := by rw [hz]
  rw [Int.add_comm (r * g.cols), Int.add_comm (r' * g.cols), Int.add_mul_emod_self_right,
    Int.add_mul_emod_self_right, Int.emod_eq_of_lt hc0 hc1, Int.emod_eq_of_lt hc0' hc1'] at hmod
  subst hmod
  have hmul : r * g.cols = r' * g.cols := by omega
  exact ⟨Int.eq_of_mul_eq_mul_right (by omega) hmul, rfl⟩

/-- A duplicate-free list of cells inside the raster has duplicate-free flat indices. -/
theorem c12sel_nodup_idx_of_inside (g : Grid) (suit : List (Int × Int)) (hnd : suit.Nodup)
    (hin : ∀ rc ∈ suit, g.isOutside rc.1 rc.2 = false) :
    (suit.map fun rc => g.idx rc.1 rc.2).Nodup := by
  induction suit with
  | nil => exact List.nodup_nil
  | cons rc rest ih =>
    rw [List.nodup_cons] at hnd
    rw [List.map_cons, List.nodup_cons]
    refine ⟨?_, ih hnd.2 (fun x hx => hin x (List.mem_cons_of_mem _ hx))⟩
    intro hmem
    obtain ⟨rc', hrc', he⟩ := List.mem_map.mp hmem
    obtain ⟨h1, h2⟩ := c12sel_idx_inj g rc'.1 rc'.2 rc.1 rc.2
      (hin rc' (List.mem_cons_of_mem _ hrc')) (hin rc (List.mem_cons_self ..)) he
    have : rc' = rc := Prod.ext h1 h2
    exact hnd.1 (this ▸ hrc')

/-! ### lethal temperature: exactly the suitable cells colder than the threshold -/

/-- C12, lethal temperature on a landscape. With duplicate-free flat indices of the suitable cells
    the action never fails, keeps the raster size, and for every cell `k` of the landscape:
    (a) if `k` is the flat index of the suitable cell at position `pos` and its temperature is below
        the threshold, the cell becomes `removeAllInfected` with the draw of position `pos`, which
        satisfies `lethalSpec true` under the hypotheses of `C12_lethal`;
    (b) otherwise - `k` is not a suitable index, or its temperature is not below the threshold -
        the cell is unchanged (`lethalSpec false`).
    (a) and (b) cover every `k` (`c12sel_mem_suit_idx`). -/
theorem C12_lethal_selection (inp : StepInputs) (step : Nat) (l : Land)
    (hnd : (inp.suit.map fun rc => inp.g.idx rc.1 rc.2).Nodup) :
    ∃ l', runGens [actionGen inp step .lethal] l = .ok l' ∧ l'.length = l.length ∧
      ∀ (k : Nat) (c : Cell), l[k]? = some c →
        (∀ (pos : Nat) (rc : Int × Int), inp.suit[pos]? = some rc → inp.g.idx rc.1 rc.2 = k →
          inp.temperatures[k]! < inp.lethalThreshold →
          l'[k]? = some (c.removeAllInfected (inp.lethalDraws.getD pos [])) ∧
          (c.nonNeg = true → c.mortOK = true →
            ValidDraw c.mort c.i (inp.lethalDraws.getD pos []) →
            lethalSpec true c (c.removeAllInfected (inp.lethalDraws.getD pos [])) = true)) ∧
        (¬ (k ∈ (inp.suit.map fun rc => inp.g.idx rc.1 rc.2) ∧
              inp.temperatures[k]! < inp.lethalThreshold) →
          l'[k]? = some c ∧ lethalSpec false c c = true) := by
  obtain ⟨l', hrun, hlen, hin, hout⟩ := c12sel_cellOpsOver_run inp
    (fun pos k => if inp.temperatures[k]! < inp.lethalThreshold
      then some (.lethal (inp.lethalDraws.getD pos [])) else none) hnd
    (by
      intro pos k o ho c
      split at ho
      · injection ho with ho; subst ho; exact ⟨_, rfl⟩
      · cases ho) l
  refine ⟨l', ?_, hlen, ?_⟩
  · rw [c12sel_runGens_single]; exact hrun
  · intro k c hc
    refine ⟨?_, ?_⟩
    · intro pos rc hpos hk hcold
      subst hk
      obtain ⟨c', hc', hl'⟩ := hin pos rc _ c hpos (if_pos hcold) hc
      simp only [CellOp.apply, Except.ok.injEq] at hc'
      subst hc'
      exact ⟨hl', fun hn hm hd => (C12_lethal c _ hn hm hd).1⟩
    · intro hnot
      refine ⟨?_, ?_⟩
      · rw [hout k ?_]
        · exact hc
        · intro pos rc hpos hk
          by_cases hcold : inp.temperatures[k]! < inp.lethalThreshold
          · exact absurd ⟨(c12sel_mem_suit_idx inp k).mpr ⟨pos, rc, hpos, hk⟩, hcold⟩ hnot
          · exact if_neg hcold
      · simp only [lethalSpec, Bool.false_eq_true, if_false, beq_self_eq_true]

/-- "... and of no other cell": a cell the lethal-temperature action changed is a suitable cell
    colder than the threshold. -/
theorem C12_lethal_selection_only_if (inp : StepInputs) (step : Nat) (l l' : Land)
    (hnd : (inp.suit.map fun rc => inp.g.idx rc.1 rc.2).Nodup)
    (hrun : runGens [actionGen inp step .lethal] l = .ok l') (k : Nat) (c c' : Cell)
    (hc : l[k]? = some c) (hc' : l'[k]? = some c') (hne : c' ≠ c) :
    k ∈ (inp.suit.map fun rc => inp.g.idx rc.1 rc.2) ∧
      inp.temperatures[k]! < inp.lethalThreshold := by
  obtain ⟨m, hm, _, hsel⟩ := C12_lethal_selection inp step l hnd
  rw [hrun] at hm
  injection hm with hm
  subst hm
  apply Decidable.byContradiction
  intro hnot
  have h := ((hsel k c hc).2 hnot).1
  rw [hc'] at h
  injection h with h
  exact hne h

/-! #### instance: 2 x 2 raster, suitable cells (1,0) and (0,0) in that order (flat indices 2, 0);
    cell 0 is cold with 3 infected in cohorts [1,2], cell 2 is warm, cells 1 and 3 are not in the
    list (cell 1 is cold and infected: it must stay) -/

def c12selInpL : StepInputs :=
  { g := ⟨2, 2⟩, mt := .si, latency := 0, suit := [(1, 0), (0, 0)], lethalThreshold := 0,
    temperatures := [-5, -5, 3, -5], lethalDraws := [[], [1, 2]], survivalRates := [],
    survivalDrawsI := [], survivalDrawsE := [], landings := [], stochasticEst := false, pEst := 0,
    overThreshold := 0, overLeaving := 0, overTargets := [], moves := [], treatEvents := [],
    mortalityRate := 0, mortalityLag := 0 }

def c12selLandL : Land :=
  [⟨5, [1], 3, 0, 1, [1, 2], 0, 9⟩, ⟨2, [0], 2, 0, 0, [2, 0], 0, 4⟩,
   ⟨1, [0], 4, 0, 0, [1, 3], 0, 5⟩, ⟨0, [0], 0, 0, 0, [0, 0], 0, 0⟩]

theorem c12selInpL_nodup :
    (c12selInpL.suit.map fun rc => c12selInpL.g.idx rc.1 rc.2).Nodup :=
  c12sel_nodup_idx_of_inside _ _ (by decide) (by decide)

/-- The theorem applied: cell 0 (position 1 of the list, cold) loses its 3 infected, cell 2
    (position 0, warm) and the cells outside the list (1: cold and infected, 3) are unchanged. -/
theorem c12sel_lethal_example :
    ∃ l', runGens [actionGen c12selInpL 0 .lethal] c12selLandL = .ok l' ∧ l'.length = 4 ∧
      l'[0]? = some ⟨8, [1], 0, 0, 1, [0, 0], 0, 9⟩ ∧
      lethalSpec true ⟨5, [1], 3, 0, 1, [1, 2], 0, 9⟩ ⟨8, [1], 0, 0, 1, [0, 0], 0, 9⟩ = true ∧
      l'[1]? = some ⟨2, [0], 2, 0, 0, [2, 0], 0, 4⟩ ∧
      l'[2]? = some ⟨1, [0], 4, 0, 0, [1, 3], 0, 5⟩ ∧
      l'[3]? = some ⟨0, [0], 0, 0, 0, [0, 0], 0, 0⟩ := by
  obtain ⟨l', hrun, hlen, hsel⟩ := C12_lethal_selection c12selInpL 0 c12selLandL c12selInpL_nodup
  have h0 := (hsel 0 ⟨5, [1], 3, 0, 1, [1, 2], 0, 9⟩ rfl).1 1 (0, 0) rfl (by decide)
    (by decide +kernel)
  have h1 := (hsel 1 ⟨2, [0], 2, 0, 0, [2, 0], 0, 4⟩ rfl).2 (by decide +kernel)
  have h2 := (hsel 2 ⟨1, [0], 4, 0, 0, [1, 3], 0, 5⟩ rfl).2 (by decide +kernel)
  have h3 := (hsel 3 ⟨0, [0], 0, 0, 0, [0, 0], 0, 0⟩ rfl).2 (by decide +kernel)
  exact ⟨l', hrun, hlen, h0.1,
    h0.2 (by decide) (by decide) (by unfold ValidDraw; decide +kernel), h1.1, h2.1, h3.1⟩

/-- Cross-check by direct evaluation of the generator. -/
example : runGens [actionGen c12selInpL 0 .lethal] c12selLandL =
    .ok [⟨8, [1], 0, 0, 1, [0, 0], 0, 9⟩, ⟨2, [0], 2, 0, 0, [2, 0], 0, 4⟩,
         ⟨1, [0], 4, 0, 0, [1, 3], 0, 5⟩, ⟨0, [0], 0, 0, 0, [0, 0], 0, 0⟩] :=
  eq_ok_of_runYields (by decide +kernel)

/-! ### survival rate: exactly the suitable cells whose rate is below one -/

/-- C12, survival rate on a landscape. With duplicate-free flat indices of the suitable cells the
    action never fails, keeps the raster size, and for every cell `k` of the landscape:
    (a) if `k` is the flat index of the suitable cell at position `pos`, then with
        `rate = survivalRates[k]` the cell becomes `removeByRatio rate` (draws of position `pos`)
        when `rate < 1` and stays as it is otherwise, and this satisfies `survivalSpec rate`
        (round (rate x count) of the infected and of the exposed stay);
    (b) a cell that is not in the list, or whose rate is not below one, is unchanged. -/
theorem C12_survival_selection (inp : StepInputs) (step : Nat) (l : Land)
    (hnd : (inp.suit.map fun rc => inp.g.idx rc.1 rc.2).Nodup) :
    ∃ l', runGens [actionGen inp step .survival] l = .ok l' ∧ l'.length = l.length ∧
      ∀ (k : Nat) (c : Cell), l[k]? = some c →
        (∀ (pos : Nat) (rc : Int × Int), inp.suit[pos]? = some rc → inp.g.idx rc.1 rc.2 = k →
          l'[k]? = some (if inp.survivalRates[k]! < 1 then
              c.removeByRatio inp.survivalRates[k]! (inp.survivalDrawsI.getD pos [])
                (inp.survivalDrawsE.getD pos [])
            else c) ∧
          survivalSpec inp.survivalRates[k]! c (if inp.survivalRates[k]! < 1 then
              c.removeByRatio inp.survivalRates[k]! (inp.survivalDrawsI.getD pos [])
                (inp.survivalDrawsE.getD pos [])
            else c) = true) ∧
        (¬ (k ∈ (inp.suit.map fun rc => inp.g.idx rc.1 rc.2) ∧ inp.survivalRates[k]! < 1) →
          l'[k]? = some c) := by
  obtain ⟨l', hrun, hlen, hin, hout⟩ := c12sel_cellOpsOver_run inp
    (fun pos k => some (.survival inp.survivalRates[k]! (inp.survivalDrawsI.getD pos [])
      (inp.survivalDrawsE.getD pos []))) hnd
    (by
      intro pos k o ho c
      injection ho with ho; subst ho; exact ⟨_, rfl⟩) l
  have ha : ∀ (k : Nat) (c : Cell), l[k]? = some c →
      ∀ (pos : Nat) (rc : Int × Int), inp.suit[pos]? = some rc → inp.g.idx rc.1 rc.2 = k →
        l'[k]? = some (if inp.survivalRates[k]! < 1 then
              c.removeByRatio inp.survivalRates[k]! (inp.survivalDrawsI.getD pos [])
                (inp.survivalDrawsE.getD pos [])
            else c) ∧
          survivalSpec inp.survivalRates[k]! c (if inp.survivalRates[k]! < 1 then
              c.removeByRatio inp.survivalRates[k]! (inp.survivalDrawsI.getD pos [])
                (inp.survivalDrawsE.getD pos [])
            else c) = true := by
    intro k c hc pos rc hpos hk
    subst hk
    obtain ⟨c', hc', hl'⟩ := hin pos rc _ c hpos rfl hc
    have hspec := mech_C12_survival c _ _ _ c' hc'
    simp only [CellOp.apply, Except.ok.injEq] at hc'
    subst hc'
    exact ⟨hl', hspec⟩
  refine ⟨l', ?_, hlen, ?_⟩
  · rw [c12sel_runGens_single]; exact hrun
  · intro k c hc
    refine ⟨ha k c hc, ?_⟩
    intro hnot
    by_cases hmem : k ∈ (inp.suit.map fun rc => inp.g.idx rc.1 rc.2)
    · obtain ⟨pos, rc, hpos, hk⟩ := (c12sel_mem_suit_idx inp k).mp hmem
      have hrate : ¬ inp.survivalRates[k]! < 1 := fun h => hnot ⟨hmem, h⟩
      have h := (ha k c hc pos rc hpos hk).1
      rw [if_neg hrate] at h
      exact h
    · rw [hout k ?_]
      · exact hc
      · intro pos rc hpos hk
        exact absurd ((c12sel_mem_suit_idx inp k).mpr ⟨pos, rc, hpos, hk⟩) hmem

/-- A cell the survival-rate action changed is a suitable cell whose rate is below one. -/
theorem C12_survival_selection_only_if (inp : StepInputs) (step : Nat) (l l' : Land)
    (hnd : (inp.suit.map fun rc => inp.g.idx rc.1 rc.2).Nodup)
    (hrun : runGens [actionGen inp step .survival] l = .ok l') (k : Nat) (c c' : Cell)
    (hc : l[k]? = some c) (hc' : l'[k]? = some c') (hne : c' ≠ c) :
    k ∈ (inp.suit.map fun rc => inp.g.idx rc.1 rc.2) ∧ inp.survivalRates[k]! < 1 := by
  obtain ⟨m, hm, _, hsel⟩ := C12_survival_selection inp step l hnd
  rw [hrun] at hm
  injection hm with hm
  subst hm
  apply Decidable.byContradiction
  intro hnot
  have h := (hsel k c hc).2 hnot
  rw [hc'] at h
  injection h with h
  exact hne h

/-! #### instance: 1 x 3 raster, suitable cells (0,2) and (0,0) in that order; rates 1/2 at cell 0,
    1/2 at cell 1 (not in the list: it must stay) and 1 at cell 2 (in the list: stays) -/

def c12selInpS : StepInputs :=
  { g := ⟨1, 3⟩, mt := .sei, latency := 1, suit := [(0, 2), (0, 0)], lethalThreshold := 0,
    temperatures := [], lethalDraws := [], survivalRates := [1/2, 1/2, 1],
    survivalDrawsI := [[], [1, 1]], survivalDrawsE := [[], [1, 0]], landings := [],
    stochasticEst := false, pEst := 0, overThreshold := 0, overLeaving := 0, overTargets := [],
    moves := [], treatEvents := [], mortalityRate := 0, mortalityLag := 0 }

def c12selLandS : Land :=
  [⟨10, [2, 1], 4, 0, 3, [1, 3], 0, 17⟩, ⟨1, [0, 0], 6, 0, 0, [2, 4], 0, 7⟩,
   ⟨3, [1, 1], 5, 0, 2, [2, 3], 0, 10⟩]

theorem c12selInpS_nodup :
    (c12selInpS.suit.map fun rc => c12selInpS.g.idx rc.1 rc.2).Nodup :=
  c12sel_nodup_idx_of_inside _ _ (by decide) (by decide)

/-- The theorem applied: cell 0 (position 1, rate 1/2) keeps round(4/2) = 2 infected and
    round(3/2) = 2 exposed; cell 2 (position 0, rate 1) and cell 1 (not in the list, rate 1/2)
    are unchanged. -/
theorem c12sel_survival_example :
    ∃ l', runGens [actionGen c12selInpS 0 .survival] c12selLandS = .ok l' ∧ l'.length = 3 ∧
      l'[0]? = some ⟨13, [1, 1], 2, 0, 2, [0, 2], 0, 17⟩ ∧
      survivalSpec (1/2) ⟨10, [2, 1], 4, 0, 3, [1, 3], 0, 17⟩
        ⟨13, [1, 1], 2, 0, 2, [0, 2], 0, 17⟩ = true ∧
      l'[1]? = some ⟨1, [0, 0], 6, 0, 0, [2, 4], 0, 7⟩ ∧
      l'[2]? = some ⟨3, [1, 1], 5, 0, 2, [2, 3], 0, 10⟩ := by
  obtain ⟨l', hrun, hlen, hsel⟩ :=
    C12_survival_selection c12selInpS 0 c12selLandS c12selInpS_nodup
  have h0 := (hsel 0 ⟨10, [2, 1], 4, 0, 3, [1, 3], 0, 17⟩ rfl).1 1 (0, 0) rfl (by decide)
  have h1 := (hsel 1 ⟨1, [0, 0], 6, 0, 0, [2, 4], 0, 7⟩ rfl).2 (by decide +kernel)
  have h2 := (hsel 2 ⟨3, [1, 1], 5, 0, 2, [2, 3], 0, 10⟩ rfl).2 (by decide +kernel)
  have hr : c12selInpS.survivalRates[0]! = 1/2 := by decide +kernel
  have hpost : (if c12selInpS.survivalRates[0]! < 1 then
      (⟨10, [2, 1], 4, 0, 3, [1, 3], 0, 17⟩ : Cell).removeByRatio c12selInpS.survivalRates[0]!
        (c12selInpS.survivalDrawsI.getD 1 []) (c12selInpS.survivalDrawsE.getD 1 [])
      else ⟨10, [2, 1], 4, 0, 3, [1, 3], 0, 17⟩) = ⟨13, [1, 1], 2, 0, 2, [0, 2], 0, 17⟩ := by
    decide +kernel
  rw [hpost, hr] at h0
  exact ⟨l', hrun, hlen, h0.1, h0.2, h1, h2⟩

/-- Cross-check by direct evaluation of the generator. -/
example : runGens [actionGen c12selInpS 0 .survival] c12selLandS =
    .ok [⟨13, [1, 1], 2, 0, 2, [0, 2], 0, 17⟩, ⟨1, [0, 0], 6, 0, 0, [2, 4], 0, 7⟩,
         ⟨3, [1, 1], 5, 0, 2, [2, 3], 0, 10⟩] :=
  eq_ok_of_runYields (by decide +kernel)

/-! ### the hypothesis is necessary: a suitable cell listed twice gets the rate twice -/

def c12selDupInp : StepInputs :=
  { g := ⟨1, 1⟩, mt := .si, latency := 0, suit := [(0, 0), (0, 0)], lethalThreshold := 0,
    temperatures := [], lethalDraws := [], survivalRates := [1/2],
    survivalDrawsI := [[2], [1]], survivalDrawsE := [[0], [0]], landings := [],
    stochasticEst := false, pEst := 0, overThreshold := 0, overLeaving := 0, overTargets := [],
    moves := [], treatEvents := [], mortalityRate := 0, mortalityLag := 0 }

def c12selDupLand : Land := [⟨0, [0], 4, 0, 0, [4], 0, 4⟩]

/-- Without `hnd` the conclusion of `C12_survival_selection` fails: the cell (0,0), inside the
    1 x 1 raster, is listed twice; 4 infected at rate 1/2 should leave round(4/2) = 2, but the rate
    is applied once per occurrence and 1 is left. Neither `survivalSpec` nor the stated post-state
    holds of the result. -/
theorem c12sel_survival_dup_counterexample :
    ¬ (c12selDupInp.suit.map fun rc => c12selDupInp.g.idx rc.1 rc.2).Nodup ∧
    (∀ rc ∈ c12selDupInp.suit, c12selDupInp.g.isOutside rc.1 rc.2 = false) ∧
    runGens [actionGen c12selDupInp 0 .survival] c12selDupLand =
      .ok [⟨3, [0], 1, 0, 0, [1], 0, 4⟩] ∧
    c12selDupLand[0]? = some ⟨0, [0], 4, 0, 0, [4], 0, 4⟩ ∧
    c12selDupInp.survivalRates[0]! = 1/2 ∧ lround ((4 : Rat) * (1/2)) = 2 ∧
    survivalSpec (1/2) ⟨0, [0], 4, 0, 0, [4], 0, 4⟩ ⟨3, [0], 1, 0, 0, [1], 0, 4⟩ = false ∧
    ¬ (∃ l', runGens [actionGen c12selDupInp 0 .survival] c12selDupLand = .ok l' ∧
        ∀ (k : Nat) (c : Cell), c12selDupLand[k]? = some c →
          ∀ (pos : Nat) (rc : Int × Int), c12selDupInp.suit[pos]? = some rc →
            c12selDupInp.g.idx rc.1 rc.2 = k →
            l'[k]? = some (if c12selDupInp.survivalRates[k]! < 1 then
              c.removeByRatio c12selDupInp.survivalRates[k]!
                (c12selDupInp.survivalDrawsI.getD pos []) (c12selDupInp.survivalDrawsE.getD pos [])
              else c)) := by
  have hrun : runGens [actionGen c12selDupInp 0 .survival] c12selDupLand =
      .ok [⟨3, [0], 1, 0, 0, [1], 0, 4⟩] := eq_ok_of_runYields (by decide +kernel)
  refine ⟨by decide, by decide, hrun, rfl, by decide +kernel, by decide +kernel,
    by decide +kernel, ?_⟩
  rintro ⟨l', hl', h⟩
  rw [hrun] at hl'
  injection hl' with hl'
  subst hl'
  have h0 := h 0 ⟨0, [0], 4, 0, 0, [4], 0, 4⟩ rfl 0 (0, 0) rfl (by decide)
  revert h0
  decide +kernel

#print axioms C12_lethal_selection
#print axioms C12_survival_selection
#print axioms C12_lethal_selection_only_if
#print axioms C12_survival_selection_only_if
#print axioms c12sel_nodup_idx_of_inside
#print axioms c12sel_survival_dup_counterexample

end Pops
