/-
  Non-vacuity audit of Props/C06 (random streams), Props/C07 (dates / scheduler), Props/C08
  (schedules), Props/C09 (plan of a model step), Props/C20 (documented errors, index ranges).

  For every theorem with hypotheses (top-level, or antecedents inside the conclusion) one concrete,
  non-trivial instance that meets ALL of them at once, and the theorem applied to it.
  The calendar instances are multi-year schedulers starting in November of the leap year 2020:
    * `scDay`   20-day steps  (first step 25 Nov - 31 Dec: the merged year end of the F9 repair,
                               leap day 29 Feb 2024 inside the run),
    * `scWeek`  one-week steps,
    * `scWeek2` two-week steps (the steps 23/24 Dec - 7 Jan straddle every year boundary),
    * `scMonth` three-month steps from 1 Nov 2019 (Nov - Jan straddles every year boundary).
  Result of the audit: no theorem of the five files is vacuous; see the notes at the instances.
-/
import PopsModel.Props.C06
import PopsModel.Props.C07
import PopsModel.Props.C08
import PopsModel.Props.C09
import PopsModel.Props.C20
namespace Pops
open Date

/-! ## Shared instances -/
namespace NVCal

/-- 25 November of a leap year. -/
def s20 : Date := ⟨2020, 11, 25⟩
def e24 : Date := ⟨2024, 3, 15⟩
/-- The leap day inside the run. -/
def leapDay : Date := ⟨2024, 2, 29⟩

def scDay : Scheduler := ⟨s20, e24, .day, 20, stepsLoop .day 20 e24 (stepsFuel s20 e24) s20⟩
def scWeek : Scheduler := ⟨s20, e24, .week, 1, stepsLoop .week 1 e24 (stepsFuel s20 e24) s20⟩
def scWeek2 : Scheduler := ⟨s20, e24, .week, 2, stepsLoop .week 2 e24 (stepsFuel s20 e24) s20⟩

theorem s20_valid : s20.Valid := by decide
theorem e24_valid : e24.Valid := by decide
theorem ok_day20 : StepOK .day 20 := ⟨by decide, fun _ => by decide⟩
theorem ok_week1 : StepOK .week 1 := ⟨by decide, fun h => by cases h⟩
theorem ok_week2 : StepOK .week 2 := ⟨by decide, fun h => by cases h⟩
theorem ok_month3 : StepOK .month 3 := ⟨by decide, fun h => by cases h⟩

theorem scDay_make : Scheduler.make s20 e24 .day 20 = .ok scDay := by rfl
theorem scWeek_make : Scheduler.make s20 e24 .week 1 = .ok scWeek := by rfl
theorem scWeek2_make : Scheduler.make s20 e24 .week 2 = .ok scWeek2 := by rfl

/-- 59 / 172 / 86 steps over three and a half years. -/
theorem sc_lengths : scDay.steps.length = 59 ∧ scWeek.steps.length = 172 ∧ scWeek2.steps.length = 86 := by
  decide +kernel

/-- The first 20-day step is merged with the year end (37 days), the next starts on 1 January. -/
theorem scDay_first : scDay.steps.take 2 =
    [⟨⟨2020, 11, 25⟩, ⟨2020, 12, 31⟩⟩, ⟨⟨2021, 1, 1⟩, ⟨2021, 1, 20⟩⟩] := by decide +kernel

/-- The two-week steps that straddle a year boundary (one per year of the run). -/
theorem scWeek2_straddle : scWeek2.steps.filter (fun st => st.s.y != st.e.y) =
    [⟨⟨2020, 12, 23⟩, ⟨2021, 1, 7⟩⟩, ⟨⟨2021, 12, 24⟩, ⟨2022, 1, 7⟩⟩,
     ⟨⟨2022, 12, 24⟩, ⟨2023, 1, 7⟩⟩, ⟨⟨2023, 12, 24⟩, ⟨2024, 1, 7⟩⟩] := by decide +kernel

def sM : Date := ⟨2019, 11, 1⟩
def eM : Date := ⟨2022, 6, 30⟩
def scMonth : Scheduler := ⟨sM, eM, .month, 3, stepsLoop .month 3 eM (stepsFuel sM eM) sM⟩
theorem scMonth_make : Scheduler.make sM eM .month 3 = .ok scMonth := by rfl
theorem scMonth_steps : scMonth.steps.map (fun st => (st.s.y, st.s.m, st.e.y, st.e.m)) =
    [(2019, 11, 2020, 1), (2020, 2, 2020, 4), (2020, 5, 2020, 7), (2020, 8, 2020, 10),
     (2020, 11, 2021, 1), (2021, 2, 2021, 4), (2021, 5, 2021, 7), (2021, 8, 2021, 10),
     (2021, 11, 2022, 1), (2022, 2, 2022, 4), (2022, 5, 2022, 7)] := by decide +kernel

/-- A step straddling the year boundary, taken from `scWeek2`. -/
def stStraddle : Step := ⟨⟨2021, 12, 24⟩, ⟨2022, 1, 7⟩⟩

/-- Calendar part of a configuration with every optional feature switched on. -/
def calCfg : CalCfg :=
  { start := sM, end_ := eM, unit := .month, n := 3, seasonStart := 5, seasonEnd := 9,
    outFreq := "year", outN := 0, useMortality := true, mortFreq := "year", mortN := 0,
    useLethal := true, lethalMonth := 1, useSurvival := true, survMonth := 3, survDay := 15,
    useRates := true, ratesFreq := "month", ratesN := 0,
    useQuarantine := true, quarFreq := "every_n_steps", quarN := 2,
    weatherSize := 5 }

def calSchedules : Schedules := match createSchedules calCfg with | .ok s => s | .error _ => default
theorem calSchedules_ok : createSchedules calCfg = .ok calSchedules := by rfl

/-! Random streams: an engine on `Nat`, a configuration with soils, anthropogenic kernel and two
    hosts, and the process skeletons with concrete oracles. -/

def E : Engine Nat := ⟨fun s => 1000 * s, fun g => (g % 7, g + 1)⟩

def cSoil : UseCfg := { soils := true, useAnthro := true, hosts := 2 }
/-- Everything deterministic, no soils: generation uses no stream. -/
def cDet : UseCfg := { generateStochastic := false, establishmentStochastic := false, dispersalStochastic := false }

def genAct (c : UseCfg) (w : Nat) : Act Nat Nat :=
  generateAct c (fun _ => [(0, 0), (0, 1)]) (fun _ _ => 2) (fun _ _ g => (g % 5, g + 1))
    (fun _ _ xs => ((xs.length + 1 : Nat) : Int)) (fun _ _ d => d.toNat) (fun g => (g % 3, g + 2))
    (fun w _ d us => w + d.toNat + us.length) w

def kern (c : UseCfg) : Nat → Int × Int → Act Nat Nat := fun w _ =>
  libraryKernelAct c (w % 2 == 0) (fun g => (g % 2, g + 1)) (fun g => (g % 4, g + 1)) (fun g => (g % 6, g + 1)) 0 1

def dispAct (c : UseCfg) (w : Nat) : Act Nat Nat :=
  disperseAct c (kern c) (fun _ => [(0, 0), (1, 1)]) (fun _ _ => 2) (fun _ t => t % 2 == 0) (fun w t => w + t)
    (landAct c (fun _ _ => true) (fun _ _ => true) (fun g => (g % 2, g + 1)) (fun g => (g % 10, g + 1))
      (fun w t h u => w + t + h + u.getD 0))
    (fun _ _ => 1) (fun _ _ g => (g % 3, g + 1)) (fun _ _ g => (g % 2, g + 1))
    (fun _ _ xs sh => xs.length + sh) (fun w _ _ _ => w + 1) (fun cell => cell.1.toNat) w

def spreadAct (c : UseCfg) (w : Nat) : Act Nat Nat := (genAct c w).bind (dispAct c)

theorem uses_spread_cSoil : uses .spread cSoil =
    [.disperserGeneration, .soil, .naturalDispersal, .anthropogenicDispersal, .establishment, .soil] := by decide

/-- A complete seed map (all ten names) and an incomplete one. -/
def fullMap : SeedMap := StreamName.all.map fun n => (n.key, n.index + 100)
def partMap : SeedMap := [("soil", 3), ("weather", 4)]

/-- Step plan: SEI-like run with lethal temperature, spread rates and quarantine on, survival off. -/
def stepCfg : StepCfg :=
  { soils := true, useLethal := true, lethalSched := [true, false, true], useSurvival := false,
    survivalSched := [true, true, true], spreadSched := [false, true, true], useOverpop := true,
    useMovements := false, useTreatments := true, useMortality := true, mortalitySched := [false, false, true],
    useSpreadRates := true, rateSched := [false, true, true], useQuarantine := false,
    quarantineSched := [true, true, true] }

/-- An SEI cell with two exposed and three mortality cohorts. -/
def cell : Cell := { s := 10, e := [2, 3], i := 4, r := 0, te := 5, mort := [1, 2, 1], died := 0, th := 19 }

/-- Weather from a distribution on a 1 x 3 raster: the normal draws are above the range, inside,
    below the range, so both branches of the fallback are taken; the uniform draws are inside
    [0,1] at every index (beyond the list `us[k]!` is the default 0, so the hypothesis quantified
    over all `k : Nat` is satisfiable). -/
def wMeans : List Rat := [1/2, 1, 0]
def wZs : List Rat := [3/2, 1/4, -1]
def wUs : List Rat := [1/3, 1/2, 0]
theorem wOut_ok : updateWeatherFromDistribution 1 3 1 3 wMeans wZs wUs = .ok [1/3, 1/4, 0] := by decide +kernel
theorem wUs_range : ∀ k : Nat, k < wMeans.length → 0 ≤ wUs[k]! ∧ wUs[k]! ≤ 1 := by
  intro k hk
  rcases k with _ | _ | _ | k
  · decide +kernel
  · decide +kernel
  · decide +kernel
  · exact absurd hk (by simp [wMeans])

/-- Degenerate deviations at cells 0 and 2 (means 1 and 0, on the border of the range), a
    proper deviation at cell 1 whose draw 1/2 + 3 * 1 falls outside (fallback 1/2). -/
def dMeans : List Rat := [1, 1/2, 0]
def dSds : List Rat := [0, 3, 0]
def dNs : List Rat := [7, 1, -2]
theorem dOut_ok :
    updateWeatherFromDistribution 1 3 1 3 dMeans (weatherZs dMeans dSds dNs) wUs = .ok [1, 1/2, 0] := by
  decide +kernel

/-- A 3 x 5 raster (rows ≠ cols). -/
def grid : Grid := ⟨3, 5⟩
def dispEnv : DisperseEnv := { mt := .sei, stochastic := true, pEst := 1/2, npop := List.replicate 15 20, w := none }
def pest : PestState := { disp := List.replicate 15 2, est := List.replicate 15 0, outside := [(9, 9)] }

end NVCal
open NVCal

/-! ## C07 -/

/-- November of a leap year, 20 days (crosses the year end: 1 January), week, month; and a first
    of the month for the last component. -/
theorem nv_C07_valid :
    s20.Valid ∧ (s20.increasedByDays 20).Valid ∧ s20.increasedByDays 20 = ⟨2021, 1, 1⟩ ∧
    s20.increasedByWeek.Valid ∧ s20.increasedByMonth.Valid ∧ sM.increasedByMonth.d = 1 :=
  have h := C07_valid s20 s20_valid
  ⟨s20_valid, h.1 20 (by decide) (by decide), by decide, h.2.1, h.2.2.1,
   (C07_valid sM (by decide)).2.2.2 (by decide)⟩

/-- Day, week and month steps from 25 November 2020. -/
theorem nv_C07_increasing :
    s20.lt (increaseDate .day 20 s20) = true ∧ s20.lt (increaseDate .week 2 s20) = true ∧
    sM.lt (increaseDate .month 3 sM) = true :=
  ⟨C07_increasing .day 20 ok_day20 s20 s20_valid, C07_increasing .week 2 ok_week2 s20 s20_valid,
   C07_increasing .month 3 ok_month3 sM (by decide)⟩

/-- Two different valid dates (the leap day and the start). -/
theorem nv_C07_order : s20.Valid ∧ leapDay.Valid ∧ s20 ≠ leapDay ∧ s20.lt leapDay = true := by
  have hl : leapDay.Valid := by decide
  have h := C07_order s20 leapDay s20_valid hl
  exact ⟨s20_valid, hl, by decide, h.1.mpr (by decide)⟩

/-- All four hypotheses at once for the three schedulers starting in November 2020. -/
theorem nv_C07_tiles :
    TilesCalendar s20 e24 scDay.steps = true ∧ TilesCalendar s20 e24 scWeek.steps = true ∧
    TilesCalendar s20 e24 scWeek2.steps = true ∧ TilesCalendar sM eM scMonth.steps = true :=
  ⟨C07_tiles s20 e24 .day 20 scDay s20_valid e24_valid ok_day20 scDay_make,
   C07_tiles s20 e24 .week 1 scWeek s20_valid e24_valid ok_week1 scWeek_make,
   C07_tiles s20 e24 .week 2 scWeek2 s20_valid e24_valid ok_week2 scWeek2_make,
   C07_tiles sM eM .month 3 scMonth (by decide) (by decide) ok_month3 scMonth_make⟩

/-- The leap day is found in exactly one step (number 57 of 59); the day before the start is
    rejected. All four components of the conclusion are used with their antecedents. -/
theorem nv_C07_partition :
    scheduleActionDate scDay.steps leapDay = .ok 57 ∧
    scheduleActionDate scDay.steps ⟨2020, 11, 24⟩ = .error .invalid_argument := by
  have ht := nv_C07_tiles.1
  have hl : leapDay.Valid := by decide
  obtain ⟨h1, h2, h3, _⟩ := C07_partition s20 e24 scDay.steps ht leapDay hl
  obtain ⟨k, st, hk, hc⟩ := h3 ⟨⟨2020, 11, 25⟩, ⟨2020, 12, 31⟩⟩ ⟨⟨2024, 3, 1⟩, ⟨2024, 3, 20⟩⟩
    (by decide +kernel) (by decide +kernel) (by decide) (by decide)
  have h57 : scDay.steps[57]? = some ⟨⟨2024, 2, 10⟩, ⟨2024, 2, 29⟩⟩ := by decide +kernel
  have hk57 : k = 57 := h1 k 57 st _ hk h57 hc (by decide)
  subst hk57
  refine ⟨h2 57 st hk hc, ?_⟩
  exact (C07_partition s20 e24 scDay.steps ht ⟨2020, 11, 24⟩ (by decide)).2.2.2 (by decide +kernel)

/-- Both alternatives of `hu`: 20-day steps and one-week steps, November start in a leap year. -/
theorem nv_C07_day_steps :
    dayStepsOK 20 scDay.steps = true ∧ dayStepsOK 7 scWeek.steps = true :=
  ⟨C07_day_steps s20 e24 .day 20 scDay s20_valid e24_valid ok_day20 (.inl rfl) scDay_make,
   C07_day_steps s20 e24 .week 1 scWeek s20_valid e24_valid ok_week1 (.inr ⟨rfl, rfl⟩) scWeek_make⟩

/-! ## C08 -/

/-- A two-week step over the year end: 1 January fires (through the end year), 15 June does not. -/
theorem nv_C08_yearly :
    stepWF stStraddle = true ∧ yearlyFires 1 1 stStraddle = true ∧ yearlyFires 6 15 stStraddle = false ∧
    ¬ ∃ y : Int, stStraddle.contains ⟨y, 6, 15⟩ = true := by
  have hwf : stepWF stStraddle = true := by decide
  have hs : stStraddle.e.y ≤ stStraddle.s.y + 1 := by decide
  have h1 := C08_yearly stStraddle hwf hs 1 1 (by decide) (by decide) (by decide) (by decide)
  have h2 := C08_yearly stStraddle hwf hs 6 15 (by decide) (by decide) (by decide) (by decide)
  refine ⟨hwf, h1.mpr ⟨2022, by decide⟩, by decide, fun hex => ?_⟩
  have := h2.mpr hex
  revert this; decide

/-- Two-week steps from November 2020: every step is shorter than a year although four of them
    straddle a year boundary; 1 January 2022 fires in exactly one step (number 28). -/
theorem nv_C08_yearly_once :
    ∃ k : Nat, (∃ st : Step, scWeek2.steps[k]? = some st ∧ st.contains ⟨2022, 1, 1⟩ = true ∧
        st.s.y ≠ st.e.y ∧ (scheduleYearly scWeek2.steps 1 1)[k]? = some true) ∧
      ∀ (j : Nat) (st' : Step), scWeek2.steps[j]? = some st' → st'.contains ⟨2022, 1, 1⟩ = true → j = k := by
  have hshort : ∀ st ∈ scWeek2.steps, st.e.y ≤ st.s.y + 1 := by decide +kernel
  obtain ⟨k, ⟨st, hk, hc, hf⟩, huniq⟩ := C08_yearly_once s20 e24 scWeek2.steps nv_C07_tiles.2.2.1 hshort 1 1
    (by decide) (by decide) (by decide) (by decide) 2022
    ⟨⟨2020, 11, 25⟩, ⟨2020, 12, 8⟩⟩ ⟨⟨2024, 3, 4⟩, ⟨2024, 3, 17⟩⟩ (by decide +kernel) (by decide +kernel)
    (by decide) (by decide)
  have h28 : scWeek2.steps[28]? = some stStraddle := by decide +kernel
  have : 28 = k := huniq 28 stStraddle h28 (by decide)
  subst this
  have : st = stStraddle := by rw [h28] at hk; exact (Option.some.inj hk).symm
  subst this
  exact ⟨28, ⟨stStraddle, hk, hc, by decide, hf⟩, huniq⟩

/-- The month scheduler as well (three-month steps November - January). -/
theorem nv_C08_yearly_once_month :
    ∃ k : Nat, (∃ st : Step, scMonth.steps[k]? = some st ∧ st.contains ⟨2021, 1, 1⟩ = true ∧
        (scheduleYearly scMonth.steps 1 1)[k]? = some true) ∧
      ∀ (j : Nat) (st' : Step), scMonth.steps[j]? = some st' → st'.contains ⟨2021, 1, 1⟩ = true → j = k :=
  C08_yearly_once sM eM scMonth.steps nv_C07_tiles.2.2.2 (by decide +kernel) 1 1
    (by decide) (by decide) (by decide) (by decide) 2021
    ⟨⟨2019, 11, 1⟩, ⟨2020, 1, 31⟩⟩ ⟨⟨2022, 5, 1⟩, ⟨2022, 7, 31⟩⟩ (by decide +kernel) (by decide +kernel)
    (by decide) (by decide)

theorem nv_C08_end_of_year :
    endOfYearFires stStraddle = true ∧ endOfYearFires ⟨⟨2021, 1, 8⟩, ⟨2021, 1, 21⟩⟩ = false :=
  ⟨(C08_end_of_year stStraddle (by decide)).mpr ⟨2021, by decide⟩, by decide⟩

theorem nv_C08_monthly :
    monthlyFires ⟨⟨2024, 2, 10⟩, ⟨2024, 2, 29⟩⟩ = true ∧ monthlyFires ⟨⟨2021, 1, 8⟩, ⟨2021, 1, 21⟩⟩ = false :=
  ⟨(C08_monthly ⟨⟨2024, 2, 10⟩, ⟨2024, 2, 29⟩⟩ (by decide)).mpr ⟨leapDay, by decide, by decide, by decide⟩,
   by decide⟩

theorem nv_C08_nsteps :
    (scheduleNSteps scDay.steps 4)[7]? = some true ∧ (scheduleNSteps scDay.steps 4)[8]? = some false ∧
    (scheduleEndOfSimulation scDay.steps)[58]? = some true := by
  have h7 := C08_nsteps scDay.steps 4 7 (by rw [sc_lengths.1]; decide)
  have h8 := C08_nsteps scDay.steps 4 8 (by rw [sc_lengths.1]; decide)
  have h58 := C08_nsteps scDay.steps 4 58 (by rw [sc_lengths.1]; decide)
  refine ⟨h7.1, h8.1, ?_⟩
  rw [h58.2.2.1, sc_lengths.1]; rfl

/-- Season May - September, step 2 of the month scheduler (May - July) and step 0 (Nov - Jan). -/
theorem nv_C08_spread :
    (scheduleSpread scMonth.steps 5 9)[2]? = some true ∧ (scheduleSpread scMonth.steps 5 9)[0]? = some false := by
  have h2 := C08_spread scMonth.steps 5 9 2 ⟨⟨2020, 5, 1⟩, ⟨2020, 7, 31⟩⟩ (by decide +kernel)
  have h0 := C08_spread scMonth.steps 5 9 0 ⟨⟨2019, 11, 1⟩, ⟨2020, 1, 31⟩⟩ (by decide +kernel)
  exact ⟨h2.trans (by decide), h0.trans (by decide)⟩

/-- Antecedents inside `C08_frequency` and `C08_weather`. -/
theorem nv_C08_frequency :
    scheduleFromString scWeek "weekly" 0 = .ok (scheduleNSteps scWeek.steps 1) ∧
    scheduleFromString scDay "weekly" 0 = .error .invalid_argument ∧
    scheduleFromString scDay "every_n_steps" 3 = .ok (scheduleNSteps scDay.steps 3) := by
  have h := C08_frequency
  refine ⟨?_, ?_, (h scDay 3).2.2.2.2.2.2.1 (by decide)⟩
  · rw [(h scWeek 0).1 "weekly" (.inr rfl)]; rfl
  · rw [(h scDay 0).1 "weekly" (.inr rfl)]; rfl

theorem nv_C08_index_bijection :
    simulationStepToActionStep [true, false, true, true] 3 = .ok 2 ∧
    simulationStepToActionStep [true, false, true, true] 4 = .error .out_of_range := by
  have h := C08_index_bijection [true, false, true, true]
  exact ⟨(h.1 3 (by decide)).trans (by decide), h.2.1 4 (by decide)⟩

theorem nv_C08_weather : ∃ l, scheduleWeather 11 5 = .ok l ∧ l.length = 11 ∧ l[7]? = some 2 := by
  obtain ⟨l, h1, h2, h3⟩ := (C08_weather 11 5).2 (by decide)
  exact ⟨l, h1, h2, h3 7 (by decide)⟩

/-- `create_schedules` accepts a configuration with every feature on (three-month steps over
    year boundaries, 11 steps), so the hypothesis is met; the wiring follows. -/
theorem nv_C08_config_wiring :
    createSchedules calCfg = .ok calSchedules ∧ calSchedules.steps.length = 11 ∧
    calSchedules.lethal = some (scheduleYearly scMonth.steps 1 1) ∧
    calSchedules.survival = some (scheduleYearly scMonth.steps 3 15) ∧
    (∃ m, scheduleFromString scMonth "year" 0 = .ok m ∧ calSchedules.mortality = some m) := by
  obtain ⟨sc, hsc, h1, _, _, hl, hsv, hm, _⟩ := C08_config_wiring calCfg calSchedules calSchedules_ok
  have : sc = scMonth := by
    have := hsc.symm.trans scMonth_make
    exact Except.ok.inj this
  subst this
  exact ⟨calSchedules_ok, by decide +kernel, hl, hsv, hm rfl⟩

/-- The situation of seeded change C09k: a second configuration on the same calendar whose output,
    mortality and spread-rate schedules all use `every_n_steps` (n = 1, 3, 5) like the quarantine
    schedule (n = 2); it is accepted, and its quarantine schedule is that of `calCfg`. -/
def calCfgShared : CalCfg :=
  { calCfg with outFreq := "every_n_steps", outN := 1, mortFreq := "every_n_steps", mortN := 3,
                ratesFreq := "every_n_steps", ratesN := 5 }
def calSchedulesShared : Schedules := match createSchedules calCfgShared with | .ok s => s | .error _ => default
theorem calSchedulesShared_ok : createSchedules calCfgShared = .ok calSchedulesShared := by rfl

theorem nv_C08_config_own_n :
    createSchedules calCfgShared = .ok calSchedulesShared ∧
    calSchedulesShared.quarantine = calSchedules.quarantine ∧
    calSchedulesShared.mortality ≠ calSchedulesShared.quarantine :=
  ⟨calSchedulesShared_ok,
   (C08_config_own_n calCfg calCfgShared calSchedules calSchedulesShared calSchedules_ok calSchedulesShared_ok
      ⟨rfl, rfl, rfl, rfl⟩).1 rfl rfl rfl,
   by decide +kernel⟩

/-! ## C09 -/

/-- Step 2 of `stepCfg`: lethal temperature runs with input index 1 (second firing), the spread
    rate with index 1. -/
theorem nv_C09_index :
    (ActionKind.lethal, some 1) ∈ plan stepCfg 2 ∧
    simulationStepToActionStep stepCfg.lethalSched 2 = .ok 1 ∧
    simulationStepToActionStep stepCfg.rateSched 2 = .ok 1 := by
  have hl : (ActionKind.lethal, some 1) ∈ plan stepCfg 2 := by decide
  have hr : (ActionKind.spreadRate, some 1) ∈ plan stepCfg 2 := by decide
  exact ⟨hl, (C09_index stepCfg 2 .lethal 1 hl).1 rfl, (C09_index stepCfg 2 .spreadRate 1 hr).2.2.1 rfl⟩

/-- The plan of step 2 has eight actions; survival and quarantine are disabled and their
    schedules (all `true`) can be replaced by anything. -/
theorem nv_C09_frame_disabled :
    (plan stepCfg 2).length = 8 ∧
    plan { stepCfg with survivalSched := [false, true] } 2 = plan stepCfg 2 ∧
    plan { stepCfg with quarantineSched := [] } 2 = plan stepCfg 2 :=
  ⟨by decide, (C09_frame_disabled stepCfg 2 [false, true]).2.1 rfl,
   (C09_frame_disabled stepCfg 2 []).2.2.2.2 rfl⟩

/-- `C09_order`, `C09_iff`, `C09_spread_block` have no hypotheses; the instance shows the
    antecedent of the second component of `C09_spread_block`. -/
theorem nv_C09_spread_block : stepCfg.runs 2 .overpopulation = true ∧ stepCfg.runs 2 .spread = true :=
  ⟨by decide, (C09_spread_block stepCfg 2).2.1 (by decide)⟩

/-! ## C06 -/

/-- Antecedents inside `C06_seed_order`: a seed without wrap-around, and a configuration with
    multiple seeds and an empty map. -/
theorem nv_C06_seed_order :
    (seedMulti E 5).get .soil = E.seed 14 ∧
    Provider.ofConfig E { randomSeed := -1, multipleRandomSeeds := true } =
      .ok (.multi (seedMulti E 4294967295)) := by
  have h := C06_seed_order E 5
  refine ⟨(h.2.2.2.2.2.1 (by decide) .soil).trans rfl, ?_⟩
  exact (C06_seed_order E 0).2.2.2.2.2.2.2 { randomSeed := -1, multipleRandomSeeds := true } rfl rfl

/-- A map lacking `movement` (first antecedent), a complete map (second antecedent). -/
theorem nv_C06_missing_seed_rejected :
    Provider.ofMap E partMap = .error .invalid_argument ∧
    (∀ r, Provider.ofConfig E { randomSeed := r, multipleRandomSeeds := true, randomSeeds := partMap }
        = .error .invalid_argument) ∧
    ∃ s : Streams Nat, Provider.ofMap E fullMap = .ok (.multi s) ∧ s.get .weather = E.seed 104 := by
  have h1 := (C06_missing_seed_rejected E partMap).1 .movement (by decide)
  have hfull : ∀ n : StreamName, fullMap.find? n.key = some (n.index + 100) := by
    intro n; cases n <;> decide
  obtain ⟨s, hs, hg, _⟩ := (C06_missing_seed_rejected E fullMap).2 (fun n => n.index + 100) hfull
  exact ⟨h1.2.1, h1.2.2.2 (by decide), s, hs, hg .weather⟩

/-- Antecedents inside `C06_single_use_rejected`: providers that were really constructed. -/
theorem nv_C06_single_use_rejected :
    (∃ p, Provider.ofMap E fullMap = .ok p ∧ p.isMulti = true) ∧
    (∃ p, Provider.ofConfig E { randomSeed := 7 } = .ok p ∧ p.isMulti = false) := by
  have h := C06_single_use_rejected E
  have hfull : ∀ n : StreamName, fullMap.find? n.key = some (n.index + 100) := by
    intro n; cases n <;> decide
  obtain ⟨s, hs, _⟩ := (C06_missing_seed_rejected E fullMap).2 _ hfull
  have hc : Provider.ofConfig E { randomSeed := 7 } = .ok (.single (E.seed 7)) :=
    (C06_single_aliases E 0 .soil (fun g => (g, g))).2.2.2.2.2 { randomSeed := 7 } rfl
  exact ⟨⟨_, hs, h.2.2.1 _ _ hs⟩, ⟨_, hc, h.2.2.2.1 _ _ hc⟩⟩

/-- `m ≠ n` antecedents of `C06_isolated`. -/
theorem nv_C06_isolated :
    (((Provider.multi (seedMulti E 5)).drawFrom E .weather).2.get .soil = E.seed 14) ∧
    (((Provider.multi (seedMulti E 5)).drawFrom E .weather).2.get .weather ≠ E.seed 9) :=
  ⟨((C06_isolated E (seedMulti E 5) .weather E.next).2.2.2 .soil (by decide)).trans rfl, by decide⟩

/-- **Frame**, on the whole spread action (generate, then disperse with the library kernel,
    soils, anthropogenic kernel, two hosts): six streams allowed, all stream states of `p` and `q`
    different outside them (weather, lethal temperature, movement, overpopulation, survival rate). -/
theorem nv_C06_frame :
    let p := seedMulti E 5
    let q : Streams Nat := { p with weather := 1, lethalTemperature := 2, movement := 3, overpopulation := 4, survivalRate := 6 }
    p ≠ q ∧ (uses .spread cSoil).length = 6 ∧
    ((spreadAct cSoil 0).run (.multi p)).1 = ((spreadAct cSoil 0).run (.multi q)).1 := by
  intro p q
  have hg : ∀ w, (genAct cSoil w).Within (uses .generate cSoil) := fun w => C06_within_generate cSoil _ _ _ _ _ _ _ w
  have hk : ∀ w cell, (kern cSoil w cell).Within (kernelUses cSoil) := fun w _ => C06_within_kernel cSoil rfl _ _ _ _ _ _
  have hd : ∀ w, (dispAct cSoil w).Within (uses .disperse cSoil) := fun w =>
    C06_within_disperse cSoil (kern cSoil) hk _ _ _ _ _ _ _ _ _ _ _ _ _ _ _ w
  have hw : (spreadAct cSoil 0).Within (uses .spread cSoil) := C06_within_spread cSoil _ _ hg hd 0
  have hpq : ∀ n ∈ uses .spread cSoil, p.get n = q.get n := by decide
  exact ⟨by decide, by decide, (C06_frame .spread cSoil _ hw p q hpq).1⟩

/-- Changing the weather seed does not change the spread action. -/
theorem nv_C06_unused_seed_irrelevant :
    StreamName.weather ∉ uses .spread cSoil ∧
    ((spreadAct cSoil 0).run (.multi (Streams.ofFn fun m => E.seed (m.index + 10)))).1 =
    ((spreadAct cSoil 0).run (.multi (Streams.ofFn fun m => E.seed (if m = .weather then 77 else m.index + 10)))).1 := by
  have hg : ∀ w, (genAct cSoil w).Within (uses .generate cSoil) := fun w => C06_within_generate cSoil _ _ _ _ _ _ _ w
  have hk : ∀ w cell, (kern cSoil w cell).Within (kernelUses cSoil) := fun w _ => C06_within_kernel cSoil rfl _ _ _ _ _ _
  have hd : ∀ w, (dispAct cSoil w).Within (uses .disperse cSoil) := fun w =>
    C06_within_disperse cSoil (kern cSoil) hk _ _ _ _ _ _ _ _ _ _ _ _ _ _ _ w
  have hw : (spreadAct cSoil 0).Within (uses .spread cSoil) := C06_within_spread cSoil _ _ hg hd 0
  have hn : StreamName.weather ∉ uses .spread cSoil := by decide
  exact ⟨hn, (C06_unused_seed_irrelevant E .spread cSoil _ hw .weather hn (fun m => m.index + 10) 77).1⟩

/-- Deterministic generation without soils: the generate skeleton (two cells, oracles as above)
    is within the empty list, hence returns the provider untouched. -/
theorem nv_C06_no_stream_no_effect :
    uses .generate cDet = [] ∧ ∃ x, ∀ q : Provider Nat, (genAct cDet 0).run q = (x, q) := by
  have h : uses .generate cDet = [] := by decide
  exact ⟨h, C06_no_stream_no_effect .generate cDet _ (C06_within_generate cDet _ _ _ _ _ _ _ 0) h⟩

/-- Library kernel, deterministic everything, one host: several antecedents of the table at once. -/
theorem nv_C06_table :
    StreamName.disperserGeneration ∉ uses .spread cDet ∧ StreamName.establishment ∉ uses .spread cDet ∧
    StreamName.naturalDispersal ∉ uses .spread cDet ∧ uses .generate cDet = [] ∧
    StreamName.establishment ∈ uses .disperse cSoil := by
  have h := C06_table cDet rfl
  exact ⟨h.1 rfl, h.2.1 rfl (by decide), h.2.2.2.2.1 rfl, h.2.2.2.2.2.1 rfl rfl,
    (C06_table cSoil rfl).2.2.2.2.2.2.2.2.2.2.2.2.2 (by decide)⟩

/-- `hinj`, `hk`, `hg`, `hd` of the four `within` theorems with hypotheses, chained: the library
    kernel is within `kernelUses`, so disperse is within its row, so spread is. The remaining
    `C06_within_*` theorems have no hypotheses. -/
theorem nv_C06_within_chain :
    (kern cSoil 0 (0, 0)).Within (kernelUses cSoil) ∧ kernelUses cSoil = [.naturalDispersal, .anthropogenicDispersal] ∧
    (dispAct cSoil 0).Within (uses .disperse cSoil) ∧ (spreadAct cSoil 0).Within (uses .spread cSoil) := by
  have hg : ∀ w, (genAct cSoil w).Within (uses .generate cSoil) := fun w => C06_within_generate cSoil _ _ _ _ _ _ _ w
  have hk : ∀ w cell, (kern cSoil w cell).Within (kernelUses cSoil) := fun w _ => C06_within_kernel cSoil rfl _ _ _ _ _ _
  have hd : ∀ w, (dispAct cSoil w).Within (uses .disperse cSoil) := fun w =>
    C06_within_disperse cSoil (kern cSoil) hk _ _ _ _ _ _ _ _ _ _ _ _ _ _ _ w
  exact ⟨hk 0 (0, 0), by decide, hd 0, C06_within_spread cSoil _ _ hg hd 0⟩

/-! "Made deterministic" (`specUses` against `usesRun`): a configuration that meets the three extra
    hypotheses of `C06_deterministic_mode_partial` non-trivially - establishment deterministic with ONE
    host, movements on with `movement_stochasticity` on, anthropogenic kernel on under deterministic
    dispersal with a kernel type that is random by definition - and the whole spread action (generate,
    library kernel, landings, soil release) as the process. -/

def cMix : UseCfg :=
  { generateStochastic := false, establishmentStochastic := false, hosts := 1, soils := true, useMovements := true,
    movementStochastic := true, useAnthro := true, dispersalStochastic := false, anthroKernel := .uniform }

theorem spreadAct_model (c : UseCfg) (hinj : c.injectedKernel = none) (w : Nat) :
    ModelProcess c .spread Nat (spreadAct c w) :=
  .spread (genAct c) (dispAct c) (fun _ => .generate _ _ _ _ _ _ _ _)
    (fun _ => .disperse (kern c) (fun _ _ => C06_within_kernel c hinj _ _ _ _ _ _) _ _ _ _ _ _ _ _ _ _ _ _ _ _ _ _) w

/-- `h` of `C06_model_process_within`: the spread action of `cSoil` is a process of the model. -/
theorem nv_C06_model_process_within : (spreadAct cSoil 0).Within (uses .spread cSoil) :=
  C06_model_process_within cSoil .spread Nat _ (spreadAct_model cSoil rfl 0)

/-- `hP`, `hm`, `hn` of `C06_unused_seed_run_irrelevant`: weather is outside `usesRun cSoil` (a run that
    draws from five other streams), the spread action does not depend on its seed. -/
theorem nv_C06_unused_seed_run_irrelevant :
    StreamName.weather ∉ usesRun cSoil ∧ StreamName.establishment ∈ usesRun cSoil ∧
    ((spreadAct cSoil 0).run (.multi (Streams.ofFn fun m => E.seed (m.index + 10)))).1 =
    ((spreadAct cSoil 0).run (.multi (Streams.ofFn fun m => E.seed (if m = .weather then 77 else m.index + 10)))).1 := by
  have hn : StreamName.weather ∉ usesRun cSoil := by decide
  exact ⟨hn, by decide,
    C06_unused_seed_run_irrelevant E cSoil .spread Nat _ rfl (spreadAct_model cSoil rfl 0) .weather hn (fun m => m.index + 10) 77⟩

/-- All hypotheses of `C06_deterministic_mode_partial` at once, none of them by the trivial disjunct
    "process off": the establishment seed (deterministic establishment, one host) and the natural
    dispersal seed (radial kernel under deterministic dispersal) are irrelevant for the spread action,
    while anthropogenic dispersal, soil and movement stay allowed. -/
theorem nv_C06_deterministic_mode_partial :
    StreamName.establishment ∉ specUses cMix ∧ StreamName.naturalDispersal ∉ specUses cMix ∧
    specUses cMix = [.anthropogenicDispersal, .movement, .soil] ∧
    ((spreadAct cMix 0).run (.multi (Streams.ofFn fun m => E.seed (m.index + 10)))).1 =
    ((spreadAct cMix 0).run (.multi (Streams.ofFn fun m => E.seed (if m = .establishment then 77 else m.index + 10)))).1 := by
  have hn : StreamName.establishment ∉ specUses cMix := by decide
  exact ⟨hn, by decide, by decide,
    C06_deterministic_mode_partial E cMix .spread Nat _ rfl (spreadAct_model cMix rfl 0)
      (.inl (by decide)) (.inr rfl) (.inr (.inr (.inl rfl))) .establishment hn (fun m => m.index + 10) 77⟩

/-- `hu`, `hs` of `C06_code_outside_spec` in each of the three regions, and `hs` of
    `C06_spec_within_code`. -/
theorem nv_C06_code_outside_spec :
    f28Region { establishmentStochastic := false, hosts := 2 } = true ∧
    f29Region { useMovements := true, movementStochastic := false } = true ∧
    f32Region { useAnthro := true, dispersalStochastic := false } = true ∧
    StreamName.movement ∈ usesRun cMix := by
  have h1 := C06_code_outside_spec { establishmentStochastic := false, hosts := 2 } .establishment (by decide) (by decide)
  have h2 := C06_code_outside_spec { useMovements := true, movementStochastic := false } .movement (by decide) (by decide)
  have h3 := C06_code_outside_spec { useAnthro := true, dispersalStochastic := false } .anthropogenicDispersal
    (by decide) (by decide)
  refine ⟨?_, ?_, ?_, C06_spec_within_code cMix .movement (by decide)⟩
  · rcases h1 with ⟨_, h⟩ | ⟨h, _⟩ | ⟨h, _⟩
    · exact h
    · cases h
    · cases h
  · rcases h2 with ⟨h, _⟩ | ⟨_, h⟩ | ⟨h, _⟩
    · cases h
    · exact h
    · cases h
  · rcases h3 with ⟨h, _⟩ | ⟨h, _⟩ | ⟨_, h⟩
    · cases h
    · cases h
    · exact h

theorem nv_C06_read_seeds :
    ∃ c', readSeedsVec { randomSeed := 3 } [10, 11, 12, 13, 14, 15, 16, 17, 18, 19] = .ok c' ∧
      c'.randomSeeds.find? "weather" = some 14 ∧
      Provider.ofConfig E c' = .ok (.multi (Streams.ofFn fun n => E.seed ([10, 11, 12, 13, 14, 15, 16, 17, 18, 19].getD n.index 0))) := by
  obtain ⟨c', h1, _, _, h4, h5⟩ := (C06_read_seeds E { randomSeed := 3 } [10, 11, 12, 13, 14, 15, 16, 17, 18, 19]).2 rfl
  exact ⟨c', h1, (h4 .weather).trans rfl, h5⟩

/-- Two records, separators `,` and `=`. -/
theorem nv_C06_read_seeds_text_roundtrip :
    readSeedsText {} ',' '=' "soil=7,weather=12".toList =
      .ok { randomSeeds := [("weather", 12), ("soil", 7)], multipleRandomSeeds := true } := by
  have wf : WellFormed ',' '=' [("soil".toList, 7), ("weather".toList, 12)] := by
    refine ⟨by decide, by decide, ?_, ?_⟩
    · intro p hp
      simp only [List.mem_cons, List.not_mem_nil, or_false] at hp
      rcases hp with rfl | rfl <;> exact ⟨⟨by decide, by decide⟩, by decide⟩
    · intro p hp
      simp only [List.mem_cons, List.not_mem_nil, or_false] at hp
      rcases hp with rfl | rfl <;> decide
  have h := C06_read_seeds_text_roundtrip {} ',' '=' [("soil".toList, 7), ("weather".toList, 12)] wf
  have e1 : renderPairs ',' '=' [("soil".toList, 7), ("weather".toList, 12)] = "soil=7,weather=12".toList := by
    decide +kernel
  have e2 : entries [("soil".toList, 7), ("weather".toList, 12)] = [("weather", 12), ("soil", 7)] := by
    decide +kernel
  rw [e1, e2] at h
  exact h

/-- All ten names, separators `;` and `:`. -/
theorem nv_C06_read_seeds_text :
    ∃ c', readSeedsText {} ';' ':' (renderPairs ';' ':' (StreamName.all.map fun n => (n.key.toList, n.index + 100))) = .ok c' ∧
      c'.multipleRandomSeeds = true ∧
      Provider.ofConfig E c' = .ok (.multi (Streams.ofFn fun n => E.seed (n.index + 100))) :=
  C06_read_seeds_text E {} ';' ':' (fun n => n.index + 100)
    (fun n => by have := StreamName.index_lt n; omega) (by decide) (by decide)
    (fun n => by cases n <;> decide)

theorem nv_C06_read_seeds_malformed : parseRecord '=' "soil 7".toList = .error .invalid_argument :=
  C06_read_seeds_malformed '=' "soil 7".toList (by decide)

/-! ## C20 -/

theorem nv_C20_err_names :
    modelTypeFromString "sei" = .error .invalid_argument ∧ stepUnitFromString "year" = .error .invalid_argument :=
  ⟨C20_err_names.1 "sei" (by decide), C20_err_names.2.2.2.1 "year" (by decide)⟩

theorem nv_C20_err_frequency : scheduleFromString scDay "fortnight" 2 = .error .invalid_argument :=
  C20_err_frequency scDay 2 "fortnight" (by decide)

/-- The day before the start of a 59-step schedule. -/
theorem nv_C20_err_date_outside :
    scheduleActionDate scDay.steps ⟨2020, 11, 24⟩ = .error .invalid_argument ∧
    addTreatment scDay.steps ⟨2020, 11, 24⟩ 30 = .error .invalid_argument :=
  C20_err_date_outside scDay.steps ⟨2020, 11, 24⟩ 30 (by decide +kernel)

/-- SEI cell with two exposed and three mortality cohorts; each antecedent chain of the five
    components. -/
theorem nv_C20_err_cohort_length :
    cell.completelyRemove 1 [1, 1, 1] 1 [0, 1, 0] = .error .invalid_argument ∧
    cell.completelyRemove 1 [1, 1] 1 [0, 1] = .error .invalid_argument ∧
    cell.makeResistant 1 [1] 1 [0, 1, 0] = .error .invalid_argument ∧
    cell.makeResistant 1 [1, 1] 1 [0, 1] = .error .invalid_argument ∧
    cell.makeResistant 11 [1, 1] 1 [0, 1, 0] = .error .invalid_argument :=
  ⟨(C20_err_cohort_length cell 1 [1, 1, 1] 1 [0, 1, 0]).1 (by decide),
   (C20_err_cohort_length cell 1 [1, 1] 1 [0, 1]).2.1 (by decide) (by decide) (by decide),
   (C20_err_cohort_length cell 1 [1] 1 [0, 1, 0]).2.2.1 (by decide) (by decide),
   (C20_err_cohort_length cell 1 [1, 1] 1 [0, 1]).2.2.2.1 (by decide) (by decide) (by decide),
   (C20_err_cohort_length cell 11 [1, 1] 1 [0, 1, 0]).2.2.2.2 (by decide)⟩

theorem nv_C20_err_probabilities :
    updateWeatherFromDistribution 2 3 3 3 [1, 0] [] [] = .error .invalid_argument ∧
    updateWeatherFromDistribution 2 3 2 3 [1/2, 3/2, 0, 0, 0, 0] [] [] = .error .invalid_argument :=
  ⟨(C20_err_probabilities 2 3 3 3 [1, 0] [] []).1 (by decide),
   (C20_err_probabilities 2 3 2 3 [1/2, 3/2, 0, 0, 0, 0] [] []).2.2
     ⟨3/2, by simp, Or.inr (by grind)⟩⟩

theorem nv_C12_weather_range : ∀ x ∈ ([1/3, 1/4, 0] : List Rat), 0 ≤ x ∧ x ≤ 1 :=
  (C12_weather_range 1 3 1 3 wMeans wZs wUs _ wUs_range wOut_ok).2

theorem nv_C12_weather_degenerate :
    (([1, 1/2, 0] : List Rat)[0]! = dMeans[0]! ∧ 0 ≤ dMeans[0]! ∧ dMeans[0]! ≤ 1) ∧
    (([1, 1/2, 0] : List Rat)[2]! = dMeans[2]! ∧ 0 ≤ dMeans[2]! ∧ dMeans[2]! ≤ 1) :=
  ⟨C12_weather_degenerate 1 3 1 3 dMeans dSds dNs wUs _ dOut_ok 0 (by decide) (by decide +kernel),
   C12_weather_degenerate 1 3 1 3 dMeans dSds dNs wUs _ dOut_ok 2 (by decide) (by decide +kernel)⟩

/-- Last cell of a 3 x 5 raster. -/
theorem nv_C20_index_in_range : grid.idx 2 4 = 14 ∧ (grid.idx 2 4 : Int) < grid.rows * grid.cols :=
  ⟨by decide, (C20_index_in_range grid 2 4 (by decide)).1⟩

/-- A disperser thrown to row -1 of the 3 x 5 raster of SEI cells. -/
theorem nv_C20_outside_untouched :
    landOne grid dispEnv (List.replicate 15 cell) pest (-1, 7) [1/2] =
      .ok (List.replicate 15 cell, { pest with outside := [(9, 9), (-1, 7)] }, false, [1/2]) :=
  C20_outside_untouched grid dispEnv (List.replicate 15 cell) pest (-1, 7) [1/2] (by decide)

end Pops
