/-
  Non-vacuity audit of the host-pool family of property theorems (Props/C01, C01Step, C02, C02Soil,
  C03, C04, C05, C05Arrival, C05Removals, C10, C11, C12, C17): for every theorem with hypotheses,
  one concrete non-trivial instance that satisfies ALL of them simultaneously, with the theorem
  applied to it. Every `nv_*` below is the conclusion of the audited theorem at the instance; the
  hypotheses are discharged in the proof term, so each of them is satisfiable together with the
  others. Findings (hypotheses that are redundant, or that restrict the instance class) are listed
  at the end of the file.
-/
import PopsModel.Props.C01
import PopsModel.Props.C01Step
import PopsModel.Props.C02
import PopsModel.Props.C02Soil
import PopsModel.Props.C03
import PopsModel.Props.C04
import PopsModel.Props.C05
import PopsModel.Props.C05Arrival
import PopsModel.Props.C05Removals
import PopsModel.Props.C10
import PopsModel.Props.C11
import PopsModel.Props.C12
import PopsModel.Props.C17
import PopsModel.Lemmas.NonVacuousHost
namespace Pops

/-! ## Shared instances

  `nvA`: an SEI cell (latency 1: two exposed cohorts, two mortality cohorts), every class non-empty
  except resistant. `nvB`: a second SEI cell with a resistant host. Both are consistent. -/

def nvA : Cell := ⟨10, [2, 3], 4, 0, 5, [1, 3], 0, 19⟩
def nvB : Cell := ⟨2, [0, 1], 1, 1, 1, [0, 1], 0, 5⟩

theorem nvA_nonNeg : nvA.nonNeg = true := by decide
theorem nvA_totalsOK : nvA.totalsOK = true := by decide
theorem nvA_mortOK : nvA.mortOK = true := by decide
theorem nvB_nonNeg : nvB.nonNeg = true := by decide
theorem nvB_totalsOK : nvB.totalsOK = true := by decide
theorem nvB_mortOK : nvB.mortOK = true := by decide

/-- Survival rate 1/2 with per-cohort draws; a reclassification. -/
def nvSurv : CellOp := .survival (1/2) [1, 1] [1, 1]
theorem nvSurv_dom : nvSurv.inDomain nvA := by decide +kernel
theorem nvSurv_run : nvSurv.apply nvA = .ok ⟨14, [1, 2], 2, 0, 3, [0, 2], 0, 19⟩ :=
  eq_ok_of_yields (by decide +kernel)

/-- Host removal with coefficient 1/2; a removal. -/
def nvTreat : CellOp := .simpleTreat (1/2) .ratio
theorem nvTreat_dom : nvTreat.inDomain nvA := by decide +kernel
theorem nvTreat_run : nvTreat.apply nvA = .ok ⟨5, [1, 1], 2, 0, 2, [0, 1], 0, 9⟩ :=
  eq_ok_of_yields (by decide +kernel)

/-- Mortality with rate 1/2 and lag 0; a death. -/
def nvMort : CellOp := .mortality (1/2) 0
theorem nvMort_dom : nvMort.inDomain nvA := by decide +kernel
theorem nvMort_run : nvMort.apply nvA = .ok ⟨10, [2, 3], 2, 0, 5, [2, 0], 2, 17⟩ :=
  eq_ok_of_yields (by decide +kernel)

/-- A host move of 6 hosts out of `nvA` (2 infected, 2 susceptible, 2 exposed), with cohort draws. -/
def nvDraw : ClassDraw := ⟨2, 2, 2, 0⟩
theorem nvDraw_valid : validClassDrawB nvA 6 nvDraw = true := by decide
theorem nvDraw_E : nvDraw.e > 0 → ValidDraw nvA.e nvDraw.e [1, 1] := fun _ => by decide
theorem nvDraw_M : nvDraw.i > 0 → ValidDraw nvA.mort nvDraw.i [0, 2] := fun _ => by decide

/-- A two-cell SEI landscape and a history with mortality, a removal treatment, a host move, a
    latency step (at step 1 = latency, so the front cohort matures) and a survival-rate removal. -/
def nvLand2 : Land := [nvA, nvB]
def nvHist : List LandOp :=
  [.at 0 (.mortality (1/2) 0), .at 0 (.simpleTreat (1/2) .ratio),
   .move 0 1 3 ⟨1, 1, 1, 0⟩ [0, 1] [1, 0], .at 1 (.stepForward .sei 1 1),
   .at 1 (.survival (1/2) [0, 1] [1, 0])]
def nvLand2' : Land :=
  [⟨4, [1, 0], 0, 0, 1, [0, 0], 2, 5⟩, ⟨5, [1, 0], 1, 1, 1, [1, 0], 0, 8⟩]

theorem nvLand2_inv : nvLand2.inv := Land.inv_of_B _ (by decide)
theorem nvLand2_uniform : nvLand2.uniform := Land.uniform_of_B _ (by decide)
theorem nvHist_dom : DomainAlong nvHist nvLand2 := domainAlong_of_B _ _ (by decide +kernel)
theorem nvHist_run : runOps nvHist nvLand2 = .ok nvLand2' := eq_ok_of_yields (by decide +kernel)

/-! ## C01 -/

theorem nv_C01_cell_step_reclassify :
    ledgerOK .reclassify nvA ⟨14, [1, 2], 2, 0, 3, [0, 2], 0, 19⟩ = true :=
  C01_cell_step nvSurv nvA _ nvSurv_dom nvA_nonNeg nvA_totalsOK nvSurv_run

theorem nv_C01_cell_step_removal :
    ledgerOK .removal nvA ⟨5, [1, 1], 2, 0, 2, [0, 1], 0, 9⟩ = true :=
  C01_cell_step nvTreat nvA _ nvTreat_dom nvA_nonNeg nvA_totalsOK nvTreat_run

theorem nv_C01_cell_step_death :
    ledgerOK .death nvA ⟨10, [2, 3], 2, 0, 5, [2, 0], 2, 17⟩ = true :=
  C01_cell_step nvMort nvA _ nvMort_dom nvA_nonNeg nvA_totalsOK nvMort_run

/-- One operation of every kind (all eleven constructors of `CellOp`), each in its documented
    domain at the SEI cell `nvA` and each running successfully there: the domain hypothesis
    `op.inDomain c` of `C01_cell_step` / `C02_nonneg_step` / `C03_totals_step` is inhabited for
    every kind of action, together with consistency of the cell. -/
def nvAllOps : List CellOp :=
  [.add .sei, .dispTo .sei ⟨20, some (1/2), some (4/5)⟩ true 0 (1/10), .pestsFrom 2, .pestsTo 12,
   .simpleTreat (1/2) .allInfected, .pesticideTreat (1/2) .ratio, .pesticideEnd (1/2), nvSurv,
   .lethal [1, 3], nvMort, .stepForward .sei 1 1]

theorem nvAllOps_dom : ∀ op ∈ nvAllOps, op.inDomain nvA := by decide +kernel

theorem nvAllOps_run : ∀ op ∈ nvAllOps, ∃ c', op.apply nvA = .ok c' := by
  have h : (nvAllOps.all fun op => match op.apply nvA with | .ok _ => true | .error _ => false) = true := by
    decide +kernel
  intro op hop
  have := List.all_eq_true.mp h op hop
  cases hr : op.apply nvA with
  | ok c' => exact ⟨c', rfl⟩
  | error e => rw [hr] at this; cases this

theorem nv_C01_cell_step_all : ∀ op ∈ nvAllOps, ∃ c', op.apply nvA = .ok c' ∧ ledgerOK op.ledger nvA c' = true :=
  fun op hop =>
    let ⟨c', h⟩ := nvAllOps_run op hop
    ⟨c', h, C01_cell_step op nvA c' (nvAllOps_dom op hop) nvA_nonNeg nvA_totalsOK h⟩

theorem nv_C01_move :
    let r := moveHosts nvA nvB 6 nvDraw [1, 1] [0, 2]
    moveLedgerOK nvA nvB r.1 r.2.1 = true :=
  C01_move nvA nvB 6 nvDraw [1, 1] [0, 2] nvA_nonNeg nvA_totalsOK nvDraw_valid nvDraw_E rfl

/-- 24 hosts before, 13 after, 2 reported dead, 9 removed by the treatment. -/
theorem nv_C01_history :
    nvLand2'.hosts = nvLand2.hosts - (nvLand2'.died - nvLand2.died) - removedAlong nvHist nvLand2 ∧
    0 ≤ removedAlong nvHist nvLand2 ∧ nvLand2.died ≤ nvLand2'.died ∧ nvLand2'.hosts ≤ nvLand2.hosts :=
  C01_history nvHist nvLand2 nvLand2' nvLand2_inv nvLand2_uniform nvHist_dom nvHist_run

example : removedAlong nvHist nvLand2 = 9 ∧ nvLand2.hosts = 24 ∧ nvLand2'.hosts = 13 ∧ nvLand2'.died = 2 := by
  decide +kernel

/-! ## C01 / C09 per model step

  An SEI spread step (step 1 = latency 1) of a 1 x 2 landscape in which lethal temperature, spread
  (three landings: two establish, one fails), the latency step, overpopulation (cell 0 departs, its
  pests arrive at cell 1), a host move, a removal treatment and mortality all run. -/

def nvCfg : StepCfg :=
  { soils := false, useLethal := true, lethalSched := [false, true], useSurvival := false, survivalSched := [],
    spreadSched := [false, true], useOverpop := true, useMovements := true, useTreatments := true,
    useMortality := true, mortalitySched := [false, true], useSpreadRates := true, rateSched := [false, true],
    useQuarantine := false, quarantineSched := [] }

def nvInp : StepInputs :=
  { g := ⟨1, 2⟩, mt := .sei, latency := 1, suit := [(0, 0), (0, 1)], lethalThreshold := 0,
    temperatures := [5, -3], lethalDraws := [[], [1, 0]], survivalRates := [], survivalDrawsI := [],
    survivalDrawsE := [],
    landings := [(1, ⟨8, none, none⟩, 0), (1, ⟨8, none, none⟩, 9/10), (0, ⟨20, none, none⟩, 1/10)],
    stochasticEst := true, pEst := 0, overThreshold := 1/4, overLeaving := 1/2, overTargets := [(0, 1)],
    moves := [(0, 1, 3, ⟨1, 1, 1, 0⟩, [1, 0], [0, 1])], treatEvents := [(false, false, .ratio, [1/2, 0])],
    mortalityRate := 1/2, mortalityLag := 0 }

def nvLand : Land := [⟨4, [2, 3], 4, 0, 5, [1, 3], 0, 13⟩, ⟨6, [0, 1], 1, 0, 1, [1, 0], 0, 8⟩]
def nvLand' : Land := [⟨2, [1, 0], 0, 0, 1, [1, 0], 1, 3⟩, ⟨4, [3, 0], 4, 0, 3, [1, 0], 0, 11⟩]

theorem nv_plan : (plan nvCfg 1).map (·.1) =
    [.lethal, .spread, .stepForward, .overpopulation, .movement, .treatments, .mortality, .spreadRate] := by
  decide +kernel

theorem nvLand_inv : nvLand.inv := Land.inv_of_B _ (by decide)
theorem nvLand_uniform : nvLand.uniform := Land.uniform_of_B _ (by decide)
theorem nvStep_dom : GensDomainAlong (stepGens nvCfg nvInp 1) nvLand :=
  gensDomainAlong_of_B _ _ (by decide +kernel)
theorem nvStep_run : runStepHosts nvCfg nvInp 1 nvLand = .ok nvLand' := eq_ok_of_yields (by decide +kernel)

theorem nv_C01_generators :
    nvLand'.hosts = nvLand.hosts - (nvLand'.died - nvLand.died) - removedByGens (stepGens nvCfg nvInp 1) nvLand ∧
    0 ≤ removedByGens (stepGens nvCfg nvInp 1) nvLand ∧ nvLand.died ≤ nvLand'.died ∧
    nvLand'.hosts ≤ nvLand.hosts ∧ nvLand'.inv ∧ nvLand'.uniform :=
  C01_generators (stepGens nvCfg nvInp 1) nvLand nvLand' nvLand_inv nvLand_uniform nvStep_dom nvStep_run

/-- 21 hosts before, 14 after, 1 reported dead, 6 removed by the treatment. -/
theorem nv_C01_model_step :
    nvLand'.hosts = nvLand.hosts - (nvLand'.died - nvLand.died) - removedByGens (stepGens nvCfg nvInp 1) nvLand ∧
    0 ≤ removedByGens (stepGens nvCfg nvInp 1) nvLand ∧ nvLand'.hosts ≤ nvLand.hosts ∧ nvLand'.inv :=
  C01_model_step nvCfg nvInp 1 nvLand nvLand' nvLand_inv nvLand_uniform nvStep_dom nvStep_run

example : removedByGens (stepGens nvCfg nvInp 1) nvLand = 6 ∧ nvLand.hosts = 21 ∧ nvLand'.hosts = 14 ∧
    nvLand'.died = 1 := by decide +kernel

/-- Frame: inputs of features that do not run at this step (survival rates; the survival action is
    disabled) can be changed without changing the step. The two input records differ. -/
def nvInp2 : StepInputs := { nvInp with survivalRates := [1/3, 1/3], survivalDrawsI := [[1, 0]], survivalDrawsE := [[0, 1]] }

theorem nv_C09_frame_inputs : runStepHosts nvCfg nvInp 1 nvLand = runStepHosts nvCfg nvInp2 1 nvLand :=
  C09_frame_inputs nvCfg nvInp nvInp2 1 nvLand (by
    intro a ha
    cases a <;> first | rfl | (exact absurd ha (by decide)))

example : nvInp.survivalRates ≠ nvInp2.survivalRates := by decide +kernel

/-! ## C02 -/

theorem nv_C02_nonneg_step : (⟨14, [1, 2], 2, 0, 3, [0, 2], 0, 19⟩ : Cell).nonNeg = true :=
  C02_nonneg_step nvSurv nvA _ nvSurv_dom nvA_nonNeg nvA_totalsOK nvSurv_run

theorem nv_C02_nonneg_step_all : ∀ op ∈ nvAllOps, ∃ c', op.apply nvA = .ok c' ∧ c'.nonNeg = true :=
  fun op hop =>
    let ⟨c', h⟩ := nvAllOps_run op hop
    ⟨c', h, C02_nonneg_step op nvA c' (nvAllOps_dom op hop) nvA_nonNeg nvA_totalsOK h⟩

theorem nv_C02_nonneg_move :
    let r := moveHosts nvA nvB 6 nvDraw [1, 1] [0, 2]
    r.1.nonNeg = true ∧ r.2.1.nonNeg = true :=
  C02_nonneg_move nvA nvB 6 nvDraw [1, 1] [0, 2] nvA_nonNeg nvA_totalsOK nvB_nonNeg (by decide)
    nvDraw_valid nvDraw_E nvDraw_M

theorem nv_C02_infected_le_total : nvA.infectedLeTotal = true :=
  C02_infected_le_total nvA nvA_nonNeg nvA_totalsOK

theorem nv_C02_died_le_infected :
    (2 : Int) - nvA.died ≤ nvA.i ∧ 0 ≤ (2 : Int) - nvA.died :=
  C02_died_le_infected nvA ⟨10, [2, 3], 2, 0, 5, [2, 0], 2, 17⟩ (1/2) 0 nvA_nonNeg nvMort_run

theorem nv_C02_taken_le_present :
    (nvA.pestsTo 12).2 ≤ 12 ∧ (nvA.pestsTo 12).2 ≤ nvA.s ∧ 0 ≤ (nvA.pestsTo 12).2 ∧
    (∀ p : Rat, 0 ≤ p → p ≤ 1 → 0 ≤ lround ((nvA.i : Rat) * p) ∧ lround ((nvA.i : Rat) * p) ≤ nvA.i) ∧
    (∀ count : Int, 0 ≤ count → hostsMoved nvA count ≤ count ∧ hostsMoved nvA count ≤ nvA.th ∧ 0 ≤ hostsMoved nvA count) :=
  C02_taken_le_present nvA 12 nvA_nonNeg (by decide)

theorem nv_C02_history : nvLand2'.inv ∧ nvLand2'.uniform :=
  C02_history nvHist nvLand2 nvLand2' nvLand2_inv nvLand2_uniform nvHist_dom nvHist_run

/-! ## C02 (soil) -/

theorem nv_sumL_nonneg_of_all : 0 ≤ sumL [3, 0, 4] :=
  sumL_nonneg_of_all [3, 0, 4] (by decide)

theorem nv_addLast_nonneg : ∀ x ∈ addLast [3, 0, 4] 2, 0 ≤ x :=
  addLast_nonneg [3, 0, 4] 2 (by decide) (by decide)

theorem nv_C02_soil_release_bounded :
    0 ≤ soilReleaseDet [3, 0, 4] (1/2) ∧ soilReleaseDet [3, 0, 4] (1/2) ≤ sumL [3, 0, 4] ∧
    (∀ (sto : Bool) (pEst u : Rat), ∀ x ∈ soilDisperserTo [3, 0, 4] (1/2) sto pEst u, 0 ≤ x) :=
  C02_soil_release_bounded [3, 0, 4] (1/2) half_in_unit.1 half_in_unit.2 (by decide)

example : soilReleaseDet [3, 0, 4] (1/2) = 3 := by decide +kernel

/-! ## C03 -/

theorem nv_C03_totals_step : (⟨5, [1, 1], 2, 0, 2, [0, 1], 0, 9⟩ : Cell).totalsOK = true :=
  C03_totals_step nvTreat nvA _ nvTreat_dom nvA_nonNeg nvA_totalsOK nvTreat_run

theorem nv_C03_totals_step_all : ∀ op ∈ nvAllOps, ∃ c', op.apply nvA = .ok c' ∧ c'.totalsOK = true :=
  fun op hop =>
    let ⟨c', h⟩ := nvAllOps_run op hop
    ⟨c', h, C03_totals_step op nvA c' (nvAllOps_dom op hop) nvA_nonNeg nvA_totalsOK h⟩

theorem nv_C03_totals_move :
    let r := moveHosts nvA nvB 6 nvDraw [1, 1] [0, 2]
    r.1.totalsOK = true ∧ r.2.1.totalsOK = true :=
  C03_totals_move nvA nvB 6 nvDraw [1, 1] [0, 2] nvA_nonNeg nvA_totalsOK nvB_totalsOK
    nvDraw_valid nvDraw_E nvDraw_M rfl

/-- A ratio treatment whose per-cohort rounding agrees with the rounding of the total
    (cohorts [2, 4], coefficient 1/2): the F20 side condition `roundingOK` is met non-trivially. -/
def nvC : Cell := ⟨10, [2, 3], 6, 0, 5, [2, 4], 0, 21⟩

theorem nv_C03_cohorts_step_partial : (⟨5, [1, 1], 3, 0, 2, [1, 2], 0, 10⟩ : Cell).mortOK = true :=
  C03_cohorts_step_partial nvTreat nvC _ (by decide +kernel) (by decide) (by decide) (by decide) rfl
    (show roundingAgrees rceil (1/2) nvC = true by decide +kernel)
    (eq_ok_of_yields (by decide +kernel))

/-- The same theorem for an action without side condition (survival rate 1/2 on `nvA`). -/
theorem nv_C03_cohorts_step_partial_survival : (⟨14, [1, 2], 2, 0, 3, [0, 2], 0, 19⟩ : Cell).mortOK = true :=
  C03_cohorts_step_partial nvSurv nvA _ nvSurv_dom nvA_nonNeg nvA_totalsOK nvA_mortOK rfl trivial nvSurv_run

theorem nv_C03_mortality_never_fails : ∃ c', (CellOp.mortality (1/2) 1).apply nvA = .ok c' :=
  C03_mortality_never_fails nvA (1/2) 1 half_in_unit (by decide) nvA_nonNeg nvA_totalsOK nvA_mortOK

theorem nv_C03_cohorts_move :
    let r := moveHosts nvA nvB 6 nvDraw [1, 1] [0, 2]
    r.1.mortOK = true ∧ r.2.1.mortOK = true :=
  C03_cohorts_move nvA nvB 6 nvDraw [1, 1] [0, 2] nvA_nonNeg nvA_totalsOK nvA_mortOK nvB_mortOK
    nvDraw_valid nvDraw_M rfl

/-! ## C04 -/

theorem nv_C04_soil_split :
    0 ≤ soilShare (some (1/2)) 7 ∧ soilShare (some (1/2)) 7 ≤ 7 ∧
    soilShare (some (1/2)) 7 + (7 - soilShare (some (1/2)) 7) = 7 ∧ soilShare none 7 = 0 :=
  C04_soil_split (1/2) 7 half_in_unit.1 half_in_unit.2 (by decide)

example : soilShare (some (1/2)) 7 = 4 := by decide +kernel

/-- A release that takes half (rounded down) of every cohort: a function that satisfies the
    universally quantified hypothesis `hrel` of `C04_soil_ages_out` and is not the identity. -/
def nvRelease (l : List Int) : List Int := l.map fun x => x - x / 2

theorem nvRelease_ok (l : List Int) : (nvRelease l).length = l.length ∧
    ∀ k : Nat, k < l.length → 0 ≤ l[k]! → (0 ≤ (nvRelease l)[k]! ∧ (nvRelease l)[k]! ≤ l[k]!) := by
  refine ⟨by simp [nvRelease], fun k hk h0 => ?_⟩
  have hk' : k < (nvRelease l).length := by simpa [nvRelease] using hk
  rw [getElem!_pos (nvRelease l) k hk']
  rw [getElem!_pos l k hk] at h0 ⊢
  simp only [nvRelease, List.getElem_map]
  omega

theorem nv_C04_soil_ages_out :
    ∀ x ∈ iter (fun l => soilNext (nvRelease l)) [3, 0, 4].length [3, 0, 4], x = 0 :=
  C04_soil_ages_out [3, 0, 4] nvRelease nvRelease_ok (by decide)

example : nvRelease [3, 0, 4] = [2, 0, 2] := by decide

/-- Dispersal on the 1 x 2 SEI landscape `nvLand` with weather, stochastic establishment. -/
def nvG : Grid := ⟨1, 2⟩
def nvEnv : DisperseEnv := { mt := .sei, stochastic := true, pEst := 0, npop := [20, 8], w := some [1, 1/2] }
def nvP : PestState := ⟨[2, 1], [0, 0], []⟩
def nvLandE : Land := [⟨4, [2, 3], 4, 0, 5, [1, 3], 0, 13⟩, ⟨5, [0, 2], 1, 0, 2, [1, 0], 0, 8⟩]

theorem nvLand_exposed : nvEnv.mt = .sei → ∀ c ∈ nvLand, c.e ≠ [] := fun _ => by decide

/-- A disperser landing inside the study area and establishing (draw 1/10 < 6/8 x 1/2). -/
theorem nv_C04_each_disperser_once_inside :
    (nvG.isOutside 0 1 = true → nvLandE = nvLand ∧ nvP.outside = nvP.outside ++ [(0, 1)] ∧ true = false) ∧
    (nvG.isOutside 0 1 = false → nvP = nvP ∧ nvLandE.length = nvLand.length ∧
      (∀ k : Nat, k ≠ nvG.idx 0 1 → nvLandE[k]? = nvLand[k]?) ∧
      (true = true → (nvLandE[nvG.idx 0 1]!).s = (nvLand[nvG.idx 0 1]!).s - 1 ∧
          (nvLandE[nvG.idx 0 1]!).hosts = (nvLand[nvG.idx 0 1]!).hosts) ∧
      (true = false → nvLandE = nvLand)) ∧
    nvP.disp = nvP.disp ∧ nvP.est = nvP.est :=
  C04_each_disperser_once nvG nvEnv nvLand nvLandE nvP nvP (0, 1) [1/10, 7/10] [7/10] true nvLand_exposed
    (eq_ok_of_yields (by decide +kernel))

/-- A disperser leaving the study area. -/
theorem nv_C04_each_disperser_once_outside :
    let p' : PestState := ⟨[2, 1], [0, 0], [(0, 5)]⟩
    (nvG.isOutside 0 5 = true → nvLand = nvLand ∧ p'.outside = nvP.outside ++ [(0, 5)] ∧ false = false) ∧
    (nvG.isOutside 0 5 = false → p' = nvP ∧ nvLand.length = nvLand.length ∧
      (∀ k : Nat, k ≠ nvG.idx 0 5 → nvLand[k]? = nvLand[k]?) ∧
      (false = true → (nvLand[nvG.idx 0 5]!).s = (nvLand[nvG.idx 0 5]!).s - 1 ∧
          (nvLand[nvG.idx 0 5]!).hosts = (nvLand[nvG.idx 0 5]!).hosts) ∧
      (false = false → nvLand = nvLand)) ∧
    p'.disp = nvP.disp ∧ p'.est = nvP.est :=
  C04_each_disperser_once nvG nvEnv nvLand nvLand nvP ⟨[2, 1], [0, 0], [(0, 5)]⟩ (0, 5) [1/10, 7/10] [1/10, 7/10]
    false nvLand_exposed (eq_ok_of_yields (by decide +kernel))

/-- Three dispersers of origin cell 0: one establishes at cell 1, one leaves the study area, one
    fails at cell 0 (draw 7/10 >= 4/20); a fourth kernel result is left over. -/
theorem nv_C04_ledger_cell :
    let p' : PestState := ⟨[2, 1], [1, 0], [(0, 5)]⟩
    totalS nvLand - totalS nvLandE = p'.est[0]! - nvP.est[0]! ∧
    0 ≤ p'.est[0]! - nvP.est[0]! ∧ p'.est[0]! - nvP.est[0]! ≤ (3 : Nat) ∧
    p'.est.length = nvP.est.length ∧ (∀ k : Nat, k ≠ 0 → p'.est[k]? = nvP.est[k]?) ∧
    p'.disp = nvP.disp ∧ [(0, 1), (0, 5), (0, 0), ((0 : Int), (1 : Int))].length - [((0 : Int), (1 : Int))].length ≤ 3 ∧
    nvLandE.length = nvLand.length :=
  C04_ledger_cell nvG nvEnv 0 3 nvLand nvLandE nvP ⟨[2, 1], [1, 0], [(0, 5)]⟩
    [(0, 1), (0, 5), (0, 0), (0, 1)] [(0, 1)] [1/10, 7/10, 1/20] [1/20]
    (by decide) (eq_ok_of_yields (by decide +kernel))

/-- A whole dispersal: cell 0 sends two dispersers (one establishes at cell 1, one leaves), cell 1
    sends one (establishes at cell 0). -/
def nvLandE2 : Land := [⟨3, [2, 4], 4, 0, 6, [1, 3], 0, 13⟩, ⟨5, [0, 2], 1, 0, 2, [1, 0], 0, 8⟩]

theorem nv_C04_ledger :
    let p' : PestState := ⟨[2, 1], [1, 1], [(0, 5)]⟩
    totalS nvLand - totalS nvLandE2 = sumL p'.est - sumL nvP.est ∧ p'.disp = nvP.disp :=
  C04_ledger nvG nvEnv [(0, 0), (0, 1)] nvLand nvLandE2 nvP ⟨[2, 1], [1, 1], [(0, 5)]⟩
    [(0, 1), (0, 5), (0, 0), (0, 1)] [(0, 1)] [1/10, 1/20, 7/10] [7/10]
    (by decide) (eq_ok_of_yields (by decide +kernel))

example : totalS nvLand - totalS nvLandE2 = 2 := by decide

/-! ## C05 -/

/-- SEI cell with latency 2 (three exposed cohorts). -/
def nvL2 : Cell := ⟨5, [1, 0, 2], 3, 0, 3, [3], 0, 11⟩

/-- Step 3 >= latency 2: the front cohort matures. -/
theorem nv_C05_shift_late : stepForwardSpec 2 3 nvL2 (nvL2.stepForward .sei 2 3) = true :=
  C05_shift 2 3 nvL2 (by decide)
/-- Step 1 < latency 2: cohorts only rotate. -/
theorem nv_C05_shift_early : stepForwardSpec 2 1 nvL2 (nvL2.stepForward .sei 2 1) = true :=
  C05_shift 2 1 nvL2 (by decide)

example : nvL2.stepForward .sei 2 3 = ⟨5, [0, 2, 0], 4, 0, 2, [4], 0, 11⟩ ∧
    nvL2.stepForward .sei 2 1 = ⟨5, [0, 2, 1], 3, 0, 3, [3], 0, 11⟩ := by decide

theorem nv_C05_no_early_transition :
    (nvL2.stepForward .sei 2 1).i = nvL2.i ∧ (nvL2.stepForward .sei 2 1).mort = nvL2.mort ∧
    nvL2.stepForward .si 2 1 = nvL2 :=
  C05_no_early_transition 2 1 nvL2 (by decide)

/-- Four spread steps (more than the latency 2), numbered from step 2, exposures 3, 1, 4, 2. -/
def nvL2big : Cell := ⟨20, [1, 0, 2], 3, 0, 3, [3], 0, 26⟩

theorem nv_C05_exact_latency :
    (latencyRun 2 2 [3, 1, 4, 2] nvL2big).i =
      nvL2big.i + sumL (nvL2big.e.take [3, 1, 4, (2 : Int)].length) +
        sumL ([3, 1, 4, (2 : Int)].take ([3, 1, 4, (2 : Int)].length - 2)) ∧
    (latencyRun 2 2 [3, 1, 4, 2] nvL2big).e.length = 2 + 1 ∧
    sumL (latencyRun 2 2 [3, 1, 4, 2] nvL2big).e =
      sumL (nvL2big.e.drop [3, 1, 4, (2 : Int)].length) +
        sumL ([3, 1, 4, (2 : Int)].drop ([3, 1, 4, (2 : Int)].length - 2)) :=
  C05_exact_latency 2 2 [3, 1, 4, 2] nvL2big rfl (by decide)

example : latencyRun 2 2 [3, 1, 4, 2] nvL2big = ⟨10, [4, 2, 0], 10, 0, 6, [10], 0, 26⟩ := by decide

/-- Latency 0 (one exposed cohort, empty between steps), two landings. -/
def nvL0 : Cell := ⟨5, [0], 3, 0, 0, [1, 2], 0, 8⟩

theorem nv_C05_L0_equals_SI :
    (Cell.addN .sei 2 nvL0).stepForward .sei 0 3 = { Cell.addN .si 2 nvL0 with e := [0], te := 0 } :=
  C05_L0_equals_SI 2 3 nvL0 rfl rfl (by decide)

example : (Cell.addN .sei 2 nvL0).stepForward .sei 0 3 = ⟨3, [0], 5, 0, 0, [1, 4], 0, 8⟩ := by decide

/-! ## C05 (arrivals) -/

theorem nv_dropLast_addLast : (addLast [2, 3] 1).dropLast = [2, (3 : Int)].dropLast :=
  dropLast_addLast [2, 3] 1

/-- An establishing landing at `nvA` through the wrapper: weather 1/2, susceptibility 4/5,
    population 20, suitability 1/5, draw 1/10. -/
theorem nv_C05_arrival_stays_exposed :
    arrivalsStayExposed nvA ⟨9, [2, 4], 4, 0, 6, [1, 3], 0, 19⟩ = true :=
  C05_arrival_stays_exposed nvA _ ⟨20, some (1/2), some (4/5)⟩ true 0 (1/10) 1 1 (by decide)
    (eq_ok_of_yields (by decide +kernel))

theorem nv_C05_arrivals_compose :
    arrivalsStayExposed nvL2 ⟨3, [1, 0, 4], 3, 0, 5, [3], 0, 11⟩ = true :=
  C05_arrivals_compose nvL2 ⟨4, [1, 0, 3], 3, 0, 4, [3], 0, 11⟩ ⟨3, [1, 0, 4], 3, 0, 5, [3], 0, 11⟩
    (by decide) (by decide)

/-! ## C05 (removals) -/

/-- Latency 1, steps numbered from 1: three spread steps with two removals from the exposed
    cohorts in between. -/
def nvLatOps : List LatOp := [.spread 2, .remove [1, 0], .spread 1, .remove [1, 0], .spread 3]

theorem nvLatOps_valid : ValidHistory 1 1 nvLatOps nvA := by
  simp only [nvLatOps, ValidHistory]
  decide +kernel

theorem nv_C05_latency_with_removals :
    (latencyHistory 1 1 nvLatOps nvA).i ≤
      nvA.i + sumL (nvA.e.take (exposures nvLatOps).length) +
        sumL ((exposures nvLatOps).take ((exposures nvLatOps).length - 1)) ∧
    nvA.i ≤ (latencyHistory 1 1 nvLatOps nvA).i :=
  C05_latency_with_removals 1 1 nvLatOps nvA rfl (by decide) (by decide) nvLatOps_valid

/-- Infected 4 -> 10; the bound is 4 + 5 + 3 = 12 (strict: 2 hosts were removed while exposed). -/
example : (latencyHistory 1 1 nvLatOps nvA).i = 10 ∧ exposures nvLatOps = [2, 1, 3] := by decide

/-! ## C10 -/

theorem nv_C10_removal_ratio :
    ∃ c', nvA.simpleTreat (1/2) .ratio = .ok c' ∧
      simpleTreatSpec (1/2) (TreatApp.ratio == .allInfected) nvA c' = true ∧ c'.totalsOK = true :=
  C10_removal (1/2) .ratio nvA half_in_unit.1 half_in_unit.2 nvA_nonNeg nvA_totalsOK nvA_mortOK

theorem nv_C10_removal_allInfected :
    ∃ c', nvA.simpleTreat (1/2) .allInfected = .ok c' ∧
      simpleTreatSpec (1/2) (TreatApp.allInfected == .allInfected) nvA c' = true ∧ c'.totalsOK = true :=
  C10_removal (1/2) .allInfected nvA half_in_unit.1 half_in_unit.2 nvA_nonNeg nvA_totalsOK nvA_mortOK

example : nvA.simpleTreat (1/2) .allInfected = .ok ⟨5, [0, 0], 0, 0, 0, [0, 0], 0, 5⟩ :=
  eq_ok_of_yields (by decide +kernel)

theorem nv_C10_pesticide :
    ∃ c', nvA.pesticideTreat (1/2) .ratio = .ok c' ∧
      pesticideTreatSpec (1/2) (TreatApp.ratio == .allInfected) nvA c' = true ∧ c'.totalsOK = true :=
  C10_pesticide (1/2) .ratio nvA half_in_unit.1 half_in_unit.2 nvA_nonNeg nvA_totalsOK

example : nvA.pesticideTreat (1/2) .ratio = .ok ⟨5, [1, 2], 2, 9, 3, [1, 2], 0, 19⟩ :=
  eq_ok_of_yields (by decide +kernel)

/-- On `nvB`, which already holds a resistant host. -/
theorem nv_C10_coef_zero_one :
    nvB.simpleTreat 0 .ratio = .ok nvB ∧ nvB.pesticideTreat 0 .ratio = .ok nvB ∧
    (∃ c', nvB.simpleTreat 1 .ratio = .ok c' ∧ c'.s = 0 ∧ c'.i = 0 ∧ (∀ x ∈ c'.e, x = 0) ∧
        (∀ x ∈ c'.mort, x = 0) ∧ c'.r = nvB.r ∧ c'.th = nvB.r) ∧
    (∃ c', nvB.pesticideTreat 1 .ratio = .ok c' ∧ c'.s = 0 ∧ c'.i = 0 ∧ (∀ x ∈ c'.e, x = 0) ∧
        (∀ x ∈ c'.mort, x = 0) ∧ c'.r = nvB.hosts) :=
  C10_coef_zero_one .ratio nvB nvB_nonNeg nvB_totalsOK nvB_mortOK

/-- An establishing landing on `nvB` (susceptible 2, resistant 1, population 5, draw 1/10 < 2/5). -/
theorem nv_C10_resistant_not_infected :
    let c' : Cell := ⟨1, [0, 2], 1, 1, 2, [0, 1], 0, 5⟩
    c'.r = nvB.r ∧ ((1 : Int) = 0 ∨ (1 : Int) = 1) ∧ c'.s = nvB.s - 1 ∧ (nvB.s ≤ 0 → (1 : Int) = 0) :=
  C10_resistant_not_infected .sei nvB ⟨5, none, none⟩ true 0 (1/10) ⟨1, [0, 2], 1, 1, 2, [0, 1], 0, 5⟩ 1 1
    (eq_ok_of_yields (by decide +kernel))

/-- A pesticide starting at step 2 and ending at step 5, looked at at step 5. -/
theorem nv_C10_when :
    let t : TreatSpec := ⟨true, 2, 5⟩
    (t.eventAt 5 = .apply ↔ 5 = t.start) ∧
    (t.eventAt 5 = .finish ↔ (t.pesticide = true ∧ 5 = t.end_)) ∧
    (t.eventAt 5 = .nothing ↔ (5 ≠ t.start ∧ ¬ (t.pesticide = true ∧ 5 = t.end_))) :=
  C10_when ⟨true, 2, 5⟩ (fun _ => by decide) 5

/-! ## C11 -/

/-- Three mortality cohorts, SEI, consistent. -/
def nvM : Cell := ⟨5, [0, 1], 9, 0, 1, [1, 2, 6], 0, 15⟩

theorem nvM_nonNeg : nvM.nonNeg = true := by decide
theorem nvM_totalsOK : nvM.totalsOK = true := by decide
theorem nvM_mortOK : nvM.mortOK = true := by decide

/-- Rate 1/2, lag 1: cohort 0 dies, cohort 1 loses floor(1/2 x 2), cohort 2 is within the lag. -/
theorem nv_C11_who_dies :
    ∃ c', (CellOp.mortality (1/2) 1).apply nvM = .ok c' ∧ mortalitySpec (1/2) 1 nvM c' = true :=
  C11_who_dies nvM (1/2) 1 half_in_unit.2 (by decide) nvM_nonNeg nvM_totalsOK nvM_mortOK

example : (CellOp.mortality (1/2) 1).apply nvM = .ok ⟨5, [0, 1], 7, 0, 1, [1, 6, 0], 2, 13⟩ :=
  eq_ok_of_yields (by decide +kernel)

/-- Three mortality steps (the tracker length) with new infections 1, 0, 2 in between. -/
theorem nv_C11_eventual_death :
    let c' : Cell := ⟨2, [0, 1], 3, 0, 1, [1, 0, 2], 9, 6⟩
    sumL c'.mort ≤ sumL [1, 0, 2] ∧ nvM.i ≤ c'.died - nvM.died :=
  C11_eventual_death nvM ⟨2, [0, 1], 3, 0, 1, [1, 0, 2], 9, 6⟩ (1/2) 1 [1, 0, 2]
    (by decide +kernel) half_in_unit.2 (by decide) (by decide) nvM_nonNeg nvM_mortOK
    (by decide) rfl (eq_ok_of_yields (by decide +kernel))

/-! ## C12 -/

/-- `nvA` with weather 1/2, susceptibility 4/5, population 20: suitability 10/20 x 4/5 x 1/2 = 1/5;
    stochastic establishment with draw 1/10 (establishes). -/
def nvEnvCell : EnvCell := ⟨20, some (1/2), some (4/5)⟩

theorem nvA_suit : nvA.suitability nvEnvCell = .ok (1/5) := by
  have h : yields (nvA.suitability nvEnvCell) (1/5) = true := by decide +kernel
  exact eq_ok_of_yields h

theorem nv_C12_establish_event :
    ∃ c' k n, nvA.disperserTo .sei nvEnvCell true 0 (1/10) = .ok (c', k, n) ∧
      establishSpec nvA nvEnvCell true 0 (1/10) k = true ∧ landingSpec .sei nvA c' k = true ∧
      (k = 1 ↔ (nvA.s > 0 ∧ (if true then (1/10 : Rat) else 1 - 0) < 1/5)) :=
  C12_establish_event .sei nvA nvEnvCell true 0 (1/10) (1/5) ⟨fun _ => by decide, fun _ => by decide⟩ nvA_suit

/-- The same cell in the SI model, deterministic establishment with probability 1/2 (fails:
    1 - 1/2 >= 1/5). -/
theorem nv_C12_establish_event_si :
    ∃ c' k n, nvA.disperserTo .si nvEnvCell false (1/2) 0 = .ok (c', k, n) ∧
      establishSpec nvA nvEnvCell false (1/2) 0 k = true ∧ landingSpec .si nvA c' k = true ∧
      (k = 1 ↔ (nvA.s > 0 ∧ (if false then (0 : Rat) else 1 - 1/2) < 1/5)) :=
  C12_establish_event .si nvA nvEnvCell false (1/2) 0 (1/5) ⟨fun _ => by decide, fun _ => by decide⟩ nvA_suit

/-- A cell without susceptible hosts (but exposed and infected ones). -/
theorem nv_C12_no_susceptible :
    (⟨0, [2, 3], 4, 0, 5, [1, 3], 0, 9⟩ : Cell).disperserTo .sei nvEnvCell true 0 (1/10) =
      .ok (⟨0, [2, 3], 4, 0, 5, [1, 3], 0, 9⟩, 0, 0) :=
  C12_no_susceptible .sei ⟨0, [2, 3], 4, 0, 5, [1, 3], 0, 9⟩ nvEnvCell true 0 (1/10) (by decide)

/-- 10 susceptible in a total population of 5: suitability 2 > 1. -/
theorem nv_C12_suitability_range_rejected :
    nvA.suitability ⟨5, none, none⟩ = .error .invalid_argument :=
  C12_suitability_range_rejected nvA ⟨5, none, none⟩ (Or.inr (by decide +kernel))

/-- Negative weather coefficient: suitability 10/20 x (-1/2) < 0. -/
theorem nv_C12_suitability_range_rejected_neg :
    nvA.suitability ⟨20, some (-1/2), none⟩ = .error .invalid_argument :=
  C12_suitability_range_rejected nvA ⟨20, some (-1/2), none⟩ (Or.inl (by decide +kernel))

theorem nv_C12_lethal :
    lethalSpec true nvA (nvA.removeAllInfected [1, 3]) = true ∧ (nvA.removeAllInfected [1, 3]).mortOK = true ∧
    (∀ x ∈ (nvA.removeAllInfected [1, 3]).mort, x = 0) :=
  C12_lethal nvA [1, 3] nvA_nonNeg nvA_mortOK (by decide)

theorem nv_C12_survival : survivalSpec (1/2) nvA ⟨14, [1, 2], 2, 0, 3, [0, 2], 0, 19⟩ = true :=
  C12_survival nvA (1/2) [1, 1] [1, 1] nvSurv_dom _ nvSurv_run

/-! ## C17 -/

theorem nv_C17_leaving :
    0 ≤ leavingCount (1/2) nvA ∧ leavingCount (1/2) nvA ≤ nvA.i ∧
    (nvA.pestsFrom (leavingCount (1/2) nvA)).1.i = nvA.i - leavingCount (1/2) nvA ∧
    (nvA.pestsFrom (leavingCount (1/2) nvA)).1.s = nvA.s + leavingCount (1/2) nvA ∧
    (nvA.pestsFrom (leavingCount (1/2) nvA)).2 = leavingCount (1/2) nvA :=
  C17_leaving (1/2) nvA half_in_unit.1 half_in_unit.2 (by decide)

example : leavingCount (1/2) nvA = 2 := by decide +kernel

/-- 12 pests arrive at a cell with 10 susceptible hosts: 10 establish. -/
theorem nv_C17_arrival :
    (nvA.pestsTo 12).2 = min 12 nvA.s ∧ (nvA.pestsTo 12).1.i = nvA.i + min 12 nvA.s ∧
    (nvA.pestsTo 12).1.s = nvA.s - min 12 nvA.s :=
  C17_arrival nvA 12

/-- Departures on `nvLand` (threshold 1/4, leaving share 1/2): cell 0 (4 of 8) departs, cell 1
    (1 infected) does not. -/
theorem nv_C17_two_phase :
    let r := departGo nvG (1/4) (1/2) [(0, 0), (0, 1)] nvLand nvP [(0, 1)] []
    r.1.length = nvLand.length ∧
    (∀ k : Nat, k < nvLand.length → (r.1[k]!).i ≤ (nvLand[k]!).i ∧
        (r.1[k]!).s + (r.1[k]!).i = (nvLand[k]!).s + (nvLand[k]!).i) ∧
    (∀ m ∈ r.2.2.2, m ∈ ([] : List (Int × Int × Int)) ∨ nvG.isOutside m.1 m.2.1 = false) ∧
    (∀ k : Nat, k < nvLand.length → departs (1/4) (nvLand[k]!) = false → r.1[k]! = nvLand[k]!) :=
  C17_two_phase nvG (1/4) (1/2) [(0, 0), (0, 1)] nvLand nvP [(0, 1)] [] half_in_unit.1 half_in_unit.2
    (by decide)

example : (departGo nvG (1/4) (1/2) [(0, 0), (0, 1)] nvLand nvP [(0, 1)] []).2.2.2 = [(0, 1, 2)] := by
  decide +kernel

theorem nvLand_departs : departs (1/4) (nvLand[nvG.idx 0 0]!) = true := by decide +kernel

/-- The departing cell's 2 pests are sent outside the study area, to (0, 7). -/
theorem nv_C17_outside_recorded :
    let res := departGo nvG (1/4) (1/2) [(0, 0)] nvLand nvP [(0, 7)] []
    (nvG.isOutside 0 7 = true →
      res.2.1.outside = nvP.outside ++ List.replicate (leavingCount (1/2) (nvLand[nvG.idx 0 0]!)).toNat (0, 7) ∧
        res.2.2.2 = []) ∧
    (nvG.isOutside 0 7 = false →
      res.2.1.outside = nvP.outside ∧ res.2.2.2 = [(0, 7, leavingCount (1/2) (nvLand[nvG.idx 0 0]!))]) :=
  C17_outside_recorded nvG (1/4) (1/2) 0 0 nvLand nvP (0, 7) nvLand_departs

example : (departGo nvG (1/4) (1/2) [(0, 0)] nvLand nvP [(0, 7)] []).2.1.outside = [(0, 7), (0, 7)] := by
  decide +kernel

/-- A movement table with rows scheduled at steps 1, 1, 3, 7; cursor 0, step 1. -/
theorem nv_C17_movement_rows :
    let r := movementRows [1, 1, 3, 7] 0 1
    0 ≤ r.2 ∧ r.2 ≤ [1, 1, 3, 7].length ∧
    r.1 = (List.range (r.2 - 0)).map (· + 0) ∧
    (∀ i, 0 ≤ i → i < r.2 → [1, 1, 3, 7][i]! = 1) ∧
    (r.2 < [1, 1, 3, 7].length → [1, 1, 3, 7][r.2]! ≠ 1) :=
  C17_movement_rows [1, 1, 3, 7] 0 1 (by decide)

example : movementRows [1, 1, 3, 7] 0 1 = ([0, 1], 2) := by decide

theorem nvSched_mono : ∀ i j, i ≤ j → j < [1, 1, 3, 7].length → [1, 1, 3, 7][i]! ≤ [1, 1, 3, 7][j]! := by
  have h : ∀ j, j < 4 → ∀ i, i ≤ j → [1, 1, 3, 7][i]! ≤ [1, 1, 3, 7][j]! := by decide
  intro i j hij hj
  exact h j hj i hij

theorem nvSched_steps : ∀ i, i < [1, 1, 3, 7].length →
    [1, 1, 3, 7][i]! ∈ [1, 3, 4] ∨ ∀ s ∈ [1, 3, 4], s < [1, 1, 3, 7][i]! := by decide

/-- The same table over the (non-contiguous) spread steps 1, 3, 4 of a run: rows 0, 1 are applied
    at step 1, row 2 at step 3, row 3 (step 7) lies beyond the run. -/
theorem nv_C17_movement_once :
    let run := movementRunOn [1, 1, 3, 7] [1, 3, 4] 0
    (run.flatMap (·.2)) = (List.range [1, 1, 3, 7].length).filter (fun i => decide ([1, 1, 3, 7][i]! ∈ [1, 3, 4])) ∧
    (∀ e ∈ run, ∀ i ∈ e.2, [1, 1, 3, 7][i]! = e.1) ∧ run.map (·.1) = [1, 3, 4] :=
  C17_movement_once [1, 1, 3, 7] [1, 3, 4] nvSched_mono (by decide) nvSched_steps

example : movementRunOn [1, 1, 3, 7] [1, 3, 4] 0 = [(1, [0, 1]), (3, [2]), (4, [])] := by decide

theorem nv_C17_movement_amount :
    let r := moveHosts nvA nvB 6 nvDraw [1, 1] [0, 2]
    r.2.2 = min 6 nvA.hosts ∧ nvA.hosts - r.1.hosts = min 6 nvA.hosts ∧
    r.2.1.hosts - nvB.hosts = min 6 nvA.hosts ∧
    addL r.1.e r.2.1.e = addL nvA.e nvB.e ∧ addL r.1.mort r.2.1.mort = addL nvA.mort nvB.mort :=
  C17_movement_amount nvA nvB 6 nvDraw [1, 1] [0, 2] nvA_nonNeg nvA_totalsOK
    nvDraw_valid nvDraw_E nvDraw_M rfl rfl

/-- More hosts requested (25) than present (19): everything moves. -/
theorem nv_C17_movement_amount_clamped :
    let r := moveHosts nvA nvB 25 ⟨4, 10, 5, 0⟩ [2, 3] [1, 3]
    r.2.2 = min 25 nvA.hosts ∧ nvA.hosts - r.1.hosts = min 25 nvA.hosts ∧
    r.2.1.hosts - nvB.hosts = min 25 nvA.hosts ∧
    addL r.1.e r.2.1.e = addL nvA.e nvB.e ∧ addL r.1.mort r.2.1.mort = addL nvA.mort nvB.mort :=
  C17_movement_amount nvA nvB 25 ⟨4, 10, 5, 0⟩ [2, 3] [1, 3] nvA_nonNeg nvA_totalsOK
    (by decide) (fun _ => by decide) (fun _ => by decide) rfl rfl

/-! ## Findings

  * No theorem of this family is vacuous: every hypothesis set above is met by an SEI instance with
    latency > 0, several cohorts, ratios strictly between 0 and 1 and a 1 x 2 grid. In particular
    `GensDomainAlong` (the corrected hypothesis of `C01_generators` / `C01_model_step`) holds for a
    spread step in which the latency step is part of the plan (`nv_plan`, `nvStep_dom`).
  * Theorems without hypotheses (nothing to instantiate): `C09_compose`, `C09_measurements_pure`,
    `C02_soil_stochastic_full_fails`, `C03_cohorts_full_fails`, `C04_generation`,
    `C10_pesticide_end`, `C10_cleared_never_run`, `C11_rate_zero`, `C17_departure_rule`.
  * Hypotheses that were satisfiable but not used by the proof have since been removed from the
    statements: `C01_move` (hM, hlenM), `C02_nonneg_move` (hlenE, hlenM), `C03_totals_move` (hc, hlenM),
    `C04_ledger_cell` (hin), `C04_ledger` (hin), `C10_pesticide` (hm), `C11_who_dies` (hr0),
    `C11_eventual_death` (ht), `C12_lethal` (ht), `C12_survival` (hn, ht, hm), `C17_arrival` (hs, hk),
    `C17_movement_amount` (hc); `C05_shift` (hlen) was weakened to `c.e ≠ []`.
    Still present although not used by the proof, because outside them the C++ is undefined or
    throws while the model is total (see the doc comments of the theorems):
    `C03_mortality_never_fails` (hl), `C05_shift` (he), `C05_L0_equals_SI` (hm),
    `C12_establish_event` (hdom), `C12_survival` (hd).
  * Hypotheses that restrict the scope (by design, not degenerate): `C05_exact_latency` and
    `C05_latency_with_removals` only speak about runs whose first step number is >= the latency;
    `C05_L0_equals_SI` needs `e = [0]`, `te = 0`, which is the state between steps when the latency
    is 0; `C17_movement_once` needs every scheduled row to lie on a spread step or beyond the run;
    `C04_soil_ages_out` takes one release function for all steps (it must satisfy `hrel` on every
    list; `nvRelease` does). -/

end Pops
