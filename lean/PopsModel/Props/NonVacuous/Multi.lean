/-
  Non-vacuity audit of Props/C16.lean, Props/C18.lean, Props/C18List.lean and Props/C19.lean.

  For every theorem of those files that has hypotheses, one concrete non-trivial instance that
  satisfies ALL of them at once is exhibited, and the theorem is applied to it: every statement
  below has the form `hypothesis 1 ∧ ... ∧ hypothesis n ∧ conclusion of the theorem for the instance`
  (the conclusion is left to unification - `_` - where it is long; it is the theorem's own).
  Where the hypotheses sit inside the conclusion (`(∀ ..., premise → ...)` conjuncts) the premise is
  discharged for the instance as well.  Theorems without hypotheses are listed in a comment.

  Concrete `Rat` computations are checked by `decide +kernel` (no axiom beyond the three allowed).
  Helper definitions: Lemmas/NonVacuousMulti.lean.
-/
import PopsModel.Lemmas.NonVacuousMulti
namespace Pops
/- Everything lives in `Pops.NVMulti`, so that the instance names cannot collide with those of the
   other audit files. -/
namespace NVMulti

attribute [local instance] nvmDecEqExcept nvmDecValidDraw nvmDecValidSplit nvmDecInRange

/-! # C16  several hosts

  Without hypotheses (nothing to exhibit): `C16_sums`, `C16_single_host_negative_susceptible`,
  `C16_single_host_stream_full_fails`, `C16_competency_scaling`, `C16_table_validation`,
  `C16_move_first_host_only`.

  The common instance: two hosts at one cell with total population 10 and weather coefficient 1/2;
  host 0 is an SEI host (two exposed cohorts, stochastic establishment), host 1 an SI host
  (deterministic establishment, probability 19/20); a pest-host table with different
  susceptibilities (1/2, 1), mortality rates (1/2, 1) and time lags (0, 1); a partial competency
  table with three rows. -/

def nvA : Cell := { s := 4, e := [0, 1], i := 2, r := 1, te := 1, mort := [1, 1], died := 0, th := 8 }
def nvB : Cell := { s := 2, e := [], i := 3, r := 0, te := 0, mort := [2, 1], died := 0, th := 5 }
def nvPht : PestHostTable := { sus := [1/2, 1], rate := [1/2, 1], lag := [0, 1] }
def nvRows : List CompRow := [⟨[true, false], 1⟩, ⟨[true, true], 2⟩, ⟨[false, true], 3/2⟩]
def nvEnv : MEnv := { n := 10, w := some (1/2), pht := some nvPht, comp := some (.part nvRows) }
def nvPA : HostParams := { mt := .sei, sto := true, pEst := 0, rr := 2 }
def nvPB : HostParams := { mt := .si, sto := false, pEst := 19/20, rr := 3 }
def nvLand : MultiCfg := { arrival := .land, sto := true, pEst := 0 }
def nvInfect : MultiCfg := { arrival := .infect, sto := false, pEst := 1/2 }
/-- Host 1 after a landing (one S -> I, youngest mortality cohort + 1). -/
def nvB1 : Cell := { nvB with s := 1, i := 4, mort := [2, 2] }

/-- The tables are what the constructors build from `Config` rows: the pest-host table from three
    values per host, the competency tables from the row count (3 rows: partial; 2^2 rows: complete). -/
example : PestHostTable.ofConfig (readPestHostTable [[1/2, 1/2, 0], [1, 1, 3/2]]).1 = nvPht ∧
    (readPestHostTable [[1/2, 1/2, 0], [1, 1, 3/2]]).2 = none := by decide +kernel
example : CompetencyTable.ofConfig nvRows = .part nvRows := rfl

/-- The weights are 4/10 x 1/2 x 1/2 and 2/10 x 1 x 1/2. -/
theorem nv_suits : suitabilities nvEnv [nvA, nvB] = .ok [1/10, 1/10] := by decide +kernel

/-- "land": host 1 is drawn, the tester 3/20 lies between host 1's own weight 1/10 and the
    combined weight 1/5, so the landing establishes (it would not under "infect"); two generator
    calls. -/
theorem nv_land : multiDisperserTo nvLand [nvPA, nvPB] nvEnv [nvA, nvB] 1 (3/20) = .ok ([nvA, nvB1], 1, 2) := by
  decide +kernel

/-- "infect", host 0 drawn (stochastic, tester 3/20 not below its own weight 1/10): no
    establishment, two generator calls. -/
theorem nv_infect0 : multiDisperserTo nvInfect [nvPA, nvPB] nvEnv [nvA, nvB] 0 (3/20) = .ok ([nvA, nvB], 0, 2) := by
  decide +kernel

/-- "infect", host 1 drawn (deterministic, tester 1 - 19/20 below its own weight 1/10):
    establishment, one generator call (the pick). -/
theorem nv_infect1 : multiDisperserTo nvInfect [nvPA, nvPB] nvEnv [nvA, nvB] 1 (3/20) = .ok ([nvA, nvB1], 1, 1) := by
  decide +kernel

theorem nv_C16_at_most_one_host :
    multiDisperserTo nvLand [nvPA, nvPB] nvEnv [nvA, nvB] 1 (3/20) = .ok ([nvA, nvB1], 1, 2) ∧
    atMostOneSpec [nvPA, nvPB] [nvA, nvB] [nvA, nvB1] 1 = true ∧
    (((1 : Int) = 0 ∧ [nvA, nvB1] = [nvA, nvB]) ∨
     ((1 : Int) = 1 ∧ ∃ h, h < [nvA, nvB].length ∧ h = landingHost [nvA, nvB].length 1 ∧ 0 < ([nvA, nvB][h]!).s ∧
        [nvA, nvB1] = [nvA, nvB].set h (landed ([nvPA, nvPB][h]!).mt ([nvA, nvB][h]!)) ∧
        landingSpec ([nvPA, nvPB][h]!).mt ([nvA, nvB][h]!) ([nvA, nvB1][h]!) 1 = true)) :=
  ⟨nv_land, C16_at_most_one_host _ _ _ _ _ _ _ _ _ nv_land⟩

/-- The `k = 0` branch of the same theorem (hypothesis: `nv_infect0`). -/
example := C16_at_most_one_host _ _ _ _ _ _ _ _ _ nv_infect0

theorem nv_C16_establish_event :
    multiDisperserTo nvLand [nvPA, nvPB] nvEnv [nvA, nvB] 1 (3/20) = .ok ([nvA, nvB1], 1, 2) ∧
    multiEstablishSpec nvLand [nvPA, nvPB] (hostWeights nvEnv [nvA, nvB]) [nvA, nvB] 1 (3/20) 1 = true :=
  ⟨nv_land, C16_establish_event _ _ _ _ _ _ _ _ _ nv_land⟩

/-- ... and for "infect", both outcomes. -/
example :
    multiEstablishSpec nvInfect [nvPA, nvPB] (hostWeights nvEnv [nvA, nvB]) [nvA, nvB] 0 (3/20) 0 = true ∧
    multiEstablishSpec nvInfect [nvPA, nvPB] (hostWeights nvEnv [nvA, nvB]) [nvA, nvB] 1 (3/20) 1 = true :=
  ⟨C16_establish_event _ _ _ _ _ _ _ _ _ nv_infect0, C16_establish_event _ _ _ _ _ _ _ _ _ nv_infect1⟩

theorem nv_hostWeightsFrom_getElem :
    1 < [nvA, nvB].length ∧
    (hostWeightsFrom nvEnv 0 [nvA, nvB])[1]! = hostWeight nvEnv (0 + 1) ([nvA, nvB][1]!) :=
  ⟨by decide, hostWeightsFrom_getElem nvEnv 0 [nvA, nvB] 1 (by decide)⟩

/-- Hypothesis: `nv_suits`. -/
theorem nv_C16_susceptibility :
    [1/10, 1/10] = hostWeights nvEnv [nvA, nvB] ∧
    (∀ j, j < [nvA, nvB].length →
      [(1/10 : Rat), 1/10][j]! = (([nvA, nvB][j]!).s : Rat) / (nvEnv.n : Rat) * susOf nvEnv j * nvEnv.w.getD 1 ∧
      0 ≤ [(1/10 : Rat), 1/10][j]! ∧ [(1/10 : Rat), 1/10][j]! ≤ 1) ∧
    (∀ t j x, nvEnv.pht = some t → t.sus[j]? = some x → susOf nvEnv j = x) ∧
    (nvEnv.pht = none → ∀ j, susOf nvEnv j = 1) :=
  C16_susceptibility nvEnv [nvA, nvB] _ nv_suits

/-- The premises of the two inner implications of `C16_susceptibility` for the instance. -/
example : nvEnv.pht = some nvPht ∧ nvPht.sus[1]? = some 1 ∧ susOf nvEnv 1 = 1 :=
  ⟨rfl, rfl, (C16_susceptibility nvEnv [nvA, nvB] _ nv_suits).2.2.1 nvPht 1 1 rfl rfl⟩

/-- Rejected input: every host's weight is at most one (3/4 and 1/2, so `suitabilities` succeeds)
    but they add up to 5/4.  This needs a total population (4) smaller than the susceptible hosts
    of the cell (3 + 2): inconsistent rasters, which is what the exception is for. -/
def nvEnvSmall : MEnv := { n := 4, w := none, pht := none, comp := none }
def nvC3 : Cell := { nvA with s := 3 }

theorem nv_C16_suitability_over_one_rejected :
    suitabilities nvEnvSmall [nvC3, nvB] = .ok [3/4, 1/2] ∧
    sumR (hostWeights nvEnvSmall [nvC3, nvB]) > 1 ∧
    multiDisperserTo nvLand [nvPA, nvPB] nvEnvSmall [nvC3, nvB] 1 (3/20) = .error .invalid_argument :=
  have h1 : suitabilities nvEnvSmall [nvC3, nvB] = .ok [3/4, 1/2] := by decide +kernel
  have h2 : sumR (hostWeights nvEnvSmall [nvC3, nvB]) > 1 := by decide +kernel
  ⟨h1, h2, C16_suitability_over_one_rejected _ _ _ _ _ _ _ h1 h2⟩

/-- Susceptible hosts in both pools, weather coefficient 0. -/
def nvEnvCold : MEnv := { nvEnv with w := some 0 }

theorem nv_C16_no_suitability_no_draw :
    suitabilities nvEnvCold [nvA, nvB] = .ok [0, 0] ∧ sumR [(0 : Rat), 0] ≤ 0 ∧
    multiDisperserTo nvLand [nvPA, nvPB] nvEnvCold [nvA, nvB] 1 (3/20) = .ok ([nvA, nvB], 0, 0) :=
  have h1 : suitabilities nvEnvCold [nvA, nvB] = .ok [0, 0] := by decide +kernel
  have h2 : sumR [(0 : Rat), 0] ≤ 0 := by decide +kernel
  ⟨h1, h2, C16_no_suitability_no_draw _ _ _ _ _ _ _ h1 h2⟩

/-- Hosts with 2 and 3 infected, 4 requested, split 1 + 3. -/
theorem nv_C16_split_bounded : (4 : Int) < 4294967296 ∧ ValidSplit ([nvA, nvB].map (·.i)) 4 [1, 3] :=
  ⟨by decide, by decide +kernel⟩
example := C16_split_bounded [nvA, nvB] 4 [1, 3] nv_C16_split_bounded.1 nv_C16_split_bounded.2
example : (multiPestsFrom [nvA, nvB] [1, 3]).2 = 4 :=
  (C16_split_bounded [nvA, nvB] 4 [1, 3] nv_C16_split_bounded.1 nv_C16_split_bounded.2).2.1.trans (by decide)

/-- The same with a negative request (converted to 4294967295: everything is taken). -/
theorem nv_C16_split_bounded_neg : (-1 : Int) < 4294967296 ∧ ValidSplit ([nvA, nvB].map (·.i)) (-1) [2, 3] :=
  ⟨by decide, by decide +kernel⟩
example := C16_split_bounded [nvA, nvB] (-1) [2, 3] nv_C16_split_bounded_neg.1 nv_C16_split_bounded_neg.2

/-- Hosts with 4 and 2 susceptible, 5 arriving, split 3 + 2. -/
theorem nv_C16_split_bounded_to : (5 : Int) < 4294967296 ∧ ValidSplit ([nvA, nvB].map (·.s)) 5 [3, 2] :=
  ⟨by decide, by decide +kernel⟩
example := C16_split_bounded_to [nvA, nvB] 5 [3, 2] nv_C16_split_bounded_to.1 nv_C16_split_bounded_to.2

theorem nv_C16_split_negative_request :
    (-3 : Int) < 0 ∧ (-2147483648 : Int) ≤ -3 ∧ (5 : Int) ≤ 2147483647 ∧ min (toUnsigned (-3)) 5 = 5 :=
  ⟨by decide, by decide, by decide, C16_split_negative_request (-3) (by decide) (by decide) 5 (by decide)⟩

/-! ### one host inside the wrapper: host 0 (SEI, stochastic) with its table entry -/

def nvE0 : EnvCell := { n := 10, w := some (1/2), sus := some (1/2) }
/-- Host 0 after a landing (one S -> E in the youngest cohort). -/
def nvA1 : Cell := { nvA with s := 3, e := [0, 2], te := 2 }

theorem nv_bare : nvA.disperserTo nvPA.mt nvE0 nvPA.sto nvPA.pEst (1/20) = .ok (nvA1, 1, 1) := by decide +kernel

theorem nv_C16_single_host_result :
    nvEnv.cellEnv 0 = .ok nvE0 ∧ 0 ≤ nvA.s ∧
    (nvLand.arrival = .land → nvLand.sto = nvPA.sto ∧ nvLand.pEst = nvPA.pEst) ∧
    0 ≤ (if nvPA.sto then (1/20 : Rat) else 1 - nvPA.pEst) ∧
    (∃ n', multiDisperserTo nvLand [nvPA] nvEnv [nvA] 7 (1/20) = .ok ([nvA1], 1, n')) :=
  have ht : 0 ≤ (if nvPA.sto then (1/20 : Rat) else 1 - nvPA.pEst) := by decide +kernel
  ⟨rfl, by decide, fun _ => ⟨rfl, rfl⟩, ht,
   (C16_single_host_result nvLand nvPA nvEnv nvA 7 (1/20) nvE0 rfl (by decide) (fun _ => ⟨rfl, rfl⟩) ht).1 _ _ _ nv_bare⟩

/-- The deterministic branch of the tester hypothesis (host 1's settings), "infect". -/
theorem nv_C16_single_host_result_det :
    nvEnv.cellEnv 0 = .ok nvE0 ∧ 0 ≤ nvA.s ∧
    (nvInfect.arrival = .land → nvInfect.sto = nvPB.sto ∧ nvInfect.pEst = nvPB.pEst) ∧
    0 ≤ (if nvPB.sto then (1/20 : Rat) else 1 - nvPB.pEst) :=
  ⟨rfl, by decide, fun h => (by cases h), by decide +kernel⟩
example := C16_single_host_result nvInfect nvPB nvEnv nvA 7 (1/20) nvE0 nv_C16_single_host_result_det.1
  nv_C16_single_host_result_det.2.1 nv_C16_single_host_result_det.2.2.1 nv_C16_single_host_result_det.2.2.2

/-- The error half of `C16_single_host_result`: with total population 1 and weather coefficient 2
    the suitability 4/1 x 1/2 x 2 is over one: rejected by the bare host and by the wrapper. -/
def nvEnvHot : MEnv := { nvEnv with w := some 2 }
def nvE0Hot : EnvCell := { n := 10, w := some 2, sus := some (1/2) }

example :
    nvA.disperserTo nvPA.mt { nvE0Hot with n := 1 } nvPA.sto nvPA.pEst (1/20) = .error .invalid_argument ∧
    multiDisperserTo nvLand [nvPA] { nvEnvHot with n := 1 } [nvA] 7 (1/20) = .error .invalid_argument :=
  have ht : 0 ≤ (if nvPA.sto then (1/20 : Rat) else 1 - nvPA.pEst) := by decide +kernel
  have hb : nvA.disperserTo nvPA.mt { nvE0Hot with n := 1 } nvPA.sto nvPA.pEst (1/20) = .error .invalid_argument := by
    decide +kernel
  ⟨hb, (C16_single_host_result nvLand nvPA { nvEnvHot with n := 1 } nvA 7 (1/20) { nvE0Hot with n := 1 } rfl
    (by decide) (fun _ => ⟨rfl, rfl⟩) ht).2 _ hb⟩

theorem nv_C16_single_host_stream_partial :
    nvEnv.cellEnv 0 = .ok nvE0 ∧ 0 ≤ nvA.s ∧
    (nvLand.arrival = .land → nvLand.sto = nvPA.sto ∧ nvLand.pEst = nvPA.pEst) ∧
    0 ≤ (if nvPA.sto then (1/20 : Rat) else 1 - nvPA.pEst) ∧
    ¬ (nvA.s > 0 ∧ nvA.suitability nvE0 = .ok 0) ∧
    nvA.disperserTo nvPA.mt nvE0 nvPA.sto nvPA.pEst (1/20) = .ok (nvA1, 1, 1) ∧
    multiDisperserTo nvLand [nvPA] nvEnv [nvA] 7 (1/20) = .ok ([nvA1], 1, 1) :=
  have ht : 0 ≤ (if nvPA.sto then (1/20 : Rat) else 1 - nvPA.pEst) := by decide +kernel
  have hsuit : ¬ (nvA.s > 0 ∧ nvA.suitability nvE0 = .ok 0) := by decide +kernel
  ⟨rfl, by decide, fun _ => ⟨rfl, rfl⟩, ht, hsuit, nv_bare,
   C16_single_host_stream_partial nvLand nvPA nvEnv nvA 7 (1/20) nvE0 rfl (by decide) (fun _ => ⟨rfl, rfl⟩) ht hsuit
     _ _ _ nv_bare⟩

/-- F19 region: susceptible hosts, weather coefficient 0. -/
def nvE0Cold : EnvCell := { nvE0 with w := some 0 }

theorem nv_C16_single_host_stream_gap :
    nvEnvCold.cellEnv 0 = .ok nvE0Cold ∧
    (nvLand.arrival = .land → nvLand.sto = nvPA.sto ∧ nvLand.pEst = nvPA.pEst) ∧
    0 ≤ (if nvPA.sto then (1/20 : Rat) else 1 - nvPA.pEst) ∧
    nvA.s > 0 ∧ nvA.suitability nvE0Cold = .ok 0 ∧
    nvA.disperserTo nvPA.mt nvE0Cold nvPA.sto nvPA.pEst (1/20) = .ok (nvA, 0, if nvPA.sto then 1 else 0) ∧
    multiDisperserTo nvLand [nvPA] nvEnvCold [nvA] 7 (1/20) = .ok ([nvA], 0, 0) :=
  have ht : 0 ≤ (if nvPA.sto then (1/20 : Rat) else 1 - nvPA.pEst) := by decide +kernel
  have hz : nvA.suitability nvE0Cold = .ok 0 := by decide +kernel
  ⟨rfl, fun _ => ⟨rfl, rfl⟩, ht, by decide, hz,
   C16_single_host_stream_gap nvLand nvPA nvEnvCold nvA 7 (1/20) nvE0Cold rfl (fun _ => ⟨rfl, rfl⟩) ht (by decide) hz⟩

/-! ### competency -/

/-- A complete table for two hosts (2^2 rows) and the row of host 1 alone; and a table that passes
    `competency_table_is_complete` (four rows) but lists one combination twice, so that
    `[false, true]` is missing: out_of_range. -/
def nvComplete : List CompRow := [⟨[false, false], 0⟩, ⟨[true, false], 1⟩, ⟨[false, true], 3/2⟩, ⟨[true, true], 2⟩]
def nvDup : List CompRow := [⟨[false, false], 0⟩, ⟨[true, false], 1⟩, ⟨[true, false], 1/2⟩, ⟨[true, true], 2⟩]

example : CompetencyTable.ofConfig nvComplete = .complete nvComplete ∧
    CompetencyTable.ofConfig nvDup = .complete nvDup := ⟨rfl, rfl⟩

theorem nv_C16_competency_complete :
    competencyTableIsComplete nvComplete = true ∧ competencyTableIsComplete nvDup = true ∧
    (∀ r' ∈ [(⟨[true, true], 2⟩ : CompRow)], r'.presence ≠ [false, true]) ∧
    (CompetencyTable.complete nvComplete).competencyAt [false, true] 1 = .ok (3/2) ∧
    (∀ r' ∈ nvDup, r'.presence ≠ [false, true]) ∧
    (CompetencyTable.complete nvDup).competencyAt [false, true] 1 = .error .out_of_range :=
  have h1 : ∀ r' ∈ [(⟨[true, true], 2⟩ : CompRow)], r'.presence ≠ [false, true] := by decide
  have h2 : ∀ r' ∈ nvDup, r'.presence ≠ [false, true] := by decide
  have t := C16_competency_complete [⟨[false, false], 0⟩, ⟨[true, false], 1⟩] [⟨[true, true], 2⟩] ⟨[false, true], 3/2⟩
    nvDup [false, true] 1
  ⟨by decide, by decide, h1, t.1 h1, h2, t.2.1 h2⟩

/-- Partial table, both hosts present, host 0 asking: rows 0 and 1 are eligible, the value is 2. -/
theorem nv_C16_competency_partial :
    (∀ r ∈ nvRows, r.presence.getD 0 false = true → r.presence.length = [true, true].length) ∧
    ∃ v, (CompetencyTable.part nvRows).competencyAt [true, true] 0 = .ok v ∧ v = maxEligible nvRows [true, true] 0 ∧
      0 ≤ v ∧
      (∀ r ∈ nvRows, rowEligible [true, true] 0 r = true → r.competency ≤ v) ∧
      (v = 0 ∨ ∃ r ∈ nvRows, rowEligible [true, true] 0 r = true ∧ r.competency = v) ∧
      ((∀ r ∈ nvRows, rowEligible [true, true] 0 r = false) → v = 0) :=
  have hfit : ∀ r ∈ nvRows, r.presence.getD 0 false = true → r.presence.length = [true, true].length := by decide
  ⟨hfit, C16_competency_partial nvRows [true, true] 0 hfit⟩

example : maxEligible nvRows [true, true] 0 = 2 ∧ maxEligible nvRows [true, false] 0 = 1 ∧
    maxEligible nvRows [true, false] 1 = 0 := by decide +kernel

/-- A table written for three hosts used with two. -/
def nvRows3 : List CompRow := [⟨[false, true, false], 1⟩, ⟨[true, true, false], 2⟩]

theorem nv_C16_competency_size_mismatch :
    (∃ r ∈ nvRows3, r.presence.getD 0 false = true ∧ r.presence.length ≠ [true, true].length) ∧
    (CompetencyTable.part nvRows3).competencyAt [true, true] 0 = .error .invalid_argument :=
  have hbad : ∃ r ∈ nvRows3, r.presence.getD 0 false = true ∧ r.presence.length ≠ [true, true].length := by decide
  ⟨hbad, C16_competency_size_mismatch nvRows3 [true, true] 0 hbad⟩

theorem nv_C16_host_dispersers :
    nvEnv.comp = some (.part nvRows) ∧ (CompetencyTable.part nvRows).competencyAt [true, true] 0 = .ok 2 ∧
    hostDispersersFrom nvEnv [true, true] 0 nvPA nvA =
      .ok (if nvA.i ≤ 0 then 0 else lround (nvPA.rr * nvEnv.w.getD 1 * 2 * (nvA.i : Rat))) :=
  have hk : (CompetencyTable.part nvRows).competencyAt [true, true] 0 = .ok 2 := by decide +kernel
  ⟨rfl, hk, C16_host_dispersers nvEnv [true, true] 0 nvPA nvA _ 2 rfl hk⟩

/-- The value: round (2 x 1/2 x 2 x 2) + round (3 x 1/2 x 2 x 3) = 4 + 9. -/
example : multiDispersersFrom nvEnv [nvPA, nvPB] [nvA, nvB] = .ok 13 ∧
    dispersersSpec nvEnv [nvPA, nvPB] [nvA, nvB] = some 13 := by
  have h : multiDispersersFrom nvEnv [nvPA, nvPB] [nvA, nvB] = .ok 13 := by decide +kernel
  refine ⟨h, ?_⟩
  rw [C16_competency_scaling, h]

/-! ### mortality: rate 1/2 with lag 0 for host 0, rate 1 with lag 1 for host 1 -/

def nvAm : Cell := { nvA with i := 1, mort := [0, 1], died := 1, th := 7 }
def nvBm : Cell := { nvB with i := 1, mort := [0, 1], died := 2, th := 3 }

theorem nv_C16_per_host_mortality :
    nvEnv.pht = some nvPht ∧ multiApplyMortality nvEnv [nvA, nvB] = .ok [nvAm, nvBm] ∧
    ([nvAm, nvBm].length = [nvA, nvB].length ∧
      ∀ h, h < [nvA, nvB].length → ∃ rate lag, nvPht.rate[h]? = some rate ∧ nvPht.lag[h]? = some lag ∧
        ([nvA, nvB][h]!).applyMortality rate lag = .ok ([nvAm, nvBm][h]!)) ∧
    ({ nvEnv with pht := none }.pht = none ∧ [nvA, nvB] ≠ [] ∧
      multiApplyMortality { nvEnv with pht := none } [nvA, nvB] = .error .invalid_argument) :=
  have hm : multiApplyMortality nvEnv [nvA, nvB] = .ok [nvAm, nvBm] := by decide +kernel
  ⟨rfl, hm, (C16_per_host_mortality nvEnv [nvA, nvB] [nvAm, nvBm]).1 nvPht rfl hm,
   rfl, by decide, (C16_per_host_mortality { nvEnv with pht := none } [nvA, nvB] []).2 rfl (by decide)⟩

/-! # C18  metrics

  Without hypotheses: `C18_qfrom_make`, `C18_average_rate`.  All rasters below have
  `rows ≠ cols`. -/

section C18
open Metric

/-- Suitable cells of the 6 x 3 raster `exInf63` (infected at (3,1) and (4,2)): a proper sublist
    of the grid, in no particular order, that contains the infected cells. -/
def nvSuit63 : List (Int × Int) := [(4, 2), (0, 2), (3, 1), (5, 0), (2, 2)]

theorem nv_C18_bbox :
    (∀ c ∈ nvSuit63, InRange 6 3 c) ∧ infectedCells exInf63 nvSuit63 = [(4, 2), (3, 1)] ∧
    infectionBoundary 6 3 exInf63 nvSuit63 = specBoxOr (infectedCells exInf63 nvSuit63) ∧
    IsBBox (infectedCells exInf63 nvSuit63) (infectionBoundary 6 3 exInf63 nvSuit63) ∧
    infectionBoundary 6 3 exInf63 nvSuit63 = ⟨3, 4, 2, 1⟩ :=
  have hin : ∀ c ∈ nvSuit63, InRange 6 3 c := by decide
  have hne : infectedCells exInf63 nvSuit63 ≠ [] := by decide
  have t := C18_bbox 6 3 exInf63 nvSuit63 hin
  ⟨hin, by decide, t.1, (t.2.2.1 hne).1, by decide⟩

/-- The sentinel branch: the same cells, an empty raster. -/
example : infectedCells ⟨6, 3, List.replicate 18 0⟩ nvSuit63 = [] ∧ infectionBoundary 6 3 ⟨6, 3, List.replicate 18 0⟩ nvSuit63 = noBox :=
  have he : infectedCells ⟨6, 3, List.replicate 18 0⟩ nvSuit63 = [] := by decide
  ⟨he, (C18_bbox 6 3 ⟨6, 3, List.replicate 18 0⟩ nvSuit63 (by decide)).2.1 he⟩

theorem nv_C18_bbox_raster :
    (∀ c ∈ nvSuit63, InRange 6 3 c) ∧
    (∀ i j, InRange 6 3 (i, j) → exInf63.at i j > 0 → (i, j) ∈ nvSuit63) ∧
    (∃ i j, InRange 6 3 (i, j) ∧ exInf63.at i j > 0) :=
  ⟨by decide, nvm_cover_of_allCells 6 3 exInf63 nvSuit63 (by decide), 3, 1, by decide, by decide⟩
example := (C18_bbox_raster 6 3 exInf63 nvSuit63 nv_C18_bbox_raster.1 nv_C18_bbox_raster.2.1).2 nv_C18_bbox_raster.2.2

/-- Three measurements on a 2 x 5 raster, resolutions 5/2 (east-west) and 30 (north-south), three
    steps foreseen, two taken. -/
def nvM0 : IRaster := ⟨2, 5, [0,0,0,0,0, 0,1,0,0,0]⟩
def nvM1 : IRaster := ⟨2, 5, [0,0,0,0,0, 0,1,3,0,0]⟩
def nvM2 : IRaster := ⟨2, 5, [0,0,0,2,0, 1,1,3,0,0]⟩

theorem nv_C18_rate :
    (30 : Rat) ≠ 0 ∧ (5/2 : Rat) ≠ 0 ∧ (∀ c ∈ allCells 2 5, InRange 2 5 c) ∧ [nvM1, nvM2].length ≤ 3 ∧
    ∃ sr, SpreadRate.run (allCells 2 5) (SpreadRate.new nvM0 (allCells 2 5) 2 5 (5/2) 30 3) [nvM1, nvM2] 0 = .ok sr ∧
      sr.rates[1]? = some (specRatesOpt 2 5 30 (5/2) ⟨1, 1, 2, 1⟩ (some ⟨0, 1, 3, 0⟩)) := by
  have h1 : (30 : Rat) ≠ 0 := by decide +kernel
  have h2 : (5/2 : Rat) ≠ 0 := by decide +kernel
  have hin : ∀ c ∈ allCells 2 5, InRange 2 5 c := fun _ hc => mem_allCells.mp hc
  refine ⟨h1, h2, hin, by decide, ?_⟩
  obtain ⟨sr, hr, h⟩ := C18_rate 2 5 (5/2) 30 h1 h2 3 (allCells 2 5) hin nvM0 [nvM1, nvM2] (by decide)
  refine ⟨sr, hr, ?_⟩
  have hb1 : specBox (infectedCells nvM1 (allCells 2 5)) = some ⟨1, 1, 2, 1⟩ := by decide
  have hb2 : specBox (infectedCells nvM2 (allCells 2 5)) = some ⟨0, 1, 3, 0⟩ := by decide
  rw [h 1 nvM1 nvM2 ⟨1, 1, 2, 1⟩ rfl rfl hb1, hb2]

theorem nv_C18_rate_undefined : (30 : Rat) ≠ 0 ∧ (5/2 : Rat) ≠ 0 :=
  ⟨by decide +kernel, by decide +kernel⟩
/-- previous box (1,1,2,1), current box (0,1,3,0) of a 2 x 5 raster: both premises of the
    conclusion (`valid = false`, `valid = true`) are met by `noBox` and by the current box. -/
example :
    measuredRates 2 5 30 (5/2) ⟨1, 1, 2, 1⟩ noBox = nanRates ∧
    ((measuredRates 2 5 30 (5/2) ⟨1, 1, 2, 1⟩ ⟨0, 1, 3, 0⟩).s = none ↔ (1 : Int) = 2 - 1 ∧ (1 : Int) = 1) :=
  ⟨(C18_rate_undefined 2 5 (5/2) 30 nv_C18_rate_undefined.1 nv_C18_rate_undefined.2 ⟨1, 1, 2, 1⟩ noBox).1 rfl,
   ((C18_rate_undefined 2 5 (5/2) 30 nv_C18_rate_undefined.1 nv_C18_rate_undefined.2 ⟨1, 1, 2, 1⟩ ⟨0, 1, 3, 0⟩).2 rfl).2.1⟩

/-! ### quarantine: a 4 x 6 raster with two areas (ids 2 and 5) and cells outside every area;
    directions N, S, E enabled (W disabled); resolutions 10 (ew) and 30 (ns) in `nvQ`, 5/4 and 11/8 in `nvQf` -/

def nvAreas : IRaster := ⟨4, 6, [0,2,2,2,5,5, 0,2,2,2,5,5, 0,2,2,2,5,5, 0,0,0,0,5,5]⟩
/-- infected cells (1,2) in area 2 and (2,4) in area 5 -/
def nvInfIn : IRaster := ⟨4, 6, [0,0,0,0,0,0, 0,0,3,0,0,0, 0,0,0,0,1,0, 0,0,0,0,0,0]⟩
/-- ... and (3,2) outside every area -/
def nvInfOut : IRaster := ⟨4, 6, [0,0,0,0,0,0, 0,0,3,0,0,0, 0,0,0,0,1,0, 0,0,7,0,0,0]⟩
def nvDirs : Dirs := ⟨true, true, true, false⟩
def nvQ : Quarantine := Quarantine.make nvAreas ((10 : Int) : Rat) ((30 : Int) : Rat) 3 nvDirs

theorem nv_C18_area_bbox : (0 : Int) < 5 ∧ findBox (quarantineBoundary nvAreas) 5 = specAreaBox nvAreas 5 ∧
    specAreaBox nvAreas 5 = some ⟨0, 3, 5, 4⟩ :=
  ⟨by decide, (C18_area_bbox nvAreas 5 (by decide)).1, by decide⟩

theorem nv_own_area_box : InRange nvAreas.rows nvAreas.cols (2, 4) ∧ 0 < nvAreas.at (2, 4).1 (2, 4).2 :=
  ⟨by decide, by decide⟩
example := own_area_box nvAreas (2, 4) nv_own_area_box.1 nv_own_area_box.2

theorem nv_C18_escape_iff :
    QFrom nvQ nvAreas 3 ∧ (∀ c ∈ allCells 4 6, InRange nvAreas.rows nvAreas.cols c) ∧
    (∀ c ∈ allCells 4 6, 0 ≤ nvAreas.at c.1 c.2) ∧ 1 < 3 :=
  ⟨C18_qfrom_make _ _ _ _ _, fun _ hc => mem_allCells.mp hc, by decide, by decide⟩
/-- not escaped, and escaped -/
example := C18_escape_iff nvAreas nvInfIn 3 nvQ nv_C18_escape_iff.1 (allCells 4 6) nv_C18_escape_iff.2.1
  nv_C18_escape_iff.2.2.1 1 nv_C18_escape_iff.2.2.2
example := C18_escape_iff nvAreas nvInfOut 3 nvQ nv_C18_escape_iff.1 (allCells 4 6) nv_C18_escape_iff.2.1
  nv_C18_escape_iff.2.2.1 1 nv_C18_escape_iff.2.2.2
example : specEscaped nvInfIn nvAreas (allCells 4 6) = false ∧ specEscaped nvInfOut nvAreas (allCells 4 6) = true := by
  decide

/-- NON-integer resolutions 5/4 (ew) and 11/8 (ns): cell (1,2) is 11/8 from the north and south
    sides of area 2 and 5/4 from its east side; cell (2,4) is 22/8, 11/8 and 5/4 from the sides of
    area 5. The nearest pair is ((1,2), E) at 5/4 (first of two at that distance); the report is
    (1, E). A rounded running minimum would have kept N (11/8 stored as 1, 5/4 not below 1). -/
def nvQf : Quarantine := Quarantine.make nvAreas (5/4) (11/8) 3 nvDirs

theorem nv_C18_nearest :
    QFrom nvQf nvAreas 3 ∧ 0 ≤ nvQf.ns ∧ 0 ≤ nvQf.ew ∧
    (nvAreas.rows : Rat) * nvQf.ns < (dblMax : Rat) ∧ (nvAreas.cols : Rat) * nvQf.ew < (dblMax : Rat) ∧
    (∃ d, nvQf.dirs.enabled d = true) ∧
    (∀ c ∈ allCells 4 6, InRange nvAreas.rows nvAreas.cols c) ∧ (∀ c ∈ allCells 4 6, 0 ≤ nvAreas.at c.1 c.2) ∧
    1 < 3 ∧ (¬ ∃ c ∈ allCells 4 6, nvInfIn.at c.1 c.2 ≠ 0 ∧ nvAreas.at c.1 c.2 = 0) ∧
    (∃ c ∈ allCells 4 6, nvInfIn.at c.1 c.2 ≠ 0) :=
  ⟨C18_qfrom_make _ _ _ _ _, by decide +kernel, by decide +kernel, by decide +kernel, by decide +kernel, ⟨.E, rfl⟩,
   fun _ hc => mem_allCells.mp hc, by decide, by decide, by decide, by decide⟩
example :=
  have h := nv_C18_nearest
  C18_nearest nvAreas nvInfIn 3 nvQf h.1 h.2.1 h.2.2.1 h.2.2.2.1 h.2.2.2.2.1 h.2.2.2.2.2.1
    (allCells 4 6) h.2.2.2.2.2.2.1 h.2.2.2.2.2.2.2.1 1 h.2.2.2.2.2.2.2.2.1
    h.2.2.2.2.2.2.2.2.2.1 h.2.2.2.2.2.2.2.2.2.2
/-- the candidates in scan order, and the report (1, E) -/
example : nearestCandidates nvInfIn nvAreas (allCells 4 6) nvDirs (11/8) (5/4) =
    [(11/8, .N), (11/8, .S), (5/4, .E), (22/8, .N), (11/8, .S), (5/4, .E)] := by decide +kernel
example : ((nvQf.action (allCells 4 6) nvInfIn nvAreas 1).toOption.map (·.infos)) =
    some [EscapeInfo.init, ⟨false, .val 1, .E⟩, EscapeInfo.init] := by decide +kernel
example : nearestOK nvInfIn nvAreas (allCells 4 6) nvDirs (11/8) (5/4) 1 .E = true ∧
    nearestOK nvInfIn nvAreas (allCells 4 6) nvDirs (11/8) (5/4) 1 .N = false := by decide +kernel

/-! ### quarantine with NEGATIVE area ids at cells without infection (finding F30): the layout of
    `nvAreas` with the nodata value -9999 in column 0. `hnn` of `C18_escape_iff` / `C18_nearest`
    fails there; the hypotheses of the `_infected_nonneg` theorems hold. -/

def nvAreasNeg : IRaster := ⟨4, 6, [-9999,2,2,2,5,5, -9999,2,2,2,5,5, -9999,2,2,2,5,5, -9999,0,0,0,5,5]⟩
def nvQn : Quarantine := Quarantine.make nvAreasNeg (5/4) (11/8) 3 nvDirs

theorem nv_C18_escape_iff_infected_nonneg :
    QFrom nvQn nvAreasNeg 3 ∧ (∀ c ∈ allCells 4 6, InRange nvAreasNeg.rows nvAreasNeg.cols c) ∧
    (∀ c ∈ allCells 4 6, nvInfIn.at c.1 c.2 ≠ 0 → 0 ≤ nvAreasNeg.at c.1 c.2) ∧
    (∀ c ∈ allCells 4 6, nvInfOut.at c.1 c.2 ≠ 0 → 0 ≤ nvAreasNeg.at c.1 c.2) ∧
    ¬ (∀ c ∈ allCells 4 6, 0 ≤ nvAreasNeg.at c.1 c.2) ∧ 1 < 3 :=
  ⟨C18_qfrom_make _ _ _ _ _, fun _ hc => mem_allCells.mp hc, by decide, by decide, by decide, by decide⟩
/-- not escaped, and escaped -/
example := C18_escape_iff_infected_nonneg nvAreasNeg nvInfIn 3 nvQn nv_C18_escape_iff_infected_nonneg.1 (allCells 4 6)
  nv_C18_escape_iff_infected_nonneg.2.1 nv_C18_escape_iff_infected_nonneg.2.2.1 1 nv_C18_escape_iff_infected_nonneg.2.2.2.2.2
example := C18_escape_iff_infected_nonneg nvAreasNeg nvInfOut 3 nvQn nv_C18_escape_iff_infected_nonneg.1 (allCells 4 6)
  nv_C18_escape_iff_infected_nonneg.2.1 nv_C18_escape_iff_infected_nonneg.2.2.2.1 1 nv_C18_escape_iff_infected_nonneg.2.2.2.2.2
example : specEscapedFull nvInfIn nvAreasNeg (allCells 4 6) = false ∧ specEscapedFull nvInfOut nvAreasNeg (allCells 4 6) = true ∧
    negativeIdAtInfected nvInfIn nvAreasNeg (allCells 4 6) = false ∧ negativeIdAtInfected nvInfOut nvAreasNeg (allCells 4 6) = false := by
  decide

theorem nv_C18_nearest_infected_nonneg :
    QFrom nvQn nvAreasNeg 3 ∧ 0 ≤ nvQn.ns ∧ 0 ≤ nvQn.ew ∧
    (nvAreasNeg.rows : Rat) * nvQn.ns < (dblMax : Rat) ∧ (nvAreasNeg.cols : Rat) * nvQn.ew < (dblMax : Rat) ∧
    (∃ d, nvQn.dirs.enabled d = true) ∧
    (∀ c ∈ allCells 4 6, InRange nvAreasNeg.rows nvAreasNeg.cols c) ∧
    (∀ c ∈ allCells 4 6, nvInfIn.at c.1 c.2 ≠ 0 → 0 ≤ nvAreasNeg.at c.1 c.2) ∧
    1 < 3 ∧ (¬ ∃ c ∈ allCells 4 6, nvInfIn.at c.1 c.2 ≠ 0 ∧ nvAreasNeg.at c.1 c.2 = 0) ∧
    (∃ c ∈ allCells 4 6, nvInfIn.at c.1 c.2 ≠ 0) :=
  ⟨C18_qfrom_make _ _ _ _ _, by decide +kernel, by decide +kernel, by decide +kernel, by decide +kernel, ⟨.E, rfl⟩,
   fun _ hc => mem_allCells.mp hc, by decide, by decide, by decide, by decide⟩
example :=
  have h := nv_C18_nearest_infected_nonneg
  C18_nearest_infected_nonneg nvAreasNeg nvInfIn 3 nvQn h.1 h.2.1 h.2.2.1 h.2.2.2.1 h.2.2.2.2.1 h.2.2.2.2.2.1
    (allCells 4 6) h.2.2.2.2.2.2.1 h.2.2.2.2.2.2.2.1 1 h.2.2.2.2.2.2.2.2.1
    h.2.2.2.2.2.2.2.2.2.1 h.2.2.2.2.2.2.2.2.2.2
/-- the report is the one of the raster without the nodata column: (1, E) -/
example : ((nvQn.action (allCells 4 6) nvInfIn nvAreasNeg 1).toOption.map (·.infos)) =
    some [EscapeInfo.init, ⟨false, .val 1, .E⟩, EscapeInfo.init] := by decide +kernel

/-- `C18_escape_full` is a `def ... : Prop` that is refuted (`C18_escape_full_fails`): its
    quantifier domain is inhabited by the refuting instance itself, witness (a) of finding F30. -/
example : QFrom f30Q f30Areas 1 ∧ (∀ c ∈ allCells 1 5, InRange f30Areas.rows f30Areas.cols c) ∧ 0 < 1 :=
  ⟨C18_qfrom_make _ _ _ _ _, fun _ hc => mem_allCells.mp hc, by decide⟩

/-! ### sum and area -/

theorem nv_C18_sum_area :
    (∀ c ∈ allCells 6 3, decide (c ∈ nvSuit63) = false → exInf63.at c.1 c.2 = 0) ∧
    0 ≤ rasterSum exInf63 6 3 ∧ rasterSum exInf63 6 3 < 4294967296 ∧
    sumOfInfected exInf63 ((allCells 6 3).filter fun c => decide (c ∈ nvSuit63)) = rasterSum exInf63 6 3 ∧
    areaOfInfected exInf63 (5/2) 30 ((allCells 6 3).filter fun c => decide (c ∈ nvSuit63)) =
      (rasterCount exInf63 6 3 : Rat) * (5/2) * 30 :=
  have hs : ∀ c ∈ allCells 6 3, decide (c ∈ nvSuit63) = false → exInf63.at c.1 c.2 = 0 := by decide
  have t := C18_sum_area exInf63 6 3 (5/2) 30 (fun c => decide (c ∈ nvSuit63)) hs
  ⟨hs, by decide, by decide, t.2.2.1 (by decide) (by decide), t.2.2.2⟩

theorem nv_C18_raster_totals :
    0 ≤ exInf63.cols ∧ exInf63.data.length = exInf63.rows.toNat * exInf63.cols.toNat ∧
    rasterSum exInf63 exInf63.rows exInf63.cols = sumL exInf63.data ∧
    rasterCount exInf63 exInf63.rows exInf63.cols = exInf63.data.countP (· > 0) :=
  ⟨by decide, by decide, C18_raster_totals exInf63 (by decide) (by decide)⟩

/-- Three runs of the quarantine action at step 1: contained, escaped, contained. -/
def nvRuns : List Quarantine :=
  [{ nvQ with infos := [EscapeInfo.init, ⟨false, .val 10, .E⟩, EscapeInfo.init] },
   { nvQ with infos := [EscapeInfo.init, ⟨true, .nan, .none⟩, EscapeInfo.init] },
   { nvQ with infos := [EscapeInfo.init, ⟨false, .val 30, .S⟩, EscapeInfo.init] }]

theorem nv_C18_escape_probability :
    nvRuns ≠ [] ∧ (∀ q ∈ nvRuns, 1 < q.infos.length) ∧
    escapeProbability nvRuns 1 =
      .ok (some (((nvRuns.countP fun q => (q.infos.getD 1 default).escaped : Nat) : Rat) / (nvRuns.length : Rat))) :=
  have h1 : nvRuns ≠ [] := by simp [nvRuns]
  have h2 : ∀ q ∈ nvRuns, 1 < q.infos.length := by decide
  ⟨h1, h2, (C18_escape_probability nvRuns 1 h1 h2).2⟩
example : nvRuns.countP (fun q => (q.infos.getD 1 default).escaped) = 1 ∧ nvRuns.length = 3 := by decide

end C18

/-! # C18List

  Without hypotheses: `sumL_cons'`, `sumL_filter_map`. -/

theorem nv_sumL_perm : ([1, 2, 3, 2] : List Int).Perm [2, 3, 2, 1] ∧ sumL [1, 2, 3, 2] = sumL [2, 3, 2, 1] :=
  have h : ([1, 2, 3, 2] : List Int).Perm [2, 3, 2, 1] := by decide
  ⟨h, sumL_perm h⟩

/-- A 2 x 3 raster flattened, infected cells 1, 3, 5; the list names them and two uninfected cells,
    in the order a run leaves them (cell 0 appended by a host move). -/
theorem nv_C18_sum_over_suitable_list :
    suitableListOK (fun k => [0, 2, 0, 5, 0, 1][k]!) 6 [1, 3, 4, 5, 0] = true ∧
    infectedOverList (fun k => [0, 2, 0, 5, 0, 1][k]!) [1, 3, 4, 5, 0] =
      infectedOverRaster (fun k => [0, 2, 0, 5, 0, 1][k]!) 6 :=
  have h : suitableListOK (fun k => [0, 2, 0, 5, 0, 1][k]!) 6 [1, 3, 4, 5, 0] = true := by decide
  ⟨h, C18_sum_over_suitable_list _ 6 _ h⟩

/-! # C19  raster arithmetic and raster storage

  Without hypotheses: `C19_int_stays_int`, `C19_heap_safe` (its run over the operation list below is
  shown to take the `ok` branch).

  ## Part A (values): a 2 x 3 and a 3 x 1 raster of each cell type -/

def nvRI : Raster Int := ⟨2, 3, [7, -7, 9, 1, 0, 5]⟩
def nvRI' : Raster Int := ⟨2, 3, [2, 2, -3, 1, 4, 5]⟩
def nvRI31 : Raster Int := ⟨3, 1, [5, -5, 4]⟩
def nvRD : Raster Rat := ⟨2, 3, [1/2, -3/4, 2, 1, 5/2, -1]⟩
def nvRD' : Raster Rat := ⟨2, 3, [1/4, 3, -2, 1/2, 5, 8]⟩
def nvRD31 : Raster Rat := ⟨3, 1, [1/2, -3/4, 2]⟩

theorem nv_wf : nvRI.WF ∧ nvRI'.WF ∧ nvRI31.WF ∧ nvRD.WF ∧ nvRD'.WF ∧ nvRD31.WF :=
  ⟨by decide, by decide, by decide, by decide, by decide, by decide⟩

theorem nv_C19_elementwise_raster_scalar :
    nvRI.WF ∧ nvRD31.WF ∧
    ElemMapOK (fun x => BinOp.div.int x 2) nvRI (nvRI.rsII .div 2) = true ∧
    ElemMapOK (fun x => d2i (BinOp.div.dbl (i2d x) (3/2))) nvRI (nvRI.rsID .div (3/2)) = true ∧
    ElemMapOK (fun x => BinOp.div.dbl x (i2d 2)) nvRD31 (nvRD31.rsDI .div 2) = true ∧
    ElemMapOK (fun x => BinOp.div.dbl x (3/2)) nvRD31 (nvRD31.rsDD .div (3/2)) = true :=
  have t := C19_elementwise_raster_scalar .div
  ⟨nv_wf.1, nv_wf.2.2.2.2.2, t.1 nvRI 2 nv_wf.1, t.2.1 nvRI (3/2) nv_wf.1, t.2.2.1 nvRD31 2 nv_wf.2.2.2.2.2,
   t.2.2.2 nvRD31 (3/2) nv_wf.2.2.2.2.2⟩

example : nvRI.rsID .div (3/2) = ⟨2, 3, [4, -4, 6, 0, 0, 3]⟩ := by decide +kernel

theorem nv_C19_elementwise_scalar_raster : nvRI31.WF ∧ nvRD.WF := ⟨nv_wf.2.2.1, nv_wf.2.2.2.1⟩
example := C19_elementwise_scalar_raster nvRI31 nvRD 7 (3/2) nv_C19_elementwise_scalar_raster.1
  nv_C19_elementwise_scalar_raster.2

theorem nv_C19_elementwise_scalar_raster_spec :
    nvRI31.WF ∧ nvRD.WF ∧
    ElemMapOK (specSR_II .sub 7) nvRI31 (Raster.srII .sub 7 nvRI31) = true ∧
    ElemMapOK (specSR_ID .sub (3/2)) nvRI31 (Raster.srID .sub (3/2) nvRI31) = true ∧
    ElemMapOK (specSR_DI .sub 7) nvRD (Raster.srDI .sub 7 nvRD) = true ∧
    ElemMapOK (specSR_DD .sub (3/2)) nvRD (Raster.srDD .sub (3/2) nvRD) = true :=
  have t := C19_elementwise_scalar_raster_spec .sub
  ⟨nv_wf.2.2.1, nv_wf.2.2.2.1, t.1 _ 7 nv_wf.2.2.1, t.2.1 _ (3/2) nv_wf.2.2.1, t.2.2.1 _ 7 nv_wf.2.2.2.1,
   t.2.2.2 _ (3/2) nv_wf.2.2.2.1⟩

/-- The four results of `raster / raster` on equal shapes (no zero divisor). -/
theorem nv_rr :
    nvRI.rrII .div nvRI' = .ok ⟨2, 3, [3, -3, -3, 1, 0, 1]⟩ ∧
    nvRI.rrID .div nvRD' = .ok ⟨2, 3, [28, -7/3, -9/2, 2, 0, 5/8]⟩ ∧
    nvRD.rrDI .div nvRI' = .ok ⟨2, 3, [1/4, -3/8, -2/3, 1, 5/8, -1/5]⟩ ∧
    nvRD.rrDD .div nvRD' = .ok ⟨2, 3, [2, -1/4, -1, 2, 1/2, -1/8]⟩ := by decide +kernel

theorem nv_C19_elementwise_raster_raster :
    ElemZipOK BinOp.div.int nvRI nvRI' ⟨2, 3, [3, -3, -3, 1, 0, 1]⟩ = true ∧
    ElemZipOK (fun x y => BinOp.div.dbl (i2d x) y) nvRI nvRD' ⟨2, 3, [28, -7/3, -9/2, 2, 0, 5/8]⟩ = true ∧
    ElemZipOK (fun x y => BinOp.div.dbl x (i2d y)) nvRD nvRI' ⟨2, 3, [1/4, -3/8, -2/3, 1, 5/8, -1/5]⟩ = true ∧
    ElemZipOK BinOp.div.dbl nvRD nvRD' ⟨2, 3, [2, -1/4, -1, 2, 1/2, -1/8]⟩ = true :=
  have t := C19_elementwise_raster_raster .div
  ⟨t.1 _ _ _ nv_wf.1 nv_wf.2.1 nv_rr.1, t.2.1 _ _ _ nv_wf.1 nv_wf.2.2.2.2.1 nv_rr.2.1,
   t.2.2.1 _ _ _ nv_wf.2.2.2.1 nv_wf.2.1 nv_rr.2.2.1, t.2.2.2 _ _ _ nv_wf.2.2.2.1 nv_wf.2.2.2.2.1 nv_rr.2.2.2⟩

theorem nv_C19_elementwise_compound_scalar :
    nvRI31.WF ∧ nvRD.WF ∧
    ElemMapOK (fun x => BinOp.mul.int x 3) nvRI31 (nvRI31.asII .mul 3) = true ∧
    ElemMapOK (fun x => d2i (BinOp.mul.dbl (i2d x) (1/2))) nvRI31 (nvRI31.asID .mul (1/2)) = true ∧
    ElemMapOK (fun x => BinOp.mul.dbl x (i2d 3)) nvRD (nvRD.asDI .mul 3) = true ∧
    ElemMapOK (fun x => BinOp.mul.dbl x (1/2)) nvRD (nvRD.asDD .mul (1/2)) = true :=
  have t := C19_elementwise_compound_scalar .mul
  ⟨nv_wf.2.2.1, nv_wf.2.2.2.1, t.1 _ 3 nv_wf.2.2.1, t.2.1 _ (1/2) nv_wf.2.2.1, t.2.2.1 _ 3 nv_wf.2.2.2.1,
   t.2.2.2 _ (1/2) nv_wf.2.2.2.1⟩

example : nvRI31.asID .mul (1/2) = ⟨3, 1, [2, -2, 2]⟩ := by decide +kernel

theorem nv_ar :
    nvRI.arII .sub nvRI' = .ok ⟨2, 3, [5, -9, 12, 0, -4, 0]⟩ ∧
    nvRD.arDI .sub nvRI' = .ok ⟨2, 3, [-3/2, -11/4, 5, 0, -3/2, -6]⟩ ∧
    nvRD.arDD .sub nvRD' = .ok ⟨2, 3, [1/4, -15/4, 4, 1/2, -5/2, -9]⟩ := by decide +kernel

theorem nv_C19_elementwise_compound_raster :
    ElemZipOK BinOp.sub.int nvRI nvRI' ⟨2, 3, [5, -9, 12, 0, -4, 0]⟩ = true ∧
    ElemZipOK (fun x y => BinOp.sub.dbl x (i2d y)) nvRD nvRI' ⟨2, 3, [-3/2, -11/4, 5, 0, -3/2, -6]⟩ = true ∧
    ElemZipOK BinOp.sub.dbl nvRD nvRD' ⟨2, 3, [1/4, -15/4, 4, 1/2, -5/2, -9]⟩ = true :=
  have t := C19_elementwise_compound_raster .sub
  ⟨t.1 _ _ _ nv_wf.1 nv_wf.2.1 nv_ar.1, t.2.1 _ _ _ nv_wf.2.2.2.1 nv_wf.2.1 nv_ar.2.1,
   t.2.2 _ _ _ nv_wf.2.2.2.1 nv_wf.2.2.2.2.1 nv_ar.2.2⟩

/-- `C19_elementwise` is the conjunction of the five theorems above; one component of each. -/
theorem nv_C19_elementwise :
    ElemMapOK (fun x => BinOp.div.int x 2) nvRI (nvRI.rsII .div 2) = true ∧
    ElemMapOK (specSR_DD .div (3/2)) nvRD (Raster.srDD .div (3/2) nvRD) = true ∧
    ElemZipOK (fun x y => BinOp.div.dbl (i2d x) y) nvRI nvRD' ⟨2, 3, [28, -7/3, -9/2, 2, 0, 5/8]⟩ = true ∧
    ElemMapOK (fun x => d2i (BinOp.div.dbl (i2d x) (3/2))) nvRI (nvRI.asID .div (3/2)) = true :=
  have t := C19_elementwise .div
  ⟨t.1.1 _ 2 nv_wf.1, t.2.1.2.2.2 _ (3/2) nv_wf.2.2.2.1, t.2.2.1.2.1 _ _ _ nv_wf.1 nv_wf.2.2.2.2.1 nv_rr.2.1,
   t.2.2.2.1.2.1 _ (3/2) nv_wf.1⟩

theorem nv_C19_elementwise_meaning :
    ElemMapOK (fun x => d2i (BinOp.div.dbl (i2d x) (3/2))) nvRI ⟨2, 3, [4, -4, 6, 0, 0, 3]⟩ = true ∧
    (⟨2, 3, [4, -4, 6, 0, 0, 3]⟩ : Raster Int).rows = nvRI.rows ∧ (⟨2, 3, [4, -4, 6, 0, 0, 3]⟩ : Raster Int).cols = nvRI.cols ∧
    (⟨2, 3, [4, -4, 6, 0, 0, 3]⟩ : Raster Int).WF ∧
    ∀ i j, i < nvRI.rows → j < nvRI.cols →
      (⟨2, 3, [4, -4, 6, 0, 0, 3]⟩ : Raster Int).at? i j = (nvRI.at? i j).map fun x => d2i (BinOp.div.dbl (i2d x) (3/2)) :=
  have h : ElemMapOK (fun x => d2i (BinOp.div.dbl (i2d x) (3/2))) nvRI ⟨2, 3, [4, -4, 6, 0, 0, 3]⟩ = true := by
    decide +kernel
  ⟨h, C19_elementwise_meaning _ _ _ h⟩

/-- Both premises of `C19_shape_mismatch_rejected`: 2 x 3 against 3 x 1, and 2 x 3 against 2 x 3. -/
theorem nv_C19_shape_mismatch_rejected :
    (nvRI.rows ≠ nvRD31.rows ∨ nvRI.cols ≠ nvRD31.cols) ∧
    (Raster.zip (cRR_ID .add) nvRI nvRD31 = .error .invalid_argument ∧
      Raster.zipAssign (fun x _ => x) nvRI nvRD31 = .error .invalid_argument) ∧
    (nvRI.rows = nvRD.rows ∧ nvRI.cols = nvRD.cols) ∧
    (∃ r, Raster.zip (cRR_ID .add) nvRI nvRD = .ok r ∧ r.rows = nvRI.rows ∧ r.cols = nvRI.cols) :=
  have h1 : nvRI.rows ≠ nvRD31.rows ∨ nvRI.cols ≠ nvRD31.cols := by decide
  have h2 : nvRI.rows = nvRD.rows ∧ nvRI.cols = nvRD.cols := by decide
  ⟨h1, (C19_shape_mismatch_rejected (cRR_ID .add) (fun x _ => x) nvRI nvRD31).1 h1, h2,
   ((C19_shape_mismatch_rejected (cRR_ID .add) (fun x _ => x) nvRI nvRD).2 h2).1⟩

/-- Transposed shapes with the same number of cells (2 x 3 against 3 x 2), and 2 x 3 against 3 x 1. -/
def nvRI32 : Raster Int := ⟨3, 2, [1, 2, 3, 4, 5, 6]⟩
def nvRD32 : Raster Rat := ⟨3, 2, [1, 2, 3, 4, 5, 6]⟩

theorem nv_C19_shape_mismatch_rejected_ops :
    (nvRI.rows ≠ nvRI32.rows ∨ nvRI.cols ≠ nvRI32.cols) ∧ (nvRI.rows ≠ nvRD31.rows ∨ nvRI.cols ≠ nvRD31.cols) ∧
    (nvRD31.rows ≠ nvRI.rows ∨ nvRD31.cols ≠ nvRI.cols) ∧ (nvRD31.rows ≠ nvRD32.rows ∨ nvRD31.cols ≠ nvRD32.cols) ∧
    nvRI.rrII .mul nvRI32 = .error .invalid_argument ∧ nvRI.rrID .mul nvRD31 = .error .invalid_argument ∧
    nvRD31.rrDI .mul nvRI = .error .invalid_argument ∧ nvRD31.rrDD .mul nvRD32 = .error .invalid_argument ∧
    nvRI.arII .mul nvRI32 = .error .invalid_argument ∧ nvRD31.arDI .mul nvRI = .error .invalid_argument ∧
    nvRD31.arDD .mul nvRD32 = .error .invalid_argument :=
  have h1 : nvRI.rows ≠ nvRI32.rows ∨ nvRI.cols ≠ nvRI32.cols := by decide
  have h2 : nvRI.rows ≠ nvRD31.rows ∨ nvRI.cols ≠ nvRD31.cols := by decide
  have h3 : nvRD31.rows ≠ nvRI.rows ∨ nvRD31.cols ≠ nvRI.cols := by decide
  have h4 : nvRD31.rows ≠ nvRD32.rows ∨ nvRD31.cols ≠ nvRD32.cols := by decide
  ⟨h1, h2, h3, h4, C19_shape_mismatch_rejected_ops .mul nvRI nvRI32 nvRD31 nvRD32 h1 h2 h3 h4⟩

theorem nv_C19_eq_iff :
    nvRD.WF ∧ nvRD'.WF ∧
    (nvRD.eqOp nvRD' = true ↔ (nvRD.rows = nvRD'.rows ∧ nvRD.cols = nvRD'.cols ∧ nvRD.cells = nvRD'.cells)) ∧
    nvRD.neOp nvRD' = !nvRD.eqOp nvRD' :=
  ⟨nv_wf.2.2.2.1, nv_wf.2.2.2.2.1, C19_eq_iff nvRD nvRD' nv_wf.2.2.2.1 nv_wf.2.2.2.2.1⟩
/-- `C19_eq_equivalence` on three well-formed rasters with both premises of transitivity true. -/
theorem nv_C19_eq_equivalence :
    nvRI32.eqOp ⟨3, 2, [1, 2, 3, 4, 5, 6]⟩ = true ∧ (⟨3, 2, [1, 2, 3, 4, 5, 6]⟩ : Raster Int).eqOp nvRI32 = true ∧
    nvRI32.eqOp nvRI32 = true := by
  have h := C19_eq_equivalence nvRI32 ⟨3, 2, [1, 2, 3, 4, 5, 6]⟩ nvRI32 (by decide) (by decide) (by decide)
  have e : nvRI32.eqOp ⟨3, 2, [1, 2, 3, 4, 5, 6]⟩ = true := by decide
  exact ⟨e, h.2.1 e, h.2.2 e (h.2.1 e)⟩
/-- ... and the `true` side: a raster and an equal copy. -/
example : nvRI32.eqOp ⟨3, 2, [1, 2, 3, 4, 5, 6]⟩ = true :=
  (C19_eq_iff nvRI32 ⟨3, 2, [1, 2, 3, 4, 5, 6]⟩ (by decide) (by decide)).1.mpr ⟨rfl, rfl, rfl⟩

/-! ## Part B (storage)

  Two caller arrays; one well-scoped operation list with a wrapper over caller memory (variable 0),
  a constructed owner (1), a copy of the wrapper (2), a move construction (3 from 1), a copy
  assignment into the moved-from variable, a write through the wrapper, a write by the caller, a
  fresh-result operator (4), an in-place operator, a second wrapper of another shape (5), the two
  throwing raster-raster operators, a move assignment and the destruction of everything.
  `nvAt k` is the state after the first `k` operations. -/

section C19B
open Heap

def nvExts : List (List Int) := [[1, 2, 3, 4, 5, 6], [10, 20]]

def nvOps : List (HOp Int) :=
  [.wrap 0 0 2 3, .construct 1 2 3 7, .copyCtor 2 0, .moveCtor 3 1, .copyAssign 1 2, .write 0 1 2 99,
   .extWrite 0 0 50, .zipNew 4 2 3 (· + ·), .mapInPlace 2 (· * 2), .wrap 5 1 1 2, .zipInPlace 2 5 (· + ·),
   .zipNew 6 2 5 (· + ·), .moveAssign 3 4, .destroy 0, .destroy 1, .destroy 2, .destroy 3, .destroy 4, .destroy 5]

def nvAt (k : Nat) : Heap Int := Heap.okOr ((Heap.init nvExts).run (nvOps.take k))

/-- The whole list is inside the caller's contract and completes. -/
theorem nv_run_all : (Heap.init nvExts).run nvOps = .ok (nvAt 19) := rfl

theorem nv_inv_at (k : Nat) (h : (Heap.init nvExts).run (nvOps.take k) = .ok (nvAt k)) : Inv (nvAt k) :=
  inv_of_run (inv_init nvExts) h

theorem nv_C19_heap_safe : ∃ h', (Heap.init nvExts).run nvOps = .ok h' ∧ Inv h' := by
  rcases C19_heap_safe nvExts nvOps with h | h
  · exact h
  · rw [nv_run_all] at h; cases h

/-- From the state after the move construction, the rest of the list. -/
theorem nv_C19_heap_safe_from :
    Inv (nvAt 4) ∧ (nvAt 4).run (nvOps.drop 4) = .ok (nvAt 19) ∧
    ((∃ h', (nvAt 4).run (nvOps.drop 4) = .ok h' ∧ Inv h') ∨ (nvAt 4).run (nvOps.drop 4) = .error .illScoped) :=
  ⟨nv_inv_at 4 rfl, rfl, C19_heap_safe_from (nvAt 4) (nv_inv_at 4 rfl) (nvOps.drop 4)⟩

theorem nv_C19_no_double_free : Inv (nvAt 4) ∧ (nvAt 4).run (nvOps.drop 4) ≠ .error .doubleFree :=
  ⟨nv_inv_at 4 rfl, C19_no_double_free (nvAt 4) (nv_inv_at 4 rfl) (nvOps.drop 4)⟩

theorem nv_C19_no_use_after_free : Inv (nvAt 4) ∧ (nvAt 4).run ((nvOps.drop 4).take 9) = .ok (nvAt 13) :=
  ⟨nv_inv_at 4 rfl, rfl⟩
example := C19_no_use_after_free (nvAt 4) nv_C19_no_use_after_free.1 ((nvOps.drop 4).take 9)
/-- the inner statement at the moved-to variable 3 of the end state -/
example : ∃ cells, (nvAt 13).bufs 5 = .live cells ∧ 2 * 3 ≤ cells.length :=
  (C19_no_use_after_free (nvAt 4) nv_C19_no_use_after_free.1 ((nvOps.drop 4).take 9)).2.2.2.2 _
    nv_C19_no_use_after_free.2 3 ⟨2, 3, some 5, true⟩ 5 rfl rfl

theorem nv_C19_no_external_free :
    Inv (nvAt 4) ∧ (nvAt 4).run (nvOps.drop 4) = .ok (nvAt 19) ∧
    (nvAt 19).nExt = (nvAt 4).nExt ∧ ∀ e, e < (nvAt 4).nExt → ∃ cells, (nvAt 19).ext e = some cells :=
  ⟨nv_inv_at 4 rfl, rfl, (C19_no_external_free (nvAt 4) (nv_inv_at 4 rfl) (nvOps.drop 4)).2 _ rfl⟩

/-- After six operations variable 3 owns buffer 2 (moved from variable 1) and variable 1 owns its
    own new buffer 4. -/
theorem nv_C19_owners_disjoint :
    Inv (Heap.init nvExts) ∧ (Heap.init nvExts).run (nvOps.take 6) = .ok (nvAt 6) ∧
    (nvAt 6).slots 3 = some ⟨2, 3, some 2, true⟩ ∧ (1 : Nat) ≠ 3 ∧ (nvAt 6).slots 1 = some ⟨2, 3, some 4, true⟩ ∧
    ((⟨2, 3, some 4, true⟩ : RObj).data ≠ some 2 ∧ (nvAt 6).nExt ≤ 2) :=
  ⟨inv_init nvExts, rfl, rfl, by decide, rfl,
   C19_owners_disjoint (Heap.init nvExts) (inv_init nvExts) (nvOps.take 6) (nvAt 6) rfl 3 1 ⟨2, 3, some 2, true⟩
     ⟨2, 3, some 4, true⟩ 2 rfl rfl rfl (by decide) rfl⟩

/-- `Raster v2(v0)`: the copy of the wrapper. Afterwards the wrapper is written through, the caller
    writes its array, other variables are moved and assigned: variable 2 still shows the old
    contents; then `v2 *= 2` is invisible elsewhere. -/
theorem nv_C19_copy_independent :
    Inv (nvAt 2) ∧ ((HOp.copyCtor 2 0 : HOp Int) = .copyCtor 2 0 ∨ ((HOp.copyCtor 2 0 : HOp Int) = .copyAssign 2 0 ∧ 2 ≠ 0)) ∧
    (nvAt 2).inScope (.copyCtor 2 0) = true ∧ (nvAt 2).step (.copyCtor 2 0) = .ok (nvAt 3) ∧
    (∀ op' ∈ (nvOps.drop 3).take 5, op'.reseats 2 = false ∧ op'.writesVia 2 = false) ∧
    (nvAt 3).run ((nvOps.drop 3).take 5) = .ok (nvAt 8) ∧
    (HOp.mapInPlace 2 (· * 2) : HOp Int).writesVia 2 = true ∧ (nvAt 8).inScope (.mapInPlace 2 (· * 2)) = true ∧
    (nvAt 8).step (.mapInPlace 2 (· * 2)) = .ok (nvAt 9) ∧
    -- conclusions
    (nvAt 8).view 2 = (nvAt 2).view 0 ∧ (nvAt 8).view 0 ≠ (nvAt 2).view 0 ∧
    (∀ u, u ≠ 2 → (nvAt 9).view u = (nvAt 8).view u) ∧ (∀ e, e < (nvAt 8).nExt → (nvAt 9).ext e = (nvAt 8).ext e) :=
  have hn : ∀ op' ∈ (nvOps.drop 3).take 5, op'.reseats 2 = false ∧ op'.writesVia 2 = false := by decide
  have t := C19_copy_independent (nvAt 2) (nvAt 3) (nv_inv_at 2 rfl) 2 0 (.copyCtor 2 0) (.inl rfl) rfl rfl
  have t5 := t.2.2.2.2 ((nvOps.drop 3).take 5) (nvAt 8) (.mapInPlace 2 (· * 2)) (nvAt 9) (fun o ho => (hn o ho).1) rfl
    rfl rfl rfl
  ⟨nv_inv_at 2 rfl, .inl rfl, rfl, rfl, hn, rfl, rfl, rfl, rfl, t.2.2.2.1 _ _ hn rfl, by decide, t5.1, t5.2⟩

/-- `v1 = v2` (copy assignment into the moved-from variable 1, `1 ≠ 2`). -/
theorem nv_C19_copy_independent_assign :
    Inv (nvAt 4) ∧ ((HOp.copyAssign 1 2 : HOp Int) = .copyCtor 1 2 ∨ ((HOp.copyAssign 1 2 : HOp Int) = .copyAssign 1 2 ∧ 1 ≠ 2)) ∧
    (nvAt 4).inScope (.copyAssign 1 2) = true ∧ (nvAt 4).step (.copyAssign 1 2) = .ok (nvAt 5) ∧
    (nvAt 5).view 1 = (nvAt 4).view 2 :=
  ⟨nv_inv_at 4 rfl, .inr ⟨rfl, by decide⟩, rfl, rfl,
   (C19_copy_independent (nvAt 4) (nvAt 5) (nv_inv_at 4 rfl) 1 2 (.copyAssign 1 2) (.inr ⟨rfl, by decide⟩) rfl rfl).1⟩

theorem nv_C19_move_transfers :
    Inv (nvAt 3) ∧ ((HOp.moveCtor 3 1 : HOp Int) = .moveCtor 3 1 ∨ ((HOp.moveCtor 3 1 : HOp Int) = .moveAssign 3 1 ∧ 3 ≠ 1)) ∧
    (nvAt 3).inScope (.moveCtor 3 1) = true ∧ (nvAt 3).slots 1 = some ⟨2, 3, some 2, true⟩ ∧
    (nvAt 3).step (.moveCtor 3 1) = .ok (nvAt 4) ∧
    (nvAt 4).slots 3 = some ⟨2, 3, some 2, true⟩ ∧ (nvAt 4).slots 1 = some ⟨2, 3, none, true⟩ ∧
    (nvAt 4).view 3 = (nvAt 3).view 1 ∧ (nvAt 4).next = (nvAt 3).next ∧
    (∀ u, u ≠ 3 → u ≠ 1 → (nvAt 4).view u = (nvAt 3).view u) ∧ (∀ e, e < (nvAt 3).nExt → (nvAt 4).ext e = (nvAt 3).ext e) :=
  ⟨nv_inv_at 3 rfl, .inl rfl, rfl, rfl, rfl,
   C19_move_transfers (nvAt 3) (nvAt 4) (nv_inv_at 3 rfl) 3 1 (.moveCtor 3 1) ⟨2, 3, some 2, true⟩ (.inl rfl) rfl rfl rfl⟩

/-- `v3 = std::move(v4)`: variable 3 owns buffer 2, which is released; it takes over buffer 5. -/
theorem nv_C19_move_transfers_assign :
    Inv (nvAt 12) ∧ ((HOp.moveAssign 3 4 : HOp Int) = .moveCtor 3 4 ∨ ((HOp.moveAssign 3 4 : HOp Int) = .moveAssign 3 4 ∧ 3 ≠ 4)) ∧
    (nvAt 12).inScope (.moveAssign 3 4) = true ∧ (nvAt 12).slots 4 = some ⟨2, 3, some 5, true⟩ ∧
    (nvAt 12).step (.moveAssign 3 4) = .ok (nvAt 13) ∧ (nvAt 13).view 3 = (nvAt 12).view 4 :=
  ⟨nv_inv_at 12 rfl, .inr ⟨rfl, by decide⟩, rfl, rfl, rfl,
   (C19_move_transfers (nvAt 12) (nvAt 13) (nv_inv_at 12 rfl) 3 4 (.moveAssign 3 4) ⟨2, 3, some 5, true⟩
     (.inr ⟨rfl, by decide⟩) rfl rfl rfl).2.2.1⟩

/-- `Raster v0(array 0, 2, 3)` in the initial state, then six operations that do not rebind
    variable 0 (one of them writes through it, one is the caller's own write); then a further write
    through it and its destruction. -/
theorem nv_C19_wrap_writes_through :
    Inv (nvAt 0) ∧ (nvAt 0).inScope (.wrap 0 0 2 3) = true ∧ (nvAt 0).step (.wrap 0 0 2 3) = .ok (nvAt 1) ∧
    (∀ op ∈ (nvOps.drop 1).take 6, op.reseats 0 = false) ∧ (nvAt 1).run ((nvOps.drop 1).take 6) = .ok (nvAt 7) ∧
    (nvAt 7).slots 0 = some ⟨2, 3, some 0, false⟩ ∧
    (∃ cells, (nvAt 7).ext 0 = some cells ∧ 2 * 3 ≤ cells.length ∧ (nvAt 7).view 0 = some ⟨2, 3, cells.take (2 * 3)⟩) ∧
    (nvAt 7).ext 0 = some [50, 2, 3, 4, 5, 99] ∧
    (nvAt 7).inScope (.write 0 0 1 8) = true ∧
    (∃ cells, (nvAt 7).ext 0 = some cells ∧ 0 * 3 + 1 < cells.length ∧
      (Heap.okOr ((nvAt 7).step (.write 0 0 1 8))).ext 0 = some (cells.set (0 * 3 + 1) 8)) ∧
    ((Heap.okOr ((nvAt 7).step (.destroy 0))).ext 0 = (nvAt 7).ext 0 ∧
      ∃ cells, (Heap.okOr ((nvAt 7).step (.destroy 0))).ext 0 = some cells) :=
  have hn : ∀ op ∈ (nvOps.drop 1).take 6, op.reseats 0 = false := by decide
  have t := C19_wrap_writes_through (nvAt 0) (nvAt 1) (nv_inv_at 0 rfl) 0 0 2 3 rfl rfl ((nvOps.drop 1).take 6) (nvAt 7) hn rfl
  ⟨nv_inv_at 0 rfl, rfl, rfl, hn, rfl, t.1, t.2.1, by decide, rfl, t.2.2.1 0 1 8 _ rfl rfl, t.2.2.2 _ rfl⟩

/-- The three parts of `C19_operands_unchanged`: a fresh-result operator (`v4 = v2 + v3`), an
    in-place operator on private storage (`v2 *= 2`), and the two throwing operators (2 x 3 against
    1 x 2). -/
theorem nv_C19_operands_unchanged :
    (Inv (nvAt 7) ∧ (nvAt 7).inScope (.zipNew 4 2 3 (· + ·)) = true ∧ (nvAt 7).step (.zipNew 4 2 3 (· + ·)) = .ok (nvAt 8) ∧
      (∀ u, u ≠ 4 → (nvAt 8).view u = (nvAt 7).view u) ∧ (∀ e, e < (nvAt 7).nExt → (nvAt 8).ext e = (nvAt 7).ext e)) ∧
    (Inv (nvAt 8) ∧ (nvAt 8).inScope (.mapInPlace 2 (· * 2)) = true ∧ (nvAt 8).step (.mapInPlace 2 (· * 2)) = .ok (nvAt 9) ∧
      (HOp.mapInPlace 2 (· * 2) : HOp Int).writesVia 2 = true ∧ Private (nvAt 8) 2 ∧
      (∀ u, u ≠ 2 → (nvAt 9).view u = (nvAt 8).view u) ∧ (∀ e, e < (nvAt 8).nExt → (nvAt 9).ext e = (nvAt 8).ext e)) ∧
    (Inv (nvAt 10) ∧ (nvAt 10).inScope (.zipInPlace 2 5 (· + ·)) = true ∧
      (nvAt 10).step (.zipInPlace 2 5 (· + ·)) = .ok (nvAt 11) ∧
      (nvAt 10).throws (.zipInPlace 2 5 (· + ·)) = some .invalid_argument ∧ nvAt 11 = nvAt 10) ∧
    (Inv (nvAt 11) ∧ (nvAt 11).inScope (.zipNew 6 2 5 (· + ·)) = true ∧
      (nvAt 11).step (.zipNew 6 2 5 (· + ·)) = .ok (nvAt 12) ∧
      (nvAt 11).throws (.zipNew 6 2 5 (· + ·)) = some .invalid_argument ∧ nvAt 12 = nvAt 11) :=
  have hp : Private (nvAt 8) 2 := private_of_owner (nv_inv_at 8 rfl) (o := ⟨2, 3, some 3, true⟩) rfl rfl rfl
  ⟨⟨nv_inv_at 7 rfl, rfl, rfl,
     (C19_operands_unchanged (nvAt 7) (nvAt 8) (nv_inv_at 7 rfl) (.zipNew 4 2 3 (· + ·)) rfl rfl).1 4
       (.inr (.inl ⟨2, 3, _, rfl⟩))⟩,
   ⟨nv_inv_at 8 rfl, rfl, rfl, rfl, hp,
     (C19_operands_unchanged (nvAt 8) (nvAt 9) (nv_inv_at 8 rfl) (.mapInPlace 2 (· * 2)) rfl rfl).2.1 2 rfl hp⟩,
   ⟨nv_inv_at 10 rfl, rfl, rfl, rfl,
     (C19_operands_unchanged (nvAt 10) (nvAt 11) (nv_inv_at 10 rfl) (.zipInPlace 2 5 (· + ·)) rfl rfl).2.2
       .invalid_argument rfl⟩,
   ⟨nv_inv_at 11 rfl, rfl, rfl, rfl,
     (C19_operands_unchanged (nvAt 11) (nvAt 12) (nv_inv_at 11 rfl) (.zipNew 6 2 5 (· + ·)) rfl rfl).2.2
       .invalid_argument rfl⟩⟩

/-- The four parts of `C19_elementwise_heap`, the two raster-raster ones in both outcomes. -/
theorem nv_C19_elementwise_heap :
    -- `pow(v2, 2)` into the unused variable 6
    (Inv (nvAt 9) ∧ (nvAt 9).inScope (.powNew 6 2 (fun x => x * x)) = true ∧
      ∃ va, (nvAt 9).view 2 = some va ∧
        (Heap.okOr ((nvAt 9).step (.powNew 6 2 (fun x => x * x)))).view 6 = some (va.map fun x => x * x)) ∧
    -- `v2 *= 2`
    (Inv (nvAt 8) ∧ (nvAt 8).inScope (.mapInPlace 2 (· * 2)) = true ∧ (nvAt 8).step (.mapInPlace 2 (· * 2)) = .ok (nvAt 9) ∧
      ∃ va, (nvAt 8).view 2 = some va ∧ (nvAt 9).view 2 = some (va.map (· * 2))) ∧
    -- `v4 = v2 + v3` (same shape) and `v6 = v2 + v5` (2 x 3 against 1 x 2)
    (Inv (nvAt 7) ∧ (nvAt 7).inScope (.zipNew 4 2 3 (· + ·)) = true ∧ (nvAt 7).step (.zipNew 4 2 3 (· + ·)) = .ok (nvAt 8) ∧
      (nvAt 8).view 4 = some ⟨2, 3, [8, 9, 10, 11, 12, 13]⟩) ∧
    (Inv (nvAt 11) ∧ (nvAt 11).inScope (.zipNew 6 2 5 (· + ·)) = true ∧ (nvAt 11).step (.zipNew 6 2 5 (· + ·)) = .ok (nvAt 12) ∧
      (nvAt 11).view 5 = some ⟨1, 2, [10, 20]⟩) ∧
    -- `v2 += v5` (rejected) and `v2 += v3`
    (Inv (nvAt 10) ∧ (nvAt 10).inScope (.zipInPlace 2 5 (· + ·)) = true ∧
      (nvAt 10).step (.zipInPlace 2 5 (· + ·)) = .ok (nvAt 11)) ∧
    (Inv (nvAt 10) ∧ (nvAt 10).inScope (.zipInPlace 2 3 (· + ·)) = true ∧
      (Heap.okOr ((nvAt 10).step (.zipInPlace 2 3 (· + ·)))).view 2 = some ⟨2, 3, [9, 11, 13, 15, 17, 19]⟩) :=
  ⟨⟨nv_inv_at 9 rfl, rfl,
     (C19_elementwise_heap (nvAt 9) (Heap.okOr ((nvAt 9).step (.powNew 6 2 (fun x => x * x)))) (nv_inv_at 9 rfl)).1 6 2
       (fun x => x * x) (.powNew 6 2 (fun x => x * x)) (.inr rfl) rfl rfl⟩,
   ⟨nv_inv_at 8 rfl, rfl, rfl, (C19_elementwise_heap (nvAt 8) (nvAt 9) (nv_inv_at 8 rfl)).2.1 2 (· * 2) rfl rfl⟩,
   ⟨nv_inv_at 7 rfl, rfl, rfl, by decide⟩,
   ⟨nv_inv_at 11 rfl, rfl, rfl, by decide⟩,
   ⟨nv_inv_at 10 rfl, rfl, rfl⟩,
   ⟨nv_inv_at 10 rfl, rfl, by decide⟩⟩

/-- The raster-raster parts applied (the conclusions contain a `match` on the value-level result). -/
example := (C19_elementwise_heap (nvAt 7) (nvAt 8) (nv_inv_at 7 rfl)).2.2.1 4 2 3 (· + ·) rfl rfl
example := (C19_elementwise_heap (nvAt 11) (nvAt 12) (nv_inv_at 11 rfl)).2.2.1 6 2 5 (· + ·) rfl rfl
example := (C19_elementwise_heap (nvAt 10) (nvAt 11) (nv_inv_at 10 rfl)).2.2.2 2 5 (· + ·) rfl rfl
example := (C19_elementwise_heap (nvAt 10) (Heap.okOr ((nvAt 10).step (.zipInPlace 2 3 (· + ·)))) (nv_inv_at 10 rfl)).2.2.2
  2 3 (· + ·) rfl rfl

/-! Finding F31. `C19_wrap_writes_through_full_fails` and `C19_wrap_writes_through_over_assignments_fails` are
    refutations by a closed witness (no hypotheses). `C19_assign_into_wrapper_leaks`: in the state after
    `Raster v0(array 0, 2, 3); Raster v1(2, 3, 7)` the assignment `v0 = v1` is in scope and in the region of F31;
    the fresh buffer has id 3; a continuation that writes through `v0`, moves it to `v2` and destroys every
    variable ends with buffer 3 allocated and without an owner; destroying `v0` at once leaves it unreachable. -/
def nvF31 : Heap Int := Heap.okOr ((nvAt 2).step (.copyAssign 0 1))
def nvF31Ops : List (HOp Int) := [.write 0 0 0 9, .moveCtor 2 0, .destroy 2, .destroy 0, .destroy 1]
def nvF31End : Heap Int := Heap.okOr (nvF31.run nvF31Ops)
def nvF31Destroyed : Heap Int := Heap.okOr (nvF31.step (.destroy 0))

theorem nv_C19_assign_into_wrapper_leaks :
    Inv (nvAt 2) ∧ (nvAt 2).f31Region (.copyAssign 0 1) = true ∧ (nvAt 2).inScope (.copyAssign 0 1) = true ∧
    (nvAt 2).step (.copyAssign 0 1) = .ok nvF31 ∧ (nvAt 2).next = 3 ∧
    nvF31.slots 0 = some ⟨2, 3, some 3, false⟩ ∧ nvF31.ext 0 = some [1, 2, 3, 4, 5, 6] ∧
    (nvF31.run nvF31Ops = .ok nvF31End ∧ Live nvF31End 3 ∧ Unowned nvF31End 3 ∧ ∀ s, s < 7 → nvF31End.slots s = none) ∧
    (nvF31.step (.destroy 0) = .ok nvF31Destroyed ∧ Live nvF31Destroyed 3 ∧ Unreachable nvF31Destroyed 3) :=
  have t := C19_assign_into_wrapper_leaks (nvAt 2) nvF31 (nv_inv_at 2 rfl) 0 1 (by decide) rfl rfl
  have t1 := t.2.2.2.2.1 nvF31Ops nvF31End rfl
  have t2 := t.2.2.2.2.2 nvF31Destroyed rfl
  ⟨nv_inv_at 2 rfl, by decide, rfl, rfl, rfl, by decide, by decide, ⟨rfl, t1.1, t1.2, by decide⟩, ⟨rfl, t2.1, t2.2⟩⟩

end C19B

end NVMulti
end Pops
