/-
  Non-vacuity audit, part 2: Props/C13.lean, Props/C14.lean, Props/C17Kern.lean. These Props files
  import Analysis files built on single Mathlib modules, so this file (unlike
  Props/NonVacuous/Kernels.lean) depends on Mathlib through them; it imports no further Mathlib
  module. Every theorem with hypotheses (top-level, or inside a conjunct) is applied to a concrete
  instance that satisfies all of them. Instances: Lemmas/NonVacuousKernels.lean.
  Without hypotheses (no instance needed): `C13_axes`, `C13_axes_rat`, `C13_sampler_parameters`,
  `C14_quantile_powerlaw_fails`, `C14_quantile_powerlaw_pareto_fails`, `C14_no_window_example`.
-/
import PopsModel.Props.C13
import PopsModel.Props.C14
import PopsModel.Props.C17Kern
import PopsModel.Lemmas.NonVacuousKernels
namespace Pops.NV
open Pops Pops.Det Real

/-! ## C14: allotment on the 3 x 5 window `NV.window`, 7 dispersers, the code's initial maximum -/

theorem window_nonneg : ∀ x ∈ window, (0 : ℚ) ≤ x := by decide +kernel
theorem window_sum : window.sum = 1 := by decide +kernel
theorem window_sym : ∀ c, c < 3 * 5 → ∀ d ∈ mirrorCells 3 5 c, window.getD c 0 = window.getD d 0 := by
  decide +kernel
/-- Not uniform, positive maximum at the centre. -/
example : window.getD 7 0 = 1 / 5 ∧ window.getD 0 0 = 1 / 40 ∧ window.length = 15 := by decide +kernel

def init : ℚ := -2147483647
theorem init_le : init ≤ -1 := by decide +kernel

theorem nv_C14_quota :
    QuotaBound 7 window (runPicks ltQ subQ init (1 / (7 : ℕ)) 7 (Allot.fresh window)).counts 0 = true ∧
    QuotaUpper 7 window (runPicks ltQ subQ init (1 / (7 : ℕ)) 4 (Allot.fresh window)).counts 0 = true :=
  have t := C14_quota window window_nonneg window_sum 7 (by decide) init init_le
  ⟨t.1, t.2 4 (by decide)⟩

theorem nv_C14_picks_in_window :
    (pickStep ltQ subQ init (1 / (7 : ℕ)) (runPicks ltQ subQ init (1 / (7 : ℕ)) 6 (Allot.fresh window))).2.isSome = true :=
  C14_picks_in_window window window_nonneg window_sum 7 (by decide) init init_le 6 (by decide)

theorem nv_C14_equal_share :
    EqualShareBound window (runPicks ltQ subQ init (1 / (7 : ℕ)) 5 (Allot.fresh window)).counts = true :=
  C14_equal_share window window_nonneg window_sum 7 (by decide) init init_le 5 (by decide)

theorem nv_C14_mirror :
    MirrorBound 3 5 (runPicks ltQ subQ init (1 / (7 : ℕ)) 5 (Allot.fresh window)).counts = true :=
  C14_mirror 3 5 window rfl window_sym window_nonneg window_sum 7 (by decide) init init_le 5 (by decide)

theorem nv_C14_mirror_weight :
    (0 ≤ 2 * 1) ∧ (1 ≤ 2 * 2) ∧
    rawWeight TF.real .cauchy 2 1 2 1 (1 : ℕ) (2 : ℕ) (2 * 1 - 0) (2 * 2 - 1) =
      rawWeight TF.real .cauchy 2 1 2 1 (1 : ℕ) (2 : ℕ) 0 1 :=
  ⟨by decide, by decide, (C14_mirror_weight TF.real .cauchy 2 1 2 1 1 2 0 1 (by decide) (by decide)).2.2⟩

/-! ### A kernel built by the constructor: Cauchy, scale 2, percentage 3/4 (quantile 2), north-south
    resolution 2, east-west resolution 1: 3 rows x 5 columns -/

/-- Raw weights of the Cauchy(2) window with `ns = 2`, `ew = 1`: 3 rows x 5 columns. -/
noncomputable def rawC : List ℝ :=
  (List.range (3 * 5)).map fun k =>
    TF.real.abs (cauchyPdf TF.real 2 (cellDist TF.real 2 1 ((1 : Int) - ((k / 5 : ℕ) : Int)) ((2 : Int) - ((k % 5 : ℕ) : Int))))

noncomputable def kernC : Kernel ℝ :=
  { law := some .cauchy, rows := 3, cols := 5, midRow := Int.tdiv 3 2, midCol := Int.tdiv 5 2, dmax := 2,
    prob := rawC.map (TF.real.div · (sumScan TF.real rawC)) }

theorem icdfC : Det.lawIcdf TF.real .cauchy 2 1 (3 / 4) = .ok 2 := by
  have hg : icdfGuard TF.real (3 / 4 : ℝ) = false := by
    simp [icdfGuard, TF.real]; norm_num
  simp only [Det.lawIcdf, cauchyIcdfE, guardUnit, hg]
  simp only [cauchyIcdf, TF.real, Nat.cast_one, Nat.cast_ofNat]
  have : Real.pi * ((3 : ℝ) / 4 - 1 / 2) = Real.pi / 4 := by ring
  rw [this, Real.tan_pi_div_four]; norm_num

theorem dimsC : windowDims TF.real 2 2 1 = (3, 5) := by
  simp only [windowDims, halfWidth, TF.real, Prod.mk.injEq]
  constructor
  · have : ⌈(2 : ℝ) / 2⌉ = 1 := by rw [Int.ceil_eq_iff]; norm_num
    rw [this]; norm_num
  · have : ⌈(2 : ℝ) / 1⌉ = 2 := by rw [Int.ceil_eq_iff]; norm_num
    rw [this]; norm_num

theorem rawWeightsC :
    rawWeights TF.real .cauchy 2 1 2 1 (3 : Int).toNat (5 : Int).toNat (Int.tdiv 3 2) (Int.tdiv 5 2) = .ok rawC := by
  unfold rawWeights
  exact mapM_ok_of_forall _ _ (fun k => rfl) _

theorem buildC : build TF.real (some .cauchy) (3 / 4) 1 2 2 1 = .ok kernC := by
  have hm : memberCtorThrows TF.real (2 : ℝ) 1 = false := by
    simp [memberCtorThrows, TF.real]
  simp only [build, hm]
  exact buildLaw_eq TF.real .cauchy (3 / 4) 1 2 2 1 2 3 5 rawC icdfC dimsC (by decide) rawWeightsC


theorem nv_C14_distance :
    build TF.real (some .cauchy) (3 / 4) 1 2 2 1 = .ok kernC ∧
    Det.lawIcdf TF.real .cauchy 2 1 (3 / 4) = .ok kernC.dmax ∧ (kernC.rows, kernC.cols) = (3, 5) ∧
    ∃ raw v, rawWeights TF.real .cauchy 2 1 2 1 3 5 kernC.midRow kernC.midCol = .ok raw ∧
      Det.lawPdf TF.real .cauchy 2 1 (cellDist TF.real 2 1 (kernC.midRow - (0 : ℕ)) (kernC.midCol - (3 : ℕ))) = .ok v ∧
      kernC.prob[0 * 5 + 3]? = some (TF.real.div (TF.real.abs v) (sumScan TF.real raw)) :=
  have t := C14_distance TF.real .cauchy (3 / 4) 1 2 2 1 kernC buildC
  ⟨buildC, t.1, t.2.1.trans dimsC, t.2.2.2.2 0 3 (by decide) (by decide)⟩

theorem kernC_law : kernC.law.isSome = true := rfl

/-- First call for source cell (2, 3) with 7 dispersers, after construction (`prev = (-1, -1)`). -/
theorem nv_C14_reset :
    kernC.law.isSome = true ∧ ((2 : ℤ), (3 : ℤ)) ≠ ((initState TF.real kernC).prevRow, (initState TF.real kernC).prevCol) ∧
    ∃ s' cell, call TF.real kernC (initState TF.real kernC) 2 3 7 = .ok (s', cell) ∧
      s'.delta = TF.real.div (TF.real.ofNat 1) (ofInt TF.real 7) := by
  have hne : ((2 : ℤ), (3 : ℤ)) ≠ ((initState TF.real kernC).prevRow, (initState TF.real kernC).prevCol) := by
    simp [initState]
  obtain ⟨s', cell, h1, _, _, h4, _⟩ := C14_reset TF.real kernC (initState TF.real kernC) 2 3 7 kernC_law
  exact ⟨kernC_law, hne, s', cell, h1, (h4 hne).1⟩

/-- ... and a second call for the SAME source cell continues on the working copy. -/
theorem nv_C14_reset_same :
    ∃ s1 c1 s2 c2, call TF.real kernC (initState TF.real kernC) 2 3 7 = .ok (s1, c1) ∧
      ((2 : ℤ), (3 : ℤ)) = (s1.prevRow, s1.prevCol) ∧
      call TF.real kernC s1 2 3 7 = .ok (s2, c2) ∧ s2.delta = s1.delta := by
  obtain ⟨s1, c1, h1, hr, hc, _, _⟩ := C14_reset TF.real kernC (initState TF.real kernC) 2 3 7 kernC_law
  obtain ⟨s2, c2, h2, _, _, _, h5⟩ := C14_reset TF.real kernC s1 2 3 7 kernC_law
  have he : ((2 : ℤ), (3 : ℤ)) = (s1.prevRow, s1.prevCol) := by rw [hr, hc]
  exact ⟨s1, c1, s2, c2, h1, he, h2, (h5 he).1⟩

theorem nv_C14_fresh_run :
    (callN TF.real kernC 2 3 7 (2 + 1) (initState TF.real kernC)).copy =
      (runPicks TF.real.ltb TF.real.sub (detInit TF.real) (TF.real.div (TF.real.ofNat 1) (ofInt TF.real 7)) (2 + 1)
        { copy := kernC.prob, counts := [] }).copy :=
  (C14_fresh_run TF.real kernC (initState TF.real kernC) 2 3 7 kernC_law (by simp [initState]) [] 2).2.2.2

/-! ### The window the constructor builds for this kernel is a RATIONAL probability vector
    (`pi` cancels in the normalisation), so the allotment theorems (stated for `List ℚ`) apply to
    the very window of `kernC`: all their hypotheses hold for it. -/

def qC (di dj : ℕ) : ℚ := 2 / (4 + 4 * (di : ℚ) ^ 2 + (dj : ℚ) ^ 2)

theorem rawC_cell (di dj : ℤ) :
    TF.real.abs (cauchyPdf TF.real 2 (cellDist TF.real 2 1 di dj)) = ((qC di.natAbs dj.natAbs : ℚ) : ℝ) / π := by
  simp only [cauchyPdf, cellDist, TF.real, Nat.cast_one, Nat.cast_ofNat, qC]
  have hA : (0 : ℝ) ≤ ((di.natAbs : ℝ) * 2) ^ (2 : ℝ) + ((dj.natAbs : ℝ) * 1) ^ (2 : ℝ) := by positivity
  have h2 : ((2 : ℕ) : ℝ) = (2 : ℝ) := by norm_num
  rw [← h2, Real.rpow_natCast, Real.rpow_natCast, Real.rpow_natCast, div_pow, Real.sq_sqrt (by
    rw [← Real.rpow_natCast, ← Real.rpow_natCast]; rw [h2]; exact hA)]
  have hpi : (0 : ℝ) < π := Real.pi_pos
  rw [abs_of_pos (by positivity)]
  push_cast
  field_simp
  ring


def rawQ : List ℚ := (List.range (3 * 5)).map fun k =>
  qC ((1 : Int) - ((k / 5 : ℕ) : Int)).natAbs ((2 : Int) - ((k % 5 : ℕ) : Int)).natAbs

theorem rawC_eq : rawC = rawQ.map fun q => ((q : ℚ) : ℝ) / π := by
  simp only [rawC, rawQ, List.map_map]
  apply List.map_congr_left
  intro k _
  exact rawC_cell _ _

theorem rawQ_val : rawQ = [1/6, 2/9, 1/4, 2/9, 1/6, 1/4, 2/5, 1/2, 2/5, 1/4, 1/6, 2/9, 1/4, 2/9, 1/6] := by
  decide +kernel

def windowC : List ℚ :=
  [15/347, 20/347, 45/694, 20/347, 15/347, 45/694, 36/347, 45/347, 36/347, 45/694, 15/347, 20/347, 45/694, 20/347, 15/347]

theorem sumC : sumScan TF.real rawC = (347 / 90) / π := by
  rw [rawC_eq, rawQ_val]
  simp only [sumScan, TF.real, List.map_cons, List.map_nil, List.foldl_cons, List.foldl_nil, Nat.cast_zero]
  push_cast
  ring

theorem kernC_prob : kernC.prob = windowC.map fun q => ((q : ℚ) : ℝ) := by
  have hpi : (π : ℝ) ≠ 0 := Real.pi_ne_zero
  simp only [kernC, sumC]
  rw [rawC_eq, rawQ_val]
  simp only [windowC, TF.real, List.map_cons, List.map_nil, List.cons.injEq, and_true]
  push_cast
  refine ⟨?_, ?_, ?_, ?_, ?_, ?_, ?_, ?_, ?_, ?_, ?_, ?_, ?_, ?_, ?_⟩ <;> field_simp <;> ring


theorem windowC_nonneg : ∀ x ∈ windowC, (0 : ℚ) ≤ x := by decide +kernel
theorem windowC_sum : windowC.sum = 1 := by decide +kernel
theorem windowC_len : windowC.length = kernC.rows.toNat * kernC.cols.toNat := rfl
theorem windowC_sym : ∀ c, c < 3 * 5 → ∀ d ∈ mirrorCells 3 5 c, windowC.getD c 0 = windowC.getD d 0 := by
  decide +kernel

theorem nv_C14_quota_built :
    kernC.prob = windowC.map (fun q => ((q : ℚ) : ℝ)) ∧
    QuotaBound 7 windowC (runPicks ltQ subQ init (1 / (7 : ℕ)) 7 (Allot.fresh windowC)).counts 0 = true ∧
    EqualShareBound windowC (runPicks ltQ subQ init (1 / (7 : ℕ)) 7 (Allot.fresh windowC)).counts = true ∧
    MirrorBound 3 5 (runPicks ltQ subQ init (1 / (7 : ℕ)) 7 (Allot.fresh windowC)).counts = true :=
  ⟨kernC_prob,
   (C14_quota windowC windowC_nonneg windowC_sum 7 (by decide) init init_le).1,
   C14_equal_share windowC windowC_nonneg windowC_sum 7 (by decide) init init_le 7 (by decide),
   C14_mirror 3 5 windowC rfl windowC_sym windowC_nonneg windowC_sum 7 (by decide) init init_le 7 (by decide)⟩

/-! ### Window and quantiles -/

theorem nv_C14_window :
    (0 : ℝ) < 2 ∧ (0 : ℝ) < 1 ∧ (0 : ℝ) ≤ 5 / 2 ∧
    (5 / 2 : ℝ) ≤ (halfWidth TF.real (5 / 2) 2 : ℝ) * 2 ∧
    Int.tdiv (windowDims TF.real (5 / 2) 2 1).1 2 = halfWidth TF.real (5 / 2) 2 :=
  have h1 : (0 : ℝ) < 2 := by norm_num
  have h2 : (0 : ℝ) < 1 := by norm_num
  have h3 : (0 : ℝ) ≤ 5 / 2 := by norm_num
  have t := C14_window (5 / 2) 2 1 h1 h2
  ⟨h1, h2, h3, t.2.2.1, (t.2.2.2.2.2.2 h3).1⟩

theorem nv_C14_quantile_cauchy :
    cauchyCdf TF.real 2 (cauchyIcdf TF.real 2 (3 / 4)) = 3 / 4 :=
  (C14_quantile_cauchy 2 (by norm_num)).2.1 (3 / 4) (by norm_num) (by norm_num)

theorem nv_C14_quantile_exponential :
    exponentialCdf TF.real 50 (exponentialIcdf TF.real 50 (99 / 100)) = 99 / 100 :=
  (C14_quantile_exponential 50 (by norm_num)).2.1 (99 / 100) (by norm_num) (by norm_num)

theorem nv_C14_quantile_weibull :
    weibullIcdf TF.real (3 / 2) 2 (weibullCdf TF.real (3 / 2) 2 7) = 7 ∧
    weibullCdf TF.real (3 / 2) 2 (weibullIcdf TF.real (3 / 2) 2 (9 / 10)) = 9 / 10 ∧
    HasDerivAt (weibullCdf TF.real (3 / 2) 2) (weibullPdf TF.real (3 / 2) 2 7) 7 :=
  have t := C14_quantile_weibull (3 / 2) 2 (by norm_num) (by norm_num)
  ⟨t.1 7 (by norm_num), t.2.1 (9 / 10) (by norm_num) (by norm_num), t.2.2 7 (by norm_num)⟩

theorem nv_C14_quantile_logistic :
    logisticCdf TF.real 3 (logisticIcdf TF.real 3 (1 / 10)) = 1 / 10 :=
  (C14_quantile_logistic 3 (by norm_num)).2.1 (1 / 10) (by norm_num) (by norm_num)

theorem nv_C14_quantile_hyperbolic_secant :
    hypsecCdf TF.real 3 (hypsecIcdf TF.real 3 (9 / 10)) = 9 / 10 :=
  (C14_quantile_hyperbolic_secant 3 (by norm_num)).2.1 (9 / 10) (by norm_num) (by norm_num)

theorem nv_C14_powerlaw_cdf_of_density :
    HasDerivAt (powerlawCdf TF.real 2 1) (powerlawPdf TF.real 2 1 3) 3 :=
  C14_powerlaw_cdf_of_density 2 1 (by norm_num) 3 (by norm_num)

/-! ## C13 -/

theorem nv_C13_axes_table :
    axisCos .W = some 0 ∧ axisSin .W = some (-1) ∧
    cos (directionMu TF.real .W) = ((0 : ℚ) : ℝ) ∧ sin (directionMu TF.real .W) = ((-1 : ℚ) : ℝ) :=
  ⟨rfl, rfl, C13_axes_table .W 0 (-1) rfl rfl⟩

/-- South-east, 100 map units, cells 30 (north-south) x 10 (east-west), from cell (5, 5). -/
theorem nv_C13_compass :
    Direction.SE ≠ .none ∧ Direction.SE.northSign = -1 ∧ Direction.SE.eastSign = 1 ∧
    cos (directionMu TF.real .SE) < 0 ∧ 0 < sin (directionMu TF.real .SE) ∧
    (5 : ℤ) ≤ (radialTarget TF.real 5 5 100 (directionMu TF.real .SE) 30 10).1 ∧
    (5 : ℤ) ≤ (radialTarget TF.real 5 5 100 (directionMu TF.real .SE) 30 10).2 :=
  have hd : Direction.SE ≠ .none := by decide
  have t := C13_compass .SE hd
  have m := t.2 5 5 100 30 10 (by norm_num) (by norm_num) (by norm_num)
  ⟨hd, rfl, rfl, t.1.2.1 rfl, t.1.2.2.2.1 rfl, m.2.1 rfl, m.2.2.2.1 rfl⟩

theorem nv_C13_resolution :
    (30 : ℚ) ≠ 0 ∧ (100 : ℚ) ≠ 0 ∧
    radialTargetQ 10 10 (((3 : ℤ) : ℚ) * 30) 1 0 30 100 = (10 - 3, 10) ∧
    radialTargetQ 10 10 (((-2 : ℤ) : ℚ) * 100) 0 1 30 100 = (10, 10 + -2) :=
  have h1 : (30 : ℚ) ≠ 0 := by norm_num
  have h2 : (100 : ℚ) ≠ 0 := by norm_num
  ⟨h1, h2, C13_resolution.1 10 10 3 30 100 h1, C13_resolution.2.1 10 10 (-2) 30 100 h2⟩

/-! ### von Mises with concentration 15/16: `1 + 4 kappa^2 = (17/8)^2`, `2 a = (5/2)^2`, `r = 5/3` -/

theorem vmR : vonMisesR TF.real (15 / 16) = 5 / 3 := by
  have s1 : Real.sqrt (289 / 64) = 17 / 8 := by
    rw [show (289 / 64 : ℝ) = (17 / 8) ^ 2 by norm_num]; exact Real.sqrt_sq (by norm_num)
  have s2 : Real.sqrt (25 / 4) = 5 / 2 := by
    rw [show (25 / 4 : ℝ) = (5 / 2) ^ 2 by norm_num]; exact Real.sqrt_sq (by norm_num)
  have e1 : (1 : ℝ) + 4 * (15 / 16) * (15 / 16) = 289 / 64 := by norm_num
  have e2 : (2 : ℝ) * (1 + 17 / 8) = 25 / 4 := by norm_num
  simp only [vonMisesR, TF.real, Nat.cast_one, Nat.cast_ofNat]
  rw [e1, s1, e2, s2]; norm_num

theorem vmLoop_step (kappa r u1 u2 : ℝ) (rest : List ℝ) :
    vonMisesLoop TF.real kappa r (u1 :: u2 :: rest) =
      if (decide (u2 ≤ kappa * (r - (1 + r * cos (π * u1)) / (r + cos (π * u1))) *
                        (2 - kappa * (r - (1 + r * cos (π * u1)) / (r + cos (π * u1))))) ||
          decide (u2 < kappa * (r - (1 + r * cos (π * u1)) / (r + cos (π * u1))) *
                        exp (1 - kappa * (r - (1 + r * cos (π * u1)) / (r + cos (π * u1)))))) = true
      then some ((1 + r * cos (π * u1)) / (r + cos (π * u1)), rest)
      else vonMisesLoop TF.real kappa r rest := by
  rw [vonMisesLoop]
  simp only [TF.real, Nat.cast_one, Nat.cast_ofNat]

/-- First round (`u1 = 0`, `u2 = 1`) rejected, second round (`u1 = 1/2`, `u2 = 1/2`) accepted with `f = 3/5`. -/
theorem vmLoop (tl : List ℝ) :
    vonMisesLoop TF.real (15 / 16) (5 / 3) (0 :: 1 :: (1 / 2) :: (1 / 2) :: tl) = some (3 / 5, tl) := by
  rw [vmLoop_step]
  have c0 : cos (π * 0) = 1 := by simp
  have hexp : (5 / 8 : ℝ) * exp (3 / 8) ≤ 1 := by
    have h1 : (5 / 8 : ℝ) ≤ exp (-(3 / 8)) := by
      have := Real.add_one_le_exp (-(3 / 8) : ℝ); linarith
    have h2 : exp (3 / 8 : ℝ) * exp (-(3 / 8)) = 1 := by rw [← Real.exp_add]; simp
    have h3 : (0 : ℝ) < exp (3 / 8) := Real.exp_pos _
    nlinarith
  have k0 : (15 / 16 : ℝ) * (5 / 3 - (1 + 5 / 3 * 1) / (5 / 3 + 1)) = 5 / 8 := by norm_num
  rw [c0, k0]
  have rej : (decide ((1 : ℝ) ≤ 5 / 8 * (2 - 5 / 8)) || decide ((1 : ℝ) < 5 / 8 * exp (1 - 5 / 8))) = false := by
    have e : (1 : ℝ) - 5 / 8 = 3 / 8 := by norm_num
    rw [e]
    simp only [Bool.or_eq_false_iff, decide_eq_false_iff_not, not_le, not_lt]
    exact ⟨by norm_num, hexp⟩
  rw [rej, if_neg (by simp)]
  rw [vmLoop_step]
  have c1 : cos (π * (1 / 2)) = 0 := by
    rw [show π * (1 / 2) = π / 2 by ring]; exact Real.cos_pi_div_two
  have k1 : (15 / 16 : ℝ) * (5 / 3 - (1 + 5 / 3 * 0) / (5 / 3 + 0)) = 1 := by norm_num
  rw [c1, k1]
  have acc : (decide ((1 / 2 : ℝ) ≤ 1 * (2 - 1)) || decide ((1 / 2 : ℝ) < 1 * exp (1 - 1))) = true := by
    simp only [Bool.or_eq_true, decide_eq_true_eq]
    left; norm_num
  rw [acc, if_pos rfl]
  norm_num

theorem vm_leb : TF.real.leb (15 / 16 : ℝ) (vonMisesEps TF.real) = false := by
  rw [vonMisesEps_real]; simp only [TF.real, decide_eq_false_iff_not, not_le]; norm_num

theorem vm_val (mu : ℝ) : vonMises TF.real mu (15 / 16) [0, 1, 1 / 2, 1 / 2, 3 / 4] =
    some (TF.real.fmod (mu + arccos (3 / 5)) (2 * π), []) := by
  have hl : vonMisesLoop TF.real (15 / 16) (vonMisesR TF.real (15 / 16)) [0, 1, 1 / 2, 1 / 2, 3 / 4] =
      some (3 / 5, (3 / 4 : ℝ) :: []) := by rw [vmR]; exact vmLoop _
  rw [vonMises_mirror TF.real mu (15 / 16) (3 / 5) (3 / 4) _ [] vm_leb hl]
  have hlt : TF.real.ltb (TF.real.div (TF.real.ofNat 1) (TF.real.ofNat 2)) (3 / 4 : ℝ) = true := by
    simp only [TF.real, Nat.cast_one, Nat.cast_ofNat, decide_eq_true_eq]; norm_num
  rw [hlt, if_pos rfl]
  simp only [TF.real, Nat.cast_ofNat]


/-- The radial kernel `RadialDispersalKernel(ew = 10, ns = 30, exponential, scale 50, SE, 15/16, shape 2)`. -/
noncomputable def radK : RadialKernel ℝ :=
  { ew := 10, ns := 30, type := .exponential, scale := 50, shape := 2,
    mu := directionMu TF.real .SE, kappa := 15 / 16 }

theorem nv_C13_radial_ctor :
    RadialKernel.make TF.real 10 30 .exponential 50 .SE (15 / 16) 2 = .ok radK ∧
    (RadialKernel.make TF.real 10 30 .exponential 50 .SE (15 / 16) 2).toBool = true ∧
    radK.kappa = directionKappa TF.real .SE (15 / 16) := by
  have t := C13_radial_ctor 10 30 .exponential 50 .SE (15 / 16) 2
  have hb : (RadialKernel.make TF.real 10 30 .exponential 50 .SE (15 / 16) 2).toBool = true :=
    t.1.mpr ⟨by norm_num, by norm_num⟩
  have hk : RadialKernel.make TF.real 10 30 .exponential 50 .SE (15 / 16) 2 = .ok radK := by
    unfold RadialKernel.make at hb ⊢
    split
    · rfl
    · next h => rw [if_neg h] at hb; cases hb
  exact ⟨hk, hb, (t.2 radK hk).2.2.2.2.2.2⟩

/-- A draw of -120 from the exponential sampler, five uniform values for the angle. -/
theorem nv_C13_radial_call :
    radK.type.law? = some .exponential ∧ lawRandom TF.real .exponential radK.scale radK.shape (-120) = .ok |(-120 : ℝ)| ∧
    vonMises TF.real radK.mu radK.kappa [0, 1, 1 / 2, 1 / 2, 3 / 4] =
      some (TF.real.fmod (radK.mu + arccos (3 / 5)) (2 * π), []) ∧
    ∃ t, radK.call TF.real 5 5 (-120) [0, 1, 1 / 2, 1 / 2, 3 / 4] = some (.ok t) :=
  have hl : radK.type.law? = some .exponential := rfl
  have hr : lawRandom TF.real .exponential radK.scale radK.shape (-120) = .ok |(-120 : ℝ)| := rfl
  have hv := vm_val radK.mu
  ⟨hl, hr, hv, _, (C13_radial_call TF.real radK 5 5 (-120) [0, 1, 1 / 2, 1 / 2, 3 / 4]).1 _ _ _ _ hl hr hv⟩

/-- An inverse-transform law (logistic, uniform value 3/4) with a uniform angle (`kappa = 0`). -/
theorem nv_C13_radial_call_logistic :
    ∃ t, ({ radK with type := .logistic, kappa := 0 } : RadialKernel ℝ).call TF.real 5 5 (3 / 4) [1 / 8] = some (.ok t) := by
  have hg : icdfGuard TF.real (3 / 4 : ℝ) = false := by
    simp [icdfGuard, TF.real]; norm_num
  have hr : lawRandom TF.real .logistic (50 : ℝ) 2 (3 / 4) = .ok (logisticIcdf TF.real 50 (3 / 4)) := by
    simp only [lawRandom, logisticIcdfE, guardUnit, hg]; rfl
  have hv := vonMises_small_real (directionMu TF.real .SE) 0 (1 / 8) [] (by norm_num)
  exact ⟨_, (C13_radial_call TF.real { radK with type := .logistic, kappa := 0 } 5 5 (3 / 4) [1 / 8]).1
    .logistic _ _ _ rfl hr hv⟩

theorem nv_C13_radial_call_unsupported :
    ({ radK with type := .uniform } : RadialKernel ℝ).call TF.real 5 5 1 [] = some (.error .invalid_argument) :=
  (C13_radial_call TF.real { radK with type := .uniform } 5 5 1 []).2 rfl

theorem nv_C13_vonmises :
    (1 / 1000000 : ℝ) < 15 / 16 ∧
    vonMisesLoop TF.real (15 / 16) (vonMisesR TF.real (15 / 16)) [0, 1, 1 / 2, 1 / 2, 3 / 4] = some (3 / 5, [3 / 4]) ∧
    (∃ (theta : ℝ) (k : ℤ),
      vonMises TF.real (3 * π / 4) (15 / 16) [0, 1, 1 / 2, 1 / 2, 3 / 4] = some (theta, []) ∧
      theta = (if (1 / 2 : ℝ) < 3 / 4 then 3 * π / 4 + arccos (3 / 5) else 3 * π / 4 - arccos (3 / 5)) - 2 * π * k) ∧
    directionKappa TF.real .SE (15 / 16) = 15 / 16 := by
  have hk : (1 / 1000000 : ℝ) < 15 / 16 := by norm_num
  have hl : vonMisesLoop TF.real (15 / 16) (vonMisesR TF.real (15 / 16)) [0, 1, 1 / 2, 1 / 2, 3 / 4] =
      some (3 / 5, (3 / 4 : ℝ) :: []) := by
    rw [vmR]; exact vmLoop _
  have t := C13_vonmises (3 * π / 4) (15 / 16)
  exact ⟨hk, hl, t.2.2.1 _ _ _ _ hk hl, (t.2.2.2 .SE (by decide)).1⟩

/-- The branch `kappa <= 1e-6`. -/
theorem nv_C13_vonmises_small :
    (1 / 2000000 : ℝ) ≤ 1 / 1000000 ∧
    vonMises TF.real (3 * π / 4) (1 / 2000000) [1 / 8, 1 / 3] = some (2 * π * (1 / 8), [1 / 3]) :=
  have hk : (1 / 2000000 : ℝ) ≤ 1 / 1000000 := by norm_num
  ⟨hk, (C13_vonmises (3 * π / 4) (1 / 2000000)).2.1 _ _ hk⟩

theorem nv_C13_vonmises_mirror (mu : ℝ) :
    TF.real.leb (15 / 16 : ℝ) (vonMisesEps TF.real) = false ∧
    vonMisesLoop TF.real (15 / 16) (vonMisesR TF.real (15 / 16)) [0, 1, 1 / 2, 1 / 2, 1 / 4] = some (3 / 5, [1 / 4]) ∧
    ∃ th, vonMises TF.real mu (15 / 16) [0, 1, 1 / 2, 1 / 2, 1 / 4] = some (th, []) := by
  have hl : vonMisesLoop TF.real (15 / 16) (vonMisesR TF.real (15 / 16)) [0, 1, 1 / 2, 1 / 2, 1 / 4] =
      some (3 / 5, (1 / 4 : ℝ) :: []) := by
    rw [vmR]; exact vmLoop _
  exact ⟨vm_leb, hl, _, C13_vonmises_mirror TF.real mu (15 / 16) (3 / 5) (1 / 4) _ [] vm_leb hl⟩

/-! ### Samplers -/

theorem nv_C13_parameter_wiring :
    (2 : ℝ) ≠ 0 ∧ (0 : ℝ) < 5 ∧
    (lawSampler TF.real .normal 2 3).density TF.real 5 = some (lawPdf TF.real .normal 2 3 5) ∧
    (lawSampler TF.real .logNormal 2 3).density TF.real 5 = some (lawPdf TF.real .logNormal 2 3 5) ∧
    lawRandom TF.real .gamma 2 3 (-7) = .ok |(-7 : ℝ)| :=
  have h1 : (2 : ℝ) ≠ 0 := by norm_num
  have h2 : (0 : ℝ) < 5 := by norm_num
  have t := C13_parameter_wiring 2 3 5
  ⟨h1, h2, t.2.2.2.1 h1, t.2.2.2.2.1 h2, t.2.2.2.2.2.2 .gamma (by simp) (-7)⟩

theorem nv_C13_inverse_transform :
    lawRandom TF.real .powerLaw 2 1 (1 / 4) = lawIcdfE TF.real .powerLaw 2 1 (1 / 4) :=
  (C13_inverse_transform TF.real .powerLaw (by simp) 2 1 (1 / 4)).2

/-! ### Neighbour, uniform, mix, names -/

theorem nv_C13_neighbor :
    Direction.SW ≠ .none ∧ ∃ t, neighborKernel .SW 4 4 = .ok t ∧ chebyshev t (4, 4) = 1 ∧
      t.1 = 4 - Direction.SW.northSign ∧ t.2 = 4 + Direction.SW.eastSign :=
  have hd : Direction.SW ≠ .none := by decide
  ⟨hd, (C13_neighbor 4 4).1 .SW hd⟩

theorem nv_C13_uniform_in_landscape :
    (UniformKernel.make 3 4).InRange 2 3 ∧ InLandscape 3 4 ((UniformKernel.make 3 4).call 1 1 2 3) ∧
    InLandscape 3 4 (1, 2) ∧
    (∃ dr dc, (UniformKernel.make 3 4).InRange dr dc ∧ (UniformKernel.make 3 4).call 1 1 dr dc = (1, 2)) :=
  have h1 : (UniformKernel.make 3 4).InRange 2 3 := by decide
  have h2 : InLandscape 3 4 (1, 2) := by decide
  have t := C13_uniform_in_landscape 3 4 1 1
  have _ := t.2.2 2 3 2 3 rfl
  ⟨h1, t.1 2 3 h1, h2, t.2.1 (1, 2) h2⟩

theorem nv_C13_mix :
    0 < 4 ∧ mixAnthroCount true true 4 (((1 : ℕ) : ℚ) / ((4 : ℕ) : ℚ)) = 4 - 1 ∧
    (mixUsesAnthropogenic true true (1 / 2) (1 / 4) = true ↔ true = true ∧ true = true ∧ (1 / 4 : ℚ) ≤ 1 / 2) :=
  ⟨by decide, (C13_mix true true (1 / 2) (1 / 4)).2.2.2 4 1 (by decide), (C13_mix true true (1 / 2) (1 / 4)).1⟩

theorem nv_C13_names :
    (("Power-Law", DispersalKernelType.powerLaw) ∈ kernelSpellings ∧ kernelTypeFromString "Power-Law" = .ok .powerLaw) ∧
    (kernelTypeFromString "Gamma" = .ok .gamma ∧ ("Gamma", DispersalKernelType.gamma) ∈ kernelSpellings) ∧
    ((∀ p ∈ kernelSpellings, "exponential_power" ≠ p.1) ∧
      kernelTypeFromString "exponential_power" = .error .invalid_argument) ∧
    (("None", Direction.none) ∈ directionTable ∧ directionFromString "None" = .ok .none) ∧
    (directionFromString "SW" = .ok .SW ∧ ("SW", Direction.SW) ∈ directionTable) ∧
    ((∀ p ∈ directionTable, "sw" ≠ p.1) ∧ directionFromString "sw" = .error .invalid_argument) :=
  have t := C13_names
  have h1 : ("Power-Law", DispersalKernelType.powerLaw) ∈ kernelSpellings := by decide
  have h2 : kernelTypeFromString "Gamma" = .ok .gamma := by decide
  have h3 : ∀ p ∈ kernelSpellings, "exponential_power" ≠ p.1 := by decide
  have h5 : ("None", Direction.none) ∈ directionTable := by decide
  have h6 : directionFromString "SW" = .ok .SW := by decide
  have h7 : ∀ p ∈ directionTable, "sw" ≠ p.1 := by decide
  ⟨⟨h1, (t.1 _ h1).1⟩, ⟨h2, t.2.1 _ _ h2⟩, ⟨h3, t.2.2.1 _ h3⟩, ⟨h5, (t.2.2.2.2.1 _ h5).1⟩,
   ⟨h6, t.2.2.2.2.2.1 _ _ h6⟩, ⟨h7, t.2.2.2.2.2.2.1 _ h7⟩⟩

/-! ### Factories (`NV.cfg` and its variants) -/

theorem cfg_ok : radialCtorOk cfg.naturalScale cfg.shape = true ∧ radialCtorOk cfg.anthroScale cfg.shape = true := by
  decide +kernel

theorem nv_C13_factory_radial :
    kernelTypeFromString cfg.naturalKernelType = .ok .weibull ∧ directionFromString cfg.naturalDirection = .ok .NE ∧
    kernelTypeFromString cfg.anthroKernelType = .ok .cauchy ∧ directionFromString cfg.anthroDirection = .ok .W ∧
    createNaturalKernel cfg = .ok (.radial 30 10 .weibull 5 .NE 3 2) ∧
    createAnthroKernel cfg = .ok (.radial 30 10 .cauchy 40 .W 1 2) :=
  have t := C13_factory cfg
  have h1 : kernelTypeFromString cfg.naturalKernelType = .ok .weibull := by decide
  have h2 : directionFromString cfg.naturalDirection = .ok .NE := by decide
  have h3 : kernelTypeFromString cfg.anthroKernelType = .ok .cauchy := by decide
  have h4 : directionFromString cfg.anthroDirection = .ok .W := by decide
  ⟨h1, h2, h3, h4, t.1 _ _ h1 rfl rfl h2 cfg_ok.1, t.2.1 _ _ h3 rfl rfl h4 cfg_ok.2⟩

theorem nv_C13_factory_dynamic : ∃ k, createDynamicKernel cfg = .ok k ∧
    createNaturalKernel cfg = .ok k.natural ∧ createAnthroKernel cfg = .ok k.anthro ∧
    k.useAnthropogenic = true ∧ k.percentNatural = 3 / 4 := by
  obtain ⟨_, _, _, _, hn, ha⟩ := nv_C13_factory_radial
  have hk : createDynamicKernel cfg = .ok ⟨.radial 30 10 .weibull 5 .NE 3 2, .radial 30 10 .cauchy 40 .W 1 2, true, 3 / 4⟩ := by
    simp only [createDynamicKernel, hn, ha, bind, Except.bind, pure, Except.pure]; rfl
  exact ⟨_, hk, (C13_factory cfg).2.2.2.2.2.2 _ hk⟩

theorem nv_C13_factory_uniform :
    kernelTypeFromString cfgUniform.naturalKernelType = .ok .uniform ∧
    kernelTypeFromString cfgUniform.anthroKernelType = .ok .uniform ∧
    createNaturalKernel cfgUniform = .ok (.uniform 3 7) ∧ createAnthroKernel cfgUniform = .ok (.uniform 3 7) :=
  have t := C13_factory cfgUniform
  have h1 : kernelTypeFromString cfgUniform.naturalKernelType = .ok .uniform := by decide
  have h2 : kernelTypeFromString cfgUniform.anthroKernelType = .ok .uniform := by decide
  ⟨h1, h2, t.2.2.1 h1, t.2.2.2.1 h2⟩

theorem nv_C13_factory_neighbor :
    kernelTypeFromString cfgNeighbor.naturalKernelType = .ok .deterministicNeighbor ∧
    directionFromString cfgNeighbor.naturalDirection = .ok .S ∧
    createNaturalKernel cfgNeighbor = .ok (.neighbor .S) :=
  have h1 : kernelTypeFromString cfgNeighbor.naturalKernelType = .ok .deterministicNeighbor := by decide
  have h2 : directionFromString cfgNeighbor.naturalDirection = .ok .S := by decide
  ⟨h1, h2, (C13_factory cfgNeighbor).2.2.2.2.1 _ h1 h2⟩

theorem nv_C13_factory_bad_name :
    kernelTypeFromString cfgBadName.naturalKernelType = .error .invalid_argument ∧
    createNaturalKernel cfgBadName = .error .invalid_argument :=
  have h1 : kernelTypeFromString cfgBadName.naturalKernelType = .error .invalid_argument := by decide
  ⟨h1, (C13_factory cfgBadName).2.2.2.2.2.1 h1⟩

/-! ## C17 (kernel part) -/

theorem cfg_overpop (coef : ℚ) (h : radialCtorOk (cfg.naturalScale * coef) cfg.shape = true) :
    ∃ k, createOverpopulationKernel cfg coef = .ok k :=
  createOverpop_ok cfg coef .weibull .cauchy .NE .W (by decide) (by decide) (by decide) (by decide) h

/-- `leaving_scale_coefficient = 2`: scale 5 becomes 10. -/
theorem nv_C17_overpopulation_kernel_scale : ∃ k, createOverpopulationKernel cfg 2 = .ok k ∧
    k.radial = .radial 30 10 .weibull (5 * 2) .NE 3 2 ∧
    k.deterministic = .deterministic .weibull (99 / 100) 30 10 (5 * 2) 2 ∧ k.selected = k.radial := by
  obtain ⟨k, hk⟩ := cfg_overpop 2 (by decide +kernel)
  obtain ⟨t, d, ht, hd, hkt, hst, hr, hdet, _, _, _, hsel⟩ := C17_overpopulation_kernel_scale cfg 2 k hk
  have ht' : t = .weibull := by
    have : kernelTypeFromString cfg.naturalKernelType = .ok .weibull := by decide
    rw [this] at ht; injection ht with ht; exact ht.symm
  have hd' : d = .NE := by
    have : directionFromString cfg.naturalDirection = .ok .NE := by decide
    rw [this] at hd; injection hd with hd; exact hd.symm
  subst ht' hd'
  refine ⟨k, hk, hr, hdet, ?_⟩
  rw [hsel rfl]; rfl

theorem nv_C17_overpopulation_kernel_rejects :
    radialCtorOk (cfg.naturalScale * (-1)) cfg.shape = false ∧
    createOverpopulationKernel cfg (-1) = .error .invalid_argument :=
  have h : radialCtorOk (cfg.naturalScale * (-1)) cfg.shape = false := by decide +kernel
  ⟨h, C17_overpopulation_kernel_rejects cfg (-1) h⟩

theorem nv_C17_overpopulation_kernel_is_natural : ∃ k, createOverpopulationKernel cfg 1 = .ok k ∧
    k.type.law?.isSome = true ∧ cfg.dispersalStochasticity = true ∧ createNaturalKernel cfg = .ok k.selected := by
  obtain ⟨k, hk⟩ := cfg_overpop 1 (by decide +kernel)
  obtain ⟨t, _, ht, _, hkt, _⟩ := C17_overpopulation_kernel_scale cfg 1 k hk
  have hl : k.type.law?.isSome = true := by
    have : kernelTypeFromString cfg.naturalKernelType = .ok .weibull := by decide
    rw [this] at ht; injection ht with ht; rw [hkt, ← ht]; rfl
  exact ⟨k, hk, hl, rfl, C17_overpopulation_kernel_is_natural cfg k hk hl rfl⟩

theorem nv_C17_overpopulation_uniform_range : ∃ k, createOverpopulationKernel cfgUniform 2 = .ok k ∧
    kernelTypeFromString cfgUniform.naturalKernelType = .ok .uniform ∧ k.selected = .uniform 3 7 ∧
    (∀ dr dc, (UniformKernel.make 3 7).InRange dr dc → InLandscape 3 7 ((UniformKernel.make 3 7).call 1 1 dr dc)) := by
  obtain ⟨k, hk⟩ := createOverpop_ok cfgUniform 2 .uniform .uniform .NE .W (by decide) (by decide) (by decide)
    (by decide) (by decide +kernel)
  have hu : kernelTypeFromString cfgUniform.naturalKernelType = .ok .uniform := by decide
  have t := C17_overpopulation_uniform_range cfgUniform 2 k hk hu 1 1
  exact ⟨k, hk, hu, t.1, t.2.2.1⟩

end Pops.NV
