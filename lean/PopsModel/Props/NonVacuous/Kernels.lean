/-
  Non-vacuity audit, part 1 (core Lean only, no Mathlib): every theorem of Props/C15.lean that has
  hypotheses (top-level or inside a conjunct) is applied to a concrete instance satisfying ALL of
  them. Instances: Lemmas/NonVacuousKernels.lean (`NV.net`: 4 nodes, triangle 1-2-3 whose edge 3-1
  has three cells and the others two, dead end 3-4, clipped edge 4-5, resolutions 1 x 2;
  `NV.netPC`: same edges with probability and cost columns, four different costs).
  C13 / C14 / C17Kern: Props/NonVacuous/KernelsReal.lean (their Props files import Mathlib modules).
  Theorems without hypotheses (`C15_kernel_forwards`, `C15_load_clip_rule`, `C15_F17_witness`,
  `C15_load_clip_ideal_fails`, `C15_load_header`, the closed conjuncts of `C15_load_rejects_texts`)
  need no instance.
-/
import PopsModel.Props.C15
import PopsModel.Lemmas.NonVacuousKernels
namespace Pops.NV
open Pops Pops.Net

/-! ### The instances satisfy the network well-formedness predicates -/

theorem net_wf : net.WF := wf_of_check net (by decide +kernel)
theorem netPC_wf : netPC.WF := wf_of_check netPC (by decide +kernel)
theorem net_cells : ∀ e ∈ net.segs, e.2.cells ≠ [] := cells_ne_nil_of_check net (by decide +kernel)
theorem netPC_cells : ∀ e ∈ netPC.segs, e.2.cells ≠ [] := cells_ne_nil_of_check netPC (by decide +kernel)
theorem netPC_costPos : ∀ e ∈ netPC.segs, 0 < e.2.cost := cost_pos_of_check netPC (by decide +kernel)

/-- Both instances are what `load` produces from their texts. -/
theorem net_loaded : ∃ n, load grid text false = .ok n ∧ n.segs = net.segs :=
  ok_of_toOption (f := Net.segs) (by decide +kernel)
theorem netPC_loaded : ∃ n, load grid textPC false = .ok n ∧ n.segs = netPC.segs :=
  ok_of_toOption (f := Net.segs) (by decide +kernel)

/-- The four costs of `netPC` are pairwise different, those of `net` take two values. -/
example : netPC.segs.map (·.2.cost) = [4, 5 / 2, 6, 1] ∧ net.segs.map (·.2.cost) = [3 / 2, 3 / 2, 3, 3 / 2] := by
  decide +kernel

/-! ### Trips -/

theorem nv_C15_start_needs_node :
    net.hasNodeAt (0, 0) = false ∧
    net.walk (0, 0) 2 true = [.err .invalid_argument] ∧ net.teleport (0, 0) 3 = [.err .invalid_argument] ∧
    net.isCellEligible (0, 0) = false :=
  have h : net.hasNodeAt (0, 0) = false := by decide +kernel
  have t := C15_start_needs_node net (0, 0) h
  ⟨h, t.1 2 true, t.2.1 3, t.2.2.2⟩

theorem nv_C15_start_with_node :
    net.hasNodeAt (3, 6) = true ∧ net.isCellEligible (3, 6) = true ∧ net.nodesAt (3, 6) ≠ [] :=
  have h : net.hasNodeAt (3, 6) = true := by decide +kernel
  ⟨h, C15_start_with_node net (3, 6) h⟩

/-- Preferring walk, distance 2 from node 1: past node 2 is not reached on the long edge 1-3; the
    result `(2, 2)` is the middle cell of that edge. -/
theorem nv_C15_walk_derivation :
    Outcome.at (2, 2) ∈ net.walkG true (1, 1) 2 false ∧
    ∃ nd ∈ net.nodesAt (1, 1), Trip net true false (1, 1) nd [] 2 (.at (2, 2)) := by
  have h : Outcome.at (2, 2) ∈ net.walkG true (1, 1) 2 false := by decide +kernel
  refine ⟨h, ?_⟩
  rcases C15_walk_derivation net true (1, 1) 2 false _ h with h1 | ⟨_, h1⟩ | h1
  · cases h1
  · cases h1
  · exact h1

/-- Relaxed walk with snapping over several edges (4 -> 3 -> 1, costs 1 + 6). -/
theorem nv_C15_walk_derivation_relaxed :
    Outcome.at (1, 1) ∈ netPC.walkG false (3, 6) (13 / 2) true ∧
    ∃ nd ∈ netPC.nodesAt (3, 6), Trip netPC false true (3, 6) nd [] (13 / 2) (.at (1, 1)) := by
  have h : Outcome.at (1, 1) ∈ netPC.walkG false (3, 6) (13 / 2) true := by decide +kernel
  refine ⟨h, ?_⟩
  rcases C15_walk_derivation netPC false (3, 6) (13 / 2) true _ h with h1 | ⟨_, h1⟩ | h1
  · cases h1
  · cases h1
  · exact h1

theorem nv_C15_stays_on_network :
    (∀ e ∈ net.segs, e.2.cells ≠ []) ∧ Outcome.at (3, 6) ∈ net.walk (1, 1) 5 false ∧
    onNetwork net (1, 1) (3, 6) = true :=
  have h : Outcome.at (3, 6) ∈ net.walk (1, 1) 5 false := by decide +kernel
  ⟨net_cells, h, C15_stays_on_network net net_cells (1, 1) 5 false (3, 6) h⟩

theorem nv_C15_terminates :
    (∀ e ∈ netPC.segs, 0 < e.2.cost) ∧
    Outcome.diverge ∉ netPC.walk (1, 1) 1000 true ∧ Outcome.diverge ∉ netPC.walkRelaxed (1, 1) 1000 true :=
  ⟨netPC_costPos, C15_terminates netPC netPC_costPos (1, 1) 1000 true⟩

/-- From the dead end (node 4) with distance 13/2: 4 -> 3 costs 1, then both 3 -> 1 (cost 6) and
    3 -> 2 -> 1 (costs 5/2 + 4) end in node 1's cell. -/
theorem nv_C15_cost :
    netPC.WF ∧ (0 : Rat) ≤ 13 / 2 ∧ netPC.hasNodeAt (3, 6) = true ∧
    Outcome.at (1, 1) ∈ netPC.walk (3, 6) (13 / 2) false ∧
    ∃ nd ∈ netPC.nodesAt (3, 6), Trip netPC false false (3, 6) nd [] (13 / 2) (.at (1, 1)) :=
  have hd : (0 : Rat) ≤ 13 / 2 := by decide +kernel
  have hn : netPC.hasNodeAt (3, 6) = true := by decide +kernel
  have h : Outcome.at (1, 1) ∈ netPC.walk (3, 6) (13 / 2) false := by decide +kernel
  ⟨netPC_wf, hd, hn, h, (C15_cost netPC netPC_wf (3, 6) (13 / 2) hd hn _ h).2⟩

/-- The same for the cost-less network, stopping inside the three-cell edge. -/
theorem nv_C15_cost_net :
    net.WF ∧ (0 : Rat) ≤ 2 ∧ net.hasNodeAt (1, 1) = true ∧ Outcome.at (2, 2) ∈ net.walk (1, 1) 2 false ∧
    ∃ nd ∈ net.nodesAt (1, 1), Trip net false false (1, 1) nd [] 2 (.at (2, 2)) :=
  have hd : (0 : Rat) ≤ 2 := by decide +kernel
  have hn : net.hasNodeAt (1, 1) = true := by decide +kernel
  have h : Outcome.at (2, 2) ∈ net.walk (1, 1) 2 false := by decide +kernel
  ⟨net_wf, hd, hn, h, (C15_cost net net_wf (1, 1) 2 hd hn _ h).2⟩

/-- Edge 3-1 (three cells, cost 6) seen from node 1 (reversed view), remaining distance 4:
    index `lround (4 / 3) = 1`. -/
def viewPC13 : SegView := ⟨[(1, 1), (2, 2), (3, 3)], ⟨[(3, 3), (2, 2), (1, 1)], 0, 6, 0⟩⟩

theorem nv_C15_cost_index :
    netPC.WF ∧ netPC.getSegment 1 3 = some viewPC13 ∧ (0 : Rat) ≤ 4 ∧ (4 : Rat) ≤ viewPC13.cost ∧
    ∃ (i : Nat) (x : Cell), (i : Int) = lround (4 / viewPC13.costPerCell) ∧ i ≤ viewPC13.cells.length - 1 ∧
      viewPC13.cells[i]? = some x ∧ Net.finish false viewPC13 4 = .at x :=
  have hs : netPC.getSegment 1 3 = some viewPC13 := by decide +kernel
  have h0 : (0 : Rat) ≤ 4 := by decide +kernel
  have h1 : (4 : Rat) ≤ viewPC13.cost := by decide +kernel
  ⟨netPC_wf, hs, h0, h1, C15_cost_index netPC netPC_wf 1 3 viewPC13 hs 4 h0 h1⟩

example : Net.finish false viewPC13 4 = .at (2, 2) := by decide +kernel

theorem nv_C15_jump :
    (∀ e ∈ net.segs, e.2.cells ≠ []) ∧ Outcome.at (3, 3) ∈ net.walk (1, 1) 2 true ∧
    isNodeCell net (3, 3) = true ∧
    Net.finish true viewPC13 (5 / 2) = (if (5 / 2 : Rat) < viewPC13.cost / 2 then .at viewPC13.front else .at viewPC13.back) :=
  have h : Outcome.at (3, 3) ∈ net.walk (1, 1) 2 true := by decide +kernel
  have t := C15_jump net net_cells
  ⟨net_cells, h, t.2 (1, 1) 2 (3, 3) h, t.1 viewPC13 (5 / 2)⟩

/-- At node 3 with nodes 1 and 2 behind, the only choice is the unvisited node 4; at the dead end
    the visited node 3 is returned. -/
theorem nv_C15_prefers_unvisited :
    (4 : NodeId) ∈ net.nextNodes true 3 [1, 2] ∧ (∃ u ∈ net.neighbours 3, u ∉ [(1 : NodeId), 2]) ∧
    (4 : NodeId) ∉ [(1 : NodeId), 2] ∧ (4 : NodeId) ∈ net.neighbours 3 := by
  have h : (4 : NodeId) ∈ net.nextNodes true 3 [1, 2] := by decide +kernel
  have hu : ∃ u ∈ net.neighbours 3, u ∉ [(1 : NodeId), 2] := ⟨4, by decide +kernel, by decide⟩
  have t := C15_prefers_unvisited net 3 4 [1, 2] h
  refine ⟨h, hu, t.2.1 hu, ?_⟩
  rcases t.1 with h1 | ⟨h1, _⟩
  · exact h1
  · exact absurd h1 (by decide +kernel)

theorem nv_C15_prefers_unvisited_dead_end :
    (3 : NodeId) ∈ net.nextNodes true 4 [3] ∧
    ((3 : NodeId) ∈ net.neighbours 4 ∨ (net.neighbours 4 = [] ∧ (3 : NodeId) = 4)) :=
  have h : (3 : NodeId) ∈ net.nextNodes true 4 [3] := by decide +kernel
  ⟨h, (C15_prefers_unvisited net 4 3 [3] h).1⟩

theorem nv_C15_prefers_unvisited_trip :
    Outcome.at (3, 6) ∈ net.walk (1, 1) 5 false ∧ Outcome.at (3, 6) ≠ .diverge ∧ net.nodesAt (1, 1) ≠ [] ∧
    ∃ nd ∈ net.nodesAt (1, 1), Trip net true false (1, 1) nd [] 5 (.at (3, 6)) :=
  have h0 : (4 : NodeId) ∈ net.nextNodes true 3 [1, 2] := by decide +kernel
  have h : Outcome.at (3, 6) ∈ net.walk (1, 1) 5 false := by decide +kernel
  have hd : Outcome.at (3, 6) ≠ .diverge := by decide
  have hn : net.nodesAt (1, 1) ≠ [] := by decide +kernel
  ⟨h, hd, hn, (C15_prefers_unvisited net 3 4 [1, 2] h0).2.2 (1, 1) 5 false _ h hd hn⟩

/-- Teleporting from node 3's cell with edge probabilities 1/4 (to 2), 0 (to 1), 3/4 (to 4). -/
theorem nv_C15_teleport_adjacent :
    Outcome.at (3, 6) ∈ netPC.teleport (3, 3) 1 ∧ teleportAdjacent netPC (3, 3) (3, 6) = true ∧
    Outcome.at (3, 6) ∈ netPC.teleport (3, 3) 3 ∧ isNodeCell netPC (3, 6) = true ∧
    Outcome.at (3, 6) ∈ netPC.kernelCall true false (3, 3) 7 :=
  have h1 : Outcome.at (3, 6) ∈ netPC.teleport (3, 3) 1 := by decide +kernel
  have h3 : Outcome.at (3, 6) ∈ netPC.teleport (3, 3) 3 := by decide +kernel
  have hk : Outcome.at (3, 6) ∈ netPC.kernelCall true false (3, 3) 7 := by decide +kernel
  have t := C15_teleport_adjacent netPC (3, 3) (3, 6)
  have _ := t.2.2 true false 7 rfl hk
  ⟨h1, t.1 h1, h3, t.2.1 3 h3, hk⟩

/-! ### Loading -/

theorem nv_C15_load_clip : ∃ n, load grid text false = .ok n ∧ n.segs = net.segs ∧
    (∀ k, (∃ s, n.findSeg k = some s) ↔
      ∃ hd data rs, splitHeader (getlines '\n' text) = .ok (hd, data) ∧
        parseRecords grid hd.hasCost hd.hasProb data = .ok rs ∧ ∃ r ∈ rs, r.key = k ∧ r.kept grid = true) := by
  obtain ⟨n, hn, hs⟩ := net_loaded
  refine ⟨n, hn, hs, ?_⟩
  obtain ⟨hd, data, rs, h1, h2, _, h4, _⟩ := C15_load_clip grid text false n hn
  intro k
  rw [h4 k]
  constructor
  · intro h; exact ⟨hd, data, rs, h1, h2, h⟩
  · rintro ⟨hd', data', rs', h1', h2', h⟩
    rw [h1] at h1'; cases h1'
    rw [h2] at h2'; cases h2'
    exact h

theorem nv_C15_load_clip_inside_kept :
    0 < grid.ewRes ∧ 0 < grid.nsRes ∧ parseRecord grid false false lineInside = .ok recInside ∧
    recInside.inside grid = true ∧ recInside.kept grid = true :=
  have h1 : 0 < grid.ewRes := by decide +kernel
  have h2 : 0 < grid.nsRes := by decide +kernel
  have h3 : parseRecord grid false false lineInside = .ok recInside := by decide +kernel
  have h4 : recInside.inside grid = true := by decide +kernel
  ⟨h1, h2, h3, h4, C15_load_clip_inside_kept grid h1 h2 false false lineInside recInside h3 h4⟩

/-- A kept record whose second end point lies OUTSIDE the box (x = 30.5 > east = 30). -/
theorem nv_C15_load_clip_region :
    0 < grid.ewRes ∧ 0 < grid.nsRes ∧ parseRecord grid false false lineEdge = .ok recEdge ∧
    recEdge.kept grid = true ∧ recEdge.inside grid = false ∧
    (grid.west ≤ recEdge.last.1 ∧ recEdge.last.1 < grid.east + grid.ewRes ∧
      grid.south - grid.nsRes < recEdge.last.2 ∧ recEdge.last.2 ≤ grid.north) :=
  have h1 : 0 < grid.ewRes := by decide +kernel
  have h2 : 0 < grid.nsRes := by decide +kernel
  have h3 : parseRecord grid false false lineEdge = .ok recEdge := by decide +kernel
  have h4 : recEdge.kept grid = true := by decide +kernel
  ⟨h1, h2, h3, h4, by decide +kernel, (C15_load_clip_region grid h1 h2 false false lineEdge recEdge h3 h4).2⟩

/-- Edge (3,1) of `netPC`: stored under that key, seen reversed from node 1. -/
theorem nv_C15_load_symmetric :
    ((3, 1), (⟨[(3, 3), (2, 2), (1, 1)], 0, 6, 0⟩ : Segment)) ∈ netPC.segs ∧
    netPC.getSegment 1 3 = some viewPC13 ∧ netPC.findSeg (1, 3) = none ∧
    ((1 : NodeId) ∈ netPC.neighbours 3 ∧ (3 : NodeId) ∈ netPC.neighbours 1) ∧
    ∃ v', netPC.getSegment 3 1 = some v' ∧ v'.seg = viewPC13.seg ∧ v'.cost = viewPC13.cost ∧
      v'.cells = viewPC13.cells.reverse :=
  have he : ((3, 1), (⟨[(3, 3), (2, 2), (1, 1)], 0, 6, 0⟩ : Segment)) ∈ netPC.segs := by decide +kernel
  have hs : netPC.getSegment 1 3 = some viewPC13 := by decide +kernel
  have hf : netPC.findSeg (1, 3) = none := by decide +kernel
  ⟨he, hs, hf, (C15_load_symmetric netPC 3 1).2.2.1 _ he rfl,
   (C15_load_symmetric netPC 1 3).2.2.2 viewPC13 hs (Or.inl hf)⟩

/-- No cost column, three points of which two share a cell: two cells, cost `1 * (1 + 2) / 2`. -/
theorem nv_C15_load_merge :
    parseRecord grid false false lineMerge = .ok recMerge ∧
    recMerge.seg.cost = (recMerge.seg.steps : Rat) * grid.distancePerCell ∧ mergedOK recMerge.seg.cells = true :=
  have h : parseRecord grid false false lineMerge = .ok recMerge := by decide +kernel
  have t := C15_load_merge grid false false lineMerge recMerge h
  ⟨h, t.2.2.2.2.2.1 rfl, t.2.1⟩

/-- Cost and probability columns, stated cost 6 (non-zero): the cost is the stated one. -/
theorem nv_C15_load_merge_cost :
    parseRecord grid true true linePC = .ok recPC ∧ recPC.seg.total ≠ 0 ∧ recPC.seg.cost = recPC.seg.total ∧
    2 ≤ recPC.seg.cells.length :=
  have h : parseRecord grid true true linePC = .ok recPC := by decide +kernel
  have ht : recPC.seg.total ≠ 0 := by decide +kernel
  have t := C15_load_merge grid true true linePC recPC h
  ⟨h, ht, t.2.2.2.2.2.2.1 rfl ht, t.1⟩

/-- All points in one cell: the completed segment `[c, c]`. -/
theorem nv_C15_load_merge_one_cell :
    parseRecord grid false false lineOneCell = .ok recOneCell ∧ 2 ≤ recOneCell.seg.cells.length ∧
    mergedOK recOneCell.seg.cells = true :=
  have h : parseRecord grid false false lineOneCell = .ok recOneCell := by decide +kernel
  have t := C15_load_merge grid false false lineOneCell recOneCell h
  ⟨h, t.1, t.2.1⟩

theorem nv_C15_load_wf : ∃ n, load grid text false = .ok n ∧ n.segs = net.segs ∧
    splitHeader (getlines '\n' text) = .ok (⟨true, false, false⟩, (getlines '\n' text).tail) ∧
    0 < grid.distancePerCell ∧ n.WF ∧ (∀ e ∈ n.segs, 2 ≤ e.2.cells.length ∧ mergedOK e.2.cells = true) := by
  obtain ⟨n, hn, hs⟩ := net_loaded
  have hh : splitHeader (getlines '\n' text) = .ok (⟨true, false, false⟩, (getlines '\n' text).tail) := by
    decide +kernel
  have hd : 0 < grid.distancePerCell := by decide +kernel
  have t := C15_load_wf grid text false n hn
  exact ⟨n, hn, hs, hh, hd, t.2 _ _ hh rfl hd, t.1⟩

/-! ### Rejections: one line per conjunct of `C15_load_rejects` -/

def rej1 : List Char := "x,2,21.5;7.5;23.5;7.5".toList
def rej2 : List Char := "1,99999999999,21.5;7.5;23.5;7.5".toList
def rej3 : List Char := "1,0,21.5;7.5;23.5;7.5".toList
def rej4 : List Char := "1,2,-0.5,21.5;7.5;23.5;7.5".toList
def rej5 : List Char := "1,2,0.5,abc,21.5;7.5;23.5;7.5".toList
def rej6 : List Char := "1,2,21.5;x;23.5;7.5".toList
def rej7 : List Char := "1,2,21.5;7.5".toList

theorem nv_C15_load_rejects_1 :
    nodeIdFromText ((getlines ',' rej1).getD 0 []) = .error .invalid_argument ∧
    parseRecord grid false false rej1 = .error .invalid_argument :=
  have h : nodeIdFromText ((getlines ',' rej1).getD 0 []) = .error .invalid_argument := by decide +kernel
  ⟨h, (C15_load_rejects grid false false rej1).1 _ h⟩

theorem nv_C15_load_rejects_2 :
    nodeIdFromText ((getlines ',' rej2).getD 0 []) = .ok 1 ∧
    nodeIdFromText ((getlines ',' rej2).getD 1 []) = .error .out_of_range ∧
    parseRecord grid false false rej2 = .error .out_of_range :=
  have h1 : nodeIdFromText ((getlines ',' rej2).getD 0 []) = .ok 1 := by decide +kernel
  have h2 : nodeIdFromText ((getlines ',' rej2).getD 1 []) = .error .out_of_range := by decide +kernel
  ⟨h1, h2, (C15_load_rejects grid false false rej2).2.1 _ _ h1 h2⟩

theorem nv_C15_load_rejects_3 :
    nodeIdFromText ((getlines ',' rej3).getD 0 []) = .ok 1 ∧
    nodeIdFromText ((getlines ',' rej3).getD 1 []) = .ok 0 ∧
    parseRecord grid false false rej3 = .error .runtime_error :=
  have h1 : nodeIdFromText ((getlines ',' rej3).getD 0 []) = .ok 1 := by decide +kernel
  have h2 : nodeIdFromText ((getlines ',' rej3).getD 1 []) = .ok 0 := by decide +kernel
  ⟨h1, h2, (C15_load_rejects grid false false rej3).2.2.1 _ _ h1 h2 (Or.inr (by decide))⟩

theorem nv_C15_load_rejects_4 :
    nodeIdFromText ((getlines ',' rej4).getD 0 []) = .ok 1 ∧
    nodeIdFromText ((getlines ',' rej4).getD 1 []) = .ok 2 ∧
    probabilityFromText ((getlines ',' rej4).getD 2 []) = .error .invalid_argument ∧
    parseRecord grid false true rej4 = .error .invalid_argument :=
  have h1 : nodeIdFromText ((getlines ',' rej4).getD 0 []) = .ok 1 := by decide +kernel
  have h2 : nodeIdFromText ((getlines ',' rej4).getD 1 []) = .ok 2 := by decide +kernel
  have h3 : probabilityFromText ((getlines ',' rej4).getD 2 []) = .error .invalid_argument := by decide +kernel
  ⟨h1, h2, h3, (C15_load_rejects grid false true rej4).2.2.2.1 _ _ _ h1 h2 (by decide) rfl h3⟩

theorem nv_C15_load_rejects_5 :
    nodeIdFromText ((getlines ',' rej5).getD 0 []) = .ok 1 ∧
    nodeIdFromText ((getlines ',' rej5).getD 1 []) = .ok 2 ∧
    optProbability true ((getlines ',' rej5).getD 2 []) = .ok (1 / 2) ∧
    costFromText ((getlines ',' rej5).getD 3 []) = .error .invalid_argument ∧
    parseRecord grid true true rej5 = .error .invalid_argument :=
  have h1 : nodeIdFromText ((getlines ',' rej5).getD 0 []) = .ok 1 := by decide +kernel
  have h2 : nodeIdFromText ((getlines ',' rej5).getD 1 []) = .ok 2 := by decide +kernel
  have h3 : optProbability true ((getlines ',' rej5).getD 2 []) = .ok (1 / 2) := by decide +kernel
  have h4 : costFromText ((getlines ',' rej5).getD 3 []) = .error .invalid_argument := by decide +kernel
  ⟨h1, h2, h3, h4, (C15_load_rejects grid true true rej5).2.2.2.2.1 _ _ _ _ h1 h2 (by decide) h3 rfl h4⟩

theorem nv_C15_load_rejects_6 :
    nodeIdFromText ((getlines ',' rej6).getD 0 []) = .ok 1 ∧
    nodeIdFromText ((getlines ',' rej6).getD 1 []) = .ok 2 ∧
    parsePoints (getlines ';' ((getlines ',' rej6).getD 2 [])) = .error .invalid_argument ∧
    parseRecord grid false false rej6 = .error .invalid_argument :=
  have h1 : nodeIdFromText ((getlines ',' rej6).getD 0 []) = .ok 1 := by decide +kernel
  have h2 : nodeIdFromText ((getlines ',' rej6).getD 1 []) = .ok 2 := by decide +kernel
  have h3 : optProbability false ((getlines ',' rej6).getD 2 []) = .ok 0 := rfl
  have h4 : optCost false ((getlines ',' rej6).getD 2 []) = .ok 0 := rfl
  have h5 : parsePoints (getlines ';' ((getlines ',' rej6).getD 2 [])) = .error .invalid_argument := by
    decide +kernel
  ⟨h1, h2, h5, (C15_load_rejects grid false false rej6).2.2.2.2.2.1 _ _ _ _ _ h1 h2 (by decide) h3 h4 h5⟩

theorem nv_C15_load_rejects_7 :
    nodeIdFromText ((getlines ',' rej7).getD 0 []) = .ok 1 ∧
    nodeIdFromText ((getlines ',' rej7).getD 1 []) = .ok 2 ∧
    parsePoints (getlines ';' ((getlines ',' rej7).getD 2 [])) = .ok [(43 / 2, 15 / 2)] ∧
    parseRecord grid false false rej7 = .error .runtime_error :=
  have h1 : nodeIdFromText ((getlines ',' rej7).getD 0 []) = .ok 1 := by decide +kernel
  have h2 : nodeIdFromText ((getlines ',' rej7).getD 1 []) = .ok 2 := by decide +kernel
  have h3 : optProbability false ((getlines ',' rej7).getD 2 []) = .ok 0 := rfl
  have h4 : optCost false ((getlines ',' rej7).getD 2 []) = .ok 0 := rfl
  have h5 : parsePoints (getlines ';' ((getlines ',' rej7).getD 2 [])) = .ok [(43 / 2, 15 / 2)] := by
    decide +kernel
  ⟨h1, h2, h5,
   (C15_load_rejects grid false false rej7).2.2.2.2.2.2 _ _ _ _ _ h1 h2 (by decide) h3 h4 h5 (by decide)⟩

/-- One malformed line after two good ones aborts the whole input with its class. -/
theorem nv_C15_load_rejects_texts_abort :
    (∀ l' ∈ [lineMerge, lineInside], ∃ r, parseRecord grid false false l' = .ok r) ∧
    parseRecord grid false false rej7 = .error .runtime_error ∧
    parseRecords grid false false ([lineMerge, lineInside] ++ rej7 :: [lineEdge]) = .error .runtime_error :=
  have hp := all_parse_of_check grid false false [lineMerge, lineInside] (by decide +kernel)
  have hl := nv_C15_load_rejects_7.2.2.2
  ⟨hp, hl, C15_load_rejects_texts.2.2.2.2.2.2.2.2.2.2.2.2.2.2.2.2.1 grid false false _ _ _ _ hp hl⟩

/-- An input whose only edge lies outside the box. -/
def textOutside : List Char := "1,2,51.5;7.5;53.5;7.5\n".toList

theorem nv_C15_load_rejects_texts_empty : ∃ n, loadSegments grid textOutside = .ok n ∧ n.segs = [] ∧
    load grid textOutside false = .error .runtime_error ∧ load grid textOutside true = .ok n := by
  obtain ⟨n, hn, hs⟩ : ∃ n, loadSegments grid textOutside = .ok n ∧ n.segs = [] :=
    ok_of_toOption (f := Net.segs) (by decide +kernel)
  exact ⟨n, hn, hs, C15_load_rejects_texts.2.2.2.2.2.2.2.2.2.2.2.2.2.2.2.2.2 grid textOutside n hn hs⟩

/-! ### Boundary of the hypothesis "all costs positive"

  `C15_load_wf` derives `Net.WF` from `load` only for inputs WITHOUT a cost column. With a cost
  column the hypothesis of `C15_terminates` / `C15_cost` is satisfiable (`netPC`, stated costs
  4, 5/2, 6, 1) but is not implied by a successful `load`: a stated cost `0` is stored as cost 0
  (`total_cost_ = 0` and, with a cost column, `cost_per_cell_ = 0`), and the walk never ends. -/

def textZeroCost : List Char := "node_1,node_2,cost,geometry\n1,2,0,21.5;7.5;23.5;7.5\n".toList
def netZeroCost : Net := { grid := grid, hasProb := false, segs := [((1, 2), ⟨[(1, 1), (1, 3)], 0, 0, 0⟩)] }

theorem zero_cost_loaded_not_wf : ∃ n, load grid textZeroCost false = .ok n ∧ n.segs = netZeroCost.segs ∧
    ¬ (∀ e ∈ netZeroCost.segs, 0 < e.2.cost) ∧ netZeroCost.walk (1, 1) 1 false = [.diverge] := by
  obtain ⟨n, hn, hs⟩ : ∃ n, load grid textZeroCost false = .ok n ∧ n.segs = netZeroCost.segs :=
    ok_of_toOption (f := Net.segs) (by decide +kernel)
  refine ⟨n, hn, hs, ?_, by decide +kernel⟩
  intro h
  exact absurd (h _ (List.mem_singleton.mpr rfl)) (by decide +kernel)

end Pops.NV
