/-
  C14  The deterministic kernel allots dispersers in proportion to the kernel density.
  Property theorems only. Helper lemmas: Lemmas/Det.lean (core), Analysis/DetQuota.lean (ℚ, allotment),
  Analysis/DetLaws.lean (ℝ, quantiles). The objects are the executable model definitions of
  Model/DetPick.lean, Model/Det.lean and Model/KernLaws.lean - the ones the driver runs at `TF.float`
  and compares with the C++ - instantiated at ℚ (allotment) and at `TF.real` (densities).

  Open findings recorded here:
   F21  the power-law quantile is not the inverse of the cdf of its density (`C14_quantile_powerlaw_fails`);
        exponential power and gamma with non-integer shape: numeric evidence only (driver);
   F23  two-sided laws with percentage < 1/2 have a negative quantile: the window does not exist
        (`C14_window` needs `0 ≤ dmax` for the centre; `C14_no_window_example`);
   F25  densities unbounded at the centre (driver, `Normalised`).
  Normal, log-normal and gamma quantiles are approximations by design: no theorem, numeric check only.
-/
import PopsModel.Lemmas.Det
import PopsModel.Model.DetPred
import PopsModel.Model.DetCtor
import PopsModel.Analysis.DetQuota
import PopsModel.Analysis.DetLaws
namespace Pops
open Pops.Det

/-! ### Allotment -/

/-- **Quota.** For every probability vector `p` (the normalised window, any size), every disperser
    count `N ≥ 1` and the scan-order arg-max of the model (initial value `init ≤ -1`; the code uses
    `-(2^31 - 1)`): after the `N` calls for one source cell `|k_c - N p_c| ≤ 1` for every window cell
    (`QuotaBound`), and at every moment `t ≤ N` no cell is a whole disperser ahead (`QuotaUpper`). -/
theorem C14_quota (p : List ℚ) (hp0 : ∀ x ∈ p, 0 ≤ x) (hp : p.sum = 1) (N : ℕ) (hN : 1 ≤ N)
    (init : ℚ) (hinit : init ≤ -1) :
    QuotaBound N p (runPicks ltQ subQ init (1 / N) N (Allot.fresh p)).counts 0 = true ∧
    ∀ t, t ≤ N → QuotaUpper N p (runPicks ltQ subQ init (1 / N) t (Allot.fresh p)).counts 0 = true :=
  quota_list p hp0 hp N hN init hinit

/-- Every one of the `N` calls lands in a window cell (the scan finds a maximum). -/
theorem C14_picks_in_window (p : List ℚ) (hp0 : ∀ x ∈ p, 0 ≤ x) (hp : p.sum = 1) (N : ℕ) (hN : 1 ≤ N)
    (init : ℚ) (hinit : init ≤ -1) (t : ℕ) (ht : t < N) :
    (pickStep ltQ subQ init (1 / N) (runPicks ltQ subQ init (1 / N) t (Allot.fresh p))).2.isSome = true :=
  picks_counted p hp0 hp N hN init hinit t ht

/-- **Equal shares.** At every moment cells of equal normalised weight differ by at most one pick. -/
theorem C14_equal_share (p : List ℚ) (hp0 : ∀ x ∈ p, 0 ≤ x) (hp : p.sum = 1) (N : ℕ) (hN : 1 ≤ N)
    (init : ℚ) (hinit : init ≤ -1) (t : ℕ) (ht : t ≤ N) :
    EqualShareBound p (runPicks ltQ subQ init (1 / N) t (Allot.fresh p)).counts = true :=
  equal_share_list p hp0 hp N hN init hinit t ht

/-- **Mirror.** In a `rows × cols` window whose weights are mirror symmetric (as `C14_mirror_weight`
    shows for the model's window), mirror-image cells have received the same number of dispersers
    up to one, at every moment of the allotment. -/
theorem C14_mirror (rows cols : ℕ) (p : List ℚ) (hlen : p.length = rows * cols)
    (hsym : ∀ c, c < rows * cols → ∀ d ∈ mirrorCells rows cols c, p.getD c 0 = p.getD d 0)
    (hp0 : ∀ x ∈ p, 0 ≤ x) (hp : p.sum = 1) (N : ℕ) (hN : 1 ≤ N)
    (init : ℚ) (hinit : init ≤ -1) (t : ℕ) (ht : t ≤ N) :
    MirrorBound rows cols (runPicks ltQ subQ init (1 / N) t (Allot.fresh p)).counts = true := by
  have he := equal_share_list p hp0 hp N hN init hinit t ht
  simp only [EqualShareBound, List.all_eq_true, List.mem_range, Bool.or_eq_true, Bool.not_eq_true',
    beq_eq_false_iff_ne, ne_eq] at he
  simp only [MirrorBound, MirrorBoundAt, List.all_eq_true, List.mem_range]
  intro c hc d hd
  have hcols : 0 < cols := by
    rcases Nat.eq_zero_or_pos cols with h0 | h0
    · subst h0; simp at hc
    · exact h0
  have hi : c / cols < rows := by
    rw [Nat.div_lt_iff_lt_mul hcols]; exact hc
  have hj : c % cols < cols := Nat.mod_lt _ hcols
  have hdlt : d < rows * cols := by
    have key : ∀ a b, a < rows → b < cols → a * cols + b < rows * cols := by
      intro a b ha hb
      calc a * cols + b < a * cols + cols := by omega
        _ = (a + 1) * cols := by rw [Nat.add_mul, Nat.one_mul]
        _ ≤ rows * cols := Nat.mul_le_mul_right _ ha
    simp only [mirrorCells, List.mem_cons, List.not_mem_nil, or_false] at hd
    generalize c / cols = i at hd hi
    generalize c % cols = j at hd hj
    rcases hd with rfl | rfl | rfl
    · exact key _ _ (by omega) hj
    · exact key _ _ hi (by omega)
    · exact key _ _ (by omega) (by omega)
  rcases he c (by rw [hlen]; exact hc) d (by rw [hlen]; exact hdlt) with h | h
  · exact absurd (hsym c hc d hd) h
  · exact h

/-- Mirror-image cells of the model's window have the same raw weight `abs (pdf (distance))`:
    the distance depends on `|mid - i|` only and `mid - (2 h - i) = -(mid - i)`. For every number type. -/
theorem C14_mirror_weight {α : Type} (T : TF α) (law : Law) (scale shape ns ew : α) (h w i j : ℕ)
    (hi : i ≤ 2 * h) (hj : j ≤ 2 * w) :
    rawWeight T law scale shape ns ew h w (2 * h - i) j = rawWeight T law scale shape ns ew h w i j ∧
    rawWeight T law scale shape ns ew h w i (2 * w - j) = rawWeight T law scale shape ns ew h w i j ∧
    rawWeight T law scale shape ns ew h w (2 * h - i) (2 * w - j) = rawWeight T law scale shape ns ew h w i j :=
  rawWeight_mirror T law scale shape ns ew h w i j hi hj

/-- **Reset.** A call works on the restored window, with `1 / dispersers(row, col)`, iff the source
    cell differs from that of the previous call; otherwise it continues on the working copy. -/
theorem C14_reset {α : Type} (T : TF α) (K : Kernel α) (s : KState α) (row col n : Int)
    (hK : K.law.isSome = true) :
    ∃ s' cell, call T K s row col n = .ok (s', cell) ∧ s'.prevRow = row ∧ s'.prevCol = col ∧
      ((row, col) ≠ (s.prevRow, s.prevCol) →
        s'.delta = T.div (T.ofNat 1) (ofInt T n) ∧
        s'.copy = (pickStep T.ltb T.sub (detInit T) s'.delta { copy := K.prob, counts := [] }).1.copy) ∧
      ((row, col) = (s.prevRow, s.prevCol) →
        s'.delta = s.delta ∧
        s'.copy = (pickStep T.ltb T.sub (detInit T) s.delta { copy := s.copy, counts := [] }).1.copy) :=
  call_reset T K s row col n hK

/-- **Afresh for every new source cell.** Whatever the earlier calls did, the working copy after
    `m + 1` calls for a new source cell is the one `runPicks` computes from the untouched window:
    `C14_quota`, `C14_equal_share` and `C14_mirror` (theorems about `runPicks`) apply to each run. -/
theorem C14_fresh_run {α : Type} (T : TF α) (K : Kernel α) (s : KState α) (row col n : Int)
    (hK : K.law.isSome = true) (hne : (row, col) ≠ (s.prevRow, s.prevCol)) (cnt : List ℕ) (m : ℕ) :
    (callN T K row col n (m + 1) s).prevRow = row ∧ (callN T K row col n (m + 1) s).prevCol = col ∧
    (callN T K row col n (m + 1) s).delta = T.div (T.ofNat 1) (ofInt T n) ∧
    (callN T K row col n (m + 1) s).copy =
      (runPicks T.ltb T.sub (detInit T) (T.div (T.ofNat 1) (ofInt T n)) (m + 1)
        { copy := K.prob, counts := cnt }).copy :=
  callN_fresh T K s row col n hK hne cnt m

/-! ### Window and weights -/

/-- **Window.** Over ℝ the window has `2 h + 1` cells per axis with `h = ⌈icdf pct / res⌉`, the least
    number of whole cells that reaches the quantile (`dmax ≤ h res`, `(h - 1) res < dmax`); rows use
    the north-south and columns the east-west resolution; for `dmax ≥ 0` the centre is cell `h`. -/
theorem C14_window (dmax ns ew : ℝ) (hns : 0 < ns) (hew : 0 < ew) :
    (windowDims TF.real dmax ns ew).1 = 2 * halfWidth TF.real dmax ns + 1 ∧
    (windowDims TF.real dmax ns ew).2 = 2 * halfWidth TF.real dmax ew + 1 ∧
    dmax ≤ (halfWidth TF.real dmax ns : ℝ) * ns ∧ ((halfWidth TF.real dmax ns : ℝ) - 1) * ns < dmax ∧
    dmax ≤ (halfWidth TF.real dmax ew : ℝ) * ew ∧ ((halfWidth TF.real dmax ew : ℝ) - 1) * ew < dmax ∧
    (0 ≤ dmax → Int.tdiv (windowDims TF.real dmax ns ew).1 2 = halfWidth TF.real dmax ns ∧
               Int.tdiv (windowDims TF.real dmax ns ew).2 2 = halfWidth TF.real dmax ew) :=
  window_real dmax ns ew hns hew

/-- **Distance.** A built kernel has `max_distance = icdf (percentage)` of its law, the dimensions of
    `C14_window`, and cell `(i, j)` carries `abs (pdf (sqrt ((|mid_row - i| ns)^2 + (|mid_col - j| ew)^2)))`
    divided by the sum over the window. For every number type. -/
theorem C14_distance {α : Type} (T : TF α) (lw : Law) (pct ew ns scale shape : α) (K : Kernel α)
    (h : build T (some lw) pct ew ns scale shape = .ok K) :
    lawIcdf T lw scale shape pct = .ok K.dmax ∧ (K.rows, K.cols) = windowDims T K.dmax ns ew ∧
    K.midRow = Int.tdiv K.rows 2 ∧ K.midCol = Int.tdiv K.cols 2 ∧
    ∀ i j : ℕ, i < K.rows.toNat → j < K.cols.toNat →
      ∃ raw v, rawWeights T lw scale shape ns ew K.rows.toNat K.cols.toNat K.midRow K.midCol = .ok raw ∧
        lawPdf T lw scale shape (cellDist T ns ew (K.midRow - i) (K.midCol - j)) = .ok v ∧
        K.prob[i * K.cols.toNat + j]? = some (T.div (T.abs v) (sumScan T raw)) := by
  obtain ⟨_, h2, h3, _, h5, h6, _⟩ := build_ok T lw pct ew ns scale shape K h
  exact ⟨h2, h3, h5, h6, fun i j hi hj => build_weight T lw pct ew ns scale shape K h i j hi hj⟩

/-! ### The quantile is the inverse of the cdf of the same density (closed-form laws) -/

theorem C14_quantile_cauchy (s : ℝ) (hs : 0 < s) :
    (∀ x, cauchyIcdf TF.real s (cauchyCdf TF.real s x) = x) ∧
    (∀ p, 0 < p → p < 1 → cauchyCdf TF.real s (cauchyIcdf TF.real s p) = p) ∧
    (∀ x, HasDerivAt (cauchyCdf TF.real s) (cauchyPdf TF.real s x) x) :=
  ⟨cauchy_icdf_cdf s hs.ne', cauchy_cdf_icdf s hs.ne', cauchy_hasDerivAt s hs.ne'⟩

theorem C14_quantile_exponential (b : ℝ) (hb : 0 < b) :
    (∀ x, exponentialIcdf TF.real b (exponentialCdf TF.real b x) = x) ∧
    (∀ p, 0 < p → p < 1 → exponentialCdf TF.real b (exponentialIcdf TF.real b p) = p) ∧
    (∀ x, HasDerivAt (exponentialCdf TF.real b) (exponentialPdf TF.real b x) x) :=
  ⟨exponential_icdf_cdf b hb.ne', fun p _ h1 => exponential_cdf_icdf b hb.ne' p h1, exponential_hasDerivAt b⟩

/-- Weibull with shape `a` and scale `b`, arguments in the class's order (after the repair F14 the
    quantile uses them consistently with the density). -/
theorem C14_quantile_weibull (a b : ℝ) (ha : 0 < a) (hb : 0 < b) :
    (∀ x, 0 ≤ x → weibullIcdf TF.real a b (weibullCdf TF.real a b x) = x) ∧
    (∀ p, 0 < p → p < 1 → weibullCdf TF.real a b (weibullIcdf TF.real a b p) = p) ∧
    (∀ x, 0 < x → HasDerivAt (weibullCdf TF.real a b) (weibullPdf TF.real a b x) x) :=
  ⟨weibull_icdf_cdf a b ha.ne' hb, weibull_cdf_icdf a b ha.ne' hb, weibull_hasDerivAt a b hb⟩

theorem C14_quantile_logistic (s : ℝ) (hs : 0 < s) :
    (∀ x, logisticIcdf TF.real s (logisticCdf TF.real s x) = x) ∧
    (∀ p, 0 < p → p < 1 → logisticCdf TF.real s (logisticIcdf TF.real s p) = p) ∧
    (∀ x, HasDerivAt (logisticCdf TF.real s) (logisticPdf TF.real s x) x) :=
  ⟨logistic_icdf_cdf s hs.ne', logistic_cdf_icdf s hs.ne', logistic_hasDerivAt s hs.ne'⟩

theorem C14_quantile_hyperbolic_secant (σ : ℝ) (hσ : 0 < σ) :
    (∀ x, hypsecIcdf TF.real σ (hypsecCdf TF.real σ x) = x) ∧
    (∀ p, 0 < p → p < 1 → hypsecCdf TF.real σ (hypsecIcdf TF.real σ p) = p) ∧
    (∀ x, HasDerivAt (hypsecCdf TF.real σ) (hypsecPdf TF.real σ x) x) :=
  ⟨hypsec_icdf_cdf σ hσ.ne', hypsec_cdf_icdf σ hσ.ne', hypsec_hasDerivAt σ hσ.ne'⟩

/-! ### F21 (open): the power-law quantile -/

/-- The full statement for the power law: its quantile inverts the cdf of its coded density. -/
def C14_quantile_powerlaw_full : Prop :=
  ∀ α xm p : ℝ, 1 < α → 0 < xm → 0 < p → p < 1 →
    powerlawCdf TF.real α xm (powerlawIcdf TF.real α xm p) = p

/-- `powerlawCdf` is the cdf of the coded density (so the defect is in the quantile). -/
theorem C14_powerlaw_cdf_of_density (α xm : ℝ) (hxm : 0 < xm) (x : ℝ) (hx : 0 ≤ x) :
    HasDerivAt (powerlawCdf TF.real α xm) (powerlawPdf TF.real α xm x) x :=
  powerlaw_hasDerivAt α xm hxm x hx

/-- Counter-example (replayed on the C++ by `h_det witness`): `alpha = 2, xmin = 1, p = 1/2` gives
    `icdf = 2` and `cdf 2 = 2/3`. -/
theorem C14_quantile_powerlaw_fails : ¬ C14_quantile_powerlaw_full := by
  intro h
  have := h 2 1 (1 / 2) (by norm_num) (by norm_num) (by norm_num) (by norm_num)
  exact powerlaw_counterexample.2.2 this

/-- Neither does it invert the cdf of the unshifted Pareto density (`p = 1/4`: `icdf = 4`, cdf `3/4`). -/
theorem C14_quantile_powerlaw_pareto_fails :
    paretoCdf TF.real 2 1 (powerlawIcdf TF.real 2 1 (1 / 4)) ≠ 1 / 4 := by
  rw [powerlaw_counterexample_pareto.2]; norm_num

/-! ### F23 (open): no window below one half for the two-sided laws -/

/-- Cauchy, scale 3, percentage 1/4: the quantile is `-3` and the window of the model over ℝ has
    `-1 × -5` "cells" for resolutions `ns = 2`, `ew = 1`. (`h_det witness` replays these inputs on the
    C++: in double arithmetic `tan (-π/4)` is `-0.9999999999999999`, which gives `-1 × -3`.) -/
theorem C14_no_window_example :
    cauchyIcdf TF.real 3 (1 / 4) = -3 ∧ windowDims TF.real (-3) 2 1 = (-1, -5) := by
  constructor
  · simp only [cauchyIcdf, TF.real, Nat.cast_one, Nat.cast_ofNat]
    have : Real.pi * ((1 : ℝ) / 4 - 1 / 2) = -(Real.pi / 4) := by ring
    rw [this, Real.tan_neg, Real.tan_pi_div_four]; norm_num
  · simp only [windowDims, halfWidth, TF.real, Prod.mk.injEq]
    constructor
    · have : ⌈(-3 : ℝ) / 2⌉ = -1 := by
        rw [Int.ceil_eq_iff]; norm_num
      rw [this]; norm_num
    · have : ⌈(-3 : ℝ) / 1⌉ = -3 := by
        rw [Int.ceil_eq_iff]; norm_num
      rw [this]; norm_num

/-! ### Parameters outside the domain are rejected -/

/-- **Constructor validation.** For every law, the constructor of its class (`lawCtorCheck`, the
    `if (...) throw` of each `*_kernel.hpp`) returns `invalid_argument` iff one of the parameters it
    validates is rejected by its check (`Law.scaleCheck`, `Law.shapeCheck`: `≤ 0` for `positive`, `= 0`
    for `nonzero`), and never any other error. Consequences: for the seven classes that validate
    with `<= 0` (Cauchy, exponential, Weibull, log-normal, logistic, gamma, exponential power) the
    constructor is rejected iff the scale - or, where the class has one, the shape - is `≤ 0`; for
    every law, parameters in the property's domain are accepted and a zero scale (zero `xmin` for the
    power law) is rejected. The normal and hyperbolic-secant classes accept a negative scale and the
    power law any `alpha` and a negative `xmin`: these are not validated by the code. -/
theorem C14_parameters_rejected (law : Law) (scale shape : ℚ) :
    (lawCtorCheck law scale shape = .error .invalid_argument ↔
        law.scaleCheck.rejects scale ∨ law.shapeCheck.rejects shape) ∧
    (∀ e, lawCtorCheck law scale shape = .error e → e = .invalid_argument) ∧
    (law.validatesPositivity = true →
        (lawCtorCheck law scale shape = .error .invalid_argument ↔
          scale ≤ 0 ∨ (law.usesShape = true ∧ shape ≤ 0))) ∧
    (ParamsInDomain law scale shape → lawCtorCheck law scale shape = .ok ()) ∧
    (law ≠ .powerlaw → lawCtorCheck law 0 shape = .error .invalid_argument) ∧
    (lawCtorCheck .powerlaw scale 0 = .error .invalid_argument) := by
  refine ⟨?_, ?_, ?_, ?_, ?_, ?_⟩
  · cases law <;> simp only [lawCtorCheck, Law.scaleCheck, Law.shapeCheck, ParamCheck.rejects] <;>
      split <;> simp_all [or_comm]
  · intro e he
    cases law <;> simp only [lawCtorCheck] at he <;> split at he <;> simp_all
  · intro hv
    cases law <;> simp only [Law.validatesPositivity] at hv <;> try (exact absurd hv (by decide))
    all_goals (simp only [lawCtorCheck, Law.usesShape]; split <;> simp_all <;> tauto)
  · rintro ⟨hs, hh⟩
    cases law <;> simp only [lawCtorCheck, Law.usesShape] at * <;> split <;> simp_all <;> grind
  · intro hl
    cases law <;> simp_all [lawCtorCheck]
  · simp [lawCtorCheck]

/-- Non-trivial instances: a Weibull scale of 2 with a shape of 0 is rejected because of the shape
    alone (the `||` of the guard), an exponential-power shape of exactly 0 is rejected (`<=`, not `<`),
    in-domain parameters are accepted, and a negative normal sigma is NOT rejected. -/
example : lawCtorCheck .weibull 2 0 = .error .invalid_argument ∧
    lawCtorCheck .weibull 0 2 = .error .invalid_argument ∧
    lawCtorCheck .exppower (3 / 2) 0 = .error .invalid_argument ∧
    lawCtorCheck .gamma (-1 / 2) 3 = .error .invalid_argument ∧
    lawCtorCheck .weibull 2 (3 / 2) = .ok () ∧ ParamsInDomain .weibull 2 (3 / 2) ∧
    lawCtorCheck .normal (-1) 1 = .ok () := by
  refine ⟨by simp [lawCtorCheck], by simp [lawCtorCheck], by simp [lawCtorCheck], ?_, ?_, ?_, ?_⟩
  · simp [lawCtorCheck]
  · simp [lawCtorCheck]
  · exact ⟨by norm_num, fun _ => by norm_num⟩
  · simp [lawCtorCheck]

example : (lawCtorCheck .weibull 2 0 = .error .invalid_argument) :=
  ((C14_parameters_rejected .weibull 2 0).2.2.1 rfl).mpr (Or.inr ⟨rfl, by norm_num⟩)

/-! ### The hypotheses are satisfiable -/

example : QuotaBound 4 [1 / 2, 1 / 4, 1 / 4]
    (runPicks ltQ subQ (-2147483647) (1 / (4 : ℕ)) 4 (Allot.fresh [1 / 2, 1 / 4, 1 / 4])).counts 0 = true :=
  (C14_quota [1 / 2, 1 / 4, 1 / 4] (by intro x hx; simp at hx; rcases hx with rfl | rfl <;> norm_num)
    (by norm_num) 4 (by norm_num) (-2147483647) (by norm_num)).1

/-- A 1 × 3 window with symmetric weights: the mirror hypotheses hold. -/
example : MirrorBound 1 3
    (runPicks ltQ subQ (-2147483647) (1 / (5 : ℕ)) 3 (Allot.fresh [1 / 4, 1 / 2, 1 / 4])).counts = true :=
  C14_mirror 1 3 [1 / 4, 1 / 2, 1 / 4] rfl
    (by
      intro c hc d hd
      have hc3 : c < 3 := by omega
      interval_cases c <;> simp [mirrorCells] at hd <;> rcases hd with rfl | rfl <;> norm_num)
    (by intro x hx; simp at hx; rcases hx with rfl | rfl | rfl <;> norm_num)
    (by norm_num) 5 (by norm_num) (-2147483647) (by norm_num) 3 (by norm_num)

/-- A supported kernel and a state whose previous source cell differs: `C14_fresh_run` applies. -/
example (K : Kernel Float) (hK : K.law = some .cauchy) :
    (callN TF.float K 2 3 7 1 (initState TF.float K)).prevRow = 2 :=
  (C14_fresh_run TF.float K (initState TF.float K) 2 3 7 (by rw [hK]; rfl) (by simp [initState]) [] 0).1

example : cauchyCdf TF.real 3 (cauchyIcdf TF.real 3 (9 / 10)) = 9 / 10 :=
  (C14_quantile_cauchy 3 (by norm_num)).2.1 _ (by norm_num) (by norm_num)

example : weibullCdf TF.real (3 / 2) 2 (weibullIcdf TF.real (3 / 2) 2 (9 / 10)) = 9 / 10 :=
  (C14_quantile_weibull (3 / 2) 2 (by norm_num) (by norm_num)).2.1 _ (by norm_num) (by norm_num)

end Pops
