/-
  C10 (dates and runs): what the review of the C10 statements found missing.

  * `C10_registered_at_containing_step`: `Treatments::add_treatment` registers a treatment at the
    index of THE step containing its date (and a pesticide's end at the step containing the date
    `num_days` days later); a date outside every step is rejected.
  * `C10_run_treatments_once`: when the events a run sees are those `manage` derives from the
    registered list, each treatment contributes its application operations exactly once in the whole
    run - at its start step if that step is in the run, never otherwise - and a pesticide its end
    operations exactly once, at its end step.
  * `C10_cleared_never_run_over_run`: after `clear_after_step(s)` no treatment is applied after step `s`.
-/
import PopsModel.Lemmas.C10Dates
import PopsModel.Lemmas.RunModel
namespace Pops
open Date

/-! ### (1) registration -/

/-- For a tiled calendar (`C07_tiles`: every calendar the `Scheduler` constructor accepts) and a
    valid start date, `Treatments::add_treatment(map, date, n, app)`:

    * succeeds with `spec` only if `spec.start` is the index of a step containing `date`, and that
      step is the only one containing it; a simple treatment (`n = 0`) has `end_ = start`; for
      `n > 0` the treatment is a pesticide and `spec.end_` is the index of the one step containing
      the date `n` days later (`n` successive `add_day`s), which is not before the start step;
    * is rejected with `invalid_argument` when no step contains `date`, or (`n > 0`) when no step
      contains the end date;
    * conversely succeeds, with exactly those indices, whenever the dates lie in steps. -/
theorem C10_registered_at_containing_step (start end_ : Date) (steps : List Step)
    (htile : TilesCalendar start end_ steps = true) (date : Date) (hv : date.Valid) (n : Nat) :
    (∀ spec, addTreatment steps date n = .ok spec →
      (∃ st, steps[spec.start]? = some st ∧ st.contains date = true) ∧
      (∀ k st, steps[k]? = some st → st.contains date = true → k = spec.start) ∧
      (n = 0 → spec.pesticide = false ∧ spec.end_ = spec.start) ∧
      (0 < n → spec.pesticide = true ∧
        (∃ st, steps[spec.end_]? = some st ∧ st.contains (iter Date.addDay n date) = true) ∧
        (∀ k st, steps[k]? = some st → st.contains (iter Date.addDay n date) = true → k = spec.end_) ∧
        spec.start ≤ spec.end_)) ∧
    ((∀ st ∈ steps, st.contains date = false) → addTreatment steps date n = .error .invalid_argument) ∧
    (0 < n → (∀ st ∈ steps, st.contains (iter Date.addDay n date) = false) →
      addTreatment steps date n = .error .invalid_argument) ∧
    (∀ k st, steps[k]? = some st → st.contains date = true →
      (n = 0 → addTreatment steps date n = .ok ⟨false, k, k⟩) ∧
      (0 < n → ∀ k' st', steps[k']? = some st' → st'.contains (iter Date.addDay n date) = true →
        addTreatment steps date n = .ok ⟨true, k, k'⟩)) := by
  obtain ⟨hve, hoe⟩ := c10d_addDays n date hv
  have uniq : ∀ (x : Date), x.Valid → ∀ (j k : Nat) (s1 s2 : Step), steps[j]? = some s1 → steps[k]? = some s2 →
      s1.contains x = true → s2.contains x = true → j = k :=
    fun x hx => (C07_partition start end_ steps htile x hx).1
  have rej : ∀ (x : Date), x.Valid → (∀ st ∈ steps, st.contains x = false) →
      scheduleActionDate steps x = .error .invalid_argument :=
    fun x hx => (C07_partition start end_ steps htile x hx).2.2.2
  refine ⟨?_, ?_, ?_, ?_⟩
  · intro spec hspec
    cases hs : scheduleActionDate steps date with
    | error e => rw [c10d_addTreatment_err steps date n e hs] at hspec; cases hspec
    | ok s =>
      obtain ⟨st, h1, h2⟩ := (c10d_lookup_iff start end_ steps htile date hv s).mp hs
      by_cases hn : n = 0
      · subst hn
        rw [c10d_addTreatment_simple steps date s hs] at hspec
        injection hspec with hspec; subst hspec
        exact ⟨⟨st, h1, h2⟩, fun k st' a b => uniq date hv k s st' st a h1 b h2, fun _ => ⟨rfl, rfl⟩,
          fun h => absurd h (by omega)⟩
      · have hn' : 0 < n := by omega
        cases he : scheduleActionDate steps (iter Date.addDay n date) with
        | error e => rw [c10d_addTreatment_pest_err steps date n s hn' e hs he] at hspec; cases hspec
        | ok e =>
          obtain ⟨st2, g1, g2⟩ := (c10d_lookup_iff start end_ steps htile _ hve e).mp he
          rw [c10d_addTreatment_pest steps date n s e hn' hs he] at hspec
          injection hspec with hspec; subst hspec
          refine ⟨⟨st, h1, h2⟩, fun k st' a b => uniq date hv k s st' st a h1 b h2, fun h => absurd h hn, fun _ =>
            ⟨rfl, ⟨st2, g1, g2⟩, fun k st' a b => uniq _ hve k e st' st2 a g1 b g2, ?_⟩⟩
          exact c10d_steps_ordered start end_ steps htile date _ hv hve (by omega) s e st st2 h1 g1 h2 g2
  · intro hnone
    exact c10d_addTreatment_err steps date n _ (rej date hv hnone)
  · intro hn hnone
    cases hs : scheduleActionDate steps date with
    | error e =>
      rw [c10d_addTreatment_err steps date n e hs, (c10d_lookup_error steps date e hs).1]
    | ok s => exact c10d_addTreatment_pest_err steps date n s hn _ hs (rej _ hve hnone)
  · intro k st h1 h2
    have hs := (c10d_lookup_iff start end_ steps htile date hv k).mpr ⟨st, h1, h2⟩
    refine ⟨fun hn => by subst hn; exact c10d_addTreatment_simple steps date k hs, ?_⟩
    intro hn k' st' g1 g2
    exact c10d_addTreatment_pest steps date n k k' hn hs
      ((c10d_lookup_iff start end_ steps htile _ hve k').mpr ⟨st', g1, g2⟩)

/-! ### (2) the events of a run come from the registered list -/

/-- `treatEvents` of a step is what `manage(step)` derives from the registered list: one event per
    treatment whose `eventAt step` is not `.nothing`, in list order, an application at its start
    step and (pesticide) an end at its end step. -/
theorem C10_eventsAt (ts : List Treatment) (step : Nat) :
    eventsAt ts step = ts.filterMap (·.eventOf step) ∧
    (∀ t : Treatment, (t.eventOf step = none ↔ t.1.eventAt step = .nothing) ∧
      (t.1.eventAt step = .apply → t.eventOf step = some (false, t.1.pesticide, t.2.1, t.2.2)) ∧
      (t.1.eventAt step = .finish → t.eventOf step = some (true, t.1.pesticide, t.2.1, t.2.2))) := by
  refine ⟨rfl, fun t => ?_⟩
  unfold Treatment.eventOf
  cases t.1.eventAt step <;> simp

/-- Over a run `runModel cfg inps first l` whose steps see the events of the registered list `ts`
    (`inps[k].treatEvents = eventsAt ts (first + k)`; pesticides end after they start):

    * step `first + k` of the run runs `inps[k]` (the run is: the first `k` steps, then the generators
      `stepGens cfg inps[k] (first + k)`, then the rest); these generators are the plan's actions, the
      treatments generator is among them exactly when treatments are enabled, and then once; its
      output is, in list order, each registered treatment's contribution at that step
      (`Treatment.opsAt`: application operations at the start step, end operations at a pesticide's
      end step, nothing otherwise);
    * the concatenated output of the treatments generator over the whole run (`treatOpsOfRun`) is the
      operations of the tagged trace `treatTrace ts first inps.length`;
    * in that trace the `i`-th registered treatment is applied exactly once - at its start step - if
      that step is one of the run's steps, and never otherwise; a pesticide is ended exactly once - at
      its end step - if that step is one of the run's steps, never otherwise; a simple treatment is
      never ended. -/
theorem C10_run_treatments_once (cfg : StepCfg) (ts : List Treatment) (inps : List StepInputs) (first : Nat)
    (hlt : ∀ t ∈ ts, t.1.pesticide = true → t.1.start < t.1.end_)
    (hev : ∀ k inp, inps[k]? = some inp → inp.treatEvents = eventsAt ts (first + k)) :
    (∀ k inp, inps[k]? = some inp →
      (∀ l, runModel cfg inps first l =
        (runModel cfg (inps.take k) first l >>= fun m => runGens (stepGens cfg inp (first + k)) m >>= fun m' =>
          runModel cfg (inps.drop (k + 1)) (first + k + 1) m')) ∧
      stepGens cfg inp (first + k) = (plan cfg (first + k)).map (fun a => actionGen inp (first + k) a.1) ∧
      ((plan cfg (first + k)).map (·.1)).count .treatments = (if cfg.useTreatments then 1 else 0) ∧
      (∀ l, actionGen inp (first + k) .treatments l = ts.flatMap (·.opsAt inp (first + k))) ∧
      stepInputAt inps first (first + k) = some inp) ∧
    treatOpsOfRun cfg inps first =
      (if cfg.useTreatments then (treatTrace ts first inps.length).flatMap (tagOps ts (stepInputAt inps first)) else []) ∧
    (∀ i, i < ts.length →
      (treatTrace ts first inps.length).filter (fun tag => tag.2.1 == i && !tag.2.2) =
        (if first ≤ (ts[i]!).1.start ∧ (ts[i]!).1.start < first + inps.length
         then [((ts[i]!).1.start, i, false)] else []) ∧
      (treatTrace ts first inps.length).filter (fun tag => tag.2.1 == i && tag.2.2) =
        (if (ts[i]!).1.pesticide = true ∧ first ≤ (ts[i]!).1.end_ ∧ (ts[i]!).1.end_ < first + inps.length
         then [((ts[i]!).1.end_, i, true)] else [])) := by
  have hat : ∀ k inp, inps[k]? = some inp → stepInputAt inps first (first + k) = some inp := by
    intro k inp hk
    unfold stepInputAt
    rw [if_pos (by omega), Nat.add_sub_cancel_left, hk]
  refine ⟨?_, c10d_treatOpsOfRun cfg ts inps first _ hat hev, ?_⟩
  · intro k inp hk
    refine ⟨?_, rfl, ?_, ?_, hat k inp hk⟩
    · intro l
      have hklt : k < inps.length := by
        by_cases h : k < inps.length
        · exact h
        · rw [List.getElem?_eq_none (by omega)] at hk; cases hk
      have hsplit : inps = inps.take k ++ inp :: inps.drop (k + 1) := by
        have h1 : inps.drop k = inp :: inps.drop (k + 1) := by
          rw [List.drop_eq_getElem_cons hklt]
          congr 1
          rw [List.getElem?_eq_getElem hklt] at hk
          injection hk
        rw [← h1, List.take_append_drop]
      have hl : (inps.take k).length = k := by rw [List.length_take]; omega
      conv => lhs; rw [hsplit]
      rw [runModel_append, hl]
      rfl
    · rw [act_plan_map_fst]
      have hr : cfg.runs (first + k) .treatments = cfg.useTreatments := rfl
      cases hu : cfg.useTreatments with
      | true =>
        rw [List.count_filter (by rw [hr, hu])]
        decide
      | false =>
        rw [List.count_eq_zero.mpr]
        · rfl
        · intro hm
          have := (List.mem_filter.mp hm).2
          rw [hr, hu] at this
          cases this
    · intro l
      rw [c10d_actionGen_treatments, hev k inp hk, c10d_eventsAt_flatMap]
  · intro i hi
    have hm : ts[i]! ∈ ts := act_getElem!_mem hi
    exact ⟨c10d_trace_filter_apply ts first inps.length i hi,
      c10d_trace_filter_finish ts first inps.length i hi (hlt _ hm)⟩

/-! ### (3) clearing -/

/-- `Treatments::clear_after_step(s)` restated over the run that follows (events derived from the
    cleared list): a treatment stays iff it was registered with a start step `<= s` (the schedules
    are those `clearAfterStep` of `C10_cleared_never_run` keeps); up to step `s` the events are
    unchanged; the events of any step are a sub-list (same order) of those of the uncleared list;
    after step `s` every event is the end of an earlier pesticide; and in the trace of any run
    no application is dated after step `s`: treatments dated after the cleared step never run. -/
theorem C10_cleared_never_run_over_run (ts : List Treatment) (s : Nat)
    (hlt : ∀ t ∈ ts, t.1.pesticide = true → t.1.start < t.1.end_) :
    (∀ t, t ∈ clearAfter ts s ↔ (t ∈ ts ∧ t.1.start ≤ s)) ∧
    (clearAfter ts s).map (·.1) = clearAfterStep (ts.map (·.1)) s ∧
    (∀ step, step ≤ s → eventsAt (clearAfter ts s) step = eventsAt ts step) ∧
    (∀ step, (eventsAt (clearAfter ts s) step).Sublist (eventsAt ts step)) ∧
    (∀ step, s < step → ∀ ev ∈ eventsAt (clearAfter ts s) step, ev.1 = true) ∧
    (∀ first n, ∀ tag ∈ treatTrace (clearAfter ts s) first n, tag.2.2 = false → tag.1 ≤ s) := by
  refine ⟨c10d_mem_clearAfter ts s, c10d_clearAfter_specs ts s,
    fun step h => c10d_eventsAt_clear_before ts s step h hlt, c10d_eventsAt_clear_sublist ts s, ?_, ?_⟩
  · intro step hs ev hev
    unfold eventsAt at hev
    obtain ⟨t, ht, he⟩ := List.mem_filterMap.mp hev
    have hst := ((c10d_mem_clearAfter ts s t).mp ht).2
    cases hb : ev.1 with
    | true => rfl
    | false =>
      have := (c10d_eventAt_apply t.1 step).mp ((c10d_eventOf_finish_flag t step ev he).mp hb)
      omega
  · intro first n tag htag hfin
    unfold treatTrace at htag
    obtain ⟨k, _, hk⟩ := List.mem_flatMap.mp htag
    obtain ⟨h1, h2, h3⟩ := c10d_tag_step (clearAfter ts s) (first + k) tag hk
    rcases h3 with ⟨_, ha⟩ | ⟨hb, _⟩
    · have hst := ((c10d_mem_clearAfter ts s _).mp (act_getElem!_mem h2)).2
      have := (c10d_eventAt_apply _ _).mp ha
      omega
    · rw [hfin] at hb; cases hb

/-! ### monthly steps from 2019-11-01; a pesticide from 2019-12-15 lasting 90 days -/

namespace C10DatesEx

/-- November 2019 ... April 2020. -/
def steps : List Step :=
  [⟨⟨2019, 11, 1⟩, ⟨2019, 11, 30⟩⟩, ⟨⟨2019, 12, 1⟩, ⟨2019, 12, 31⟩⟩, ⟨⟨2020, 1, 1⟩, ⟨2020, 1, 31⟩⟩,
   ⟨⟨2020, 2, 1⟩, ⟨2020, 2, 29⟩⟩, ⟨⟨2020, 3, 1⟩, ⟨2020, 3, 31⟩⟩, ⟨⟨2020, 4, 1⟩, ⟨2020, 4, 30⟩⟩]

/-- These are the steps the `Scheduler` constructor produces. -/
example : (match Scheduler.make ⟨2019, 11, 1⟩ ⟨2020, 4, 30⟩ .month 1 with | .ok sc => sc.steps | .error _ => []) = steps := by
  decide

theorem tiles : TilesCalendar ⟨2019, 11, 1⟩ ⟨2020, 4, 30⟩ steps = true := by decide

/-- 90 days after 2019-12-15 is 2020-03-14: the count passes 29 February of the leap year 2020
    (89 days after 2018-12-15 would already be 2019-03-14). -/
theorem end_date : iter Date.addDay 90 ⟨2019, 12, 15⟩ = ⟨2020, 3, 14⟩ := by decide +kernel
example : iter Date.addDay 89 ⟨2018, 12, 15⟩ = ⟨2019, 3, 14⟩ := by decide +kernel

/-- The pesticide is registered at step 1 (December) and ends at step 4 (March). -/
theorem registered : addTreatment steps ⟨2019, 12, 15⟩ 90 = .ok ⟨true, 1, 4⟩ := eq_ok_of_yields (by decide +kernel)

example : (∃ st, steps[1]? = some st ∧ st.contains ⟨2019, 12, 15⟩ = true) ∧
    (∃ st, steps[4]? = some st ∧ st.contains (iter Date.addDay 90 ⟨2019, 12, 15⟩) = true) :=
  let h := (C10_registered_at_containing_step ⟨2019, 11, 1⟩ ⟨2020, 4, 30⟩ steps tiles ⟨2019, 12, 15⟩ (by decide) 90).1
    ⟨true, 1, 4⟩ registered
  ⟨h.1, (h.2.2.2 (by decide)).2.1⟩

/-- A simple treatment on 2020-01-10 is registered at step 2; a date before the first step or a
    pesticide whose end lies after the last step is rejected. -/
example : addTreatment steps ⟨2020, 1, 10⟩ 0 = .ok ⟨false, 2, 2⟩ ∧
    addTreatment steps ⟨2019, 10, 31⟩ 0 = .error .invalid_argument ∧
    addTreatment steps ⟨2020, 4, 15⟩ 30 = .error .invalid_argument :=
  ⟨eq_ok_of_yields (by decide +kernel), c10d_eq_error (by decide +kernel), c10d_eq_error (by decide +kernel)⟩

example : addTreatment steps ⟨2019, 10, 31⟩ 0 = .error .invalid_argument :=
  (C10_registered_at_containing_step ⟨2019, 11, 1⟩ ⟨2020, 4, 30⟩ steps tiles ⟨2019, 10, 31⟩ (by decide) 0).2.1 (by decide)

/-- The registered list: the pesticide (coefficients 1/2, 1) and a removal on 2020-01-10. -/
def treats : List Treatment := [(⟨true, 1, 4⟩, .ratio, [1/2, 1]), (⟨false, 2, 2⟩, .ratio, [1, 0])]

def cfg : StepCfg :=
  { soils := false, useLethal := false, lethalSched := [], useSurvival := false, survivalSched := [],
    spreadSched := [false, false, false, false, false, false], useOverpop := false, useMovements := false,
    useTreatments := true, useMortality := false, mortalitySched := [], useSpreadRates := false, rateSched := [],
    useQuarantine := false, quarantineSched := [] }

/-- Inputs of step `k`: only the treatment events matter here; they are those of `treats`. -/
def inputs (k : Nat) : StepInputs :=
  { g := ⟨1, 2⟩, mt := .si, latency := 0, suit := [(0, 0), (0, 1)], lethalThreshold := 0, temperatures := [],
    lethalDraws := [], survivalRates := [], survivalDrawsI := [], survivalDrawsE := [], landings := [],
    stochasticEst := false, pEst := 0, overThreshold := 0, overLeaving := 0, overTargets := [], moves := [],
    treatEvents := eventsAt treats k, mortalityRate := 0, mortalityLag := 0 }

def run : List StepInputs := (List.range 6).map inputs

theorem run_events : ∀ k inp, run[k]? = some inp → inp.treatEvents = eventsAt treats (0 + k) := by
  intro k inp h
  simp only [run, List.getElem?_map] at h
  cases hk : (List.range 6)[k]? with
  | none => rw [hk] at h; cases h
  | some j =>
    rw [hk] at h
    have hj : j = k := (List.getElem?_range (by
      by_cases hlt : k < 6
      · exact hlt
      · rw [List.getElem?_eq_none (by simp; omega)] at hk; cases hk)).symm.trans hk |> Option.some.inj |> Eq.symm
    subst hj
    simp only [Option.map_some, Option.some.injEq] at h
    subst h
    simp only [inputs, Nat.zero_add]

/-- The whole run: pesticide applied in December (step 1), removal in January (step 2), pesticide
    ended in March (step 4); nothing in November, February and April. -/
example : treatTrace treats 0 6 = [(1, 0, false), (2, 1, false), (4, 0, true)] := by decide

example : (treatTrace treats 0 run.length).filter (fun tag => tag.2.1 == 0 && !tag.2.2) = [(1, 0, false)] ∧
    (treatTrace treats 0 run.length).filter (fun tag => tag.2.1 == 0 && tag.2.2) = [(4, 0, true)] :=
  (C10_run_treatments_once cfg treats run 0 (by decide) run_events).2.2 0 (by decide)

/-- A run of January ... March only (first step 2): the pesticide is not applied in it, but it is ended. -/
example : treatTrace treats 2 3 = [(2, 1, false), (4, 0, true)] := by decide

/-- The landscape over the run: 10 susceptible per cell; December: 5 and 10 become resistant;
    January: cell 0 loses its 5 susceptible; March: the resistant hosts are susceptible again. -/
example : runModel cfg run 0 [⟨10, [], 0, 0, 0, [0], 0, 10⟩, ⟨10, [], 0, 0, 0, [0], 0, 10⟩] =
    .ok [⟨5, [], 0, 0, 0, [0], 0, 5⟩, ⟨10, [], 0, 0, 0, [0], 0, 10⟩] := eq_ok_of_yields (by decide +kernel)

example : runModel cfg (run.take 3) 0 [⟨10, [], 0, 0, 0, [0], 0, 10⟩, ⟨10, [], 0, 0, 0, [0], 0, 10⟩] =
    .ok [⟨0, [], 0, 5, 0, [0], 0, 5⟩, ⟨0, [], 0, 10, 0, [0], 0, 10⟩] := eq_ok_of_yields (by decide +kernel)

/-- Cleared after step 1 (computational steering in December): the January removal never runs;
    the pesticide, already started, is still ended in March. -/
example : clearAfter treats 1 = [(⟨true, 1, 4⟩, .ratio, [1/2, 1])] ∧
    treatTrace (clearAfter treats 1) 0 6 = [(1, 0, false), (4, 0, true)] := by decide +kernel

example : ∀ tag ∈ treatTrace (clearAfter treats 1) 0 6, tag.2.2 = false → tag.1 ≤ 1 :=
  (C10_cleared_never_run_over_run treats 1 (by decide)).2.2.2.2.2 0 6

end C10DatesEx

end Pops
