/-
  The draw contracts as CONCLUSIONS.

  `ValidDraw`, `ValidSplit` and `validClassDrawB` are hypotheses of `C16_split_bounded(_to)`,
  `C17_movement_amount`, `C12_lethal`, ... . Here they are proved of the model of the pops helpers
  `draw_n_from_v` / `draw_n_from_cohorts` (utils.hpp) and of the label vectors their callers build
  (Model/Draw.lean), for EVERY permutation `std::shuffle` may leave: the only assumption about the
  generator is `perm.Perm labels` ("shuffle permutes"). The four property theorems are then
  restated with "the draw is `drawNFrom... perm` for some permutation" in place of the contract,
  so that "without exceeding any host's availability" (C16), "drawn without replacement" (C17)
  and "draws clamp to the population" (C02 / utils.hpp) are conclusions.

  Domain. Contents are non-negative (hypotheses `hnn`, `nonNeg`): on a negative content the C++
  calls `vector::insert(pos, (size_type) negative, label)` - a count above `max_size()`, libstdc++
  throws `std::length_error` - while the model's `Int.toNat` inserts nothing. Requests are C++
  `int`s: the bound `< 4294967296` is all that is used of that; a NEGATIVE request is converted to
  `unsigned` by the parameter type of `draw_n_from_v` and therefore takes everything
  (`Draw_negative_request_takes_all`).
-/
import PopsModel.Model.Draw
import PopsModel.Lemmas.Draw
import PopsModel.Props.C12
import PopsModel.Props.C16
import PopsModel.Props.C17
namespace Pops

/-! ### the contracts -/

/-- `draw_n_from_v`: the result is the first min((unsigned) n, size) elements of the shuffled
    vector; no label is drawn more often than it occurs (without replacement); only labels of the
    vector are drawn. -/
theorem Draw_from_v (v : List Nat) (n : Int) (perm : List Nat) (hp : perm.Perm v) :
    ((drawNFromV v n perm).length : Int) = min (toUnsigned n) (v.length : Int) ∧
    (∀ x, (drawNFromV v n perm).count x ≤ v.count x) ∧
    (∀ x ∈ drawNFromV v n perm, x ∈ v) :=
  ⟨draw_drawNFromV_length v n perm hp, draw_drawNFromV_count_le v n perm hp,
   draw_drawNFromV_mem v n perm hp⟩

/-- `draw_n_from_cohorts`, any request: one count per cohort, each between 0 and the cohort's
    content, summing to min((unsigned) n, total) - i.e. `ValidDraw cohorts ((unsigned) n) _`. -/
theorem Draw_cohorts_contract_unsigned (cohorts : List Int) (n : Int) (perm : List Nat)
    (hnn : ∀ x ∈ cohorts, 0 ≤ x) (hp : perm.Perm (cohortLabels cohorts)) :
    ValidDraw cohorts (toUnsigned n) (drawNFromCohorts cohorts n perm) :=
  draw_validDraw_unsigned cohorts n perm hnn hp

/-- `draw_n_from_cohorts`, non-negative request: `ValidDraw cohorts n _`, spelled out: the counts
    sum to min(n, total). -/
theorem Draw_cohorts_contract (cohorts : List Int) (n : Int) (perm : List Nat)
    (hnn : ∀ x ∈ cohorts, 0 ≤ x) (hp : perm.Perm (cohortLabels cohorts))
    (h0 : 0 ≤ n) (h1 : n < 4294967296) :
    ValidDraw cohorts n (drawNFromCohorts cohorts n perm) ∧
    (drawNFromCohorts cohorts n perm).length = cohorts.length ∧
    (∀ k : Nat, k < cohorts.length →
      0 ≤ (drawNFromCohorts cohorts n perm)[k]! ∧ (drawNFromCohorts cohorts n perm)[k]! ≤ cohorts[k]!) ∧
    sumL (drawNFromCohorts cohorts n perm) = min n (sumL cohorts) := by
  have h := draw_validDraw cohorts n perm hnn hp h0 h1
  exact ⟨h, h.1, fun k hk => h.2.1 k (by rw [h.1]; exact hk), h.2.2⟩

/-- A negative request (an `int`, so at least -2^31) is converted to `unsigned`: with a total
    that fits an `int` EVERYTHING is drawn, the counts sum to the total. -/
theorem Draw_negative_request_takes_all (cohorts : List Int) (n : Int) (perm : List Nat)
    (hnn : ∀ x ∈ cohorts, 0 ≤ x) (hp : perm.Perm (cohortLabels cohorts))
    (h0 : n < 0) (h1 : -2147483648 ≤ n) (ht : sumL cohorts ≤ 2147483647) :
    drawNFromCohorts cohorts n perm = cohorts ∧
    sumL (drawNFromCohorts cohorts n perm) = sumL cohorts := by
  have := draw_negative_takes_all cohorts n perm hnn hp h0 h1 ht
  exact ⟨this, by rw [this]⟩

/-- The multi-host split of `pests_from` / `pests_to`: `ValidSplit`, for every permutation. -/
theorem Draw_split_contract (avail : List Int) (count : Int) (perm : List Nat)
    (hnn : ∀ x ∈ avail, 0 ≤ x) (hp : perm.Perm (cohortLabels avail)) :
    ValidSplit avail count (splitOf avail count perm) :=
  draw_validSplit avail count perm hnn hp

/-- The class draw of `move_hosts_from_to`, any request: each class count within its class, the
    sum min((unsigned) total_hosts_moved, i + s + total_exposed + r). -/
theorem Draw_class_contract_unsigned (src : Cell) (count : Int) (perm : List Nat)
    (hi : 0 ≤ src.i) (hs : 0 ≤ src.s) (he : 0 ≤ src.te) (hr : 0 ≤ src.r)
    (hp : perm.Perm (classCategories src)) :
    let d := classDrawOf src count perm
    (0 ≤ d.i ∧ d.i ≤ src.i) ∧ (0 ≤ d.s ∧ d.s ≤ src.s) ∧ (0 ≤ d.e ∧ d.e ≤ src.te) ∧
    (0 ≤ d.r ∧ d.r ≤ src.r) ∧
    d.i + d.s + d.e + d.r = min (toUnsigned (hostsMoved src count)) (src.i + src.s + src.te + src.r) :=
  draw_classDraw_facts src count perm hi hs he hr hp

/-- The class draw of `move_hosts_from_to` satisfies `validClassDrawB` whenever the number of
    hosts to move (min(count, total_hosts)) is a non-negative `int`. -/
theorem Draw_class_contract (src : Cell) (count : Int) (perm : List Nat)
    (hi : 0 ≤ src.i) (hs : 0 ≤ src.s) (he : 0 ≤ src.te) (hr : 0 ≤ src.r)
    (hp : perm.Perm (classCategories src))
    (h0 : 0 ≤ hostsMoved src count) (h1 : hostsMoved src count < 4294967296) :
    validClassDrawB src count (classDrawOf src count perm) = true :=
  draw_validClassDrawB src count perm hi hs he hr hp h0 h1

/-! ### instances -/

/-- Cohorts `[3, 0, 4]` (labels `0 0 0 2 2 2 2`), 5 requested, the shuffle leaves
    `2 0 2 2 0 2 0`: the first five labels are `2 0 2 2 0`, the counts `[2, 0, 3]`. -/
example :
    cohortLabels [3, 0, 4] = [0, 0, 0, 2, 2, 2, 2] ∧
    [2, 0, 2, 2, 0, 2, 0].Perm (cohortLabels [3, 0, 4]) ∧
    drawNFromV (cohortLabels [3, 0, 4]) 5 [2, 0, 2, 2, 0, 2, 0] = [2, 0, 2, 2, 0] ∧
    drawNFromCohorts [3, 0, 4] 5 [2, 0, 2, 2, 0, 2, 0] = [2, 0, 3] ∧
    ValidDraw [3, 0, 4] 5 [2, 0, 3] := by
  have hp : [2, 0, 2, 2, 0, 2, 0].Perm (cohortLabels [3, 0, 4]) := by decide
  refine ⟨by decide, hp, by decide, by decide, ?_⟩
  have := (Draw_cohorts_contract [3, 0, 4] 5 [2, 0, 2, 2, 0, 2, 0] (by decide) hp (by decide) (by decide)).1
  have e : drawNFromCohorts [3, 0, 4] 5 [2, 0, 2, 2, 0, 2, 0] = [2, 0, 3] := by decide
  rwa [e] at this

/-- The same cohorts, 9 requested (more than the 7 present): clamped, everything is drawn; and a
    request of -1: `(unsigned) -1 = 4294967295`, everything is drawn as well. -/
example :
    drawNFromCohorts [3, 0, 4] 9 [2, 0, 2, 2, 0, 2, 0] = [3, 0, 4] ∧
    toUnsigned (-1) = 4294967295 ∧
    drawNFromCohorts [3, 0, 4] (-1) [2, 0, 2, 2, 0, 2, 0] = [3, 0, 4] := by
  have hp : [2, 0, 2, 2, 0, 2, 0].Perm (cohortLabels [3, 0, 4]) := by decide
  exact ⟨by decide, by decide,
    (Draw_negative_request_takes_all [3, 0, 4] (-1) _ (by decide) hp (by decide) (by decide) (by decide)).1⟩

/-! ### C16 with the split drawn -/

/-- `C16_split_bounded` with the contract replaced by the draw: hosts with non-negative infected
    counts, ANY permutation of the host-label vector. The per-host amounts never exceed a host's
    infected (fourth conjunct) - a conclusion now. -/
theorem C16_split_bounded_drawn (cells : List Cell) (count : Int) (perm : List Nat)
    (hc : count < 4294967296) (hnn : ∀ c ∈ cells, 0 ≤ c.i)
    (hp : perm.Perm (cohortLabels (cells.map (·.i)))) :
    let d := splitOf (cells.map (·.i)) count perm
    ValidSplit (cells.map (·.i)) count d ∧
    (multiPestsFrom cells d).2 = sumL d ∧
    (multiPestsFrom cells d).2 = min (toUnsigned count) (sumL (cells.map (·.i))) ∧
    (0 ≤ count → (multiPestsFrom cells d).2 ≤ count ∧ (multiPestsFrom cells d).2 = min count (sumL (cells.map (·.i)))) ∧
    ListRel (fun c k => 0 ≤ k ∧ k ≤ c.i) cells d ∧
    pestsFromStateSpec cells (multiPestsFrom cells d).1 d = true ∧
    splitSpec (cells.map (·.i)) count d (multiPestsFrom cells d).2 = true := by
  intro d
  have hv : ValidSplit (cells.map (·.i)) count d := by
    apply Draw_split_contract _ _ _ _ hp
    intro x hx
    obtain ⟨c, hc', rfl⟩ := List.mem_map.mp hx
    exact hnn c hc'
  exact ⟨hv, C16_split_bounded cells count d hc hv⟩

/-- `C16_split_bounded_to` with the contract replaced by the draw (susceptible hosts). -/
theorem C16_split_bounded_to_drawn (cells : List Cell) (count : Int) (perm : List Nat)
    (hc : count < 4294967296) (hnn : ∀ c ∈ cells, 0 ≤ c.s)
    (hp : perm.Perm (cohortLabels (cells.map (·.s)))) :
    let d := splitOf (cells.map (·.s)) count perm
    ValidSplit (cells.map (·.s)) count d ∧
    (multiPestsTo cells d).2 = sumL d ∧
    (multiPestsTo cells d).2 = min (toUnsigned count) (sumL (cells.map (·.s))) ∧
    (0 ≤ count → (multiPestsTo cells d).2 ≤ count ∧ (multiPestsTo cells d).2 = min count (sumL (cells.map (·.s)))) ∧
    ListRel (fun c k => 0 ≤ k ∧ k ≤ c.s) cells d ∧
    pestsToStateSpec cells (multiPestsTo cells d).1 d = true ∧
    splitSpec (cells.map (·.s)) count d (multiPestsTo cells d).2 = true := by
  intro d
  have hv : ValidSplit (cells.map (·.s)) count d := by
    apply Draw_split_contract _ _ _ _ hp
    intro x hx
    obtain ⟨c, hc', rfl⟩ := List.mem_map.mp hx
    exact hnn c hc'
  exact ⟨hv, C16_split_bounded_to cells count d hc hv⟩

/-- Two hosts with 2 and 3 infected (and 3 and 2 susceptible), 4 requested. Host labels
    `0 0 1 1 1` shuffled to `1 0 1 1 0`: the first four give the split `[1, 3]`. -/
example :
    let cA : Cell := ⟨3, [], 2, 0, 0, [2], 0, 5⟩
    let cB : Cell := ⟨2, [], 3, 0, 0, [3], 0, 5⟩
    [1, 0, 1, 1, 0].Perm (cohortLabels ([cA, cB].map (·.i))) ∧
    splitOf ([cA, cB].map (·.i)) 4 [1, 0, 1, 1, 0] = [1, 3] ∧
    (multiPestsFrom [cA, cB] (splitOf ([cA, cB].map (·.i)) 4 [1, 0, 1, 1, 0])).2 = 4 ∧
    [0, 1, 0, 1, 0].Perm (cohortLabels ([cA, cB].map (·.s))) ∧
    splitOf ([cA, cB].map (·.s)) 4 [0, 1, 0, 1, 0] = [2, 2] := by
  intro cA cB
  have hp : [1, 0, 1, 1, 0].Perm (cohortLabels ([cA, cB].map (·.i))) := by decide
  have hq : [0, 1, 0, 1, 0].Perm (cohortLabels ([cA, cB].map (·.s))) := by decide
  have h := C16_split_bounded_drawn [cA, cB] 4 [1, 0, 1, 1, 0] (by decide) (by decide) hp
  have _ := C16_split_bounded_to_drawn [cA, cB] 4 [0, 1, 0, 1, 0] (by decide) (by decide) hq
  refine ⟨hp, by decide, ?_, hq, by decide⟩
  rw [h.2.2.1]; decide

/-! ### C17 with the three draws of host movement drawn -/

/-- `C17_movement_amount` with the three contracts replaced by the draws: a non-negative,
    consistent source cell, a non-negative request, ANY permutations (the cohort shuffles happen
    only when exposed / infected hosts move). The class draw is valid and the cohort draws are
    `ValidDraw`s - "without replacement" is a conclusion - and the amounts follow. -/
theorem C17_movement_amount_drawn (src dst : Cell) (count : Int) (permC permE permM : List Nat)
    (hn : src.nonNeg = true) (ht : src.totalsOK = true)
    (h0 : 0 ≤ count) (hc : count < 4294967296)
    (hpC : permC.Perm (classCategories src))
    (hpE : (classDrawOf src count permC).e > 0 → permE.Perm (cohortLabels src.e))
    (hpM : (classDrawOf src count permC).i > 0 → permM.Perm (cohortLabels src.mort))
    (hlenE : dst.e.length = src.e.length) (hlenM : dst.mort.length = src.mort.length) :
    let d := classDrawOf src count permC
    let r := moveHostsDrawn src dst count permC permE permM
    validClassDrawB src count d = true ∧
    (d.e > 0 → ValidDraw src.e d.e (drawNFromCohorts src.e d.e permE)) ∧
    (d.i > 0 → ValidDraw src.mort d.i (drawNFromCohorts src.mort d.i permM)) ∧
    r.2.2 = min count src.hosts ∧ src.hosts - r.1.hosts = min count src.hosts ∧
    r.2.1.hosts - dst.hosts = min count src.hosts ∧
    addL r.1.e r.2.1.e = addL src.e dst.e ∧ addL r.1.mort r.2.1.mort = addL src.mort dst.mort := by
  intro d r
  obtain ⟨hs, hen, hi, hr, hte, hmn, _, hth⟩ := (mech_nonNeg_iff src).mp hn
  have hm0 : 0 ≤ hostsMoved src count := by unfold hostsMoved; split <;> omega
  have hm1 : hostsMoved src count ≤ count := by unfold hostsMoved; split <;> omega
  obtain ⟨a, b, c, e, hsum⟩ := Draw_class_contract_unsigned src count permC hi hs hte hr hpC
  rw [draw_toUnsigned_of_range _ hm0 (by omega)] at hsum
  have hd : validClassDrawB src count d = true :=
    Draw_class_contract src count permC hi hs hte hr hpC hm0 (by omega)
  have hE : d.e > 0 → ValidDraw src.e d.e (drawNFromCohorts src.e d.e permE) := fun h =>
    (Draw_cohorts_contract src.e d.e permE hen (hpE h) (by omega)
      (by show (classDrawOf src count permC).e < _; omega)).1
  have hM : d.i > 0 → ValidDraw src.mort d.i (drawNFromCohorts src.mort d.i permM) := fun h =>
    (Draw_cohorts_contract src.mort d.i permM hmn (hpM h) (by omega)
      (by show (classDrawOf src count permC).i < _; omega)).1
  exact ⟨hd, hE, hM, C17_movement_amount src dst count d _ _ hn ht hd hE hM hlenE hlenM⟩

/-- A source cell with 3 susceptible, exposed cohorts `[1, 2]`, 2 infected in cohorts `[1, 1]`,
    1 resistant; 4 hosts requested. Categories `1 1 2 2 2 3 3 3 4` shuffled to
    `3 1 2 3 4 1 2 2 3`: the class draw is 1 infected, 1 susceptible, 2 exposed; the exposed draw
    (labels `0 1 1` shuffled to `1 0 1`) is `[1, 1]`, the mortality draw (`0 1` to `1 0`) `[0, 1]`. -/
example :
    let src : Cell := ⟨3, [1, 2], 2, 1, 3, [1, 1], 0, 9⟩
    let dst : Cell := ⟨1, [0, 0], 0, 0, 0, [0, 0], 0, 1⟩
    classDrawOf src 4 [3, 1, 2, 3, 4, 1, 2, 2, 3] = ⟨1, 1, 2, 0⟩ ∧
    drawNFromCohorts src.e 2 [1, 0, 1] = [1, 1] ∧ drawNFromCohorts src.mort 1 [1, 0] = [0, 1] ∧
    (moveHostsDrawn src dst 4 [3, 1, 2, 3, 4, 1, 2, 2, 3] [1, 0, 1] [1, 0]).2.2 = 4 ∧
    (moveHostsDrawn src dst 4 [3, 1, 2, 3, 4, 1, 2, 2, 3] [1, 0, 1] [1, 0]).1 =
      ⟨2, [0, 1], 1, 1, 1, [1, 0], 0, 5⟩ := by
  intro src dst
  have h := C17_movement_amount_drawn src dst 4 [3, 1, 2, 3, 4, 1, 2, 2, 3] [1, 0, 1] [1, 0]
    (by decide) (by decide) (by decide) (by decide) (by decide) (fun _ => by decide)
    (fun _ => by decide) rfl rfl
  have hh : src.hosts = 9 := by decide
  refine ⟨by decide, by decide, by decide, ?_, by decide⟩
  rw [h.2.2.2.1, hh]; decide

/-! ### C12 lethal temperature with the draw drawn -/

/-- `C12_lethal` with the contract replaced by the draw: `remove_all_infected_at` requests all
    `i` infected, so for ANY permutation the draw is a `ValidDraw` - in fact it is the whole of
    every cohort - and the conclusion of `C12_lethal` follows. (`i < 2^32`: `i` is an `int`.) -/
theorem C12_lethal_drawn (c : Cell) (perm : List Nat) (hn : c.nonNeg = true)
    (hm : c.mortOK = true) (hi : c.i < 4294967296) (hp : perm.Perm (cohortLabels c.mort)) :
    let d := drawNFromCohorts c.mort c.i perm
    ValidDraw c.mort c.i d ∧ d = c.mort ∧
    lethalSpec true c (c.removeAllInfected d) = true ∧ (c.removeAllInfected d).mortOK = true ∧
    (∀ x ∈ (c.removeAllInfected d).mort, x = 0) := by
  intro d
  obtain ⟨_, _, hi0, _, _, hmn, _, _⟩ := (mech_nonNeg_iff c).mp hn
  have hd : ValidDraw c.mort c.i d := (Draw_cohorts_contract c.mort c.i perm hmn hp hi0 hi).1
  have hm' := (mech_mortOK_iff c).mp hm
  have heq : d = c.mort := draw_eq_of_le_of_sum d c.mort hd.1 hd.2.1 (by rw [hd.2.2]; omega)
  exact ⟨hd, heq, C12_lethal c d hn hm hd⟩

/-- Mortality cohorts `[3, 0, 4]`, `i = 7`, any shuffle (here `2 0 2 2 0 2 0`): the lethal draw
    is `[3, 0, 4]`, the cohorts are emptied, the 7 infected return to susceptible. -/
example :
    let c : Cell := ⟨5, [], 7, 0, 0, [3, 0, 4], 0, 12⟩
    drawNFromCohorts c.mort c.i [2, 0, 2, 2, 0, 2, 0] = [3, 0, 4] ∧
    c.removeAllInfected (drawNFromCohorts c.mort c.i [2, 0, 2, 2, 0, 2, 0]) =
      ⟨12, [], 0, 0, 0, [0, 0, 0], 0, 12⟩ := by
  intro c
  have h := C12_lethal_drawn c [2, 0, 2, 2, 0, 2, 0] (by decide) (by decide) (by decide) (by decide)
  refine ⟨h.2.1, ?_⟩
  rw [h.2.1]; decide

end Pops
