/-
  C19  Raster arithmetic is element-wise and value-semantic for every shape.
  Property theorems only; helper lemmas are in PopsModel/Lemmas/Raster{,Heap,Frame,Effects}.lean.

  Part A (values): every operator of raster.hpp, for every operand kind, is the cell-wise
  operation on cells with the same (row, col); integer rasters stay integer (truncation toward
  zero of the exact result, the compound form agreeing with the binary one); different shapes are
  rejected with `invalid_argument` by the binary and the compound raster forms; `==` holds exactly
  for equal shape and equal cells, `!=` is its negation.
  Part B (storage): for *every* sequence of operations of the heap machine that respects the
  caller's contract (`Heap.inScope`), from any state satisfying the invariant (in particular from
  the initial state): no fault of any kind; copies are independent; moves transfer the buffer;
  wrappers write through and never free; operands of the arithmetic operators are unchanged.
-/
import PopsModel.Lemmas.Raster
import PopsModel.Lemmas.RasterEffects
import PopsModel.Model.RasterF31
namespace Pops
open Heap

/-! ## Part A: values -/

/-- `raster op scalar` for the four type combinations: shape kept, cell `(i, j)` of the result
    is `a(i, j) op v` with the C++ conversions. -/
theorem C19_elementwise_raster_scalar (o : BinOp) :
    (∀ (a : Raster Int) (v : Int), a.WF → ElemMapOK (fun x => o.int x v) a (a.rsII o v) = true) ∧
    (∀ (a : Raster Int) (v : Rat), a.WF → ElemMapOK (fun x => d2i (o.dbl (i2d x) v)) a (a.rsID o v) = true) ∧
    (∀ (a : Raster Rat) (v : Int), a.WF → ElemMapOK (fun x => o.dbl x (i2d v)) a (a.rsDI o v) = true) ∧
    (∀ (a : Raster Rat) (v : Rat), a.WF → ElemMapOK (fun x => o.dbl x v) a (a.rsDD o v) = true) :=
  ⟨fun a v hw => elemMapOK_map (cRS_II o v) a hw, fun a v hw => elemMapOK_map (cRS_ID o v) a hw,
   fun a v hw => elemMapOK_map (cRS_DI o v) a hw, fun a v hw => elemMapOK_map (cRS_DD o v) a hw⟩

/-- `scalar op raster`: cell `(i, j)` is `v op a(i, j)` (operand order matters for `-` and `/`). -/
theorem C19_elementwise_scalar_raster (a : Raster Int) (d : Raster Rat) (v : Int) (w : Rat)
    (ha : a.WF) (hd : d.WF) :
    ElemMapOK (fun x => x + v) a (Raster.srII .add v a) = true ∧
    ElemMapOK (fun x => v - x) a (Raster.srII .sub v a) = true ∧
    ElemMapOK (fun x => x * v) a (Raster.srII .mul v a) = true ∧
    ElemMapOK (fun x => Int.tdiv v x) a (Raster.srII .div v a) = true ∧
    ElemMapOK (fun x => d2i (i2d x + w)) a (Raster.srID .add w a) = true ∧
    ElemMapOK (fun x => d2i (w - i2d x)) a (Raster.srID .sub w a) = true ∧
    ElemMapOK (fun x => d2i (i2d x * w)) a (Raster.srID .mul w a) = true ∧
    ElemMapOK (fun x => d2i (w / i2d x)) a (Raster.srID .div w a) = true ∧
    ElemMapOK (fun x => x + i2d v) d (Raster.srDI .add v d) = true ∧
    ElemMapOK (fun x => i2d v - x) d (Raster.srDI .sub v d) = true ∧
    ElemMapOK (fun x => x * i2d v) d (Raster.srDI .mul v d) = true ∧
    ElemMapOK (fun x => i2d v / x) d (Raster.srDI .div v d) = true ∧
    ElemMapOK (fun x => x + w) d (Raster.srDD .add w d) = true ∧
    ElemMapOK (fun x => w - x) d (Raster.srDD .sub w d) = true ∧
    ElemMapOK (fun x => x * w) d (Raster.srDD .mul w d) = true ∧
    ElemMapOK (fun x => w / x) d (Raster.srDD .div w d) = true :=
  ⟨elemMapOK_map (cSR_II .add v) a ha, elemMapOK_map (cSR_II .sub v) a ha,
   elemMapOK_map (cSR_II .mul v) a ha, elemMapOK_map (cSR_II .div v) a ha,
   elemMapOK_map (cSR_ID .add w) a ha, elemMapOK_map (cSR_ID .sub w) a ha,
   elemMapOK_map (cSR_ID .mul w) a ha, elemMapOK_map (cSR_ID .div w) a ha,
   elemMapOK_map (cSR_DI .add v) d hd, elemMapOK_map (cSR_DI .sub v) d hd,
   elemMapOK_map (cSR_DI .mul v) d hd, elemMapOK_map (cSR_DI .div v) d hd,
   elemMapOK_map (cSR_DD .add w) d hd, elemMapOK_map (cSR_DD .sub w) d hd,
   elemMapOK_map (cSR_DD .mul w) d hd, elemMapOK_map (cSR_DD .div w) d hd⟩

/-- The same in the property's own words: each cell of `scalar op a` is `v op a(i, j)` for every
    operator (the header computes `+` and `*` as `a(i, j) op v`; they commute). -/
theorem C19_elementwise_scalar_raster_spec (o : BinOp) :
    (∀ (a : Raster Int) (v : Int), a.WF → ElemMapOK (specSR_II o v) a (Raster.srII o v a) = true) ∧
    (∀ (a : Raster Int) (v : Rat), a.WF → ElemMapOK (specSR_ID o v) a (Raster.srID o v a) = true) ∧
    (∀ (a : Raster Rat) (v : Int), a.WF → ElemMapOK (specSR_DI o v) a (Raster.srDI o v a) = true) ∧
    (∀ (a : Raster Rat) (v : Rat), a.WF → ElemMapOK (specSR_DD o v) a (Raster.srDD o v a) = true) :=
  ⟨fun a v hw => by rw [elemMapOK_congr (specSR_II_eq o v)]; exact elemMapOK_map _ a hw,
   fun a v hw => by rw [elemMapOK_congr (specSR_ID_eq o v)]; exact elemMapOK_map _ a hw,
   fun a v hw => by rw [elemMapOK_congr (specSR_DI_eq o v)]; exact elemMapOK_map _ a hw,
   fun a v hw => by rw [elemMapOK_congr (specSR_DD_eq o v)]; exact elemMapOK_map _ a hw⟩

/-- `raster op raster` for the four type combinations (result of the common type): whenever the
    operator returns, cell `(i, j)` of the result is `a(i, j) op b(i, j)`. -/
theorem C19_elementwise_raster_raster (o : BinOp) :
    (∀ (a b r : Raster Int), a.WF → b.WF → a.rrII o b = .ok r → ElemZipOK o.int a b r = true) ∧
    (∀ (a : Raster Int) (b r : Raster Rat), a.WF → b.WF → a.rrID o b = .ok r →
      ElemZipOK (fun x y => o.dbl (i2d x) y) a b r = true) ∧
    (∀ (a : Raster Rat) (b : Raster Int) (r : Raster Rat), a.WF → b.WF → a.rrDI o b = .ok r →
      ElemZipOK (fun x y => o.dbl x (i2d y)) a b r = true) ∧
    (∀ (a b r : Raster Rat), a.WF → b.WF → a.rrDD o b = .ok r → ElemZipOK o.dbl a b r = true) :=
  ⟨fun a b r h1 h2 h => elemZipOK_zip (cRR_II o) a b r h1 h2 h,
   fun a b r h1 h2 h => elemZipOK_zip (cRR_ID o) a b r h1 h2 h,
   fun a b r h1 h2 h => elemZipOK_zip (cRR_DI o) a b r h1 h2 h,
   fun a b r h1 h2 h => elemZipOK_zip (cRR_DD o) a b r h1 h2 h⟩

/-- Compound `raster op= scalar`: the new left operand is cell-wise `a(i, j) op v`. -/
theorem C19_elementwise_compound_scalar (o : BinOp) :
    (∀ (a : Raster Int) (v : Int), a.WF → ElemMapOK (fun x => o.int x v) a (a.asII o v) = true) ∧
    (∀ (a : Raster Int) (v : Rat), a.WF → ElemMapOK (fun x => d2i (o.dbl (i2d x) v)) a (a.asID o v) = true) ∧
    (∀ (a : Raster Rat) (v : Int), a.WF → ElemMapOK (fun x => o.dbl x (i2d v)) a (a.asDI o v) = true) ∧
    (∀ (a : Raster Rat) (v : Rat), a.WF → ElemMapOK (fun x => o.dbl x v) a (a.asDD o v) = true) :=
  ⟨fun a v hw => elemMapOK_map (cAS_II o v) a hw, fun a v hw => elemMapOK_map (cAS_ID o v) a hw,
   fun a v hw => elemMapOK_map (cAS_DI o v) a hw, fun a v hw => elemMapOK_map (cAS_DD o v) a hw⟩

/-- Compound `raster op= raster` (left type floating or both the same): whenever it returns,
    the new left operand is cell-wise `a(i, j) op b(i, j)`. -/
theorem C19_elementwise_compound_raster (o : BinOp) :
    (∀ (a b r : Raster Int), a.WF → b.WF → a.arII o b = .ok r → ElemZipOK o.int a b r = true) ∧
    (∀ (a : Raster Rat) (b : Raster Int) (r : Raster Rat), a.WF → b.WF → a.arDI o b = .ok r →
      ElemZipOK (fun x y => o.dbl x (i2d y)) a b r = true) ∧
    (∀ (a b r : Raster Rat), a.WF → b.WF → a.arDD o b = .ok r → ElemZipOK o.dbl a b r = true) :=
  ⟨fun a b r h1 h2 h => elemZipOK_zipAssign (cAR_II o) a b r h1 h2 h,
   fun a b r h1 h2 h => elemZipOK_zipAssign (cAR_DI o) a b r h1 h2 h,
   fun a b r h1 h2 h => elemZipOK_zipAssign (cAR_DD o) a b r h1 h2 h⟩

/-- All operator families together (the name used in DESIGN.md). -/
theorem C19_elementwise (o : BinOp) :
    ((∀ (a : Raster Int) (v : Int), a.WF → ElemMapOK (fun x => o.int x v) a (a.rsII o v) = true) ∧
     (∀ (a : Raster Int) (v : Rat), a.WF → ElemMapOK (fun x => d2i (o.dbl (i2d x) v)) a (a.rsID o v) = true) ∧
     (∀ (a : Raster Rat) (v : Int), a.WF → ElemMapOK (fun x => o.dbl x (i2d v)) a (a.rsDI o v) = true) ∧
     (∀ (a : Raster Rat) (v : Rat), a.WF → ElemMapOK (fun x => o.dbl x v) a (a.rsDD o v) = true)) ∧
    ((∀ (a : Raster Int) (v : Int), a.WF → ElemMapOK (specSR_II o v) a (Raster.srII o v a) = true) ∧
     (∀ (a : Raster Int) (v : Rat), a.WF → ElemMapOK (specSR_ID o v) a (Raster.srID o v a) = true) ∧
     (∀ (a : Raster Rat) (v : Int), a.WF → ElemMapOK (specSR_DI o v) a (Raster.srDI o v a) = true) ∧
     (∀ (a : Raster Rat) (v : Rat), a.WF → ElemMapOK (specSR_DD o v) a (Raster.srDD o v a) = true)) ∧
    ((∀ (a b r : Raster Int), a.WF → b.WF → a.rrII o b = .ok r → ElemZipOK o.int a b r = true) ∧
     (∀ (a : Raster Int) (b r : Raster Rat), a.WF → b.WF → a.rrID o b = .ok r →
       ElemZipOK (fun x y => o.dbl (i2d x) y) a b r = true) ∧
     (∀ (a : Raster Rat) (b : Raster Int) (r : Raster Rat), a.WF → b.WF → a.rrDI o b = .ok r →
       ElemZipOK (fun x y => o.dbl x (i2d y)) a b r = true) ∧
     (∀ (a b r : Raster Rat), a.WF → b.WF → a.rrDD o b = .ok r → ElemZipOK o.dbl a b r = true)) ∧
    ((∀ (a : Raster Int) (v : Int), a.WF → ElemMapOK (fun x => o.int x v) a (a.asII o v) = true) ∧
     (∀ (a : Raster Int) (v : Rat), a.WF → ElemMapOK (fun x => d2i (o.dbl (i2d x) v)) a (a.asID o v) = true) ∧
     (∀ (a : Raster Rat) (v : Int), a.WF → ElemMapOK (fun x => o.dbl x (i2d v)) a (a.asDI o v) = true) ∧
     (∀ (a : Raster Rat) (v : Rat), a.WF → ElemMapOK (fun x => o.dbl x v) a (a.asDD o v) = true)) ∧
    ((∀ (a b r : Raster Int), a.WF → b.WF → a.arII o b = .ok r → ElemZipOK o.int a b r = true) ∧
     (∀ (a : Raster Rat) (b : Raster Int) (r : Raster Rat), a.WF → b.WF → a.arDI o b = .ok r →
       ElemZipOK (fun x y => o.dbl x (i2d y)) a b r = true) ∧
     (∀ (a b r : Raster Rat), a.WF → b.WF → a.arDD o b = .ok r → ElemZipOK o.dbl a b r = true)) :=
  ⟨C19_elementwise_raster_scalar o, C19_elementwise_scalar_raster_spec o, C19_elementwise_raster_raster o,
   C19_elementwise_compound_scalar o, C19_elementwise_compound_raster o⟩

/-- The predicate is the coordinate-wise statement: it forces the shape and every cell. -/
theorem C19_elementwise_meaning {α β : Type} [DecidableEq β] (f : α → β) (a : Raster α) (r : Raster β)
    (h : ElemMapOK f a r = true) :
    r.rows = a.rows ∧ r.cols = a.cols ∧ r.WF ∧
    ∀ i j, i < a.rows → j < a.cols → r.at? i j = (a.at? i j).map f := by
  simp only [ElemMapOK, Bool.and_eq_true, beq_iff_eq, all_range_true] at h
  exact ⟨h.1.1.1, h.1.1.2, h.1.2, fun i j hi hj => h.2 i hi j hj⟩

example : ElemMapOK (fun x => d2i (BinOp.mul.dbl (i2d x) (1/2))) (⟨3, 1, [5, -5, 4]⟩ : Raster Int)
    ((⟨3, 1, [5, -5, 4]⟩ : Raster Int).asID .mul (1/2)) = true :=
  (C19_elementwise_compound_scalar .mul).2.1 ⟨3, 1, [5, -5, 4]⟩ (1/2) (by decide)

example : ElemZipOK BinOp.div.int (⟨2, 3, [7, -7, 9, 1, 0, 5]⟩ : Raster Int) ⟨2, 3, [2, 2, -3, 1, 4, 5]⟩
    ⟨2, 3, [3, -3, -3, 1, 0, 1]⟩ = true := by decide

/-- Integer rasters stay integer under scalar operations: with a floating scalar each cell is the
    exact result truncated toward zero (equal to it when it is an integer), and the compound form
    gives the same raster as the binary form. -/
theorem C19_int_stays_int (o : BinOp) (a : Raster Int) (v : Rat) :
    a.asID o v = a.rsID o v ∧
    (∀ x : Int, cRS_ID o v x = d2i (o.dbl (i2d x) v)) ∧
    (∀ q : Rat, (0 ≤ q → 0 ≤ d2i q ∧ (d2i q : Rat) ≤ q ∧ q < ((d2i q + 1 : Int) : Rat)) ∧
               (q < 0 → d2i q ≤ 0 ∧ q ≤ (d2i q : Rat) ∧ (d2i q : Rat) < q + 1)) ∧
    (∀ n : Int, d2i (i2d n) = n) :=
  ⟨rfl, fun _ => rfl, fun _ => ⟨d2i_nonneg, d2i_neg⟩, d2i_i2d⟩

/-- Binary and compound raster-raster operators reject operands of different shape with
    `invalid_argument` (for any cell function, hence every operator and type combination), and
    accept equal shapes. -/
theorem C19_shape_mismatch_rejected {α β γ : Type} (f : α → β → γ) (g : α → β → α)
    (a : Raster α) (b : Raster β) :
    ((a.rows ≠ b.rows ∨ a.cols ≠ b.cols) →
      Raster.zip f a b = .error .invalid_argument ∧ Raster.zipAssign g a b = .error .invalid_argument) ∧
    ((a.rows = b.rows ∧ a.cols = b.cols) →
      (∃ r, Raster.zip f a b = .ok r ∧ r.rows = a.rows ∧ r.cols = a.cols) ∧
      (∃ r, Raster.zipAssign g a b = .ok r ∧ r.rows = a.rows ∧ r.cols = a.cols)) := by
  constructor
  · intro h
    have : a.cols ≠ b.cols ∨ a.rows ≠ b.rows := by omega
    simp only [Raster.zip, Raster.zipAssign, if_pos this, and_self]
  · intro h
    have : ¬ (a.cols ≠ b.cols ∨ a.rows ≠ b.rows) := by omega
    simp only [Raster.zip, Raster.zipAssign, if_neg this]
    exact ⟨⟨_, rfl, rfl, rfl⟩, ⟨_, rfl, rfl, rfl⟩⟩

/-- Instances: the sixteen binary and twelve compound operators are `zip` / `zipAssign`. -/
theorem C19_shape_mismatch_rejected_ops (o : BinOp) (a : Raster Int) (b : Raster Int) (c : Raster Rat) (d : Raster Rat)
    (hab : a.rows ≠ b.rows ∨ a.cols ≠ b.cols) (hac : a.rows ≠ c.rows ∨ a.cols ≠ c.cols)
    (hca : c.rows ≠ a.rows ∨ c.cols ≠ a.cols) (hcd : c.rows ≠ d.rows ∨ c.cols ≠ d.cols) :
    a.rrII o b = .error .invalid_argument ∧ a.rrID o c = .error .invalid_argument ∧
    c.rrDI o a = .error .invalid_argument ∧ c.rrDD o d = .error .invalid_argument ∧
    a.arII o b = .error .invalid_argument ∧ c.arDI o a = .error .invalid_argument ∧
    c.arDD o d = .error .invalid_argument :=
  ⟨((C19_shape_mismatch_rejected (cRR_II o) (cAR_II o) a b).1 hab).1,
   ((C19_shape_mismatch_rejected (cRR_ID o) (fun x _ => x) a c).1 hac).1,
   ((C19_shape_mismatch_rejected (cRR_DI o) (cAR_DI o) c a).1 hca).1,
   ((C19_shape_mismatch_rejected (cRR_DD o) (cAR_DD o) c d).1 hcd).1,
   ((C19_shape_mismatch_rejected (cRR_II o) (cAR_II o) a b).1 hab).2,
   ((C19_shape_mismatch_rejected (cRR_DI o) (cAR_DI o) c a).1 hca).2,
   ((C19_shape_mismatch_rejected (cRR_DD o) (cAR_DD o) c d).1 hcd).2⟩

example : (⟨1, 3, [1, 2, 3]⟩ : Raster Int).rrII .add ⟨3, 1, [1, 2, 3]⟩ = .error .invalid_argument ∧
    (⟨2, 3, [1, 2, 3, 4, 5, 6]⟩ : Raster Int).arII .add ⟨3, 2, [1, 2, 3, 4, 5, 6]⟩ = .error .invalid_argument :=
  ⟨rfl, rfl⟩

/-- Two rasters compare equal exactly when their shapes and all their cells agree (any `rows`,
    `cols`, also `rows ≠ cols`), and `!=` is the negation of `==`. -/
theorem C19_eq_iff {α : Type} [DecidableEq α] (a b : Raster α) (ha : a.WF) (hb : b.WF) :
    (a.eqOp b = true ↔ (a.rows = b.rows ∧ a.cols = b.cols ∧ a.cells = b.cells)) ∧
    a.neOp b = !a.eqOp b :=
  ⟨eqOp_iff a b ha hb, neOp_eq_not_eqOp a b⟩

example : (⟨3, 1, [1, 2, 3]⟩ : Raster Int).eqOp ⟨3, 1, [1, 2, 4]⟩ = false ∧
    (⟨3, 1, [1, 2, 3]⟩ : Raster Int).eqOp ⟨1, 3, [1, 2, 3]⟩ = false ∧
    (⟨1, 3, [1, 2, 3]⟩ : Raster Int).neOp ⟨1, 3, [1, 2, 3]⟩ = false := by decide

/-- Consequence for callers that use `==` as an equivalence (e.g. to detect a fixed point of a
    run): on well-formed rasters `==` is reflexive, symmetric and transitive, for every shape. -/
theorem C19_eq_equivalence {α : Type} [DecidableEq α] (a b c : Raster α) (ha : a.WF) (hb : b.WF) (hc : c.WF) :
    a.eqOp a = true ∧ (a.eqOp b = true → b.eqOp a = true) ∧
    (a.eqOp b = true → b.eqOp c = true → a.eqOp c = true) := by
  refine ⟨(eqOp_iff a a ha ha).mpr ⟨rfl, rfl, rfl⟩, fun h => ?_, fun h1 h2 => ?_⟩
  · obtain ⟨h1, h2, h3⟩ := (eqOp_iff a b ha hb).mp h
    exact (eqOp_iff b a hb ha).mpr ⟨h1.symm, h2.symm, h3.symm⟩
  · obtain ⟨p1, p2, p3⟩ := (eqOp_iff a b ha hb).mp h1
    obtain ⟨q1, q2, q3⟩ := (eqOp_iff b c hb hc).mp h2
    exact (eqOp_iff a c ha hc).mpr ⟨p1.trans q1, p2.trans q2, p3.trans q3⟩

/-! ## Part B: storage, over every sequence of operations -/

/-- No run from the initial state (any caller arrays, any operation list) ends in a fault other
    than a breach of the caller's contract, and a completed run ends in an invariant state. -/
theorem C19_heap_safe {α : Type} (exts : List (List α)) (ops : List (HOp α)) :
    (∃ h', (Heap.init exts).run ops = .ok h' ∧ Inv h') ∨ (Heap.init exts).run ops = .error .illScoped :=
  run_ok (inv_init exts) ops

/-- The same from any invariant state. -/
theorem C19_heap_safe_from {α : Type} (h : Heap α) (hi : Inv h) (ops : List (HOp α)) :
    (∃ h', h.run ops = .ok h' ∧ Inv h') ∨ h.run ops = .error .illScoped :=
  run_ok hi ops

theorem C19_no_double_free {α : Type} (h : Heap α) (hi : Inv h) (ops : List (HOp α)) :
    h.run ops ≠ .error .doubleFree := by
  rcases run_ok hi ops with ⟨h', e, _⟩ | e <;> rw [e] <;> simp

theorem C19_no_use_after_free {α : Type} (h : Heap α) (hi : Inv h) (ops : List (HOp α)) :
    h.run ops ≠ .error .useAfterFree ∧ h.run ops ≠ .error .wildPointer ∧
    h.run ops ≠ .error .nullDeref ∧ h.run ops ≠ .error .outOfBounds ∧
    (∀ h', h.run ops = .ok h' → ∀ s o b, h'.slots s = some o → o.data = some b →
      ∃ cells, h'.bufs b = .live cells ∧ o.rows * o.cols ≤ cells.length) := by
  rcases run_ok hi ops with ⟨h', e, i'⟩ | e
  · rw [e]
    refine ⟨by simp, by simp, by simp, by simp, ?_⟩
    intro h2 e2 s o b h1 h2'
    cases e2
    exact (i'.no_dangling s o b h1 h2').2
  · rw [e]; simp

theorem C19_no_external_free {α : Type} (h : Heap α) (hi : Inv h) (ops : List (HOp α)) :
    h.run ops ≠ .error .freeExternal ∧
    (∀ h', h.run ops = .ok h' → h'.nExt = h.nExt ∧ ∀ e, e < h.nExt → ∃ cells, h'.ext e = some cells) := by
  constructor
  · rcases run_ok hi ops with ⟨h', e, _⟩ | e <;> rw [e] <;> simp
  · intro h' e; exact ext_live_run hi e

/-- The invariant behind the three statements: at every point of every run, the owners are
    disjoint (an owned buffer has exactly one raster pointing to it and is not a caller array). -/
theorem C19_owners_disjoint {α : Type} (h : Heap α) (hi : Inv h) (ops : List (HOp α)) (h' : Heap α)
    (hr : h.run ops = .ok h') (s s' : Nat) (o o' : RObj) (b : Nat)
    (h1 : h'.slots s = some o) (h2 : o.data = some b) (h3 : o.owns = true)
    (hne : s' ≠ s) (h4 : h'.slots s' = some o') : o'.data ≠ some b ∧ h'.nExt ≤ b :=
  let i' := inv_of_run hi hr
  ⟨(i'.owner_excl s o b h1 h2 h3).2 s' o' hne h4, (i'.owner_excl s o b h1 h2 h3).1⟩

/-- Copies are independent of their source. After `Raster s(t)` or `s = t` (in any reachable
    state, `s ≠ t`): `s` shows what `t` showed, nothing else changed, and from then on
    * whatever happens to the other variables and the caller arrays, `s` keeps showing that value
      until it is itself rebound or written through, and
    * a store through `s` is invisible through every other variable and in every caller array. -/
theorem C19_copy_independent {α : Type} (h h1 : Heap α) (hi : Inv h) (s t : Nat) (op : HOp α)
    (hop : op = .copyCtor s t ∨ (op = .copyAssign s t ∧ s ≠ t))
    (hs : h.inScope op = true) (he : h.step op = .ok h1) :
    h1.view s = h.view t ∧ (∀ u, u ≠ s → h1.view u = h.view u) ∧
    (∀ e, e < h.nExt → h1.ext e = h.ext e) ∧
    (∀ ops h2, (∀ op' ∈ ops, op'.reseats s = false ∧ op'.writesVia s = false) →
      h1.run ops = .ok h2 → h2.view s = h.view t) ∧
    (∀ ops h2 op' h3, (∀ op'' ∈ ops, op''.reseats s = false) → h1.run ops = .ok h2 →
      op'.writesVia s = true → h2.inScope op' = true → h2.step op' = .ok h3 →
      (∀ u, u ≠ s → h3.view u = h2.view u) ∧ (∀ e, e < h2.nExt → h3.ext e = h2.ext e)) := by
  obtain ⟨c1, c2, c3, c4⟩ := copy_effect hi hop hs he
  have i1 := inv_of_step hi hs he
  refine ⟨c1, c3, fun e he' => by simp only [ext, c4 e he'], ?_, ?_⟩
  · intro ops h2 hn hr
    rw [(private_run i1 ops c2 hn hr).2, c1]
  · intro ops h2 op' h3 hn hr hv hs' he'
    have p2 := private_keep_run i1 ops c2 hn hr
    obtain ⟨w1, w2⟩ := private_write_local (inv_of_run i1 hr) p2 hv hs' he'
    exact ⟨w1, fun e he'' => by simp only [ext, w2 e he'']⟩

/-- The hypotheses of the storage theorems are satisfiable in a non-trivial reachable state: a
    wrapper of a caller array (variable 0) and an owner (variable 1); copy-assigning the wrapper's
    view to the owner, and moving the owner, are in scope and succeed. -/
example : ∃ h h1 h2 : Heap Int, Inv h ∧ h.inScope (.copyAssign 1 0) = true ∧ h.step (.copyAssign 1 0) = .ok h1 ∧
    h.inScope (.moveCtor 3 1) = true ∧ h.step (.moveCtor 3 1) = .ok h2 ∧
    h1.view 1 = some ⟨2, 3, [1, 2, 3, 4, 5, 6]⟩ ∧ h2.view 3 = some ⟨2, 3, [7, 7, 7, 7, 7, 7]⟩ :=
  ⟨_, _, _, inv_of_run (inv_init [[1, 2, 3, 4, 5, 6]]) (ops := [.wrap 0 0 2 3, .construct 1 2 3 7]) rfl,
   rfl, rfl, rfl, rfl, by decide, by decide⟩

/-- Moves transfer the data. After `Raster s(std::move(t))` or `s = std::move(t)` (`s ≠ t`):
    `s` holds the very buffer and ownership flag `t` had and shows what `t` showed, nothing was
    allocated, `t` is left with a null pointer, and nothing else changed. -/
theorem C19_move_transfers {α : Type} (h h1 : Heap α) (hi : Inv h) (s t : Nat) (op : HOp α) (o : RObj)
    (hop : op = .moveCtor s t ∨ (op = .moveAssign s t ∧ s ≠ t))
    (hs : h.inScope op = true) (ht : h.slots t = some o) (he : h.step op = .ok h1) :
    h1.slots s = some ⟨o.rows, o.cols, o.data, o.owns⟩ ∧ h1.slots t = some { o with data := none } ∧
    h1.view s = h.view t ∧ h1.next = h.next ∧
    (∀ u, u ≠ s → u ≠ t → h1.view u = h.view u) ∧ (∀ e, e < h.nExt → h1.ext e = h.ext e) := by
  obtain ⟨m1, m2, m3, m4, m5, m6⟩ := move_effect hi hop hs ht he
  exact ⟨m1, m2, m3, m4, m5, fun e he' => by simp only [ext, m6 e he']⟩

/-- A raster wrapping caller-owned memory writes through to it and never frees it. After
    `Raster s(array e, r, c)`, for every continuation that does not rebind `s`: `s` still wraps
    `e` without owning it, it shows the first `r * c` cells of the caller's array as they are now
    (so the caller's own writes are seen), a write to cell `(i, j)` through `s` lands at index
    `i * c + j` of the array, and destroying `s` leaves the array as it is. -/
theorem C19_wrap_writes_through {α : Type} (h h1 : Heap α) (hi : Inv h) (s e r c : Nat)
    (hs : h.inScope (.wrap s e r c) = true) (he : h.step (.wrap s e r c) = .ok h1) :
    ∀ ops h2, (∀ op ∈ ops, op.reseats s = false) → h1.run ops = .ok h2 →
      h2.slots s = some ⟨r, c, some e, false⟩ ∧
      (∃ cells, h2.ext e = some cells ∧ r * c ≤ cells.length ∧ h2.view s = some ⟨r, c, cells.take (r * c)⟩) ∧
      (∀ i j v h3, h2.inScope (.write s i j v) = true → h2.step (.write s i j v) = .ok h3 →
        ∃ cells, h2.ext e = some cells ∧ i * c + j < cells.length ∧ h3.ext e = some (cells.set (i * c + j) v)) ∧
      (∀ h3, h2.step (.destroy s) = .ok h3 → h3.ext e = h2.ext e ∧ ∃ cells, h3.ext e = some cells) := by
  intro ops h2 hn hr
  have i1 := inv_of_step hi hs he
  have i2 := inv_of_run i1 hr
  have s1 : h1.slots s = some ⟨r, c, some e, false⟩ := by
    simp only [step] at he; cases he; simp
  have s2 : h2.slots s = some ⟨r, c, some e, false⟩ := by rw [slots_run i1 ops hn hr]; exact s1
  obtain ⟨_, cells, b1, b2⟩ := i2.no_dangling s _ e s2 rfl
  refine ⟨s2, ⟨cells, by simp [ext, b1], b2, view_of s2 rfl b1⟩, ?_, ?_⟩
  · intro i j v h3 hs' he'
    obtain ⟨cells', w1, w2, w3, _, _⟩ := write_effect i2 hs' s2 rfl he'
    exact ⟨cells', by simp [ext, w1], w2, by simp [ext, w3]⟩
  · intro h3 he'
    simp only [step, obj, s2, release, bind, Except.bind] at he'
    cases he'
    exact ⟨rfl, cells, by simp [ext, b1]⟩

/-- Operands that are not assigned to are left unchanged: `a op scalar`, `scalar op a`, `a op b`,
    `pow(a, k)`, `sqrt(a)` build their result in a new variable and leave every existing variable
    and every caller array as it was (also when the operator throws); the compound forms change
    only what is seen through the buffer of their left operand. -/
theorem C19_operands_unchanged {α : Type} (h h1 : Heap α) (hi : Inv h) (op : HOp α)
    (hs : h.inScope op = true) (he : h.step op = .ok h1) :
    (∀ d, ((∃ a f, op = .mapNew d a f) ∨ (∃ a b f, op = .zipNew d a b f) ∨ (∃ a f, op = .powNew d a f)) →
      (∀ u, u ≠ d → h1.view u = h.view u) ∧ (∀ e, e < h.nExt → h1.ext e = h.ext e)) ∧
    (∀ s, op.writesVia s = true → Private h s →
      (∀ u, u ≠ s → h1.view u = h.view u) ∧ (∀ e, e < h.nExt → h1.ext e = h.ext e)) ∧
    (∀ k, h.throws op = some k → h1 = h) := by
  refine ⟨?_, ?_, ?_⟩
  · intro d hop
    obtain ⟨f1, f2⟩ := fresh_result_frame hi hop hs he
    exact ⟨f1, fun e he' => by simp only [ext, f2 e he']⟩
  · intro s hv hp
    obtain ⟨w1, w2⟩ := private_write_local hi hp hv hs he
    exact ⟨w1, fun e he' => by simp only [ext, w2 e he']⟩
  · intro k hk
    have st := steps_of_step hi hs he
    cases st with
    | zipThrow => rfl
    | zipNewThrow => rfl
    | zipInPlace _ _ _ o o2 b b2 cells cells2 g1 g2 g3 =>
      rw [throws_zipInPlace g1 g2, if_neg g3] at hk; cases hk
    | zipNew _ _ _ _ o o2 p p2 cells cells2 g1 g2 g3 =>
      rw [throws_zipNew g1 g2, if_neg g3] at hk; cases hk
    | _ => simp [throws] at hk

/-- The storage-level operators compute the value-level ones: what the result variable shows is
    `Raster.map` / `Raster.zip` / `Raster.zipAssign` of what the operand variables showed (so
    Part A applies to it), including the `invalid_argument` rejection with the state untouched. -/
theorem C19_elementwise_heap {α : Type} (h h1 : Heap α) (hi : Inv h) :
    (∀ d a f op, (op = .mapNew d a f ∨ op = .powNew d a f) → h.inScope op = true → h.step op = .ok h1 →
      ∃ va, h.view a = some va ∧ h1.view d = some (va.map f)) ∧
    (∀ s f, h.inScope (.mapInPlace s f) = true → h.step (.mapInPlace s f) = .ok h1 →
      ∃ va, h.view s = some va ∧ h1.view s = some (va.map f)) ∧
    (∀ d a b f, h.inScope (.zipNew d a b f) = true → h.step (.zipNew d a b f) = .ok h1 →
      ∃ va vb, h.view a = some va ∧ h.view b = some vb ∧
        match Raster.zip f va vb with
        | .error k => h.throws (.zipNew d a b f) = some k ∧ h1 = h
        | .ok r => h.throws (.zipNew d a b f) = none ∧ h1.view d = some r) ∧
    (∀ s t f, h.inScope (.zipInPlace s t f) = true → h.step (.zipInPlace s t f) = .ok h1 →
      ∃ va vb, h.view s = some va ∧ h.view t = some vb ∧
        match Raster.zipAssign f va vb with
        | .error k => h.throws (.zipInPlace s t f) = some k ∧ h1 = h
        | .ok r => h.throws (.zipInPlace s t f) = none ∧ h1.view s = some r) :=
  ⟨fun _ _ _ _ hop hs he => mapNew_effect hi hop hs he, fun _ _ hs he => mapInPlace_effect hi hs he,
   fun _ _ _ _ hs he => zipNew_effect hi hs he, fun _ _ _ hs he => zipInPlace_effect hi hs he⟩

/-- A non-trivial run: a caller array wrapped twice, an owner copied into a wrapper (which then
    no longer writes through - the header keeps `owns_ == false` and the new buffer is never
    freed: a leak, not a fault), moves, arithmetic, destruction; the machine completes it. -/
def C19_demo : List (HOp Int) :=
  [.wrap 0 0 2 3, .construct 1 2 3 7, .copyCtor 2 0, .write 0 1 2 99, .moveCtor 3 1,
   .copyAssign 1 3, .zipNew 4 2 3 (· + ·), .zipInPlace 0 3 (· * ·), .powNew 5 0 (fun x => x * x),
   .moveAssign 2 0, .destroy 0, .destroy 2, .copyAssign 3 3, .destroy 3, .destroy 1, .destroy 4, .destroy 5]

example : ∃ h', (Heap.init [[1, 2, 3, 4, 5, 6]]).run C19_demo = .ok h' ∧
    h'.ext 0 = some [7, 14, 21, 28, 35, 693] ∧ (∀ s, s < 6 → h'.slots s = none) := by
  refine ⟨_, rfl, by decide, by decide⟩

/-! ## Finding F31: assignment INTO a raster that wraps caller memory

  `C19_wrap_writes_through` above carries the hypothesis `∀ op ∈ ops, op.reseats s = false`. The
  property quantifies over "every sequence of copy, move and assignment", so the continuation may
  assign to the wrapper, and there the header (raster.hpp:250-275) does not do what the sentence says:
  `w = x` gives `w` a new buffer, keeps `owns_ == false` (the buffer is never released) and the caller's
  array is no longer written; `w = std::move(x)` makes `w` hold `x`'s storage. The heap model mirrors
  the header, so the full statement is **refuted** here, and `C19_wrap_writes_through` stays as the
  proved part; its hypothesis excludes exactly the continuations that rebind the wrapper, of which the
  assignments into it (`Heap.f31Region`, Model/RasterF31.lean) are the open finding F31.
  (The three lemmas `Heap.writePtr_live`, `Heap.leaked_step`, `Heap.leaked_run` are helpers of
  `C19_assign_into_wrapper_leaks`.) -/

/-- Buffer `b` is allocated, is not a caller array, and no raster pointing to it owns it. -/
structure Heap.Leaked {α : Type} (h : Heap α) (b : Nat) : Prop where
  live : Live h b
  notExt : h.nExt ≤ b
  old : b < h.next
  unowned : Unowned h b

theorem Heap.writePtr_live {α : Type} {h h' : Heap α} (hi : Inv h) {op : HOp α} (st : Steps h op h') {p : Nat}
    (hw : h.writePtr op = some p) : Live h' p := by
  cases st with
  | write s r c v o b cells hs hd hb _ _ _ =>
    have e : b = p := by simpa [writePtr, hs, hd] using hw
    subst e; exact ⟨_, by simp only [pokeOf, upd_same]; rfl⟩
  | extWrite e i v cells _ hb _ =>
    have e' : e = p := by simpa [writePtr] using hw
    subst e'; exact ⟨_, by simp only [pokeOf, upd_same]; rfl⟩
  | mapInPlace s f o b cells hs hd hb _ =>
    have e : b = p := by simpa [writePtr, hs, hd] using hw
    subst e; exact ⟨_, by simp only [storeOf, upd_same]; rfl⟩
  | zipThrow s t f o o2 hs _ _ =>
    have e : o.data = some p := by simpa [writePtr, hs] using hw
    obtain ⟨_, cells, hc, _⟩ := hi.no_dangling s o p hs e
    exact ⟨cells, hc⟩
  | zipInPlace s t f o o2 b b2 cells cells2 hs _ _ hd _ _ _ _ _ =>
    have e : b = p := by simpa [writePtr, hs, hd] using hw
    subst e; exact ⟨_, by simp only [storeOf, upd_same]; rfl⟩
  | _ => simp [writePtr] at hw

theorem Heap.leaked_step {α : Type} {h h' : Heap α} (hi : Inv h) {op : HOp α} (st : Steps h op h') {b : Nat}
    (hl : Leaked h b) : Leaked h' b := by
  obtain ⟨c1, c2⟩ := counters_frame st
  refine ⟨?_, by rw [c1]; exact hl.notExt, by have := hl.old; omega, ?_⟩
  · rcases bufs_frame st b with g | g | g | ⟨u, o, _, g2, g3, g4⟩
    · obtain ⟨cells, hc⟩ := hl.live; exact ⟨cells, by rw [g, hc]⟩
    · have := hl.old; omega
    · exact writePtr_live hi st g
    · have := hl.unowned u o g2 g3; rw [this] at g4; cases g4
  · intro u o' hu hp
    have keep : h.slots u = some o' → o'.owns = false := fun hk => hl.unowned u o' hk hp
    have alloc_case : ∀ (h0 : Heap α) (d r c : Nat) (cells : List α) (w : Bool),
        h0.slots = h.slots → h0.next = h.next →
        (h0.allocInto d r c cells w).slots u = some o' → o'.owns = false := by
      intro h0 d r c cells w e1 e2 hk
      simp only [allocInto] at hk
      by_cases e : u = d
      · subst e
        simp only [upd_same, Option.some.injEq] at hk
        subst hk
        simp only [Option.some.injEq] at hp
        have := hl.old; omega
      · rw [upd_ne _ _ e, e1] at hk; exact keep hk
    have move_case : ∀ (h0 : Heap α) (s t : Nat) (o : RObj), h0.slots = h.slots → h.slots t = some o →
        (h0.moveOf s t o).slots u = some o' → o'.owns = false := by
      intro h0 s t o e1 ht hk
      simp only [moveOf] at hk
      by_cases e : u = t
      · subst e
        simp only [setSlot_same, Option.some.injEq] at hk
        subst hk; simp at hp
      · rw [setSlot_ne _ _ e] at hk
        by_cases e2 : u = s
        · subst e2
          simp only [setSlot_same, Option.some.injEq] at hk
          subst hk
          exact hl.unowned t o ht hp
        · rw [setSlot_ne _ _ e2, e1] at hk; exact keep hk
    cases st with
    | construct s r c v => exact alloc_case h s r c _ true rfl rfl hu
    | wrap s e r c he =>
      by_cases e1 : u = s
      · subst e1
        simp only [setSlot_same, Option.some.injEq] at hu
        subst hu
        simp only [Option.some.injEq] at hp
        have := hl.notExt; omega
      · rw [setSlot_ne _ _ e1] at hu; exact keep hu
    | copyCtor s t o b cells _ _ _ _ => exact alloc_case h s _ _ _ true rfl rfl hu
    | moveCtor s t o _ ht => exact move_case h s t o rfl ht hu
    | copySelf s => exact keep hu
    | moveSelf s => exact keep hu
    | copyAssign s t me o b cells h1 _ _ _ hr _ _ _ =>
      obtain ⟨r1, r2, _, _⟩ := release_frame hr
      exact alloc_case h1 s _ _ _ _ r1 r2 hu
    | moveAssign s t me o h1 _ _ ht hr =>
      obtain ⟨r1, _, _, _⟩ := release_frame hr
      exact move_case h1 s t o r1 ht hu
    | write s r c v o b cells _ _ _ _ _ _ => exact keep hu
    | destroy s o h1 _ hr =>
      obtain ⟨r1, _, _, _⟩ := release_frame hr
      by_cases e1 : u = s
      · subst e1; simp at hu
      · rw [setSlot_ne _ _ e1, r1] at hu; exact keep hu
    | extWrite e i v cells _ _ _ => exact keep hu
    | mapInPlace s f o b cells _ _ _ _ => exact keep hu
    | zipThrow s t f o o2 _ _ _ => exact keep hu
    | zipInPlace s t f o o2 b b2 cells cells2 _ _ _ _ _ _ _ _ _ => exact keep hu
    | mapNew d a f o b cells _ _ _ _ => exact alloc_case h d _ _ _ true rfl rfl hu
    | zipNewThrow d a b f o o2 _ _ _ => exact keep hu
    | zipNew d a b f o o2 p1 p2 cells cells2 _ _ _ _ _ _ _ _ _ => exact alloc_case h d _ _ _ true rfl rfl hu
    | powNew d a f o b cells _ _ _ _ =>
      have hu' : (h.allocInto d o.rows o.cols (cells.take o.size) true).slots u = some o' := hu
      exact alloc_case h d _ _ _ true rfl rfl hu'

theorem Heap.leaked_run {α : Type} {h h' : Heap α} (hi : Inv h) (ops : List (HOp α)) {b : Nat} (hl : Leaked h b)
    (hr : h.run ops = .ok h') : Leaked h' b := by
  induction ops generalizing h with
  | nil => simp only [run] at hr; cases hr; exact hl
  | cons op ops ih =>
    obtain ⟨hs, h1, e1, r1⟩ := run_cons hr
    exact ih (inv_of_step hi hs e1) (leaked_step hi (steps_of_step hi hs e1) hl) r1

/-- F31, the leak. A copy assignment in the region of F31 (`s ≠ t`, the target does not own its
    storage - e.g. it wraps a caller array), in any reachable state: the target then points to the
    freshly allocated buffer `h.next`, shows the source's value there, still does not own it, and no
    caller array received anything. That buffer is never released: it is allocated and without an
    owner after **every** continuation (no destructor and no later assignment `delete[]`s it), and
    after the destructor of `s` it is allocated with no variable pointing to it. -/
theorem C19_assign_into_wrapper_leaks {α : Type} (h h1 : Heap α) (hi : Inv h) (s t : Nat)
    (hreg : h.f31Region (.copyAssign s t) = true)
    (hs : h.inScope (.copyAssign s t) = true) (he : h.step (.copyAssign s t) = .ok h1) :
    (∃ r c, h1.slots s = some ⟨r, c, some h.next, false⟩) ∧ h1.orphan s = true ∧
    h1.view s = h.view t ∧ (∀ e, e < h.nExt → h1.ext e = h.ext e) ∧
    (∀ ops h2, h1.run ops = .ok h2 → Live h2 h.next ∧ Unowned h2 h.next) ∧
    (∀ h2, h1.step (.destroy s) = .ok h2 → Live h2 h.next ∧ Unreachable h2 h.next) := by
  have hne : s ≠ t := by
    intro e; simp [f31Region, e] at hreg
  have hno : h.nonOwning s = true := by
    simp only [f31Region, Bool.and_eq_true] at hreg; exact hreg.2
  obtain ⟨c1, _, _, c4⟩ := copy_effect hi (op := .copyAssign s t) (.inr ⟨rfl, hne⟩) hs he
  have i1 := inv_of_step hi hs he
  have st := steps_of_step hi hs he
  cases st with
  | copySelf => exact absurd rfl hne
  | copyAssign _ _ me o b cells h0 _ g1 g2 g3 g4 g5 g6 =>
    obtain ⟨r1, r2, r3, _⟩ := release_frame g3
    have hown : me.owns = false := by
      simp only [nonOwning, g1, Bool.not_eq_true'] at hno; exact hno
    have hslot : (h0.allocInto s o.rows o.cols (cells.take o.size) me.owns).slots s =
        some ⟨o.rows, o.cols, some h.next, false⟩ := by
      simp only [allocInto, upd_same, r2, hown]
    have hother : ∀ u, u ≠ s → (h0.allocInto s o.rows o.cols (cells.take o.size) me.owns).slots u = h.slots u := by
      intro u hu; simp only [allocInto, upd_ne _ _ hu, r1]
    have hext : h.nExt ≤ h.next := hi.ext_le
    have hl : Leaked (h0.allocInto s o.rows o.cols (cells.take o.size) me.owns) h.next := by
      refine ⟨⟨_, by simp only [allocInto, r2, upd_same]; rfl⟩, by simp only [allocInto, r3]; exact hext,
        by simp only [allocInto, r2]; omega, ?_⟩
      intro u o' hu hp
      by_cases e : u = s
      · subst e; rw [hslot] at hu; cases hu; rfl
      · rw [hother u e] at hu
        have := (hi.no_dangling u o' _ hu hp).1; omega
    refine ⟨⟨_, _, hslot⟩, ?_, c1, fun e he' => by simp only [ext, c4 e he'], ?_, ?_⟩
    · simp only [orphan, hslot, Bool.not_false, Bool.true_and, decide_eq_true_eq]
      simp only [allocInto, r3]; exact hext
    · intro ops h2 hr
      have := leaked_run i1 ops hl hr
      exact ⟨this.live, this.unowned⟩
    · intro h2 hd
      simp only [step, obj, hslot, release, bind, Except.bind] at hd
      cases hd
      refine ⟨?_, ?_⟩
      · obtain ⟨cells', hc⟩ := hl.live; exact ⟨cells', by simpa [setSlot] using hc⟩
      · intro u o' hu hp
        by_cases e : u = s
        · subst e; simp at hu
        · rw [setSlot_ne _ _ e, hother u e] at hu
          have := (hi.no_dangling u o' _ hu hp).1; omega

/-- The statement of `C19_wrap_writes_through` with the hypothesis `∀ op ∈ ops, op.reseats s = false`
    removed: the property's sentence over *every* continuation, assignments into the wrapper included. -/
def C19_wrap_writes_through_full : Prop :=
  ∀ (α : Type) (h h1 : Heap α), Inv h → ∀ (s e r c : Nat),
    h.inScope (.wrap s e r c) = true → h.step (.wrap s e r c) = .ok h1 →
    ∀ ops h2, h1.run ops = .ok h2 →
      h2.slots s = some ⟨r, c, some e, false⟩ ∧
      (∃ cells, h2.ext e = some cells ∧ r * c ≤ cells.length ∧ h2.view s = some ⟨r, c, cells.take (r * c)⟩) ∧
      (∀ i j v h3, h2.inScope (.write s i j v) = true → h2.step (.write s i j v) = .ok h3 →
        ∃ cells, h2.ext e = some cells ∧ i * c + j < cells.length ∧ h3.ext e = some (cells.set (i * c + j) v)) ∧
      (∀ h3, h2.step (.destroy s) = .ok h3 → h3.ext e = h2.ext e ∧ ∃ cells, h3.ext e = some cells)

/-- The witness of F31: `int b[6] = {1,..,6}; Raster w(b, 2, 3), x(2, 3, 7); w = x;` -/
def C19_f31_witness : List (HOp Int) := [.wrap 0 0 2 3, .construct 1 2 3 7, .copyAssign 0 1]

/-- It fails on `[wrap, construct, copyAssign into the wrapper, write]`: after `w = x` the write
    `w(0, 0) = 9` is in scope and succeeds, and the caller's array still reads `1, 2, 3, 4, 5, 6`. -/
theorem C19_wrap_writes_through_full_fails : ¬ C19_wrap_writes_through_full := by
  intro H
  obtain ⟨_, _, hw, _⟩ := H Int (Heap.init [[1, 2, 3, 4, 5, 6]]) _ (inv_init _) 0 0 2 3 rfl rfl
    [.construct 1 2 3 7, .copyAssign 0 1] _ rfl
  obtain ⟨cells, e1, _, e2⟩ := hw 0 0 9 _ rfl rfl
  have e1' : some [1, 2, 3, 4, 5, 6] = some cells := e1
  cases e1'
  revert e2
  decide

/-- The same sentence restricted to what can be asked of a variable that still holds the raster:
    over every continuation that neither destroys `s` nor moves from it (assignments INTO `s` are
    allowed), a write through `s` lands in the caller's array. -/
def C19_wrap_writes_through_over_assignments : Prop :=
  ∀ (α : Type) (h h1 : Heap α), Inv h → ∀ (s e r c : Nat),
    h.inScope (.wrap s e r c) = true → h.step (.wrap s e r c) = .ok h1 →
    ∀ ops h2, (∀ op ∈ ops, op.vacates s = false) → h1.run ops = .ok h2 →
      ∀ i j v h3, h2.inScope (.write s i j v) = true → h2.step (.write s i j v) = .ok h3 →
        ∃ o cells, h2.slots s = some o ∧ h2.ext e = some cells ∧ h3.ext e = some (cells.set (i * o.cols + j) v)

theorem C19_wrap_writes_through_over_assignments_fails : ¬ C19_wrap_writes_through_over_assignments := by
  intro H
  obtain ⟨o, cells, e0, e1, e2⟩ := H Int (Heap.init [[1, 2, 3, 4, 5, 6]]) _ (inv_init _) 0 0 2 3 rfl rfl
    [.construct 1 2 3 7, .copyAssign 0 1] _ (by decide) rfl 0 0 9 _ rfl rfl
  have e0' : some (⟨2, 3, some 2, false⟩ : RObj) = some o := e0
  have e1' : some [1, 2, 3, 4, 5, 6] = some cells := e1
  cases e0'; cases e1'
  revert e2
  decide

/-- The move form, `w = std::move(x)`, is in the region as well: `w` ends up owning `x`'s buffer (so
    nothing leaks: its destructor releases it once), the caller's array is dropped without notice and
    the write `w(0, 0) = 9` does not reach it. -/
example : ∃ h2 h3 : Heap Int, (Heap.init [[1, 2, 3, 4, 5, 6]]).run [.wrap 0 0 2 3, .construct 1 2 3 7] = .ok h2 ∧
    h2.f31Region (.moveAssign 0 1) = true ∧ h2.run [.moveAssign 0 1, .write 0 0 0 9] = .ok h3 ∧
    h3.slots 0 = some ⟨2, 3, some 1, true⟩ ∧ h3.orphan 0 = false ∧
    h3.view 0 = some ⟨2, 3, [9, 7, 7, 7, 7, 7]⟩ ∧ h3.ext 0 = some [1, 2, 3, 4, 5, 6] :=
  ⟨_, _, rfl, by decide, rfl, by decide, by decide, by decide, by decide⟩

/-- What the witness run looks like. The assignment is in the region of F31 (`h1` is the state before
    it); afterwards the wrapper shows the sevens in a buffer of its own (id 2) that it does not own, and
    the caller's array received nothing; the write goes to that buffer; after the destructor the
    buffer is still allocated and no variable points to it. -/
theorem C19_f31_witness_run :
    ∃ h1 h2 h3 h4, (Heap.init [[1, 2, 3, 4, 5, 6]]).run (C19_f31_witness.take 2) = .ok h1 ∧
      h1.f31Region (.copyAssign 0 1) = true ∧ h1.inScope (.copyAssign 0 1) = true ∧
      h1.step (.copyAssign 0 1) = .ok h2 ∧
      h2.slots 0 = some ⟨2, 3, some 2, false⟩ ∧ h2.orphan 0 = true ∧
      h2.view 0 = some ⟨2, 3, [7, 7, 7, 7, 7, 7]⟩ ∧ h2.ext 0 = some [1, 2, 3, 4, 5, 6] ∧
      h2.inScope (.write 0 0 0 9) = true ∧ h2.step (.write 0 0 0 9) = .ok h3 ∧
      h3.view 0 = some ⟨2, 3, [9, 7, 7, 7, 7, 7]⟩ ∧ h3.ext 0 = some [1, 2, 3, 4, 5, 6] ∧
      h3.step (.destroy 0) = .ok h4 ∧ h4.slots 0 = none ∧ h4.slots 1 = some ⟨2, 3, some 1, true⟩ ∧
      h4.bufs 2 = .live [9, 7, 7, 7, 7, 7] :=
  ⟨_, _, _, _, rfl, by decide, by decide, rfl, by decide, by decide, by decide, by decide, by decide, rfl,
   by decide, by decide, rfl, by decide, by decide, rfl⟩

end Pops
