/-
  C01  Hosts are conserved: only mortality and removal treatments take hosts out.
  Property theorems only; helper lemmas belong in PopsModel/Lemmas/HostInv*.lean.
-/
import PopsModel.Model.HostOps
import PopsModel.Lemmas.HostInv
import PopsModel.Lemmas.HostInv3
namespace Pops

/-- Every action at a cell obeys the ledger of its class: reclassification keeps the number of
    hosts, a removal treatment only takes hosts out, mortality takes out exactly the hosts it
    adds to `died`. For all arguments in the documented domain, all draws. -/
theorem C01_cell_step (op : CellOp) (c c' : Cell) (hd : op.inDomain c)
    (hn : c.nonNeg = true) (ht : c.totalsOK = true) (h : op.apply c = .ok c') :
    ledgerOK op.ledger c c' = true :=
  (cellOp_facts op c c' hd (good_of_bool hn ht) h).ledger

/-- A host move only relocates hosts between the two cells. Holds for every mortality-cohort draw
    `dM` (the C++ always produces a `ValidDraw src.mort d.i dM`) and whatever the length of the
    target's mortality-cohort list (in the C++ all cells share the length of the tracker vector). -/
theorem C01_move (src dst : Cell) (count : Int) (d : ClassDraw) (dE dM : List Int)
    (hs : src.nonNeg = true) (hts : src.totalsOK = true)
    (hd : validClassDrawB src count d = true)
    (hE : d.e > 0 → ValidDraw src.e d.e dE)
    (hlenE : dst.e.length = src.e.length) :
    let r := moveHosts src dst count d dE dM
    moveLedgerOK src dst r.1 r.2.1 = true :=
  move_ledger (good_of_bool hs hts) hd hE hlenE

/-- Over any history of actions (any interleaving, any length, any draws) from a consistent
    landscape: hosts after = hosts before - hosts reported dead - hosts taken out by removal
    treatments; none of the two sinks is negative; in particular no action creates a host. -/
theorem C01_history (ops : List LandOp) (l l' : Land) (hinv : l.inv) (hu : l.uniform)
    (hd : DomainAlong ops l) (h : runOps ops l = .ok l') :
    l'.hosts = l.hosts - (l'.died - l.died) - removedAlong ops l ∧
    0 ≤ removedAlong ops l ∧ l.died ≤ l'.died ∧ l'.hosts ≤ l.hosts :=
  history_ledger ops l l' hinv hu hd h

/-- Non-vacuity: a two-cell SEI landscape and a history with a removal treatment, mortality and
    a host move satisfies the hypotheses. -/
example : (Land.inv [⟨5, [1, 2], 3, 0, 3, [1, 2], 0, 11⟩, ⟨2, [0, 0], 0, 0, 0, [0, 0], 0, 2⟩]) := by
  intro c hc
  simp only [List.mem_cons, List.not_mem_nil, or_false] at hc
  rcases hc with rfl | rfl <;> decide

end Pops
