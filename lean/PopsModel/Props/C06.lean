/-
  C06  Same seed, same result; random streams are isolated.
  Property theorems only; the model is in Model/Stream.lean, Model/StreamUses.lean,
  Model/StreamText.lean, helper lemmas in Lemmas/Stream.lean, Lemmas/StreamText.lean.

  What is proved here is the stream algebra: seed order, rejection, aliasing in single mode,
  isolation in multi mode, the frame property of every computation that reaches the provider
  only through the accessors the table `uses` allows, and `read_seeds`. That the C++ model step
  *is* a function of configuration, seeds and inputs (no hidden state) is not a theorem: it is
  checked by running the real code twice (harness h_stream, sub-check `rng.twice`).
-/
import PopsModel.Lemmas.StreamText
import PopsModel.Model.StreamSpec
namespace Pops

/-! ### Seeding -/

/-- Multi-stream mode with a single seed `s`: the ten names occupy ten distinct positions of the
    documented order and the stream at position `k` is seeded with `s + k` (as `unsigned`; without
    wrap-around when `s + 9 < 2^32`), whichever way the provider is made. -/
theorem C06_seed_order {σ : Type} (E : Engine σ) (s : Nat) :
    (StreamName.all.map StreamName.key =
      ["disperser_generation", "natural_dispersal", "anthropogenic_dispersal", "establishment", "weather",
       "lethal_temperature", "movement", "overpopulation", "survival_rate", "soil"]) ∧
    StreamName.all.Nodup ∧ (∀ n, n ∈ StreamName.all) ∧
    (∀ a b : StreamName, a.index = b.index → a = b) ∧
    (∀ k, k < 10 → ∃ n, StreamName.all[k]? = some n ∧ n.index = k ∧
      (seedMulti E s).get n = E.seed (u32 (s + k))) ∧
    (s + 9 < 4294967296 → ∀ n, (seedMulti E s).get n = E.seed (s + n.index)) ∧
    Provider.ofSeed E s true = .multi (seedMulti E s) ∧
    (∀ c : SeedCfg, c.multipleRandomSeeds = true → c.randomSeeds = [] →
      Provider.ofConfig E c = .ok (.multi (seedMulti E (u32OfInt c.randomSeed)))) := by
  refine ⟨rfl, StreamName.all_nodup, StreamName.mem_all, fun _ _ h => StreamName.index_inj h, ?_, ?_, rfl, ?_⟩
  · intro k hk
    obtain ⟨n, h1, h2⟩ := StreamName.index_all k hk
    exact ⟨n, h1, h2, by rw [seedMulti_get, h2]⟩
  · intro h n
    rw [seedMulti_get, u32_of_lt]
    have := StreamName.index_lt n
    omega
  · intro c h1 h2
    simp [Provider.ofConfig, seedMultiConfig, h1, h2]

example : (seedMulti (σ := Nat) ⟨id, fun g => (g, g + 1)⟩ 4294967290).get .soil = 3 := by decide

/-- A seed map that lacks one of the ten keys is rejected with `invalid_argument` by every
    entry point; a map with all ten keys is accepted and each stream gets the value of its key. -/
theorem C06_missing_seed_rejected {σ : Type} (E : Engine σ) (m : SeedMap) :
    (∀ n : StreamName, m.find? n.key = none →
      seedNamed E m = .error .invalid_argument ∧
      Provider.ofMap E m = .error .invalid_argument ∧
      validateSeeds m = .error .invalid_argument ∧
      (m ≠ [] → ∀ r, Provider.ofConfig E { randomSeed := r, multipleRandomSeeds := true, randomSeeds := m }
        = .error .invalid_argument)) ∧
    (∀ f : StreamName → Nat, (∀ n, m.find? n.key = some (f n)) →
      ∃ s : Streams σ, Provider.ofMap E m = .ok (.multi s) ∧ (∀ n, s.get n = E.seed (f n)) ∧
        ∀ r, Provider.ofConfig E { randomSeed := r, multipleRandomSeeds := true, randomSeeds := m }
          = .ok (.multi s)) := by
  constructor
  · intro n hn
    have h1 := seedNamed_missing E m n hn
    refine ⟨h1, by simp [Provider.ofMap, h1], ?_, ?_⟩
    · simp [validateSeeds, seedNamed_missing _ m n hn]
    · intro hne r
      have : m.isEmpty = false := by cases m with | nil => exact absurd rfl hne | cons _ _ => rfl
      simp [Provider.ofConfig, seedMultiConfig, this, h1]
  · intro f hf
    have h1 := seedNamed_complete E m f hf
    refine ⟨_, by simp [Provider.ofMap, h1], fun n => Streams.get_ofFn _ n, ?_⟩
    intro r
    have : m.isEmpty = false := by
      cases m with
      | nil => have := hf .soil; simp [SeedMap.find?] at this
      | cons _ _ => rfl
    simp [Provider.ofConfig, seedMultiConfig, this, h1]

example : seedNamed (σ := Nat) ⟨id, fun g => (g, g)⟩ [("soil", 3), ("weather", 4)] = .error .invalid_argument := by
  decide

/-- A provider holding several generators cannot be used as one generator: `operator()` and
    `discard` throw `runtime_error`; and every multi-stream way of construction gives such a
    provider. In single mode both work on the one generator. -/
theorem C06_single_use_rejected {σ : Type} (E : Engine σ) :
    (∀ s : Streams σ, (Provider.multi s).call E = .error .runtime_error ∧
      ∀ k, (Provider.multi s).discard E k = .error .runtime_error) ∧
    (∀ s, (Provider.ofSeed E s true).isMulti = true) ∧
    (∀ m p, Provider.ofMap E m = .ok p → p.isMulti = true) ∧
    (∀ c p, Provider.ofConfig E c = .ok p → p.isMulti = c.multipleRandomSeeds) ∧
    (∀ g : σ, (Provider.single g).call E = .ok ((E.next g).1, .single (E.next g).2) ∧
      ∀ k, (Provider.single g).discard E k = .ok (.single (E.discard k g))) := by
  refine ⟨fun s => ⟨rfl, fun _ => rfl⟩, fun _ => rfl, ?_, ?_, fun g => ⟨rfl, fun _ => rfl⟩⟩
  · intro m p h
    unfold Provider.ofMap at h
    split at h
    · cases h; rfl
    · cases h
  · intro c p h
    unfold Provider.ofConfig at h
    split at h
    · rename_i hm
      split at h
      · cases h; simp [Provider.isMulti, hm]
      · cases h
    · rename_i hm
      cases h; simp [Provider.isMulti, hm]

/-- Single mode: every named stream is the same generator - a use of any of them advances all. -/
theorem C06_single_aliases {σ : Type} (E : Engine σ) (g : σ) (n : StreamName) (d : Dist σ) :
    (∀ m, (Provider.single g).get m = g) ∧
    ((Provider.single g).useStream n d).1 = (d g).1 ∧
    (∀ m, ((Provider.single g).useStream n d).2.get m = (d g).2) ∧
    (∀ m, ((Provider.single g).drawFrom E n).2.get m = (E.next g).2) ∧
    (∀ s m, (Provider.ofSeed E s false).get m = E.seed s) ∧
    (∀ c : SeedCfg, c.multipleRandomSeeds = false →
      Provider.ofConfig E c = .ok (.single (E.seed (u32OfInt c.randomSeed)))) := by
  refine ⟨fun _ => rfl, rfl, fun _ => rfl, fun _ => rfl, fun _ _ => rfl, ?_⟩
  intro c h
  simp [Provider.ofConfig, h]

/-- Multi mode: a use of one stream advances that stream only; the other nine keep their state
    (frame property of the record update). -/
theorem C06_isolated {σ : Type} (E : Engine σ) (s : Streams σ) (n : StreamName) (d : Dist σ) :
    ((Provider.multi s).useStream n d).1 = (d (s.get n)).1 ∧
    ((Provider.multi s).useStream n d).2.get n = (d (s.get n)).2 ∧
    (∀ m, m ≠ n → ((Provider.multi s).useStream n d).2.get m = s.get m) ∧
    (∀ m, m ≠ n → ((Provider.multi s).drawFrom E n).2.get m = s.get m) := by
  refine ⟨rfl, ?_, ?_, ?_⟩
  · simp [Provider.useStream_multi, Provider.get]
  · intro m hm
    simp only [Provider.useStream_multi, Provider.get]
    exact Streams.get_set_other _ _ hm
  · intro m hm
    simp only [Provider.drawFrom_eq_useStream, Provider.useStream_multi, Provider.get]
    exact Streams.get_set_other _ _ hm

example : ((Provider.multi (seedMulti (σ := Nat) ⟨id, fun g => (g, g + 100)⟩ 5)).drawFrom
    ⟨id, fun g => (g, g + 100)⟩ .weather).2 =
    .multi { (seedMulti (σ := Nat) ⟨id, fun g => (g, g + 100)⟩ 5) with weather := 109 } := by decide

/-! ### Frame property of the processes -/

/-- **Frame.** Let `a` be any computation that reaches the provider only through the accessors
    of the streams `uses P c` allows for process `P` under the features `c`. In multi-stream mode
    its result and the final states of the streams in `uses P c` depend only on the initial states
    of those streams; every other stream is left exactly as it was. -/
theorem C06_frame {σ α : Type} (P : Proc) (c : UseCfg) (a : Act σ α) (w : a.Within (uses P c))
    (p q : Streams σ) (hpq : ∀ n ∈ uses P c, p.get n = q.get n) :
    (a.run (.multi p)).1 = (a.run (.multi q)).1 ∧
    ∃ p' q', (a.run (.multi p)).2 = .multi p' ∧ (a.run (.multi q)).2 = .multi q' ∧
      (∀ n ∈ uses P c, p'.get n = q'.get n) ∧
      (∀ n, n ∉ uses P c → p'.get n = p.get n ∧ q'.get n = q.get n) :=
  Act.frame w p q hpq

/-- The seed of a stream the process does not use is irrelevant: with named seeds `f`, changing
    the seed of a stream outside `uses P c` changes neither the result nor any other stream. -/
theorem C06_unused_seed_irrelevant {σ α : Type} (E : Engine σ) (P : Proc) (c : UseCfg) (a : Act σ α)
    (w : a.Within (uses P c)) (n : StreamName) (hn : n ∉ uses P c) (f : StreamName → Nat) (v : Nat) :
    let p := Streams.ofFn fun m => E.seed (f m)
    let q := Streams.ofFn fun m => E.seed (if m = n then v else f m)
    (a.run (.multi p)).1 = (a.run (.multi q)).1 ∧
    ∃ p' q', (a.run (.multi p)).2 = .multi p' ∧ (a.run (.multi q)).2 = .multi q' ∧
      (∀ m, m ≠ n → p'.get m = q'.get m) ∧ p'.get n = E.seed (f n) ∧ q'.get n = E.seed v := by
  intro p q
  have hpq : ∀ m ∈ uses P c, p.get m = q.get m := by
    intro m hm
    have : m ≠ n := fun h => hn (h ▸ hm)
    simp [p, q, this]
  obtain ⟨r, p', q', hp, hq, hU, hout⟩ := Act.frame w p q hpq
  refine ⟨r, p', q', hp, hq, ?_, ?_, ?_⟩
  · intro m hm
    by_cases hu : m ∈ uses P c
    · exact hU m hu
    · obtain ⟨h1, h2⟩ := hout m hu
      rw [h1, h2]; simp [p, q, hm]
  · rw [(hout n hn).1]; simp [p]
  · rw [(hout n hn).2]; simp [q]

/-- A process that is disabled or made deterministic uses no stream at all: its computation is a
    constant that returns the provider untouched. -/
theorem C06_no_stream_no_effect {σ α : Type} (P : Proc) (c : UseCfg) (a : Act σ α)
    (w : a.Within (uses P c)) (h : uses P c = []) :
    ∃ x, ∀ q : Provider σ, a.run q = (x, q) :=
  Act.frame_nil (h ▸ w)

/-- The table, read for the statement "a disabled or deterministic process does not use its
    stream" (library kernel), together with the two observations of the design:
    O1 movement always draws, O2 with two or more hosts establishment draws even when it is
    deterministic. -/
theorem C06_table (c : UseCfg) (hk : c.injectedKernel = none) :
    (c.generateStochastic = false → StreamName.disperserGeneration ∉ uses .spread c) ∧
    (c.establishmentStochastic = false → c.hosts ≤ 1 → StreamName.establishment ∉ uses .spread c) ∧
    (c.soils = false → StreamName.soil ∉ uses .spread c) ∧
    (c.useAnthro = false → StreamName.anthropogenicDispersal ∉ uses .spread c) ∧
    (kernelDraws c.naturalKernel c.dispersalStochastic = false → StreamName.naturalDispersal ∉ uses .spread c) ∧
    (c.generateStochastic = false → c.soils = false → uses .generate c = []) ∧
    (c.useLethal = false → StreamName.lethalTemperature ∉ usesRun c) ∧
    (c.useSurvival = false → StreamName.survivalRate ∉ usesRun c) ∧
    (c.useOverpopulation = false → StreamName.overpopulation ∉ usesRun c) ∧
    (c.useMovements = false → StreamName.movement ∉ usesRun c) ∧
    (c.weatherFromDistribution = false → StreamName.weather ∉ usesRun c) ∧
    (∀ P, StreamName.weather ∈ uses P c → P = .weather) ∧
    -- O1, O2
    (StreamName.movement ∈ uses .movement c) ∧
    (2 ≤ c.hosts → StreamName.establishment ∈ uses .disperse c) := by
  have hku : kernelUses c =
      (if kernelDraws c.naturalKernel c.dispersalStochastic then [StreamName.naturalDispersal] else []) ++
      (if c.useAnthro then [StreamName.anthropogenicDispersal] else []) := by
    simp [kernelUses, hk]
  refine ⟨?_, ?_, ?_, ?_, ?_, ?_, ?_, ?_, ?_, ?_, ?_, ?_, ?_, ?_⟩
  · intro h; simp [uses, usesGenerate, usesDisperse, hku, h]
  · intro h1 h2
    have : ¬ 2 ≤ c.hosts := by omega
    simp [uses, usesGenerate, usesDisperse, hku, establishmentDraws, h1, this]
  · intro h; simp [uses, usesGenerate, usesDisperse, hku, h]
  · intro h; simp [uses, usesGenerate, usesDisperse, hku, h]
  · intro h; simp [uses, usesGenerate, usesDisperse, hku, h]
  · intro h1 h2; simp [uses, usesGenerate, h1, h2]
  · intro h
    simp [usesRun, Proc.all, enabled, h, uses, usesGenerate, usesDisperse, hku]
    repeat' split
    all_goals simp
  · intro h
    simp [usesRun, Proc.all, enabled, h, uses, usesGenerate, usesDisperse, hku]
    repeat' split
    all_goals simp
  · intro h
    simp [usesRun, Proc.all, enabled, h, uses, usesGenerate, usesDisperse, hku]
    repeat' split
    all_goals simp
  · intro h
    simp [usesRun, Proc.all, enabled, h, uses, usesGenerate, usesDisperse, hku]
    repeat' split
    all_goals simp
  · intro h
    simp [usesRun, Proc.all, enabled, h, uses, usesGenerate, usesDisperse, hku]
    repeat' split
    all_goals simp
  · intro P hP
    cases P <;> first | rfl | (exfalso; revert hP; simp [uses, usesGenerate, usesDisperse, hku]; repeat' split; all_goals simp)
  · simp [uses]
  · intro h; simp [uses, usesDisperse, establishmentDraws, h]

/-! #### The processes of the library stay within the table

Each skeleton has the loops, flags and draw sites of the code (Model/StreamUses.lean); the
non-random logic is arbitrary. With these, `C06_frame` applies to every process. -/

theorem C06_within_weather {σ W : Type} (c : UseCfg) (cells : List (Int × Int)) (normal : Int × Int → Dist σ)
    (store : W → Int × Int → Nat → W) (w : W) :
    (weatherAct cells normal store w).Within (uses .weather c) := weatherAct_within c cells normal store w

theorem C06_within_lethal {σ W : Type} (c : UseCfg) (suitable : W → List (Int × Int)) (below : W → Int × Int → Bool)
    (hosts : List Nat) (count : Int × Int → Nat → W → Nat) (shuffle : Int × Int → Nat → W → Dist σ)
    (apply : Int × Int → Nat → W → Option Nat → W) (w : W) :
    (lethalAct suitable below hosts count shuffle apply w).Within (uses .lethal c) :=
  lethalAct_within c suitable below hosts count shuffle apply w

theorem C06_within_survival {σ W : Type} (c : UseCfg) (suitable : W → List (Int × Int)) (partial_ : W → Int × Int → Bool)
    (hosts : List Nat) (countI countE : Int × Int → Nat → W → Nat)
    (shuffleI shuffleE : Int × Int → Nat → W → Dist σ)
    (applyI applyE : Int × Int → Nat → W → Option Nat → W) (w : W) :
    (survivalAct suitable partial_ hosts countI countE shuffleI shuffleE applyI applyE w).Within (uses .survival c) :=
  survivalAct_within c suitable partial_ hosts countI countE shuffleI shuffleE applyI applyE w

theorem C06_within_generate {σ W : Type} (c : UseCfg) (suitable : W → List (Int × Int)) (infected : W → Int × Int → Nat)
    (poisson : W → Int × Int → Dist σ) (generated : W → Int × Int → List Nat → Int)
    (toSoil : W → Int × Int → Int → Nat) (uniform : Dist σ)
    (store : W → Int × Int → Int → List Nat → W) (w : W) :
    (generateAct c suitable infected poisson generated toSoil uniform store w).Within (uses .generate c) :=
  generateAct_within c suitable infected poisson generated toSoil uniform store w

/-- The kernel `create_dynamic_kernel` builds stays within `kernelUses`. -/
theorem C06_within_kernel {σ : Type} (c : UseCfg) (hinj : c.injectedKernel = none) (eligible : Bool)
    (coin natural anthro : Dist σ) (pureNatural pureAnthro : Nat) :
    (libraryKernelAct c eligible coin natural anthro pureNatural pureAnthro).Within (kernelUses c) :=
  libraryKernelAct_within c hinj eligible coin natural anthro pureNatural pureAnthro

/-- `SpreadAction::disperse` with any kernel that stays within `kernelUses c` (the library's, or a
    client-supplied one within the accessors it declares) and landings through
    `MultiHostPool::disperser_to`. -/
theorem C06_within_disperse {σ W : Type} (c : UseCfg) (kernel : W → Int × Int → Act σ Nat)
    (hk : ∀ w cell, (kernel w cell).Within (kernelUses c))
    (suitable : W → List (Int × Int)) (dispersers : W → Int × Int → Nat) (inside : W → Nat → Bool)
    (outside : W → Nat → W) (positive hasSusceptible : W → Nat → Bool) (pick uniform : Dist σ)
    (apply : W → Nat → Nat → Option Nat → W)
    (soilCount : W → Int × Int → Nat) (poisson shuffle : W → Int × Int → Dist σ)
    (released : W → Int × Int → List Nat → Nat → Nat) (afterRelease : W → Int × Int → List Nat → Nat → W)
    (cellIndex : Int × Int → Nat) (w : W) :
    (disperseAct c kernel suitable dispersers inside outside
      (landAct c positive hasSusceptible pick uniform apply) soilCount poisson shuffle released
      afterRelease cellIndex w).Within (uses .disperse c) :=
  disperseAct_within c kernel hk suitable dispersers inside outside _
    (fun t w => landAct_within c positive hasSusceptible pick uniform apply t w)
    soilCount poisson shuffle released afterRelease cellIndex w

/-- `SpreadAction::action` = generate, then disperse. -/
theorem C06_within_spread {σ W : Type} (c : UseCfg) (gen : W → Act σ W) (disp : W → Act σ W)
    (hg : ∀ w, (gen w).Within (uses .generate c)) (hd : ∀ w, (disp w).Within (uses .disperse c)) (w : W) :
    ((gen w).bind disp).Within (uses .spread c) :=
  ((hg w).mono (by intro n hn; simp only [uses, List.mem_append]; exact .inl hn)).bind fun w' =>
    (hd w').mono (by intro n hn; simp only [uses, List.mem_append]; exact .inr hn)

theorem C06_within_overpopulation {σ W : Type} (c : UseCfg) (suitable : W → List (Int × Int))
    (over : W → Int × Int → Bool) (kernel shuffleFrom : W → Int × Int → Dist σ)
    (leave : W → Int × Int → Nat → Nat → W) (moves : W → List Nat) (shuffleTo : W → Nat → Dist σ)
    (arrive : W → Nat → Nat → W) (w : W) :
    (overpopulationAct suitable over kernel shuffleFrom leave moves shuffleTo arrive w).Within (uses .overpopulation c) :=
  overpopulationAct_within c suitable over kernel shuffleFrom leave moves shuffleTo arrive w

theorem C06_within_movement {σ W : Type} (c : UseCfg) (rows : W → List Nat)
    (shuffle shuffleE shuffleM : W → Nat → Dist σ) (exposedMoved infectedMoved : W → Nat → Nat → Nat)
    (apply : W → Nat → Nat → Option Nat → Option Nat → W) (w : W) :
    (movementAct rows shuffle shuffleE shuffleM exposedMoved infectedMoved apply w).Within (uses .movement c) :=
  movementAct_within c rows shuffle shuffleE shuffleM exposedMoved infectedMoved apply w

/-- Non-trivial instance of the frame hypotheses: stochastic generation without soils uses
    exactly the disperser-generation stream, and a computation drawing twice from it is within. -/
example : uses .generate {} = [.disperserGeneration] ∧
    (Act.samples (σ := Nat) .disperserGeneration (fun g => (g, g + 1)) 2).Within (uses .generate {}) :=
  ⟨by decide, Act.Within.samples _ (by decide) 2⟩

/-! ### `read_seeds` -/

/-- `Config::read_seeds(vector)`: accepted iff there are exactly ten seeds; then the k-th seed is
    stored under the k-th name of the documented order, multiple seeds are switched on, and the
    provider made from the configuration seeds every stream with its own value. -/
theorem C06_read_seeds {σ : Type} (E : Engine σ) (c : SeedCfg) (seeds : List Nat) :
    (readSeedsVec c seeds = .error .invalid_argument ↔ seeds.length ≠ 10) ∧
    (seeds.length = 10 → ∃ c', readSeedsVec c seeds = .ok c' ∧ c'.multipleRandomSeeds = true ∧
      c'.randomSeed = c.randomSeed ∧
      (∀ n : StreamName, c'.randomSeeds.find? n.key = some (seeds.getD n.index 0)) ∧
      Provider.ofConfig E c' = .ok (.multi (Streams.ofFn fun n => E.seed (seeds.getD n.index 0)))) := by
  constructor
  · unfold readSeedsVec
    rw [StreamName.all_length]
    constructor
    · intro h
      split at h
      · rename_i hne; exact fun e => hne e.symm
      · cases h
    · intro h
      have : (10 : Nat) ≠ seeds.length := fun e => h e.symm
      simp [this]
  · intro hl
    have hl' : StreamName.all.length = seeds.length := by rw [StreamName.all_length, hl]
    have hfind : ∀ n : StreamName,
        (insertSeeds StreamName.all seeds c.randomSeeds).find? n.key = some (seeds.getD n.index 0) := by
      intro n
      obtain ⟨h1, _⟩ := insertSeeds_find StreamName.all seeds c.randomSeeds hl' StreamName.all_nodup
      have hk : n.index < StreamName.all.length := by rw [StreamName.all_length]; exact StreamName.index_lt n
      have := h1 n.index hk
      have e : StreamName.all[n.index] = n := by
        have := StreamName.all_index n
        rw [List.getElem?_eq_getElem hk] at this
        exact Option.some.inj this
      rw [e] at this
      rw [this]
      have hk2 : n.index < seeds.length := by rw [hl]; exact StreamName.index_lt n
      simp [List.getD, List.getElem?_eq_getElem hk2]
    refine ⟨{ c with randomSeeds := insertSeeds StreamName.all seeds c.randomSeeds, multipleRandomSeeds := true },
      by simp [readSeedsVec, hl'], rfl, rfl, hfind, ?_⟩
    have hne : (insertSeeds StreamName.all seeds c.randomSeeds).isEmpty = false := by
      cases hm : insertSeeds StreamName.all seeds c.randomSeeds with
      | nil => have := hfind .soil; rw [hm] at this; simp [SeedMap.find?] at this
      | cons _ _ => rfl
    simp [Provider.ofConfig, seedMultiConfig, hne, seedNamed_complete E _ _ hfind]

example : ∃ c', readSeedsVec {} [10, 11, 12, 13, 14, 15, 16, 17, 18, 19] = .ok c' ∧
    c'.randomSeeds.find? "weather" = some 14 := ⟨_, rfl, by decide⟩

/-- `Config::read_seeds(text, ...)`, round trip: a well-formed text (keys are words without
    blanks or separators, values below 2^64, separators not digits) reads back as exactly the
    rendered pairs, the newest entry of a key first, values converted to `unsigned`. -/
theorem C06_read_seeds_text_roundtrip (c : SeedCfg) (sep kv : Char) (ps : List (List Char × Nat))
    (wf : WellFormed sep kv ps) :
    readSeedsText c sep kv (renderPairs sep kv ps) =
      .ok { c with randomSeeds := entries ps, multipleRandomSeeds := true } := by
  simp [readSeedsText, readKeyValuePairs_render sep kv ps wf]

/-- The ten documented names with seeds `f n < 2^32`, written as `name<kv>seed` records: the text
    is accepted and the provider made from the configuration seeds every stream with its own
    value. -/
theorem C06_read_seeds_text {σ : Type} (E : Engine σ) (c : SeedCfg) (sep kv : Char) (f : StreamName → Nat)
    (hf : ∀ n, f n < 4294967296) (hsd : isDigitC sep = false) (hne : sep ≠ kv)
    (hsep : ∀ n : StreamName, ∀ ch ∈ n.key.toList, ch ≠ sep ∧ ch ≠ kv) :
    ∃ c', readSeedsText c sep kv (renderPairs sep kv (StreamName.all.map fun n => (n.key.toList, f n))) = .ok c' ∧
      c'.multipleRandomSeeds = true ∧
      Provider.ofConfig E c' = .ok (.multi (Streams.ofFn fun n => E.seed (f n))) := by
  let ps := StreamName.all.map fun n => (n.key.toList, f n)
  have wf : WellFormed sep kv ps := by
    refine ⟨hsd, hne, ?_, ?_⟩
    · intro p hp
      obtain ⟨n, _, rfl⟩ := List.mem_map.mp hp
      have h1 : n.key.toList ≠ [] := by cases n <;> decide
      have h2 : ∀ ch ∈ n.key.toList, ch ≠ ' ' := by cases n <;> decide
      exact ⟨⟨h1, fun ch hch => ⟨h2 ch hch, (hsep n ch hch).2⟩⟩, fun ch hch => (hsep n ch hch).1⟩
    · intro p hp
      obtain ⟨n, _, rfl⟩ := List.mem_map.mp hp
      have := hf n
      show f n ≤ 18446744073709551615
      omega
  refine ⟨_, C06_read_seeds_text_roundtrip c sep kv ps wf, rfl, ?_⟩
  have hfind : ∀ n : StreamName, (entries ps).find? n.key = some (f n) := by
    intro n
    apply SeedMap.find_of_mem
    · have : (entries ps).map (·.1) = (StreamName.all.map StreamName.key).reverse := by
        simp [entries, ps, List.map_reverse, String.ofList_toList]
      rw [this, StreamName.all_keys]; decide
    · simp only [entries, List.mem_reverse, List.mem_map]
      exact ⟨(n.key.toList, f n), List.mem_map.mpr ⟨n, StreamName.mem_all n, rfl⟩,
        by simp [String.ofList_toList, u32_of_lt (hf n)]⟩
  have hnem : (entries ps).isEmpty = false := by
    cases hm : entries ps with
    | nil => have := hfind .soil; rw [hm] at this; simp [SeedMap.find?] at this
    | cons _ _ => rfl
  simp [Provider.ofConfig, seedMultiConfig, hnem, seedNamed_complete E _ _ hfind]

/-- Malformed records are rejected with `invalid_argument`: a record without the key-value
    separator (in particular an empty record), and a value that does not start with a digit or
    sign. -/
theorem C06_read_seeds_malformed (kv : Char) (line : List Char) (h : ∀ ch ∈ line, ch ≠ kv) :
    parseRecord kv line = .error .invalid_argument := by
  have : ∀ pre, findKV kv pre line = none := by
    induction line with
    | nil => intro pre; rfl
    | cons a l ih =>
      intro pre
      have ha : (a == kv) = false := by simpa using h a List.mem_cons_self
      simp only [findKV, ha]
      exact ih (fun ch hch => h ch (List.mem_cons_of_mem _ hch)) _
  simp [parseRecord, this]

example : readKeyValuePairs ',' '=' "soil=7,weather = 12,".toList = .ok [("weather", 12), ("soil", 7)] := by
  decide +kernel
example : readKeyValuePairs ',' '=' "soil=7,,weather=12".toList = .error .invalid_argument := by
  decide +kernel

/-! ### "Made deterministic": what the property allows against what the code uses

`specUses c` (Model/StreamSpec.lean) is the sentence of the property read as a table: the stream of
a process may matter only if the process takes part in the run and its flag - if it has one - does
not say deterministic. `usesRun c` is the model of the code. The full sentence
(`C06_deterministic_mode_full`) fails in exactly three regions, the open findings F28, F29, F32
(`C06_code_outside_spec`); outside them it is proved (`C06_deterministic_mode_partial`), and for
every stream outside `usesRun` it holds in every configuration
(`C06_unused_seed_run_irrelevant`). -/

/-- Membership in `usesRun`: some process that takes part in the run may draw from the stream. -/
theorem C06_mem_usesRun (c : UseCfg) (n : StreamName) :
    n ∈ usesRun c ↔ ∃ P, enabled c P = true ∧ n ∈ uses P c := by
  have hall : ∀ P : Proc, P ∈ Proc.all := by intro P; cases P <;> decide
  simp only [usesRun, List.mem_flatMap, List.mem_filter]
  constructor
  · rintro ⟨P, ⟨_, he⟩, hn⟩; exact ⟨P, he, hn⟩
  · rintro ⟨P, he, hn⟩; exact ⟨P, ⟨hall P, he⟩, hn⟩

/-- Every process of the model stays within the table `uses`. -/
theorem C06_model_process_within {σ : Type} (c : UseCfg) (P : Proc) (α : Type) (a : Act σ α)
    (h : ModelProcess c P α a) : a.Within (uses P c) := by
  induction h with
  | weather cells normal store w => exact weatherAct_within c cells normal store w
  | lethal suitable below hosts count shuffle apply w => exact lethalAct_within c suitable below hosts count shuffle apply w
  | survival suitable partial_ hosts countI countE shuffleI shuffleE applyI applyE w =>
    exact survivalAct_within c suitable partial_ hosts countI countE shuffleI shuffleE applyI applyE w
  | generate suitable infected poisson generated toSoil uniform store w =>
    exact generateAct_within c suitable infected poisson generated toSoil uniform store w
  | kernel hinj eligible coin natural anthro pureNatural pureAnthro =>
    exact (libraryKernelAct_within c hinj eligible coin natural anthro pureNatural pureAnthro).mono
      (by intro n hn; simp [uses, usesDisperse, hn])
  | land positive hasSusceptible pick uniform apply target w =>
    exact (landAct_within c positive hasSusceptible pick uniform apply target w).mono
      (by intro n hn; simp only [uses, usesDisperse, List.mem_append]; exact .inl (.inr hn))
  | disperse kernel hk suitable dispersers inside outside positive hasSusceptible pick uniform apply
      soilCount poisson shuffle released afterRelease cellIndex w =>
    exact C06_within_disperse c kernel hk suitable dispersers inside outside positive hasSusceptible pick uniform
      apply soilCount poisson shuffle released afterRelease cellIndex w
  | spread gen disp _ _ w ihg ihd => exact C06_within_spread c gen disp ihg ihd w
  | overpopulation suitable over kernel shuffleFrom leave moves shuffleTo arrive w =>
    exact overpopulationAct_within c suitable over kernel shuffleFrom leave moves shuffleTo arrive w
  | movement rows shuffle shuffleE shuffleM exposedMoved infectedMoved apply w =>
    exact movementAct_within c rows shuffle shuffleE shuffleM exposedMoved infectedMoved apply w

/-- **The part that holds in every configuration**: the seed of a stream outside `usesRun c` - no
    process that takes part in the run can draw from it - is irrelevant for every process of the
    model. -/
theorem C06_unused_seed_run_irrelevant {σ : Type} (E : Engine σ) (c : UseCfg) (P : Proc) (α : Type) (a : Act σ α)
    (hP : enabled c P = true) (hm : ModelProcess c P α a) (n : StreamName) (hn : n ∉ usesRun c) :
    SeedIrrelevant E a n := by
  intro f v
  have hn' : n ∉ uses P c := fun h => hn ((C06_mem_usesRun c n).2 ⟨P, hP, h⟩)
  exact (C06_unused_seed_irrelevant E P c a (C06_model_process_within c P α a hm) n hn' f v).1

/-- The full sentence: in every configuration, for every process of the model that takes part in
    the run, the result does not depend on the seed of a stream the property does not allow the
    run to depend on (the process of that stream is disabled, or made deterministic by its flag). -/
def C06_deterministic_mode_full : Prop :=
  ∀ (σ : Type) (E : Engine σ) (c : UseCfg) (P : Proc) (α : Type) (a : Act σ α),
    enabled c P = true → ModelProcess c P α a → ∀ n, n ∉ specUses c → SeedIrrelevant E a n

/-- Where the code uses a stream the property does not allow: exactly the regions of the three
    open findings. -/
theorem C06_code_outside_spec (c : UseCfg) (n : StreamName) (hu : n ∈ usesRun c) (hs : n ∉ specUses c) :
    (n = .establishment ∧ f28Region c = true) ∨ (n = .movement ∧ f29Region c = true) ∨
    (n = .anthropogenicDispersal ∧ f32Region c = true) := by
  have hs' : specAllows c n = false := by
    cases h : specAllows c n with
    | false => rfl
    | true => exact absurd (List.mem_filter.mpr ⟨StreamName.mem_all n, h⟩) hs
  obtain ⟨P, hP, hn⟩ := (C06_mem_usesRun c n).1 hu
  cases hinj : c.injectedKernel with
  | none =>
    cases n <;> cases P <;>
      simp [uses, usesGenerate, usesDisperse, kernelUses, establishmentDraws, enabled, specAllows, clientDeclares,
        processStochastic, hinj, f28Region, f29Region, f32Region] at hn hP hs' ⊢ <;> grind
  | some l =>
    cases n <;> cases P <;>
      simp [uses, usesGenerate, usesDisperse, kernelUses, establishmentDraws, enabled, specAllows, clientDeclares,
        processStochastic, hinj, f28Region, f29Region, f32Region] at hn hP hs' ⊢ <;> grind

/-- The property never allows more than the code uses. -/
theorem C06_spec_within_code (c : UseCfg) (n : StreamName) (hs : n ∈ specUses c) : n ∈ usesRun c := by
  have hs' : specAllows c n = true := (List.mem_filter.mp hs).2
  rw [C06_mem_usesRun]
  simp only [specAllows, Bool.or_eq_true] at hs'
  rcases hs' with hcl | hpr
  · refine ⟨.disperse, rfl, ?_⟩
    unfold clientDeclares at hcl
    cases hinj : c.injectedKernel with
    | none => simp [hinj] at hcl
    | some l =>
      simp [hinj] at hcl
      simp [uses, usesDisperse, kernelUses, hinj, hcl]
  · cases n
    case disperserGeneration => exact ⟨.generate, rfl, by simp_all [processStochastic, uses, usesGenerate]⟩
    case naturalDispersal => exact ⟨.disperse, rfl, by simp_all [processStochastic, uses, usesDisperse, kernelUses]⟩
    case anthropogenicDispersal =>
      exact ⟨.disperse, rfl, by simp_all [processStochastic, uses, usesDisperse, kernelUses]⟩
    case establishment =>
      exact ⟨.disperse, rfl, by simp_all [processStochastic, uses, usesDisperse, establishmentDraws]⟩
    case weather => exact ⟨.weather, by simp_all [processStochastic, enabled], by simp [uses]⟩
    case lethalTemperature => exact ⟨.lethal, by simp_all [processStochastic, enabled], by simp [uses]⟩
    case movement => exact ⟨.movement, by simp_all [processStochastic, enabled], by simp [uses]⟩
    case overpopulation => exact ⟨.overpopulation, by simp_all [processStochastic, enabled], by simp [uses]⟩
    case survivalRate => exact ⟨.survival, by simp_all [processStochastic, enabled], by simp [uses]⟩
    case soil => exact ⟨.disperse, rfl, by simp_all [processStochastic, uses, usesDisperse]⟩

/-- The three extra hypotheses of the partial theorem are the negations of the regions the driver
    evaluates. -/
theorem C06_region_iff (c : UseCfg) :
    (f28Region c = false ↔ (c.hosts ≤ 1 ∨ c.establishmentStochastic = true)) ∧
    (f29Region c = false ↔ (c.useMovements = false ∨ c.movementStochastic = true)) ∧
    (f32Region c = false ↔ (c.useAnthro = false ∨ c.dispersalStochastic = true ∨
      c.anthroKernel.randomByType = true ∨ c.injectedKernel ≠ none)) := by
  refine ⟨?_, ?_, ?_⟩
  · simp only [f28Region, Bool.and_eq_false_iff, Bool.not_eq_false', decide_eq_false_iff_not]
    constructor
    · rintro (h | h)
      · exact .inr h
      · exact .inl (by omega)
    · rintro (h | h)
      · exact .inr (by omega)
      · exact .inl h
  · simp only [f29Region, Bool.and_eq_false_iff, Bool.not_eq_false']
  · cases hi : c.injectedKernel <;> cases h1 : c.useAnthro <;> cases h2 : c.dispersalStochastic <;>
      cases h3 : c.anthroKernel.randomByType <;> simp [f32Region, hi, h1, h2, h3]

/-- **The sentence outside the three open findings.** If establishment is stochastic or there is
    at most one host (not F28), movements are off or `movement_stochasticity` is on (not F29), and
    the anthropogenic kernel is off or dispersal is stochastic or the anthropogenic kernel type is
    random by definition or the kernel is the client's (not F32), then for every process of the
    model that takes part in the run the seed of every stream the property does not allow is
    irrelevant. -/
theorem C06_deterministic_mode_partial {σ : Type} (E : Engine σ) (c : UseCfg) (P : Proc) (α : Type) (a : Act σ α)
    (hP : enabled c P = true) (hm : ModelProcess c P α a)
    (h28 : c.hosts ≤ 1 ∨ c.establishmentStochastic = true)
    (h29 : c.useMovements = false ∨ c.movementStochastic = true)
    (h32 : c.useAnthro = false ∨ c.dispersalStochastic = true ∨ c.anthroKernel.randomByType = true ∨
      c.injectedKernel ≠ none)
    (n : StreamName) (hn : n ∉ specUses c) : SeedIrrelevant E a n := by
  apply C06_unused_seed_run_irrelevant E c P α a hP hm n
  intro hu
  obtain ⟨r28, r29, r32⟩ := C06_region_iff c
  rcases C06_code_outside_spec c n hu hn with ⟨_, h⟩ | ⟨_, h⟩ | ⟨_, h⟩
  · rw [r28.2 h28] at h; cases h
  · rw [r29.2 h29] at h; cases h
  · rw [r32.2 h32] at h; cases h

/-- The engine of the counter-examples: seeding with `v` gives the state `v`, a draw returns the
    state and advances it by one. -/
def counterEngine : Engine Nat := ⟨id, fun g => (g, g + 1)⟩

/-- F28. Two hosts, `establishment_stochasticity = false`: one landing (`MultiHostPool::disperser_to`)
    on a cell with susceptible hosts still draws the receiving host from the establishment stream;
    with the establishment seed 0 host 0 receives the disperser, with seed 1 host 1 - while
    the property does not allow the run to depend on that seed. Hence the full sentence fails. -/
theorem C06_deterministic_establishment_multi_host_fails :
    (∃ (c : UseCfg) (a : Act Nat Nat), c.establishmentStochastic = false ∧ c.hosts = 2 ∧ f28Region c = true ∧
      ModelProcess c .disperse Nat a ∧ StreamName.establishment ∉ specUses c ∧
      ¬ SeedIrrelevant counterEngine a .establishment) ∧
    ¬ C06_deterministic_mode_full := by
  let c : UseCfg := { establishmentStochastic := false, hosts := 2 }
  let a : Act Nat Nat :=
    landAct c (fun _ _ => true) (fun _ _ => true) (fun g => (g % 2, g + 1)) (fun g => (g, g + 1))
      (fun _ _ host _ => host) 0 0
  have hm : ModelProcess c .disperse Nat a := .land _ _ _ _ _ _ _
  have hs : StreamName.establishment ∉ specUses c := by decide
  have hdep : ¬ SeedIrrelevant counterEngine a .establishment := by
    intro h
    have := h (fun _ => 0) 1
    revert this
    decide
  exact ⟨⟨c, a, rfl, rfl, by decide, hm, hs, hdep⟩,
    fun hfull => hdep (hfull Nat counterEngine c .disperse Nat a rfl hm .establishment hs)⟩

/-- F29. Host movements on, `movement_stochasticity = false`: a movement row
    (`HostPool::move_hosts_from_to`) still draws the classes of the moved hosts from the movement
    stream - the flag is read nowhere; the result differs between the movement seeds 0 and 1 -
    while the property does not allow the run to depend on that seed. Hence the full sentence fails. -/
theorem C06_movement_stochasticity_ignored :
    (∃ (c : UseCfg) (a : Act Nat Nat), c.useMovements = true ∧ c.movementStochastic = false ∧ f29Region c = true ∧
      enabled c .movement = true ∧ ModelProcess c .movement Nat a ∧ StreamName.movement ∉ specUses c ∧
      ¬ SeedIrrelevant counterEngine a .movement) ∧
    ¬ C06_deterministic_mode_full := by
  let c : UseCfg := { useMovements := true, movementStochastic := false }
  let a : Act Nat Nat :=
    movementAct (fun _ => [0]) (fun _ _ g => (g % 2, g + 1)) (fun _ _ g => (g, g + 1)) (fun _ _ g => (g, g + 1))
      (fun _ _ _ => 0) (fun _ _ _ => 0) (fun _ _ d _ _ => d) 0
  have hm : ModelProcess c .movement Nat a := .movement _ _ _ _ _ _ _ _
  have hs : StreamName.movement ∉ specUses c := by decide
  have hdep : ¬ SeedIrrelevant counterEngine a .movement := by
    intro h
    have := h (fun _ => 0) 1
    revert this
    decide
  exact ⟨⟨c, a, rfl, rfl, by decide, rfl, hm, hs, hdep⟩,
    fun hfull => hdep (hfull Nat counterEngine c .movement Nat a rfl hm .movement hs)⟩

/-- F32. Library kernel with the anthropogenic kernel on, `dispersal_stochasticity = false`, both
    kernel types radial (so both kernels are deterministic): the choice between the natural and
    the anthropogenic kernel (`NaturalAnthropogenicDispersalKernel::operator()`) is still drawn
    from the anthropogenic-dispersal stream per disperser; the disperser lands where the natural
    kernel sends it with seed 1 and where the anthropogenic kernel sends it with seed 0 - while the
    property does not allow the run to depend on that seed. Hence the full sentence fails. -/
theorem C06_deterministic_dispersal_kernel_choice_fails :
    (∃ (c : UseCfg) (a : Act Nat Nat), c.useAnthro = true ∧ c.dispersalStochastic = false ∧ f32Region c = true ∧
      ModelProcess c .disperse Nat a ∧ StreamName.anthropogenicDispersal ∉ specUses c ∧
      ¬ SeedIrrelevant counterEngine a .anthropogenicDispersal) ∧
    ¬ C06_deterministic_mode_full := by
  let c : UseCfg := { useAnthro := true, dispersalStochastic := false }
  let a : Act Nat Nat :=
    libraryKernelAct c true (fun g => (g % 2, g + 1)) (fun g => (g, g + 1)) (fun g => (g, g + 1)) 10 20
  have hm : ModelProcess c .disperse Nat a := .kernel rfl _ _ _ _ _ _
  have hs : StreamName.anthropogenicDispersal ∉ specUses c := by decide
  have hdep : ¬ SeedIrrelevant counterEngine a .anthropogenicDispersal := by
    intro h
    have := h (fun _ => 0) 1
    revert this
    decide
  exact ⟨⟨c, a, rfl, rfl, by decide, hm, hs, hdep⟩,
    fun hfull => hdep (hfull Nat counterEngine c .disperse Nat a rfl hm .anthropogenicDispersal hs)⟩

/-- The hypotheses of the partial theorem are satisfiable by a configuration in which the two
    sets differ from the full set: deterministic establishment with one host, movements on with
    `movement_stochasticity` on, anthropogenic uniform kernel under deterministic dispersal. -/
example : ∃ c : UseCfg, c.establishmentStochastic = false ∧ c.useMovements = true ∧ c.useAnthro = true ∧
    c.dispersalStochastic = false ∧
    (c.hosts ≤ 1 ∨ c.establishmentStochastic = true) ∧ (c.useMovements = false ∨ c.movementStochastic = true) ∧
    (c.useAnthro = false ∨ c.dispersalStochastic = true ∨ c.anthroKernel.randomByType = true ∨ c.injectedKernel ≠ none) ∧
    StreamName.establishment ∉ specUses c ∧ StreamName.movement ∈ specUses c ∧
    StreamName.anthropogenicDispersal ∈ specUses c ∧ StreamName.naturalDispersal ∉ specUses c :=
  ⟨{ establishmentStochastic := false, useMovements := true, useAnthro := true, dispersalStochastic := false,
     anthroKernel := .uniform }, rfl, rfl, rfl, rfl, by decide, by decide, by decide, by decide, by decide, by decide,
   by decide⟩

end Pops
